import sys, random, collections
sys.path.insert(0,__import__('os').environ.get('REPO','/repo')); sys.path.insert(0,'/tmp/probe')
import networkx as nx
from gen import *
from cgsmiles import MoleculeResolver
def nm(a,b): return a['element']==b['element'] and a.get('charge',0)==b.get('charge',0)
def em(a,b): return a['order']==b['order']
def cut_share(rng,g,nfrag,pshare):
    n=len(g)
    nodes=list(g); rng.shuffle(nodes)
    seeds=nodes[:nfrag]; part={s:i for i,s in enumerate(seeds)}
    while len(part)<n:
        u=rng.choice([x for x in part if any(v not in part for v in g[x])])
        v=rng.choice([v for v in g[u] if v not in part]); part[v]=part[u]
    # build per-fragment graphs (copy of g restricted) possibly with extra shared atoms
    big=g.copy()  # we add copy atoms into big with new ids, and record fragment membership lists
    members={i:[k for k in part if part[k]==i] for i in range(nfrag)}
    desc=collections.defaultdict(list); base=nx.Graph(); base.add_nodes_from(range(nfrag))
    lab=0; nshared=0
    for a,b,o in list(g.edges(data='order')):
        if part[a]!=part[b]:
            lab+=1; L='L%d'%lab
            oo=1 if o==1.5 else o
            fa,fb=part[a],part[b]
            if rng.random()<pshare:
                # share atom b: copy b into fragment of a
                if rng.random()<0.5: a,b,fa,fb=b,a,fb,fa
                c=max(big)+1
                big.add_node(c,**g.nodes[b]); big.nodes[c]['h']=0
                big.add_edge(a,c,order=o)
                members[fa].append(c)
                desc[c].append(('!'+L,1)); desc[b].append(('!'+L,1)); nshared+=1
            else:
                desc[a].append(('$'+L,oo)); desc[b].append(('$'+L,oo))
            if base.has_edge(fa,fb): base.edges[fa,fb]['order']+=1
            else: base.add_edge(fa,fb,order=1)
    fragstrs=['#F%d='%i+render_frag(rng,big,members[i],desc) for i in range(nfrag)]
    return base,fragstrs,nshared
rng=random.Random(int(sys.argv[1]))
res=collections.Counter(); ex=collections.defaultdict(list)
for t in range(int(sys.argv[2])):
    g=rnd_mol(rng, rng.randint(2,10), charged_p=0.0, aromatic_p=float(sys.argv[3]) if len(sys.argv)>3 else 0.3)
    whole='{[#M]}.{#M='+render_frag(rng,g,list(g),{})+'}'
    try: _,ref=MoleculeResolver.from_string(whole).resolve()
    except Exception as e: res['ref EXC']+=1; continue
    nf=rng.randint(2,min(4,len(g))) if len(g)>=2 else 1
    base,fragstrs,nshared=cut_share(rng,g,nf,0.6)
    if nshared==0: continue
    if base.number_of_edges() and max(o for *_,o in base.edges(data='order'))>4: continue
    for i in base: base.nodes[i]['fragname']='F%d'%i
    s='{'+','.join(fragstrs)+'}'
    try: cg,fine=MoleculeResolver.from_graph(s,base).resolve()
    except Exception as e:
        k='cut EXC '+type(e).__name__; res[k]+=1; ex[k].append((whole,s,sorted(base.edges(data='order')),str(e)[:60])); continue
    if nx.is_isomorphic(ref,fine,node_match=nm,edge_match=em): res['ok']+=1
    else: res['DIFF']+=1; ex['DIFF'].append((whole,s,sorted(base.edges(data='order')),nshared))
print(res)
for k,v in ex.items():
    v.sort(key=lambda x: len(str(x)))
    print('==',k)
    for x in v[:10]: print('   ',x)
