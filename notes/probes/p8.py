import sys
sys.path.insert(0,__import__('os').environ.get('REPO','/repo'))
import networkx as nx
from cgsmiles import read_cgsmiles, MoleculeResolver
from cgsmiles.read_fragments import strip_bonding_descriptors, read_fragments
from cgsmiles.dialects import parse_graph_base_node, _fragment_node_parser
def t(f,*a):
    try: print(a,'->',f(*a))
    except BaseException as e: print(a,'-> EXC',type(e).__name__,e)
import io, contextlib
with contextlib.redirect_stdout(io.StringIO()) as buf: pass
for s in ["A","A;1","A;q=1","A;+1","A;-0.25","A;1e-1","A;1;0.5","A;w=0.5","A;w=0.5;q=1","A;q=1;w=0.5","A;1;w=0.5","A;w=0.5;1","A;mass=72","A;q=1;mass=72;c=r","A;1;2;3","A;q=a","A;w=ab=c","A;q=1;q=2","A;fragname=B","fragname=B","A;","A;;1",";1","A;q=","A;=1","A;kwargs=3","A;q=inf","A;q=nan","A;q=1_0","A;q= 1","A;weight=3","A;charge=3", "A;q=0x10","A;q=１"]:
    t(parse_graph_base_node,s)
for s in ["","0.5","w=0.5","x=S","0.5;S","S","x=S;w=2","w=2;x=S","a=b","1;R;z","w=a","q=4;p=s"]:
    t(_fragment_node_parser,s)
for s in ["{[#A;q=1;w=2;foo=bar][#B]}"]:
    g=read_cgsmiles(s); print(dict(g.nodes(data=True)))
r=MoleculeResolver.from_string("{[#A;q=1;w=2;foo=bar][#B]}.{#A=[$]C[C;x=R;w=0.5;k=v]O,#B=[$][N;0.25]}")
cg,fg=r.resolve()
print(dict(cg.nodes(data=True)))
print(dict(fg.nodes(data=True)))
r=MoleculeResolver.from_string("{[#A;q=1;w=2;foo=bar][#B]}.{#A=[$][#X;q=3;0.5;k=v][#Y],#B=[$][#Z;0.25]}",last_all_atom=False)
cg,fg=r.resolve()
print(dict(fg.nodes(data=True)))
