import sys, io, contextlib, random, json
sys.path.insert(0,__import__('os').environ.get('REPO','/repo'))
import numpy as np, networkx as nx
from cgsmiles import MoleculeResolver, read_cgsmiles
def nm(k): return lambda a,b: a.get(k)==b.get(k)
em=lambda a,b:a.get('order')==b.get('order')
# C06
three="{[#B1][#B2][#B1]}.{#B1=[#PEO]|4[>],#B2=[<][#PE]|2[>]}.{#PEO=[>]COC[<],#PE=[>]CC[<]}"
three="{[#B1][#B2]}.{#B1=[#PEO]|2[#X][>],#B2=[<][#PE]|2}.{#PEO=[$]COC[$],#PE=[$]CC[$],#X=[$]N[$]}"
two="{[#PEO]|2[#X][#PE]|2}.{#PEO=[$]COC[$],#PE=[$]CC[$],#X=[$]N[$]}"
r=MoleculeResolver.from_string(three); steps=list(r.resolve_iter())
print(len(steps), [ (len(a),len(b)) for a,b in steps])
a=steps[-1][1]; b=MoleculeResolver.from_string(two).resolve_all()[1]
print('iso', nx.is_isomorphic(a,b,node_match=nm('element'),edge_match=em))
print('coarse of step2 is fine of step1', steps[1][0] is steps[0][1])
print('lvl1 fine', [(n,d.get('atomname'),d.get('fragname'),d.get('fragid')) for n,d in steps[0][1].nodes(data=True)])
print('lvl2 meta fragnames', [(n,d.get('fragname')) for n,d in steps[1][0].nodes(data=True)])
r2=MoleculeResolver.from_string(three); c=r2.resolve_all()[1]
print('resolve_all same', nx.is_isomorphic(a,c,node_match=nm('element'),edge_match=em), sorted(a.edges)==sorted(c.edges))
# coarse last
r=MoleculeResolver.from_string("{[#B1][#B2]}.{#B1=[#PEO]|2[#X][>],#B2=[<][#PE]|2}",last_all_atom=False); cg,fg=r.resolve()
print([(n,d.get('atomname'),d.get('fragid')) for n,d in fg.nodes(data=True)], sorted(fg.edges(data='order')))
# C12: contiguity
cg,aa=MoleculeResolver.from_string("{[#A][#B][#C]}.{#A=CC[$],#B=[$]CO[$],#C=[$]CCN}").resolve()
print(sorted((n,d['fragid'][0],d['atomname']) for n,d in aa.nodes(data=True)))
# from different constructors
# C15
for s in ["{[#A]}.{#A=F/C=C/F}","{[#A][#B]}.{#A=F/C=[$],#B=[$]=C/F}","{[#B][#A]}.{#A=F/C=[$],#B=[$]=C/F}","{[#A][#B]}.{#A=F[$],#B=[$]/C=C/F}","{[#A][#B]}.{#A=F/[$],#B=[$]C=C/F}",
          "{[#A][#B]}.{#A=C(\F)=[$],#B=[$]=C/F}", "{[#A][#B][#C]}.{#A=F/C=[$],#B=[$]=C/C[$],#C=[$]O}", "{[#C][#B][#A]}.{#A=F/C=[$],#B=[$]=C/C[$],#C=[$]O}"]:
    try:
        cg,aa=MoleculeResolver.from_string(s).resolve()
        ez={n:d for n,d in aa.nodes(data='ez_isomer') if d}
        print(s, ez, [(n,aa.nodes[n]['element']) for n in sorted(aa)][:8])
    except BaseException as e: print(s,'EXC',type(e).__name__,e)
