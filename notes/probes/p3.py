import sys, random, itertools, collections
sys.path.insert(0,__import__('os').environ.get('REPO','/repo'))
import networkx as nx
from cgsmiles import read_cgsmiles
SYM={0:'.',1:'',2:'=',3:'#',4:'$'}
# item = dict(name, order(to prev), branches, mult, multorder(None or int), rings=[(id,order,opening?)])
def expand(chain):
    """longhand chain: replace multipliers by copies. unit = node (no branches) or node+branches"""
    out=[]
    for it in chain:
        brs=[expand(b) for b in it['branches']]
        for k in range(it['mult']):
            o = it['order'] if k==0 else (it['morder'] if it['branches'] else it['order_between'])
            out.append(dict(name=it['name'],order=o,branches=[b for b in brs],mult=1,rings=it['rings'] if it['mult']==1 else []))
    return out
def denote(chain):
    g=nx.Graph(); ring={}
    def go(chain, anchor):
        prev=anchor
        for it in chain:
            n=len(g); g.add_node(n,fragname=it['name'])
            if prev is not None: g.add_edge(prev,n,order=it['order'])
            for (rid,ro) in it.get('rings',[]):
                if rid in ring:
                    m,o=ring.pop(rid); g.add_edge(m,n,order=o)
                else: ring[rid]=(n,ro)
            for b in it['branches']: go(b,n)
            prev=n
    go(chain,None); return g
def rmark(rid): return str(rid) if rid<10 else '%%%d'%rid
def render(chain, first=True):
    s=''
    for i,it in enumerate(chain):
        pre = '' if (first and i==0) else SYM[it['order']]
        s+=pre+'[#%s]'%it['name']
        for (rid,ro) in it.get('rings',[]):
            s+=SYM[ro]+rmark(rid)
        if it['mult']>1 and not it['branches']:
            s+='|%d'%it['mult']
        for j,b in enumerate(it['branches']):
            b0=dict(b[0]); o=b0['order']; b0['order']=1
            s+=SYM[o]+'('+render([b0]+b[1:],first=True)+')'
        if it['mult']>1 and it['branches']:
            s+=SYM[it['morder']]+'|%d'%it['mult']
    return s
def rnd_chain(rng,depth,maxlen,pm):
    ch=[]
    for i in range(rng.randint(1,maxlen)):
        br=[]
        if depth>0:
            for _ in range(rng.choice([0,0,0,1,1])):
                br.append(rnd_chain(rng,depth-1,2,pm))
        mult = rng.choice([2,3]) if rng.random()<pm else 1
        o=rng.choice([1,1,1,0,2,3])
        ch.append(dict(name=rng.choice('ABC'),order=o,branches=br,mult=mult,morder=rng.choice([1,1,2,0]),order_between=1,rings=[]))
    return ch
def same(g,ref):
    return (dict(g.nodes(data='fragname'))==dict(ref.nodes(data='fragname')) and {frozenset(e):o for *e,o in g.edges(data='order')}=={frozenset(e):o for *e,o in ref.edges(data='order')})
def iso(a,b):
    return nx.is_isomorphic(a,b,node_match=lambda x,y:x['fragname']==y['fragname'],edge_match=lambda x,y:x['order']==y['order'])
rng=random.Random(2)
seen=set(); fails=[]; tot=0
for t in range(30000):
    ch=rnd_chain(rng,2,3,0.3)
    s='{'+render(ch)+'}'
    if s in seen or '))' in s or '|' not in s: continue
    seen.add(s); tot+=1
    ref=denote(expand(ch))
    try: g=read_cgsmiles(s)
    except Exception as e:
        fails.append((s,'EXC '+type(e).__name__)); continue
    if not same(g,ref):
        fails.append((s,'DIFF' if not iso(g,ref) else 'RELABEL'))
print(tot,len(fails))
print(collections.Counter(k for _,k in fails))
fails.sort(key=lambda x:len(x[0]))
for k in ['DIFF','EXC ValueError','RELABEL','EXC KeyError','EXC UnboundLocalError','EXC IndexError']:
    print('==',k)
    for f in [f for f in fails if f[1]==k][:14]: print('  ',f[0])
