import sys, random, collections, traceback
sys.path.insert(0,__import__('os').environ.get('REPO','/repo')); sys.path.insert(0,'/tmp/probe')
import networkx as nx
from gen import *
from cgsmiles import MoleculeResolver
from cgsmiles.write_cgsmiles import write_cgsmiles_graph
def nm(a,b): return a['element']==b['element'] and a.get('charge',0)==b.get('charge',0)
def em(a,b): return a['order']==b['order']
rng=random.Random(int(sys.argv[1]) if len(sys.argv)>1 else 0)
res=collections.Counter(); ex=collections.defaultdict(list)
for t in range(int(sys.argv[2]) if len(sys.argv)>2 else 300):
    g=rnd_mol(rng, rng.randint(2,12))
    whole='{[#M]}.{#M='+render_frag(rng,g,list(g),{})+'}'
    try:
        _,ref=MoleculeResolver.from_string(whole).resolve()
    except Exception as e:
        res['ref EXC '+type(e).__name__]+=1; ex['ref EXC '+type(e).__name__].append(whole); continue
    # check ref heavy atoms match generator
    heavy=ref.subgraph([n for n in ref if ref.nodes[n]['element']!='H'])
    nf=rng.randint(1,min(4,len(g)))
    base,frags,fragstrs,part=cut_and_render(rng,g,nf)
    if base.number_of_edges() and max(o for *_,o in base.edges(data='order'))>4: continue
    # base graph in random node order via from_graph? use string: relabel base then write
    perm=list(range(nf)); rng.shuffle(perm)
    for i in base: base.nodes[i]['fragname']='F%d'%i
    b2=nx.relabel_nodes(base,dict(zip(range(nf),perm)))
    b3=nx.Graph(); b3.add_nodes_from(sorted(b2.nodes(data=True))); b3.add_edges_from(b2.edges(data=True))
    s='{'+','.join(fragstrs)+'}'
    try:
        cg,fine=MoleculeResolver.from_graph(s,b3).resolve()
    except Exception as e:
        k='cut EXC '+type(e).__name__; res[k]+=1; ex[k].append((whole,s,sorted(b3.edges(data='order')),str(e)[:80])); continue
    if nx.is_isomorphic(ref,fine,node_match=nm,edge_match=em): res['ok']+=1
    else:
        res['DIFF']+=1; ex['DIFF'].append((whole,s,sorted(b3.edges(data='order'))))
print(res)
for k,v in ex.items():
    v.sort(key=lambda x: len(str(x)))
    print('==',k)
    for x in v[:8]: print('   ',x)
