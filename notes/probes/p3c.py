import re
exec(open('p3.py').read().split("rng=random.Random(2)")[0])
def gen(rng, depth, maxlen, pnode, pbranch, inner_mult, nested_in_mult, in_mult=False):
    ch=[]
    for i in range(rng.randint(1,maxlen)):
        br=[]; mult=1
        bm = (not in_mult or inner_mult) and rng.random()<pbranch
        if depth>0 and (not in_mult or nested_in_mult or bm):
            nb = rng.choice([0,0,1,1,2]) if not bm else 1
            for _ in range(nb):
                br.append(gen(rng,depth-1,2,pnode,pbranch,inner_mult,nested_in_mult,in_mult or bm))
        if br and bm: mult=rng.choice([2,3])
        elif not br and (not in_mult or inner_mult) and rng.random()<pnode: mult=rng.choice([2,3])
        ch.append(dict(name=rng.choice('ABC'),order=rng.choice([1,1,1,0,2,3]),branches=br,mult=mult,morder=rng.choice([1,1,2,0]),order_between=1,rings=[]))
    return ch
def run(label, **kw):
    rng=random.Random(5); seen=set(); fails=[]; tot=0
    for t in range(40000):
        ch=gen(rng,2,3,**kw)
        s='{'+render(ch)+'}'
        if s in seen or '))' in s or '|' not in s: continue
        if re.search(r'\]\|\d[.=#$]',s): continue
        seen.add(s); tot+=1
        ref=denote(expand(ch))
        try: g=read_cgsmiles(s)
        except Exception as e: fails.append((s,'EXC '+type(e).__name__)); continue
        if not same(g,ref): fails.append((s,'DIFF' if not iso(g,ref) else 'RELABEL'))
    fails.sort(key=lambda x:len(x[0]))
    print(label,tot,collections.Counter(k for _,k in fails),[f for f in fails if f[1]!='RELABEL'][:6], [f for f in fails if f[1]=='RELABEL'][:3])
run('nodes only', pnode=0.4,pbranch=0,inner_mult=False,nested_in_mult=False)
run('branch only, flat inside', pnode=0,pbranch=0.5,inner_mult=False,nested_in_mult=False)
run('branch only, nested inside', pnode=0,pbranch=0.5,inner_mult=False,nested_in_mult=True)
run('branch+node outside', pnode=0.3,pbranch=0.5,inner_mult=False,nested_in_mult=False)
run('branch+node inside', pnode=0.3,pbranch=0.5,inner_mult=True,nested_in_mult=True)
