"""Reference check of the NxGraph representation idea (DESIGN §4.2): nodes in insertion order, edges in insertion order,
adjacency and G.edges iteration derived. Compared against networkx on random op sequences."""
import random, networkx as nx, inspect
class M:
    def __init__(s): s.nodes=[]; s.edges=[]   # nodes: list of keys ; edges: list of [u,v,attrs]
    def add_node(s,k):
        if k not in s.nodes: s.nodes.append(k)
    def find(s,u,v):
        for e in s.edges:
            if (e[0]==u and e[1]==v) or (e[0]==v and e[1]==u): return e
    def add_edge(s,u,v,**a):
        s.add_node(u); s.add_node(v)
        e=s.find(u,v)
        if e: e[2].update(a)
        else: s.edges.append([u,v,dict(a)])
    def adj(s,u):
        out=[]
        for a,b,_ in s.edges:
            if a==u: out.append(b)
            elif b==u: out.append(a)
        return out
    def iter_edges(s):
        seen=set(); out=[]
        for u in s.nodes:
            for v in s.adj(u):
                if v not in seen: out.append((u,v))
            seen.add(u)
        return out
    def remove_node(s,k):
        s.nodes.remove(k); s.edges=[e for e in s.edges if k not in (e[0],e[1])]
    def relabel(s,mp):
        h=M()
        for n in s.nodes: h.add_node(mp[n])
        for (u,v) in s.iter_edges():
            h.add_edge(mp[u],mp[v],**s.find(u,v)[2])
        return h
    def contract(s,u,v):
        # nx.contracted_nodes(G,u,v,self_loops=False,copy=True)
        h=M(); h.nodes=list(s.nodes); h.edges=[[a,b,dict(d)] for a,b,d in s.edges]
        new=[(u, w, dict(s.find(v,w)[2])) for w in s.adj(v) if w!=u and w!=v]   # order: adjacency of v
        h.remove_node(v)
        for (a,b,d) in new:
            if h.find(a,b) is None: h.add_edge(a,b,**d)
        return h
def dump_nx(g): return (list(g.nodes), [(u,v) for u,v in g.edges], {n:list(g[n]) for n in g}, sorted((min(u,v),max(u,v),d.get('o')) for u,v,d in g.edges(data=True)))
def dump_m(m): return (list(m.nodes), m.iter_edges(), {n:m.adj(n) for n in m.nodes}, sorted((min(u,v),max(u,v),d.get('o')) for u,v,d in m.edges))
bad=0
for seed in range(3000):
    r=random.Random(seed); g=nx.Graph(); m=M()
    for step in range(r.randint(3,25)):
        op=r.choice(['n','e','e','e','e','rm','rel','con'])
        keys=list(g.nodes)
        if op=='n':
            k=r.randint(0,12); g.add_node(k); m.add_node(k)
        elif op=='e':
            u,v=r.randint(0,12),r.randint(0,12)
            if u==v: continue
            o=r.randint(0,4); g.add_edge(u,v,o=o); m.add_edge(u,v,o=o)
        elif op=='rm' and keys:
            k=r.choice(keys); g.remove_node(k); m.remove_node(k)
        elif op=='rel' and keys:
            perm=keys[:]; r.shuffle(perm); mp=dict(zip(keys,range(100,100+len(keys)))) if r.random()<0.5 else dict(zip(keys,perm))
            if set(mp.values())&(set(keys)-set(mp.keys())): continue
            if any(mp[k]!=k and mp[k] in keys for k in keys) : 
                # overlapping relabel with copy=True is fine in nx; model too
                pass
            g=nx.relabel_nodes(g,mp,copy=True); m=m.relabel(mp)
        elif op=='con' and len(keys)>=2:
            u,v=r.sample(keys,2)
            g=nx.contracted_nodes(g,u,v,self_loops=False); m=m.contract(u,v)
        if dump_nx(g)!=dump_m(m):
            bad+=1
            if bad<=5: print('MISMATCH seed',seed,'step',step,op); print(' nx',dump_nx(g)); print(' m ',dump_m(m))
            break
print('mismatching sequences:',bad,'of 3000')
