import sys, os, random, subprocess, collections, re, io, contextlib
sys.path.insert(0,os.environ.get('REPO','/repo'))
import networkx as nx
from cgsmiles import read_cgsmiles
exec(open('p3.py').read().split("rng=random.Random(2)")[0])
def pydump(s):
    try:
        with contextlib.redirect_stdout(io.StringIO()):
            g=read_cgsmiles(s)
    except SyntaxError: return 'ERR SyntaxError'
    except BaseException as e: return 'ERR '+type(e).__name__
    keys=list(g.nodes)
    if sorted(keys)!=list(range(len(keys))): return 'OK?? keys '+str(keys)
    names=[g.nodes[k].get('fragname') for k in sorted(keys)]
    es=sorted((min(a,b),max(a,b),o) for a,b,o in g.edges(data='order'))
    return 'OK '+','.join(map(str,names))+' | '+' '.join('%d-%d:%s'%(a,b,'N' if o is None else o) for a,b,o in es)
def rnd_chain2(rng,depth,maxlen,pm,pr):
    ch=rnd_chain(rng,depth,maxlen,pm)
    return ch
def add_rings(rng,s):
    # insert ring marker pairs after random node tokens
    pos=[m.end() for m in re.finditer(r'\[#[A-Z]\]',s)]
    for _ in range(rng.choice([0,0,1,1,2,3])):
        if len(pos)<2: break
        a,b=sorted(rng.sample(range(len(pos)),2))
        rid=rng.choice([1,2,3,9,0,10,12,123])
        mark=str(rid) if rid<10 and rng.random()<0.8 else '%%%d'%rid
        sym=rng.choice(['','','=','.','#'])
        ins=[(pos[b],rng.choice(['',''])+mark),(pos[a],sym+mark)]
        for p_,t in ins: s=s[:p_]+t+s[p_:]
        pos=[m.end() for m in re.finditer(r'\[#[A-Z]\]',s)]
    return s
ALPH='[]#()|.=-$%;{}0123456789ABab,+ '
def mutate(rng,s):
    s=list(s)
    for _ in range(rng.choice([1,1,2,3])):
        op=rng.choice('dis')
        i=rng.randrange(len(s)+1)
        if op=='d' and s and i<len(s): del s[i]
        elif op=='i': s.insert(i,rng.choice(ALPH))
        elif s and i<len(s): s[i]=rng.choice(ALPH)
    return ''.join(s)
seed=int(sys.argv[1]); N=int(sys.argv[2])
rng=random.Random(seed)
cases=[]
for t in range(N):
    ch=rnd_chain(rng,rng.choice([0,1,2,3]),3,rng.choice([0,0.2,0.4]))
    s='{'+render(ch)+'}'
    if rng.random()<0.5: s=add_rings(rng,s)
    cases.append(s)
    if rng.random()<0.5: cases.append(mutate(rng,s))
    if rng.random()<0.15: cases.append(s[1:-1])   # without braces (as fragments pass them)
cases=[c for c in dict.fromkeys(cases) if '\n' not in c and ';' not in c and c.isascii() and all(re.fullmatch(r'[A-Za-z0-9]+',m) for m in re.findall(r'\[#(.*?)\]',c))]
inp='\n'.join(cases)+'\n'
out=subprocess.run(['/tmp/lp2/RC/.lake/build/bin/driver'],input=inp,capture_output=True,text=True).stdout.split('\n')
res=collections.Counter(); bad=[]
for c,l in zip(cases,out):
    p=pydump(c)
    if l=='ERR UNSUPPORTED': res['unsupported']+=1; continue
    if p==l: res['agree '+p.split()[0]+(' '+p.split()[1] if p.startswith('ERR') else '')]+=1
    else: res['DISAGREE']+=1; bad.append((c,p,l))
print(len(cases),dict(res))
bad.sort(key=lambda x:len(x[0]))
for b in bad[:12]: print(b)
