"""NxGraph as networkx stores it: ordered node list + per-node ordered adjacency list; edge attrs per unordered pair."""
import random, networkx as nx
class M:
    def __init__(s): s.nodes=[]; s.adj={}; s.attr={}
    def add_node(s,k):
        if k not in s.adj: s.nodes.append(k); s.adj[k]=[]
    def add_edge(s,u,v,**a):
        s.add_node(u); s.add_node(v)
        key=frozenset((u,v))
        d=s.attr.setdefault(key,{}); d.update(a)
        if v not in s.adj[u]: s.adj[u].append(v)
        if u not in s.adj[v]: s.adj[v].append(u)
    def iter_edges(s):
        seen=set(); out=[]
        for u in s.nodes:
            for v in s.adj[u]:
                if v not in seen: out.append((u,v))
            seen.add(u)
        return out
    def remove_node(s,k):
        for w in s.adj[k]:
            if w!=k: s.adj[w].remove(k)
            s.attr.pop(frozenset((k,w)),None)
        del s.adj[k]; s.nodes.remove(k)
    def copy(s):
        h=M()
        for n in s.nodes: h.add_node(n)
        for u in s.nodes:
            for v in s.adj[u]: h.add_edge(u,v,**s.attr[frozenset((u,v))])
        return h
    def relabel(s,mp):
        h=M()
        for n in s.nodes: h.add_node(mp[n])
        for (u,v) in s.iter_edges(): h.add_edge(mp[u],mp[v],**s.attr[frozenset((u,v))])
        return h
    def contract(s,u,v):
        h=s.copy()
        new=[(u,w,dict(s.attr[frozenset((v,w))])) for w in s.adj[v] if w!=u and w!=v]
        h.remove_node(v)
        for (a,b,d) in new:
            if b not in h.adj[a]: h.add_edge(a,b,**d)
        return h
def dump_nx(g): return (list(g.nodes), [(u,v) for u,v in g.edges], {n:list(g[n]) for n in g}, sorted((min(u,v),max(u,v),d.get('o')) for u,v,d in g.edges(data=True)))
def dump_m(m): return (list(m.nodes), m.iter_edges(), {n:list(m.adj[n]) for n in m.nodes}, sorted((min(k),max(k),d.get('o')) for k,d in m.attr.items()))
bad=0; nops=0
for seed in range(6000):
    r=random.Random(seed); g=nx.Graph(); m=M()
    for step in range(r.randint(3,30)):
        op=r.choice(['n','e','e','e','e','rm','rel','con','cp'])
        keys=list(g.nodes); nops+=1
        if op=='n':
            k=r.randint(0,12); g.add_node(k); m.add_node(k)
        elif op=='e':
            u,v=r.randint(0,12),r.randint(0,12)
            if u==v: continue
            o=r.randint(0,4); g.add_edge(u,v,o=o); m.add_edge(u,v,o=o)
        elif op=='rm' and keys:
            k=r.choice(keys); g.remove_node(k); m.remove_node(k)
        elif op=='cp':
            g=g.copy(); m=m.copy()
        elif op=='rel' and keys:
            perm=keys[:]; r.shuffle(perm); mp=dict(zip(keys,range(100,100+len(keys)))) if r.random()<0.5 else dict(zip(keys,perm))
            g=nx.relabel_nodes(g,mp,copy=True); m=m.relabel(mp)
        elif op=='con' and len(keys)>=2:
            u,v=r.sample(keys,2)
            g=nx.contracted_nodes(g,u,v,self_loops=False); m=m.contract(u,v)
        if dump_nx(g)!=dump_m(m):
            bad+=1
            if bad<=3: print('MISMATCH seed',seed,'step',step,op); print(' nx',dump_nx(g)); print(' m ',dump_m(m))
            break
print('mismatching sequences:',bad,'of 6000; ops',nops)
