import sys, io, contextlib, random
sys.path.insert(0,__import__('os').environ.get('REPO','/repo'))
import numpy as np, networkx as nx
from cgsmiles import MoleculeResolver, MoleculeSampler
from cgsmiles.rdkit import rdkit_to_networkx, networkx_to_rdkit, embed_3d_via_rdkit
from cgsmiles.coordinates import forward_map_molecule, embedd_cg_molecule_via_rdkit
from rdkit import Chem
from rdkit.Chem import AllChem
for fs in ["{#B=[$]c1ccccc1}","{#C=[$][NH3+]}","{#D=[$]C(=O)[O-]}","{#E=[$]C=[$]}"]:
    try:
        s=MoleculeSampler.from_fragment_string(fs,polymer_reactivities={'$':1},seed=1); print(fs,s.fragment_masses)
    except BaseException as e: print(fs,'EXC',type(e).__name__,str(e)[:50])
# 1. conformer -> rdkit_to_networkx
m=Chem.AddHs(Chem.MolFromSmiles('CCO')); AllChem.EmbedMolecule(m,randomSeed=1)
try: g=rdkit_to_networkx(m); print('conf ok', g.nodes[0].get('position'))
except BaseException as e: print('rdkit_to_networkx with conformer EXC',type(e).__name__,e)
# 2. embed on resolved molecule: check bonded distances
cg,aa=MoleculeResolver.from_string("{[#A][#B][#C]}.{#A=CC[$],#B=[$]CO[$],#C=[$]CCN}").resolve()
print('iteration order', list(aa.nodes)[:16])
try:
    embedd_cg_molecule_via_rdkit(cg,aa)
    d=[np.linalg.norm(aa.nodes[a]['position']-aa.nodes[b]['position']) for a,b in aa.edges]
    print('bond lengths min/max', min(d), max(d))
except BaseException as e: print('embed EXC',type(e).__name__,e)
# 3. forward map with weights & translation
cg,aa=MoleculeResolver.from_string("{[#A][#B]}.{#A=[C;0.5]C[$],#B=[$]CO}").resolve()
for n in aa: aa.nodes[n]['position']=np.array([float(n),0.,0.])
forward_map_molecule(cg,aa); p0={k:cg.nodes[k]['position'].copy() for k in cg}
for n in aa: aa.nodes[n]['position']=aa.nodes[n]['position']+np.array([10.,0,0])
forward_map_molecule(cg,aa); p1={k:cg.nodes[k]['position'].copy() for k in cg}
print({k:(p1[k]-p0[k]) for k in cg}, {k: dict(cg.nodes[k]['graph'].nodes(data='weight')) for k in cg})
