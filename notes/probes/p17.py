import sys, os, json, subprocess, copy, io, contextlib
sys.path.insert(0,os.environ.get('REPO','/repo'))
import networkx as nx
from cgsmiles import MoleculeResolver, read_cgsmiles
from cgsmiles.read_fragments import read_fragments
def dump(g, keys=('element','charge','fragid','fragname','atomname','weight','bonding','chiral','ez_isomer','hcount','aromatic','mapping')):
    return json.dumps([[ [n,{k:d[k] for k in keys if k in d}] for n,d in g.nodes(data=True)], sorted([min(a,b),max(a,b),d.get('order')] for a,b,d in g.edges(data=True))],sort_keys=True,default=str)
CASES=["{[#A][#B][#A]}.{#A=[$]CC(=O)[O-],#B=[$]c1ccc([$])cc1}",
       "{[#A]1[#B][#C]1}.{#A=[>]N[<],#B=[$]N=C[>],#C=[$]C(C)=C[<]}",
       "{[#SC3]1[#TC5][#TC5]1}.{#SC3=Cc(c[!])c[!],#TC5=[!]ccc[!]}",
       "{[#A][#B]}.{#A=F/C=[$],#B=[$]=C/F}",
       "{[#P]|3}.{#P=[$][#X][#Y][$]}.{#X=[$]CO[$],#Y=[$]N[$]}"]
if len(sys.argv)>1 and sys.argv[1]=='child':
    out=[]
    for s in CASES:
        r=MoleculeResolver.from_string(s); cg,fg=r.resolve_all(); out.append(dump(fg))
    print(json.dumps(out)); sys.exit()
# 1) hash seeds
outs=set()
for hs in ['0','1','2','12345']:
    env=dict(os.environ,PYTHONHASHSEED=hs,PBR_VERSION='0')
    o=subprocess.run([sys.executable,__file__,'child'],env=env,capture_output=True,text=True).stdout.strip().split('\n')[-1]
    outs.add(o)
print('distinct outputs over hash seeds:',len(outs))
# 2) shared fragment dicts across calls, mutation check, permutation of definitions, constructors
s=CASES[0]
import re
els=re.findall(r"\{[^\}]+\}",s)
fd=[read_fragments(els[1])]
before=[{k:dump(v) for k,v in d.items()} for d in fd]
res=[]
for i in range(3):
    r=MoleculeResolver.from_fragment_dicts(els[0],fd); cg,fg=r.resolve(); res.append(dump(fg))
after=[{k:dump(v) for k,v in d.items()} for d in fd]
print('repeat calls identical:',len(set(res))==1,' fragment dicts unchanged:',before==after)
r1=MoleculeResolver.from_string(s).resolve()[1]
r2=MoleculeResolver.from_graph(els[1],read_cgsmiles(els[0])).resolve()[1]
print('constructors agree:',dump(r1)==dump(r2)==res[0])
perm="{[#A][#B][#A]}.{#B=[$]c1ccc([$])cc1,#A=[$]CC(=O)[O-]}"
print('definition order irrelevant:',dump(MoleculeResolver.from_string(perm).resolve()[1])==dump(r1))
# interleaved different inputs sharing nothing
x=[dump(MoleculeResolver.from_string(c).resolve_all()[1]) for c in CASES]
y=[dump(MoleculeResolver.from_string(c).resolve_all()[1]) for c in reversed(CASES)][::-1]
print('order of calls irrelevant:',x==y)
