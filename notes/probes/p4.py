import sys, random, itertools, collections
sys.path.insert(0,__import__('os').environ.get('REPO','/repo'))
import networkx as nx
from cgsmiles import read_cgsmiles
from cgsmiles.write_cgsmiles import write_cgsmiles_graph, write_cgsmiles_fragments, format_bonding
from cgsmiles.read_fragments import read_fragments
def iso(a,b):
    return nx.is_isomorphic(a,b,node_match=lambda x,y:x['fragname']==y['fragname'],edge_match=lambda x,y:x['order']==y['order'])
rng=random.Random(0)
tot=0; fails=collections.Counter(); ex={}
for n in range(1,7):
  for t in range(400):
    g=nx.gnm_random_graph(n, rng.randint(n-1, min(n*(n-1)//2, n+2)), seed=rng.randint(0,10**9))
    if n>1 and not nx.is_connected(g): continue
    perm=list(range(n)); rng.shuffle(perm)
    g=nx.relabel_nodes(g,dict(zip(range(n),perm)))
    for v in g.nodes: g.nodes[v]['fragname']=rng.choice(['A','B','C'])
    for e in g.edges: g.edges[e]['order']=rng.choice([1,1,1,0,2,3,4])
    tot+=1
    try:
        s=write_cgsmiles_graph(g)
        h=read_cgsmiles(s)
    except Exception as e:
        k='EXC '+type(e).__name__; fails[k]+=1; ex.setdefault(k,[]).append((sorted(g.edges(data='order')),locals().get('s'))); continue
    if not iso(g,h):
        # classify: is the wrong edge a ring edge?
        tree_only = nx.is_tree(g)
        k='DIFF tree' if tree_only else 'DIFF cyclic'
        fails[k]+=1; ex.setdefault(k,[]).append((sorted(g.edges(data='order')),s))
print(tot,fails)
for k,v in ex.items():
    v.sort(key=lambda x:len(x[0]))
    print(k,v[:4])
# only order-1 ring edges
print(format_bonding(['$1','$2']), format_bonding(['$2','$1']), format_bonding(['>A2','<B3','!0']))
for fs in ["{#A=[$]=[$]CC}","{#A=[$][$]=CC}","{#A=C[$]=[$]C}","{#A=C=[$][$]C}","{#A=[$]C=[>]#[<]C}","{#A=[#X][$][#Y]=[$]}", "{#A=[$].[$]CC}", "{#A=CC.[$]}"]:
    for aa in ([True] if '[#' not in fs else [False]):
        fd=read_fragments(fs,all_atom=aa)
        out=write_cgsmiles_fragments(fd,smiles_format=aa)
        fd2=read_fragments(out,all_atom=aa)
        print(fs, dict(fd['A'].nodes(data='bonding')), '->', out, dict(fd2['A'].nodes(data='bonding')))
