import sys, os, random, collections, io, contextlib, warnings
warnings.filterwarnings('ignore')
sys.path.insert(0,os.environ.get('REPO','/repo'))
import networkx as nx
from cgsmiles import MoleculeSampler
from cgsmiles.read_fragments import read_fragments
import cgsmiles.sample as smod
rng=random.Random(int(sys.argv[1])); N=int(sys.argv[2])
def gen_frags(rng, aa):
    nf=rng.randint(1,4); out=[]; descs=[]
    labels=['','','a','b']
    for i in range(nf):
        n=rng.randint(1,3)
        atoms=[('C' if aa else '[#X%d]'%j) for j in range(n)]
        s=''
        for j,a in enumerate(atoms):
            s+=a
            for _ in range(rng.choice([0,1,1,2]) if j in (0,n-1) else 0):
                k=rng.choice('$$><'); lab=rng.choice(labels); o=rng.choice([1,1,1,2])
                if aa and o==2: o=1
                s+=('=' if o==2 else '')+'['+k+lab+']'
                descs.append(k+lab+str(o))
        out.append('#F%d=%s'%(i,s))
    return '{'+','.join(out)+'}', sorted(set(descs))
res=collections.Counter(); ex=collections.defaultdict(list)
for t in range(N):
    aa=rng.random()<0.4
    fs,descs=gen_frags(rng,aa)
    if not descs: continue
    pr={d[:-1] if rng.random()<0.5 and d[-1]=='1' else d: rng.choice([0,0.2,0.5,1]) for d in descs}
    if rng.random()<0.3 and descs: pr.pop(rng.choice(list(pr)))
    fr={}
    for d in descs:
        if rng.random()<0.4: fr[d]={e: rng.choice([0,0.3,1]) for e in descs}
    ter=[d for d in descs if rng.random()<0.15]
    seed=rng.randint(0,10**6); target=rng.choice([1,3,5,50,120])
    kw=dict(polymer_reactivities=pr,fragment_reactivities=fr,terminal_bonds=ter,all_atom=aa,seed=seed)
    if not aa: kw['fragment_masses']={'F%d'%i: rng.choice([1,2,10]) for i in range(4)}
    try:
        with contextlib.redirect_stdout(io.StringIO()):
            s=MoleculeSampler.from_fragment_string(fs,**kw); frags=read_fragments(fs,all_atom=aa)
            m=s.sample(target)
    except BaseException as e:
        res['EXC '+type(e).__name__]+=1; ex['EXC '+type(e).__name__].append((fs,pr,ter,str(e)[:60])); continue
    # invariants
    probs=[]
    if len(m)==0: probs.append('empty')
    elif not nx.is_connected(m): probs.append('disconnected')
    keys=sorted(m.nodes)
    if keys!=list(range(len(keys))): probs.append('keys')
    fids=[m.nodes[k]['fragid'] for k in keys]
    if fids!=sorted(fids): probs.append('not sorted by fragid')
    inter=[(a,b,d) for a,b,d in m.edges(data=True) if m.nodes[a]['fragid']!=m.nodes[b]['fragid']]
    nfr=len({tuple(f) for f in fids})
    if len(inter)!=nfr-1: probs.append('inter-fragment bonds %d vs fragments %d'%(len(inter),nfr))
    for a,b,d in inter:
        bd=d.get('bonding')
        if not bd: probs.append('no bonding attr'); continue
        x,y=bd
        if x[-1]!=y[-1]: probs.append('order mismatch %s %s'%(x,y))
        if x[0]=='$' and y[0]!='$': probs.append('kind %s %s'%(x,y))
        if x[0] in '<>' and not (y[0] in '<>' and y[0]!=x[0] and x[1:]==y[1:]): probs.append('compl %s %s'%(x,y))
        if d.get('order')!=int(x[-1]): probs.append('edge order')
        # zero reactivity never site
        def norm(k): return k if k[-1].isdigit() else k+'1'
        prn={norm(k):v for k,v in pr.items()}
        if prn.get(x,0)==0: probs.append('site with zero reactivity chosen %s'%x)
        frn={norm(k):{norm(k2):v2 for k2,v2 in v.items()} for k,v in fr.items()}
        if x in frn and frn[x].get(y,0)==0: probs.append('partner with zero cond. reactivity %s|%s'%(y,x))
    if probs:
        res['BAD']+=1; ex['BAD'].append((fs,pr,fr,ter,seed,target,probs[:3]))
    else: res['ok']+=1
print(res)
for k,v in ex.items():
    v.sort(key=lambda x:len(str(x))); print('==',k, collections.Counter(x[-1] if k!='BAD' else str(x[-1][0]).split(' ')[0] for x in v).most_common(6))
    for x in v[:5]: print('   ',x)
