import sys, random, itertools
sys.path.insert(0,__import__('os').environ.get('REPO','/repo'))
import networkx as nx
from cgsmiles import read_cgsmiles
from networkx.algorithms.isomorphism import GraphMatcher
SYM={0:'.',1:'',2:'=',3:'#',4:'$'}
# AST: chain = list of items; item = (name, order_to_prev, [branches], mult) ; branch = chain
# spec denote
def denote(chain):
    g=nx.Graph(); 
    def go(chain, anchor):
        prev=anchor
        for (name,order,branches,mult) in chain:
            n=len(g); g.add_node(n,fragname=name)
            if prev is not None: g.add_edge(prev,n,order=order)
            for b in branches: go(b,n)
            prev=n
    go(chain,None); return g
def render(chain, first=True):
    s=''
    for i,(name,order,branches,mult) in enumerate(chain):
        pre = '' if (first and i==0) else SYM[order]
        s+=pre+'[#%s]'%name
        for b in branches:
            # bond order to first of branch is before paren
            b0=b[0]
            s+=SYM[b0[1]]+'('+render([(b0[0],1,b0[2],b0[3])]+b[1:],first=True)+')'
    return s
def rnd_chain(rng,depth,maxlen):
    ch=[]
    for i in range(rng.randint(1,maxlen)):
        br=[]
        if depth>0:
            for _ in range(rng.choice([0,0,0,1,1,2])):
                br.append(rnd_chain(rng,depth-1,2))
        ch.append((rng.choice('ABC'),rng.choice([1,1,1,0,2,3,4]),br,1))
    return ch
def canon(g):
    return g
def iso(a,b):
    return nx.is_isomorphic(a,b,node_match=lambda x,y:x['fragname']==y['fragname'],edge_match=lambda x,y:x['order']==y['order'])
rng=random.Random(1)
bad=0;tot=0;exact_bad=0
seen=set()
fails=[]
for t in range(20000):
    ch=rnd_chain(rng,2,3)
    s='{'+render(ch)+'}'
    if s in seen: continue
    seen.add(s)
    tot+=1
    ref=denote(ch)
    try:
        g=read_cgsmiles(s)
    except Exception as e:
        fails.append((s,'EXC '+type(e).__name__)); continue
    same = (dict(g.nodes(data='fragname'))==dict(ref.nodes(data='fragname')) and {frozenset(e):o for *e,o in g.edges(data='order')}=={frozenset(e):o for *e,o in ref.edges(data='order')})
    if not same:
        fails.append((s,'DIFF' if not iso(g,ref) else 'RELABEL'))
print(tot,len(fails))
fails.sort(key=lambda x:len(x[0]))
for f in fails[:25]: print(f)
import collections
print(collections.Counter(k for _,k in fails))
# classify: does failing string always contain '))' ?
print('fails without "))":',[f for f in fails if '))' not in f[0]][:20])
