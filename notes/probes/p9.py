import sys, io, contextlib
sys.path.insert(0,__import__('os').environ.get('REPO','/repo'))
from cgsmiles import read_cgsmiles, MoleculeResolver
def t(s, resolve=False):
    try:
        with contextlib.redirect_stdout(io.StringIO()):
            if resolve:
                r=MoleculeResolver.from_string(s); out=r.resolve_all(); res='OK graph n=%d'%len(out[1])
            else:
                g=read_cgsmiles(s); res='OK graph n=%d e=%s'%(len(g),sorted(g.edges(data='order')))
    except BaseException as e: res='EXC %s: %s'%(type(e).__name__,str(e)[:70])
    print(s,'->',res)
for s in ["{[#A][#B]([#C]1)[#D]}","{[#A][#B]([#C]([#D]%12)[#E])[#D]}","{[#A]1[#B]1[#C]}","{[#A][#B]2[#C]2}","{[#A]([#B]1)[#C]1|2}","{[#A]1[#B][#C]1[#D]1}",
          "{[#A]1[#B][#A]1[#B]2[#C][#D]2[#E]3}","{[#A]11[#B]}","{[#A]1[#B][#C]1[#D]1[#E]([#F]1)}","{[#A]12[#B][#C]12}","{[#A]1[#B]2[#C]12}",
          "{[#A][#B]=1[#C]1}", "{[#A]([#B]1)1}", "{[#A]1([#B]1)}", "{[#A]1.[#B]1}", "{[#A].1[#B]1}", "{[#A]0[#B][#C]0}", "{[#A]%1[#B][#C]1}","{[#A]%01[#B][#C]1}"]:
    t(s)
for s in ["{[#A][#B][#C]}.{#A=CC[$],#B=[$]C[$]}","{[#A][#B].[#C]}.{#A=CC[$],#B=[$]C[$]}","{[#A][#B]|3([#C])[#B]}.{#A=CC[$],#B=[$]C[$]}",
          "{[#A][#B]}.{#A=[#X][$],#B=[$][#Y]}.{#X=C[$],#Z=[$]C}",
          "{[#A][#B;q=1;w=2;3]}.{#A=CC[$],#B=[$]C[$]}","{[#A][#B]}.{#A=CC[$],#B=[$][C;w=a][$]}","{[#A][#B]}.{#A=CC[$],#B=[$][C;w=1=2][$]}","{[#A][#B]}.{#A=CC[$],#B=[$][C;1;R;5][$]}",
          "{[#A][#B]}.{#A=[#X;q=a][$],#B=[$][#Y]}.{#X=C[$],#Y=[$]C}","{[#A][#B]}.{#A=[#X;w=a][$],#B=[$][#Y]}.{#X=C[$],#Y=[$]C}"]:
    t(s,True)
