import sys, os, random, collections
sys.path.insert(0,os.environ.get('REPO','/repo'))
from cgsmiles.read_fragments import strip_bonding_descriptors
# fragment text AST: list of tokens; token kinds: atom(text, annot), bond(sym), open, close, ring(sym, id), ez(ch)
ORG=['C','N','O','S','P','F','Cl','Br','c','n','o','s']
BR=['[CH2]','[NH3+]','[O-]','[C@H]','[nH]','[Na+]','[13C]','[H]']
CG=['[#A]','[#TC5]','[#B1]']
def gen(rng, cg=False, depth=0):
    toks=[]; n=rng.randint(1,5)
    for i in range(n):
        if i>0 and rng.random()<0.3: toks.append(('bond',rng.choice('=#-:.' if not cg else '=#-.')))
        if i>0 and rng.random()<0.15 and not cg: toks.append(('ez',rng.choice('/\\')))
        if cg: a=rng.choice(CG); ann=rng.choice([None,None,'0.5','w=2','r=abc'])
        else:
            a=rng.choice(ORG+BR) ; ann=rng.choice([None,None,None,'0.5','x=R','w=2;x=S','k=v']) if a.startswith('[') else None
        toks.append(('atom',a,ann))
        for _ in range(rng.choice([0,0,0,1,2])):
            toks.append(('ring',rng.choice(['','','=','#']) , rng.choice([1,2,3,12,10])))
        if depth<2 and rng.random()<0.25:
            toks.append(('open',)); toks+=gen(rng,cg,depth+1); toks.append(('close',))
    return toks
KINDS='$><!'
def render(toks, rng, insert=True):
    """returns text, expected clean, expected desc map, expected annotations"""
    text=''; clean=''; desc=collections.defaultdict(list); ann={}; idx=-1; stack=[]; prev=0
    pending=[]   # ring tokens after atom buffered so we can insert descriptors before/after
    i=0
    def mkdesc(leading=False):
        k=rng.choice(KINDS); lab=rng.choice(['','','a','B2','x1y']); o=rng.choice([1,1,1,2,3,0])
        sym={0:'.',1:'',2:'=',3:'#'}[o]
        if o==1 and rng.random()<0.2: sym='-'
        if leading: return '['+k+lab+']'+sym, k+lab+str(o)
        return sym+'['+k+lab+']', k+lab+str(o)
    # leading descriptors
    if insert and rng.random()<0.5:
        for _ in range(rng.choice([1,1,2])):
            t,d=mkdesc(leading=(True)); 
            # only the first leading descriptor may carry trailing symbol form; keep simple: one leading
            text+=t; desc[0].append(d); break
    n=len(toks)
    while i<n:
        t=toks[i]
        if t[0]=='atom':
            idx+=1; prev=idx
            a=t[1]; an=t[2]
            if an is not None: text+=a[:-1]+';'+an+']'; ann[idx]=an
            else: text+=a
            clean+=a
            # collect following ring tokens
            j=i+1; rings=[]
            while j<n and toks[j][0]=='ring': rings.append(toks[j]); j+=1
            rtxt=''.join(r[1]+(str(r[2]) if r[2]<10 else '%%%d'%r[2]) for r in rings)
            ds=[mkdesc() for _ in range(rng.choice([0,0,1,1,2,3]))] if insert else []
            dtxt=''.join(d[0] for d in ds)
            if rings and ds and rng.random()<0.5:
                text+=dtxt+rtxt
            else:
                text+=rtxt+dtxt
            clean+=rtxt
            for d in ds: desc[idx].append(d[1])
            i=j; continue
        if t[0]=='bond': text+=t[1]; clean+=t[1]
        elif t[0]=='ez': text+=t[1]
        elif t[0]=='open': stack.append(prev); text+='('; clean+='('
        elif t[0]=='close':
            prev=stack.pop(); text+=')'; clean+=')'
            if insert and rng.random()<0.3:
                d=mkdesc(); text+=d[0]; desc[prev].append(d[1])
        i+=1
    return text, clean, dict(desc), ann
rng=random.Random(int(sys.argv[1])); N=int(sys.argv[2])
res=collections.Counter(); ex=collections.defaultdict(list)
for t in range(N):
    cg=rng.random()<0.3
    toks=gen(rng,cg)
    text,clean,desc,ann=render(toks,rng)
    try:
        s,b,ez,attrs=strip_bonding_descriptors(text)
    except BaseException as e:
        res['EXC '+type(e).__name__]+=1; ex['EXC '+type(e).__name__].append((text,str(e)[:50])); continue
    b={k:v for k,v in b.items() if v}
    ok_clean = (s==clean); ok_desc=(b==desc)
    if ok_clean and ok_desc: res['ok']+=1
    else:
        k='DIFF'+(' clean' if not ok_clean else '')+(' desc' if not ok_desc else '')
        res[k]+=1; ex[k].append((text,clean,s,desc,b))
print(res)
for k,v in ex.items():
    v.sort(key=lambda x:len(x[0])); print('==',k)
    for x in v[:8]: print('   ',x)
