import sys,os
sys.path.insert(0,os.environ.get('REPO','/repo'))
import networkx as nx, pysmiles, random
from cgsmiles.rdkit import rdkit_to_networkx, networkx_to_rdkit
from cgsmiles import MoleculeResolver, read_cgsmiles
from cgsmiles.write_cgsmiles import write_cgsmiles_graph
for smi in ["C1=CSC=C1","c1ccsc1","C1=CC=CC=C1","[nH]1cccc1","N1C=CC=C1","c1ccccc1C=O","C1=COC=C1"]:
    try:
        g=pysmiles.read_smiles(smi)
        o1=sorted((min(a,b),max(a,b),o) for a,b,o in g.edges(data='order'))
        h=rdkit_to_networkx(networkx_to_rdkit(g))
        o2=sorted((min(a,b),max(a,b),o) for a,b,o in h.edges(data='order'))
        print(smi,'same orders' if o1==o2 else ('DIFF',o1,o2), dict(g.nodes(data='hcount'))==dict(h.nodes(data='hcount')))
    except Exception as e: print(smi,'EXC',type(e).__name__,e)
# resolved thiophene via cgsmiles
cg,aa=MoleculeResolver.from_string("{[#A]}.{#A=C1=CSC=C1}").resolve()
h=rdkit_to_networkx(networkx_to_rdkit(aa))
print(sorted(o for *_,o in aa.edges(data='order')), sorted(o for *_,o in h.edges(data='order')))
# C07 with many open rings: complete graph K12
rng=random.Random(0)
for n in [8,10,12,13]:
    g=nx.complete_graph(n)
    for v in g: g.nodes[v]['fragname']='A'
    for e in g.edges: g.edges[e]['order']=1
    s=write_cgsmiles_graph(g)
    try:
        h=read_cgsmiles(s); print(n,'iso',nx.is_isomorphic(g,h), s[:80])
    except Exception as e: print(n,'EXC',type(e).__name__,e, s[:120])
