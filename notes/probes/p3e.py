import re
exec(open('p3.py').read().split("rng=random.Random(2)")[0])
def item(rng,br=None,mult=1,pn=0.0):
    return dict(name=rng.choice('ABC'),order=rng.choice([1,1,1,0,2,3]),branches=br or [],mult=mult,morder=rng.choice([1,1,2,0]),order_between=1,rings=[])
def flat(rng,n,pn=0.0):
    return [item(rng, mult=(rng.choice([2,3]) if rng.random()<pn else 1)) for _ in range(n)]
def plain_branchy(rng,depth):
    ch=[]
    for i in range(rng.randint(1,3)):
        br=[plain_branchy(rng,depth-1) for _ in range(rng.choice([0,0,1,2]))] if depth>0 else []
        ch.append(item(rng,br))
    return ch
def run(label, mk, N=30000):
    rng=random.Random(7); seen=set(); fails=[]; tot=0
    for t in range(N):
        ch=mk(rng); s='{'+render(ch)+'}'
        if s in seen or '|' not in s: continue
        seen.add(s); tot+=1
        ref=denote(expand(ch))
        try: g=read_cgsmiles(s)
        except Exception as e: fails.append((s,'EXC '+type(e).__name__)); continue
        if not same(g,ref): fails.append((s,'DIFF' if not iso(g,ref) else 'RELABEL'))
    fails.sort(key=lambda x:len(x[0]))
    print(label,tot,collections.Counter(k for _,k in fails),[f[0] for f in fails if f[1]!='RELABEL'][:5],[f[0] for f in fails if f[1]=='RELABEL'][:3])
# D1: top-level chain; some items are multiplied units with ONE flat branch; other items plain (no branches)
def d1(rng):
    ch=[]
    for i in range(rng.randint(1,4)):
        if rng.random()<0.5: ch.append(item(rng,[flat(rng,rng.randint(1,3))],mult=rng.choice([2,3])))
        else: ch.append(item(rng))
    return ch
run('D1 top-level units, flat body, plain siblings',d1)
# D2: like D1 but other items may have plain (non multiplied) branches, nested
def d2(rng):
    ch=[]
    for i in range(rng.randint(1,4)):
        if rng.random()<0.4: ch.append(item(rng,[flat(rng,rng.randint(1,3))],mult=rng.choice([2,3])))
        else: ch.append(item(rng,[plain_branchy(rng,1) for _ in range(rng.choice([0,0,1]))]))
    return ch
run('D2 + plain branched siblings',d2)
# D3: unit inside a plain branch (anchor not first in branch)
def d3(rng):
    inner=[item(rng)]+d1(rng)
    return [item(rng),item(rng,[inner]),item(rng)]
run('D3 units inside one plain branch (not first)',d3)
def d3b(rng):
    inner=d1(rng)
    return [item(rng),item(rng,[inner]),item(rng)]
run('D3b units inside one plain branch (may be first)',d3b)
# D4: flat body with node multipliers inside, all orders 1 inside
def d4(rng):
    ch=[]
    for i in range(rng.randint(1,3)):
        if rng.random()<0.6:
            body=flat(rng,rng.randint(1,3),pn=0.5)
            ch.append(item(rng,[body],mult=rng.choice([2,3])))
        else: ch.append(item(rng,mult=rng.choice([1,2])))
    return ch
run('D4 node mult inside unit body',d4)
def d4b(rng):
    ch=d4(rng)
    for it in ch:
        for b in it['branches']:
            for x in b: x['order']=1
    return ch
run('D4b node mult inside unit body, inner orders 1',d4b)
# D5: unit with nested plain branch in body
def d5(rng):
    body=[item(rng),item(rng,[flat(rng,1)]),item(rng)]
    return [item(rng), item(rng,[body],mult=2), item(rng)]
run('D5 nested plain branch in unit body (not first node)',d5)
# D6: n=1
def d6(rng):
    return [item(rng), item(rng,[flat(rng,2)],mult=1), item(rng)]
