import sys, os, random, collections, io, contextlib
sys.path.insert(0,os.environ.get('REPO','/repo')); sys.path.insert(0,'/tmp/probe')
import networkx as nx
from gen import *
from cgsmiles import MoleculeResolver
from cgsmiles.write_cgsmiles import write_cgsmiles_graph, write_cgsmiles_fragments, write_graph
def nm(a,b): return a['element']==b['element'] and a.get('charge',0)==b.get('charge',0)
def em(a,b): return a['order']==b['order']
rng=random.Random(int(sys.argv[1])); N=int(sys.argv[2])
res=collections.Counter(); ex=collections.defaultdict(list)
for t in range(N):
    g=rnd_mol(rng, rng.randint(4,12), aromatic_p=0.2)
    whole='{[#M]}.{#M='+render_frag(rng,g,list(g),{})+'}'
    try: ref=MoleculeResolver.from_string(whole).resolve()[1]
    except Exception as e: res['ref EXC']+=1; continue
    nf=rng.randint(2,min(5,len(g)))
    base,frags,fragstrs,part=cut_and_render(rng,g,nf)
    if base.number_of_edges() and max(o for *_,o in base.edges(data='order'))>4: continue
    # group fine fragments into coarse groups (connected in base)
    ng=rng.randint(1,nf)
    nodes=list(base); rng.shuffle(nodes); seeds=nodes[:ng]; grp={s:i for i,s in enumerate(seeds)}
    ok=True
    while len(grp)<nf:
        cand=[x for x in grp if any(v not in grp for v in base[x])]
        if not cand: ok=False; break
        u=rng.choice(cand); v=rng.choice([v for v in base[u] if v not in grp]); grp[v]=grp[u]
    if not ok: continue
    # level-1 fragments: per group a CG graph over its fine fragments
    top=nx.Graph(); top.add_nodes_from(range(ng))
    lvl1={}
    desc=collections.defaultdict(list); lab=0
    for a,b,o in base.edges(data='order'):
        if grp[a]!=grp[b]:
            lab+=1; L='$Q%d%d'%(lab,o)
            desc[a].append(L); desc[b].append(L)
            ga,gb=grp[a],grp[b]
            if top.has_edge(ga,gb): top.edges[ga,gb]['order']+=1
            else: top.add_edge(ga,gb,order=1)
    if top.number_of_edges() and max(o for *_,o in top.edges(data='order'))>4: continue
    for j in range(ng):
        members=[f for f in range(nf) if grp[f]==j]
        sub=nx.Graph()
        for f in members: sub.add_node(f,fragname='F%d'%f,bonding=list(desc.get(f,[])))
        for a,b,o in base.edges(data='order'):
            if grp[a]==j and grp[b]==j: sub.add_edge(a,b,order=o)
        lvl1['G%d'%j]=sub
    for j in top: top.nodes[j]['fragname']='G%d'%j
    s=write_cgsmiles_graph(top)+'.'+write_cgsmiles_fragments(lvl1,smiles_format=False)+'.{'+','.join(fragstrs)+'}'
    try:
        with contextlib.redirect_stdout(io.StringIO()):
            r=MoleculeResolver.from_string(s); steps=list(r.resolve_iter()); fine=steps[-1][1]
            fine2=MoleculeResolver.from_string(s).resolve_all()[1]
    except Exception as e:
        k='EXC '+type(e).__name__; res[k]+=1; ex[k].append((whole,s,str(e)[:60])); continue
    if not nx.is_isomorphic(ref,fine,node_match=nm,edge_match=em): res['DIFF']+=1; ex['DIFF'].append((whole,s))
    elif sorted(fine.edges)!=sorted(fine2.edges): res['drivers differ']+=1
    elif steps[1][0] is not steps[0][1]: res['chain broken']+=1
    else: res['ok']+=1
print(res)
for k,v in ex.items():
    v.sort(key=lambda x:len(str(x))); print('==',k)
    for x in v[:6]: print('   ',x)
