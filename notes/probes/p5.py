import sys
sys.path.insert(0,__import__('os').environ.get('REPO','/repo'))
import networkx as nx
from cgsmiles import MoleculeResolver
def dump(s, aa=True, legacy=True):
    try:
        r=MoleculeResolver.from_string(s,last_all_atom=aa,legacy=legacy)
        cg,fg=r.resolve_all()
    except Exception as e:
        print(s,'EXC',type(e).__name__,e); return
    print(s)
    key='element' if aa else 'atomname'
    print('  nodes',[(n,d.get(key),d.get('fragid'),d.get('fragname')) for n,d in fg.nodes(data=True)])
    print('  edges',sorted((min(a,b),max(a,b),o) for a,b,o in fg.edges(data='order')))
    print('  cg',{k:sorted(cg.nodes[k]['graph'].nodes) if 'graph' in cg.nodes[k] else None for k in cg.nodes})
# virtual node positions (C11)
dump("{[#A][#B].[#V]}.{#A=[$]CC,#B=[$]O}")
dump("{[#V].[#A][#B]}.{#A=[$]CC,#B=[$]O}")
dump("{[#A].[#V].[#B]}.{#A=[$]CC,#B=[$]O}")
dump("{[#A]([#B]).[#V]}.{#A=[$]CC,#B=[$]O}")
dump("{[#A].1[#B][#C]1}.{#A=[$]CC[$],#B=[$]O[$],#C=[$]N[$]}")
dump("{[#A][#V][#B]}.{#A=[$]CC,#B=[$]O}")
