import networkx as nx
g=nx.Graph()
for n in [5,3,9,1]: g.add_node(n)
g.add_edge(9,3,order=1); g.add_edge(1,5,order=2); g.add_edge(3,5,order=1); g.add_edge(9,1,order=3)
print('nodes',list(g.nodes)); print('edges',list(g.edges)); print('adj',{n:list(g[n]) for n in g})
h=nx.relabel_nodes(g,{5:0,3:1,9:2,1:3},copy=True)
print('relabel nodes',list(h.nodes),'edges',list(h.edges),'adj',{n:list(h[n]) for n in h})
c=nx.contracted_nodes(g,3,1,self_loops=False)
print('contract nodes',list(c.nodes),'edges',list(c.edges(data=True)),'contraction',c.nodes[3].get('contraction'))
print('dfs',nx.dfs_successors(g,source=1))
# add_node on existing node updates attrs, keeps position
g.add_node(3,x=1); print(list(g.nodes))
