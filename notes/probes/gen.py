import random, itertools, collections
import networkx as nx
VAL={'C':4,'N':3,'O':2,'S':2,'P':3,'F':1,'Cl':1,'Br':1}
def rnd_mol(rng, n, aromatic_p=0.3, charged_p=0.1):
    """random molecular graph: heavy atoms only, valence-respecting. returns nx.Graph with element, charge, aromatic; edges order (1,2,3 or 1.5 flagged aromatic ring)"""
    g=nx.Graph()
    free={}
    def add(el,charge=0):
        i=len(g); g.add_node(i,element=el,charge=charge,aromatic=False)
        v=VAL[el]
        if el=='N' and charge==1: v=4
        if el=='O' and charge==-1: v=1
        free[i]=v
        return i
    # optional aromatic ring (benzene/pyridine)
    if rng.random()<aromatic_p and n>=6:
        ring=[add(rng.choice(['C','C','C','N']) ) for _ in range(6)]
        # at most one N to keep kekulizable simply
        ns=[r for r in ring if g.nodes[r]['element']=='N']
        for r in ns[1:]: g.nodes[r]['element']='C'; free[r]=4
        for a,b in zip(ring,ring[1:]+ring[:1]):
            g.add_edge(a,b,order=1.5)
        for r in ring:
            g.nodes[r]['aromatic']=True
            free[r]-=3   # 1.5+1.5
    else:
        add('C')
    while len(g)<n:
        cands=[i for i in g if free[i]>=1]
        if not cands: break
        a=rng.choice(cands)
        el=rng.choice(['C','C','C','C','N','O','S','F','Cl','Br','P'])
        ch=0
        if rng.random()<charged_p and el in 'NO': ch = 1 if el=='N' else -1
        b=add(el,ch)
        o=1
        m=min(free[a],free[b])
        if m>=2 and rng.random()<0.25: o=2
        if m>=3 and rng.random()<0.15: o=3
        g.add_edge(a,b,order=o); free[a]-=o; free[b]-=o
    # aliphatic ring closures
    for _ in range(rng.choice([0,0,1,1,2])):
        cands=[i for i in g if free[i]>=1 and not g.nodes[i]['aromatic']]
        rng.shuffle(cands)
        done=False
        for a in cands:
            for b in cands:
                if a<b and not g.has_edge(a,b) and nx.shortest_path_length(g,a,b)>=2:
                    g.add_edge(a,b,order=1); free[a]-=1; free[b]-=1; done=True; break
            if done: break
    for i in g: g.nodes[i]['h']=free[i]
    return g
def atom_str(d):
    el=d['element']
    if d['charge']==0:
        return el.lower() if d['aromatic'] else el
    h=d['h']; hs='' if h==0 else ('H' if h==1 else 'H%d'%h)
    cs='+' if d['charge']>0 else '-'
    return '[%s%s%s]'%(el.lower() if d['aromatic'] else el,hs,cs)
SYM={1:'',2:'=',3:'#',1.5:''}
def render_frag(rng, g, nodes, desc, start=None, desc_after_ring=None):
    """render induced subgraph on nodes as SMILES with descriptors desc[node]=list of (text, order).
       random start, random neighbour order, ring digits random. returns string"""
    sub=g.subgraph(nodes)
    start = start if start is not None else rng.choice(sorted(nodes))
    visited=set(); ring_edges={}; out=[]
    # first pass DFS to find tree edges and ring closure edges with order
    order_nb={n:rng.sample(sorted(sub[n]),len(sub[n])) for n in sub}
    parent={start:None}; tree=collections.defaultdict(list); closures=collections.defaultdict(list)
    seen=[]; 
    def dfs(u):
        visited.add(u); seen.append(u)
        for v in order_nb[u]:
            if v not in visited:
                parent[v]=u; tree[u].append(v); dfs(v)
            elif v!=parent[u] and frozenset((u,v)) not in ring_edges:
                ring_edges[frozenset((u,v))]=None
    dfs(start)
    digits=list(range(1,10)); rng.shuffle(digits)
    rid={}
    for k,e in enumerate(ring_edges): rid[e]=digits[k] if k<9 else 10+k
    def mark(r): return str(r) if r<10 else '%%%d'%r
    def dstr(n):
        s=''
        for (txt,o) in desc.get(n,[]):
            s+=SYM[o]+'['+txt+']'
        return s
    def emit(u):
        s=atom_str(g.nodes[u])
        rs=''
        opened=[]
        for e in ring_edges:
            if u in e:
                o=g.edges[tuple(e)]['order']
                # write bond symbol on first occurrence only
                first = rid[e] not in emit.open
                if first: emit.open.add(rid[e])
                sym = SYM[o] if (first and o in (2,3)) else ''
                rs+=sym+mark(rid[e])
        d=dstr(u)
        if d and rs and rng.random()<0.5: s+=d+rs     # descriptor before ring digits
        else: s+=rs+d
        kids=tree[u]
        for i,v in enumerate(kids):
            o=g.edges[u,v]['order']
            sym=SYM[o]
            if o==1 and g.nodes[u]['aromatic'] and g.nodes[v]['aromatic']: sym='-'
            body=sym+emit(v)
            if i<len(kids)-1: s+='('+body+')'
            else: s+=body
        return s
    emit.open=set()
    return emit(start)
def cut_and_render(rng, g, nfrag, kinds=('$','><')):
    n=len(g)
    # partition into connected fragments: random spanning forest growth
    nodes=list(g); rng.shuffle(nodes)
    seeds=nodes[:nfrag]; part={s:i for i,s in enumerate(seeds)}
    frontier=list(seeds)
    while len(part)<n:
        u=rng.choice([x for x in part if any(v not in part for v in g[x])])
        v=rng.choice([v for v in g[u] if v not in part]); part[v]=part[u]
    frags=[sorted(k for k in part if part[k]==i) for i in range(nfrag)]
    desc=collections.defaultdict(list); base=nx.Graph(); base.add_nodes_from(range(nfrag))
    lab=0
    for a,b,o in g.edges(data='order'):
        if part[a]!=part[b]:
            lab+=1; L='L%d'%lab
            oo = 1 if o==1.5 else o
            if rng.choice(kinds)=='$':
                desc[a].append(('$'+L,oo)); desc[b].append(('$'+L,oo))
            else:
                desc[a].append(('>'+L,oo)); desc[b].append(('<'+L,oo))
            fa,fb=part[a],part[b]
            if base.has_edge(fa,fb): base.edges[fa,fb]['order']+=1
            else: base.add_edge(fa,fb,order=1)
    for k in desc: rng.shuffle(desc[k])
    fragstrs=['#F%d='%i+render_frag(rng,g,frags[i],desc) for i in range(nfrag)]
    return base, frags, fragstrs, part
