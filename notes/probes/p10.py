import sys, io, contextlib, random
sys.path.insert(0,__import__('os').environ.get('REPO','/repo'))
import networkx as nx
from cgsmiles import MoleculeSampler
import pysmiles
def run(fs, w, seed=1, **kw):
    try:
        s=MoleculeSampler.from_fragment_string(fs, seed=seed, **kw)
        m=s.sample(w)
        return s,m
    except BaseException as e:
        import traceback; print('EXC',type(e).__name__,e); return None,None
s,m=run("{#PEO=[<]COC[>],#PE=[<]CC[>]}",300,polymer_reactivities={'>':0.5,'<':0.5})
print(s.fragment_masses, len(m), nx.is_connected(m))
print([(n,d['element'],d['fragid'],d['fragname'],d.get('atomname')) for n,d in m.nodes(data=True)][:14])
print(collections:=None)
# reproducibility
a=run("{#PEO=[<]COC[>],#PE=[<]CC[>]}",300,seed=5,polymer_reactivities={'>':0.5,'<':0.5})[1]
b=run("{#PEO=[<]COC[>],#PE=[<]CC[>]}",300,seed=5,polymer_reactivities={'>':0.5,'<':0.5})[1]
print('same seed same mol', sorted(a.edges)==sorted(b.edges) and dict(a.nodes(data='element'))==dict(b.nodes(data='element')))
s=MoleculeSampler.from_fragment_string("{#PEO=[<]COC[>],#PE=[<]CC[>]}",seed=5,polymer_reactivities={'>':0.5,'<':0.5})
c1=s.sample(300); c2=s.sample(300)
print('second sample from same sampler equal to first?', sorted(c1.edges)==sorted(c2.edges) and dict(c1.nodes(data='element'))==dict(c2.nodes(data='element')))
# weight stop rule: count fragments
def frag_count(m): 
    return len({tuple(d) for _,d in m.nodes(data='fragid')})
for w in [1,46,47,92,93,100,1000]:
    s,m=run("{#PEO=[<]COC[>]}",w,polymer_reactivities={'>':0.5,'<':0.5})
    print(w, frag_count(m), s.fragment_masses)
# CG with $ labels and reactivity zero
fs="{#A=[$a][#X][$b],#B=[$c][#Y][$d]}"
s,m=run(fs,20,polymer_reactivities={'$a':1,'$b':0,'$c':1,'$d':0},fragment_reactivities={'$a':{'$a':0,'$b':1,'$c':0,'$d':1},'$c':{'$a':0,'$b':1,'$c':0,'$d':1}},fragment_masses={'A':1,'B':1},all_atom=False)
if m is not None:
    print([ (a,b,d['bonding']) for a,b,d in m.edges(data=True)])
# missing key -> 0
s,m=run(fs,10,polymer_reactivities={'$a':1},fragment_masses={'A':1,'B':1},all_atom=False)
if m is not None: print([ (a,b,d['bonding']) for a,b,d in m.edges(data=True)])
# all zero -> ?
s,m=run(fs,10,polymer_reactivities={'$a':0,'$b':0,'$c':0,'$d':0},fragment_masses={'A':1,'B':1},all_atom=False)
# > < with labels
fs="{#A=[>x][#X][<y],#B=[>y][#Y][<x]}"
s,m=run(fs,10,polymer_reactivities={'>x':1,'<y':1,'>y':1,'<x':1},fragment_masses={'A':1,'B':1},all_atom=False)
if m is not None: print([ (a,b,d['bonding']) for a,b,d in m.edges(data=True)])
# exhaustion: terminal only
fs="{#A=[$][#X],#B=[$][#Y]}"
s,m=run(fs,10,polymer_reactivities={'$':1},fragment_masses={'A':1,'B':1},all_atom=False)
# orders
fs="{#A=[$]=[#X][$],#B=[$]=[#Y][$]}"
s,m=run(fs,6,polymer_reactivities={'$1':1,'$2':1},fragment_masses={'A':1,'B':1},all_atom=False)
if m is not None: print([ (a,b,d['bonding'],d['order']) for a,b,d in m.edges(data=True)], dict(m.nodes(data='bonding')))
# masses
s,_=run("{#A=[$]CC[$],#B=[$]c1ccccc1,#C=[$][NH3+],#D=[$]C(=O)[O-],#E=[$]C=[$]}",1,polymer_reactivities={'$':1})
print(s.fragment_masses)
