import Mathlib.Tactic.Ring
import Mathlib.Tactic.FieldSimp
import Mathlib.Tactic.Linarith
import Mathlib.Algebra.BigOperators.Group.Finset.Basic
import Mathlib.Algebra.Order.Field.Basic
import Mathlib.Algebra.BigOperators.Ring.Finset
open Finset
-- bead position = (Σ w_i p_i) / (Σ w_i); translation equivariance over a field
theorem fwd_translate {K : Type} [Field K] {ι : Type} (s : Finset ι) (w p : ι → K) (t : K)
    (hw : (∑ i ∈ s, w i) ≠ 0) :
    (∑ i ∈ s, w i * (p i + t)) / (∑ i ∈ s, w i) = (∑ i ∈ s, w i * p i) / (∑ i ∈ s, w i) + t := by
  have : (∑ i ∈ s, w i * (p i + t)) = (∑ i ∈ s, w i * p i) + (∑ i ∈ s, w i) * t := by
    simp [mul_add, Finset.sum_add_distrib, Finset.sum_mul]
  rw [this]; field_simp
#print axioms fwd_translate
