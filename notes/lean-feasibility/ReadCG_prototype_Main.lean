import RC.ReadCG
open RC
partial def loop (h : IO.FS.Stream) : IO Unit := do
  let line ← h.getLine
  if line.isEmpty then return ()
  let s := (line.dropEnd 1).copy
  IO.println (dump (readCG s))
  loop h
def main : IO Unit := do loop (← IO.getStdin)
