/-! Feasibility probe: stack-based event interpreter (shape of read_cgsmiles main loop) vs. AST denotation -/
namespace CGS

structure G where
  nodes : List String := []
  edges : List (Nat × Nat × Nat) := []
deriving Repr, DecidableEq

def G.add (g : G) (prev : Option Nat) (name : String) (o : Nat) : G :=
  let n := g.nodes.length
  { nodes := g.nodes ++ [name],
    edges := match prev with | none => g.edges | some p => g.edges ++ [(p, n, o)] }

@[simp] theorem G.add_len (g : G) (p n o) : (g.add p n o).nodes.length = g.nodes.length + 1 := by
  simp [G.add]

mutual
inductive Chain where
  | nil : Chain
  | cons (o : Nat) (name : String) (bs : Branches) (rest : Chain) : Chain
inductive Branches where
  | nil : Branches
  | cons (b : Chain) (bs : Branches) : Branches
end

/-- events as the scanner sees them: a node token carries: was it preceded by '(' ;
    the bond order found in the gap after it; and how many ')' follow with the order after each -/
inductive Ev where
  | node (name : String)
  | ord (o : Nat)       -- bond symbol
  | openB               -- '('
  | closeB              -- ')'
deriving Repr, DecidableEq

mutual
def evC : Chain → List Ev
  | .nil => []
  | .cons o name bs rest => [.ord o, .node name] ++ evB bs ++ evC rest
def evB : Branches → List Ev
  | .nil => []
  | .cons b bs =>
    match b with
    | .nil => evB bs      -- empty branch not rendered
    | .cons o name bs' rest' => [.ord o, .openB, .node name] ++ evB bs' ++ evC rest' ++ [.closeB] ++ evB bs
end

mutual
def denC (prev : Option Nat) (g : G) : Chain → G
  | .nil => g
  | .cons o name bs rest =>
    let n := g.nodes.length
    denC (some n) (denB n (g.add prev name o) bs) rest
def denB (anchor : Nat) (g : G) : Branches → G
  | .nil => g
  | .cons b bs =>
    match b with
    | .nil => denB anchor g bs
    | .cons o name bs' rest' =>
      let n := g.nodes.length
      denB anchor (denC (some n) (denB n (g.add (some anchor) name o) bs') rest') bs
end

/-- scanner state -/
structure St where
  g : G := {}
  prev : Option Nat := none
  stack : List Nat := []
  pbo : Nat := 1          -- prev_bond_order
  pendingOpen : Bool := false
deriving Repr

def step (s : St) : Ev → Option St
  | .ord o => some { s with pbo := o }
  | .openB => some { s with pendingOpen := true }
  | .node name =>
    let stack := if s.pendingOpen then (match s.prev with | some p => p :: s.stack | none => s.stack) else s.stack
    let n := s.g.nodes.length
    some { g := s.g.add s.prev name s.pbo, prev := some n, stack := stack, pbo := 1, pendingOpen := false }
  | .closeB =>
    match s.stack with
    | [] => none           -- IndexError: pop from empty list
    | a :: st => some { s with prev := some a, stack := st, pbo := 1 }

def run (s : St) : List Ev → Option St
  | [] => some s
  | e :: es => match step s e with | none => none | some s' => run s' es

theorem run_append (s : St) (xs ys : List Ev) :
    run s (xs ++ ys) = (run s xs).bind fun s' => run s' ys := by
  induction xs generalizing s with
  | nil => simp [run]
  | cons x xs ih =>
    simp only [List.cons_append, run]
    cases step s x <;> simp [ih]

-- main invariant
mutual
theorem run_evC (c : Chain) (s : St) (hp : s.pendingOpen = false) :
    ∃ s', run s (evC c) = some s' ∧ s'.g = denC s.prev s.g c ∧ s'.stack = s.stack ∧ s'.pendingOpen = false
      ∧ (c = .nil → s' = s) ∧ (∀ o n b r, c = .cons o n b r → s'.pbo = 1 ∧ ∃ k, s'.prev = some k) := by
  cases c with
  | nil => exact ⟨s, by simp [evC, run, denC, hp]⟩
  | cons o name bs rest =>
    simp only [evC, List.cons_append, List.nil_append, run, step, hp]
    simp only [Bool.false_eq_true, if_false, List.append_assoc]
    rw [run_append]
    let s1 : St := { g := s.g.add s.prev name o, prev := some s.g.nodes.length, stack := s.stack, pbo := 1, pendingOpen := false }
    obtain ⟨s2, h2, hg2, hst2, hpo2, hprev2, hpbo2⟩ := run_evB bs s1 s.g.nodes.length rfl rfl rfl
    simp only [s1] at h2
    rw [h2]
    simp only [Option.bind_some]
    obtain ⟨s3, h3, hg3, hst3, hpo3, hnil3, hcons3⟩ := run_evC rest s2 hpo2
    refine ⟨s3, h3, ?_, ?_, hpo3, by simp, ?_⟩
    · rw [hg3, hprev2, hg2]; simp [denC, s1]
    · rw [hst3, hst2]
    · intro _ _ _ _ _
      cases rest with
      | nil => have := hnil3 rfl; subst this; exact ⟨hpbo2, _, hprev2⟩
      | cons o' n' b' r' => exact hcons3 _ _ _ _ rfl
theorem run_evB (bs : Branches) (s : St) (a : Nat) (hp : s.pendingOpen = false) (hprev : s.prev = some a) (hpbo : s.pbo = 1) :
    ∃ s', run s (evB bs) = some s' ∧ s'.g = denB a s.g bs ∧ s'.stack = s.stack ∧ s'.pendingOpen = false
      ∧ s'.prev = some a ∧ s'.pbo = 1 := by
  cases bs with
  | nil => exact ⟨s, by simp [evB, run, denB, hp, hprev, hpbo]⟩
  | cons b bs =>
    cases b with
    | nil =>
      simp only [evB, denB]
      exact run_evB bs s a hp hprev hpbo
    | cons o name bs' rest' =>
      simp only [evB, List.cons_append, List.nil_append, run, step, hprev, List.append_assoc]
      simp only [if_true]
      rw [run_append]
      let s1 : St := { g := s.g.add (some a) name o, prev := some s.g.nodes.length, stack := a :: s.stack, pbo := 1, pendingOpen := false }
      obtain ⟨s2, h2, hg2, hst2, hpo2, hprev2, hpbo2⟩ := run_evB bs' s1 s.g.nodes.length rfl rfl rfl
      simp only [s1] at h2
      rw [h2]; simp only [Option.bind_some]
      rw [run_append]
      obtain ⟨s3, h3, hg3, hst3, hpo3, _, _⟩ := run_evC rest' s2 hpo2
      rw [h3]; simp only [Option.bind_some, List.cons_append, List.nil_append, run, step]
      rw [hst3, hst2]
      simp only [s1]
      let s4 : St := { s3 with prev := some a, stack := s.stack, pbo := 1 }
      obtain ⟨s5, h5, hg5, hst5, hpo5, hprev5, hpbo5⟩ := run_evB bs s4 a hpo3 rfl rfl
      refine ⟨s5, h5, ?_, by rw [hst5], hpo5, hprev5, hpbo5⟩
      rw [hg5]; simp only [s4, hg3, hprev2, hg2, s1, denB]
end

theorem read_correct (c : Chain) : ∃ s', run {} (evC c) = some s' ∧ s'.g = denC none {} c := by
  obtain ⟨s', h, hg, _⟩ := run_evC c {} rfl
  exact ⟨s', h, hg⟩

#print axioms read_correct
end CGS
