/-! Feasibility probe: model of resolve.py compatible / match_bonding_descriptors / edges_from_bonding_descrpt -/
namespace CG

abbrev Desc := List Char   -- raw descriptor string, e.g. ['$','A','1']

/-- resolve.py:14 compatible (legacy branch and non-legacy branch) -/
def compatible (legacy : Bool) (l r : Desc) : Bool :=
  match l, r with
  | lc :: ltl, rc :: rtl =>
    if legacy then
      if (l == r) && !(lc == '>' || lc == ' ' || lc == '<') then true
      else if (lc == '<' && rc == '>') || (lc == '>' && rc == '<') then ltl == rtl
      else false
    else
      if (lc == '$' && rc == '$') || (lc == '!' && rc == '!') then true
      else if (lc == '<' && rc == '>') || (lc == '>' && rc == '<') then true
      else false
  | _, _ => false   -- Python would raise IndexError on empty strings; never produced by the reader

/-- a fragment instance: atoms (fine node key) with their open descriptor lists, in node order -/
abbrev Frag := List (Nat × List Desc)

def findInLists (legacy : Bool) (bs bt : List Desc) : Option (Desc × Desc) :=
  bs.findSome? fun s => (bt.find? fun t => compatible legacy s t).map fun t => (s, t)

/-- resolve.py:46 match_bonding_descriptors : first match in (source node, target node, source desc, target desc) order -/
def matchBD (legacy : Bool) (src tgt : Frag) : Option ((Nat × Nat) × (Desc × Desc)) :=
  src.findSome? fun (sn, bs) =>
    tgt.findSome? fun (tn, bt) =>
      (findInLists legacy bs bt).map fun p => ((sn, tn), p)

def removeAt (f : Frag) (n : Nat) (d : Desc) : Frag :=
  f.map fun (k, ds) => if k == n then (k, ds.erase d) else (k, ds)

structure Bond where
  a : Nat
  b : Nat
  da : Desc
  db : Desc
deriving Repr, DecidableEq

/-- state: association list coarse node -> fragment instance -/
abbrev St := List (Nat × Frag)

def St.get (s : St) (k : Nat) : Frag := (s.lookup k).getD []
def St.set (s : St) (k : Nat) (f : Frag) : St := s.map fun (k', f') => if k' == k then (k', f) else (k', f')

/-- one unit of edge order -/
def stepUnit (legacy : Bool) (p n : Nat) (acc : St × List Bond) : St × List Bond :=
  let (s, bonds) := acc
  match matchBD legacy (s.get p) (s.get n) with
  | none => (s, bonds)
  | some ((a, b), (da, db)) =>
    let s1 := s.set p (removeAt (s.get p) a da)
    let s2 := s1.set n (removeAt (s1.get n) b db)
    (s2, bonds ++ [⟨a, b, da, db⟩])

def stepEdge (legacy : Bool) (acc : St × List Bond) (e : Nat × Nat × Nat) : St × List Bond :=
  (List.range e.2.2).foldl (fun acc _ => stepUnit legacy e.1 e.2.1 acc) acc

def edgesFrom (legacy : Bool) (edges : List (Nat × Nat × Nat)) (s : St) : St × List Bond :=
  edges.foldl (stepEdge legacy) (s, [])

/-! ### lemmas -/

theorem findInLists_some {legacy bs bt s t} (h : findInLists legacy bs bt = some (s, t)) :
    s ∈ bs ∧ t ∈ bt ∧ compatible legacy s t = true := by
  unfold findInLists at h
  rw [List.findSome?_eq_some_iff] at h
  obtain ⟨l1, a, l2, hbs, ha, _⟩ := h
  simp only [Option.map_eq_some_iff] at ha
  obtain ⟨t', ht', heq⟩ := ha
  have := List.find?_some ht'
  have hm := List.mem_of_find?_eq_some ht'
  cases heq
  exact ⟨by simp [hbs], hm, this⟩

theorem matchBD_some {legacy src tgt a b da db}
    (h : matchBD legacy src tgt = some ((a, b), (da, db))) :
    (∃ bs, (a, bs) ∈ src ∧ da ∈ bs) ∧ (∃ bt, (b, bt) ∈ tgt ∧ db ∈ bt) ∧ compatible legacy da db = true := by
  unfold matchBD at h
  rw [List.findSome?_eq_some_iff] at h
  obtain ⟨l1, ⟨sn, bs⟩, l2, hsrc, h2, _⟩ := h
  rw [List.findSome?_eq_some_iff] at h2
  obtain ⟨m1, ⟨tn, bt⟩, m2, htgt, h3, _⟩ := h2
  simp only [Option.map_eq_some_iff] at h3
  obtain ⟨⟨s, t⟩, hf, heq⟩ := h3
  obtain ⟨hs, ht, hc⟩ := findInLists_some hf
  simp only [Prod.mk.injEq] at heq
  obtain ⟨⟨rfl, rfl⟩, rfl, rfl⟩ := heq
  exact ⟨⟨bs, by simp [hsrc], hs⟩, ⟨bt, by simp [htgt], ht⟩, hc⟩

theorem matchBD_none {legacy src tgt} (h : matchBD legacy src tgt = none) :
    ∀ a bs b bt da db, (a, bs) ∈ src → (b, bt) ∈ tgt → da ∈ bs → db ∈ bt → compatible legacy da db = false := by
  intro a bs b bt da db hs ht hda hdb
  unfold matchBD at h
  rw [List.findSome?_eq_none_iff] at h
  have h1 := h (a, bs) hs
  rw [List.findSome?_eq_none_iff] at h1
  have h2 := h1 (b, bt) ht
  simp only [Option.map_eq_none_iff] at h2
  unfold findInLists at h2
  rw [List.findSome?_eq_none_iff] at h2
  have h3 := h2 da hda
  simp only [Option.map_eq_none_iff, List.find?_eq_none] at h3
  have := h3 db hdb
  simpa using this

/-- compatibility characterisation, legacy convention, on well-formed descriptors -/
theorem compatible_legacy_iff (lc rc : Char) (ltl rtl : List Char) :
    compatible true (lc :: ltl) (rc :: rtl) = true ↔
      ((lc = rc ∧ ltl = rtl ∧ lc ≠ '>' ∧ lc ≠ '<' ∧ lc ≠ ' ') ∨
       (((lc = '<' ∧ rc = '>') ∨ (lc = '>' ∧ rc = '<')) ∧ ltl = rtl)) := by
  simp only [compatible, if_true]
  grind

#print axioms matchBD_some
#print axioms matchBD_none
#print axioms compatible_legacy_iff
end CG
