/-! Prototype: faithful model of cgsmiles.read_cgsmiles (tree 3600e9f, unrepaired), names only (no annotation parsing). -/
namespace RC

inductive Err where
  | syntax | value | index | key | unbound | typeE | unsupported
deriving Repr, DecidableEq

def Err.str : Err → String
  | .syntax => "SyntaxError" | .value => "ValueError" | .index => "IndexError" | .key => "KeyError"
  | .unbound => "UnboundLocalError" | .typeE => "TypeError" | .unsupported => "UNSUPPORTED"

abbrev M := Except Err

def symOrder? (c : Char) : Option Nat :=
  if c == '.' then some 0 else if c == '=' then some 2 else if c == '-' then some 1
  else if c == '#' then some 3 else if c == '$' then some 4 else none

def isDigit (c : Char) : Bool := '0' ≤ c && c ≤ '9'

/-- python `int(s)` restricted to ASCII: optional sign, digits; surrounding blanks unsupported -/
def pyInt (s : List Char) : M Int :=
  let (neg, ds) := match s with
    | '+' :: r => (false, r)
    | '-' :: r => (true, r)
    | r => (false, r)
  if ds.isEmpty then .error .value
  else if ds.all isDigit then
    let n := ds.foldl (fun acc c => acc * 10 + (c.toNat - '0'.toNat)) 0
    .ok (if neg then - (n : Int) else n)
  else if ds.any (fun c => c == '_' || c == ' ' || c.toNat > 127) then .error .unsupported
  else .error .value

structure Recipe where
  n : Int
  attrs : String
  order : Option Nat     -- prev_bond_order may be None
deriving Repr

structure St where
  names : Array String := #[]                 -- node k ↦ name (keys are 0..current-1)
  edges : List (Nat × Nat × Option Nat) := [] -- unordered pairs, stored (min,max,order)
  current : Nat := 0
  anchors : List (Option Nat) := []           -- branch_anchor, top = LAST element
  recipes : List (Option Nat × List Recipe) := []   -- insertion ordered dict
  prev : Option Nat := none
  branching : Bool := false
  cycle : List (Nat × Nat × Nat) := []        -- marker ↦ (node, order)
  pbo : Option Nat := none                    -- prev_bond_order
  attrs : Option String := none               -- `attributes` of the previous node (unbound at start)
  baseAnchor : Option (Option Nat) := none    -- unbound / bound (possibly to None)
  rdx : Option Nat := none                    -- loop variable of the ring scan survives iterations
deriving Repr

def normEdge (a b : Nat) : Nat × Nat := if a ≤ b then (a, b) else (b, a)

def St.hasEdge (s : St) (a b : Nat) : Bool :=
  let (x, y) := normEdge a b
  s.edges.any fun (u, v, _) => u == x && v == y

def St.addEdge (s : St) (a b : Nat) (o : Option Nat) : St :=
  let (x, y) := normEdge a b
  if s.hasEdge a b then
    { s with edges := s.edges.map fun (u, v, o') => if u == x && v == y then (u, v, o) else (u, v, o') }
  else { s with edges := s.edges ++ [(x, y, o)] }

def St.addNode (s : St) (k : Nat) (name : String) : St :=
  if k < s.names.size then { s with names := s.names.set! k name }
  else { s with names := s.names.push name }   -- k = size always

def findNext (p : Array Char) (chars : List Char) (start : Nat) : Nat := Id.run do
  let mut i := start
  while i < p.size do
    if chars.contains p[i]! then return i
    i := i + 1
  return p.size

def recipesGet (r : List (Option Nat × List Recipe)) (k : Option Nat) : Option (List Recipe) :=
  (r.find? fun (k', _) => k' == k).map (·.2)

def recipesSet (r : List (Option Nat × List Recipe)) (k : Option Nat) (v : List Recipe) : List (Option Nat × List Recipe) :=
  if r.any (fun (k', _) => k' == k) then r.map fun (k', v') => if k' == k then (k', v) else (k', v')
  else r ++ [(k, v)]

/-- toggle a ring marker -/
def toggle (s : St) (cycEdges : List (Nat × Nat × Nat)) (m : Nat) (o : Nat) : St × List (Nat × Nat × Nat) :=
  match s.cycle.find? (fun (k, _) => k == m) with
  | some (_, node, ord) => ({ s with cycle := s.cycle.filter fun (k, _) => k != m }, cycEdges ++ [(s.current, node, ord)])
  | none => ({ s with cycle := s.cycle ++ [(m, s.current, o)] }, cycEdges)

/-- _expand_branch -/
def expandBranch (s : St) (anchor : Option Nat) (recipe : List Recipe) : M (St × Option Nat) := do
  let mut st := s
  let mut prevN := anchor
  let mut anch := anchor
  let mut bdx := 0
  for r in recipe do
    if bdx == 0 then anch := some st.current
    let cnt := r.n.toNat   -- range(0, n) empty for n ≤ 0
    for _ in [0:cnt] do
      st := st.addNode st.current r.attrs
      match prevN with
      | none => throw .unsupported      -- add_edge(None, …) : networkx raises ValueError; never reached from grammar strings
      | some p => st := st.addEdge p st.current r.order
      prevN := some st.current
      st := { st with current := st.current + 1 }
    bdx := bdx + 1
  return (st, anch)

/-- process one regex match: `start`,`stop` are the span of `[#…]` in `p` -/
def stepMatch (p : Array Char) (s : St) (start stop : Nat) : M St := do
  let len := p.size
  let mut st := s
  -- branch opening
  let pre : Char := if start == 0 then p[len - 1]! else p[start - 1]!
  if pre == '(' then
    let attrs ← match st.attrs with | none => throw .unbound | some a => pure a
    st := { st with branching := true, anchors := st.anchors ++ [st.prev] }
    st := { st with recipes := recipesSet st.recipes st.prev [⟨1, attrs, some 1⟩] }
  -- ring scan
  let mut ringMarker : List Char := []
  let mut multi := false
  let mut rbo := 1
  let mut cyc : List (Nat × Nat × Nat) := []
  let mut rdx := st.rdx
  let mut i := stop
  let mut fin := false
  while i < len && !fin do
    let token := p[i]!
    rdx := some (i - stop)
    if token.toNat > 127 then throw .unsupported
    if multi && !isDigit token then
      let m ← pyInt (ringMarker.drop 1)
      let (st', cyc') := toggle st cyc m.toNat rbo
      st := st'; cyc := cyc'
      multi := false; ringMarker := []; rbo := 1
    if token == '%' then
      multi := true; ringMarker := ['%']
    else if isDigit token then
      ringMarker := ringMarker ++ [token]
      if !multi then
        let m ← pyInt ringMarker
        let (st', cyc') := toggle st cyc m.toNat rbo
        st := st'; cyc := cyc'
        ringMarker := []; rbo := 1
    else if let some o := symOrder? token then
      rbo := o
    else
      fin := true
    i := i + 1
  st := { st with rdx := rdx }
  -- bond order following the node
  let mut bondOrder := 1
  if stop < len then
    let r ← match rdx with | none => throw .unbound | some r => pure r
    -- python index stop+rdx-1 ; never negative because stop ≥ 4
    let c := p[stop + r - 1]!
    if c == '-' || c == ' ' || c == '+' || c == '.' || c == '=' || c == '#' || c == '$' then
      match symOrder? c with
      | some o => bondOrder := o
      | none => throw .key
  -- expansion of the node
  let mut nMon : Int := 1
  if stop < len && p[stop]! == '|' then
    let eon := findNext p ['[', ')', '(', '}'] stop
    nMon ← pyInt ((p.extract (stop + 1) eon).toList)
  let name := String.ofList ((p.extract (start + 2) (stop - 1)).toList)
  st := { st with attrs := some name }
  if st.branching then
    let k := st.anchors.getLast?.getD none
    let cur := (recipesGet st.recipes k).getD []
    st := { st with recipes := recipesSet st.recipes k (cur ++ [⟨nMon, name, st.pbo⟩]) }
  for _ in [0:nMon.toNat] do
    st := st.addNode st.current name
    if let some pn := st.prev then
      st := st.addEdge pn st.current st.pbo
    st := { st with pbo := some bondOrder }
    for (a, b, o) in cyc do
      if st.hasEdge a b then throw .syntax
      st := st.addEdge a b (some o)
    st := { st with prev := some st.current, current := st.current + 1 }
  -- branch closing
  let branchStop := findNext p ['['] stop > findNext p [')'] stop
  if branchStop then
    st := { st with branching := false }
    match st.anchors.getLast? with
    | none => throw .index
    | some a =>
      st := { st with prev := a, anchors := st.anchors.dropLast }
    if !st.anchors.isEmpty then st := { st with branching := true }
    let mut eonA := findNext p [')'] stop
    let c1 := eonA + 1 < len && p[eonA + 1]! == '|'
    let c2 := eonA + 2 < len && p[eonA + 2]! == '|'
    if c1 || c2 then
      if eonA + 2 ≥ len then throw .index
      if p[eonA + 2]! == '|' then
        let ao ← match symOrder? p[eonA + 1]! with | none => throw .key | some o => pure o
        -- recipes[prev_node][0] on a defaultdict
        match recipesGet st.recipes st.prev with
        | none => throw .index          -- defaultdict creates [] then [0] raises IndexError
        | some [] => throw .index
        | some (r0 :: rest) =>
          st := { st with recipes := recipesSet st.recipes st.prev (⟨r0.n, r0.attrs, some ao⟩ :: rest) }
        eonA := eonA + 1
      let eonB := findNext p ['[', ')', '(', '}', '.', '=', '-', '#', '$'] (eonA + 1)
      let n ← pyInt ((p.extract (eonA + 2) eonB).toList)
      for _ in [0:(n - 1).toNat] do
        let mut prevAnchor : Option (Option Nat) := none
        let mut skip := 0
        for (refAnchor, recipe) in st.recipes.drop st.anchors.length do
          -- `if prev_anchor:` truthiness: None and 0 are falsy
          let truthy := match prevAnchor with | some (some k) => k != 0 | _ => false
          if truthy then
            match refAnchor, prevAnchor, st.prev with
            | some ra, some (some pa), some pn =>
              let off : Int := (ra : Int) - (pa : Int)
              let np : Int := (pn : Int) + off
              if np < 0 then throw .unsupported
              st := { st with prev := some np.toNat }
              skip := 1
            | _, _, _ => throw .typeE
          let (st', a) ← expandBranch st st.prev (recipe.drop skip)
          st := { st' with prev := a }
          if prevAnchor.isNone then st := { st with baseAnchor := some st.prev }
          prevAnchor := some refAnchor
      match st.baseAnchor with
      | none => throw .unbound
      | some b => st := { st with prev := b }
      if eonB ≥ len then throw .index
      if let some o := symOrder? p[eonB]! then st := { st with pbo := some o }
    else if eonA + 1 < len then
      if let some o := symOrder? p[eonA + 1]! then st := { st with pbo := some o }
    if st.anchors.isEmpty then st := { st with recipes := [] }
  return st

/-- all non-overlapping reMatches of `\[\#.*?\]` (no newline in `.`) -/
def reMatches (p : Array Char) : List (Nat × Nat) := Id.run do
  let mut out := []
  let mut i := 0
  while i + 1 < p.size do
    if p[i]! == '[' && p[i+1]! == '#' then
      -- find the next ']' at position ≥ i+2 without crossing a newline
      let mut j := i + 2
      let mut found := false
      let mut bad := false
      while j < p.size && !found && !bad do
        if p[j]! == ']' then found := true
        else if p[j]! == '\n' then bad := true
        else j := j + 1
      if found then
        out := out ++ [(i, j + 1)]
        i := j + 1
      else i := i + 1
    else i := i + 1
  return out

def readCG (s : String) : M St := do
  let p := s.toList.toArray
  let mut st : St := {}
  for (a, b) in reMatches p do
    st ← stepMatch p st a b
  if !st.cycle.isEmpty then throw .syntax
  return st

def dump (r : M St) : String :=
  match r with
  | .error e => "ERR " ++ e.str
  | .ok st =>
    let es := st.edges.toArray.qsort (fun a b => a.1 < b.1 || (a.1 == b.1 && a.2.1 < b.2.1))
    let e := es.toList.map fun (a, b, o) => s!"{a}-{b}:{match o with | some k => toString k | none => "N"}"
    "OK " ++ ",".intercalate st.names.toList ++ " | " ++ " ".intercalate e

end RC
