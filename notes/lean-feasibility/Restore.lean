/-! Feasibility: L-restore for one base edge (two fragments, m uniquely labelled cuts). -/
namespace LR
set_option linter.unusedSectionVars false
variable {D : Type} [DecidableEq D]

abbrev Frag (D : Type) := List (Nat × List D)

def findInLists (compat : D → D → Bool) (bs bt : List D) : Option (D × D) :=
  bs.findSome? fun s => (bt.find? fun t => compat s t).map fun t => (s, t)

def matchBD (compat : D → D → Bool) (src tgt : Frag D) : Option ((Nat × Nat) × (D × D)) :=
  src.findSome? fun (sn, bs) =>
    tgt.findSome? fun (tn, bt) =>
      (findInLists compat bs bt).map fun p => ((sn, tn), p)

def removeAt (f : Frag D) (n : Nat) (d : D) : Frag D :=
  f.map fun (k, ds) => if k = n then (k, ds.erase d) else (k, ds)

/-- total number of open occurrences of descriptor `d` on atom `a` -/
def cnt (f : Frag D) (a : Nat) (d : D) : Nat :=
  (f.map fun (k, ds) => if k = a then ds.count d else 0).sum

structure Cut (D : Type) where
  a : Nat
  b : Nat
  da : D
  db : D
deriving DecidableEq

def unit (compat : D → D → Bool) (st : Frag D × Frag D × List (Cut D)) : Frag D × Frag D × List (Cut D) :=
  match matchBD compat st.1 st.2.1 with
  | none => st
  | some ((a, b), (da, db)) => (removeAt st.1 a da, removeAt st.2.1 b db, st.2.2 ++ [⟨a, b, da, db⟩])

def iter (compat : D → D → Bool) : Nat → Frag D × Frag D × List (Cut D) → Frag D × Frag D × List (Cut D)
  | 0, st => st
  | n+1, st => iter compat n (unit compat st)

theorem findInLists_some {compat : D → D → Bool} {bs bt s t} (h : findInLists compat bs bt = some (s, t)) :
    s ∈ bs ∧ t ∈ bt ∧ compat s t = true := by
  unfold findInLists at h
  rw [List.findSome?_eq_some_iff] at h
  obtain ⟨l1, a, l2, hbs, ha, _⟩ := h
  simp only [Option.map_eq_some_iff] at ha
  obtain ⟨t', ht', heq⟩ := ha
  have := List.find?_some ht'
  have hm := List.mem_of_find?_eq_some ht'
  cases heq
  exact ⟨by simp [hbs], hm, this⟩

theorem matchBD_some {compat : D → D → Bool} {src tgt a b da db}
    (h : matchBD compat src tgt = some ((a, b), (da, db))) :
    (∃ bs, (a, bs) ∈ src ∧ da ∈ bs) ∧ (∃ bt, (b, bt) ∈ tgt ∧ db ∈ bt) ∧ compat da db = true := by
  unfold matchBD at h
  rw [List.findSome?_eq_some_iff] at h
  obtain ⟨l1, ⟨sn, bs⟩, l2, hsrc, h2, _⟩ := h
  rw [List.findSome?_eq_some_iff] at h2
  obtain ⟨m1, ⟨tn, bt⟩, m2, htgt, h3, _⟩ := h2
  simp only [Option.map_eq_some_iff] at h3
  obtain ⟨⟨s, t⟩, hf, heq⟩ := h3
  obtain ⟨hs, ht, hc⟩ := findInLists_some hf
  simp only [Prod.mk.injEq] at heq
  obtain ⟨⟨rfl, rfl⟩, rfl, rfl⟩ := heq
  exact ⟨⟨bs, by simp [hsrc], hs⟩, ⟨bt, by simp [htgt], ht⟩, hc⟩

theorem matchBD_none {compat : D → D → Bool} {src tgt} (h : matchBD compat src tgt = none) :
    ∀ a bs b bt da db, (a, bs) ∈ src → (b, bt) ∈ tgt → da ∈ bs → db ∈ bt → compat da db = false := by
  intro a bs b bt da db hs ht hda hdb
  unfold matchBD at h
  rw [List.findSome?_eq_none_iff] at h
  have h1 := h (a, bs) hs
  rw [List.findSome?_eq_none_iff] at h1
  have h2 := h1 (b, bt) ht
  simp only [Option.map_eq_none_iff] at h2
  unfold findInLists at h2
  rw [List.findSome?_eq_none_iff] at h2
  have h3 := h2 da hda
  simp only [Option.map_eq_none_iff, List.find?_eq_none] at h3
  have := h3 db hdb
  simpa using this

/-- positive count means: some entry of the fragment for atom `a` contains `d` -/
theorem cnt_pos_iff (f : Frag D) (a : Nat) (d : D) :
    0 < cnt f a d ↔ ∃ ds, (a, ds) ∈ f ∧ d ∈ ds := by
  induction f with
  | nil => simp [cnt]
  | cons x xs ih =>
    obtain ⟨k, ds⟩ := x
    simp only [cnt, List.map_cons, List.sum_cons, List.mem_cons, Prod.mk.injEq] at *
    constructor
    · intro h
      by_cases hk : k = a
      · by_cases hd : d ∈ ds
        · exact ⟨ds, Or.inl ⟨hk.symm, rfl⟩, hd⟩
        · simp only [hk, if_true, List.count_eq_zero_of_not_mem hd, Nat.zero_add] at h
          obtain ⟨ds', h1, h2⟩ := ih.mp h
          exact ⟨ds', Or.inr h1, h2⟩
      · simp only [hk, if_false, Nat.zero_add] at h
        obtain ⟨ds', h1, h2⟩ := ih.mp h
        exact ⟨ds', Or.inr h1, h2⟩
    · rintro ⟨ds', h1 | h1, h2⟩
      · obtain ⟨rfl, rfl⟩ := h1
        simp only [if_true]
        have := List.count_pos_iff.mpr h2
        omega
      · have := ih.mpr ⟨ds', h1, h2⟩
        omega

@[simp] theorem cnt_nil (a : Nat) (d : D) : cnt ([] : Frag D) a d = 0 := rfl
@[simp] theorem cnt_cons (k : Nat) (ds : List D) (xs : Frag D) (a : Nat) (d : D) :
    cnt ((k, ds) :: xs) a d = (if k = a then ds.count d else 0) + cnt xs a d := by
  simp [cnt]
@[simp] theorem removeAt_nil (n : Nat) (d : D) : removeAt ([] : Frag D) n d = [] := rfl
@[simp] theorem removeAt_cons (k : Nat) (ds : List D) (xs : Frag D) (n : Nat) (d : D) :
    removeAt ((k, ds) :: xs) n d = (if k = n then (k, ds.erase d) else (k, ds)) :: removeAt xs n d := by
  simp [removeAt]

theorem cnt_zero_of_not_key (f : Frag D) (a : Nat) (d : D) (h : ∀ ds, (a, ds) ∉ f) : cnt f a d = 0 := by
  rcases Nat.eq_zero_or_pos (cnt f a d) with h0 | h0
  · exact h0
  · obtain ⟨ds, h1, _⟩ := (cnt_pos_iff f a d).mp h0
    exact absurd h1 (h ds)

theorem removeAt_of_not_key (f : Frag D) (a : Nat) (d : D) (h : ∀ ds, (a, ds) ∉ f) : removeAt f a d = f := by
  induction f with
  | nil => rfl
  | cons x xs ih =>
    obtain ⟨k, ds⟩ := x
    have hk : k ≠ a := fun e => h ds (by simp [e])
    have : ∀ ds, (a, ds) ∉ xs := fun ds' hm => h ds' (by simp [hm])
    simp [hk, ih this]

/-- removing one occurrence of `d` at atom `a` (keys are distinct) decrements exactly that count -/
theorem cnt_removeAt (f : Frag D) (hnd : (f.map Prod.fst).Nodup) (a : Nat) (d : D) (a' : Nat) (d' : D)
    (hpos : ∃ ds, (a, ds) ∈ f ∧ d ∈ ds) :
    cnt (removeAt f a d) a' d' = if a' = a ∧ d' = d then cnt f a' d' - 1 else cnt f a' d' := by
  induction f with
  | nil => obtain ⟨_, h, _⟩ := hpos; simp at h
  | cons x xs ih =>
    obtain ⟨k, ds⟩ := x
    simp only [List.map_cons, List.nodup_cons, List.mem_map, Prod.exists, exists_and_right, exists_eq_right, not_exists] at hnd
    obtain ⟨hk, hnd'⟩ := hnd
    by_cases hka : k = a
    · subst hka
      have hd : d ∈ ds := by
        obtain ⟨ds', h1, h2⟩ := hpos
        simp only [List.mem_cons, Prod.mk.injEq] at h1
        rcases h1 with ⟨_, rfl⟩ | h1
        · exact h2
        · exact absurd h1 (hk ds')
      rw [removeAt_cons, if_pos rfl, removeAt_of_not_key xs k d hk, cnt_cons, cnt_cons]
      by_cases ha' : a' = k
      · subst ha'
        rw [cnt_zero_of_not_key xs a' d' hk]
        by_cases hdd : d' = d
        · subst hdd; simp [List.count_erase_self]
        · simp [hdd, List.count_erase_of_ne hdd]
      · have : ¬ (k = a') := fun h => ha' h.symm
        simp [ha', this]
    · have hpos' : ∃ ds, (a, ds) ∈ xs ∧ d ∈ ds := by
        obtain ⟨ds', h1, h2⟩ := hpos
        simp only [List.mem_cons, Prod.mk.injEq] at h1
        rcases h1 with ⟨h, _⟩ | h1
        · exact absurd h.symm hka
        · exact ⟨ds', h1, h2⟩
      rw [removeAt_cons, if_neg hka, cnt_cons, cnt_cons, ih hnd' hpos']
      by_cases hc : a' = a ∧ d' = d
      · obtain ⟨rfl, rfl⟩ := hc
        simp [hka]
      · simp [hc]

#print axioms cnt_removeAt
end LR

namespace LR
variable {D : Type} [DecidableEq D]

/-- the descriptor bookkeeping hypothesis: open descriptors are exactly the halves of the cuts -/
structure Inv (compat : D → D → Bool) (src tgt : Frag D) (cuts : List (Cut D)) : Prop where
  ndS : (src.map Prod.fst).Nodup
  ndT : (tgt.map Prod.fst).Nodup
  cS : ∀ a d, cnt src a d = cuts.countP (fun c => c.a = a ∧ c.da = d)
  cT : ∀ b d, cnt tgt b d = cuts.countP (fun c => c.b = b ∧ c.db = d)
  h1 : ∀ c ∈ cuts, compat c.da c.db = true
  h2 : ∀ c ∈ cuts, ∀ c' ∈ cuts, compat c.da c'.db = true → c = c'

theorem removeAt_keys (f : Frag D) (n : Nat) (d : D) : (removeAt f n d).map Prod.fst = f.map Prod.fst := by
  induction f with
  | nil => rfl
  | cons x xs ih =>
    obtain ⟨k, ds⟩ := x
    rw [removeAt_cons]
    by_cases h : k = n <;> simp [h, ih]

theorem countP_erase_of_mem (l : List (Cut D)) (c : Cut D) (hc : c ∈ l) (p : Cut D → Bool) :
    (l.erase c).countP p = l.countP p - (if p c then 1 else 0) := by
  have hp := (List.perm_cons_erase hc).countP_eq p
  rw [List.countP_cons] at hp
  omega

/-- one unit of edge order finds a cut, creates exactly that bond and re-establishes the invariant -/
theorem unit_step (compat : D → D → Bool) (src tgt : Frag D) (cuts : List (Cut D)) (bonds : List (Cut D))
    (hI : Inv compat src tgt cuts) (hne : cuts ≠ []) :
    ∃ c ∈ cuts, unit compat (src, tgt, bonds) = (removeAt src c.a c.da, removeAt tgt c.b c.db, bonds ++ [c]) ∧
      Inv compat (removeAt src c.a c.da) (removeAt tgt c.b c.db) (cuts.erase c) := by
  obtain ⟨c0, hc0⟩ := List.exists_mem_of_ne_nil cuts hne
  -- a match exists
  have hS0 : 0 < cnt src c0.a c0.da := by
    rw [hI.cS]; exact List.countP_pos_iff.mpr ⟨c0, hc0, by simp⟩
  have hT0 : 0 < cnt tgt c0.b c0.db := by
    rw [hI.cT]; exact List.countP_pos_iff.mpr ⟨c0, hc0, by simp⟩
  obtain ⟨bs0, hbs0, hda0⟩ := (cnt_pos_iff _ _ _).mp hS0
  obtain ⟨bt0, hbt0, hdb0⟩ := (cnt_pos_iff _ _ _).mp hT0
  cases hm : matchBD compat src tgt with
  | none =>
    have := matchBD_none hm _ _ _ _ _ _ hbs0 hbt0 hda0 hdb0
    rw [hI.h1 c0 hc0] at this; cases this
  | some r =>
    obtain ⟨⟨a, b⟩, ⟨da, db⟩⟩ := r
    obtain ⟨⟨bs, hbs, hda⟩, ⟨bt, hbt, hdb⟩, hcomp⟩ := matchBD_some hm
    have hS : 0 < cnt src a da := (cnt_pos_iff _ _ _).mpr ⟨bs, hbs, hda⟩
    have hT : 0 < cnt tgt b db := (cnt_pos_iff _ _ _).mpr ⟨bt, hbt, hdb⟩
    rw [hI.cS] at hS; rw [hI.cT] at hT
    obtain ⟨c1, hc1, hp1⟩ := List.countP_pos_iff.mp hS
    obtain ⟨c2, hc2, hp2⟩ := List.countP_pos_iff.mp hT
    simp only [decide_eq_true_eq] at hp1 hp2
    obtain ⟨ha1, hd1⟩ := hp1
    obtain ⟨hb2, hd2⟩ := hp2
    have h12 : c1 = c2 := hI.h2 c1 hc1 c2 hc2 (by rw [hd1, hd2]; exact hcomp)
    subst h12
    refine ⟨c1, hc1, ?_, ?_⟩
    · simp only [unit, hm]
      subst ha1 hd1 hb2 hd2
      rfl
    · subst ha1 hd1 hb2 hd2
      refine ⟨by rw [removeAt_keys]; exact hI.ndS, by rw [removeAt_keys]; exact hI.ndT, ?_, ?_, ?_, ?_⟩
      · intro a' d'
        rw [cnt_removeAt src hI.ndS _ _ _ _ ⟨bs, hbs, hda⟩, hI.cS, countP_erase_of_mem _ _ hc1]
        by_cases h : a' = c1.a ∧ d' = c1.da
        · obtain ⟨rfl, rfl⟩ := h; simp
        · have : ¬ (c1.a = a' ∧ c1.da = d') := fun ⟨x, y⟩ => h ⟨x.symm, y.symm⟩
          simp [h, this]
      · intro b' d'
        rw [cnt_removeAt tgt hI.ndT _ _ _ _ ⟨bt, hbt, hdb⟩, hI.cT, countP_erase_of_mem _ _ hc1]
        by_cases h : b' = c1.b ∧ d' = c1.db
        · obtain ⟨rfl, rfl⟩ := h; simp
        · have : ¬ (c1.b = b' ∧ c1.db = d') := fun ⟨x, y⟩ => h ⟨x.symm, y.symm⟩
          simp [h, this]
      · intro c hc; exact hI.h1 c (List.mem_of_mem_erase hc)
      · intro c hc c' hc'; exact hI.h2 c (List.mem_of_mem_erase hc) c' (List.mem_of_mem_erase hc')

/-- L-restore for one base edge: `order = number of cuts` iterations create exactly the cuts and use up every descriptor -/
theorem restore_edge (compat : D → D → Bool) :
    ∀ (n : Nat) (src tgt : Frag D) (cuts bonds : List (Cut D)), cuts.length = n → Inv compat src tgt cuts →
    ∃ src' tgt' made, iter compat n (src, tgt, bonds) = (src', tgt', bonds ++ made) ∧ made.Perm cuts ∧
      (∀ a d, cnt src' a d = 0) ∧ (∀ b d, cnt tgt' b d = 0) := by
  intro n
  induction n with
  | zero =>
    intro src tgt cuts bonds hl hI
    have : cuts = [] := List.length_eq_zero_iff.mp hl
    subst this
    exact ⟨src, tgt, [], by simp [iter], List.Perm.refl _, by intro a d; simp [hI.cS], by intro b d; simp [hI.cT]⟩
  | succ n ih =>
    intro src tgt cuts bonds hl hI
    have hne : cuts ≠ [] := by intro h; simp [h] at hl
    obtain ⟨c, hc, hu, hI'⟩ := unit_step compat src tgt cuts bonds hI hne
    have hl' : (cuts.erase c).length = n := by rw [List.length_erase_of_mem hc, hl]; rfl
    obtain ⟨src', tgt', made, hit, hperm, hs, ht⟩ := ih _ _ _ (bonds ++ [c]) hl' hI'
    refine ⟨src', tgt', c :: made, ?_, ?_, hs, ht⟩
    · simp only [iter, hu, hit, List.append_assoc, List.singleton_append]
    · exact (List.Perm.cons c hperm).trans (List.perm_cons_erase hc).symm

#print axioms restore_edge
end LR
