import CGP.Match
open CG
def handle (line : String) : String :=
  match line.trimAscii.toString.splitOn "\t" with
  | ["compat", leg, l, r] => toString (compatible (leg == "1") l.toList r.toList)
  | _ => "bad-op"
partial def loop (h : IO.FS.Stream) : IO Unit := do
  let line ← h.getLine
  if line.isEmpty then return ()
  IO.println (handle line)
  loop h
def main : IO Unit := do loop (← IO.getStdin)
