#!/bin/bash
export CGV_REPO=$VP_RUN_REPO CGSMILES_REPO=$VP_RUN_REPO PBR_VERSION=0
git -C $VP_RUN_REPO status --short | head -3
./setup.sh > setup.log 2>&1; tail -2 setup.log
for n in $(ls seeded | grep -E "^(C04|C15)-"); do /venv/bin/python harness/seeded.py run $n quick 2>&1 | grep -v conda | tail -1 | cut -c1-200; done
