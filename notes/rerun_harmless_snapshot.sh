#!/bin/bash
# behaviour-preserving patches against the checks whose generators changed in round 7 (snapshot run: vp run --with-repo)
export CGV_REPO=$VP_RUN_REPO CGSMILES_REPO=$VP_RUN_REPO PBR_VERSION=0 CGV_SEEDED=$PWD/harmless
./setup.sh > setup.log 2>&1; tail -1 setup.log
for n in H-A1 H-A2 H-A3 H-A4 H-A5 H-A6 H-A7; do /venv/bin/python harness/seeded.py run $n quick C04 C13 2>&1 | grep -v conda | cut -c1-160; done
for n in H-B1 H-B2 H-B3 H-B4 H-B5 H-B6 H-B7; do /venv/bin/python harness/seeded.py run $n quick C15 C10 C06 2>&1 | grep -v conda | cut -c1-160; done
