#!/bin/bash
# MANIFEST.setup_cmd: build the framework from files on disk only (offline).
#   1. regenerate lean/CGV/Gen from /repo's current sources
#   2. build the Lean library (models, lemmas, property theorems, audits) and the model driver
set -e
cd "$(dirname "$0")"
export PBR_VERSION=0 PYTHONDONTWRITEBYTECODE=1
/venv/bin/python -W ignore harness/translate.py 2>&1 | grep -v 'conda.cli.condarc' || true
cd lean
lake build CGV driver 2>&1 | grep -v '^⚠\|^✔\|^ℹ' | tail -20
test -x .lake/build/bin/driver
echo "setup ok"
