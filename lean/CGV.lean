-- root of the CGV library: everything that is proved
import CGV.Py
import CGV.Gen.Tables
import CGV.Gen.Funcs
import CGV.Gen.Valence
import CGV.Model.Descr
import CGV.Model.Mol
import CGV.Model.Resolve
import CGV.Lemmas.Bridge
import CGV.Lemmas.Match
import CGV.Lemmas.Edges
import CGV.Lemmas.Restore
import CGV.Props.C03
