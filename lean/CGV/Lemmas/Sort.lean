/-
  CGV.Lemmas.Sort — L-sort: `sortNodes` relabels bijectively onto 0..n-1, monotonically in
  (membership list, old key) with Python's lexicographic list order.
-/
import CGV.Model.Resolve
namespace CGV
set_option linter.unusedSimpArgs false

theorem lexLt_irrefl : ∀ l, lexLt l l = false
  | [] => rfl
  | a :: as => by simp [lexLt, lexLt_irrefl as]

theorem lexLt_trans : ∀ {a b c : List Nat}, lexLt a b = true → lexLt b c = true → lexLt a c = true
  | [], [], _, h, _ => by simp [lexLt] at h
  | [], _ :: _, [], _, h => by simp [lexLt] at h
  | [], _ :: _, _ :: _, _, _ => rfl
  | _ :: _, [], _, h, _ => by simp [lexLt] at h
  | _ :: _, _ :: _, [], _, h => by simp [lexLt] at h
  | x :: xs, y :: ys, z :: zs, h1, h2 => by
    simp only [lexLt, Bool.or_eq_true, decide_eq_true_eq, Bool.and_eq_true, beq_iff_eq] at h1 h2 ⊢
    rcases h1 with h1 | ⟨e1, h1⟩ <;> rcases h2 with h2 | ⟨e2, h2⟩
    · exact Or.inl (Nat.lt_trans h1 h2)
    · exact Or.inl (e2 ▸ h1)
    · exact Or.inl (e1 ▸ h2)
    · exact Or.inr ⟨e1.trans e2, lexLt_trans h1 h2⟩

theorem lexLt_total : ∀ (a b : List Nat), lexLt a b = true ∨ a = b ∨ lexLt b a = true
  | [], [] => Or.inr (Or.inl rfl)
  | [], _ :: _ => Or.inl rfl
  | _ :: _, [] => Or.inr (Or.inr rfl)
  | x :: xs, y :: ys => by
    simp only [lexLt, Bool.or_eq_true, decide_eq_true_eq, Bool.and_eq_true, beq_iff_eq, List.cons.injEq]
    rcases Nat.lt_trichotomy x y with h | h | h
    · exact Or.inl (Or.inl h)
    · subst h
      rcases lexLt_total xs ys with h | h | h
      · exact Or.inl (Or.inr ⟨rfl, h⟩)
      · exact Or.inr (Or.inl ⟨rfl, h⟩)
      · exact Or.inr (Or.inr (Or.inr ⟨rfl, h⟩))
    · exact Or.inr (Or.inr (Or.inl h))

theorem lexLt_asymm {a b : List Nat} (h : lexLt a b = true) : lexLt b a = false := by
  cases h' : lexLt b a with
  | false => rfl
  | true => have := lexLt_trans h h'; rw [lexLt_irrefl] at this; cases this

/-- strict version of the sort key order -/
def sortKeyLt (x y : List Nat × Key) : Bool := lexLt x.1 y.1 || (x.1 == y.1 && x.2 < y.2)

theorem sortKeyLe_total (x y : List Nat × Key) : sortKeyLe x y = true ∨ sortKeyLe y x = true := by
  simp only [sortKeyLe, Bool.or_eq_true, Bool.and_eq_true, beq_iff_eq, decide_eq_true_eq]
  rcases lexLt_total x.1 y.1 with h | h | h
  · exact Or.inl (Or.inl h)
  · rcases Nat.le_total x.2 y.2 with h' | h'
    · exact Or.inl (Or.inr ⟨h, h'⟩)
    · exact Or.inr (Or.inr ⟨h.symm, h'⟩)
  · exact Or.inr (Or.inl h)

theorem sortKeyLe_trans {x y z : List Nat × Key} (h1 : sortKeyLe x y = true) (h2 : sortKeyLe y z = true) :
    sortKeyLe x z = true := by
  simp only [sortKeyLe, Bool.or_eq_true, Bool.and_eq_true, beq_iff_eq, decide_eq_true_eq] at h1 h2 ⊢
  rcases h1 with h1 | ⟨e1, h1⟩ <;> rcases h2 with h2 | ⟨e2, h2⟩
  · exact Or.inl (lexLt_trans h1 h2)
  · exact Or.inl (e2 ▸ h1)
  · exact Or.inl (e1 ▸ h2)
  · exact Or.inr ⟨e1.trans e2, Nat.le_trans h1 h2⟩

theorem not_le_of_lt {x y : List Nat × Key} (h : sortKeyLt x y = true) : sortKeyLe y x = false := by
  simp only [sortKeyLt, Bool.or_eq_true, Bool.and_eq_true, beq_iff_eq, decide_eq_true_eq] at h
  cases hle : sortKeyLe y x with
  | false => rfl
  | true =>
    simp only [sortKeyLe, Bool.or_eq_true, Bool.and_eq_true, beq_iff_eq, decide_eq_true_eq] at hle
    rcases h with h | ⟨e, h⟩ <;> rcases hle with h' | ⟨e', h'⟩
    · have := lexLt_asymm h; rw [h'] at this; cases this
    · rw [e', lexLt_irrefl] at h; cases h
    · rw [e, lexLt_irrefl] at h'; cases h'
    · exact absurd h (Nat.not_lt.mpr h')

theorem insertSorted_perm (x : List Nat × Key) : ∀ l, (insertSorted x l).Perm (x :: l)
  | [] => List.Perm.refl _
  | y :: ys => by
    unfold insertSorted
    by_cases h : sortKeyLe x y
    · simp [h]
    · simp only [h, Bool.false_eq_true, if_false]
      exact ((insertSorted_perm x ys).cons y).trans (List.Perm.swap x y ys)

theorem sortItems_perm : ∀ l, (sortItems l).Perm l
  | [] => List.Perm.refl _
  | x :: xs => by
    show (insertSorted x (sortItems xs)).Perm (x :: xs)
    exact (insertSorted_perm x _).trans ((sortItems_perm xs).cons x)

theorem insertSorted_sorted (x : List Nat × Key) :
    ∀ l, l.Pairwise (fun a b => sortKeyLe a b = true) → (insertSorted x l).Pairwise (fun a b => sortKeyLe a b = true)
  | [], _ => by simp [insertSorted]
  | y :: ys, h => by
    unfold insertSorted
    rw [List.pairwise_cons] at h
    by_cases hxy : sortKeyLe x y
    · simp only [hxy, if_true]
      refine List.pairwise_cons.mpr ⟨?_, List.pairwise_cons.mpr h⟩
      intro z hz
      rcases List.mem_cons.mp hz with rfl | hz
      · exact hxy
      · exact sortKeyLe_trans hxy (h.1 z hz)
    · simp only [hxy, Bool.false_eq_true, if_false]
      refine List.pairwise_cons.mpr ⟨?_, insertSorted_sorted x ys h.2⟩
      intro z hz
      have hz' := (insertSorted_perm x ys).mem_iff.mp hz
      rcases List.mem_cons.mp hz' with rfl | hz'
      · rcases sortKeyLe_total z y with h' | h'
        · exact absurd h' hxy
        · exact h'
      · exact h.1 z hz'

theorem sortItems_sorted : ∀ l, (sortItems l).Pairwise (fun a b => sortKeyLe a b = true)
  | [] => List.Pairwise.nil
  | x :: xs => insertSorted_sorted x _ (sortItems_sorted xs)

theorem map_idxOf_self : ∀ (l : List Key), l.Nodup → l.map l.idxOf = List.range l.length
  | [], _ => rfl
  | a :: l, h => by
    rw [List.nodup_cons] at h
    have ih := map_idxOf_self l h.2
    rw [List.map_cons, List.idxOf_cons_self, List.length_cons, List.range_succ_eq_map, ← ih, List.map_map]
    congr 1
    apply List.map_congr_left
    intro x hx
    have : (a == x) = false := by
      simp only [beq_eq_false_iff_ne, ne_eq]
      intro e; subst e; exact h.1 hx
    simp [List.idxOf_cons, this]

theorem sortOrder_perm (mol : Mol) : (sortOrder mol).Perm mol.keys := by
  unfold sortOrder Mol.keys
  have := (sortItems_perm (mol.atoms.map fun a => (a.fragid, a.key))).map (·.2)
  simpa [List.map_map, Function.comp_def] using this

/-- L-sort (1): with distinct keys, the new keys are exactly 0, …, n-1 -/
theorem sortNodes_keys (mol : Mol) (h : mol.keys.Nodup) :
    (sortNodes mol).1.keys.Perm (List.range mol.atoms.length) := by
  have hp := sortOrder_perm mol
  have hnd : (sortOrder mol).Nodup := hp.nodup_iff.mpr h
  have hlen : (sortOrder mol).length = mol.atoms.length := by rw [hp.length_eq]; simp [Mol.keys]
  have e : (sortNodes mol).1.keys = mol.keys.map (sortOrder mol).idxOf := by
    simp [sortNodes, Mol.keys, List.map_map, Function.comp_def]
  rw [e, ← hlen, ← map_idxOf_self _ hnd]
  exact hp.symm.map _

/-- L-sort (2): relabeling touches nothing but the key -/
theorem sortNodes_attrs (mol : Mol) :
    (sortNodes mol).1.atoms.map (fun a => { a with key := 0 }) = mol.atoms.map (fun a => { a with key := 0 }) := by
  simp [sortNodes, List.map_map, Function.comp_def]

theorem idxOf_lt_of_pairwise {l : List (List Nat × Key)} (hs : l.Pairwise (fun a b => sortKeyLe a b = true))
    (hnd : (l.map (·.2)).Nodup) {x y : List Nat × Key} (hx : x ∈ l) (hy : y ∈ l) (hlt : sortKeyLt x y = true) :
    (l.map (·.2)).idxOf x.2 < (l.map (·.2)).idxOf y.2 := by
  induction l with
  | nil => simp at hx
  | cons z zs ih =>
    rw [List.pairwise_cons] at hs
    simp only [List.map_cons, List.nodup_cons] at hnd
    rcases List.mem_cons.mp hx with hxz | hx' <;> rcases List.mem_cons.mp hy with hyz | hy'
    · have : sortKeyLt x y = false := by rw [hxz, hyz]; simp [sortKeyLt, lexLt_irrefl]
      rw [this] at hlt; cases hlt
    · have hne : (z.2 == y.2) = false := by
        simp only [beq_eq_false_iff_ne, ne_eq]
        intro e
        exact hnd.1 (e ▸ List.mem_map.mpr ⟨y, hy', rfl⟩)
      rw [hxz]
      simp [List.idxOf_cons, hne]
    · have := hs.1 x hx'
      rw [← hyz, not_le_of_lt hlt] at this; cases this
    · have hxz : (z.2 == x.2) = false := by
        simp only [beq_eq_false_iff_ne, ne_eq]
        intro e; exact hnd.1 (e ▸ List.mem_map.mpr ⟨x, hx', rfl⟩)
      have hyz : (z.2 == y.2) = false := by
        simp only [beq_eq_false_iff_ne, ne_eq]
        intro e; exact hnd.1 (e ▸ List.mem_map.mpr ⟨y, hy', rfl⟩)
      simp only [List.map_cons, List.idxOf_cons, hxz, hyz, cond_false]
      exact Nat.succ_lt_succ (ih hs.2 hnd.2 hx' hy')

/-- L-sort (3): the relabeling is strictly monotone in (membership list, old key): atoms of a
    lexicographically smaller membership list — and within equal membership the older key — get the
    smaller new key -/
theorem sortNodes_monotone (mol : Mol) (h : mol.keys.Nodup) (a b : Atom) (ha : a ∈ mol.atoms) (hb : b ∈ mol.atoms)
    (hlt : sortKeyLt (a.fragid, a.key) (b.fragid, b.key) = true) :
    (sortOrder mol).idxOf a.key < (sortOrder mol).idxOf b.key := by
  have hperm := sortItems_perm (mol.atoms.map fun a => (a.fragid, a.key))
  have hnd : ((sortItems (mol.atoms.map fun a => (a.fragid, a.key))).map (·.2)).Nodup :=
    (sortOrder_perm mol).nodup_iff.mpr h
  have hxa : (a.fragid, a.key) ∈ sortItems (mol.atoms.map fun a => (a.fragid, a.key)) :=
    hperm.mem_iff.mpr (List.mem_map.mpr ⟨a, ha, rfl⟩)
  have hxb : (b.fragid, b.key) ∈ sortItems (mol.atoms.map fun a => (a.fragid, a.key)) :=
    hperm.mem_iff.mpr (List.mem_map.mpr ⟨b, hb, rfl⟩)
  exact idxOf_lt_of_pairwise (sortItems_sorted _) hnd hxa hxb hlt

end CGV
