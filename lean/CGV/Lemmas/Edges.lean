/-
  CGV.Lemmas.Edges — the invariant of the bond loop (`edgesFrom`): conservation of descriptors.
-/
import CGV.Lemmas.Match
namespace CGV
set_option linter.unusedSectionVars false
set_option linter.unusedSimpArgs false

variable {cp : Desc → Desc → Bool}

/-- how often descriptor `d` on atom `a` of coarse node `k` was consumed as the source / target half -/
def usedSrc (cuts : List Cut) (k a : Key) (d : Desc) : Nat :=
  cuts.countP fun c => c.p = k ∧ c.a = a ∧ c.da = d
def usedTgt (cuts : List Cut) (k a : Key) (d : Desc) : Nat :=
  cuts.countP fun c => c.n = k ∧ c.b = a ∧ c.db = d

@[simp] theorem usedSrc_append (xs ys : List Cut) (k a : Key) (d : Desc) :
    usedSrc (xs ++ ys) k a d = usedSrc xs k a d + usedSrc ys k a d := by simp [usedSrc]
@[simp] theorem usedTgt_append (xs ys : List Cut) (k a : Key) (d : Desc) :
    usedTgt (xs ++ ys) k a d = usedTgt xs k a d + usedTgt ys k a d := by simp [usedTgt]

/-- what one pass through the loop body does -/
inductive UnitResult (cp : Desc → Desc → Bool) (p n : Key) (s : OpenSt) (cuts : List Cut) (r : OpenSt × List Cut) : Prop
  | none (h : matchBD cp (s.get p) (s.get n) = none) (e : r = (s, cuts))
  | some (c : Cut) (hp : c.p = p) (hn : c.n = n)
      (hm : matchBD cp (s.get p) (s.get n) = some ((c.a, c.b), (c.da, c.db)))
      (hcuts : r.2 = cuts ++ [c])
      (hwf : r.1.WF)
      (hkeys : r.1.keys = s.keys)
      (hcp : cp c.da c.db = true)
      (hsrc : 0 < cnt (s.get p) c.a c.da)
      (htgt : 0 < cnt (s.get n) c.b c.db)
      (hcnt : ∀ k a d, cnt (r.1.get k) a d =
        if (k = p ∧ a = c.a ∧ d = c.da) ∨ (k = n ∧ a = c.b ∧ d = c.db) then cnt (s.get k) a d - 1
        else cnt (s.get k) a d)

theorem stepUnit_result (s : OpenSt) (hw : s.WF) (cuts : List Cut) (p n : Key) (hpn : p ≠ n) :
    UnitResult cp p n s cuts (stepUnit cp p n (s, cuts)) := by
  cases hm : matchBD cp (s.get p) (s.get n) with
  | none => exact .none hm (by simp [stepUnit, hm])
  | some r =>
    obtain ⟨⟨a, b⟩, ⟨da, db⟩⟩ := r
    obtain ⟨⟨bs, hbs, hda⟩, ⟨bt, hbt, hdb⟩, hc⟩ := matchBD_some hm
    have hpne : s.get p ≠ [] := by intro e; rw [e] at hbs; simp at hbs
    have hnne : s.get n ≠ [] := by intro e; rw [e] at hbt; simp at hbt
    have hpk := s.key_of_get_ne_nil p hpne
    have hnk := s.key_of_get_ne_nil n hnne
    have hnp : n ≠ p := fun e => hpn e.symm
    -- the state after the two removals
    let s1 := s.set p (removeAt (s.get p) a da)
    have hs1n : s1.get n = s.get n := s.get_set_other p n _ hnp
    have hs1p : s1.get p = removeAt (s.get p) a da := s.get_set_same p _ hpk
    have hw1 : s1.WF := s.set_wf hw p _ (by rw [removeAt_keys]; exact s.get_nodup hw p)
    let s2 := s1.set n (removeAt (s1.get n) b db)
    have hnk1 : n ∈ s1.keys := by rw [OpenSt.set_keys]; exact hnk
    have hs2n : s2.get n = removeAt (s.get n) b db := by
      rw [show s2 = s1.set n (removeAt (s1.get n) b db) from rfl, s1.get_set_same n _ hnk1, hs1n]
    have hs2p : s2.get p = removeAt (s.get p) a da := by
      rw [show s2 = s1.set n (removeAt (s1.get n) b db) from rfl, s1.get_set_other n p _ hpn, hs1p]
    have hs2o : ∀ k, k ≠ p → k ≠ n → s2.get k = s.get k := by
      intro k h1 h2
      rw [show s2 = s1.set n (removeAt (s1.get n) b db) from rfl, s1.get_set_other n k _ h2]
      exact s.get_set_other p k _ h1
    have hw2 : s2.WF := s1.set_wf hw1 n _ (by rw [removeAt_keys]; exact s1.get_nodup hw1 n)
    have hres : stepUnit cp p n (s, cuts) = (s2, cuts ++ [⟨p, n, a, b, da, db⟩]) := by
      simp [stepUnit, hm, s2, s1]
    rw [hres]
    refine .some ⟨p, n, a, b, da, db⟩ rfl rfl hm rfl hw2 ?_ hc
      ((cnt_pos_iff _ _ _).mpr ⟨bs, hbs, hda⟩) ((cnt_pos_iff _ _ _).mpr ⟨bt, hbt, hdb⟩) ?_
    · show s2.keys = s.keys
      rw [show s2 = s1.set n (removeAt (s1.get n) b db) from rfl, OpenSt.set_keys, OpenSt.set_keys]
    · intro k a' d'
      show cnt (s2.get k) a' d' = _
      by_cases hkp : k = p
      · subst hkp
        rw [hs2p, cnt_removeAt _ (s.get_nodup hw k) a da a' d' ⟨bs, hbs, hda⟩]
        have : ¬ (k = n) := hpn
        simp [this]
      · by_cases hkn : k = n
        · subst hkn
          rw [hs2n, cnt_removeAt _ (s.get_nodup hw k) b db a' d' ⟨bt, hbt, hdb⟩]
          simp [hkp]
        · rw [hs2o k hkp hkn]
          simp [hkp, hkn]

/-- the loop invariant, relative to the initial state `s0` -/
structure Inv (cp : Desc → Desc → Bool) (s0 : OpenSt) (acc : OpenSt × List Cut) : Prop where
  wf : acc.1.WF
  keys : acc.1.keys = s0.keys
  /-- conservation: initial = remaining + consumed (as source half) + consumed (as target half) -/
  cons : ∀ k a d, cnt (s0.get k) a d = cnt (acc.1.get k) a d + usedSrc acc.2 k a d + usedTgt acc.2 k a d
  compat : ∀ c ∈ acc.2, cp c.da c.db = true
  noself : ∀ c ∈ acc.2, c.p ≠ c.n

theorem Inv.init (s0 : OpenSt) (hw : s0.WF) : Inv cp s0 (s0, []) :=
  ⟨hw, rfl, by intro k a d; simp [usedSrc, usedTgt], by simp, by simp⟩

theorem Inv.stepUnit {s0 : OpenSt} {acc : OpenSt × List Cut} (h : Inv cp s0 acc) (p n : Key) (hpn : p ≠ n) :
    Inv cp s0 (stepUnit cp p n acc) := by
  obtain ⟨s, cuts⟩ := acc
  rcases stepUnit_result (cp := cp) s h.wf cuts p n hpn with ⟨_, e⟩ | ⟨c, hp, hn, _, hcuts, hwf, hkeys, hcp, hsrc, htgt, hcnt⟩
  · rw [e]; exact h
  · refine ⟨hwf, hkeys.trans h.keys, ?_, ?_, ?_⟩
    · intro k a d
      rw [hcuts, usedSrc_append, usedTgt_append, hcnt k a d, h.cons k a d]
      have hs1 : usedSrc [c] k a d = if (k = p ∧ a = c.a ∧ d = c.da) then 1 else 0 := by
        simp only [usedSrc, List.countP_cons, List.countP_nil, hp]
        by_cases hx : p = k ∧ c.a = a ∧ c.da = d
        · obtain ⟨rfl, rfl, rfl⟩ := hx; simp
        · have : ¬ (k = p ∧ a = c.a ∧ d = c.da) := fun ⟨x, y, z⟩ => hx ⟨x.symm, y.symm, z.symm⟩
          simp [hx, this]
      have hs2 : usedTgt [c] k a d = if (k = n ∧ a = c.b ∧ d = c.db) then 1 else 0 := by
        simp only [usedTgt, List.countP_cons, List.countP_nil, hn]
        by_cases hx : n = k ∧ c.b = a ∧ c.db = d
        · obtain ⟨rfl, rfl, rfl⟩ := hx; simp
        · have : ¬ (k = n ∧ a = c.b ∧ d = c.db) := fun ⟨x, y, z⟩ => hx ⟨x.symm, y.symm, z.symm⟩
          simp [hx, this]
      rw [hs1, hs2]
      by_cases h1 : k = p ∧ a = c.a ∧ d = c.da
      · have h2 : ¬ (k = n ∧ a = c.b ∧ d = c.db) := fun ⟨x, _, _⟩ => hpn (h1.1.symm.trans x)
        obtain ⟨rfl, rfl, rfl⟩ := h1
        simp only [true_and, and_self, true_or, if_true, h2, if_false]
        omega
      · by_cases h2 : k = n ∧ a = c.b ∧ d = c.db
        · obtain ⟨rfl, rfl, rfl⟩ := h2
          simp only [h1, if_false, and_self, or_true, if_true]
          omega
        · simp only [h1, h2, or_self, if_false]
          omega
    · intro c' hc'
      rw [hcuts] at hc'
      rcases List.mem_append.mp hc' with h' | h'
      · exact h.compat c' h'
      · simp only [List.mem_singleton] at h'; subst h'; exact hcp
    · intro c' hc'
      rw [hcuts] at hc'
      rcases List.mem_append.mp hc' with h' | h'
      · exact h.noself c' h'
      · simp only [List.mem_singleton] at h'; subst h'; rw [hp, hn]; exact hpn

theorem Inv.iterUnit {s0 : OpenSt} (p n : Key) (hpn : p ≠ n) :
    ∀ (k : Nat) (acc : OpenSt × List Cut), Inv cp s0 acc → Inv cp s0 (iterUnit cp p n k acc)
  | 0, _, h => h
  | k+1, acc, h => Inv.iterUnit p n hpn k _ (h.stepUnit p n hpn)

/-- base graphs without self loops -/
def NoSelfLoops (edges : List MEdge) : Prop := ∀ e ∈ edges, e.1 ≠ e.2.1

theorem Inv.foldl {s0 : OpenSt} :
    ∀ (edges : List MEdge) (acc : OpenSt × List Cut), NoSelfLoops edges → Inv cp s0 acc →
      Inv cp s0 (edges.foldl (stepEdge cp) acc)
  | [], _, _, h => h
  | e :: es, acc, hn, h => by
    simp only [List.foldl_cons]
    refine Inv.foldl es _ (fun e' he' => hn e' (List.mem_cons_of_mem _ he')) ?_
    exact Inv.iterUnit e.1 e.2.1 (hn e List.mem_cons_self) e.2.2 acc h

theorem edgesFrom_inv (edges : List MEdge) (s0 : OpenSt) (hw : s0.WF) (hn : NoSelfLoops edges) :
    Inv cp s0 (edgesFrom cp edges s0) :=
  Inv.foldl edges _ hn (Inv.init s0 hw)

/-! ### how many bonds, and for which base-graph edges -/

/-- cuts only grow, each pass adds at most one cut, tagged with the edge it was made for -/
theorem stepUnit_cuts (p n : Key) (acc : OpenSt × List Cut) :
    (stepUnit cp p n acc).2 = acc.2 ∨ ∃ c, c.p = p ∧ c.n = n ∧ (stepUnit cp p n acc).2 = acc.2 ++ [c] := by
  unfold stepUnit
  cases matchBD cp (acc.1.get p) (acc.1.get n) with
  | none => exact Or.inl rfl
  | some r => obtain ⟨⟨a, b⟩, ⟨da, db⟩⟩ := r; exact Or.inr ⟨_, rfl, rfl, rfl⟩

theorem iterUnit_cuts (p n : Key) :
    ∀ (k : Nat) (acc : OpenSt × List Cut), ∃ new, (iterUnit cp p n k acc).2 = acc.2 ++ new ∧ new.length ≤ k ∧
      ∀ c ∈ new, c.p = p ∧ c.n = n
  | 0, acc => ⟨[], by simp [iterUnit], by simp, by simp⟩
  | k+1, acc => by
    obtain ⟨new, h1, h2, h3⟩ := iterUnit_cuts p n k (stepUnit cp p n acc)
    rcases stepUnit_cuts (cp := cp) p n acc with h | ⟨c, hp, hn, h⟩
    · exact ⟨new, by simp [iterUnit, h1, h], by omega, h3⟩
    · refine ⟨c :: new, by simp [iterUnit, h1, h], by simp; omega, ?_⟩
      intro c' hc'
      rcases List.mem_cons.mp hc' with rfl | hc'
      · exact ⟨hp, hn⟩
      · exact h3 c' hc'

/-- total order of the listed edges for the ordered pair `(p, n)` -/
def orderSum (edges : List MEdge) (p n : Key) : Nat :=
  ((edges.filter fun e => e.1 = p ∧ e.2.1 = n).map fun e => e.2.2).sum

def cutsFor (cuts : List Cut) (p n : Key) : Nat := cuts.countP fun c => c.p = p ∧ c.n = n

theorem foldl_cuts :
    ∀ (edges : List MEdge) (acc : OpenSt × List Cut),
      ∃ new, (edges.foldl (stepEdge cp) acc).2 = acc.2 ++ new ∧
        (∀ p n, cutsFor new p n ≤ orderSum edges p n) ∧
        (∀ c ∈ new, ∃ o, (c.p, c.n, o) ∈ edges ∧ 0 < o)
  | [], acc => ⟨[], by simp, by simp [cutsFor], by simp⟩
  | e :: es, acc => by
    obtain ⟨new1, h1, h2, h3⟩ := iterUnit_cuts (cp := cp) e.1 e.2.1 e.2.2 acc
    obtain ⟨new2, g1, g2, g3⟩ := foldl_cuts es (stepEdge cp acc e)
    refine ⟨new1 ++ new2, ?_, ?_, ?_⟩
    · have g1' := g1
      simp only [stepEdge] at g1'
      simp only [List.foldl_cons, stepEdge, g1', h1, List.append_assoc]
    · intro p n
      have hc : cutsFor (new1 ++ new2) p n = cutsFor new1 p n + cutsFor new2 p n := by simp [cutsFor]
      have ho : orderSum (e :: es) p n = (if e.1 = p ∧ e.2.1 = n then e.2.2 else 0) + orderSum es p n := by
        simp only [orderSum, List.filter_cons]
        by_cases hx : e.1 = p ∧ e.2.1 = n <;> simp [hx]
      have hn1 : cutsFor new1 p n ≤ if e.1 = p ∧ e.2.1 = n then e.2.2 else 0 := by
        by_cases hx : e.1 = p ∧ e.2.1 = n
        · simp only [hx, and_self, if_true]
          exact Nat.le_trans (List.countP_le_length) h2
        · simp only [hx, if_false, Nat.le_zero_eq, cutsFor, List.countP_eq_zero]
          intro c hc hcc
          simp only [decide_eq_true_eq] at hcc
          obtain ⟨q1, q2⟩ := h3 c hc
          exact hx ⟨q1.symm.trans hcc.1, q2.symm.trans hcc.2⟩
      rw [hc, ho]
      exact Nat.add_le_add hn1 (g2 p n)
    · intro c hc
      rcases List.mem_append.mp hc with h | h
      · obtain ⟨q1, q2⟩ := h3 c h
        have hpos : 0 < e.2.2 := by
          rcases Nat.eq_zero_or_pos e.2.2 with hz | hz
          · rw [hz] at h2
            have : new1 = [] := List.length_eq_zero_iff.mp (Nat.le_zero.mp h2)
            rw [this] at h; simp at h
          · exact hz
        exact ⟨e.2.2, by rw [q1, q2]; exact List.mem_cons_self, hpos⟩
      · obtain ⟨o, ho, hp⟩ := g3 c h
        exact ⟨o, List.mem_cons_of_mem _ ho, hp⟩

end CGV
