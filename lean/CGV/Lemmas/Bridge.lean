/-
  CGV.Lemmas.Bridge — the translated leaf functions (regenerated from /repo on every run) equal
  the readable definitions the models and theorems use.  When the Python source changes its
  behaviour these proofs stop checking.
-/
import CGV.Gen.Funcs
import CGV.Model.Descr
namespace CGV

theorem charClass (c : Char) : c = '$' ∨ c = '!' ∨ c = '<' ∨ c = '>' ∨ c = ' ' ∨
    (c ≠ '$' ∧ c ≠ '!' ∧ c ≠ '<' ∧ c ≠ '>' ∧ c ≠ ' ') := by
  by_cases h1 : c = '$'; · exact Or.inl h1
  by_cases h2 : c = '!'; · exact Or.inr (Or.inl h2)
  by_cases h3 : c = '<'; · exact Or.inr (Or.inr (Or.inl h3))
  by_cases h4 : c = '>'; · exact Or.inr (Or.inr (Or.inr (Or.inl h4)))
  by_cases h5 : c = ' '; · exact Or.inr (Or.inr (Or.inr (Or.inr (Or.inl h5))))
  exact Or.inr (Or.inr (Or.inr (Or.inr (Or.inr ⟨h1, h2, h3, h4, h5⟩))))

set_option linter.unusedSimpArgs false in
/-- `resolve.compatible` as translated from the current source is `compat` on non-empty descriptors -/
theorem gen_compatible_eq (lc rc : Char) (lt rt : Str) (legacy : Bool) :
    Gen.compatible (lc :: lt) (rc :: rt) legacy = .ok (compat legacy (lc :: lt) (rc :: rt)) := by
  by_cases hc : lc = rc
  · subst hc
    by_cases ht : lt = rt <;>
    rcases charClass lc with rfl|rfl|rfl|rfl|rfl|⟨l1,l2,l3,l4,l5⟩ <;>
    cases legacy <;>
    simp_all [Gen.compatible, compat, pyHead, pyStrIn, bind, Except.bind, pure, Except.pure, List.isPrefixOf]
  · have hc' : ¬ rc = lc := fun h => hc h.symm
    by_cases ht : lt = rt <;>
    rcases charClass lc with rfl|rfl|rfl|rfl|rfl|⟨l1,l2,l3,l4,l5⟩ <;>
    rcases charClass rc with rfl|rfl|rfl|rfl|rfl|⟨r1,r2,r3,r4,r5⟩ <;>
    cases legacy <;>
    simp_all [Gen.compatible, compat, pyHead, pyStrIn, bind, Except.bind, pure, Except.pure, List.isPrefixOf]

/-- on an empty descriptor Python raises IndexError (`left[0]`), except for two equal empty strings
    in the legacy branch... which also reach `left[0]` -/
theorem gen_compatible_empty_left (r : Str) (legacy : Bool) :
    Gen.compatible [] r legacy = .error .index := by
  cases legacy <;> cases r <;>
    simp [Gen.compatible, pyHead, bind, Except.bind, pure, Except.pure]

end CGV
