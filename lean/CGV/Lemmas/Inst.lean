/-
  CGV.Lemmas.Inst — instantiating a fragment template (`instantiate` = merge_graphs + the loop body
  of resolve_disconnected_molecule) produces a faithful copy.
-/
import CGV.Model.Resolve
namespace CGV
set_option linter.unusedSimpArgs false
open Mol

theorem addEdge_atoms (m : Mol) (e : Edge) : (m.addEdge e).atoms = m.atoms := by
  unfold Mol.addEdge; split <;> rfl

theorem foldl_addEdge_atoms (es : List Edge) (m : Mol) : (es.foldl Mol.addEdge m).atoms = m.atoms := by
  induction es generalizing m with
  | nil => rfl
  | cons e es ih => simp [List.foldl_cons, ih, addEdge_atoms]

theorem joins_symm (e : Edge) (u v : Key) : Edge.joins e u v = Edge.joins e v u := by
  simp [Edge.joins, Bool.or_comm]

theorem addEdge_hasEdge_self (m : Mol) (e : Edge) : (m.addEdge e).hasEdge e.a e.b = true := by
  unfold Mol.addEdge
  by_cases h : m.hasEdge e.a e.b
  · simp only [h, if_true]
    unfold Mol.hasEdge at h ⊢
    rw [List.any_eq_true] at h ⊢
    obtain ⟨x, hx, hj⟩ := h
    refine ⟨{ x with order2 := e.order2, bonding := e.bonding.or x.bonding }, ?_, ?_⟩
    · exact List.mem_map.mpr ⟨x, hx, by simp [hj]⟩
    · simpa [Edge.joins] using hj
  · simp only [h, Bool.false_eq_true, if_false]
    unfold Mol.hasEdge
    rw [List.any_eq_true]
    exact ⟨e, by simp, by simp [Edge.joins]⟩

theorem addEdge_hasEdge_mono (m : Mol) (e : Edge) (u v : Key) (h : m.hasEdge u v = true) :
    (m.addEdge e).hasEdge u v = true := by
  unfold Mol.addEdge
  by_cases h' : m.hasEdge e.a e.b
  · simp only [h', if_true]
    unfold Mol.hasEdge at h ⊢
    rw [List.any_eq_true] at h ⊢
    obtain ⟨x, hx, hj⟩ := h
    by_cases hxe : Edge.joins x e.a e.b
    · exact ⟨{ x with order2 := e.order2, bonding := e.bonding.or x.bonding },
        List.mem_map.mpr ⟨x, hx, by simp [hxe]⟩, by simpa [Edge.joins] using hj⟩
    · exact ⟨x, List.mem_map.mpr ⟨x, hx, by simp [hxe]⟩, hj⟩
  · simp only [h', Bool.false_eq_true, if_false]
    unfold Mol.hasEdge at h ⊢
    rw [List.any_eq_true] at h ⊢
    obtain ⟨x, hx, hj⟩ := h
    exact ⟨x, by simp [hx], hj⟩

theorem foldl_addEdge_hasEdge_mono (es : List Edge) (m : Mol) (u v : Key) (h : m.hasEdge u v = true) :
    (es.foldl Mol.addEdge m).hasEdge u v = true := by
  induction es generalizing m with
  | nil => exact h
  | cons e es ih => exact ih _ (addEdge_hasEdge_mono m e u v h)

theorem foldl_addEdge_hasEdge (es : List Edge) (m : Mol) (e : Edge) (he : e ∈ es) :
    (es.foldl Mol.addEdge m).hasEdge e.a e.b = true := by
  induction es generalizing m with
  | nil => simp at he
  | cons x xs ih =>
    rcases List.mem_cons.mp he with rfl | he'
    · exact foldl_addEdge_hasEdge_mono xs _ _ _ (addEdge_hasEdge_self m e)
    · exact ih _ he'

/-- the key the copy of template atom number `i` receives -/
theorem lookup_corr (l : List Atom) (start off : Nat) (hnd : (l.map (·.key)).Nodup) (a : Atom) (i : Nat)
    (h : (a, i) ∈ l.zipIdx off) :
    ((l.zipIdx off).map fun (p : Atom × Nat) => (p.1.key, start + p.2)).lookup a.key = some (start + i) := by
  induction l generalizing off with
  | nil => simp at h
  | cons x xs ih =>
    simp only [List.zipIdx_cons, List.mem_cons, Prod.mk.injEq] at h
    simp only [List.map_cons, List.nodup_cons] at hnd
    rcases h with ⟨rfl, rfl⟩ | h
    · simp [List.zipIdx_cons, List.lookup]
    · have hmem : a ∈ xs := List.fst_mem_of_mem_zipIdx h
      have hne : (a.key == x.key) = false := by
        simp only [beq_eq_false_iff_ne, ne_eq]
        intro e; exact hnd.1 (e ▸ List.mem_map.mpr ⟨a, hmem, rfl⟩)
      simp only [List.zipIdx_cons, List.map_cons, List.lookup, hne]
      exact ih (off + 1) hnd.2 h

end CGV
