/-
  CGV.Lemmas.Restore — L-restore: when the open descriptors are exactly the halves of a set of
  uniquely labelled cuts and every base-graph edge's order is the number of cuts it stands for, the
  bond loop re-creates exactly those cuts (any edge order, any descriptor order on the atoms).
-/
import CGV.Lemmas.Edges
namespace CGV
set_option linter.unusedSectionVars false
set_option linter.unusedSimpArgs false

variable {cp : Desc → Desc → Bool}

/-- the edge list never names one pair of coarse nodes in both orientations -/
def NoReverse (edges : List MEdge) : Prop :=
  ∀ e ∈ edges, ∀ e' ∈ edges, ¬ (e.1 = e'.2.1 ∧ e.2.1 = e'.1)

/-- "the open descriptors are exactly the halves of the not-yet-created cuts `rem`" -/
structure Rem (cp : Desc → Desc → Bool) (edges : List MEdge) (s : OpenSt) (rem : List Cut) : Prop where
  wf : s.WF
  nodup : rem.Nodup
  open_eq : ∀ k a d, cnt (s.get k) a d = usedSrc rem k a d + usedTgt rem k a d
  compat : ∀ c ∈ rem, cp c.da c.db = true
  /-- labels are unique: halves of two different cuts are never compatible -/
  unique : ∀ c1 ∈ rem, ∀ c2 ∈ rem, ∀ d1 d2, (d1 = c1.da ∨ d1 = c1.db) → (d2 = c2.da ∨ d2 = c2.db) →
    cp d1 d2 = true → c1 = c2
  covered : ∀ c ∈ rem, ∃ o, (c.p, c.n, o) ∈ edges

theorem countP_erase_of_mem (l : List Cut) (c : Cut) (hc : c ∈ l) (q : Cut → Bool) :
    (l.erase c).countP q = l.countP q - (if q c then 1 else 0) := by
  have hp := (List.perm_cons_erase hc).countP_eq q
  rw [List.countP_cons] at hp
  omega

theorem used_pos_src {rem : List Cut} {k a : Key} {d : Desc} (h : 0 < usedSrc rem k a d) :
    ∃ c ∈ rem, c.p = k ∧ c.a = a ∧ c.da = d := by
  obtain ⟨c, hc, hp⟩ := List.countP_pos_iff.mp h
  exact ⟨c, hc, by simpa using hp⟩

theorem used_pos_tgt {rem : List Cut} {k a : Key} {d : Desc} (h : 0 < usedTgt rem k a d) :
    ∃ c ∈ rem, c.n = k ∧ c.b = a ∧ c.db = d := by
  obtain ⟨c, hc, hp⟩ := List.countP_pos_iff.mp h
  exact ⟨c, hc, by simpa using hp⟩

/-- one pass of the loop body finds a not-yet-created cut of this edge and creates exactly it -/
theorem Rem.unit {edges : List MEdge} (hns : NoSelfLoops edges) (hnr : NoReverse edges)
    {s : OpenSt} {rem : List Cut} (hR : Rem cp edges s rem) (cuts : List Cut)
    (p n : Key) (o : Nat) (he : (p, n, o) ∈ edges) (hex : ∃ c0 ∈ rem, c0.p = p ∧ c0.n = n) :
    ∃ c ∈ rem, c.p = p ∧ c.n = n ∧ (stepUnit cp p n (s, cuts)).2 = cuts ++ [c] ∧
      Rem cp edges (stepUnit cp p n (s, cuts)).1 (rem.erase c) := by
  have hpn : p ≠ n := hns _ he
  obtain ⟨c0, hc0, hc0p, hc0n⟩ := hex
  have hS0 : 0 < cnt (s.get p) c0.a c0.da := by
    rw [hR.open_eq]
    have : 0 < usedSrc rem p c0.a c0.da := List.countP_pos_iff.mpr ⟨c0, hc0, by simp [hc0p]⟩
    omega
  have hT0 : 0 < cnt (s.get n) c0.b c0.db := by
    rw [hR.open_eq]
    have : 0 < usedTgt rem n c0.b c0.db := List.countP_pos_iff.mpr ⟨c0, hc0, by simp [hc0n]⟩
    omega
  rcases stepUnit_result (cp := cp) s hR.wf cuts p n hpn with ⟨hm, _⟩ | ⟨c, hp, hn, hm, hcuts, hwf, _, hcp, hsrc, htgt, hcnt⟩
  · obtain ⟨bs0, hbs0, hda0⟩ := (cnt_pos_iff _ _ _).mp hS0
    obtain ⟨bt0, hbt0, hdb0⟩ := (cnt_pos_iff _ _ _).mp hT0
    have := matchBD_none hm _ _ _ _ _ _ hbs0 hbt0 hda0 hdb0
    rw [hR.compat c0 hc0] at this; cases this
  · -- the matched halves belong to remaining cuts c1 (at p) and c2 (at n)
    rw [hR.open_eq] at hsrc htgt
    have h1 : ∃ c1 ∈ rem, (c1.p = p ∧ c1.a = c.a ∧ c1.da = c.da) ∨ (c1.n = p ∧ c1.b = c.a ∧ c1.db = c.da) := by
      rcases Nat.eq_zero_or_pos (usedSrc rem p c.a c.da) with hz | hz
      · obtain ⟨c1, hc1, h⟩ := used_pos_tgt (rem := rem) (k := p) (a := c.a) (d := c.da) (by omega)
        exact ⟨c1, hc1, Or.inr h⟩
      · obtain ⟨c1, hc1, h⟩ := used_pos_src hz
        exact ⟨c1, hc1, Or.inl h⟩
    have h2 : ∃ c2 ∈ rem, (c2.p = n ∧ c2.a = c.b ∧ c2.da = c.db) ∨ (c2.n = n ∧ c2.b = c.b ∧ c2.db = c.db) := by
      rcases Nat.eq_zero_or_pos (usedSrc rem n c.b c.db) with hz | hz
      · obtain ⟨c2, hc2, h⟩ := used_pos_tgt (rem := rem) (k := n) (a := c.b) (d := c.db) (by omega)
        exact ⟨c2, hc2, Or.inr h⟩
      · obtain ⟨c2, hc2, h⟩ := used_pos_src hz
        exact ⟨c2, hc2, Or.inl h⟩
    obtain ⟨c1, hc1, hh1⟩ := h1
    obtain ⟨c2, hc2, hh2⟩ := h2
    have e12 : c1 = c2 := by
      refine hR.unique c1 hc1 c2 hc2 c.da c.db ?_ ?_ hcp
      · rcases hh1 with ⟨_, _, h⟩ | ⟨_, _, h⟩
        · exact Or.inl h.symm
        · exact Or.inr h.symm
      · rcases hh2 with ⟨_, _, h⟩ | ⟨_, _, h⟩
        · exact Or.inl h.symm
        · exact Or.inr h.symm
    subst e12
    -- orientation: c1 is the cut p → n
    have hc1eq : c1 = c := by
      rcases hh1 with ⟨q1, q2, q3⟩ | ⟨q1, q2, q3⟩ <;> rcases hh2 with ⟨r1, r2, r3⟩ | ⟨r1, r2, r3⟩
      · exact absurd (q1.symm.trans r1) hpn
      · cases c1; cases c; simp_all
      · -- reversed cut: its edge (n, p, _) would be listed besides (p, n, _)
        obtain ⟨o', ho'⟩ := hR.covered c1 hc1
        rw [r1, q1] at ho'
        exact absurd ⟨rfl, rfl⟩ (hnr _ he _ ho')
      · exact absurd (q1.symm.trans r1) hpn
    subst hc1eq
    refine ⟨c1, hc1, hp, hn, hcuts, ?_⟩
    refine ⟨hwf, hR.nodup.erase _, ?_, ?_, ?_, ?_⟩
    · intro k a d
      rw [hcnt k a d, hR.open_eq k a d]
      have es : usedSrc (rem.erase c1) k a d = usedSrc rem k a d - (if c1.p = k ∧ c1.a = a ∧ c1.da = d then 1 else 0) := by
        rw [usedSrc, countP_erase_of_mem _ _ hc1]; simp [usedSrc]
      have et : usedTgt (rem.erase c1) k a d = usedTgt rem k a d - (if c1.n = k ∧ c1.b = a ∧ c1.db = d then 1 else 0) := by
        rw [usedTgt, countP_erase_of_mem _ _ hc1]; simp [usedTgt]
      rw [es, et]
      have iA : (c1.p = k ∧ c1.a = a ∧ c1.da = d) ↔ (k = p ∧ a = c1.a ∧ d = c1.da) := by
        rw [hp]; constructor <;> (rintro ⟨x, y, z⟩; exact ⟨x.symm, y.symm, z.symm⟩)
      have iB : (c1.n = k ∧ c1.b = a ∧ c1.db = d) ↔ (k = n ∧ a = c1.b ∧ d = c1.db) := by
        rw [hn]; constructor <;> (rintro ⟨x, y, z⟩; exact ⟨x.symm, y.symm, z.symm⟩)
      have lA : (if c1.p = k ∧ c1.a = a ∧ c1.da = d then 1 else 0) ≤ usedSrc rem k a d := by
        by_cases g : c1.p = k ∧ c1.a = a ∧ c1.da = d
        · have : 0 < usedSrc rem k a d := List.countP_pos_iff.mpr ⟨c1, hc1, by simpa using g⟩
          simp only [g, and_self, if_true]; omega
        · simp [g]
      have lB : (if c1.n = k ∧ c1.b = a ∧ c1.db = d then 1 else 0) ≤ usedTgt rem k a d := by
        by_cases g : c1.n = k ∧ c1.b = a ∧ c1.db = d
        · have : 0 < usedTgt rem k a d := List.countP_pos_iff.mpr ⟨c1, hc1, by simpa using g⟩
          simp only [g, and_self, if_true]; omega
        · simp [g]
      simp only [iA, iB] at lA lB ⊢
      by_cases g1 : k = p ∧ a = c1.a ∧ d = c1.da
      · have g2 : ¬ (k = n ∧ a = c1.b ∧ d = c1.db) := fun ⟨x, _, _⟩ => hpn (g1.1.symm.trans x)
        rw [if_pos (Or.inl g1), if_pos g1, if_neg g2]
        rw [if_pos g1] at lA
        omega
      · by_cases g2 : k = n ∧ a = c1.b ∧ d = c1.db
        · rw [if_pos (Or.inr g2), if_neg g1, if_pos g2]
          rw [if_pos g2] at lB
          omega
        · rw [if_neg (not_or.mpr ⟨g1, g2⟩), if_neg g1, if_neg g2]
          omega
    · intro c hc; exact hR.compat c (List.mem_of_mem_erase hc)
    · intro c hc c' hc'; exact hR.unique c (List.mem_of_mem_erase hc) c' (List.mem_of_mem_erase hc')
    · intro c hc; exact hR.covered c (List.mem_of_mem_erase hc)

def forEdge (p n : Key) (c : Cut) : Bool := c.p = p ∧ c.n = n

/-- L-restore for one base-graph edge: as many passes as the edge has cuts create exactly them -/
theorem Rem.edge {edges : List MEdge} (hns : NoSelfLoops edges) (hnr : NoReverse edges)
    (p n : Key) (o : Nat) (he : (p, n, o) ∈ edges) :
    ∀ (m : Nat) (s : OpenSt) (rem cuts : List Cut), cutsFor rem p n = m → Rem cp edges s rem →
    ∃ made, (iterUnit cp p n m (s, cuts)).2 = cuts ++ made ∧ made.Perm (rem.filter (forEdge p n)) ∧
      Rem cp edges (iterUnit cp p n m (s, cuts)).1 (rem.filter fun c => !forEdge p n c) := by
  intro m
  induction m with
  | zero =>
    intro s rem cuts hm hR
    have hnone : ∀ c ∈ rem, forEdge p n c = false := by
      intro c hc
      have := List.countP_eq_zero.mp hm c hc
      simpa [forEdge] using this
    have e1 : rem.filter (forEdge p n) = [] := List.filter_eq_nil_iff.mpr (by intro c hc; simp [hnone c hc])
    have e2 : (rem.filter fun c => !forEdge p n c) = rem := List.filter_eq_self.mpr (by intro c hc; simp [hnone c hc])
    exact ⟨[], by simp [iterUnit], by rw [e1], by rw [e2]; exact hR⟩
  | succ m ih =>
    intro s rem cuts hm hR
    have hex : ∃ c0 ∈ rem, c0.p = p ∧ c0.n = n := by
      have : 0 < cutsFor rem p n := by omega
      obtain ⟨c0, h0, h1⟩ := List.countP_pos_iff.mp this
      exact ⟨c0, h0, by simpa using h1⟩
    obtain ⟨c, hc, hcp, hcn, hcuts, hR'⟩ := Rem.unit hns hnr hR cuts p n o he hex
    have hfc : forEdge p n c = true := by simp [forEdge, hcp, hcn]
    have hm' : cutsFor (rem.erase c) p n = m := by
      rw [cutsFor, countP_erase_of_mem _ _ hc]
      have hq : decide (c.p = p ∧ c.n = n) = true := by simp [hcp, hcn]
      rw [if_pos hq]
      unfold cutsFor at hm
      omega
    -- continue from the state after this pass
    have hstate : stepUnit cp p n (s, cuts) = ((stepUnit cp p n (s, cuts)).1, cuts ++ [c]) := by
      rw [← hcuts]
    obtain ⟨made, h1, h2, h3⟩ := ih (stepUnit cp p n (s, cuts)).1 (rem.erase c) (cuts ++ [c]) hm' hR'
    refine ⟨c :: made, ?_, ?_, ?_⟩
    · show (iterUnit cp p n m (stepUnit cp p n (s, cuts))).2 = _
      rw [hstate, h1]; simp
    · have : (rem.erase c).filter (forEdge p n) = (rem.filter (forEdge p n)).erase c := List.erase_filter.symm
      rw [this] at h2
      have hmem : c ∈ rem.filter (forEdge p n) := List.mem_filter.mpr ⟨hc, hfc⟩
      exact (List.Perm.cons c h2).trans (List.perm_cons_erase hmem).symm
    · show Rem cp edges (iterUnit cp p n m (stepUnit cp p n (s, cuts))).1 _
      rw [hstate]
      have : ((rem.erase c).filter fun c => !forEdge p n c) = rem.filter fun c => !forEdge p n c := by
        rw [← List.erase_filter]
        apply List.erase_of_not_mem
        intro hmem
        have := (List.mem_filter.mp hmem).2
        simp [hfc] at this
      rw [this] at h3
      exact h3

/-- the hypotheses of L-restore on a whole description -/
structure CutSpec (cp : Desc → Desc → Bool) (edges : List MEdge) (s0 : OpenSt) (spec : List Cut) : Prop where
  noself : NoSelfLoops edges
  norev : NoReverse edges
  pairs : (edges.map fun e => (e.1, e.2.1)).Nodup
  /-- every base-graph edge's order is the number of cuts between its two fragments -/
  orders : ∀ e ∈ edges, e.2.2 = cutsFor spec e.1 e.2.1
  rem : Rem cp edges s0 spec

/-- L-restore: the bond loop creates a permutation of exactly the specified cuts and uses up every
    descriptor — whatever the order of the base-graph edges, of the atoms and of the descriptors. -/
theorem restore_aux :
    ∀ (todo : List MEdge) (edges : List MEdge) (s : OpenSt) (rem cuts : List Cut),
      NoSelfLoops edges → NoReverse edges → (todo.map fun e => (e.1, e.2.1)).Nodup →
      (∀ e ∈ todo, e ∈ edges) → (∀ e ∈ todo, e.2.2 = cutsFor rem e.1 e.2.1) →
      (∀ c ∈ rem, ∃ o, (c.p, c.n, o) ∈ todo) → Rem cp edges s rem →
      ∃ made, (todo.foldl (stepEdge cp) (s, cuts)).2 = cuts ++ made ∧ made.Perm rem ∧
        ∀ k a d, cnt ((todo.foldl (stepEdge cp) (s, cuts)).1.get k) a d = 0
  | [], edges, s, rem, cuts, _, _, _, _, _, hcov, hR => by
    have : rem = [] := by
      cases rem with
      | nil => rfl
      | cons c cs => obtain ⟨o, ho⟩ := hcov c List.mem_cons_self; simp at ho
    subst this
    exact ⟨[], by simp, List.Perm.refl _, by intro k a d; simp [hR.open_eq, usedSrc, usedTgt]⟩
  | e :: es, edges, s, rem, cuts, hns, hnr, hpairs, hsub, hord, hcov, hR => by
    obtain ⟨p, n, o⟩ := e
    have he : (p, n, o) ∈ edges := hsub _ List.mem_cons_self
    have ho : cutsFor rem p n = o := (hord _ List.mem_cons_self).symm
    obtain ⟨made1, h1, h2, h3⟩ := Rem.edge (cp := cp) hns hnr p n o he o s rem cuts ho hR
    simp only [List.map_cons, List.nodup_cons] at hpairs
    have hne : ∀ e' ∈ es, ¬ (e'.1 = p ∧ e'.2.1 = n) := by
      intro e' he' ⟨x, y⟩
      exact hpairs.1 (List.mem_map.mpr ⟨e', he', by simp [x, y]⟩)
    let rem' := rem.filter fun c => !forEdge p n c
    have hord' : ∀ e' ∈ es, e'.2.2 = cutsFor rem' e'.1 e'.2.1 := by
      intro e' he'
      rw [hord e' (List.mem_cons_of_mem _ he')]
      simp only [cutsFor, rem', List.countP_filter]
      apply List.countP_congr
      intro c _
      have := hne e' he'
      simp only [forEdge, Bool.and_eq_true, decide_eq_true_eq, Bool.not_eq_true', decide_eq_false_iff_not]
      constructor
      · intro ⟨x, y⟩; exact ⟨⟨x, y⟩, fun ⟨u, v⟩ => this ⟨x.symm.trans u, y.symm.trans v⟩⟩
      · intro ⟨h, _⟩; exact h
    have hcov' : ∀ c ∈ rem', ∃ o', (c.p, c.n, o') ∈ es := by
      intro c hc
      obtain ⟨hc1, hc2⟩ := List.mem_filter.mp hc
      obtain ⟨o', ho'⟩ := hcov c hc1
      rcases List.mem_cons.mp ho' with h | h
      · simp only [Prod.mk.injEq] at h
        simp [forEdge, h.1, h.2.1] at hc2
      · exact ⟨o', h⟩
    have hstate : iterUnit cp p n o (s, cuts) = ((iterUnit cp p n o (s, cuts)).1, cuts ++ made1) := by
      rw [← h1]
    obtain ⟨made2, g1, g2, g3⟩ := restore_aux es edges (iterUnit cp p n o (s, cuts)).1 rem' (cuts ++ made1)
      hns hnr hpairs.2 (fun e' he' => hsub e' (List.mem_cons_of_mem _ he')) hord' hcov' h3
    refine ⟨made1 ++ made2, ?_, ?_, ?_⟩
    · simp only [List.foldl_cons, stepEdge]
      rw [hstate, g1]; simp
    · have hsplit : rem.Perm (rem.filter (forEdge p n) ++ rem') := (List.filter_append_perm _ _).symm
      exact (List.Perm.append h2 g2).trans hsplit.symm
    · intro k a d
      simp only [List.foldl_cons, stepEdge]
      rw [hstate]
      exact g3 k a d

end CGV
