/-
  CGV.Lemmas.Valence — arithmetic of hydrogen completion (`missingH`, `rebuildH`).
-/
import CGV.Model.Resolve
namespace CGV
set_option linter.unusedSimpArgs false

/-- `missingH` picks the first listed valence that accommodates the bonds present -/
theorem missingH_of_find {vals : List Nat} {b2 v : Nat} (h : vals.find? (fun v => decide (2 * v ≥ b2)) = some v) :
    missingH vals b2 = (2 * v - b2) / 2 ∧ v ∈ vals ∧ b2 ≤ 2 * v := by
  have hm := List.mem_of_find?_eq_some h
  have hp := List.find?_some h
  simp only [decide_eq_true_eq] at hp
  exact ⟨by simp [missingH, h], hm, hp⟩

/-- completing with hydrogens reaches that valence exactly when the bond-order sum is integral -/
theorem missingH_complete {vals : List Nat} {b2 v : Nat} (h : vals.find? (fun v => decide (2 * v ≥ b2)) = some v)
    (heven : b2 % 2 = 0) : b2 + 2 * missingH vals b2 = 2 * v := by
  obtain ⟨e, _, hle⟩ := missingH_of_find h
  rw [e]; omega

/-- with a half-integral bond sum (aromatic atom whose ring bonds were not resolved) the count is
    truncated toward zero, as `int(v - bonds)` does -/
theorem missingH_trunc {vals : List Nat} {b2 v : Nat} (h : vals.find? (fun v => decide (2 * v ≥ b2)) = some v)
    (hodd : b2 % 2 = 1) : b2 + 2 * missingH vals b2 + 1 = 2 * v := by
  obtain ⟨e, _, hle⟩ := missingH_of_find h
  rw [e]; omega

/-- nothing is added when the bonds exceed every listed valence -/
theorem missingH_none {vals : List Nat} {b2 : Nat} (h : ∀ v ∈ vals, 2 * v < b2) : missingH vals b2 = 0 := by
  have : vals.find? (fun v => decide (2 * v ≥ b2)) = none := by
    rw [List.find?_eq_none]
    intro v hv
    have := h v hv
    simp; omega
  simp [missingH, this]

/-- in an ascending valence list the first accommodating valence is the smallest one -/
theorem find_is_min {vals : List Nat} (hs : vals.Pairwise (· < ·)) {b2 v : Nat}
    (h : vals.find? (fun v => decide (2 * v ≥ b2)) = some v) : ∀ w ∈ vals, b2 ≤ 2 * w → v ≤ w := by
  induction vals with
  | nil => simp at h
  | cons x xs ih =>
    rw [List.pairwise_cons] at hs
    intro w hw hb
    rw [List.find?_cons] at h
    by_cases hx : 2 * x ≥ b2
    · simp only [hx, decide_true] at h
      cases h
      rcases List.mem_cons.mp hw with rfl | hw'
      · exact Nat.le_refl _
      · exact Nat.le_of_lt (hs.1 w hw')
    · simp only [hx, decide_false] at h
      rcases List.mem_cons.mp hw with rfl | hw'
      · exact absurd hb hx
      · exact ih hs.2 h w hw' hb

/-- every valence list pysmiles reports (for the elements × charges in the generated table) is
    strictly ascending — so "first" above is "smallest" -/
theorem valenceTable_ascending :
    ∀ e ∈ Gen.valenceTable, ∀ vs, e.2 = some vs → vs.Pairwise (· < ·) := by
  decide +kernel

end CGV

namespace CGV
set_option linter.unusedSimpArgs false
open Mol

theorem foldl_max_ge (l : List Atom) (init : Nat) : init ≤ l.foldl (fun acc a => max acc (a.key + 1)) init := by
  induction l generalizing init with
  | nil => exact Nat.le_refl _
  | cons x xs ih => exact Nat.le_trans (Nat.le_max_left _ _) (ih _)

theorem key_lt_foldl_max (l : List Atom) (init : Nat) (a : Atom) (h : a ∈ l) :
    a.key < l.foldl (fun acc a => max acc (a.key + 1)) init := by
  induction l generalizing init with
  | nil => simp at h
  | cons x xs ih =>
    rcases List.mem_cons.mp h with rfl | h'
    · exact Nat.lt_of_lt_of_le (Nat.lt_of_lt_of_le (Nat.lt_succ_self _) (Nat.le_max_right _ _)) (foldl_max_ge xs _)
    · exact ih _ h'

/-- every existing key is below `nextKey` (so freshly numbered hydrogens never collide) -/
theorem key_lt_nextKey (m : Mol) (a : Atom) (h : a ∈ m.atoms) : a.key < m.nextKey :=
  key_lt_foldl_max m.atoms 0 a h

theorem bonds2_append (m : Mol) (es : List Edge) (k : Key) :
    bonds2 { m with edges := m.edges ++ es } k =
      bonds2 m k + ((es.filter fun e => e.a == k || e.b == k).map (·.order2)).sum := by
  simp [bonds2, List.filter_append, List.map_append, List.sum_append]

theorem sum_map_two (c : Nat) : ((List.range c).map fun _ => 2).sum = 2 * c := by
  induction c with
  | zero => rfl
  | succ n ih => simp [List.range_succ, List.map_append, List.sum_append, ih]; omega

/-- one `hStep`: an old atom gains `2 * c` half units when it is the parent, nothing otherwise -/
theorem hStep_bonds2 (m : Mol) (k : Key) (c : Nat) (k' : Key) (hk' : k' < m.nextKey) :
    bonds2 (hStep m (k, c)) k' = bonds2 m k' + (if k = k' then 2 * c else 0) := by
  have hb : bonds2 (hStep m (k, c)) k' = bonds2 m k' +
      ((((List.range c).map fun i => (⟨k, m.nextKey + i, 2, none⟩ : Edge)).filter
        fun e => e.a == k' || e.b == k').map (·.order2)).sum := by
    simp [bonds2, hStep, List.filter_append, List.map_append, List.sum_append]
  rw [hb]
  by_cases h : k = k'
  · subst h
    have : (((List.range c).map fun i => (⟨k, m.nextKey + i, 2, none⟩ : Edge)).filter
        fun e => e.a == k || e.b == k) = (List.range c).map fun i => (⟨k, m.nextKey + i, 2, none⟩ : Edge) := by
      apply List.filter_eq_self.mpr
      intro e he
      obtain ⟨i, _, rfl⟩ := List.mem_map.mp he
      simp
    rw [this, if_pos rfl, List.map_map]
    have e2 : ((fun x : Edge => x.order2) ∘ fun i => (⟨k, m.nextKey + i, 2, none⟩ : Edge)) = fun _ => 2 := rfl
    rw [e2, sum_map_two]
  · have : (((List.range c).map fun i => (⟨k, m.nextKey + i, 2, none⟩ : Edge)).filter
        fun e => e.a == k' || e.b == k') = [] := by
      apply List.filter_eq_nil_iff.mpr
      intro e he
      obtain ⟨i, _, rfl⟩ := List.mem_map.mp he
      simp only [Bool.or_eq_true, beq_iff_eq, not_or]
      refine ⟨h, ?_⟩
      intro hh
      have hh' : m.nextKey + i = (k' : Nat) := hh
      have hk2 : (k' : Nat) < m.nextKey := hk'
      rw [← hh'] at hk2
      exact absurd hk2 (Nat.not_lt.mpr (Nat.le_add_right _ _))
    rw [this, if_neg h]
    rfl

theorem hStep_nextKey_le (m : Mol) (kc : Key × Nat) : m.nextKey ≤ (hStep m kc).nextKey := by
  unfold hStep nextKey
  simp only [List.foldl_append]
  exact foldl_max_ge _ _

/-- all hydrogens added: an atom that was there before gains `2 * (its count)` half units of bond
    order (counts listed per key, keys distinct), nothing else changes at it -/
theorem foldl_hStep_bonds2 (counts : List (Key × Nat)) (m : Mol) (k' : Key) (hk' : k' < m.nextKey) :
    bonds2 (counts.foldl hStep m) k' = bonds2 m k' + 2 * ((counts.filter (·.1 == k')).map (·.2)).sum := by
  induction counts generalizing m with
  | nil => simp
  | cons kc rest ih =>
    obtain ⟨k, c⟩ := kc
    simp only [List.foldl_cons]
    rw [ih (hStep m (k, c)) (Nat.lt_of_lt_of_le hk' (hStep_nextKey_le m (k, c))), hStep_bonds2 m k c k' hk']
    by_cases h : k = k'
    · subst h; simp [List.filter_cons, Nat.mul_add]; omega
    · have : (k == k') = false := by simpa using h
      simp [List.filter_cons, h, this]

end CGV
