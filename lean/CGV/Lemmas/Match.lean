/-
  CGV.Lemmas.Match — helper lemmas about the first-match search and the descriptor bookkeeping
  (`matchBD`, `removeAt`, `OpenSt.get/set`, counting).  Core Lean only.
-/
import CGV.Model.Descr
namespace CGV
set_option linter.unusedSectionVars false
set_option linter.unusedSimpArgs false

variable {cp : Desc → Desc → Bool}

theorem findInLists_some {bs bt : List Desc} {s t : Desc} (h : findInLists cp bs bt = some (s, t)) :
    s ∈ bs ∧ t ∈ bt ∧ cp s t = true := by
  unfold findInLists at h
  rw [List.findSome?_eq_some_iff] at h
  obtain ⟨l1, a, l2, hbs, ha, _⟩ := h
  simp only [Option.map_eq_some_iff] at ha
  obtain ⟨t', ht', heq⟩ := ha
  have := List.find?_some ht'
  have hm := List.mem_of_find?_eq_some ht'
  cases heq
  exact ⟨by simp [hbs], hm, this⟩

/-- soundness of the search: what it returns is there and is compatible -/
theorem matchBD_some {src tgt : Open} {a b : Key} {da db : Desc}
    (h : matchBD cp src tgt = some ((a, b), (da, db))) :
    (∃ bs, (a, bs) ∈ src ∧ da ∈ bs) ∧ (∃ bt, (b, bt) ∈ tgt ∧ db ∈ bt) ∧ cp da db = true := by
  unfold matchBD at h
  rw [List.findSome?_eq_some_iff] at h
  obtain ⟨l1, ⟨sn, bs⟩, l2, hsrc, h2, _⟩ := h
  rw [List.findSome?_eq_some_iff] at h2
  obtain ⟨m1, ⟨tn, bt⟩, m2, htgt, h3, _⟩ := h2
  simp only [Option.map_eq_some_iff] at h3
  obtain ⟨⟨s, t⟩, hf, heq⟩ := h3
  obtain ⟨hs, ht, hc⟩ := findInLists_some hf
  simp only [Prod.mk.injEq] at heq
  obtain ⟨⟨rfl, rfl⟩, rfl, rfl⟩ := heq
  exact ⟨⟨bs, by simp [hsrc], hs⟩, ⟨bt, by simp [htgt], ht⟩, hc⟩

/-- completeness of the search: LookupError means no compatible pair exists at all -/
theorem matchBD_none {src tgt : Open} (h : matchBD cp src tgt = none) :
    ∀ a bs b bt da db, (a, bs) ∈ src → (b, bt) ∈ tgt → da ∈ bs → db ∈ bt → cp da db = false := by
  intro a bs b bt da db hs ht hda hdb
  unfold matchBD at h
  rw [List.findSome?_eq_none_iff] at h
  have h1 := h (a, bs) hs
  rw [List.findSome?_eq_none_iff] at h1
  have h2 := h1 (b, bt) ht
  simp only [Option.map_eq_none_iff] at h2
  unfold findInLists at h2
  rw [List.findSome?_eq_none_iff] at h2
  have h3 := h2 da hda
  simp only [Option.map_eq_none_iff, List.find?_eq_none] at h3
  have := h3 db hdb
  simpa using this

/-- number of open occurrences of descriptor `d` on atom `a` -/
def cnt (f : Open) (a : Key) (d : Desc) : Nat :=
  (f.map fun (k, ds) => if k = a then ds.count d else 0).sum

@[simp] theorem cnt_nil (a : Key) (d : Desc) : cnt ([] : Open) a d = 0 := rfl
@[simp] theorem cnt_cons (k : Key) (ds : List Desc) (xs : Open) (a : Key) (d : Desc) :
    cnt ((k, ds) :: xs) a d = (if k = a then ds.count d else 0) + cnt xs a d := by
  simp [cnt]
@[simp] theorem removeAt_nil (n : Key) (d : Desc) : removeAt ([] : Open) n d = [] := rfl
@[simp] theorem removeAt_cons (k : Key) (ds : List Desc) (xs : Open) (n : Key) (d : Desc) :
    removeAt ((k, ds) :: xs) n d = (if k = n then (k, ds.erase d) else (k, ds)) :: removeAt xs n d := by
  simp [removeAt]

theorem cnt_pos_iff (f : Open) (a : Key) (d : Desc) :
    0 < cnt f a d ↔ ∃ ds, (a, ds) ∈ f ∧ d ∈ ds := by
  induction f with
  | nil => simp
  | cons x xs ih =>
    obtain ⟨k, ds⟩ := x
    simp only [cnt_cons, List.mem_cons, Prod.mk.injEq]
    constructor
    · intro h
      by_cases hk : k = a
      · by_cases hd : d ∈ ds
        · exact ⟨ds, Or.inl ⟨hk.symm, rfl⟩, hd⟩
        · simp only [hk, if_true, List.count_eq_zero_of_not_mem hd, Nat.zero_add] at h
          obtain ⟨ds', h1, h2⟩ := ih.mp h
          exact ⟨ds', Or.inr h1, h2⟩
      · simp only [hk, if_false, Nat.zero_add] at h
        obtain ⟨ds', h1, h2⟩ := ih.mp h
        exact ⟨ds', Or.inr h1, h2⟩
    · rintro ⟨ds', h1 | h1, h2⟩
      · obtain ⟨rfl, rfl⟩ := h1
        simp only [if_true]
        have := List.count_pos_iff.mpr h2
        omega
      · have := ih.mpr ⟨ds', h1, h2⟩
        omega

theorem cnt_zero_of_not_key (f : Open) (a : Key) (d : Desc) (h : ∀ ds, (a, ds) ∉ f) : cnt f a d = 0 := by
  rcases Nat.eq_zero_or_pos (cnt f a d) with h0 | h0
  · exact h0
  · obtain ⟨ds, h1, _⟩ := (cnt_pos_iff f a d).mp h0
    exact absurd h1 (h ds)

theorem removeAt_of_not_key (f : Open) (a : Key) (d : Desc) (h : ∀ ds, (a, ds) ∉ f) : removeAt f a d = f := by
  induction f with
  | nil => rfl
  | cons x xs ih =>
    obtain ⟨k, ds⟩ := x
    have hk : k ≠ a := fun e => h ds (by simp [e])
    have : ∀ ds, (a, ds) ∉ xs := fun ds' hm => h ds' (by simp [hm])
    simp [hk, ih this]

theorem removeAt_keys (f : Open) (n : Key) (d : Desc) : (removeAt f n d).map Prod.fst = f.map Prod.fst := by
  induction f with
  | nil => rfl
  | cons x xs ih =>
    obtain ⟨k, ds⟩ := x
    rw [removeAt_cons]
    by_cases h : k = n <;> simp [h, ih]

/-- removing one occurrence of `d` at atom `a` (atom keys distinct) decrements exactly that count -/
theorem cnt_removeAt (f : Open) (hnd : (f.map Prod.fst).Nodup) (a : Key) (d : Desc) (a' : Key) (d' : Desc)
    (hpos : ∃ ds, (a, ds) ∈ f ∧ d ∈ ds) :
    cnt (removeAt f a d) a' d' = if a' = a ∧ d' = d then cnt f a' d' - 1 else cnt f a' d' := by
  induction f with
  | nil => obtain ⟨_, h, _⟩ := hpos; simp at h
  | cons x xs ih =>
    obtain ⟨k, ds⟩ := x
    simp only [List.map_cons, List.nodup_cons, List.mem_map, Prod.exists, exists_and_right, exists_eq_right, not_exists] at hnd
    obtain ⟨hk, hnd'⟩ := hnd
    by_cases hka : k = a
    · subst hka
      have hd : d ∈ ds := by
        obtain ⟨ds', h1, h2⟩ := hpos
        simp only [List.mem_cons, Prod.mk.injEq] at h1
        rcases h1 with ⟨_, rfl⟩ | h1
        · exact h2
        · exact absurd h1 (hk ds')
      rw [removeAt_cons, if_pos rfl, removeAt_of_not_key xs k d hk, cnt_cons, cnt_cons]
      by_cases ha' : a' = k
      · subst ha'
        rw [cnt_zero_of_not_key xs a' d' hk]
        by_cases hdd : d' = d
        · subst hdd; simp [List.count_erase_self]
        · simp [hdd, List.count_erase_of_ne hdd]
      · have : ¬ (k = a') := fun h => ha' h.symm
        simp [ha', this]
    · have hpos' : ∃ ds, (a, ds) ∈ xs ∧ d ∈ ds := by
        obtain ⟨ds', h1, h2⟩ := hpos
        simp only [List.mem_cons, Prod.mk.injEq] at h1
        rcases h1 with ⟨h, _⟩ | h1
        · exact absurd h.symm hka
        · exact ⟨ds', h1, h2⟩
      rw [removeAt_cons, if_neg hka, cnt_cons, cnt_cons, ih hnd' hpos']
      by_cases hc : a' = a ∧ d' = d
      · obtain ⟨rfl, rfl⟩ := hc
        simp [hka]
      · simp [hc]

/-! ### the per-coarse-node state -/

def OpenSt.keys (s : OpenSt) : List Key := s.map Prod.fst

/-- coarse keys distinct, and atom keys distinct inside every instance -/
structure OpenSt.WF (s : OpenSt) : Prop where
  keys : s.keys.Nodup
  atoms : ∀ k f, (k, f) ∈ s → (f.map Prod.fst).Nodup

theorem OpenSt.set_keys (s : OpenSt) (k : Key) (f : Open) : (s.set k f).keys = s.keys := by
  unfold OpenSt.set OpenSt.keys
  induction s with
  | nil => rfl
  | cons x xs ih =>
    obtain ⟨k', f'⟩ := x
    by_cases h : k' = k <;> simp [h, ih]

theorem OpenSt.get_of_mem (s : OpenSt) (h : s.keys.Nodup) (k : Key) (f : Open) (hm : (k, f) ∈ s) : s.get k = f := by
  unfold OpenSt.get
  induction s with
  | nil => simp at hm
  | cons x xs ih =>
    obtain ⟨k', f'⟩ := x
    simp only [OpenSt.keys, List.map_cons, List.nodup_cons, List.mem_map, Prod.exists, exists_and_right,
      exists_eq_right, not_exists] at h
    simp only [List.mem_cons, Prod.mk.injEq] at hm
    rcases hm with ⟨rfl, rfl⟩ | hm
    · simp [List.lookup]
    · have hne : k ≠ k' := fun e => h.1 f (e ▸ hm)
      have : (k == k') = false := by simpa using hne
      simp only [List.lookup, this]
      exact ih h.2 hm

theorem OpenSt.mem_of_get_ne_nil (s : OpenSt) (k : Key) (h : s.get k ≠ []) : (k, s.get k) ∈ s := by
  unfold OpenSt.get at *
  induction s with
  | nil => simp at h
  | cons x xs ih =>
    obtain ⟨k', f'⟩ := x
    by_cases hk : k = k'
    · subst hk; simp [List.lookup]
    · have : (k == k') = false := by simpa using hk
      simp only [List.lookup, this] at h ⊢
      exact List.mem_cons_of_mem _ (ih h)

theorem OpenSt.get_set_same (s : OpenSt) (k : Key) (f : Open) (hk : k ∈ s.keys) : (s.set k f).get k = f := by
  unfold OpenSt.get OpenSt.set
  induction s with
  | nil => simp [OpenSt.keys] at hk
  | cons x xs ih =>
    obtain ⟨k', f'⟩ := x
    by_cases h : k' = k
    · subst h; simp [List.lookup]
    · have h' : (k == k') = false := by simpa using fun e : k = k' => h e.symm
      simp only [OpenSt.keys, List.map_cons, List.mem_cons] at hk
      rcases hk with rfl | hk
      · exact absurd rfl h
      · simp only [List.map_cons, h, if_false, List.lookup, h']
        exact ih hk

theorem OpenSt.get_set_other (s : OpenSt) (k k' : Key) (f : Open) (hne : k' ≠ k) : (s.set k f).get k' = s.get k' := by
  unfold OpenSt.get OpenSt.set
  induction s with
  | nil => rfl
  | cons x xs ih =>
    obtain ⟨k0, f0⟩ := x
    by_cases h : k0 = k
    · subst h
      have : (k' == k0) = false := by simpa using hne
      simp only [List.map_cons, if_true, List.lookup, this]
      exact ih
    · simp only [List.map_cons, h, if_false, List.lookup]
      by_cases h2 : k' = k0
      · subst h2; simp
      · have : (k' == k0) = false := by simpa using h2
        simp only [this]
        exact ih

theorem OpenSt.set_wf (s : OpenSt) (hw : s.WF) (k : Key) (f : Open) (hf : (f.map Prod.fst).Nodup) : (s.set k f).WF := by
  refine ⟨by rw [OpenSt.set_keys]; exact hw.keys, ?_⟩
  intro k' f' hm
  unfold OpenSt.set at hm
  simp only [List.mem_map, Prod.exists] at hm
  obtain ⟨k0, f0, hm0, heq⟩ := hm
  by_cases h : k0 = k
  · simp only [h, if_true, Prod.mk.injEq] at heq
    obtain ⟨_, rfl⟩ := heq
    exact hf
  · simp only [h, if_false, Prod.mk.injEq] at heq
    obtain ⟨rfl, rfl⟩ := heq
    exact hw.atoms _ _ hm0

theorem OpenSt.get_nodup (s : OpenSt) (hw : s.WF) (k : Key) : ((s.get k).map Prod.fst).Nodup := by
  by_cases h : s.get k = []
  · simp [h]
  · exact hw.atoms _ _ (s.mem_of_get_ne_nil k h)

theorem OpenSt.key_of_get_ne_nil (s : OpenSt) (k : Key) (h : s.get k ≠ []) : k ∈ s.keys := by
  have := s.mem_of_get_ne_nil k h
  exact List.mem_map.mpr ⟨_, this, rfl⟩

end CGV
