/-
  CGV.Lemmas.Bonding — descriptors as text: the translated `format_bonding` equals the readable
  rendering, and the fragment reader's state machine takes every rendered descriptor back.
-/
import CGV.Gen.Funcs
import CGV.Model.Strip
namespace CGV
set_option linter.unusedSimpArgs false
open Gen

/-- symbol written before a descriptor of (whole) order `o`: none for a single bond -/
def orderSym (o : Nat) : Str :=
  if o == 1 then [] else match orderToSymbol2.lookup (2 * o) with
    | some c => [c]
    | none => []

def digitChar (o : Nat) : Char := Char.ofNat (48 + o)

/-- a descriptor as the fragment reader stores it: kind, label, order 0..4 -/
structure WFDesc where
  kind : Char
  label : Str
  o : Nat
  ho : o ≤ 4
  hkind : descriptorKinds.contains kind = true
  hlabel : ']' ∉ label

def WFDesc.kl (d : WFDesc) : Str := d.kind :: d.label
/-- the stored text, e.g. `$A2` -/
def WFDesc.text (d : WFDesc) : Str := d.kl ++ [digitChar d.o]
/-- the written text, e.g. `=[$A]` -/
def WFDesc.fmt (d : WFDesc) : Str := orderSym d.o ++ ['['] ++ d.kl ++ [']']

theorem forIn_yield {α : Type} (F : α → Str → Py (ForInStep Str)) (g : α → Str) :
    ∀ (l : List α) (acc : Str), (∀ d ∈ l, ∀ s, F d s = .ok (ForInStep.yield (s ++ g d))) →
      forIn l acc F = .ok (acc ++ l.flatMap g)
  | [], acc, _ => by simp [pure, Except.pure]
  | d :: ds, acc, h => by
    rw [List.forIn_cons, h d List.mem_cons_self acc]
    simp only [bind, Except.bind]
    rw [forIn_yield F g ds _ (fun d' hd' s => h d' (List.mem_cons_of_mem _ hd') s)]
    simp [List.flatMap_cons]

theorem digit_roundtrip (o : Nat) (ho : o ≤ 4) : (Char.ofNat (48 + o)).toNat - 48 = o := by
  have : o = 0 ∨ o = 1 ∨ o = 2 ∨ o = 3 ∨ o = 4 := by omega
  rcases this with rfl | rfl | rfl | rfl | rfl <;> decide

/-- the function translated from write_cgsmiles.py `format_bonding` writes every descriptor as
    `[symbol][kind label]`, in order -/
theorem formatBonding_wf (ds : List WFDesc) :
    Gen.formatBonding (ds.map (·.text)) = .ok (ds.flatMap (·.fmt)) := by
  unfold Gen.formatBonding
  simp only [bind, Except.bind]
  rw [forIn_yield _ (fun t : Str => orderSym ((t.getLast?.getD '0').toNat - 48) ++ ['['] ++ t.dropLast ++ [']'])]
  · have hd : ∀ a : WFDesc, (Char.ofNat (48 + a.o)).toNat - 48 = a.o := fun a => digit_roundtrip a.o a.ho
    simp [List.flatMap_map, WFDesc.text, WFDesc.fmt, digitChar, pure, Except.pure, hd]
  · intro t ht s
    obtain ⟨d, _, rfl⟩ := List.mem_map.mp ht
    have hl : pyLast (d.kl ++ [digitChar d.o]) = .ok [digitChar d.o] := by simp [pyLast]
    have hi : pyInit (d.kl ++ [digitChar d.o]) = d.kl := by simp [pyInit]
    simp only [WFDesc.text, hl, hi]
    have e0 : pyIntLit [Char.ofNat 48] = .ok 0 := by decide +kernel
    have e1 : pyIntLit [Char.ofNat 49] = .ok 1 := by decide +kernel
    have e2 : pyIntLit [Char.ofNat 50] = .ok 2 := by decide +kernel
    have e3 : pyIntLit [Char.ofNat 51] = .ok 3 := by decide +kernel
    have e4 : pyIntLit [Char.ofNat 52] = .ok 4 := by decide +kernel
    have g0 : pyGet orderToSymbolS (2 * 0) = .ok ['.'] := by decide +kernel
    have g1 : pyGet orderToSymbolS (2 * 1) = .ok ['-'] := by decide +kernel
    have g2 : pyGet orderToSymbolS (2 * 2) = .ok ['='] := by decide +kernel
    have g3 : pyGet orderToSymbolS (2 * 3) = .ok ['#'] := by decide +kernel
    have g4 : pyGet orderToSymbolS (2 * 4) = .ok ['$'] := by decide +kernel
    have f0 : orderSym 0 = ['.'] := by decide +kernel
    have f1 : orderSym 1 = [] := by decide +kernel
    have f2 : orderSym 2 = ['='] := by decide +kernel
    have f3 : orderSym 3 = ['#'] := by decide +kernel
    have f4 : orderSym 4 = ['$'] := by decide +kernel
    have ho := d.ho
    have : d.o = 0 ∨ d.o = 1 ∨ d.o = 2 ∨ d.o = 3 ∨ d.o = 4 := by omega
    rcases this with h | h | h | h | h <;>
      simp [h, digitChar, e0, e1, e2, e3, e4, g0, g1, g2, g3, g4, f0, f1, f2, f3, f4, pure, Except.pure]

/-! ### reading descriptors back -/

theorem takeBracket_label (label rest : Str) (h : ']' ∉ label) : takeBracket (label ++ ']' :: rest) = some (label, rest) := by
  induction label with
  | nil => simp [takeBracket]
  | cons c cs ih =>
    simp only [List.mem_cons, not_or] at h
    have hc : (c == ']') = false := by simpa using fun e => h.1 e.symm
    simp [takeBracket, hc, ih h.2]

theorem orderText_digit (o : Nat) (ho : o ≤ 4) : orderText (2 * o) = [digitChar o] := by
  have : o = 0 ∨ o = 1 ∨ o = 2 ∨ o = 3 ∨ o = 4 := by omega
  rcases this with rfl | rfl | rfl | rfl | rfl <;> decide +kernel

/-- the state after descriptor `d` has been read for the atom `st.prevNode` -/
def afterDesc (st : StripState) (d : WFDesc) : StripState :=
  { st with bonding := appendDesc st.bonding st.prevNode d.text }

/-- reading one written descriptor that follows an atom: one loop iteration when the bond is single,
    two (symbol, then descriptor — which takes the symbol out of the clean text again) otherwise -/
theorem stripAux_desc (d : WFDesc) (rest : Str) (st : StripState) (fuel : Nat)
    (hn : st.nodeCount ≠ 0) (hc : st.currentOrder = none) :
    stripAux (fuel + 2) (d.fmt ++ rest) st = stripAux (fuel + (if d.o = 1 then 1 else 0)) rest (afterDesc st d) := by
  have hk : descriptorKinds.contains d.kind = true := d.hkind
  have hnc : (st.nodeCount == 0) = false := by simpa using hn
  have htb := takeBracket_label d.label rest d.hlabel
  have hot := orderText_digit d.o d.ho
  have ho := d.ho
  have cases5 : d.o = 0 ∨ d.o = 1 ∨ d.o = 2 ∨ d.o = 3 ∨ d.o = 4 := by omega
  -- the descriptor bracket itself, read in a state with pending order `co`
  have bracket : ∀ (co : Option Nat) (st' : StripState), st'.nodeCount = st.nodeCount → st'.currentOrder = co →
      stripStep '[' (d.kl ++ ']' :: rest) st' = .ok (rest,
        match co with
        | some o => { st' with bonding := appendDesc st'.bonding st'.prevNode (d.kl ++ orderText o),
                               currentOrder := none, smile := st'.smile.dropLast }
        | none => { st' with bonding := appendDesc st'.bonding st'.prevNode (d.kl ++ orderText 2) }) := by
    intro co st' h1 h2
    have hnc' : (st'.nodeCount == 0) = false := by rw [h1]; exact hnc
    simp only [stripStep, WFDesc.kl, List.cons_append, beq_self_eq_true, if_true, hk, htb, hnc', h2]
    cases rest <;> cases co <;> simp [pure, Except.pure]
  -- a descriptor written with a bond symbol `c` (order o ≠ 1)
  have symcase : ∀ (c : Char) (o : Nat), orderSym o = [c] → bondToOrder2.lookup c = some (2 * o) →
      (c == '[') = false → (c == '(') = false → (c == ')') = false → d.o = o → o ≠ 1 →
      stripAux (fuel + 2) (d.fmt ++ rest) st = stripAux (fuel + (if d.o = 1 then 1 else 0)) rest (afterDesc st d) := by
    intro c o hsym hlook n1 n2 n3 hdo hne
    have hne' : ¬ d.o = 1 := by rw [hdo]; exact hne
    simp only [WFDesc.fmt, hdo, hsym, List.cons_append, List.nil_append, List.append_assoc, hne', if_false, Nat.add_zero]
    rw [show fuel + 2 = (fuel + 1) + 1 from rfl, stripAux]
    have step1 : stripStep c ('[' :: (d.kl ++ ']' :: rest)) st =
        .ok ('[' :: (d.kl ++ ']' :: rest), { st with currentOrder := some (2 * o), smile := st.smile ++ [c] }) := by
      simp [stripStep, n1, n2, n3, hlook, pure, Except.pure]
    simp only [List.singleton_append, List.cons_append] at step1 ⊢
    rw [step1]
    simp only [bind, Except.bind]
    rw [stripAux, bracket (some (2 * o)) { st with currentOrder := some (2 * o), smile := st.smile ++ [c] } rfl rfl]
    simp only [bind, Except.bind, afterDesc, WFDesc.text, ← hdo, hot, List.dropLast_concat]
    simp only [hdo, if_neg hne, Nat.add_zero, hc]
  rcases cases5 with h | h | h | h | h
  · exact symcase '.' 0 (by decide +kernel) (by decide +kernel) (by decide) (by decide) (by decide) h (by decide)
  · -- single bond: no symbol
    have f1 : orderSym 1 = [] := by decide +kernel
    simp only [WFDesc.fmt, h, f1, List.nil_append, List.cons_append, List.append_assoc, if_true]
    rw [show fuel + 2 = (fuel + 1) + 1 from rfl, stripAux, bracket none st rfl hc]
    simp only [bind, Except.bind, afterDesc, WFDesc.text]
    rw [show (2 : Nat) = 2 * 1 from rfl, ← h, hot]
  · exact symcase '=' 2 (by decide +kernel) (by decide +kernel) (by decide) (by decide) (by decide) h (by decide)
  · exact symcase '#' 3 (by decide +kernel) (by decide +kernel) (by decide) (by decide) (by decide) h (by decide)
  · exact symcase '$' 4 (by decide +kernel) (by decide +kernel) (by decide) (by decide) (by decide) h (by decide)

end CGV

namespace CGV
set_option linter.unusedSimpArgs false
open Gen

theorem lookup_pySet_same {β : Type} (d : List (Nat × β)) (k : Nat) (v : β) : (pySet d k v).lookup k = some v := by
  unfold pySet
  by_cases h : d.any (fun p => p.1 == k) = true
  · simp only [h, if_true]
    induction d with
    | nil => simp at h
    | cons x xs ih =>
      obtain ⟨a, b⟩ := x
      by_cases ha : a = k
      · subst ha; simp [List.lookup]
      · have h1 : (a == k) = false := by simpa using ha
        have h2 : (k == a) = false := by simpa using fun e : k = a => ha e.symm
        simp only [List.any_cons, h1, Bool.false_or] at h
        simp only [List.map_cons, h1, Bool.false_eq_true, if_false, List.lookup, h2]
        exact ih h
  · simp only [h, Bool.false_eq_true, if_false]
    induction d with
    | nil => simp [List.lookup]
    | cons x xs ih =>
      obtain ⟨a, b⟩ := x
      simp only [List.any_cons, Bool.or_eq_true, not_or] at h
      have h2 : (k == a) = false := by
        have h0 : ¬ (a == k) = true := h.1
        simp only [beq_iff_eq] at h0
        simp only [beq_eq_false_iff_ne, ne_eq]
        exact fun e => h0 e.symm
      simp only [List.cons_append, List.lookup, h2]
      exact ih (by simpa using h.2)

theorem afterDesc_fields (st : StripState) (d : WFDesc) :
    (afterDesc st d).nodeCount = st.nodeCount ∧ (afterDesc st d).currentOrder = st.currentOrder ∧
    (afterDesc st d).prevNode = st.prevNode ∧ (afterDesc st d).smile = st.smile ∧ (afterDesc st d).ez = st.ez ∧
    (afterDesc st d).attrs = st.attrs ∧ (afterDesc st d).anchor = st.anchor := ⟨rfl, rfl, rfl, rfl, rfl, rfl, rfl⟩

theorem foldl_afterDesc_fields (ds : List WFDesc) (st : StripState) :
    (ds.foldl afterDesc st).nodeCount = st.nodeCount ∧ (ds.foldl afterDesc st).currentOrder = st.currentOrder ∧
    (ds.foldl afterDesc st).prevNode = st.prevNode ∧ (ds.foldl afterDesc st).smile = st.smile ∧
    (ds.foldl afterDesc st).ez = st.ez ∧ (ds.foldl afterDesc st).attrs = st.attrs := by
  induction ds generalizing st with
  | nil => exact ⟨rfl, rfl, rfl, rfl, rfl, rfl⟩
  | cons d ds ih => simp only [List.foldl_cons]; exact ih (afterDesc st d)

/-- all descriptors end up, in order, on the atom they were written after -/
theorem foldl_afterDesc_bonding (ds : List WFDesc) (st : StripState) (hne : ds ≠ []) :
    (ds.foldl afterDesc st).bonding.lookup st.prevNode =
      some (((st.bonding.lookup st.prevNode).getD []) ++ ds.map (·.text)) := by
  induction ds generalizing st with
  | nil => exact absurd rfl hne
  | cons d ds ih =>
    simp only [List.foldl_cons]
    by_cases hds : ds = []
    · subst hds
      simp [afterDesc, appendDesc, lookup_pySet_same]
    · have := ih (afterDesc st d) hds
      rw [(afterDesc_fields st d).2.2.1] at this
      rw [this]
      simp [afterDesc, appendDesc, lookup_pySet_same]

/-- a whole list of written descriptors following an atom is read back: every loop iteration
    consumes its part of the text and the state only gains the descriptors -/
theorem stripAux_descs (rest : Str) :
    ∀ (ds : List WFDesc) (st : StripState) (fuel : Nat), st.nodeCount ≠ 0 → st.currentOrder = none →
      ∃ fuel', fuel ≤ fuel' ∧
        stripAux (fuel + 2 * ds.length) (ds.flatMap (·.fmt) ++ rest) st = stripAux fuel' rest (ds.foldl afterDesc st)
  | [], st, fuel, _, _ => ⟨fuel, Nat.le_refl _, by simp⟩
  | d :: ds, st, fuel, hn, hc => by
    have h1 := stripAux_desc d (ds.flatMap (·.fmt) ++ rest) st (fuel + 2 * ds.length) hn hc
    obtain ⟨fuel', hle, h2⟩ := stripAux_descs rest ds (afterDesc st d) (fuel + (if d.o = 1 then 1 else 0)) hn hc
    refine ⟨fuel', Nat.le_trans (Nat.le_add_right _ _) hle, ?_⟩
    simp only [List.flatMap_cons, List.append_assoc, List.length_cons, List.foldl_cons]
    rw [show fuel + 2 * (ds.length + 1) = (fuel + 2 * ds.length) + 2 by omega, h1]
    rw [show fuel + 2 * ds.length + (if d.o = 1 then 1 else 0) = (fuel + (if d.o = 1 then 1 else 0)) + 2 * ds.length by omega]
    exact h2

end CGV
