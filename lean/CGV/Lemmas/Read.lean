/-
  CGV.Lemmas.Read — lemmas about the reader's tokeniser and per-node decoding, used for the
  string-level theorems of C04 / C05 / C07.
-/
import CGV.Model.ReadCG
namespace CGV
set_option linter.unusedSimpArgs false
open Gen

/-- characters a node name of the documented grammar consists of -/
def nameChar (c : Char) : Bool := c.isAlphanum

def NameOk (name : Str) : Prop := name ≠ [] ∧ name.all nameChar = true

theorem nameChar_facts (c : Char) (h : nameChar c = true) :
    c ≠ ']' ∧ c ≠ '[' ∧ c ≠ '\n' ∧ c ≠ ')' ∧ c ≠ '(' ∧ c ≠ ';' ∧ c ≠ '=' ∧ c ≠ '|' ∧ c ≠ '}' ∧ c ≠ '{' := by
  refine ⟨?_, ?_, ?_, ?_, ?_, ?_, ?_, ?_, ?_, ?_⟩ <;> (intro e; subst e; revert h; decide)

theorem untilClose_name (name rest : Str) (h : name.all nameChar = true) :
    untilClose (name ++ ']' :: rest) = some (name, rest) := by
  induction name with
  | nil => simp [untilClose]
  | cons c cs ih =>
    simp only [List.all_cons, Bool.and_eq_true] at h
    obtain ⟨h1, _, h3, _⟩ := nameChar_facts c h.1
    have e1 : (c == ']') = false := by simpa using h1
    have e2 : (c == '\n') = false := by simpa using h3
    simp [untilClose, e1, e2, ih h.2]

/-- one step of the regex scan at a node -/
theorem matchesAux_node (last pre : Char) (fuel : Nat) (name rest : Str) (h : name.all nameChar = true) :
    matchesAux last (fuel + 1) pre ('[' :: '#' :: (name ++ ']' :: rest)) =
      (pre, name, rest) :: matchesAux last fuel ']' rest := by
  simp [matchesAux, untilClose_name name rest h]

/-- one step of the regex scan at any other character -/
theorem matchesAux_other (last pre c : Char) (fuel : Nat) (rest : Str) (h : c ≠ '[') :
    matchesAux last (fuel + 1) pre (c :: rest) = matchesAux last fuel c rest := by
  conv => lhs; unfold matchesAux
  split
  · exact absurd rfl h
  · rfl

theorem matchesAux_nil (last pre : Char) (fuel : Nat) : matchesAux last fuel pre [] = [] := by
  cases fuel <;> rfl

/-! ### `_find_next_character` -/

theorem findNext_le (chars : List Char) (rest : Str) : findNext chars rest ≤ rest.length := by
  induction rest with
  | nil => simp [findNext]
  | cons c cs ih => unfold findNext; split <;> simp <;> omega

theorem findNext_absent (chars : List Char) (rest : Str) (h : ∀ c ∈ rest, chars.contains c = false) :
    findNext chars rest = rest.length := by
  induction rest with
  | nil => simp [findNext]
  | cons c cs ih =>
    have hc := h c List.mem_cons_self
    unfold findNext
    simp only [hc, Bool.false_eq_true, if_false, List.length_cons]
    rw [ih (fun x hx => h x (List.mem_cons_of_mem _ hx))]

/-- no `)` ahead: the branch-closing loop does nothing -/
theorem closeLoop_no_close (fuel : Nat) (rest : Str) (off : Nat) (st : RState)
    (h : ∀ c ∈ rest.drop off, c ≠ ')') : closeLoop fuel rest off st = .ok st := by
  cases fuel with
  | zero => rfl
  | succ f =>
    unfold closeLoop
    have hc : findNext branchStopClose (rest.drop off) = (rest.drop off).length :=
      findNext_absent _ _ (fun c hc => by
        have := h c hc
        simp [branchStopClose, this])
    have ho := findNext_le branchStopOpen (rest.drop off)
    have : ¬ (findNext branchStopOpen (rest.drop off) > findNext branchStopClose (rest.drop off)) := by
      rw [hc]; omega
    simp [this, pure, Except.pure]

/-! ### ring scan on text that carries no ring marker -/

theorem ringScan_break (c : Char) (rest : Str) (hd : c.isDigit = false) (hp : c ≠ '%') (hs : symOrder c = none) :
    ringScan (c :: rest) = .ok ⟨[], some 0⟩ := by
  have : (c == '%') = false := by simpa using hp
  simp [ringScan, ringScanAux, hd, this, hs, pure, Except.pure, bind, Except.bind]

theorem ringScan_sym_break (s c : Char) (o : Nat) (rest : Str) (hso : symOrder s = some o) (hsd : s.isDigit = false)
    (hsp : s ≠ '%') (hd : c.isDigit = false) (hp : c ≠ '%') (hs : symOrder c = none) :
    ringScan (s :: c :: rest) = .ok ⟨[], some 1⟩ := by
  have e1 : (c == '%') = false := by simpa using hp
  have e2 : (s == '%') = false := by simpa using hsp
  simp [ringScan, ringScanAux, hd, e1, e2, hs, hso, hsd, pure, Except.pure, bind, Except.bind]

end CGV

namespace CGV
set_option linter.unusedSimpArgs false
open Gen

/-- what follows a node in a string without branches, rings and multipliers: end of the string, the
    next node, or a bond symbol and the next node -/
inductive PlainGap : Str → Nat → Prop
  | close (r : Str) : PlainGap ('}' :: r) 1
  | node (r : Str) : PlainGap ('[' :: r) 1
  | sym (s : Char) (o : Nat) (r : Str) (hs : symbolToOrder.lookup s = some o) : PlainGap (s :: '[' :: r) o

theorem sym_facts (s : Char) (o : Nat) (hs : symbolToOrder.lookup s = some o) :
    s.isDigit = false ∧ s ≠ '%' ∧ s ≠ '|' ∧ s ≠ ')' ∧ pyStrIn [s] bondAfterNodeChars = true ∧ s ≠ '[' ∧ s ≠ '(' := by
  have : s = '.' ∨ s = '=' ∨ s = '-' ∨ s = '#' ∨ s = '$' := by
    by_cases h1 : s = '.'; · exact Or.inl h1
    by_cases h2 : s = '='; · exact Or.inr (Or.inl h2)
    by_cases h3 : s = '-'; · exact Or.inr (Or.inr (Or.inl h3))
    by_cases h4 : s = '#'; · exact Or.inr (Or.inr (Or.inr (Or.inl h4)))
    by_cases h5 : s = '$'; · exact Or.inr (Or.inr (Or.inr (Or.inr h5)))
    have ne : ∀ c, s ≠ c → (s == c) = false := fun c h => by simpa using h
    simp [symbolToOrder, List.lookup, ne _ h1, ne _ h2, ne _ h3, ne _ h4, ne _ h5] at hs
  rcases this with rfl | rfl | rfl | rfl | rfl <;> decide

/-- the loop body on a node that opens no branch, carries no ring marker or multiplier and is not
    followed by a branch closing: one node is added, bonded to the previous node with the pending
    order, and the bond symbol after it becomes the pending order -/
theorem stepNode_plain (st : RState) (pre : Char) (name rest : Str) (o : Nat) (a : Attrs)
    (hpre : pre ≠ '(') (hgap : PlainGap rest o) (hparse : parseBase name = .ok a)
    (hbr : st.branching = false) (hnc : ∀ c ∈ rest, c ≠ ')') :
    ∃ r, stepNode st (pre, name, rest) = .ok
      { st with g := (match st.prev with
                      | some p => (st.g.addNode st.current a).addEdge p st.current st.pbo
                      | none => st.g.addNode st.current a),
                current := st.current + 1, prev := some st.current, pbo := some o, attrs := some a, rdx := some r } := by
  have hp : (pre == '(') = false := by simpa using hpre
  have hcl : ∀ (fuel : Nat) (s' : RState), closeLoop fuel rest 0 s' = .ok s' :=
    fun fuel s' => closeLoop_no_close fuel rest 0 s' (by simpa using hnc)
  cases hgap with
  | close r =>
    refine ⟨0, ?_⟩
    have hs : ringScan ('}' :: r) = .ok ⟨[], some 0⟩ := ringScan_break '}' r (by decide) (by decide) (by decide)
    simp [stepNode, openBranch, hp, hs, applyRings, bondOrderOf, multOf, hparse, hbr, addCopy, hcl,
      bind, Except.bind, pure, Except.pure, List.range, List.range.loop, List.foldlM, pyStrIn, bondAfterNodeChars,
      defaultBondOrder, Option.orElse]
    cases st.prev <;> rfl
  | node r =>
    refine ⟨0, ?_⟩
    have hs : ringScan ('[' :: r) = .ok ⟨[], some 0⟩ := ringScan_break '[' r (by decide) (by decide) (by decide)
    simp [stepNode, openBranch, hp, hs, applyRings, bondOrderOf, multOf, hparse, hbr, addCopy, hcl,
      bind, Except.bind, pure, Except.pure, List.range, List.range.loop, List.foldlM, pyStrIn, bondAfterNodeChars,
      defaultBondOrder, Option.orElse]
    cases st.prev <;> rfl
  | sym s o r hso =>
    refine ⟨1, ?_⟩
    obtain ⟨f1, f2, f3, f4, f5, f6, f7⟩ := sym_facts s o hso
    have hs : ringScan (s :: '[' :: r) = .ok ⟨[], some 1⟩ :=
      ringScan_sym_break s '[' o r hso f1 f2 (by decide) (by decide) (by decide)
    have hbar : ∀ x, (s :: '[' :: r) = '|' :: x → False := by
      intro x hx; simp only [List.cons.injEq] at hx; exact f3 hx.1
    have hm : multOf (s :: '[' :: r) o = .ok (1, o) := by
      unfold multOf
      split
      · rename_i heq; exact absurd heq (by intro hx; exact hbar _ hx)
      · rfl
    have hso' : symOrder s = some o := hso
    simp [stepNode, openBranch, hp, hs, applyRings, bondOrderOf, hm, hparse, hbr, addCopy, hcl,
      bind, Except.bind, pure, Except.pure, List.range, List.range.loop, List.foldlM, f5, hso',
      defaultBondOrder, Option.orElse]
    cases st.prev <;> rfl

end CGV

namespace CGV
set_option linter.unusedSimpArgs false
open Gen

/-! ### node multipliers -/

/-- skipping characters that cannot start a node -/
theorem matchesAux_skip (last : Char) : ∀ (w : Str) (p : Char) (fuel : Nat) (rest : Str), (∀ c ∈ w, c ≠ '[') →
    matchesAux last (fuel + w.length) p (w ++ rest) = matchesAux last fuel (w.getLast?.getD p) rest
  | [], p, fuel, rest, _ => by simp
  | c :: cs, p, fuel, rest, h => by
    have hc : c ≠ '[' := h c List.mem_cons_self
    rw [List.length_cons, ← Nat.add_assoc, List.cons_append, matchesAux_other last p c _ _ hc]
    rw [matchesAux_skip last cs c fuel rest (fun x hx => h x (List.mem_cons_of_mem _ hx))]
    cases cs with
    | nil => simp
    | cons d ds =>
      have hne : (d :: ds) ≠ [] := by simp
      rw [List.getLast?_cons_cons, List.getLast?_eq_some_getLast hne]
      rfl

/-- the copies of a multiplied node: the first is bonded to the previous node with the pending order,
    every further copy to its predecessor with the default order -/
def copiesGraph (g : CGGraph) (a : Attrs) (prev : Option Nat) (pbo : Option Nat) (cur : Nat) : Nat → CGGraph
  | 0 => g
  | n + 1 =>
    let g1 := match prev with
      | some p => (g.addNode cur a).addEdge p cur pbo
      | none => g.addNode cur a
    copiesGraph g1 a (some cur) (some defaultBondOrder) (cur + 1) n

theorem addCopy_noring (a : Attrs) (st : RState) :
    addCopy a [] st = .ok { st with g := (match st.prev with
                                          | some p => (st.g.addNode st.current a).addEdge p st.current st.pbo
                                          | none => st.g.addNode st.current a),
                                    pbo := some defaultBondOrder, prev := some st.current, current := st.current + 1 } := by
  unfold addCopy
  cases st.prev <;> simp [bind, Except.bind, pure, Except.pure, List.foldlM]

theorem foldl_addCopy (a : Attrs) : ∀ (n : Nat) (l : List Nat) (st : RState), l.length = n →
    ∃ st', l.foldlM (fun (s : RState) _ => addCopy a [] s) st = .ok st' ∧
      st'.g = copiesGraph st.g a st.prev st.pbo st.current n ∧ st'.current = st.current + n ∧
      (n > 0 → st'.prev = some (st.current + n - 1)) ∧ (n = 0 → st' = st) ∧
      st'.branching = st.branching ∧ st'.cycle = st.cycle ∧ st'.anchors = st.anchors ∧ st'.recipes = st.recipes ∧
      st'.attrs = st.attrs ∧ st'.rdx = st.rdx ∧ st'.baseAnchor = st.baseAnchor
  | 0, l, st, hl => by
    have : l = [] := List.length_eq_zero_iff.mp hl
    subst this
    exact ⟨st, rfl, rfl, rfl, by intro h; omega, fun _ => rfl, rfl, rfl, rfl, rfl, rfl, rfl, rfl⟩
  | n + 1, l, st, hl => by
    obtain ⟨x, xs, rfl⟩ : ∃ x xs, l = x :: xs := by cases l with
      | nil => simp at hl
      | cons x xs => exact ⟨x, xs, rfl⟩
    have hxs : xs.length = n := by simpa using hl
    rw [List.foldlM_cons, addCopy_noring a st]
    simp only [bind, Except.bind]
    obtain ⟨st', h1, h2, h3, h4, h5, h6, h7, h8, h9, h10, h11, h12⟩ := foldl_addCopy a n xs _ hxs
    refine ⟨st', h1, ?_, ?_, ?_, ?_, h6, h7, h8, h9, h10, h11, h12⟩
    · rw [h2]; rfl
    · rw [h3]; simp; omega
    · intro _
      by_cases hn : n = 0
      · subst hn
        rw [h5 rfl]
        simp
      · rw [h4 (by omega)]
        simp only [Option.some.injEq]
        omega
    · intro h; omega

end CGV

namespace CGV
set_option linter.unusedSimpArgs false
open Gen

theorem findNext_skip (chars : List Char) (w : Str) (c : Char) (r : Str) (hw : ∀ x ∈ w, chars.contains x = false)
    (hc : chars.contains c = true) : findNext chars (w ++ c :: r) = w.length := by
  induction w with
  | nil => simp only [List.nil_append, findNext, hc, if_true, List.length_nil]
  | cons x xs ih =>
    have hx := hw x List.mem_cons_self
    simp only [List.cons_append, findNext, hx, Bool.false_eq_true, if_false, List.length_cons]
    rw [ih (fun y hy => hw y (List.mem_cons_of_mem _ hy))]

theorem digit_not_eon (x : Char) (h : x.isDigit = true) : eonChars.contains x = false := by
  have hx : ∀ c ∈ eonChars, c.isDigit = false := by decide
  cases hc : eonChars.contains x with
  | false => rfl
  | true =>
    have := hx x (List.contains_iff_mem.mp hc)
    rw [h] at this; cases this

/-- the head of a plain gap ends the multiplier's number -/
theorem gap_head (rest : Str) (o : Nat) (h : PlainGap rest o) :
    ∃ c r, rest = c :: r ∧ eonChars.contains c = true ∧
      (match symOrder c with
       | some o' => o'
       | none => defaultBondOrder) = o := by
  cases h with
  | close r => exact ⟨'}', r, rfl, by decide, by decide⟩
  | node r => exact ⟨'[', r, rfl, by decide, by decide⟩
  | sym s o r hs =>
    refine ⟨s, '[' :: r, rfl, ?_, by simp [symOrder, hs]⟩
    have : s = '.' ∨ s = '=' ∨ s = '-' ∨ s = '#' ∨ s = '$' := by
      by_cases h1 : s = '.'; · exact Or.inl h1
      by_cases h2 : s = '='; · exact Or.inr (Or.inl h2)
      by_cases h3 : s = '-'; · exact Or.inr (Or.inr (Or.inl h3))
      by_cases h4 : s = '#'; · exact Or.inr (Or.inr (Or.inr (Or.inl h4)))
      by_cases h5 : s = '$'; · exact Or.inr (Or.inr (Or.inr (Or.inr h5)))
      have ne : ∀ c, s ≠ c → (s == c) = false := fun c h => by simpa using h
      simp [symbolToOrder, List.lookup, ne _ h1, ne _ h2, ne _ h3, ne _ h4, ne _ h5] at hs
    rcases this with rfl | rfl | rfl | rfl | rfl <;> decide

/-- the loop body on a node followed by `|digits` (no branch, no ring marker): `digitsVal` copies are
    added, the first bonded to the previous node with the pending order, the others in a row with
    order 1; the bond symbol after the number becomes the pending order -/
theorem stepNode_mult (st : RState) (pre : Char) (name m gap : Str) (o : Nat) (a : Attrs)
    (hpre : pre ≠ '(') (hm : pyIsDigit m = true) (hgap : PlainGap gap o) (hparse : parseBase name = .ok a)
    (hbr : st.branching = false) (hnc : ∀ c ∈ gap, c ≠ ')') (hpos : 0 < digitsVal m) :
    ∃ st', stepNode st (pre, name, '|' :: (m ++ gap)) = .ok st' ∧
      st'.g = copiesGraph st.g a st.prev st.pbo st.current (digitsVal m) ∧
      st'.current = st.current + digitsVal m ∧ st'.prev = some (st.current + digitsVal m - 1) ∧
      st'.pbo = some o ∧ st'.branching = false ∧ st'.cycle = st.cycle := by
  have hp : (pre == '(') = false := by simpa using hpre
  have hdig : ∀ x ∈ m, x.isDigit = true := by
    simp only [pyIsDigit, Bool.and_eq_true, List.all_eq_true] at hm; exact hm.2
  have hcl : ∀ (fuel : Nat) (s' : RState), closeLoop fuel ('|' :: (m ++ gap)) 0 s' = .ok s' := by
    intro fuel s'
    apply closeLoop_no_close
    intro c hc
    simp only [List.drop_zero, List.mem_cons, List.mem_append] at hc
    rcases hc with rfl | hc | hc
    · decide
    · intro e; subst e; have := hdig _ hc; revert this; decide
    · exact hnc c hc
  have hs : ringScan ('|' :: (m ++ gap)) = .ok ⟨[], some 0⟩ := ringScan_break '|' _ (by decide) (by decide) (by decide)
  obtain ⟨c, r, hgeq, hceon, hord⟩ := gap_head gap o hgap
  have heon : findNext eonChars ('|' :: (m ++ gap)) = 1 + m.length := by
    have : '|' :: (m ++ gap) = ('|' :: m) ++ c :: r := by simp [hgeq]
    rw [this, findNext_skip eonChars ('|' :: m) c r ?_ hceon]
    · simp; omega
    · intro x hx
      rcases List.mem_cons.mp hx with rfl | hx
      · decide
      · exact digit_not_eon x (hdig x hx)
  have hmult : multOf ('|' :: (m ++ gap)) defaultBondOrder = .ok (digitsVal m, o) := by
    simp only [multOf, heon]
    have h1 : (List.drop 1 ('|' :: (m ++ gap))).take (1 + m.length - 1) = m := by simp
    have h2 : ('|' :: (m ++ gap))[1 + m.length]? = some c := by
      rw [hgeq]
      simp [List.getElem?_cons, List.getElem?_append_right]
    rw [h1, h2]
    simp only [pyIntLit, hm, if_true, bind, Except.bind, pure, Except.pure, Option.bind]
    rw [← hord]
    cases symOrder c <;> rfl
  obtain ⟨st', h1, h2, h3, h4, _, h6, h7, _⟩ := foldl_addCopy a (digitsVal m) (List.range (digitsVal m))
    { st with branching := false, rdx := some 0, attrs := some a } (by simp)
  have hmult' : multOf ('|' :: (m ++ gap)) 1 = .ok (digitsVal m, o) := hmult
  refine ⟨{ st' with pbo := some o }, ?_, h2, h3, h4 hpos, rfl, ?_, h7⟩
  · simp [stepNode, openBranch, hp, hs, applyRings, bondOrderOf, hmult', hparse, hbr, hcl,
      bind, Except.bind, pure, Except.pure, pyStrIn, bondAfterNodeChars, defaultBondOrder, Option.orElse]
    rw [h1]
    simp [hpos]
  · rw [h6]

end CGV
