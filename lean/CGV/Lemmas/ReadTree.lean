/-
  CGV.Lemmas.ReadTree — the reader's loop body on the branching grammar (Spec/Tree): what follows a
  node is a run of `)` and then the end of the string, the next node, or a bond symbol / an opening
  parenthesis in front of the next node.
-/
import CGV.Lemmas.Read
import CGV.Spec.Tree
namespace CGV
set_option linter.unusedSimpArgs false
open Gen

/-- what follows the closing parentheses of a node -/
inductive TreeGap : Str → Nat → Prop
  | close : TreeGap ['}'] 1
  | node (r : Str) : TreeGap ('[' :: '#' :: r) 1
  | opn (r : Str) : TreeGap ('(' :: '[' :: r) 1
  | sym (s : Char) (o : Nat) (r : Str) (hs : symbolToOrder.lookup s = some o) : TreeGap (s :: '[' :: r) o
  | symopn (s : Char) (o : Nat) (r : Str) (hs : symbolToOrder.lookup s = some o) : TreeGap (s :: '(' :: '[' :: r) o

/-- without `|` after the parenthesis a closing carries at most a bond symbol -/
theorem decodeClosing_plain (rest : Str) (i : Nat) (h1 : rest[i + 1]? ≠ some '|') (h2 : rest[i + 2]? ≠ some '|') :
    decodeClosing rest i = .ok ⟨none, (rest[i + 1]?).bind symOrder⟩ := by
  unfold decodeClosing
  have e1 : (rest[i + 1]? == some '|') = false := by
    cases h : rest[i + 1]? with
    | none => rfl
    | some c =>
      have : c ≠ '|' := fun e => h1 (by rw [h, e])
      simpa using this
  have e2 : (rest[i + 2]? == some '|') = false := by
    cases h : rest[i + 2]? with
    | none => rfl
    | some c =>
      have : c ≠ '|' := fun e => h2 (by rw [h, e])
      simpa using this
  simp [e1, e2, pure, Except.pure]

/-- the state after one `)`: the innermost anchor becomes the attachment point, a bond symbol after
    the parenthesis becomes the pending order -/
def popOne (st : RState) (a : Option Nat) (after : Option Nat) : RState :=
  let st1 := { st with prev := a, anchors := st.anchors.dropLast, branching := !st.anchors.dropLast.isEmpty }
  let st2 := match after with
    | some o => { st1 with pbo := some o }
    | none => st1
  if st2.anchors.isEmpty then { st2 with recipes := [] } else st2

theorem closeLoop_step (fuel : Nat) (rest : Str) (off : Nat) (st : RState) (a : Option Nat) (t : Str)
    (htail : rest.drop off = ')' :: t) (ha : st.anchors.getLast? = some a)
    (hb1 : rest[off + 1]? ≠ some '|') (hb2 : rest[off + 2]? ≠ some '|') :
    closeLoop (fuel + 1) rest off st = closeLoop fuel rest (off + 1) (popOne st a ((rest[off + 1]?).bind symOrder)) := by
  rw [closeLoop]
  have hc : findNext branchStopClose (rest.drop off) = 0 := by rw [htail]; simp [findNext, branchStopClose]
  have ho : findNext branchStopOpen (rest.drop off) > 0 := by rw [htail]; simp [findNext, branchStopOpen]
  have he : findNext eonAChars (rest.drop off) = 0 := by rw [htail]; simp [findNext, eonAChars]
  have hgt : findNext branchStopOpen (rest.drop off) > findNext branchStopClose (rest.drop off) := by rw [hc]; exact ho
  simp only [hgt, if_true, ha, he, Nat.add_zero, decodeClosing_plain rest off hb1 hb2, bind, Except.bind, pure, Except.pure]
  unfold popOne
  cases h : (rest[off + 1]?).bind symOrder <;> simp [h]

/-! ### facts about the text after the closing parentheses -/

theorem sym_not_bar (s : Char) (o : Nat) (hs : symbolToOrder.lookup s = some o) : s ≠ '|' :=
  (sym_facts s o hs).2.2.1

/-- neither of the two characters after a `)` is the expansion character -/
theorem gap_nobar (tg : Str) (o : Nat) (h : TreeGap tg o) : ∀ (j : Nat),
    (List.replicate j ')' ++ tg)[0]? ≠ some '|' ∧ (List.replicate j ')' ++ tg)[1]? ≠ some '|'
  | 0 => by
    cases h with
    | close => simp
    | node r => simp
    | opn r => simp
    | sym s o r hs => simp; exact sym_not_bar s o hs
    | symopn s o r hs => simp; exact sym_not_bar s o hs
  | 1 => by
    cases h with
    | close => simp
    | node r => simp
    | opn r => simp
    | sym s o r hs => simp; exact sym_not_bar s o hs
    | symopn s o r hs => simp; exact sym_not_bar s o hs
  | j + 2 => by simp [List.replicate_succ]

/-- at the gap itself the next node comes before any further `)`: the closing loop stops -/
theorem gap_stop (tg : Str) (o : Nat) (h : TreeGap tg o) :
    ¬ (findNext branchStopOpen tg > findNext branchStopClose tg) := by
  cases h with
  | close => simp [findNext, branchStopOpen, branchStopClose]
  | node r => simp [findNext, branchStopOpen, branchStopClose]
  | opn r => simp [findNext, branchStopOpen, branchStopClose]
  | sym s o r hs =>
    obtain ⟨_, _, _, f4, _, f6, _⟩ := sym_facts s o hs
    have e1 : (s == '[') = false := by simpa using f6
    have e2 : (s == ')') = false := by simpa using f4
    simp [findNext, branchStopOpen, branchStopClose, e1, e2, f4, f6]
  | symopn s o r hs =>
    obtain ⟨_, _, _, f4, _, f6, _⟩ := sym_facts s o hs
    have e1 : (s == '[') = false := by simpa using f6
    have e2 : (s == ')') = false := by simpa using f4
    simp [findNext, branchStopOpen, branchStopClose, e1, e2, f4, f6]

/-- the bond symbol a gap starts with, if any -/
def afterOf (tg : Str) : Option Nat := (tg.head?).bind symOrder

theorem afterOf_gap (tg : Str) (o : Nat) (h : TreeGap tg o) : afterOf tg = some o ∨ (afterOf tg = none ∧ o = 1) := by
  cases h with
  | close => right; exact ⟨by decide, rfl⟩
  | node r => right; exact ⟨by simp [afterOf, symOrder, symbolToOrder, List.lookup], rfl⟩
  | opn r => right; exact ⟨by simp [afterOf, symOrder, symbolToOrder, List.lookup], rfl⟩
  | sym s o r hs => left; simp [afterOf, symOrder, hs]
  | symopn s o r hs => left; simp [afterOf, symOrder, hs]

theorem popOne_fields (st : RState) (a : Option Nat) (after : Option Nat) :
    (popOne st a after).anchors = st.anchors.dropLast ∧ (popOne st a after).g = st.g ∧
    (popOne st a after).current = st.current ∧ (popOne st a after).cycle = st.cycle ∧
    (popOne st a after).attrs = st.attrs ∧ (popOne st a after).prev = a ∧
    (popOne st a after).branching = !st.anchors.dropLast.isEmpty ∧
    (popOne st a after).pbo = (match after with
                               | some o => some o
                               | none => st.pbo) := by
  unfold popOne
  cases after <;> simp only <;> split <;> exact ⟨rfl, rfl, rfl, rfl, rfl, rfl, rfl, rfl⟩

theorem closeLoop_zero (fuel : Nat) (pfx tg : Str) (o : Nat) (st : RState) (h : TreeGap tg o) :
    closeLoop fuel (pfx ++ tg) pfx.length st = .ok st := by
  cases fuel with
  | zero => rfl
  | succ f =>
    rw [closeLoop]
    have hd : (pfx ++ tg).drop pfx.length = tg := by simp
    simp only [hd, gap_stop tg o h, if_false, pure, Except.pure]

/-- `k` closing parentheses pop `k` anchors -/
theorem closeLoop_pops : ∀ (k fuel : Nat) (pfx tg : Str) (o : Nat) (st : RState),
    TreeGap tg o → k < fuel → k ≤ st.anchors.length →
    ∃ st', closeLoop fuel (pfx ++ (List.replicate k ')' ++ tg)) pfx.length st = .ok st' ∧
      st'.g = st.g ∧ st'.current = st.current ∧ st'.cycle = st.cycle ∧ st'.attrs = st.attrs ∧
      st'.anchors = st.anchors.take (st.anchors.length - k) ∧
      (k = 0 → st' = st) ∧
      (0 < k → st.anchors[st.anchors.length - k]? = some st'.prev ∧
               st'.branching = !st'.anchors.isEmpty ∧
               st'.pbo = match afterOf tg with
                         | some o' => some o'
                         | none => st.pbo)
  | 0, fuel, pfx, tg, o, st, hg, _, _ => by
    refine ⟨st, ?_, rfl, rfl, rfl, rfl, by simp, fun _ => rfl, fun h => absurd h (by omega)⟩
    simpa using closeLoop_zero fuel pfx tg o st hg
  | k + 1, fuel, pfx, tg, o, st, hg, hf, hk => by
    obtain ⟨f, rfl⟩ : ∃ f, fuel = f + 1 := ⟨fuel - 1, by omega⟩
    have hne : st.anchors ≠ [] := by intro e; rw [e] at hk; simp at hk
    obtain ⟨a, ha⟩ : ∃ a, st.anchors.getLast? = some a := ⟨_, List.getLast?_eq_some_getLast hne⟩
    have hrest : pfx ++ (List.replicate (k + 1) ')' ++ tg) = (pfx ++ [')']) ++ (List.replicate k ')' ++ tg) := by
      simp [List.replicate_succ]
    have htail : (pfx ++ (List.replicate (k + 1) ')' ++ tg)).drop pfx.length = ')' :: (List.replicate k ')' ++ tg) := by
      simp [List.replicate_succ]
    obtain ⟨nb0, nb1⟩ := gap_nobar tg o hg k
    have hi1 : (pfx ++ (List.replicate (k + 1) ')' ++ tg))[pfx.length + 1]? = (List.replicate k ')' ++ tg)[0]? := by
      rw [List.getElem?_append_right (by omega)]
      simp [List.replicate_succ]
    have hi2 : (pfx ++ (List.replicate (k + 1) ')' ++ tg))[pfx.length + 2]? = (List.replicate k ')' ++ tg)[1]? := by
      rw [List.getElem?_append_right (by omega)]
      simp [List.replicate_succ]
    rw [closeLoop_step f _ pfx.length st a _ htail ha (by rw [hi1]; exact nb0) (by rw [hi2]; exact nb1)]
    rw [hi1, hrest]
    have hlen : (pfx ++ [')']).length = pfx.length + 1 := by simp
    rw [← hlen]
    obtain ⟨hanch, hg1, hc1, hcy1, hat1, hpr1, hbr1', hpbo1'⟩ :=
      popOne_fields st a ((List.replicate k ')' ++ tg)[0]?.bind symOrder)
    generalize popOne st a ((List.replicate k ')' ++ tg)[0]?.bind symOrder) = st1 at hanch hg1 hc1 hcy1 hat1 hpr1 hbr1' hpbo1'
    have hk1 : k ≤ st1.anchors.length := by rw [hanch, List.length_dropLast]; omega
    obtain ⟨st', h1, h2, h3, h4, h5, h6, h7, h8⟩ := closeLoop_pops k f (pfx ++ [')']) tg o st1 hg (by omega) hk1
    have hbr1 : st1.branching = !st1.anchors.isEmpty := by rw [hanch]; exact hbr1'
    refine ⟨st', h1, by rw [h2, hg1], by rw [h3, hc1], by rw [h4, hcy1], by rw [h5, hat1], ?_, fun h => absurd h (by omega), fun _ => ?_⟩
    · rw [h6, hanch, List.length_dropLast, List.dropLast_eq_take, List.take_take]
      congr 1; omega
    · by_cases hk0 : k = 0
      · subst hk0
        have hst' := h7 rfl
        rw [hst']
        refine ⟨?_, hbr1, ?_⟩
        · rw [hpr1]
          rw [List.getLast?_eq_getElem?] at ha
          simpa using ha
        · rw [hpbo1']
          simp only [List.replicate_zero, List.nil_append, afterOf]
          have : tg[0]? = tg.head? := by cases tg <;> rfl
          rw [this]
      · obtain ⟨p1, p2, p3⟩ := h8 (by omega)
        refine ⟨?_, p2, ?_⟩
        · rw [← p1, hanch, List.length_dropLast]
          rw [List.dropLast_eq_take, List.getElem?_take]
          have : st.anchors.length - 1 - k < st.anchors.length - 1 := by omega
          simp only [this, if_true]
          congr 1
          omega
        · rw [p3]
          have hpbo1 : st1.pbo = st.pbo := by
            rw [hpbo1']
            have : (List.replicate k ')' ++ tg)[0]? = some ')' := by
              obtain ⟨k', rfl⟩ : ∃ k', k = k' + 1 := ⟨k - 1, by omega⟩
              simp [List.replicate_succ]
            rw [this]
            have : symOrder ')' = none := by decide
            simp only [Option.bind_some, this]
          rw [hpbo1]

/-! ### the loop body on one item -/

theorem multOf_nobar (rest : Str) (b : Nat) (h : rest.head? ≠ some '|') : multOf rest b = .ok (1, b) := by
  unfold multOf
  split
  · rename_i r heq
    simp at h
  · rfl

/-- ring scan, bond order and multiplier of the text after a node of the branching grammar -/
theorem gap_scan (k : Nat) (tg : Str) (o : Nat) (h : TreeGap tg o) :
    ∃ r, ringScan (List.replicate k ')' ++ tg) = .ok ⟨[], some r⟩ ∧
      bondOrderOf (List.replicate k ')' ++ tg) (some r) = .ok (if k = 0 then o else 1) ∧
      ∀ b, multOf (List.replicate k ')' ++ tg) b = .ok (1, b) := by
  cases k with
  | succ k =>
    refine ⟨0, ?_, ?_, fun b => multOf_nobar _ b (by simp [List.replicate_succ])⟩
    · rw [List.replicate_succ, List.cons_append]
      exact ringScan_break ')' _ (by decide) (by decide) (by decide)
    · simp [bondOrderOf, List.replicate_succ, pyStrIn, bondAfterNodeChars, pure, Except.pure, defaultBondOrder]
  | zero =>
    simp only [List.replicate_zero, List.nil_append, if_true]
    cases h with
    | close =>
      exact ⟨0, ringScan_break '}' [] (by decide) (by decide) (by decide),
        by simp [bondOrderOf, pyStrIn, bondAfterNodeChars, pure, Except.pure, defaultBondOrder],
        fun b => multOf_nobar _ b (by simp)⟩
    | node r =>
      exact ⟨0, ringScan_break '[' _ (by decide) (by decide) (by decide),
        by simp [bondOrderOf, pyStrIn, bondAfterNodeChars, pure, Except.pure, defaultBondOrder],
        fun b => multOf_nobar _ b (by simp)⟩
    | opn r =>
      exact ⟨0, ringScan_break '(' _ (by decide) (by decide) (by decide),
        by simp [bondOrderOf, pyStrIn, bondAfterNodeChars, pure, Except.pure, defaultBondOrder],
        fun b => multOf_nobar _ b (by simp)⟩
    | sym s o r hs =>
      obtain ⟨f1, f2, f3, f4, f5, f6, f7⟩ := sym_facts s o hs
      have hso : symOrder s = some o := hs
      exact ⟨1, ringScan_sym_break s '[' o r hs f1 f2 (by decide) (by decide) (by decide),
        by simp [bondOrderOf, f5, hso, pure, Except.pure],
        fun b => multOf_nobar _ b (by simp; exact f3)⟩
    | symopn s o r hs =>
      obtain ⟨f1, f2, f3, f4, f5, f6, f7⟩ := sym_facts s o hs
      have hso : symOrder s = some o := hs
      exact ⟨1, ringScan_sym_break s '(' o _ hs f1 f2 (by decide) (by decide) (by decide),
        by simp [bondOrderOf, f5, hso, pure, Except.pure],
        fun b => multOf_nobar _ b (by simp; exact f3)⟩

/-- opening a branch (or not) in front of a node -/
theorem openBranch_tree (st : RState) (pre : Char) (p : Nat) (hprev : st.prev = some p)
    (hattrs : pre = '(' → st.attrs.isSome) (hbr : st.branching = !st.anchors.isEmpty) :
    ∃ st0, openBranch st pre = .ok st0 ∧ st0.g = st.g ∧ st0.current = st.current ∧ st0.cycle = st.cycle ∧
      st0.prev = some p ∧ st0.pbo = st.pbo ∧
      st0.anchors = (if pre = '(' then st.anchors ++ [some p] else st.anchors) ∧
      st0.branching = !st0.anchors.isEmpty := by
  unfold openBranch
  by_cases hp : pre = '('
  · have hb : (pre == '(') = true := by simpa using hp
    obtain ⟨at0, hat⟩ := Option.isSome_iff_exists.mp (hattrs hp)
    simp only [hb, if_true, hat, pure, Except.pure]
    refine ⟨_, rfl, rfl, rfl, rfl, hprev, rfl, ?_, ?_⟩
    · simp [hp, hprev]
    · simp
  · have hb : (pre == '(') = false := by simpa using hp
    simp only [hb, Bool.false_eq_true, if_false, pure, Except.pure]
    exact ⟨st, rfl, rfl, rfl, rfl, hprev, rfl, by simp [hp], hbr⟩

/-- the loop body on one item of the branching grammar: the node is added with the next key and bonded
    to the attachment point with the pending order; a preceding `(` pushes the attachment point, `k`
    closing parentheses pop `k` anchors; the bond symbol in front of the next item becomes the pending order -/
theorem stepNode_tree (st : RState) (pre : Char) (name tg : Str) (k o : Nat) (a : Attrs) (p : Nat)
    (hgap : TreeGap tg o) (hparse : parseBase name = .ok a) (hprev : st.prev = some p)
    (hattrs : pre = '(' → st.attrs.isSome) (hbr : st.branching = !st.anchors.isEmpty)
    (hk : k ≤ (if pre = '(' then st.anchors ++ [some p] else st.anchors).length) :
    ∃ st', stepNode st (pre, name, List.replicate k ')' ++ tg) = .ok st' ∧
      st'.g = (st.g.addNode st.current a).addEdge p st.current st.pbo ∧
      st'.current = st.current + 1 ∧ st'.cycle = st.cycle ∧ st'.attrs = some a ∧
      st'.anchors = (if pre = '(' then st.anchors ++ [some p] else st.anchors).take
                      ((if pre = '(' then st.anchors ++ [some p] else st.anchors).length - k) ∧
      st'.branching = !st'.anchors.isEmpty ∧ st'.pbo = some o ∧
      (k = 0 → st'.prev = some st.current) ∧
      (0 < k → (if pre = '(' then st.anchors ++ [some p] else st.anchors)[
                  (if pre = '(' then st.anchors ++ [some p] else st.anchors).length - k]? = some st'.prev) := by
  obtain ⟨st0, hopen, hg0, hc0, hcy0, hp0, hpbo0, han0, hbr0⟩ := openBranch_tree st pre p hprev hattrs hbr
  obtain ⟨r, hscan, hbo, hmult⟩ := gap_scan k tg o hgap
  rw [← han0] at hk ⊢
  generalize hrest : List.replicate k ')' ++ tg = rest at hscan hbo hmult
  unfold stepNode
  simp only [hopen, hscan, applyRings, hbo, hmult, hparse, bind, Except.bind, pure, Except.pure, Option.orElse,
    List.range, List.range.loop, List.foldlM]
  generalize hs1 : (if st0.branching = true then _ else _ : RState) = s1
  have f1 : s1.g = st0.g := by rw [← hs1]; split <;> rfl
  have f2 : s1.current = st0.current := by rw [← hs1]; split <;> rfl
  have f3 : s1.anchors = st0.anchors := by rw [← hs1]; split <;> rfl
  have f4 : s1.prev = st0.prev := by rw [← hs1]; split <;> rfl
  have f5 : s1.branching = st0.branching := by rw [← hs1]; split <;> rfl
  have f6 : s1.cycle = st0.cycle := by rw [← hs1]; split <;> rfl
  have f7 : s1.pbo = st0.pbo := by rw [← hs1]; split <;> rfl
  have f8 : s1.attrs = some a := by rw [← hs1]; split <;> rfl
  rw [addCopy_noring]
  simp only [show (1 : Nat) > 0 from by decide, if_true]
  subst hrest
  have hfuel : k < (List.replicate k ')' ++ tg).length + 1 := by simp; omega
  have hk2 : k ≤ s1.anchors.length := by rw [f3]; exact hk
  obtain ⟨st', h1, h2, h3, h4, h5, h6, h7, h8⟩ := closeLoop_pops k ((List.replicate k ')' ++ tg).length + 1) [] tg o
    { g := (match s1.prev with
            | some p => (s1.g.addNode s1.current a).addEdge p s1.current s1.pbo
            | none => s1.g.addNode s1.current a),
      current := s1.current + 1, anchors := s1.anchors, recipes := s1.recipes, prev := some s1.current,
      branching := s1.branching, cycle := s1.cycle, pbo := some (if k = 0 then o else 1), attrs := s1.attrs,
      baseAnchor := s1.baseAnchor, rdx := s1.rdx } hgap hfuel hk2
  refine ⟨st', h1, ?_, ?_, ?_, ?_, ?_, ?_, ?_, ?_, ?_⟩
  · rw [h2]; simp only [f4, hp0, f1, hg0, f2, hc0, f7, hpbo0]
  · rw [h3]; simp only [f2, hc0]
  · rw [h4]; simp only [f6, hcy0]
  · rw [h5]; exact f8
  · rw [h6]; simp only [f3]
  · by_cases hk0 : k = 0
    · rw [h7 hk0]; simp only [f5, f3]; exact hbr0
    · exact (h8 (by omega)).2.1
  · by_cases hk0 : k = 0
    · rw [h7 hk0]; simp [hk0]
    · rw [(h8 (by omega)).2.2]
      simp only [hk0, if_false]
      rcases afterOf_gap tg o hgap with hao | ⟨hao, ho⟩
      · rw [hao]
      · rw [hao, ho]
  · intro hk0; rw [h7 hk0]; simp only [f2, hc0]
  · intro hk0
    have := (h8 hk0).1
    simp only [f3] at this
    exact this

end CGV
