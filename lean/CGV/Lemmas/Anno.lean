/-
  CGV.Lemmas.Anno — helper lemmas for the annotation parser: permutation invariance of dictionary
  lookups, `splitOn`/`intercalate`, error propagation in `collect`.
-/
import CGV.Model.Dialect
namespace CGV
set_option linter.unusedSimpArgs false
open Gen

theorem lookup_perm {β : Type} {l l' : List (Str × β)} (h : l.Perm l') (hn : (l.map (·.1)).Nodup) (k : Str) :
    l.lookup k = l'.lookup k := by
  induction h with
  | nil => rfl
  | cons x _ ih =>
    simp only [List.map_cons, List.nodup_cons] at hn
    obtain ⟨a, b⟩ := x
    simp only [List.lookup]
    split
    · rfl
    · exact ih hn.2
  | swap x y l =>
    obtain ⟨a, b⟩ := x
    obtain ⟨c, d⟩ := y
    simp only [List.map_cons, List.nodup_cons, List.mem_cons, not_or] at hn
    have hne : c ≠ a := hn.1.1
    simp only [List.lookup]
    by_cases h1 : k = c
    · subst h1
      have : (k == a) = false := by simpa using hne
      simp [this]
    · have : (k == c) = false := by simpa using h1
      simp [this]
  | trans h1 _ ih1 ih2 =>
    exact (ih1 hn).trans (ih2 ((h1.map (·.1)).nodup_iff.mp hn))

theorem isEmpty_eq_of_length_eq {α : Type} {l l' : List α} (h : l.length = l'.length) : l.isEmpty = l'.isEmpty := by
  cases l <;> cases l' <;> simp_all

theorem any_perm {α : Type} {l l' : List α} (h : l.Perm l') (f : α → Bool) : l.any f = l'.any f := by
  induction h with
  | nil => rfl
  | cons x _ ih => simp [List.any_cons, ih]
  | swap x y l => simp [List.any_cons, Bool.or_left_comm]
  | trans _ _ ih1 ih2 => exact ih1.trans ih2

/-- `Signature.bind` does not depend on the order of the keyword entries (distinct keys): the same
    parameters are bound to the same values and the same free keywords are passed through -/
theorem bindSig_perm (sig : DialectSig) (args : List Str) {kw kw' : List (Str × Str)} (h : kw.Perm kw')
    (hn : (kw.map (·.1)).Nodup) :
    (∀ e, bindSig sig args kw = .error e → bindSig sig args kw' = .error e) ∧
    (∀ b ex, bindSig sig args kw = .ok (b, ex) → ∃ ex', bindSig sig args kw' = .ok (b, ex') ∧ ex.Perm ex') := by
  have hex := h.filter fun kv => !(sig.params.map (·.name)).contains kv.1
  have hemp : (kw.filter fun kv => !(sig.params.map (·.name)).contains kv.1).isEmpty =
      (kw'.filter fun kv => !(sig.params.map (·.name)).contains kv.1).isEmpty :=
    isEmpty_eq_of_length_eq hex.length_eq
  have hb : (sig.params.filterMap fun p =>
      ((sig.params.zip args).find? fun pa => pa.1.name == p.name).or ((kw.lookup p.name).map fun v => (p, v))) =
    (sig.params.filterMap fun p =>
      ((sig.params.zip args).find? fun pa => pa.1.name == p.name).or ((kw'.lookup p.name).map fun v => (p, v))) := by
    congr 1
    funext p
    rw [lookup_perm h hn p.name]
  unfold bindSig
  by_cases h1 : args.length > sig.params.length
  · rw [if_pos h1, if_pos h1]
    exact ⟨fun e he => he, fun b ex he => by cases he⟩
  · rw [if_neg h1, if_neg h1]
    dsimp only
    rw [any_perm h]
    by_cases h2 : (kw'.any fun kv => (sig.params.zip args).any fun pa => pa.1.name == kv.1) = true
    · rw [if_pos h2, if_pos h2]
      exact ⟨fun e he => he, fun b ex he => by cases he⟩
    · rw [if_neg h2, if_neg h2, hemp]
      by_cases h3 : (!sig.acceptKwargs && !(kw'.filter fun kv => !(sig.params.map (·.name)).contains kv.1).isEmpty) = true
      · rw [if_pos h3, if_pos h3]
        exact ⟨fun e he => he, fun b ex he => by cases he⟩
      · rw [if_neg h3, if_neg h3]
        constructor
        · intro e he; cases he
        · intro b ex he
          simp only [Except.ok.injEq, Prod.mk.injEq] at he
          obtain ⟨rfl, rfl⟩ := he
          exact ⟨_, by rw [hb], hex⟩

/-! ### `split` / `join` -/

@[simp] theorem splitOn_nil (sep : Char) : splitOn sep [] = [[]] := rfl
@[simp] theorem splitOn_cons (sep c : Char) (cs : Str) : splitOn sep (c :: cs) = splitOnCons sep c (splitOn sep cs) := rfl

theorem splitOn_ne_nil (sep : Char) (s : Str) : splitOn sep s ≠ [] := by
  induction s with
  | nil => simp
  | cons c cs ih =>
    rw [splitOn_cons]
    cases h : splitOn sep cs with
    | nil => exact absurd h ih
    | cons hd tl => by_cases hc : c == sep <;> simp [splitOnCons, hc]

/-- splitting a text that does not contain the separator gives that one piece -/
theorem splitOn_no_sep (sep : Char) (s : Str) (h : sep ∉ s) : splitOn sep s = [s] := by
  induction s with
  | nil => rfl
  | cons c cs ih =>
    simp only [List.mem_cons, not_or] at h
    have hc : (c == sep) = false := by simpa using fun e => h.1 e.symm
    rw [splitOn_cons, ih h.2]
    simp [splitOnCons, hc]

/-- `(a + sep + b).split(sep)` when `a` has no separator -/
theorem splitOn_append (sep : Char) (a b : Str) (h : sep ∉ a) :
    splitOn sep (a ++ sep :: b) = a :: splitOn sep b := by
  induction a with
  | nil =>
    simp only [List.nil_append]
    rw [splitOn_cons]
    cases hb : splitOn sep b with
    | nil => exact absurd hb (splitOn_ne_nil sep b)
    | cons hd tl => simp [splitOnCons]
  | cons c cs ih =>
    simp only [List.mem_cons, not_or] at h
    have hc : (c == sep) = false := by simpa using fun e => h.1 e.symm
    simp only [List.cons_append]
    rw [splitOn_cons, ih h.2]
    simp [splitOnCons, hc]

end CGV
