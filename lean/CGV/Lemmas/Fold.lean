/-
  CGV.Lemmas.Fold — error propagation in `foldlM` / `mapM` over `Except`.
-/
import CGV.Py
namespace CGV

/-- an error raised at some element, after an error-free prefix, is the result of the whole fold -/
theorem foldlM_error_at {α β : Type} (f : β → α → Py β) (pre post : List α) (x : α) (init st : β) (e : PyErr)
    (hpre : pre.foldlM f init = .ok st) (hx : f st x = .error e) :
    (pre ++ x :: post).foldlM f init = .error e := by
  rw [List.foldlM_append, hpre]
  simp [List.foldlM_cons, bind, Except.bind, hx]

/-- if every step either succeeds or raises `e`, and one element raises `e` whatever the state, the fold
    raises `e` -/
theorem foldlM_error_of_mem {α β : Type} (f : β → α → Py β) (e : PyErr) (x : α) :
    ∀ (l : List α) (init : β), x ∈ l → (∀ st, f st x = .error e) →
      (∀ y ∈ l, ∀ st, f st y = .error e ∨ ∃ r, f st y = .ok r) → l.foldlM f init = .error e
  | [], _, h, _, _ => by simp at h
  | y :: ys, init, h, hx, hall => by
    rw [List.foldlM_cons]
    rcases hall y List.mem_cons_self init with he | ⟨r, hr⟩
    · rw [he]; rfl
    · rw [hr]
      rcases List.mem_cons.mp h with rfl | h'
      · rw [hx init] at hr; cases hr
      · exact foldlM_error_of_mem f e x ys r h' hx (fun z hz st => hall z (List.mem_cons_of_mem _ hz) st)

theorem mapM_error_at {α β : Type} (f : α → Py β) (pre post : List α) (x : α) (e : PyErr)
    (hpre : ∀ y ∈ pre, ∃ r, f y = .ok r) (hx : f x = .error e) :
    (pre ++ x :: post).mapM f = .error e := by
  induction pre with
  | nil => simp [List.mapM_cons, hx, bind, Except.bind]
  | cons y ys ih =>
    obtain ⟨r, hr⟩ := hpre y List.mem_cons_self
    have := ih (fun z hz => hpre z (List.mem_cons_of_mem _ hz))
    simp [List.mapM_cons, hr, this, bind, Except.bind]

/-- a successful `mapM`: every result comes from an element -/
theorem mapM_ok_mem {α β : Type} (f : α → Py β) : ∀ (l : List α) (r : List β), l.mapM f = .ok r →
    ∀ y ∈ r, ∃ x ∈ l, f x = .ok y
  | [], r, h, y, hy => by
    simp [List.mapM_nil, pure, Except.pure] at h
    subst h; simp at hy
  | x :: xs, r, h, y, hy => by
    rw [List.mapM_cons] at h
    cases hx : f x with
    | error e => rw [hx] at h; simp [bind, Except.bind] at h
    | ok v =>
      cases hr : xs.mapM f with
      | error e => rw [hx, hr] at h; simp [bind, Except.bind] at h
      | ok vs =>
        rw [hx, hr] at h
        simp [bind, Except.bind, pure, Except.pure] at h
        subst h
        rcases List.mem_cons.mp hy with rfl | hy'
        · exact ⟨x, List.mem_cons_self, hx⟩
        · obtain ⟨x', hx', hfx⟩ := mapM_ok_mem f xs vs hr y hy'
          exact ⟨x', List.mem_cons_of_mem _ hx', hfx⟩

/-- … and every element has its result in it -/
theorem mapM_ok_all {α β : Type} (f : α → Py β) : ∀ (l : List α) (r : List β), l.mapM f = .ok r →
    ∀ x ∈ l, ∃ y ∈ r, f x = .ok y
  | [], _, _, x, hx => by simp at hx
  | z :: zs, r, h, x, hx => by
    rw [List.mapM_cons] at h
    cases hz : f z with
    | error e => rw [hz] at h; simp [bind, Except.bind] at h
    | ok v =>
      cases hr : zs.mapM f with
      | error e => rw [hz, hr] at h; simp [bind, Except.bind] at h
      | ok vs =>
        rw [hz, hr] at h
        simp [bind, Except.bind, pure, Except.pure] at h
        subst h
        rcases List.mem_cons.mp hx with rfl | hx'
        · exact ⟨v, List.mem_cons_self, hz⟩
        · obtain ⟨y, hy, hfy⟩ := mapM_ok_all f zs vs hr x hx'
          exact ⟨y, List.mem_cons_of_mem _ hy, hfy⟩

/-- an invariant that every successful step preserves holds at the end of a successful fold -/
theorem foldlM_inv {α β : Type} (f : β → α → Py β) (P : β → Prop) :
    ∀ (l : List α) (init r : β), P init → (∀ st x st', x ∈ l → P st → f st x = .ok st' → P st') →
      l.foldlM f init = .ok r → P r
  | [], init, r, h0, _, h => by
    simp [List.foldlM_nil, pure, Except.pure] at h; subst h; exact h0
  | x :: xs, init, r, h0, hstep, h => by
    rw [List.foldlM_cons] at h
    cases hx : f init x with
    | error e => rw [hx] at h; simp [bind, Except.bind] at h
    | ok st =>
      rw [hx] at h
      simp only [bind, Except.bind] at h
      exact foldlM_inv f P xs st r (hstep init x st List.mem_cons_self h0 hx)
        (fun s y s' hy => hstep s y s' (List.mem_cons_of_mem _ hy)) h

end CGV
