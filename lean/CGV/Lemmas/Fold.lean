/-
  CGV.Lemmas.Fold — error propagation in `foldlM` / `mapM` over `Except`.
-/
import CGV.Py
namespace CGV

/-- an error raised at some element, after an error-free prefix, is the result of the whole fold -/
theorem foldlM_error_at {α β : Type} (f : β → α → Py β) (pre post : List α) (x : α) (init st : β) (e : PyErr)
    (hpre : pre.foldlM f init = .ok st) (hx : f st x = .error e) :
    (pre ++ x :: post).foldlM f init = .error e := by
  rw [List.foldlM_append, hpre]
  simp [List.foldlM_cons, bind, Except.bind, hx]

/-- if every step either succeeds or raises `e`, and one element raises `e` whatever the state, the fold
    raises `e` -/
theorem foldlM_error_of_mem {α β : Type} (f : β → α → Py β) (e : PyErr) (x : α) :
    ∀ (l : List α) (init : β), x ∈ l → (∀ st, f st x = .error e) →
      (∀ y ∈ l, ∀ st, f st y = .error e ∨ ∃ r, f st y = .ok r) → l.foldlM f init = .error e
  | [], _, h, _, _ => by simp at h
  | y :: ys, init, h, hx, hall => by
    rw [List.foldlM_cons]
    rcases hall y List.mem_cons_self init with he | ⟨r, hr⟩
    · rw [he]; rfl
    · rw [hr]
      rcases List.mem_cons.mp h with rfl | h'
      · rw [hx init] at hr; cases hr
      · exact foldlM_error_of_mem f e x ys r h' hx (fun z hz st => hall z (List.mem_cons_of_mem _ hz) st)

theorem mapM_error_at {α β : Type} (f : α → Py β) (pre post : List α) (x : α) (e : PyErr)
    (hpre : ∀ y ∈ pre, ∃ r, f y = .ok r) (hx : f x = .error e) :
    (pre ++ x :: post).mapM f = .error e := by
  induction pre with
  | nil => simp [List.mapM_cons, hx, bind, Except.bind]
  | cons y ys ih =>
    obtain ⟨r, hr⟩ := hpre y List.mem_cons_self
    have := ih (fun z hz => hpre z (List.mem_cons_of_mem _ hz))
    simp [List.mapM_cons, hr, this, bind, Except.bind]

end CGV
