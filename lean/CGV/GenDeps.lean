/-
  `#gen_deps thm`: the generated definitions (namespace `CGV.Gen`: what the translator regenerates from the
  current /repo sources on every run) a theorem depends on, through any chain of definitions and lemmas.
  The check uses it to decide which properties a piece of generated code concerns.
-/
import Lean
open Lean Elab Command

namespace CGV.GenDeps

structure St where
  visited : NameSet := {}
  gen : Array Name := #[]

partial def visit (env : Environment) (n : Name) : StateM St Unit := do
  if (← get).visited.contains n then return
  modify fun s => { s with visited := s.visited.insert n }
  if (`CGV.Gen).isPrefixOf n && !n.isInternal then
    modify fun s => { s with gen := s.gen.push n }
  match env.find? n with
  | none => pure ()
  | some ci =>
    for c in ci.getUsedConstantsAsSet.toList do
      visit env c

elab "#gen_deps " id:ident : command => do
  let env ← getEnv
  let n ← liftCoreM <| realizeGlobalConstNoOverloadWithInfo id
  let (_, st) := (visit env n).run {}
  let names := st.gen.qsort (fun a b => a.toString < b.toString)
  logInfo m!"gen_deps {n}: {names.toList}"

end CGV.GenDeps
