/-
  JSON <-> model structures for the line-protocol driver. Not part of any proof.
-/
import Lean.Data.Json
import CGV.Model.Resolve
open Lean
namespace CGV.J

def str (s : Str) : Json := Json.str (String.ofList s)
def nat (n : Nat) : Json := Json.num (JsonNumber.fromNat n)
def int (n : Int) : Json := Json.num (JsonNumber.fromInt n)
def ofStr (j : Json) : Except String Str := do pure (← j.getStr?).toList

def getD (j : Json) (k : String) (d : Json) : Json := (j.getObjVal? k).toOption.getD d

def arr (j : Json) : Except String (Array Json) := j.getArr?
def natOf (j : Json) : Except String Nat := j.getNat?
def intOf (j : Json) : Except String Int := j.getInt?
def boolOf (j : Json) : Except String Bool := j.getBool?

def listOf {α} (f : Json → Except String α) (j : Json) : Except String (List α) := do
  (← arr j).toList.mapM f

def pairOf {α β} (f : Json → Except String α) (g : Json → Except String β) (j : Json) : Except String (α × β) := do
  let a ← arr j
  if a.size < 2 then throw "pair expected"
  pure (← f a[0]!, ← g a[1]!)

def atomOf (j : Json) : Except String Atom := do
  let el ← ofStr (getD j "el" (Json.str ""))
  pure {
    key := ← natOf (← j.getObjVal? "k"),
    element := el,
    atomname := ← ofStr (getD j "an" (Json.str "")),
    fragname := ← ofStr (getD j "fn" (Json.str "")),
    fragid := ← listOf natOf (getD j "fid" (Json.arr #[])),
    aromatic := ← boolOf (getD j "ar" (Json.bool false)),
    hasArom := ← boolOf (getD j "ha" (Json.bool false)),
    charge := ← intOf (getD j "ch" (nat 0)),
    hcount2 := ← natOf (getD j "hc2" (nat 0)),
    bonding := ← listOf ofStr (getD j "bd" (Json.arr #[])),
    mapping := ← listOf (pairOf ofStr natOf) (getD j "mp" (Json.arr #[])),
    singleH := ← boolOf (getD j "sh" (Json.bool false)),
    isH := el == ['H'],
    extra := ← listOf (pairOf (fun x => x.getStr?) (fun x => x.getStr?)) (getD j "x" (Json.arr #[])) }

def atomTo (a : Atom) : Json :=
  Json.mkObj [
    ("k", nat a.key), ("el", str a.element), ("an", str a.atomname), ("fn", str a.fragname),
    ("fid", Json.arr (a.fragid.map nat).toArray),
    ("ar", Json.bool a.aromatic), ("ha", Json.bool a.hasArom), ("ch", int a.charge),
    ("hc2", nat a.hcount2),
    ("bd", Json.arr (a.bonding.map str).toArray),
    ("mp", Json.arr (a.mapping.map (fun p => Json.arr #[str p.1, nat p.2])).toArray),
    ("sh", Json.bool a.singleH),
    ("x", Json.arr (a.extra.map (fun p => Json.arr #[Json.str p.1, Json.str p.2])).toArray)]

def edgeOf (j : Json) : Except String Edge := do
  let a ← arr j
  if a.size < 3 then throw "edge expected"
  let bd ← if a.size > 3 && !a[3]!.isNull then
      (do let p ← pairOf ofStr ofStr a[3]!; pure (some p)) else pure none
  pure ⟨← natOf a[0]!, ← natOf a[1]!, ← natOf a[2]!, bd⟩

def edgeTo (e : Edge) : Json :=
  let lo := min e.a e.b
  let hi := max e.a e.b
  Json.arr #[nat lo, nat hi, nat e.order2,
    match e.bonding with
    | none => Json.null
    | some (x, y) => Json.arr #[str x, str y]]

def molOf (j : Json) : Except String Mol := do
  pure { atoms := ← listOf atomOf (← j.getObjVal? "n"), edges := ← listOf edgeOf (getD j "e" (Json.arr #[])) }

/-- nodes in iteration order, edges sorted by (min, max) -/
def molTo (m : Mol) : Json :=
  let es := m.edges.toArray.qsort fun x y =>
    let kx := (min x.a x.b, max x.a x.b); let ky := (min y.a y.b, max y.a y.b)
    kx.1 < ky.1 || (kx.1 == ky.1 && kx.2 < ky.2)
  Json.mkObj [("n", Json.arr (m.atoms.map atomTo).toArray), ("e", Json.arr (es.map edgeTo))]

def metaOf (j : Json) : Except String Meta := do
  let ns ← listOf (pairOf natOf ofStr) (← j.getObjVal? "nodes")
  let es ← listOf (fun e => do
      let a ← arr e
      if a.size < 3 then throw "meta edge expected"
      pure ((← natOf a[0]!, ← natOf a[1]!, ← natOf a[2]!) : MEdge)) (← j.getObjVal? "edges")
  pure ⟨ns.map fun p => ⟨p.1, p.2⟩, es⟩

def fragsOf (j : Json) : Except String FragDict :=
  listOf (pairOf ofStr molOf) j

def aromOf (j : Json) : Except String AromPatch := do
  let fl ← listOf (pairOf natOf boolOf) (← j.getObjVal? "flags")
  let os ← listOf (fun e => do
      let a ← arr e
      pure (← natOf a[0]!, ← natOf a[1]!, ← natOf a[2]!)) (← j.getObjVal? "orders")
  pure ⟨fl, os⟩

def errTo (e : PyErr) : Json := Json.mkObj [("err", Json.str e.name)]

def keysTo (l : List Key) : Json := Json.arr (l.map nat).toArray

end CGV.J
