/-
  CGV.Py — the small part of Python's semantics the models and the translated
  leaf functions rely on.  Strings are `List Char`; Python exceptions are values
  of `PyErr` inside `Except`.  Import-free (core Lean only) so that everything
  built on it links into the compiled driver.
-/
namespace CGV

/-- exception classes the correspondence compares (messages are never compared) -/
inductive PyErr where
  | syntax | type | value | index | key | lookup | io | unbound | attr | other
  /-- input outside the lexical domain of the model (counted and skipped by the harness) -/
  | unsupported
deriving DecidableEq, Repr, Inhabited

def PyErr.name : PyErr → String
  | .syntax => "syntax" | .type => "type" | .value => "value" | .index => "index"
  | .key => "key" | .lookup => "lookup" | .io => "io" | .unbound => "unbound"
  | .attr => "attr" | .other => "other" | .unsupported => "unsupported"

abbrev Str := List Char
abbrev Py := Except PyErr

instance {ε α : Type} [DecidableEq ε] [DecidableEq α] : DecidableEq (Except ε α) := fun a b =>
  match a, b with
  | .ok x, .ok y => if h : x = y then isTrue (by rw [h]) else isFalse (fun e => h (Except.ok.inj e))
  | .error x, .error y => if h : x = y then isTrue (by rw [h]) else isFalse (fun e => h (Except.error.inj e))
  | .ok _, .error _ => isFalse (fun e => by cases e)
  | .error _, .ok _ => isFalse (fun e => by cases e)

/-- `s[0]` for a Python `str` (a string of length one, IndexError on the empty string) -/
def pyHead (s : Str) : Py Str :=
  match s with
  | [] => .error .index
  | c :: _ => .ok [c]

/-- `s[-1]` -/
def pyLast (s : Str) : Py Str :=
  match s.getLast? with
  | none => .error .index
  | some c => .ok [c]

/-- `s[1:]` -/
def pyTail (s : Str) : Str := s.drop 1

/-- `s[:-1]` -/
def pyInit (s : Str) : Str := s.dropLast

/-- `x in s` for two Python strings: substring test -/
def pyStrIn (x s : Str) : Bool :=
  match s with
  | [] => x.isEmpty
  | c :: cs => x.isPrefixOf (c :: cs) || pyStrIn x cs

/-- `str.isdigit()` on the ASCII domain the models accept -/
def pyIsDigit (s : Str) : Bool := !s.isEmpty && s.all Char.isDigit

/-- value of a string of ASCII digits -/
def digitsVal (s : Str) : Nat := s.foldl (fun a c => 10 * a + (c.toNat - '0'.toNat)) 0

/-- `int(s)` for `s` an unsigned decimal literal; `ValueError` for anything else that is plain ASCII
    without whitespace/underscore/sign (those are reported as `unsupported`: Python accepts some of them). -/
def pyIntLit (s : Str) : Py Nat :=
  if pyIsDigit s then .ok (digitsVal s)
  else if s.any (fun c => c == ' ' || c == '_' || c == '+' || c == '-' || c.toNat > 127 || c == '\n' || c == '\t') then .error .unsupported
  else .error .value

/-- lookup in an insertion-ordered association list; KeyError when absent -/
def pyGet {α β} [BEq α] (d : List (α × β)) (k : α) : Py β :=
  match d.lookup k with
  | some v => .ok v
  | none => .error .key

/-- `dict[k] = v` keeping the insertion position of an existing key -/
def pySet {α β} [BEq α] (d : List (α × β)) (k : α) (v : β) : List (α × β) :=
  if d.any (fun p => p.1 == k) then d.map (fun p => if p.1 == k then (k, v) else p) else d ++ [(k, v)]

def pyHasKey {α β} [BEq α] (d : List (α × β)) (k : α) : Bool := d.any (fun p => p.1 == k)

/-- `del d[k]` (no error when absent; callers check) -/
def pyDel {α β} [BEq α] (d : List (α × β)) (k : α) : List (α × β) := d.filter (fun p => !(p.1 == k))

theorem pyStrIn_singleton (c : Char) (s : Str) : pyStrIn [c] s = s.contains c := by
  induction s with
  | nil => simp [pyStrIn]
  | cons d ds ih =>
    simp only [pyStrIn, ih, List.contains_cons]
    cases ds <;> simp [List.isPrefixOf, eq_comm]

end CGV
