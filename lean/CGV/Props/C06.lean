/-
  C06 — layered resolutions compose.

  Proved here: the three ways of driving the resolver coincide, each step's coarse graph is the
  previous step's fine graph (names switched), and every step is an instance of the one-step model,
  so the per-step theorems (C02 mapping, C03 bonds, C09 valence, C11, C12) hold at every level.
  `C06_compose_partial`: level-wise reconstruction under the hypotheses of L-restore at each level
  (C03_exact); the end-to-end isomorphism with the flattened two-level description is validated by
  the correspondence + oracle (hierarchical `mol` suite), not proved — see DESIGN §7 C06.
-/
import CGV.Model.Levels
import CGV.Props.C03
namespace CGV.C06
open CGV

variable (ext : Ext) (cp : Desc → Desc → Bool)

/-- consecutive elements are related by `r` -/
def Chained {α : Type} (r : α → α → Prop) : List α → Prop
  | [] => True
  | [_] => True
  | x :: y :: t => r x y ∧ Chained r (y :: t)

/-- stepping manually through all levels is `resolve_iter` -/
theorem C06_manual_eq_iter : ∀ (lvs : List Level) (mg : Meta),
    resolveManual ext cp lvs.length lvs mg = resolveIter ext cp lvs mg
  | [], _ => rfl
  | lv :: rest, mg => by
    simp only [List.length_cons, resolveManual, resolveIter]
    cases step ext cp lv mg with
    | error e => rfl
    | ok out =>
      simp only [bind, Except.bind]
      rw [C06_manual_eq_iter rest (nextMeta ext out.fine)]

/-- `resolve_all` returns the last element of `resolve_iter` -/
theorem C06_all_is_last (lvs : List Level) (mg : Meta) (all : List (Meta × StepOut))
    (h : resolveIter ext cp lvs mg = .ok all) (r : Meta × StepOut) (hr : all.getLast? = some r) :
    resolveAll ext cp lvs mg = .ok r := by
  simp [resolveAll, h, hr, bind, Except.bind, pure, Except.pure]

/-- the results of `resolve_iter` form a chain: the coarse graph of step i+1 is the fine graph of
    step i with atom names as fragment names -/
theorem C06_chain : ∀ (lvs : List Level) (mg : Meta) (all : List (Meta × StepOut)),
    resolveIter ext cp lvs mg = .ok all →
    Chained (fun (x y : Meta × StepOut) => y.1 = nextMeta ext x.2.fine) all ∧
      (∀ x, all.head? = some x → x.1 = mg)
  | [], mg, all, h => by
    simp [resolveIter, pure, Except.pure] at h; subst h; exact ⟨trivial, by simp⟩
  | lv :: rest, mg, all, h => by
    simp only [resolveIter] at h
    cases hs : step ext cp lv mg with
    | error e => rw [hs] at h; cases h
    | ok out =>
      rw [hs] at h
      simp only [bind, Except.bind] at h
      cases hr : resolveIter ext cp rest (nextMeta ext out.fine) with
      | error e => rw [hr] at h; cases h
      | ok more =>
        rw [hr] at h
        simp only [pure, Except.pure, Except.ok.injEq] at h
        subst h
        obtain ⟨hc, hh⟩ := C06_chain rest _ more hr
        refine ⟨?_, by simp⟩
        cases more with
        | nil => exact trivial
        | cons y ys =>
          exact ⟨hh y rfl, hc⟩

/-- every element of `resolve_iter` is the one-step model applied to its coarse graph — so the
    mapping, bonding, valence and numbering theorems hold at every step -/
theorem C06_each_is_step : ∀ (lvs : List Level) (mg : Meta) (all : List (Meta × StepOut)),
    resolveIter ext cp lvs mg = .ok all →
    all.length = lvs.length ∧ ∀ i (hi : i < all.length) (hl : i < lvs.length),
      step ext cp lvs[i] all[i].1 = .ok all[i].2
  | [], mg, all, h => by
    simp [resolveIter, pure, Except.pure] at h; subst h; exact ⟨rfl, by intro i hi; simp at hi⟩
  | lv :: rest, mg, all, h => by
    simp only [resolveIter] at h
    cases hs : step ext cp lv mg with
    | error e => rw [hs] at h; cases h
    | ok out =>
      rw [hs] at h
      simp only [bind, Except.bind] at h
      cases hr : resolveIter ext cp rest (nextMeta ext out.fine) with
      | error e => rw [hr] at h; cases h
      | ok more =>
        rw [hr] at h
        simp only [pure, Except.pure, Except.ok.injEq] at h
        subst h
        obtain ⟨hl, hstep⟩ := C06_each_is_step rest _ more hr
        refine ⟨by simp [hl], ?_⟩
        intro i hi hl'
        cases i with
        | zero => simpa using hs
        | succ j =>
          simp only [List.getElem_cons_succ]
          exact hstep j (by simpa using hi) (by simpa using hl')

/-- level-wise reconstruction: at a level whose open descriptors are exactly the halves of uniquely
    labelled cuts (the intermediate descriptor carries the number of bonds it stands for as the edge
    order), the step creates exactly those cuts — L-restore, applied at that level -/
theorem C06_compose_partial (edges : List MEdge) (s : OpenSt) (spec : List Cut) (h : CutSpec cp edges s spec) :
    (edgesFrom cp edges s).2.Perm spec := (C03.C03_exact cp edges s spec h).1

end CGV.C06
