/-
  C07 for trees: the writer model on any tree-shaped graph (any branching, any depth, any bond orders)
  produces exactly the nested text of the tree — branches in parentheses with the bond symbol in
  front of the parenthesis, the last child continuing the chain.
-/
import CGV.Props.C07Path
namespace CGV.C07
open CGV Gen C04
set_option linter.unusedSimpArgs false

mutual
/-- a rooted tree; `kids` in the order the writer visits them: branches first, the chain's continuation last -/
inductive RT where
  | node (name : Str) (kids : Kids) : RT
inductive Kids where
  | nil : Kids
  | cons (order : Nat) (t : RT) (rest : Kids) : Kids
end

mutual
def RT.size : RT → Nat
  | .node _ ks => 1 + ks.size
def Kids.size : Kids → Nat
  | .nil => 0
  | .cons _ t r => t.size + r.size
end

mutual
/-- the text the writer is to produce for a (sub)tree, without the symbol of the bond leading to it -/
def RT.text : RT → Str
  | .node nm ks => nodeText nm ++ ks.text
def Kids.text : Kids → Str
  | .nil => []
  | .cons o t .nil => symText o ++ t.text
  | .cons o t (.cons o' t' r) => symText o ++ ['('] ++ t.text ++ [')'] ++ (Kids.cons o' t' r).text
end

/-- keys of the kids' roots when the first kid gets key `k` (pre-order numbering in visiting order) -/
def kidKeys (k : Nat) : Kids → List Nat
  | .nil => []
  | .cons _ t r => k :: kidKeys (k + t.size) r

mutual
/-- the graph `g` (with predecessor table `pred`) contains the tree with root key `k` -/
def EmbT (g : WGraph) (pred : List (Nat × Nat)) (k : Nat) : RT → Prop
  | .node nm ks => g.node? k = some ⟨k, nodeText nm, [], false⟩ ∧
      g.succ.lookup k = (match kidKeys (k + 1) ks with
                         | [] => none
                         | l => some l.reverse) ∧ EmbK g pred k (k + 1) ks
def EmbK (g : WGraph) (pred : List (Nat × Nat)) (p : Nat) (k : Nat) : Kids → Prop
  | .nil => True
  | .cons o t r => pred.lookup k = some p ∧ edgeSymbol g p k = .ok (symText o) ∧ EmbT g pred k t ∧ EmbK g pred p (k + t.size) r
end

/-- the state after the loop body has run on node `k` (text `nm`, successors `next`) -/
def afterNode (acc : Str) (base : List Nat) (bs : List Nat) (d : Nat) (k : Nat) (sym nm : Str) (next : Option (List Nat)) : WState :=
  let isB := bs.contains k
  let d1 := if isB then d + 1 else d
  let bs1 := if isB then bs.erase k else bs
  let out1 := acc ++ sym ++ (if isB then ['('] else []) ++ nm
  match next with
  | some nx => ⟨out1, base ++ nx, bs1 ++ (nx.drop 1).filter (fun n => !bs1.contains n), d1, []⟩
  | none => if d1 > 0 then ⟨out1 ++ [')'], base, bs1, d1 - 1, []⟩ else ⟨out1, base, bs1, d1, []⟩

theorem writeStep_node (g : WGraph) (pred : List (Nat × Nat)) (hr : g.ringEdges = []) (hf : g.smilesFormat = false)
    (acc : Str) (base bs : List Nat) (d k : Nat) (sym nm : Str) (next : Option (List Nat))
    (hnode : g.node? k = some ⟨k, nm, [], false⟩) (hsucc : g.succ.lookup k = next)
    (hsym : (match pred.lookup k with
             | some previous => edgeSymbol g previous k
             | none => pure []) = .ok sym) :
    writeStep g pred ⟨acc, base ++ [k], bs, d, []⟩ = .ok (afterNode acc base bs d k sym nm next) := by
  have hring : ringIdxsOf g k = [] := by simp [ringIdxsOf, hr]
  unfold writeStep afterNode
  simp only [List.getLast?_append, List.getLast?_singleton, Option.some_or, List.dropLast_concat, hnode, hring, hsucc, hf,
    bind, Except.bind, pure, Except.pure, Bool.false_eq_true, if_false, List.isEmpty_nil, if_true, List.foldlM_nil,
    List.filter_nil, List.append_nil, List.flatMap_nil]
  cases hl : pred.lookup k with
  | none =>
    rw [hl] at hsym
    simp only [pure, Except.pure, Except.ok.injEq] at hsym
    subst hsym
    cases hb : bs.contains k <;> cases next <;> simp [hb]
    all_goals (split <;> simp_all)
  | some previous =>
    rw [hl] at hsym
    simp only at hsym
    cases hb : bs.contains k <;> cases next <;> simp [hb, hsym]
    all_goals (split <;> simp_all)

/-! ### bookkeeping of keys -/

theorem RT.size_pos (t : RT) : 1 ≤ t.size := by cases t; simp [RT.size]; omega

theorem kidKeys_range : ∀ (ks : Kids) (k x : Nat), x ∈ kidKeys k ks → k ≤ x ∧ x < k + ks.size
  | .nil, k, x, h => by simp [kidKeys] at h
  | .cons o t r, k, x, h => by
    simp only [kidKeys, List.mem_cons] at h
    have hp := RT.size_pos t
    simp only [Kids.size]
    rcases h with rfl | h
    · omega
    · have := kidKeys_range r (k + t.size) x h
      omega

theorem kidKeys_nil_iff (ks : Kids) (k : Nat) : kidKeys k ks = [] ↔ ks = .nil := by
  cases ks <;> simp [kidKeys]

/-- all kids but the last: the ones written in parentheses -/
def brKeys (k : Nat) (ks : Kids) : List Nat := (kidKeys k ks).dropLast

theorem drop_one_reverse (l : List Nat) : l.reverse.drop 1 = l.dropLast.reverse := by
  induction l with
  | nil => rfl
  | cons x xs ih =>
    cases xs with
    | nil => simp
    | cons y ys =>
      rw [List.dropLast_cons_of_ne_nil (by simp), List.reverse_cons, List.reverse_cons x]
      rw [List.drop_append_of_le_length (by simp), ih]

def closeText (d : Nat) : Str := if d > 0 then [')'] else []

theorem filter_fresh (bs l : List Nat) (h : ∀ x ∈ l, x ∉ bs) : l.filter (fun n => !bs.contains n) = l := by
  rw [List.filter_eq_self]
  intro x hx
  simpa using h x hx

/-! ### the loop on a subtree -/

/-- the symbol of the bond that leads to node `k` -/
def SymAt (g : WGraph) (pred : List (Nat × Nat)) (k : Nat) (sym : Str) : Prop :=
  (match pred.lookup k with
   | some previous => edgeSymbol g previous k
   | none => pure []) = .ok sym

theorem erase_last (l : List Nat) (k : Nat) (h : k ∉ l) : (l ++ [k]).erase k = l := by
  induction l with
  | nil => simp
  | cons x xs ih =>
    have hx : x ≠ k := fun e => h (by rw [e]; exact List.mem_cons_self)
    have hxs : k ∉ xs := fun e => h (List.mem_cons_of_mem _ e)
    have hb : (x == k) = false := by simpa using hx
    simp only [List.cons_append, List.erase_cons, hb]
    rw [ih hxs]
    rfl

theorem erase_not_mem (l : List Nat) (k : Nat) (h : k ∉ l) : l.erase k = l := List.erase_of_not_mem h

theorem mem_erase_sub (l : List Nat) (k x : Nat) (h : x ∈ l.erase k) : x ∈ l := List.mem_of_mem_erase h

theorem brKeys_sub (k : Nat) (ks : Kids) (x : Nat) (h : x ∈ brKeys k ks) : x ∈ kidKeys k ks :=
  List.mem_of_mem_dropLast h

theorem kidKeys_cons (k o : Nat) (t : RT) (r : Kids) : kidKeys k (.cons o t r) = k :: kidKeys (k + t.size) r := rfl

theorem brKeys_single (k o : Nat) (t : RT) : brKeys k (.cons o t .nil) = [] := by simp [brKeys, kidKeys]

theorem brKeys_cons (k o o' : Nat) (t t' : RT) (r : Kids) :
    brKeys k (.cons o t (.cons o' t' r)) = k :: brKeys (k + t.size) (.cons o' t' r) := by
  simp [brKeys, kidKeys]

variable (g : WGraph) (pred : List (Nat × Nat)) (hr : g.ringEdges = []) (hf : g.smilesFormat = false)

mutual
/-- the loop started on the root of a contained subtree writes the subtree's text (in parentheses
    if the root is a pending branch), closes the innermost open parenthesis at the end of the
    subtree's chain, and leaves the rest of the stack untouched -/
theorem loop_T : ∀ (T : RT) (k : Nat) (acc : Str) (base bs : List Nat) (d : Nat) (sym : Str) (fuel : Nat),
    EmbT g pred k T → SymAt g pred k sym → (∀ x ∈ bs, x ≤ k ∨ k + T.size ≤ x) →
    writeLoop g pred (fuel + T.size) ⟨acc, base ++ [k], bs, d, []⟩ =
      writeLoop g pred fuel
        ⟨acc ++ sym ++ (if bs.contains k then ['('] else []) ++ T.text ++ closeText (if bs.contains k then d + 1 else d),
         base, bs.erase k, (if bs.contains k then d + 1 else d) - 1, []⟩
  | .node nm ks, k, acc, base, bs, d, sym, fuel, hemb, hsym, hfresh => by
    unfold EmbT at hemb
    obtain ⟨hnode, hsucc, hkids⟩ := hemb
    have hstep := writeStep_node g pred hr hf acc base bs d k sym (nodeText nm) _ hnode hsucc hsym
    rw [show fuel + (RT.node nm ks).size = (fuel + ks.size) + 1 from by simp [RT.size]; omega]
    rw [writeLoop]
    have hne : (base ++ [k]).isEmpty = false := by simp
    simp only [hne, Bool.false_eq_true, if_false, hstep, bind, Except.bind]
    cases ks with
    | nil =>
      simp only [kidKeys, afterNode, Kids.size, Nat.add_zero, RT.text, Kids.text, List.append_nil, closeText]
      cases hb : bs.contains k <;> simp [hb]
      all_goals (split <;> simp_all)
    | cons o t r =>
      have hkk : kidKeys (k + 1) (Kids.cons o t r) = (k + 1) :: kidKeys (k + 1 + t.size) r := rfl
      simp only [hkk, afterNode]
      -- the branches pushed: all kids but the last, none of them pending already
      have hdrop : (((k + 1) :: kidKeys (k + 1 + t.size) r).reverse).drop 1 = (brKeys (k + 1) (Kids.cons o t r)).reverse := by
        rw [drop_one_reverse]; rfl
      have hbs1 : ∀ x ∈ (if bs.contains k then bs.erase k else bs), x < k + 1 ∨ k + 1 + (Kids.cons o t r).size ≤ x := by
        intro x hx
        have hx' : x ∈ bs := by
          split at hx
          · exact mem_erase_sub _ _ _ hx
          · exact hx
        have := hfresh x hx'
        simp only [RT.size] at this
        omega
      have hfilter : (brKeys (k + 1) (Kids.cons o t r)).reverse.filter
          (fun n => !(if bs.contains k then bs.erase k else bs).contains n) = (brKeys (k + 1) (Kids.cons o t r)).reverse := by
        apply filter_fresh
        intro x hx hmem
        have hx' := kidKeys_range _ _ _ (brKeys_sub _ _ _ (List.mem_reverse.mp hx))
        have := hbs1 x hmem
        omega
      rw [hdrop, hfilter]
      have hK := loop_K (Kids.cons o t r) k (k + 1)
        (acc ++ sym ++ (if bs.contains k then ['('] else []) ++ nodeText nm) base
        (if bs.contains k then bs.erase k else bs) (if bs.contains k then d + 1 else d) fuel (by simp) hkids hbs1
      rw [hkk] at hK
      rw [hK]
      congr 1
      cases hb : bs.contains k
      · simp [hb, RT.text, erase_not_mem bs k (by simpa using hb)]
      · simp [hb, RT.text]
/-- … and started on the pending kids of a node it writes them one after the other: every kid but
    the last in parentheses, the last as the continuation of the chain -/
theorem loop_K : ∀ (ks : Kids) (p k : Nat) (acc : Str) (base bs : List Nat) (d : Nat) (fuel : Nat), ks ≠ .nil →
    EmbK g pred p k ks → (∀ x ∈ bs, x < k ∨ k + ks.size ≤ x) →
    writeLoop g pred (fuel + ks.size) ⟨acc, base ++ (kidKeys k ks).reverse, bs ++ (brKeys k ks).reverse, d, []⟩ =
      writeLoop g pred fuel ⟨acc ++ ks.text ++ closeText d, base, bs, d - 1, []⟩
  | .nil, _, _, _, _, _, _, _, hne, _, _ => absurd rfl hne
  | .cons o t .nil, p, k, acc, base, bs, d, fuel, _, hemb, hfresh => by
    unfold EmbK at hemb
    obtain ⟨hpred, hes, hT, _⟩ := hemb
    have hsym : SymAt g pred k (symText o) := by unfold SymAt; rw [hpred]; exact hes
    have hkn : k ∉ bs := by
      intro hm
      have := hfresh k hm
      have hp := RT.size_pos t
      simp only [Kids.size] at this
      omega
    have hcont : bs.contains k = false := by simpa using hkn
    have hfT : ∀ x ∈ bs, x ≤ k ∨ k + t.size ≤ x := by
      intro x hx
      have := hfresh x hx
      simp only [Kids.size] at this
      omega
    have hT' := loop_T t k acc base bs d (symText o) fuel hT hsym hfT
    simp only [kidKeys, List.reverse_cons, List.reverse_nil, List.nil_append, brKeys_single, List.append_nil, Kids.size,
      Nat.add_zero, Kids.text]
    rw [hT']
    simp [hcont, erase_not_mem bs k hkn]
  | .cons o t (.cons o' t' r), p, k, acc, base, bs, d, fuel, _, hemb, hfresh => by
    unfold EmbK at hemb
    obtain ⟨hpred, hes, hT, hR⟩ := hemb
    have hsym : SymAt g pred k (symText o) := by unfold SymAt; rw [hpred]; exact hes
    have hp := RT.size_pos t
    have hkn : k ∉ bs := by
      intro hm
      have := hfresh k hm
      simp only [Kids.size] at this
      omega
    have hkb : k ∉ (brKeys (k + t.size) (Kids.cons o' t' r)).reverse := by
      intro hm
      have := kidKeys_range _ _ _ (brKeys_sub _ _ _ (List.mem_reverse.mp hm))
      omega
    -- the state in the shape loop_T expects
    have hstack : base ++ (kidKeys k (Kids.cons o t (Kids.cons o' t' r))).reverse =
        (base ++ (kidKeys (k + t.size) (Kids.cons o' t' r)).reverse) ++ [k] := by
      rw [kidKeys_cons, List.reverse_cons, List.append_assoc]
    have hbr : bs ++ (brKeys k (Kids.cons o t (Kids.cons o' t' r))).reverse =
        (bs ++ (brKeys (k + t.size) (Kids.cons o' t' r)).reverse) ++ [k] := by
      rw [brKeys_cons, List.reverse_cons, List.append_assoc]
    have hcont : ((bs ++ (brKeys (k + t.size) (Kids.cons o' t' r)).reverse) ++ [k]).contains k = true := by simp
    have hfT : ∀ x ∈ (bs ++ (brKeys (k + t.size) (Kids.cons o' t' r)).reverse) ++ [k], x ≤ k ∨ k + t.size ≤ x := by
      intro x hx
      rcases List.mem_append.mp hx with hx | hx
      · rcases List.mem_append.mp hx with hx | hx
        · have := hfresh x hx
          simp only [Kids.size] at this
          omega
        · have := kidKeys_range _ _ _ (brKeys_sub _ _ _ (List.mem_reverse.mp hx))
          omega
      · simp only [List.mem_singleton] at hx; omega
    have hT' := loop_T t k acc (base ++ (kidKeys (k + t.size) (Kids.cons o' t' r)).reverse)
      ((bs ++ (brKeys (k + t.size) (Kids.cons o' t' r)).reverse) ++ [k]) d (symText o) (fuel + (Kids.cons o' t' r).size) hT hsym hfT
    have hfR : ∀ x ∈ bs, x < k + t.size ∨ k + t.size + (Kids.cons o' t' r).size ≤ x := by
      intro x hx
      have := hfresh x hx
      simp only [Kids.size] at this ⊢
      omega
    have hR' := loop_K (Kids.cons o' t' r) p (k + t.size)
      (acc ++ symText o ++ ['('] ++ t.text ++ closeText (d + 1)) base bs d fuel (by simp) hR hfR
    rw [hstack, hbr]
    rw [show fuel + (Kids.cons o t (Kids.cons o' t' r)).size = (fuel + (Kids.cons o' t' r).size) + t.size from by
      simp only [Kids.size]; omega]
    rw [hT']
    simp only [hcont, if_true, Nat.add_sub_cancel]
    have herase : ((bs ++ (brKeys (k + t.size) (Kids.cons o' t' r)).reverse) ++ [k]).erase k =
        bs ++ (brKeys (k + t.size) (Kids.cons o' t' r)).reverse := by
      apply erase_last
      intro hm
      rcases List.mem_append.mp hm with hm | hm
      · exact hkn hm
      · exact hkb hm
    rw [herase, hR']
    congr 1
    simp [Kids.text, closeText]
end

end CGV.C07
