/-
  C07 for trees: the writer model on any tree-shaped graph (any branching, any depth, any bond orders)
  produces exactly the nested text of the tree — branches in parentheses with the bond symbol in
  front of the parenthesis, the last child continuing the chain.
-/
import CGV.Props.C07Path
import CGV.Props.C04Tree
namespace CGV.C07
open CGV Gen C04
set_option linter.unusedSimpArgs false

mutual
/-- a rooted tree; `kids` in the order the writer visits them: branches first, the chain's continuation last -/
inductive RT where
  | node (name : Str) (kids : Kids) : RT
inductive Kids where
  | nil : Kids
  | cons (order : Nat) (t : RT) (rest : Kids) : Kids
end

mutual
def RT.size : RT → Nat
  | .node _ ks => 1 + ks.size
def Kids.size : Kids → Nat
  | .nil => 0
  | .cons _ t r => t.size + r.size
end

mutual
/-- the text the writer is to produce for a (sub)tree, without the symbol of the bond leading to it -/
def RT.text : RT → Str
  | .node nm ks => nodeText nm ++ ks.text
def Kids.text : Kids → Str
  | .nil => []
  | .cons o t .nil => symText o ++ t.text
  | .cons o t (.cons o' t' r) => symText o ++ ['('] ++ t.text ++ [')'] ++ (Kids.cons o' t' r).text
end

/-- keys of the kids' roots when the first kid gets key `k` (pre-order numbering in visiting order) -/
def kidKeys (k : Nat) : Kids → List Nat
  | .nil => []
  | .cons _ t r => k :: kidKeys (k + t.size) r

mutual
/-- the graph `g` (with predecessor table `pred`) contains the tree with root key `k` -/
def EmbT (g : WGraph) (pred : List (Nat × Nat)) (k : Nat) : RT → Prop
  | .node nm ks => g.node? k = some ⟨k, nodeText nm, [], false⟩ ∧
      g.succ.lookup k = (match kidKeys (k + 1) ks with
                         | [] => none
                         | l => some l.reverse) ∧ EmbK g pred k (k + 1) ks
def EmbK (g : WGraph) (pred : List (Nat × Nat)) (p : Nat) (k : Nat) : Kids → Prop
  | .nil => True
  | .cons o t r => pred.lookup k = some p ∧ edgeSymbol g p k = .ok (symText o) ∧ EmbT g pred k t ∧ EmbK g pred p (k + t.size) r
end

/-- the state after the loop body has run on node `k` (text `nm`, successors `next`) -/
def afterNode (acc : Str) (base : List Nat) (bs : List Nat) (d : Nat) (k : Nat) (sym nm : Str) (next : Option (List Nat)) : WState :=
  let isB := bs.contains k
  let d1 := if isB then d + 1 else d
  let bs1 := if isB then bs.erase k else bs
  let out1 := acc ++ sym ++ (if isB then ['('] else []) ++ nm
  match next with
  | some nx => ⟨out1, base ++ nx, bs1 ++ (nx.drop 1).filter (fun n => !bs1.contains n), d1, []⟩
  | none => if d1 > 0 then ⟨out1 ++ [')'], base, bs1, d1 - 1, []⟩ else ⟨out1, base, bs1, d1, []⟩

theorem writeStep_node (g : WGraph) (pred : List (Nat × Nat)) (hr : g.ringEdges = []) (hf : g.smilesFormat = false)
    (acc : Str) (base bs : List Nat) (d k : Nat) (sym nm : Str) (next : Option (List Nat))
    (hnode : g.node? k = some ⟨k, nm, [], false⟩) (hsucc : g.succ.lookup k = next)
    (hsym : (match pred.lookup k with
             | some previous => edgeSymbol g previous k
             | none => pure []) = .ok sym) :
    writeStep g pred ⟨acc, base ++ [k], bs, d, []⟩ = .ok (afterNode acc base bs d k sym nm next) := by
  have hring : ringIdxsOf g k = [] := by simp [ringIdxsOf, hr]
  unfold writeStep afterNode
  simp only [List.getLast?_append, List.getLast?_singleton, Option.some_or, List.dropLast_concat, hnode, hring, hsucc, hf,
    bind, Except.bind, pure, Except.pure, Bool.false_eq_true, if_false, List.isEmpty_nil, if_true, List.foldlM_nil,
    List.filter_nil, List.append_nil, List.flatMap_nil]
  cases hl : pred.lookup k with
  | none =>
    rw [hl] at hsym
    simp only [pure, Except.pure, Except.ok.injEq] at hsym
    subst hsym
    cases hb : bs.contains k <;> cases next <;> simp [hb]
    all_goals (split <;> simp_all)
  | some previous =>
    rw [hl] at hsym
    simp only at hsym
    cases hb : bs.contains k <;> cases next <;> simp [hb, hsym]
    all_goals (split <;> simp_all)

/-! ### bookkeeping of keys -/

theorem RT.size_pos (t : RT) : 1 ≤ t.size := by cases t; simp [RT.size] <;> omega

theorem kidKeys_range : ∀ (ks : Kids) (k x : Nat), x ∈ kidKeys k ks → k ≤ x ∧ x < k + ks.size
  | .nil, k, x, h => by simp [kidKeys] at h
  | .cons o t r, k, x, h => by
    simp only [kidKeys, List.mem_cons] at h
    have hp := RT.size_pos t
    simp only [Kids.size]
    rcases h with rfl | h
    · omega
    · have := kidKeys_range r (k + t.size) x h
      omega

theorem kidKeys_nil_iff (ks : Kids) (k : Nat) : kidKeys k ks = [] ↔ ks = .nil := by
  cases ks <;> simp [kidKeys]

/-- all kids but the last: the ones written in parentheses -/
def brKeys (k : Nat) (ks : Kids) : List Nat := (kidKeys k ks).dropLast

theorem drop_one_reverse : ∀ (l : List Nat), l.reverse.drop 1 = l.dropLast.reverse
  | [] => rfl
  | [x] => by simp
  | x :: y :: ys => by
    have ih := drop_one_reverse (y :: ys)
    have hlen : 1 ≤ (y :: ys).reverse.length := by simp
    rw [List.reverse_cons, List.drop_append_of_le_length hlen, ih, List.dropLast_cons₂, List.reverse_cons]

def closeText (d : Nat) : Str := if d > 0 then [')'] else []

theorem filter_fresh (bs l : List Nat) (h : ∀ x ∈ l, x ∉ bs) : l.filter (fun n => !bs.contains n) = l := by
  rw [List.filter_eq_self]
  intro x hx
  simpa using h x hx

/-! ### the loop on a subtree -/

/-- the symbol of the bond that leads to node `k` -/
def SymAt (g : WGraph) (pred : List (Nat × Nat)) (k : Nat) (sym : Str) : Prop :=
  (match pred.lookup k with
   | some previous => edgeSymbol g previous k
   | none => pure []) = .ok sym

theorem erase_last (l : List Nat) (k : Nat) (h : k ∉ l) : (l ++ [k]).erase k = l := by
  induction l with
  | nil => simp
  | cons x xs ih =>
    have hx : x ≠ k := fun e => h (by rw [e]; exact List.mem_cons_self)
    have hxs : k ∉ xs := fun e => h (List.mem_cons_of_mem _ e)
    have hb : (x == k) = false := by simpa using hx
    simp only [List.cons_append, List.erase_cons, hb]
    rw [ih hxs]
    rfl

theorem erase_not_mem (l : List Nat) (k : Nat) (h : k ∉ l) : l.erase k = l := List.erase_of_not_mem h

theorem mem_erase_sub (l : List Nat) (k x : Nat) (h : x ∈ l.erase k) : x ∈ l := List.mem_of_mem_erase h

theorem brKeys_sub (k : Nat) (ks : Kids) (x : Nat) (h : x ∈ brKeys k ks) : x ∈ kidKeys k ks := by
  unfold brKeys at h
  rw [List.dropLast_eq_take] at h
  exact List.mem_of_mem_take h

theorem kidKeys_cons (k o : Nat) (t : RT) (r : Kids) : kidKeys k (.cons o t r) = k :: kidKeys (k + t.size) r := rfl

theorem brKeys_single (k o : Nat) (t : RT) : brKeys k (.cons o t .nil) = [] := by simp [brKeys, kidKeys]

theorem brKeys_cons (k o o' : Nat) (t t' : RT) (r : Kids) :
    brKeys k (.cons o t (.cons o' t' r)) = k :: brKeys (k + t.size) (.cons o' t' r) := by
  simp [brKeys, kidKeys]

variable (g : WGraph) (pred : List (Nat × Nat))

mutual
/-- the loop started on the root of a contained subtree writes the subtree's text (in parentheses
    if the root is a pending branch), closes the innermost open parenthesis at the end of the
    subtree's chain, and leaves the rest of the stack untouched -/
theorem loop_T (hr : g.ringEdges = []) (hf : g.smilesFormat = false) : ∀ (T : RT) (k : Nat) (acc : Str) (base bs : List Nat) (d : Nat) (sym : Str) (fuel : Nat),
    EmbT g pred k T → SymAt g pred k sym → (∀ x ∈ bs, x ≤ k ∨ k + T.size ≤ x) →
    writeLoop g pred (fuel + T.size) ⟨acc, base ++ [k], bs, d, []⟩ =
      writeLoop g pred fuel
        ⟨acc ++ sym ++ (if bs.contains k then ['('] else []) ++ T.text ++ closeText (if bs.contains k then d + 1 else d),
         base, bs.erase k, (if bs.contains k then d + 1 else d) - 1, []⟩
  | .node nm ks, k, acc, base, bs, d, sym, fuel, hemb, hsym, hfresh => by
    unfold EmbT at hemb
    obtain ⟨hnode, hsucc, hkids⟩ := hemb
    have hstep := writeStep_node g pred hr hf acc base bs d k sym (nodeText nm) _ hnode hsucc hsym
    rw [show fuel + (RT.node nm ks).size = (fuel + ks.size) + 1 from by simp [RT.size]; omega]
    rw [writeLoop]
    have hne : (base ++ [k]).isEmpty = false := by simp
    simp only [hne, Bool.false_eq_true, if_false, hstep, bind, Except.bind]
    cases ks with
    | nil =>
      simp only [kidKeys, afterNode, Kids.size, Nat.add_zero, RT.text, Kids.text, List.append_nil, closeText]
      cases hb : bs.contains k
      · have hkn : k ∉ bs := by simpa using hb
        simp only [hb, Bool.false_eq_true, if_false, erase_not_mem bs k hkn, List.append_nil]
        split <;> simp_all
      · simp only [if_true, Nat.add_sub_cancel, show d + 1 > 0 from Nat.succ_pos d]
    | cons o t r =>
      have hkk : kidKeys (k + 1) (Kids.cons o t r) = (k + 1) :: kidKeys (k + 1 + t.size) r := rfl
      simp only [hkk, afterNode]
      -- the branches pushed: all kids but the last, none of them pending already
      have hdrop : (((k + 1) :: kidKeys (k + 1 + t.size) r).reverse).drop 1 = (brKeys (k + 1) (Kids.cons o t r)).reverse := by
        rw [drop_one_reverse]; rfl
      have hbs1 : ∀ x ∈ (if bs.contains k then bs.erase k else bs), x < k + 1 ∨ k + 1 + (Kids.cons o t r).size ≤ x := by
        intro x hx
        have hx' : x ∈ bs := by
          split at hx
          · exact mem_erase_sub _ _ _ hx
          · exact hx
        have := hfresh x hx'
        simp only [RT.size] at this
        omega
      have hfilter : (brKeys (k + 1) (Kids.cons o t r)).reverse.filter
          (fun n => !(if bs.contains k then bs.erase k else bs).contains n) = (brKeys (k + 1) (Kids.cons o t r)).reverse := by
        apply filter_fresh
        intro x hx hmem
        have hx' := kidKeys_range _ _ _ (brKeys_sub _ _ _ (List.mem_reverse.mp hx))
        have := hbs1 x hmem
        omega
      rw [hdrop, hfilter]
      have hK := loop_K hr hf (Kids.cons o t r) k (k + 1)
        (acc ++ sym ++ (if bs.contains k then ['('] else []) ++ nodeText nm) base
        (if bs.contains k then bs.erase k else bs) (if bs.contains k then d + 1 else d) fuel (by simp) hkids hbs1
      rw [hkk] at hK
      rw [hK]
      congr 1
      cases hb : bs.contains k
      · simp [hb, RT.text, erase_not_mem bs k (by simpa using hb)]
      · simp [hb, RT.text]
/-- … and started on the pending kids of a node it writes them one after the other: every kid but
    the last in parentheses, the last as the continuation of the chain -/
theorem loop_K (hr : g.ringEdges = []) (hf : g.smilesFormat = false) : ∀ (ks : Kids) (p k : Nat) (acc : Str) (base bs : List Nat) (d : Nat) (fuel : Nat), ks ≠ .nil →
    EmbK g pred p k ks → (∀ x ∈ bs, x < k ∨ k + ks.size ≤ x) →
    writeLoop g pred (fuel + ks.size) ⟨acc, base ++ (kidKeys k ks).reverse, bs ++ (brKeys k ks).reverse, d, []⟩ =
      writeLoop g pred fuel ⟨acc ++ ks.text ++ closeText d, base, bs, d - 1, []⟩
  | .nil, _, _, _, _, _, _, _, hne, _, _ => absurd rfl hne
  | .cons o t .nil, p, k, acc, base, bs, d, fuel, _, hemb, hfresh => by
    unfold EmbK at hemb
    obtain ⟨hpred, hes, hT, _⟩ := hemb
    have hsym : SymAt g pred k (symText o) := by unfold SymAt; rw [hpred]; exact hes
    have hkn : k ∉ bs := by
      intro hm
      have := hfresh k hm
      have hp := RT.size_pos t
      simp only [Kids.size] at this
      omega
    have hcont : bs.contains k = false := by simpa using hkn
    have hfT : ∀ x ∈ bs, x ≤ k ∨ k + t.size ≤ x := by
      intro x hx
      have := hfresh x hx
      simp only [Kids.size] at this
      omega
    have hT' := loop_T hr hf t k acc base bs d (symText o) fuel hT hsym hfT
    simp only [kidKeys, List.reverse_cons, List.reverse_nil, List.nil_append, brKeys_single, List.append_nil, Kids.size,
      Nat.add_zero, Kids.text]
    rw [hT']
    simp [hcont, hkn, erase_not_mem bs k hkn]
  | .cons o t (.cons o' t' r), p, k, acc, base, bs, d, fuel, _, hemb, hfresh => by
    unfold EmbK at hemb
    obtain ⟨hpred, hes, hT, hR⟩ := hemb
    have hsym : SymAt g pred k (symText o) := by unfold SymAt; rw [hpred]; exact hes
    have hp := RT.size_pos t
    have hkn : k ∉ bs := by
      intro hm
      have := hfresh k hm
      simp only [Kids.size] at this
      omega
    have hkb : k ∉ (brKeys (k + t.size) (Kids.cons o' t' r)).reverse := by
      intro hm
      have := kidKeys_range _ _ _ (brKeys_sub _ _ _ (List.mem_reverse.mp hm))
      omega
    -- the state in the shape loop_T expects
    have hstack : base ++ (kidKeys k (Kids.cons o t (Kids.cons o' t' r))).reverse =
        (base ++ (kidKeys (k + t.size) (Kids.cons o' t' r)).reverse) ++ [k] := by
      rw [kidKeys_cons, List.reverse_cons, List.append_assoc]
    have hbr : bs ++ (brKeys k (Kids.cons o t (Kids.cons o' t' r))).reverse =
        (bs ++ (brKeys (k + t.size) (Kids.cons o' t' r)).reverse) ++ [k] := by
      rw [brKeys_cons, List.reverse_cons, List.append_assoc]
    have hcont : ((bs ++ (brKeys (k + t.size) (Kids.cons o' t' r)).reverse) ++ [k]).contains k = true := by simp
    have hfT : ∀ x ∈ (bs ++ (brKeys (k + t.size) (Kids.cons o' t' r)).reverse) ++ [k], x ≤ k ∨ k + t.size ≤ x := by
      intro x hx
      rcases List.mem_append.mp hx with hx | hx
      · rcases List.mem_append.mp hx with hx | hx
        · have := hfresh x hx
          simp only [Kids.size] at this
          omega
        · have := kidKeys_range _ _ _ (brKeys_sub _ _ _ (List.mem_reverse.mp hx))
          omega
      · simp only [List.mem_singleton] at hx; omega
    have hT' := loop_T hr hf t k acc (base ++ (kidKeys (k + t.size) (Kids.cons o' t' r)).reverse)
      ((bs ++ (brKeys (k + t.size) (Kids.cons o' t' r)).reverse) ++ [k]) d (symText o) (fuel + (Kids.cons o' t' r).size) hT hsym hfT
    have hfR : ∀ x ∈ bs, x < k + t.size ∨ k + t.size + (Kids.cons o' t' r).size ≤ x := by
      intro x hx
      have := hfresh x hx
      simp only [Kids.size] at this ⊢
      omega
    have hR' := loop_K hr hf (Kids.cons o' t' r) p (k + t.size)
      (acc ++ symText o ++ ['('] ++ t.text ++ closeText (d + 1)) base bs d fuel (by simp) hR hfR
    rw [hstack, hbr]
    rw [show fuel + (Kids.cons o t (Kids.cons o' t' r)).size = (fuel + (Kids.cons o' t' r).size) + t.size from by
      simp only [Kids.size]; omega]
    rw [hT']
    simp only [hcont, if_true, Nat.add_sub_cancel]
    have herase : ((bs ++ (brKeys (k + t.size) (Kids.cons o' t' r)).reverse) ++ [k]).erase k =
        bs ++ (brKeys (k + t.size) (Kids.cons o' t' r)).reverse := by
      apply erase_last
      intro hm
      rcases List.mem_append.mp hm with hm | hm
      · exact hkn hm
      · exact hkb hm
    rw [herase, hR']
    congr 1
    simp [Kids.text, closeText]
end

/-! ### the writer on a whole tree -/

/-- **the writer on trees.** If the node table, the successor table (`dfs_successors` from the root,
    numbered in pre-order) and the edge symbols of `g` are those of the tree `T`, the writer produces the
    nested text of `T`: every child but the last in parentheses with its bond symbol in front of the
    parenthesis, the last child continuing the chain — whatever the branching, depth and size. -/
theorem writeGraph_tree (g : WGraph) (T : RT) (hr : g.ringEdges = []) (hf : g.smilesFormat = false)
    (hemb : EmbT g (predOf g) 0 T) (hroot : (predOf g).lookup 0 = none)
    (hmin : ∃ ks, g.nodes.map (·.key) = 0 :: ks) (hlen : g.nodes.length = T.size) :
    writeGraph g = .ok T.text := by
  obtain ⟨ks, hks⟩ := hmin
  unfold writeGraph
  simp only [hks, foldl_min_zero, hlen, bind, Except.bind, pure, Except.pure]
  have hpd : (List.flatMap (fun x => List.map (fun s => (s, x.fst)) x.snd) g.succ) = predOf g := rfl
  rw [hpd]
  have hsym : SymAt g (predOf g) 0 [] := by unfold SymAt; rw [hroot]; rfl
  have h := loop_T g (predOf g) hr hf T 0 [] [] [] 0 [] 1 hemb hsym (by intro x hx; cases hx)
  simp only [List.nil_append, List.contains_nil, Bool.false_eq_true, if_false, List.erase_nil, closeText,
    Nat.lt_irrefl, List.append_nil, Nat.zero_sub] at h
  rw [show T.size + 1 = 1 + T.size from by omega]
  have hst : ({ toVisit := [0] } : WState) = ⟨[], [0], [], 0, []⟩ := rfl
  rw [hst, h]
  simp [writeLoop, pure, Except.pure]

/-! ### the same text as a flat list of items (the reader's grammar) -/

mutual
/-- the items of a subtree: `o` = order of the bond leading to it, `opens` = it is written in
    parentheses, `cl` = a parenthesis has to be closed at the end of its chain -/
def itemsT (o : Nat) (opens cl : Bool) : RT → List TItem
  | .node nm .nil => [⟨nm, o, opens, if cl then 1 else 0⟩]
  | .node nm (.cons o' t r) => ⟨nm, o, opens, 0⟩ :: itemsK cl (.cons o' t r)
def itemsK (cl : Bool) : Kids → List TItem
  | .nil => []
  | .cons o t .nil => itemsT o false cl t
  | .cons o t (.cons o' t' r) => itemsT o true true t ++ itemsK cl (.cons o' t' r)
end

def renderBodyT (its : List TItem) : Str := its.flatMap renderItem

theorem renderItems_body (its : List TItem) : renderItems its = renderBodyT its ++ ['}'] := by
  induction its with
  | nil => rfl
  | cons it r ih => simp [renderItems, renderBodyT, ih] at *

def closeB (cl : Bool) : Str := if cl then [')'] else []

mutual
theorem render_itemsT : ∀ (T : RT) (o : Nat) (opens cl : Bool),
    renderBodyT (itemsT o opens cl T) = symText o ++ openText opens ++ T.text ++ closeB cl
  | .node nm .nil, o, opens, cl => by
    cases cl <;> simp [itemsT, renderBodyT, renderItem, RT.text, Kids.text, closeB]
  | .node nm (.cons o' t r), o, opens, cl => by
    have ih := render_itemsK (.cons o' t r) cl (by simp)
    simp only [itemsT, renderBodyT, List.flatMap_cons, renderItem, List.replicate_zero, List.append_nil, RT.text] at ih ⊢
    rw [ih]
    simp
theorem render_itemsK : ∀ (ks : Kids) (cl : Bool), ks ≠ .nil → renderBodyT (itemsK cl ks) = ks.text ++ closeB cl
  | .nil, _, h => absurd rfl h
  | .cons o t .nil, cl, _ => by
    have ih := render_itemsT t o false cl
    simp only [itemsK, Kids.text]
    rw [ih]
    simp [openText]
  | .cons o t (.cons o' t' r), cl, _ => by
    have ih1 := render_itemsT t o true true
    have ih2 := render_itemsK (.cons o' t' r) cl (by simp)
    simp only [itemsK, Kids.text, renderBodyT, List.flatMap_append] at ih1 ih2 ⊢
    rw [ih1, ih2]
    simp [openText, closeB]
end

mutual
/-- names and bond orders of the documented grammar -/
def OkT : RT → Prop
  | .node nm ks => NameOk nm ∧ OkK ks
def OkK : Kids → Prop
  | .nil => True
  | .cons o t r => o ≤ 4 ∧ OkT t ∧ OkK r
end

mutual
theorem itemsT_ok : ∀ (T : RT) (o : Nat) (opens cl : Bool), o ≤ 4 → OkT T → ∀ it ∈ itemsT o opens cl T, TItemOk it
  | .node nm .nil, o, opens, cl, ho, hT, it, hit => by
    unfold OkT at hT
    simp only [itemsT, List.mem_singleton] at hit
    subst hit
    exact ⟨hT.1, ho⟩
  | .node nm (.cons o' t r), o, opens, cl, ho, hT, it, hit => by
    unfold OkT at hT
    simp only [itemsT, List.mem_cons] at hit
    rcases hit with rfl | hit
    · exact ⟨hT.1, ho⟩
    · exact itemsK_ok (.cons o' t r) cl hT.2 it hit
theorem itemsK_ok : ∀ (ks : Kids) (cl : Bool), OkK ks → ∀ it ∈ itemsK cl ks, TItemOk it
  | .nil, _, _, it, hit => by simp [itemsK] at hit
  | .cons o t .nil, cl, hK, it, hit => by
    unfold OkK at hK
    simp only [itemsK] at hit
    exact itemsT_ok t o false cl hK.1 hK.2.1 it hit
  | .cons o t (.cons o' t' r), cl, hK, it, hit => by
    unfold OkK at hK
    simp only [itemsK, List.mem_append] at hit
    rcases hit with hit | hit
    · exact itemsT_ok t o true true hK.1 hK.2.1 it hit
    · exact itemsK_ok (.cons o' t' r) cl hK.2.2 it hit
end

mutual
theorem itemsT_balanced : ∀ (T : RT) (o : Nat) (opens cl : Bool) (d : Nat) (rest : List TItem),
    (cl = true → 1 ≤ d + (if opens then 1 else 0)) →
    Balanced (d + (if opens then 1 else 0) - (if cl then 1 else 0)) rest →
    Balanced d (itemsT o opens cl T ++ rest)
  | .node nm .nil, o, opens, cl, d, rest, hcl, hrest => by
    simp only [itemsT, List.singleton_append, Balanced]
    refine ⟨?_, hrest⟩
    cases cl
    · simp
    · simpa using hcl rfl
  | .node nm (.cons o' t r), o, opens, cl, d, rest, hcl, hrest => by
    simp only [itemsT, List.cons_append, Balanced, Nat.zero_le, true_and, Nat.sub_zero]
    exact itemsK_balanced (.cons o' t r) cl _ rest (by simp) hcl hrest
theorem itemsK_balanced : ∀ (ks : Kids) (cl : Bool) (d : Nat) (rest : List TItem), ks ≠ .nil →
    (cl = true → 1 ≤ d) → Balanced (d - (if cl then 1 else 0)) rest → Balanced d (itemsK cl ks ++ rest)
  | .nil, _, _, _, h, _, _ => absurd rfl h
  | .cons o t .nil, cl, d, rest, _, hcl, hrest => by
    simp only [itemsK]
    exact itemsT_balanced t o false cl d rest (by simpa using hcl) (by simpa using hrest)
  | .cons o t (.cons o' t' r), cl, d, rest, _, hcl, hrest => by
    simp only [itemsK, List.append_assoc]
    apply itemsT_balanced t o true true d _ (by intro _; simp)
    simp only [if_true, Nat.add_sub_cancel]
    exact itemsK_balanced (.cons o' t' r) cl d rest (by simp) hcl hrest
end

/-- **C07 for trees.** For every tree — any branching, any depth, alphanumeric names, bond orders 0–4 —
    whose tables `g` holds (see `writeGraph_tree`), the string the writer produces is read back to the
    graph that its nested text denotes: the root followed by the items of the tree in the order written. -/
theorem C07_tree_roundtrip (g : WGraph) (first : Str) (ks : Kids) (hr : g.ringEdges = []) (hf : g.smilesFormat = false)
    (hemb : EmbT g (predOf g) 0 (.node first ks)) (hroot : (predOf g).lookup 0 = none)
    (hmin : ∃ l, g.nodes.map (·.key) = 0 :: l) (hlen : g.nodes.length = (RT.node first ks).size)
    (hok : OkT (.node first ks)) :
    (writeCG g).bind readCG = .ok (treeGraph first (itemsK false ks)) := by
  unfold writeCG
  rw [writeGraph_tree g (.node first ks) hr hf hemb hroot hmin hlen]
  simp only [bind, Except.bind, pure, Except.pure]
  unfold OkT at hok
  have htext : '{' :: ((RT.node first ks).text ++ ['}']) = renderTree first (itemsK false ks) := by
    unfold renderTree
    rw [renderItems_body]
    cases ks with
    | nil => simp [RT.text, Kids.text, itemsK, renderBodyT]
    | cons o t r =>
      rw [render_itemsK (.cons o t r) false (by simp)]
      simp [RT.text, closeB]
  rw [htext]
  apply C04_read_tree first _ hok.1
  · exact itemsK_ok ks false hok.2
  · cases ks with
    | nil => simp [itemsK, Balanced]
    | cons o t r =>
      have := itemsK_balanced (.cons o t r) false 0 [] (by simp) (by intro h; cases h) (by simp [Balanced])
      simpa using this

/-! ### an instance: the hypotheses are satisfiable, the conclusion is what the kernel computes -/

/-- `A =(B (C) D) E` in pre-order: A0, B1, C2, D3, E4 -/
def exTree : RT :=
  .node "A".toList (.cons 2 (.node "B".toList (.cons 1 (.node "C".toList .nil) (.cons 3 (.node "D".toList .nil) .nil)))
                    (.cons 1 (.node "E".toList .nil) .nil))

def exGraph : WGraph :=
  { nodes := [⟨0, "[#A]".toList, [], false⟩, ⟨1, "[#B]".toList, [], false⟩, ⟨2, "[#C]".toList, [], false⟩,
              ⟨3, "[#D]".toList, [], false⟩, ⟨4, "[#E]".toList, [], false⟩],
    edges := [⟨0, 1, 4⟩, ⟨1, 2, 2⟩, ⟨1, 3, 6⟩, ⟨0, 4, 2⟩],
    succ := [(0, [4, 1]), (1, [3, 2])], ringEdges := [], smilesFormat := false }

example : exTree.text = "[#A]=([#B]([#C])#[#D])[#E]".toList := by decide +kernel

theorem exGraph_emb : EmbT exGraph (predOf exGraph) 0 exTree := by
  unfold exTree
  simp only [EmbT, EmbK, kidKeys, RT.size, Kids.size]
  refine ⟨by rfl, by rfl, ⟨by rfl, by decide +kernel, ⟨by rfl, by rfl, ⟨by rfl, by decide +kernel, ⟨by rfl, by rfl, trivial⟩,
    ⟨by rfl, by decide +kernel, ⟨by rfl, by rfl, trivial⟩, trivial⟩⟩⟩, ⟨by rfl, by decide +kernel, ⟨by rfl, by rfl, trivial⟩, trivial⟩⟩⟩

example : writeGraph exGraph = .ok "[#A]=([#B]([#C])#[#D])[#E]".toList := by
  have := writeGraph_tree exGraph exTree rfl rfl exGraph_emb (by rfl) ⟨_, rfl⟩ (by rfl)
  rw [this]; decide +kernel

end CGV.C07
