/-
  C07 for trees: the writer model on any tree-shaped graph (any branching, any depth, any bond orders)
  produces exactly the nested text of the tree — branches in parentheses with the bond symbol in
  front of the parenthesis, the last child continuing the chain.
-/
import CGV.Props.C07Path
namespace CGV.C07
open CGV Gen C04
set_option linter.unusedSimpArgs false

mutual
/-- a rooted tree; `kids` in the order the writer visits them: branches first, the chain's continuation last -/
inductive RT where
  | node (name : Str) (kids : Kids) : RT
inductive Kids where
  | nil : Kids
  | cons (order : Nat) (t : RT) (rest : Kids) : Kids
end

mutual
def RT.size : RT → Nat
  | .node _ ks => 1 + ks.size
def Kids.size : Kids → Nat
  | .nil => 0
  | .cons _ t r => t.size + r.size
end

mutual
/-- the text the writer is to produce for a (sub)tree, without the symbol of the bond leading to it -/
def RT.text : RT → Str
  | .node nm ks => nodeText nm ++ ks.text
def Kids.text : Kids → Str
  | .nil => []
  | .cons o t .nil => symText o ++ t.text
  | .cons o t (.cons o' t' r) => symText o ++ ['('] ++ t.text ++ [')'] ++ (Kids.cons o' t' r).text
end

/-- keys of the kids' roots when the first kid gets key `k` (pre-order numbering in visiting order) -/
def kidKeys (k : Nat) : Kids → List Nat
  | .nil => []
  | .cons _ t r => k :: kidKeys (k + t.size) r

mutual
/-- the graph `g` (with predecessor table `pred`) contains the tree with root key `k` -/
def EmbT (g : WGraph) (pred : List (Nat × Nat)) (k : Nat) : RT → Prop
  | .node nm ks => g.node? k = some ⟨k, nodeText nm, [], false⟩ ∧
      g.succ.lookup k = (match kidKeys (k + 1) ks with
                         | [] => none
                         | l => some l.reverse) ∧ EmbK g pred k (k + 1) ks
def EmbK (g : WGraph) (pred : List (Nat × Nat)) (p : Nat) (k : Nat) : Kids → Prop
  | .nil => True
  | .cons o t r => pred.lookup k = some p ∧ edgeSymbol g p k = .ok (symText o) ∧ EmbT g pred k t ∧ EmbK g pred p (k + t.size) r
end

/-- the state after the loop body has run on node `k` (text `nm`, successors `next`) -/
def afterNode (acc : Str) (base : List Nat) (bs : List Nat) (d : Nat) (k : Nat) (sym nm : Str) (next : Option (List Nat)) : WState :=
  let isB := bs.contains k
  let d1 := if isB then d + 1 else d
  let bs1 := if isB then bs.erase k else bs
  let out1 := acc ++ sym ++ (if isB then ['('] else []) ++ nm
  match next with
  | some nx => ⟨out1, base ++ nx, bs1 ++ (nx.drop 1).filter (fun n => !bs1.contains n), d1, []⟩
  | none => if d1 > 0 then ⟨out1 ++ [')'], base, bs1, d1 - 1, []⟩ else ⟨out1, base, bs1, d1, []⟩

theorem writeStep_node (g : WGraph) (pred : List (Nat × Nat)) (hr : g.ringEdges = []) (hf : g.smilesFormat = false)
    (acc : Str) (base bs : List Nat) (d k : Nat) (sym nm : Str) (next : Option (List Nat))
    (hnode : g.node? k = some ⟨k, nm, [], false⟩) (hsucc : g.succ.lookup k = next)
    (hsym : (match pred.lookup k with
             | some previous => edgeSymbol g previous k
             | none => pure []) = .ok sym) :
    writeStep g pred ⟨acc, base ++ [k], bs, d, []⟩ = .ok (afterNode acc base bs d k sym nm next) := by
  have hring : ringIdxsOf g k = [] := by simp [ringIdxsOf, hr]
  unfold writeStep afterNode
  simp only [List.getLast?_append, List.getLast?_singleton, Option.some_or, List.dropLast_concat, hnode, hring, hsucc, hf,
    bind, Except.bind, pure, Except.pure, Bool.false_eq_true, if_false, List.isEmpty_nil, if_true, List.foldlM_nil,
    List.filter_nil, List.append_nil, List.flatMap_nil]
  cases hl : pred.lookup k with
  | none =>
    rw [hl] at hsym
    simp only [pure, Except.pure, Except.ok.injEq] at hsym
    subst hsym
    cases hb : bs.contains k <;> cases next <;> simp [hb]
    all_goals (split <;> simp_all)
  | some previous =>
    rw [hl] at hsym
    simp only at hsym
    cases hb : bs.contains k <;> cases next <;> simp [hb, hsym]
    all_goals (split <;> simp_all)

/-! ### bookkeeping of keys -/

theorem RT.size_pos (t : RT) : 1 ≤ t.size := by cases t; simp [RT.size]; omega

theorem kidKeys_range : ∀ (ks : Kids) (k x : Nat), x ∈ kidKeys k ks → k ≤ x ∧ x < k + ks.size
  | .nil, k, x, h => by simp [kidKeys] at h
  | .cons o t r, k, x, h => by
    simp only [kidKeys, List.mem_cons] at h
    have hp := RT.size_pos t
    simp only [Kids.size]
    rcases h with rfl | h
    · omega
    · have := kidKeys_range r (k + t.size) x h
      omega

theorem kidKeys_nil_iff (ks : Kids) (k : Nat) : kidKeys k ks = [] ↔ ks = .nil := by
  cases ks <;> simp [kidKeys]

/-- all kids but the last: the ones written in parentheses -/
def brKeys (k : Nat) (ks : Kids) : List Nat := (kidKeys k ks).dropLast

theorem drop_one_reverse (l : List Nat) : l.reverse.drop 1 = l.dropLast.reverse := by
  induction l with
  | nil => rfl
  | cons x xs ih =>
    cases xs with
    | nil => simp
    | cons y ys =>
      rw [List.dropLast_cons_of_ne_nil (by simp), List.reverse_cons, List.reverse_cons x]
      rw [List.drop_append_of_le_length (by simp), ih]

def closeText (d : Nat) : Str := if d > 0 then [')'] else []

theorem filter_fresh (bs l : List Nat) (h : ∀ x ∈ l, x ∉ bs) : l.filter (fun n => !bs.contains n) = l := by
  rw [List.filter_eq_self]
  intro x hx
  simpa using h x hx

end CGV.C07
