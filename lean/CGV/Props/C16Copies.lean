/-
  C16, every copy in every run: what a growth step adds — the copy of the chosen template and the one bond
  that attaches it — stays in the molecule, unchanged and in place, through all later growth steps.  Later
  steps only append atoms and bonds and consume open descriptors; they never touch an atom's other
  attributes or a bond that is there.
-/
import CGV.Props.C16Run
namespace CGV.C16
open CGV Mol C10

/-- an atom without its open descriptors (growth consumes them) -/
def nb (a : Atom) : Atom := { a with bonding := [] }

/-- `m'` extends `m`: the atoms of `m` are the first atoms of `m'`, unchanged up to their open descriptors;
    the bonds of `m` are the first bonds of `m'`, unchanged -/
def Extends (m m' : Mol) : Prop :=
  (m'.atoms.take m.atoms.length).map nb = m.atoms.map nb ∧ m'.edges.take m.edges.length = m.edges

theorem Extends.refl (m : Mol) : Extends m m := by simp [Extends]

theorem Extends.atoms_le {m m' : Mol} (h : Extends m m') : m.atoms.length ≤ m'.atoms.length := by
  have := congrArg List.length h.1
  simp only [List.length_map, List.length_take] at this
  omega

theorem Extends.edges_le {m m' : Mol} (h : Extends m m') : m.edges.length ≤ m'.edges.length := by
  have := congrArg List.length h.2
  simp only [List.length_take] at this
  omega

theorem Extends.trans {a b c : Mol} (hab : Extends a b) (hbc : Extends b c) : Extends a c := by
  have h1 := hab.atoms_le
  have h2 := hab.edges_le
  constructor
  · have : c.atoms.take a.atoms.length = (c.atoms.take b.atoms.length).take a.atoms.length := by
      rw [List.take_take, Nat.min_eq_left h1]
    rw [this, List.map_take, hbc.1, ← List.map_take, hab.1]
  · have : c.edges.take a.edges.length = (c.edges.take b.edges.length).take a.edges.length := by
      rw [List.take_take, Nat.min_eq_left h2]
    rw [this, hbc.2, hab.2]

theorem updAtom_nb (m : Mol) (k : Key) (g : Atom → List Desc) :
    (m.updAtom k fun a => { a with bonding := g a }).atoms.map nb = m.atoms.map nb := by
  simp only [Mol.updAtom, List.map_map]
  apply List.map_congr_left
  intro a _
  simp only [Function.comp]
  split <;> rfl

/-- the atoms after a growth step: the old atoms and the copy, up to open descriptors -/
theorem attach_atoms_nb (cfg : SamplerCfg) (mol : Mol) (bonding partner : Desc) (source tnode : Key) (tmpl : Mol) (o : Nat) :
    (attach cfg mol bonding partner source tnode tmpl o).1.atoms.map nb = (mergeRunning mol tmpl).1.atoms.map nb := by
  unfold attach
  simp only
  split <;> (rw [updAtom_nb, updAtom_nb, updAtom_nb, addEdge_atoms])

theorem attach_extends (cfg : SamplerCfg) (mol : Mol) (bonding partner : Desc) (source tnode : Key) (tmpl : Mol) (o : Nat)
    (hnd : tmpl.keys.Nodup) (hct : Closed tmpl) (hc : Closed mol) (hs : source ∈ mol.keys) (ht : tnode ∈ tmpl.keys) :
    Extends mol (attach cfg mol bonding partner source tnode tmpl o).1 := by
  constructor
  · have := attach_atoms_nb cfg mol bonding partner source tnode tmpl o
    rw [List.map_take, this, ← List.map_take, (C16_copy mol tmpl).1]
  · obtain ⟨r, hr, _⟩ := C16_step_tree cfg mol bonding partner source tnode tmpl o hnd hct hc hs ht
    rw [hr, List.append_assoc, List.take_left']
    rfl

/-- a run of the growth loop: zero or more growth steps -/
inductive Run (cfg : SamplerCfg) : Mol → Mol → Prop
  | done (m : Mol) : Run cfg m m
  | step (m : Mol) (rng rest : List Nat) (out : GrowOut) (fin : Mol) :
      addFragment cfg m rng = .ok (out, rest) → Run cfg out.mol fin → Run cfg m fin

theorem grow_run (cfg : SamplerCfg) (target : Int × Nat) :
    ∀ (fuel : Nat) (mol : Mol) (cur : Int × Nat) (rng : List Nat) (log : List GrowStep) (res : Mol × List GrowStep × List Nat),
      grow cfg target fuel mol cur rng log = .ok res → Run cfg mol res.1 := by
  intro fuel
  induction fuel with
  | zero =>
    intro mol cur rng log res h
    simp only [grow, pure, Except.pure, Except.ok.injEq] at h
    subst h; exact .done _
  | succ f ih =>
    intro mol cur rng log res h
    simp only [grow] at h
    split at h
    · simp only [bind, Except.bind] at h
      split at h
      · cases h
      rename_i r hr
      obtain ⟨out, rest⟩ := r
      simp only at h
      split at h
      · cases h
      exact .step mol rng rest out res.1 hr (ih _ _ _ _ _ h)
    · simp only [pure, Except.pure, Except.ok.injEq] at h
      subst h; exact .done _

theorem run_inv (cfg : SamplerCfg) (hw : CfgWF cfg) {m fin : Mol} (h : Run cfg m fin) (inv : RunInv m) : RunInv fin := by
  induction h with
  | done m => exact inv
  | step m rng rest out fin hstep _ ih => exact ih (addFragment_inv cfg hw m rng rest out inv hstep)

theorem step_extends (cfg : SamplerCfg) (hw : CfgWF cfg) (m : Mol) (rng rest : List Nat) (out : GrowOut) (inv : RunInv m)
    (h : addFragment cfg m rng = .ok (out, rest)) : Extends m out.mol := by
  obtain ⟨tnode, tmpl, o, hmem, hs, ht, hm, _, _⟩ := addFragment_spec cfg hw m rng rest out h
  obtain ⟨hnd, hct⟩ := hw.frags _ hmem
  rw [hm]
  exact attach_extends cfg m out.site out.partner out.source tnode tmpl o hnd hct inv.closed hs ht

/-- later growth never changes what is there -/
theorem run_extends (cfg : SamplerCfg) (hw : CfgWF cfg) {m fin : Mol} (h : Run cfg m fin) (inv : RunInv m) : Extends m fin := by
  induction h with
  | done m => exact Extends.refl m
  | step m rng rest out fin hstep _ ih =>
    exact (step_extends cfg hw m rng rest out inv hstep).trans (ih (addFragment_inv cfg hw m rng rest out inv hstep))

/-- an atom as the template describes it: its key, membership index and open descriptors are the copy's own -/
def bare (a : Atom) : Atom := { a with key := 0, fragid := [], bonding := [] }

theorem bare_nb (a : Atom) : bare (nb a) = bare a := rfl

theorem map_bare_of_nb {l l' : List Atom} (h : l.map nb = l'.map nb) : l.map bare = l'.map bare := by
  have e : (bare ∘ nb) = bare := by funext a; rfl
  have := congrArg (List.map bare) h
  simpa only [List.map_map, e] using this

theorem map_bare_of_kf {l l' : List Atom}
    (h : l.map (fun a => { a with key := 0, fragid := [] }) = l'.map (fun a => { a with key := 0, fragid := [] })) :
    l.map bare = l'.map bare := by
  have e : (nb ∘ fun a : Atom => { a with key := 0, fragid := [] }) = bare := by funext a; rfl
  have := congrArg (List.map nb) h
  simpa only [List.map_map, e] using this

/-- **C16, every copy of every run.**  Take any growth step of a run — the molecule `m` before it, the step's
    outcome `out` — and any molecule `fin` the run reaches afterwards.  In `fin`, directly behind the atoms
    `m` had, stand the atoms of the chosen template, attribute for attribute (keys, membership index and
    consumed descriptors aside); directly behind the bonds `m` had stand the bonds of the copy, as the step
    made them, followed by the one bond that attaches the copy: from an atom of `m` to the copy of the chosen
    template atom, with the order of the site descriptor and the descriptor pair. -/
theorem C16_every_copy (cfg : SamplerCfg) (hw : CfgWF cfg) (m0 m fin : Mol) (rng rest : List Nat) (out : GrowOut)
    (inv0 : RunInv m0) (hpre : Run cfg m0 m) (hstep : addFragment cfg m rng = .ok (out, rest)) (hpost : Run cfg out.mol fin) :
    ∃ tnode tmpl o r, (out.fragname, tmpl) ∈ cfg.frags ∧ tnode ∈ tmpl.keys ∧ out.source ∈ m.keys ∧
      descOrder out.site = .ok o ∧
      ((fin.atoms.drop m.atoms.length).take tmpl.atoms.length).map bare = tmpl.atoms.map bare ∧
      (mergeRunning m tmpl).1.edges = m.edges ++ r ∧ (∀ x ∈ r, x.a ∈ newKeys m tmpl ∧ x.b ∈ newKeys m tmpl) ∧
      (fin.edges.drop m.edges.length).take (r.length + 1) =
        r ++ [⟨out.source, nkOf m tmpl tnode, 2 * o, some (out.site, out.partner)⟩] ∧
      nkOf m tmpl tnode ∈ newKeys m tmpl := by
  have inv := run_inv cfg hw hpre inv0
  obtain ⟨tnode, tmpl, o, hmem, hs, ht, hm, _, ho⟩ := addFragment_spec cfg hw m rng rest out hstep
  obtain ⟨hnd, hct⟩ := hw.frags _ hmem
  obtain ⟨r, hr, hrn, htn, _, hmr⟩ := C16_step_tree cfg m out.site out.partner out.source tnode tmpl o hnd hct inv.closed hs ht
  have inv1 : RunInv out.mol := addFragment_inv cfg hw m rng rest out inv hstep
  have hext := run_extends cfg hw hpost inv1
  refine ⟨tnode, tmpl, o, r, hmem, ht, hs, ho, ?_, hmr, hrn, ?_, htn⟩
  · -- atoms: fin's first |out.mol| atoms are out.mol's (up to descriptors); out.mol's are m's ++ the copy
    have hlen : out.mol.atoms.length = m.atoms.length + tmpl.atoms.length := by
      have := congrArg List.length (attach_atoms_nb cfg m out.site out.partner out.source tnode tmpl o)
      rw [← hm] at this
      simp only [List.length_map] at this
      rw [this]
      unfold mergeRunning
      simp [foldl_addEdge_atoms]
    have h1 : (fin.atoms.take out.mol.atoms.length).map nb = out.mol.atoms.map nb := hext.1
    have h2 : out.mol.atoms.map nb = (mergeRunning m tmpl).1.atoms.map nb := by
      rw [hm]; exact attach_atoms_nb cfg m out.site out.partner out.source tnode tmpl o
    have h3 := (C16_copy m tmpl).2
    -- drop |m| then take |tmpl| of fin = drop |m| of (take |out.mol| fin)
    have e1 : (fin.atoms.drop m.atoms.length).take tmpl.atoms.length = (fin.atoms.take out.mol.atoms.length).drop m.atoms.length := by
      rw [hlen, List.drop_take]; simp
    rw [e1, List.map_drop, map_bare_of_nb (h1.trans h2), ← List.map_drop]
    exact map_bare_of_kf h3
  · -- bonds
    have hedges : out.mol.edges = m.edges ++ r ++ [⟨out.source, nkOf m tmpl tnode, 2 * o, some (out.site, out.partner)⟩] := by
      rw [hm]; exact hr
    have hl : out.mol.edges.length = m.edges.length + (r.length + 1) := by
      rw [hedges]; simp only [List.length_append, List.length_cons, List.length_nil]; omega
    have e1 : (fin.edges.drop m.edges.length).take (r.length + 1) = (fin.edges.take out.mol.edges.length).drop m.edges.length := by
      rw [hl, List.drop_take]; simp
    rw [e1, hext.2, hedges, List.append_assoc, List.drop_left']
    rfl

/-- the start fragment is a copy as well: the first atoms and bonds of every molecule of the run -/
theorem C16_start_copy (cfg : SamplerCfg) (hw : CfgWF cfg) (name : Str) (tmpl fin : Mol) (hmem : (name, tmpl) ∈ cfg.frags)
    (hrun : Run cfg (mergeRunning {} tmpl).1 fin) :
    (fin.atoms.take tmpl.atoms.length).map bare = tmpl.atoms.map bare ∧
    fin.edges.take (mergeRunning {} tmpl).1.edges.length = (mergeRunning {} tmpl).1.edges := by
  obtain ⟨hnd, hct⟩ := hw.frags _ hmem
  have inv := runInv_start tmpl hnd hct (hw.conn _ hmem)
  have hext := run_extends cfg hw hrun inv
  have hl : (mergeRunning {} tmpl).1.atoms.length = tmpl.atoms.length := by
    unfold mergeRunning; simp [foldl_addEdge_atoms]
  refine ⟨?_, hext.2⟩
  have h1 := hext.1
  rw [hl] at h1
  have h3 := (C16_copy {} tmpl).2
  simp only [List.length_nil, List.drop_zero] at h3
  rw [map_bare_of_nb h1]
  exact map_bare_of_kf h3

/-- the growth loop of `sample` is such a run -/
theorem sampleA_run (cfg : SamplerCfg) (target : Int × Nat) (startDecision : Option Nat) (startName : Option Str)
    (rng : List Nat) (res : Mol × List GrowStep × List Nat)
    (h : sampleA cfg target startDecision startName rng = .ok res) :
    ∃ name tmpl, pyGet cfg.frags name = .ok tmpl ∧ Run cfg (mergeRunning {} tmpl).1 res.1 := by
  have tail : ∀ name : Str, Except.bind (pyGet cfg.frags name)
      (fun tmpl => grow cfg target (rng.length + 1) (mergeRunning {} tmpl).1 (0, 1) rng []) = Except.ok res →
      ∃ name tmpl, pyGet cfg.frags name = .ok tmpl ∧ Run cfg (mergeRunning {} tmpl).1 res.1 := by
    intro name h
    unfold Except.bind at h
    split at h
    · cases h
    rename_i tmpl ht
    exact ⟨name, tmpl, ht, grow_run cfg target _ _ _ _ _ res h⟩
  unfold sampleA at h
  simp only [bind] at h
  cases startName with
  | some n => exact tail n h
  | none =>
    cases startDecision with
    | none => cases h
    | some i =>
      simp only at h
      cases hc : choose (cfg.frags.map (·.1)) [i] with
      | error e => rw [hc] at h; cases h
      | ok r => rw [hc] at h; exact tail r.1 h

end CGV.C16
