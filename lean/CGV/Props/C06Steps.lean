/-
  C06: "the mapping and numbering guarantees hold at every step".  For every list of levels whose
  fragment templates have distinct keys and closed bonds, and an aromaticity correction that only changes
  aromaticity flags and bond orders (the recorded contract of the external pysmiles call): every element
  of `resolve_iter` has fine keys exactly 0 … n-1, every fine node records at least one coarse node and is
  listed under each of them in that step's coarse graph.
-/
import CGV.Props.C06
import CGV.Props.C02Step
namespace CGV.C06
open CGV C10

/-- the external aromaticity correction changes aromaticity flags and bond orders only -/
def AromIsPatch (ext : Ext) : Prop := ∀ m m', ext.arom m = .ok m' → ∃ p, m' = applyArom m p

/-- what one successful step guarantees -/
def StepGuarantees (out : StepOut) : Prop :=
  out.fine.keys.Perm (List.range out.fine.atoms.length) ∧
  ∀ a ∈ out.fine.atoms, a.fragid ≠ [] ∧ ∀ k ∈ a.fragid, ∃ members, (k, members) ∈ out.coarse ∧ a.key ∈ members

theorem step_guarantees (ext : Ext) (harom : AromIsPatch ext) (cp : Desc → Desc → Bool) (lv : Level) (hfd : FragsWF lv.fd)
    (mg : Meta) (out : StepOut) (h : step ext cp lv mg = .ok out) : StepGuarantees out := by
  unfold step at h
  simp only [bind, Except.bind] at h
  split at h
  · simp at h
  rename_i r hA
  obtain ⟨pre, ks⟩ := r
  simp only at h
  cases hall : lv.allAtom with
  | false =>
    rw [hall] at h hA
    simp only [Bool.false_eq_true, if_false, pure, Except.pure] at h
    have hB : phaseB false mg (match (none : Option AromPatch) with | some p => applyArom pre p | none => pre) = .ok out := h
    exact ⟨C12.C12_step_keys cp false mg lv.fd hfd pre ks none out hA hB,
      fun a ha => by
        obtain ⟨h1, _, h3⟩ := C02.C02_step_cover cp false mg lv.fd hfd pre ks none out hA hB a ha
        exact ⟨h1, h3⟩⟩
  | true =>
    rw [hall] at h hA
    simp only [if_true] at h
    split at h
    · simp at h
    rename_i pre' hp
    obtain ⟨p, rfl⟩ := harom pre pre' hp
    have hB : phaseB true mg (match some p with | some p => applyArom pre p | none => pre) = .ok out := h
    exact ⟨C12.C12_step_keys cp true mg lv.fd hfd pre ks (some p) out hA hB,
      fun a ha => by
        obtain ⟨h1, _, h3⟩ := C02.C02_step_cover cp true mg lv.fd hfd pre ks (some p) out hA hB a ha
        exact ⟨h1, h3⟩⟩

/-- **the guarantees hold at every step** of a layered resolution -/
theorem C06_guarantees_every_step (ext : Ext) (harom : AromIsPatch ext) (cp : Desc → Desc → Bool) (lvs : List Level)
    (hfd : ∀ lv ∈ lvs, FragsWF lv.fd) (mg : Meta) (all : List (Meta × StepOut))
    (h : resolveIter ext cp lvs mg = .ok all) : ∀ r ∈ all, StepGuarantees r.2 := by
  obtain ⟨hlen, hstep⟩ := C06_each_is_step ext cp lvs mg all h
  intro r hr
  obtain ⟨i, hi, rfl⟩ := List.getElem_of_mem hr
  have hl : i < lvs.length := by omega
  exact step_guarantees ext harom cp lvs[i] (hfd _ (List.getElem_mem hl)) all[i].1 all[i].2 (hstep i hi hl)

end CGV.C06
