/-
  C09 for every all-atom resolution step the model can take: the valence an atom reaches by hydrogen
  completion is the valence it has in the returned fine graph — the inheritance loop, the renumbering,
  the stereo annotation and the naming change no bond, and the renumbering is injective on the keys.
-/
import CGV.Props.C02Step
namespace CGV.C09
open CGV Mol C10
set_option linter.unusedSimpArgs false

theorem idxOf_inj (l : List Key) (a b : Key) (ha : a ∈ l) (hb : b ∈ l) (h : l.idxOf a = l.idxOf b) : a = b := by
  have h1 := List.idxOf_lt_length_of_mem ha
  have h2 := List.idxOf_lt_length_of_mem hb
  have e1 : l[l.idxOf a] = a := List.getElem_idxOf h1
  have e2 : l[l.idxOf b] = b := List.getElem_idxOf h2
  rw [← e1, ← e2]
  simp only [h]

/-- renumbering keeps the bond-order sum of every atom: the new key of an atom collects exactly the
    bonds its old key had -/
theorem sortNodes_bonds2 (m : Mol) (hc : Closed m) (k : Key) (hk : k ∈ m.keys) :
    (sortNodes m).1.bonds2 ((sortOrder m).idxOf k) = m.bonds2 k := by
  have hperm := sortOrder_perm m
  have hmem : ∀ x, x ∈ m.keys → x ∈ sortOrder m := fun x hx => hperm.symm.subset hx
  unfold Mol.bonds2 sortNodes
  simp only [List.filter_map, List.map_map]
  congr 1
  have : (m.edges.filter ((fun e : Edge => e.a == (sortOrder m).idxOf k || e.b == (sortOrder m).idxOf k) ∘
      fun e => { e with a := (sortOrder m).idxOf e.a, b := (sortOrder m).idxOf e.b })) =
      m.edges.filter fun e => e.a == k || e.b == k := by
    apply List.filter_congr
    intro e he
    obtain ⟨ha, hb⟩ := hc e he
    simp only [Function.comp]
    have h1 : ((sortOrder m).idxOf e.a == (sortOrder m).idxOf k) = (e.a == k) := by
      by_cases h : e.a = k
      · rw [h]; simp
      · have : (sortOrder m).idxOf e.a ≠ (sortOrder m).idxOf k :=
          fun e' => h (idxOf_inj _ _ _ (hmem _ ha) (hmem _ hk) e')
        rw [beq_eq_false_iff_ne.mpr this, beq_eq_false_iff_ne.mpr h]
    have h2 : ((sortOrder m).idxOf e.b == (sortOrder m).idxOf k) = (e.b == k) := by
      by_cases h : e.b = k
      · rw [h]; simp
      · have : (sortOrder m).idxOf e.b ≠ (sortOrder m).idxOf k :=
          fun e' => h (idxOf_inj _ _ _ (hmem _ hb) (hmem _ hk) e')
        rw [beq_eq_false_iff_ne.mpr this, beq_eq_false_iff_ne.mpr h]
    rw [h1, h2]
  rw [this]
  simp [Function.comp]

theorem inheritH_edges (m m' : Mol) (h : inheritH m = .ok m') : m'.edges = m.edges := by
  unfold inheritH at h
  simp only [bind, Except.bind] at h
  split at h
  · simp at h
  · simp only [pure, Except.pure, Except.ok.injEq] at h
    subst h; rfl

theorem annotateEZ_edges (m m' : Mol) (h : annotateEZ m = .ok m') : m'.edges = m.edges := by
  unfold annotateEZ at h
  simp only [bind, Except.bind] at h
  split at h
  · simp at h
  · simp only [pure, Except.pure, Except.ok.injEq] at h
    subst h; rfl

theorem setNames_edges (m : Mol) (mg : Meta) : (setNames m mg).edges = m.edges := by
  unfold setNames
  generalize mg.nodes = ns
  induction ns generalizing m with
  | nil => rfl
  | cons n ns ih =>
    simp only [List.foldl_cons]
    rw [ih]
    generalize (membersOf m n.key).zipIdx = l
    induction l generalizing m with
    | nil => rfl
    | cons p ps ih2 => simp only [List.foldl_cons]; rw [ih2]; rfl

theorem bonds2_of_edges (m m' : Mol) (h : m'.edges = m.edges) (k : Key) : m'.bonds2 k = m.bonds2 k := by
  unfold Mol.bonds2; rw [h]

theorem hStep_closed (m : Mol) (kc : Key × Nat) (hc : Closed m) (hk : kc.1 ∈ m.keys) :
    Closed (hStep m kc) ∧ ∀ k ∈ m.keys, k ∈ (hStep m kc).keys := by
  have hkeys := C12.hStep_keys m kc
  refine ⟨?_, fun k hk' => by rw [hkeys]; exact List.mem_append_left _ hk'⟩
  intro e he
  rw [hkeys]
  unfold hStep at he
  simp only at he
  rcases List.mem_append.mp he with h | h
  · exact ⟨List.mem_append_left _ (hc e h).1, List.mem_append_left _ (hc e h).2⟩
  · obtain ⟨i, hi, rfl⟩ := List.mem_map.mp h
    exact ⟨List.mem_append_left _ hk, List.mem_append_right _ (List.mem_map.mpr ⟨i, hi, rfl⟩)⟩

theorem addHs_closed (m : Mol) (counts : List (Key × Nat)) (hc : Closed m) (hcounts : ∀ kc ∈ counts, kc.1 ∈ m.keys) :
    Closed (addHs m counts) ∧ ∀ k ∈ m.keys, k ∈ (addHs m counts).keys := by
  unfold addHs
  have hkeys : ({ m with atoms := m.atoms.map fun a => { a with hcount2 := 0 } } : Mol).keys = m.keys := by
    unfold Mol.keys; simp [List.map_map, Function.comp]
  have h0 : Closed ({ m with atoms := m.atoms.map fun a => { a with hcount2 := 0 } } : Mol) ∧
      ∀ k ∈ m.keys, k ∈ ({ m with atoms := m.atoms.map fun a => { a with hcount2 := 0 } } : Mol).keys := by
    refine ⟨?_, fun k hk => by rw [hkeys]; exact hk⟩
    intro e he; rw [hkeys]; exact hc e he
  generalize ({ m with atoms := m.atoms.map fun a => { a with hcount2 := 0 } } : Mol) = m0 at h0
  induction counts generalizing m0 with
  | nil => exact h0
  | cons c cs ih =>
    simp only [List.foldl_cons]
    obtain ⟨h1, h2⟩ := hStep_closed m0 c h0.1 (h0.2 _ (hcounts c (by simp)))
    exact ih (fun kc hkc => hcounts kc (by simp [hkc])) _ ⟨h1, fun k hk => h2 k (h0.2 k hk)⟩

/-- **C09 for the whole all-atom phase B.**  `m` is the molecule handed to hydrogen completion (distinct
    keys, bonds between its own atoms).  Every non-hydrogen atom of `m` whose bonds fit within one of the
    valences of its element and charge has, in the fine graph the step returns, bond orders adding up to
    exactly the smallest such valence — under the key it has after renumbering. -/
theorem C09_phaseB_complete (mg : Meta) (m : Mol) (out : StepOut) (hnd : m.keys.Nodup) (hc : Closed m)
    (hB : phaseB true mg m = .ok out)
    (a : Atom) (ha : a ∈ m.atoms) (hH : a.isH = false) (vs : List Nat) (hv : valenceOf a = some vs)
    (v : Nat) (hfind : vs.find? (fun v => decide (2 * v ≥ m.bonds2 a.key)) = some v) (heven : m.bonds2 a.key % 2 = 0) :
    ∃ m1, rebuildH m = .ok m1 ∧ out.fine.bonds2 ((sortOrder m1).idxOf a.key) = 2 * v := by
  unfold phaseB at hB
  simp only [if_true, bind, Except.bind] at hB
  split at hB
  · simp at hB
  rename_i m1 h1
  split at hB
  · simp at hB
  rename_i m2 h2
  simp only [pure, Except.pure, Except.ok.injEq] at hB
  subst hB
  refine ⟨m1, h1, ?_⟩
  -- the bonds of the returned graph are the bonds after renumbering
  rw [bonds2_of_edges _ _ (setNames_edges m2 mg), bonds2_of_edges _ _ (annotateEZ_edges _ m2 h2)]
  -- the completed molecule
  unfold rebuildH at h1
  simp only [bind, Except.bind] at h1
  split at h1
  · simp at h1
  rename_i counts hcn
  obtain ⟨hcl, hsub⟩ := addHs_closed m counts hc (C02.hCounts_keys m counts hcn)
  have hk1 : m1.keys = (addHs m counts).keys := C12.inheritH_keys _ _ h1
  have he1 : m1.edges = (addHs m counts).edges := inheritH_edges _ _ h1
  have hc1 : Closed m1 := by intro e he; rw [hk1]; rw [he1] at he; exact hcl e he
  have hak : a.key ∈ m1.keys := by rw [hk1]; exact hsub _ (List.mem_map.mpr ⟨a, ha, rfl⟩)
  rw [sortNodes_bonds2 m1 hc1 a.key hak, bonds2_of_edges _ _ he1]
  exact C09_complete m hnd counts hcn a ha hH vs hv v hfind heven

/-- what phase A returns has distinct keys and bonds between its own atoms -/
theorem phaseA_out_wf (cp : Desc → Desc → Bool) (allAtom : Bool) (mg : Meta) (fd : FragDict) (hfd : FragsWF fd)
    (pre : Mol) (ks : List Key) (hA : phaseA cp allAtom mg fd = .ok (pre, ks)) : pre.keys.Nodup ∧ Closed pre := by
  unfold phaseA at hA
  simp only [bind, Except.bind] at hA
  split at hA
  · simp at hA
  rename_i r hd
  obtain ⟨m0, inst⟩ := r
  simp only at hA
  split at hA
  · simp at hA
  rename_i m1 hcn
  simp only [pure, Except.pure, Except.ok.injEq, Prod.mk.injEq] at hA
  obtain ⟨rfl, _⟩ := hA
  obtain ⟨hnd, hc, _⟩ := phaseA_wellformed cp allAtom mg fd hfd m0 m1 inst hd hcn
  exact ⟨(C10_count m1 hnd hc).2, squash_closed m1 hnd hc⟩

/-- **C09 for every all-atom step of the resolver model**: whatever the base graph, the templates (distinct
    keys, closed bonds) and the recorded aromaticity answer — in the fine graph of a successful step every
    non-hydrogen atom of the molecule handed to hydrogen completion whose bonds fit within one of the
    valences of its element and charge has bond orders adding up to exactly the smallest such valence. -/
theorem C09_step_complete (cp : Desc → Desc → Bool) (mg : Meta) (fd : FragDict) (hfd : FragsWF fd)
    (pre : Mol) (ks : List Key) (patch : Option AromPatch) (out : StepOut)
    (hA : phaseA cp true mg fd = .ok (pre, ks))
    (hB : phaseB true mg (match patch with | some p => applyArom pre p | none => pre) = .ok out)
    (a : Atom) (ha : a ∈ (match patch with | some p => applyArom pre p | none => pre).atoms) (hH : a.isH = false)
    (vs : List Nat) (hv : valenceOf a = some vs) (v : Nat)
    (hfind : vs.find? (fun v => decide (2 * v ≥ (match patch with | some p => applyArom pre p | none => pre).bonds2 a.key)) = some v)
    (heven : (match patch with | some p => applyArom pre p | none => pre).bonds2 a.key % 2 = 0) :
    ∃ m1, rebuildH (match patch with | some p => applyArom pre p | none => pre) = .ok m1 ∧
      out.fine.bonds2 ((sortOrder m1).idxOf a.key) = 2 * v := by
  obtain ⟨hnd, hc⟩ := phaseA_out_wf cp true mg fd hfd pre ks hA
  cases patch with
  | none => exact C09_phaseB_complete mg pre out hnd hc hB a ha hH vs hv v hfind heven
  | some p =>
    exact C09_phaseB_complete mg (applyArom pre p) out (by rw [C12.applyArom_keys]; exact hnd)
      (C02.applyArom_closed pre p hc) hB a ha hH vs hv v hfind heven

end CGV.C09
