/-
  C10, the bonds of the squashed molecule: after the whole loop of `squash_atoms` — any number of merges, chains
  of merges included — two surviving atoms are bonded exactly when some bond of the molecule before squashing joins
  an atom merged into the one with an atom merged into the other: the result is the quotient of the molecule by
  the merges ("the kept atom inherits all bonds of the removed one", for every sequence of merges).
-/
import CGV.Props.C10Reach
namespace CGV.C10
open CGV Mol

/-- the atom a key has been merged into so far (`while node in squashed: node = squashed[node]`) -/
def rep (sq : List (Key × Key)) (k : Key) : Key := squash.resolveKey sq.length.succ sq k

/-! ### one more merge: the representative map composes -/

theorem resolve_cons (sq : List (Key × Key)) (rem keep : Key) (hrem : rem ∉ sq.map (·.1)) (hkeep : keep ∉ sq.map (·.1))
    (hne : keep ≠ rem) : ∀ (f : Nat) (k : Key), squash.resolveKey f sq k ∉ sq.map (·.1) →
      squash.resolveKey (f + 1) ((rem, keep) :: sq) k =
        (if squash.resolveKey f sq k = rem then keep else squash.resolveKey f sq k) := by
  have hkeep' : keep ∉ ((rem, keep) :: sq).map (·.1) := by
    simp only [List.map_cons, List.mem_cons, not_or]; exact ⟨hne, hkeep⟩
  intro f
  induction f with
  | zero =>
    intro k hk
    have e0 : squash.resolveKey 0 sq k = k := rfl
    rw [e0] at hk ⊢
    conv => lhs; unfold squash.resolveKey
    by_cases h : k = rem
    · subst h; simp [List.lookup, squash.resolveKey]
    · have h' : (k == rem) = false := by simpa using h
      simp only [List.lookup, h', lookup_none sq k hk]
      rw [if_neg h]
  | succ f ih =>
    intro k hk
    by_cases h : k = rem
    · subst h
      have : squash.resolveKey (f + 1) sq k = k := resolve_live sq k _ hrem
      rw [this, if_pos rfl]
      rw [show f + 1 + 1 = (f + 1) + 1 from rfl]
      conv => lhs; unfold squash.resolveKey
      simp only [List.lookup, beq_self_eq_true]
      exact resolve_live _ keep _ hkeep'
    · have h' : (k == rem) = false := by simpa using h
      rw [show f + 1 + 1 = (f + 1) + 1 from rfl]
      conv => lhs; unfold squash.resolveKey
      simp only [List.lookup, h']
      cases hl : sq.lookup k with
      | none =>
        simp only [squash.resolveKey, hl, if_neg h]
      | some k' =>
        simp only
        have hk' : squash.resolveKey f sq k' ∉ sq.map (·.1) := by
          simp only [squash.resolveKey, hl] at hk; exact hk
        rw [ih k' hk']
        simp only [squash.resolveKey, hl]

theorem rep_cons {sq : List (Key × Key)} (h : WF sq) (rem keep : Key) (hrem : rem ∉ sq.map (·.1))
    (hkeep : keep ∉ sq.map (·.1)) (hne : keep ≠ rem) (k : Key) :
    rep ((rem, keep) :: sq) k = if rep sq k = rem then keep else rep sq k := by
  unfold rep
  exact resolve_cons sq rem keep hrem hkeep hne _ k (resolve_alive h k)

/-! ### adjacency after one contraction -/

theorem joins_comm (e : Edge) (u v : Key) : Edge.joins e u v = Edge.joins e v u := joins_symm e u v

theorem hasEdge_comm (m : Mol) (u v : Key) : m.hasEdge u v = m.hasEdge v u := by
  unfold Mol.hasEdge
  congr 1
  funext e
  exact joins_comm e u v

theorem hasEdge_append (m : Mol) (e : Edge) (u v : Key) :
    ({ m with edges := m.edges ++ [e] } : Mol).hasEdge u v = (m.hasEdge u v || Edge.joins e u v) := by
  simp [Mol.hasEdge]

/-- the other end of an edge at `rem` -/
def other (rem : Key) (e : Edge) : Key := if e.a == rem then e.b else e.a

theorem moveStep_adj (keep rem : Key) (m : Mol) (e : Edge) (u v : Key) :
    (moveStep keep rem m e).hasEdge u v = true ↔
      m.hasEdge u v = true ∨ (other rem e ≠ keep ∧ other rem e ≠ rem ∧
        ((u = keep ∧ v = other rem e) ∨ (v = keep ∧ u = other rem e))) := by
  have hw : (if e.a == rem then e.b else e.a) = other rem e := rfl
  unfold moveStep
  simp only [hw]
  by_cases h1 : (other rem e == keep || other rem e == rem) = true
  · rw [if_pos h1]
    constructor
    · exact Or.inl
    · rintro (h | ⟨n1, n2, _⟩)
      · exact h
      · simp only [Bool.or_eq_true, beq_iff_eq] at h1
        rcases h1 with h1 | h1
        · exact absurd h1 n1
        · exact absurd h1 n2
  · rw [if_neg h1]
    have hn : other rem e ≠ keep ∧ other rem e ≠ rem := by
      simp only [Bool.or_eq_true, beq_iff_eq, not_or] at h1; exact h1
    by_cases h2 : m.hasEdge keep (other rem e) = true
    · rw [if_pos h2]
      constructor
      · exact Or.inl
      · rintro (h | ⟨_, _, ⟨rfl, rfl⟩ | ⟨rfl, rfl⟩⟩)
        · exact h
        · exact h2
        · rw [hasEdge_comm]; exact h2
    · rw [if_neg h2, hasEdge_append]
      simp only [Bool.or_eq_true, Edge.joins, Bool.and_eq_true, beq_iff_eq]
      constructor
      · rintro (h | ⟨rfl, rfl⟩ | ⟨rfl, rfl⟩)
        · exact Or.inl h
        · exact Or.inr ⟨hn.1, hn.2, Or.inl ⟨rfl, rfl⟩⟩
        · exact Or.inr ⟨hn.1, hn.2, Or.inr ⟨rfl, rfl⟩⟩
      · rintro (h | ⟨_, _, ⟨rfl, rfl⟩ | ⟨rfl, rfl⟩⟩)
        · exact Or.inl h
        · exact Or.inr (Or.inl ⟨rfl, rfl⟩)
        · exact Or.inr (Or.inr ⟨rfl, rfl⟩)

theorem moved_adj (keep rem : Key) : ∀ (inc : List Edge) (m : Mol) (u v : Key),
    (inc.foldl (moveStep keep rem) m).hasEdge u v = true ↔
      m.hasEdge u v = true ∨ ∃ e ∈ inc, other rem e ≠ keep ∧ other rem e ≠ rem ∧
        ((u = keep ∧ v = other rem e) ∨ (v = keep ∧ u = other rem e))
  | [], m, u, v => by simp
  | e :: es, m, u, v => by
    simp only [List.foldl_cons]
    rw [moved_adj keep rem es (moveStep keep rem m e) u v, moveStep_adj]
    constructor
    · rintro ((h | h) | ⟨x, hx, h⟩)
      · exact Or.inl h
      · exact Or.inr ⟨e, by simp, h⟩
      · exact Or.inr ⟨x, by simp [hx], h⟩
    · rintro (h | ⟨x, hx, h⟩)
      · exact Or.inl (Or.inl h)
      · rcases List.mem_cons.mp hx with rfl | hx
        · exact Or.inl (Or.inr h)
        · exact Or.inr ⟨x, hx, h⟩

theorem updAtom_hasEdge (m : Mol) (k : Key) (f : Atom → Atom) (u v : Key) : (m.updAtom k f).hasEdge u v = m.hasEdge u v := rfl

/-- the edges of the molecule with `rem` taken out -/
def restOf (mol : Mol) (rem : Key) : Mol :=
  { atoms := mol.atoms.filter (·.key != rem), edges := mol.edges.filter fun e => !(e.a == rem || e.b == rem) }

theorem contract_hasEdge (mol : Mol) (keep rem : Key) (u v : Key) :
    (contract mol keep rem).hasEdge u v =
      ((mol.edges.filter fun e => e.a == rem || e.b == rem).foldl (moveStep keep rem) (restOf mol rem)).hasEdge u v := by
  unfold contract
  simp only
  cases mol.atom? rem with
  | none => rfl
  | some r => rfl

theorem rest_adj (mol : Mol) (rem u v : Key) :
    (restOf mol rem).hasEdge u v = true ↔ mol.hasEdge u v = true ∧ u ≠ rem ∧ v ≠ rem := by
  simp only [restOf, Mol.hasEdge, List.any_eq_true, List.mem_filter, Edge.joins, Bool.or_eq_true, Bool.and_eq_true,
    beq_iff_eq, Bool.not_eq_true', Bool.or_eq_false_iff, beq_eq_false_iff_ne, ne_eq]
  constructor
  · rintro ⟨e, ⟨he, n1, n2⟩, ⟨rfl, rfl⟩ | ⟨rfl, rfl⟩⟩
    · exact ⟨⟨e, he, Or.inl ⟨rfl, rfl⟩⟩, n1, n2⟩
    · exact ⟨⟨e, he, Or.inr ⟨rfl, rfl⟩⟩, n2, n1⟩
  · rintro ⟨⟨e, he, ⟨rfl, rfl⟩ | ⟨rfl, rfl⟩⟩, n1, n2⟩
    · exact ⟨e, ⟨he, n1, n2⟩, Or.inl ⟨rfl, rfl⟩⟩
    · exact ⟨e, ⟨he, n2, n1⟩, Or.inr ⟨rfl, rfl⟩⟩

/-- an edge at `rem` whose other end is `w` exists iff `rem` and `w` are bonded (for `w ≠ rem`) -/
theorem incident_other (mol : Mol) (rem w : Key) (hw : w ≠ rem) :
    (∃ e ∈ mol.edges.filter (fun e => e.a == rem || e.b == rem), other rem e = w) ↔ mol.hasEdge rem w = true := by
  simp only [List.mem_filter, Bool.or_eq_true, beq_iff_eq, Mol.hasEdge, List.any_eq_true, Edge.joins, Bool.and_eq_true, other]
  constructor
  · rintro ⟨e, ⟨he, h⟩, ho⟩
    refine ⟨e, he, ?_⟩
    by_cases ha : e.a = rem
    · simp only [ha, if_true] at ho; exact Or.inl ⟨ha, ho⟩
    · rcases h with h | h
      · exact absurd h ha
      · simp only [ha, if_false] at ho; exact Or.inr ⟨ho, h⟩
  · rintro ⟨e, he, ⟨ha, hb⟩ | ⟨ha, hb⟩⟩
    · exact ⟨e, ⟨he, Or.inl ha⟩, by simp [ha, hb]⟩
    · refine ⟨e, ⟨he, Or.inr hb⟩, ?_⟩
      have : (e.a == rem) = false := by rw [ha]; simpa using hw
      simp [this, ha]
      intro h; exact absurd h hw

/-- **one merge**: among the atoms that stay, the kept atom is bonded to everything the removed atom was bonded
    to, all other bonds are as before; nothing is bonded to the removed atom any more -/
theorem contract_adj (mol : Mol) (keep rem : Key) (hne : keep ≠ rem) (u v : Key) :
    (contract mol keep rem).hasEdge u v = true ↔
      u ≠ rem ∧ v ≠ rem ∧ (mol.hasEdge u v = true ∨ (u = keep ∧ v ≠ keep ∧ mol.hasEdge rem v = true) ∨
        (v = keep ∧ u ≠ keep ∧ mol.hasEdge rem u = true)) := by
  rw [contract_hasEdge, moved_adj, rest_adj]
  constructor
  · rintro (⟨h, n1, n2⟩ | ⟨e, he, o1, o2, ⟨rfl, rfl⟩ | ⟨rfl, rfl⟩⟩)
    · exact ⟨n1, n2, Or.inl h⟩
    · exact ⟨hne, o2, Or.inr (Or.inl ⟨rfl, o1, (incident_other mol rem _ o2).mp ⟨e, he, rfl⟩⟩)⟩
    · exact ⟨o2, hne, Or.inr (Or.inr ⟨rfl, o1, (incident_other mol rem _ o2).mp ⟨e, he, rfl⟩⟩)⟩
  · rintro ⟨n1, n2, h | ⟨rfl, nk, h⟩ | ⟨rfl, nk, h⟩⟩
    · exact Or.inl ⟨h, n1, n2⟩
    · obtain ⟨e, he, ho⟩ := (incident_other mol rem v n2).mpr h
      exact Or.inr ⟨e, he, ho ▸ nk, ho ▸ n2, Or.inl ⟨rfl, ho.symm⟩⟩
    · obtain ⟨e, he, ho⟩ := (incident_other mol rem u n1).mpr h
      exact Or.inr ⟨e, he, ho ▸ nk, ho ▸ n1, Or.inr ⟨rfl, ho.symm⟩⟩

/-! ### the loop: the bonds are the bonds of the quotient -/

/-- two distinct atoms are bonded iff a bond of the original molecule joins their classes -/
def QInv (mol0 : Mol) (acc : Mol × List (Key × Key)) : Prop :=
  ∀ u v, u ≠ v → (acc.1.hasEdge u v = true ↔
    ∃ e ∈ mol0.edges, (rep acc.2 e.a = u ∧ rep acc.2 e.b = v) ∨ (rep acc.2 e.a = v ∧ rep acc.2 e.b = u))

theorem rep_nil (k : Key) : rep [] k = k := by simp [rep, squash.resolveKey, List.lookup]

theorem qinv_init (mol : Mol) : QInv mol (mol, []) := by
  intro u v _
  simp only [rep_nil, Mol.hasEdge, List.any_eq_true, Edge.joins, Bool.or_eq_true, Bool.and_eq_true, beq_iff_eq]

theorem qinv_step {mol0 : Mol} {acc : Mol × List (Key × Key)} (inv : SInv mol0 acc) (q : QInv mol0 acc) (e : Edge) :
    QInv mol0 (sqStep acc e) := by
  unfold sqStep
  dsimp only
  by_cases heq : (squash.resolveKey acc.2.length.succ acc.2 e.a == squash.resolveKey acc.2.length.succ acc.2 e.b) = true
  · rw [if_pos heq]; exact q
  · rw [if_neg heq]
    have hne : rep acc.2 e.a ≠ rep acc.2 e.b := by simpa [rep] using heq
    generalize hk : rep acc.2 e.a = keep at hne
    generalize hr : rep acc.2 e.b = rem at hne
    have hkeep : keep ∉ acc.2.map (·.1) := hk ▸ resolve_alive inv.wf e.a
    have hrem : rem ∉ acc.2.map (·.1) := hr ▸ resolve_alive inv.wf e.b
    have hk' : squash.resolveKey acc.2.length.succ acc.2 e.a = keep := hk
    have hr' : squash.resolveKey acc.2.length.succ acc.2 e.b = rem := hr
    rw [hk', hr']
    have hrc := rep_cons inv.wf rem keep hrem hkeep hne
    intro u v huv
    show (contract acc.1 keep rem).hasEdge u v = true ↔ _
    rw [contract_adj acc.1 keep rem hne]
    simp only [hrc]
    constructor
    · rintro ⟨n1, n2, h | ⟨rfl, _, h⟩ | ⟨rfl, _, h⟩⟩
      · obtain ⟨x, hx, hh⟩ := (q u v huv).mp h
        refine ⟨x, hx, ?_⟩
        rcases hh with ⟨h1, h2⟩ | ⟨h1, h2⟩
        · left; rw [h1, h2, if_neg n1, if_neg n2]; exact ⟨rfl, rfl⟩
        · right; rw [h1, h2, if_neg n2, if_neg n1]; exact ⟨rfl, rfl⟩
      · obtain ⟨x, hx, hh⟩ := (q rem v (fun e => n2 e.symm)).mp h
        refine ⟨x, hx, ?_⟩
        rcases hh with ⟨h1, h2⟩ | ⟨h1, h2⟩
        · left; rw [h1, h2, if_pos rfl, if_neg n2]; exact ⟨rfl, rfl⟩
        · right; rw [h1, h2, if_neg n2, if_pos rfl]; exact ⟨rfl, rfl⟩
      · obtain ⟨x, hx, hh⟩ := (q rem u (fun e => n1 e.symm)).mp h
        refine ⟨x, hx, ?_⟩
        rcases hh with ⟨h1, h2⟩ | ⟨h1, h2⟩
        · right; rw [h1, h2, if_pos rfl, if_neg n1]; exact ⟨rfl, rfl⟩
        · left; rw [h1, h2, if_neg n1, if_pos rfl]; exact ⟨rfl, rfl⟩
    · rintro ⟨x, hx, hh⟩
      -- the representatives after the merge are never `rem`
      have nr : ∀ k, (if rep acc.2 k = rem then keep else rep acc.2 k) ≠ rem := by
        intro k; split
        · exact hne
        · assumption
      have n1 : u ≠ rem := by
        rcases hh with ⟨h1, _⟩ | ⟨_, h2⟩
        · exact h1 ▸ nr _
        · exact h2 ▸ nr _
      have n2 : v ≠ rem := by
        rcases hh with ⟨_, h2⟩ | ⟨h1, _⟩
        · exact h2 ▸ nr _
        · exact h1 ▸ nr _
      refine ⟨n1, n2, ?_⟩
      -- orient: a ↦ p, b ↦ r with {p, r} = {u, v}
      have key : ∀ (p r : Key), p ≠ r → p ≠ rem → r ≠ rem →
          (if rep acc.2 x.a = rem then keep else rep acc.2 x.a) = p →
          (if rep acc.2 x.b = rem then keep else rep acc.2 x.b) = r →
          (acc.1.hasEdge p r = true ∨ (p = keep ∧ r ≠ keep ∧ acc.1.hasEdge rem r = true) ∨
            (r = keep ∧ p ≠ keep ∧ acc.1.hasEdge rem p = true)) := by
        intro p r hpr np nrr h1 h2
        by_cases ha : rep acc.2 x.a = rem <;> by_cases hb : rep acc.2 x.b = rem
        · rw [if_pos ha] at h1; rw [if_pos hb] at h2; exact absurd (h1.symm.trans h2) hpr
        · rw [if_pos ha] at h1; rw [if_neg hb] at h2
          subst h1
          refine Or.inr (Or.inl ⟨rfl, fun e => hpr e.symm, ?_⟩)
          exact (q rem r (fun e => nrr e.symm)).mpr ⟨x, hx, Or.inl ⟨ha, h2⟩⟩
        · rw [if_neg ha] at h1; rw [if_pos hb] at h2
          subst h2
          refine Or.inr (Or.inr ⟨rfl, hpr, ?_⟩)
          exact (q rem p (fun e => np e.symm)).mpr ⟨x, hx, Or.inr ⟨h1, hb⟩⟩
        · rw [if_neg ha] at h1; rw [if_neg hb] at h2
          exact Or.inl ((q p r hpr).mpr ⟨x, hx, Or.inl ⟨h1, h2⟩⟩)
      rcases hh with ⟨h1, h2⟩ | ⟨h1, h2⟩
      · exact key u v huv n1 n2 h1 h2
      · rcases key v u (fun e => huv e.symm) n2 n1 h1 h2 with h | ⟨a, b, c⟩ | ⟨a, b, c⟩
        · exact Or.inl (by rw [hasEdge_comm]; exact h)
        · exact Or.inr (Or.inr ⟨a, b, c⟩)
        · exact Or.inr (Or.inl ⟨a, b, c⟩)

theorem qinv_fold {mol0 : Mol} (es : List Edge) (acc : Mol × List (Key × Key)) (inv : SInv mol0 acc) (q : QInv mol0 acc)
    (hes : ∀ e ∈ es, e.a ∈ mol0.keys ∧ e.b ∈ mol0.keys) : QInv mol0 (es.foldl sqStep acc) := by
  induction es generalizing acc with
  | nil => exact q
  | cons e es ih =>
    simp only [List.foldl_cons]
    exact ih _ (sinv_step inv e (hes e (by simp)).1 (hes e (by simp)).2) (qinv_step inv q e)
      (fun x hx => hes x (by simp [hx]))

/-- the merges the loop performed, newest first: (removed atom, atom it was merged into) -/
def record (mol : Mol) : List (Key × Key) := ((sharedOf mol).foldl sqStep (mol, [])).2

/-- **C10, the bonds after squashing — every sequence of merges.**  For every molecule with distinct keys and
    bonds between its own atoms (what the resolver hands to `squash_atoms`: `phaseA_wellformed`), however many
    provisional `!` bonds it has and however they chain: two different atoms of the result are bonded exactly when
    some bond of the molecule before squashing joins an atom merged into the one with an atom merged into the
    other.  The squashed molecule is the quotient by the merges; every bond of a removed atom is inherited by the
    atom that stands for it, the provisional bonds themselves vanish. -/
theorem C10_quotient_bonds (mol : Mol) (hnd : mol.keys.Nodup) (hc : Closed mol) (u v : Key) (huv : u ≠ v) :
    (squash mol).hasEdge u v = true ↔
      ∃ e ∈ mol.edges, (rep (record mol) e.a = u ∧ rep (record mol) e.b = v) ∨
                       (rep (record mol) e.a = v ∧ rep (record mol) e.b = u) := by
  rw [squash_eq]
  exact qinv_fold (sharedOf mol) (mol, []) (sinv_init mol hnd) (qinv_init mol) (shared_ends mol hc) u v huv

/-- the representative of an atom is an atom of the result, and atoms no merge touched stand for themselves -/
theorem C10_rep_alive (mol : Mol) (hnd : mol.keys.Nodup) (hc : Closed mol) (k : Key) (hk : k ∈ mol.keys) :
    rep (record mol) k ∈ (squash mol).keys := by
  rw [squash_eq]
  have inv := sinv_fold (sharedOf mol) (mol, []) (sinv_init mol hnd) (shared_ends mol hc)
  exact resolve_inK inv k hk

/-! worked instance (`ex3` of `C10Multi`: atom 1 shared by three fragments through a chain of two merges): the record,
    the representatives, and the inherited bonds 1–3 (from 2–3) and 1–5 (from 4–5) -/
example : record ex3 = [(4, 1), (2, 1)] ∧ [0, 1, 2, 3, 4, 5].map (rep (record ex3)) = [0, 1, 1, 3, 1, 5] := by decide +kernel
example : (squash ex3).hasEdge 1 3 = true ∧ (squash ex3).hasEdge 1 5 = true ∧ (squash ex3).hasEdge 0 1 = true ∧
    (squash ex3).hasEdge 3 5 = false ∧ (squash ex3).edges.length = 3 := by decide +kernel

end CGV.C10
