/-
  C10: "the merged atom belongs to both fragments" — for EVERY sequence of merges.  `C10_membership` says it for
  one contraction; here it is carried through the whole loop of `squash_atoms`: whatever chain of `!` bonds leads
  to an atom being removed (directly, or after it has itself absorbed other atoms), the atom that finally stands
  for it carries every coarse node and every template position the removed atom had when squashing started.
  (Seeded changes C02-14 and C10-15 of round 7 break exactly this: a membership snapshot taken before the loop
  forgets what a later-removed atom had absorbed.)
-/
import CGV.Props.C10Quot
namespace CGV.C10
open CGV

/-- with distinct keys the lookup by key returns the atom itself -/
theorem atom?_of_mem (m : Mol) (hnd : m.keys.Nodup) (a : Atom) (ha : a ∈ m.atoms) : m.atom? a.key = some a := by
  unfold Mol.atom?
  unfold Mol.keys at hnd
  generalize m.atoms = l at hnd ha
  induction l with
  | nil => cases ha
  | cons x xs ih =>
    simp only [List.map_cons, List.nodup_cons] at hnd
    simp only [List.find?_cons]
    rcases List.mem_cons.mp ha with rfl | hx
    · simp
    · have hne : (x.key == a.key) = false := by
        apply beq_false_of_ne
        intro e
        exact hnd.1 (e ▸ List.mem_map.mpr ⟨a, hx, rfl⟩)
      rw [hne]
      exact ih hnd.2 hx

/-- loop invariant: every atom of the molecule squashing started from is represented, with everything it
    belonged to -/
def MInv (mol0 : Mol) (acc : Mol × List (Key × Key)) : Prop :=
  ∀ a ∈ mol0.atoms, ∃ b ∈ acc.1.atoms, b.key = rep acc.2 a.key ∧
    (∀ f ∈ a.fragid, f ∈ b.fragid) ∧ (∀ p ∈ a.mapping, p ∈ b.mapping)

theorem minv_init (mol : Mol) : MInv mol (mol, []) := by
  intro a ha
  exact ⟨a, ha, by rw [rep_nil], fun f hf => hf, fun p hp => hp⟩

theorem minv_step {mol0 : Mol} {acc : Mol × List (Key × Key)} (inv : SInv mol0 acc) (q : MInv mol0 acc) (e : Edge)
    (ha : e.a ∈ mol0.keys) (hb : e.b ∈ mol0.keys) : MInv mol0 (sqStep acc e) := by
  have hkin := resolve_inK inv e.a ha
  have hrin := resolve_inK inv e.b hb
  unfold sqStep
  dsimp only
  by_cases heq : (squash.resolveKey acc.2.length.succ acc.2 e.a == squash.resolveKey acc.2.length.succ acc.2 e.b) = true
  · rw [if_pos heq]; exact q
  · rw [if_neg heq]
    have hne : rep acc.2 e.a ≠ rep acc.2 e.b := by simpa [rep] using heq
    have hkin' : rep acc.2 e.a ∈ acc.1.keys := hkin
    have hrin' : rep acc.2 e.b ∈ acc.1.keys := hrin
    generalize hk : rep acc.2 e.a = keep at hne hkin'
    generalize hr : rep acc.2 e.b = rem at hne hrin'
    have hkeep : keep ∉ acc.2.map (·.1) := hk ▸ resolve_alive inv.wf e.a
    have hrem : rem ∉ acc.2.map (·.1) := hr ▸ resolve_alive inv.wf e.b
    have hk' : squash.resolveKey acc.2.length.succ acc.2 e.a = keep := hk
    have hr' : squash.resolveKey acc.2.length.succ acc.2 e.b = rem := hr
    rw [hk', hr']
    -- the two atoms the step works on
    obtain ⟨kA, hkA, hkAk⟩ := List.mem_map.mp hkin'
    obtain ⟨rA, hrA, hrAk⟩ := List.mem_map.mp hrin'
    have hrlook : acc.1.atom? rem = some rA := hrAk ▸ atom?_of_mem acc.1 inv.nodup rA hrA
    intro a haa
    obtain ⟨b, hb, hbk, hbf, hbm⟩ := q a haa
    simp only
    rw [rep_cons inv.wf rem keep hrem hkeep hne a.key]
    by_cases h1 : rep acc.2 a.key = rem
    · -- the atom standing for `a` is the one removed now: the kept atom takes over everything it had
      rw [if_pos h1]
      have hbr : b = rA := by
        have h2 : acc.1.atom? b.key = some b := atom?_of_mem acc.1 inv.nodup b hb
        rw [hbk, h1, hrlook] at h2
        exact (Option.some.inj h2).symm
      subst hbr
      refine ⟨_, C10_membership acc.1 keep rem kA b hkA hkAk hrlook hne, hkAk, ?_, ?_⟩
      · intro f hf; exact List.mem_append_right _ (hbf f hf)
      · intro p hp; exact List.mem_append_right _ (hbm p hp)
    · rw [if_neg h1]
      by_cases h2 : rep acc.2 a.key = keep
      · -- it is the kept atom: what it had stays in front
        refine ⟨_, C10_membership acc.1 keep rem b rA hb (hbk.trans h2) hrlook hne, hbk, ?_, ?_⟩
        · intro f hf; exact List.mem_append_left _ (hbf f hf)
        · intro p hp; exact List.mem_append_left _ (hbm p hp)
      · -- any other atom is untouched
        exact ⟨b, C10_others_kept acc.1 keep rem b hb (by rw [hbk]; exact h2) (by rw [hbk]; exact h1), hbk, hbf, hbm⟩

theorem minv_fold {mol0 : Mol} (es : List Edge) (acc : Mol × List (Key × Key)) (inv : SInv mol0 acc) (q : MInv mol0 acc)
    (hes : ∀ e ∈ es, e.a ∈ mol0.keys ∧ e.b ∈ mol0.keys) : MInv mol0 (es.foldl sqStep acc) := by
  induction es generalizing acc with
  | nil => exact q
  | cons e es ih =>
    simp only [List.foldl_cons]
    have h := hes e (by simp)
    exact ih _ (sinv_step inv e h.1 h.2) (minv_step inv q e h.1 h.2) (fun x hx => hes x (by simp [hx]))

/-- **C10, membership after squashing — every sequence of merges.**  For every molecule with distinct keys and
    bonds between its own atoms, and every atom `a` of it: the squashed molecule has an atom with the key `a` was
    merged into (`rep`; `a`'s own key if no merge touched it) that lists every coarse node `a` belonged to and
    every template position `a` was a copy of. -/
theorem C10_class_membership (mol : Mol) (hnd : mol.keys.Nodup) (hc : Closed mol) (a : Atom) (ha : a ∈ mol.atoms) :
    ∃ b ∈ (squash mol).atoms, b.key = rep (record mol) a.key ∧
      (∀ f ∈ a.fragid, f ∈ b.fragid) ∧ (∀ p ∈ a.mapping, p ∈ b.mapping) := by
  rw [squash_eq]
  exact minv_fold (sharedOf mol) (mol, []) (sinv_init mol hnd) (minv_init mol) (shared_ends mol hc) a ha

/-! worked instance (`ex3`: atom 1 shared by three fragments through a chain of two merges): the surviving atom 1
    lists all three coarse nodes -/
example : ((squash ex3).atoms.map fun a => (a.key, a.fragid)) = [(0, [0]), (1, [0, 1, 2]), (3, [1]), (5, [2])] := by
  decide +kernel

/-- **in the resolver's terms**: in every resolution step, every atom instantiated for a coarse node is represented in
    the molecule phase A returns — under the key it was merged into — by an atom that lists that coarse node (and every
    other one the atom belonged to) and the template position it is a copy of -/
theorem C10_resolver_membership (cp : Desc → Desc → Bool) (allAtom : Bool) (mg : Meta) (fd : FragDict) (hfd : FragsWF fd)
    (m0 m1 : Mol) (inst : List (Key × List Key))
    (hd : disconnected mg fd = .ok (m0, inst)) (hcn : connect cp allAtom mg m0 inst = .ok m1) :
    phaseA cp allAtom mg fd = .ok (squash m1, inst.map (·.1)) ∧
    ∀ a ∈ m1.atoms, ∃ b ∈ (squash m1).atoms, b.key = rep (record m1) a.key ∧
      (∀ f ∈ a.fragid, f ∈ b.fragid) ∧ (∀ p ∈ a.mapping, p ∈ b.mapping) := by
  obtain ⟨hnd, hc, _⟩ := phaseA_wellformed cp allAtom mg fd hfd m0 m1 inst hd hcn
  exact ⟨phaseA_eq cp allAtom mg fd m0 m1 inst hd hcn, fun a ha => C10_class_membership m1 hnd hc a ha⟩

end CGV.C10
