/-
  C13 for fragment texts with branches, ring digits and bond symbols: a text made of plain atoms, bond
  symbols, ring-closure runs (digits and %nn, with or without a ring bond symbol in front), parentheses
  and bonding descriptors written after an atom, after the atom's ring digits or after another
  descriptor — any length, any nesting — is separated exactly: the clean text is the text without the
  descriptors, every descriptor is reported on the atom it was written after (counting atoms in order of
  appearance, also inside branches), in the order written, with its order; nothing else is reported.
-/
import CGV.Props.C13Chain
namespace CGV.C13
open CGV Gen
set_option linter.unusedSimpArgs false

inductive TK
  | atom (e : Char)
  | desc (d : WFDesc)
  | bond (c : Char)
  | ring (run : Str)
  | opn
  | cls

def TK.text : TK → Str
  | .atom e => [e]
  | .desc d => d.fmt
  | .bond c => [c]
  | .ring r => r
  | .opn => ['(']
  | .cls => [')']

/-- what stays in the clean text -/
def TK.clean : TK → Str
  | .desc _ => []
  | t => t.text

def render (ts : List TK) : Str := ts.flatMap TK.text
def cleanText (ts : List TK) : Str := ts.flatMap TK.clean

/-- the dictionary the property describes: every descriptor under the index of the atom it was written
    after (`n` = atoms seen so far) -/
def specDict : Nat → List (Nat × List Desc) → List TK → List (Nat × List Desc)
  | _, b, [] => b
  | n, b, .atom _ :: ts => specDict (n + 1) b ts
  | n, b, .desc d :: ts => specDict n (appendDesc b (n - 1) d.text) ts
  | n, b, .bond _ :: ts => specDict n b ts
  | n, b, .ring _ :: ts => specDict n b ts
  | n, b, .opn :: ts => specDict n b ts
  | n, b, .cls :: ts => specDict n b ts

def ringChar (c : Char) : Bool := c.isDigit || c == '%'

/-- well-formed token -/
def TK.ok : TK → Prop
  | .atom e => e ∈ plainAtoms
  | .desc _ => True
  | .bond c => (bondToOrder2.lookup c).isSome = true
  | .ring r => r ≠ [] ∧ r.all ringChar = true
  | .opn => True
  | .cls => True

def TK.isRing : TK → Bool
  | .ring _ => true
  | _ => false

/-- where a descriptor may stand, and parentheses balanced: `co` = no bond symbol pending, `fresh` = the
    last atom is the attachment point (no `)` since), `n` = atoms so far, `depth` = open branches -/
def Valid : Nat → Bool → Bool → Nat → List TK → Prop
  | _, _, _, _, [] => True
  | n, _, _, depth, .atom e :: ts => TK.ok (.atom e) ∧ Valid (n + 1) true true depth ts
  | n, co, fresh, depth, .desc d :: ts => 0 < n ∧ co = true ∧ fresh = true ∧ Valid n co fresh depth ts
  | n, _, fresh, depth, .bond c :: ts => TK.ok (.bond c) ∧ Valid n false fresh depth ts
  | n, _, fresh, depth, .ring r :: ts => TK.ok (.ring r) ∧ (ts.head?.map TK.isRing ≠ some true) ∧ Valid n true fresh depth ts
  | n, co, fresh, depth, .opn :: ts => Valid n co fresh (depth + 1) ts
  | n, co, _, depth, .cls :: ts => 0 < depth ∧ Valid n co false (depth - 1) ts

/-! ### one loop iteration per token -/

def afterTK (st : StripState) : TK → StripState
  | .atom e => afterAtom st e
  | .desc d => afterDesc st d
  | .bond c => { st with currentOrder := bondToOrder2.lookup c, smile := st.smile ++ [c] }
  | .ring r => { st with smile := st.smile ++ r, currentOrder := none }
  | .opn => { st with anchor := st.anchor ++ [st.prevNode], smile := st.smile ++ ['('] }
  | .cls => { st with prevNode := st.anchor.getLast?.getD 0, anchor := st.anchor.dropLast, smile := st.smile ++ [')'] }

def itersT : List TK → Nat
  | [] => 0
  | .desc d :: ts => itersD d + itersT ts
  | _ :: ts => 1 + itersT ts

theorem bond_step (c : Char) (o : Nat) (hc : bondToOrder2.lookup c = some o) (rest : Str) (st : StripState) :
    stripStep c rest st = .ok (rest, afterTK st (.bond c)) := by
  have : c = '-' ∨ c = '=' ∨ c = '#' ∨ c = '$' ∨ c = ':' ∨ c = '.' := by
    by_cases h1 : c = '-'; · exact Or.inl h1
    by_cases h2 : c = '='; · exact Or.inr (Or.inl h2)
    by_cases h3 : c = '#'; · exact Or.inr (Or.inr (Or.inl h3))
    by_cases h4 : c = '$'; · exact Or.inr (Or.inr (Or.inr (Or.inl h4)))
    by_cases h5 : c = ':'; · exact Or.inr (Or.inr (Or.inr (Or.inr (Or.inl h5))))
    by_cases h6 : c = '.'; · exact Or.inr (Or.inr (Or.inr (Or.inr (Or.inr h6))))
    have ne : ∀ x, c ≠ x → (c == x) = false := fun x h => by simpa using h
    simp [bondToOrder2, List.lookup, ne _ h1, ne _ h2, ne _ h3, ne _ h4, ne _ h5, ne _ h6] at hc
  rcases this with rfl | rfl | rfl | rfl | rfl | rfl <;>
    simp [stripStep, afterTK, bondToOrder2, List.lookup, pure, Except.pure]

theorem opn_step (rest : Str) (st : StripState) : stripStep '(' rest st = .ok (rest, afterTK st .opn) := by
  simp [stripStep, afterTK, pure, Except.pure]

theorem cls_step (rest : Str) (st : StripState) (h : st.anchor ≠ []) : stripStep ')' rest st = .ok (rest, afterTK st .cls) := by
  have hl : st.anchor.getLast? = some (st.anchor.getLast h) := List.getLast?_eq_some_getLast h
  simp [stripStep, afterTK, hl, pure, Except.pure]

theorem span_loop_run (p : Char → Bool) : ∀ (r after acc : Str), r.all p = true → (after.head?.map p ≠ some true) →
    List.span.loop p (r ++ after) acc = (acc.reverse ++ r, after)
  | [], after, acc, _, h => by
    cases after with
    | nil => simp [List.span.loop]
    | cons c cs =>
      have : p c = false := by
        cases hp : p c with
        | false => rfl
        | true => simp [hp] at h
      simp [List.span.loop, this]
  | c :: cs, after, acc, hr, h => by
    simp only [List.all_cons, Bool.and_eq_true] at hr
    have ih := span_loop_run p cs after (c :: acc) hr.2 h
    simp only [List.cons_append, List.span.loop, hr.1, ih, List.reverse_cons, List.append_assoc, List.singleton_append,
      List.nil_append]

theorem span_run (p : Char → Bool) (r after : Str) (hr : r.all p = true) (h : after.head?.map p ≠ some true) :
    (r ++ after).span p = (r, after) := by
  unfold List.span
  rw [span_loop_run p r after [] hr h]; rfl

theorem ring_step (c : Char) (cs after : Str) (hr : (c :: cs).all ringChar = true)
    (hafter : after.head?.map ringChar ≠ some true) (st : StripState) :
    stripStep c (cs ++ after) st = .ok (after, afterTK st (.ring (c :: cs))) := by
  have hc : ringChar c = true := by simp only [List.all_cons, Bool.and_eq_true] at hr; exact hr.1
  have facts : ∀ x : Char, ringChar x = true → (x == '[') = false ∧ (x == '(') = false ∧ (x == ')') = false ∧
      bondToOrder2.lookup x = none := by
    intro x hx
    unfold ringChar at hx
    rcases Bool.or_eq_true_iff.mp hx with hd | hp
    · have h1 : x ≠ '[' := by intro e; subst e; revert hd; decide
      have h2 : x ≠ '(' := by intro e; subst e; revert hd; decide
      have h3 : x ≠ ')' := by intro e; subst e; revert hd; decide
      refine ⟨by simpa using h1, by simpa using h2, by simpa using h3, ?_⟩
      have ne : ∀ y : Char, y.isDigit = false → (x == y) = false := by
        intro y hy; simp only [beq_eq_false_iff_ne, ne_eq]; intro e; subst e; rw [hd] at hy; cases hy
      simp [bondToOrder2, List.lookup, ne '-' (by decide), ne '=' (by decide), ne '#' (by decide), ne '$' (by decide),
        ne ':' (by decide), ne '.' (by decide)]
    · have : x = '%' := by simpa using hp
      subst this; decide
  obtain ⟨f1, f2, f3, f4⟩ := facts c hc
  have hrc : (c == '%' || c.isDigit) = true := by
    unfold ringChar at hc; rw [Bool.or_comm]; exact hc
  have hspan : ringRun (c :: (cs ++ after)) = (c :: cs, after) := by
    unfold ringRun
    exact span_run ringChar (c :: cs) after hr hafter
  simp only [stripStep, f1, f2, f3, f4, hrc, Bool.false_eq_true, if_false, if_true, hspan, afterTK, pure, Except.pure]

/-! ### what can follow a token -/

/-- second letters of the two-letter elements the reader knows -/
def secondLetters : List Char := ['l', 'r', 'i', 'g', 'a']

theorem atom_step3 (e : Char) (he : e ∈ plainAtoms) (rest : Str) (hrest : rest.head?.all (fun c => !secondLetters.contains c) = true)
    (st : StripState) : stripStep e rest st = .ok (rest, afterAtom st e) := by
  have key : ∀ e ∈ plainAtoms,
      (e == '[') = false ∧ (e == '(') = false ∧ (e == ')') = false ∧ bondToOrder2.lookup e = none ∧
      (e == '%' || e.isDigit) = false ∧ pyStrIn [e] passThroughChars = false ∧ pyStrIn [e] ezChars = false := by decide +kernel
  obtain ⟨h1, h2, h3, h4, h5, h6, h7⟩ := key e he
  cases rest with
  | nil => simp [stripStep, afterAtom, h1, h2, h3, h4, h5, h6, h7, pure, Except.pure]
  | cons c r =>
    have hc : secondLetters.contains c = false := by simpa using hrest
    have h8 : twoLetterElements.contains [e, c] = false := by
      have : ∀ x ∈ twoLetterElements, secondLetters.contains (x.getD 1 ' ') = true := by decide +kernel
      cases hh : twoLetterElements.contains [e, c] with
      | false => rfl
      | true =>
        have e2 := this _ (List.contains_iff_mem.mp hh)
        simp only [List.getD_cons_succ, List.getD_cons_zero] at e2
        rw [e2] at hc; cases hc
    have h8' : ¬ [e, c] ∈ twoLetterElements := by simpa using h8
    simp [stripStep, afterAtom, h1, h2, h3, h4, h5, h6, h7, h8', pure, Except.pure]

/-- the first character of a well-formed token -/
theorem tk_head (t : TK) (ht : t.ok) : ∃ c r, t.text = c :: r ∧ secondLetters.contains c = false ∧
    (t.isRing = false → ringChar c = false) := by
  cases t with
  | atom e =>
    have : ∀ e ∈ plainAtoms, secondLetters.contains e = false ∧ ringChar e = false := by decide +kernel
    exact ⟨e, [], rfl, (this e ht).1, fun _ => (this e ht).2⟩
  | desc d =>
    obtain ⟨c, r, h1, h2⟩ := fmt_head d
    have : ∀ c ∈ ['[', '.', '=', '#', '$'], secondLetters.contains c = false ∧ ringChar c = false := by decide +kernel
    exact ⟨c, r, h1, (this c h2).1, fun _ => (this c h2).2⟩
  | bond c =>
    have hc : c ∈ bondToOrder2.map (·.1) := by
      simp only [TK.ok] at ht
      cases hl : bondToOrder2.lookup c with
      | none => rw [hl] at ht; cases ht
      | some o =>
        obtain ⟨l1, l2, e, _⟩ := List.lookup_eq_some_iff.mp hl
        rw [e]; simp
    have : ∀ c ∈ bondToOrder2.map (·.1), secondLetters.contains c = false ∧ ringChar c = false := by decide +kernel
    exact ⟨c, [], rfl, (this c hc).1, fun _ => (this c hc).2⟩
  | ring r =>
    obtain ⟨hne, hall⟩ := ht
    cases r with
    | nil => exact absurd rfl hne
    | cons c cs =>
      simp only [List.all_cons, Bool.and_eq_true] at hall
      refine ⟨c, cs, rfl, ?_, fun h => by cases h⟩
      have : ∀ x ∈ secondLetters, ringChar x = false := by decide +kernel
      cases hh : secondLetters.contains c with
      | false => rfl
      | true => have := this c (List.contains_iff_mem.mp hh); rw [hall.1] at this; cases this
  | opn => exact ⟨'(', [], rfl, by decide +kernel, fun _ => by decide +kernel⟩
  | cls => exact ⟨')', [], rfl, by decide +kernel, fun _ => by decide +kernel⟩

theorem valid_head_ok : ∀ (ts : List TK) (n : Nat) (co fresh : Bool) (depth : Nat), Valid n co fresh depth ts →
    ∀ t ∈ ts.head?, t.ok
  | [], _, _, _, _, _, t, h => by simp at h
  | t0 :: ts, n, co, fresh, depth, hv, t, h => by
    simp only [List.head?_cons, Option.mem_def, Option.some.injEq] at h
    subst h
    cases t0 with
    | atom e => exact hv.1
    | desc d => trivial
    | bond c => exact hv.1
    | ring r => exact hv.1
    | opn => trivial
    | cls => trivial

theorem render_head (ts : List TK) (n : Nat) (co fresh : Bool) (depth : Nat) (hv : Valid n co fresh depth ts) :
    (render ts).head?.all (fun c => !secondLetters.contains c) = true ∧
    (ts.head?.map TK.isRing ≠ some true → (render ts).head?.map ringChar ≠ some true) := by
  cases ts with
  | nil => simp [render]
  | cons t ts' =>
    obtain ⟨c, r, h1, h2, h3⟩ := tk_head t (valid_head_ok _ n co fresh depth hv t (by simp))
    have : render (t :: ts') = c :: (r ++ render ts') := by simp [render, h1]
    rw [this]
    refine ⟨by simp only [List.head?_cons, Option.all_some, h2]; rfl, ?_⟩
    intro hr
    simp only [List.head?_cons, Option.map_some, ne_eq, Option.some.injEq] at hr ⊢
    have := h3 (by cases hh : t.isRing <;> simp_all)
    rw [this]; simp

/-! ### the loop on a token stream -/

/-- what the loop state knows: atoms so far, no pending bond symbol, attachment point, open branches -/
structure Sim (n : Nat) (co fresh : Bool) (depth : Nat) (st : StripState) : Prop where
  count : st.nodeCount = n
  order : co = true → st.currentOrder = none
  prev : fresh = true → st.prevNode + 1 = st.nodeCount
  anchors : st.anchor.length = depth

theorem render_cons (t : TK) (ts : List TK) : render (t :: ts) = t.text ++ render ts := by simp [render]

/-- the loop takes exactly `itersT ts` iterations on a valid token stream and ends in the folded state -/
theorem stripAux_tokens : ∀ (ts : List TK) (n : Nat) (co fresh : Bool) (depth : Nat) (st : StripState) (fuel : Nat),
    Valid n co fresh depth ts → Sim n co fresh depth st →
    stripAux (fuel + 1 + itersT ts) (render ts) st = .ok (ts.foldl afterTK st)
  | [], _, _, _, _, st, fuel, _, _ => by simp [itersT, render, stripAux, pure, Except.pure]
  | .atom e :: ts, n, co, fresh, depth, st, fuel, hv, sim => by
    obtain ⟨he, hv'⟩ := hv
    have hh := (render_head ts (n + 1) true true depth hv').1
    rw [render_cons, show fuel + 1 + itersT (.atom e :: ts) = (fuel + 1 + itersT ts) + 1 from by simp [itersT]; omega]
    show stripAux _ (e :: render ts) st = _
    rw [stripAux, atom_step3 e he _ hh st]
    simp only [bind, Except.bind, List.foldl_cons]
    exact stripAux_tokens ts (n + 1) true true depth _ fuel hv'
      ⟨by simp [afterAtom, sim.count], fun _ => rfl, fun _ => rfl, by simp [afterAtom, sim.anchors]⟩
  | .desc d :: ts, n, co, fresh, depth, st, fuel, hv, sim => by
    obtain ⟨hn, hco, hfr, hv'⟩ := hv
    have hnc : st.nodeCount ≠ 0 := by rw [sim.count]; omega
    have hcur := sim.order hco
    have sim' : Sim n co fresh depth (afterDesc st d) :=
      ⟨by simp [afterDesc, sim.count], fun h => by simp [afterDesc, sim.order h], fun h => by simp [afterDesc, sim.prev h],
        by simp [afterDesc, sim.anchors]⟩
    have ih := stripAux_tokens ts n co fresh depth (afterDesc st d) fuel hv' sim'
    rw [render_cons]
    show stripAux _ (d.fmt ++ render ts) st = _
    simp only [List.foldl_cons, itersT]
    by_cases h1 : d.o = 1
    · have := stripAux_desc d (render ts) st (fuel + itersT ts) hnc hcur
      simp only [h1, if_true] at this
      rw [show fuel + 1 + (itersD d + itersT ts) = fuel + itersT ts + 2 from by simp [itersD, h1]; omega]
      rw [this, show fuel + itersT ts + 1 = fuel + 1 + itersT ts from by omega]
      exact ih
    · have := stripAux_desc d (render ts) st (fuel + 1 + itersT ts) hnc hcur
      simp only [h1, if_false, Nat.add_zero] at this
      rw [show fuel + 1 + (itersD d + itersT ts) = fuel + 1 + itersT ts + 2 from by simp [itersD, h1]; omega]
      rw [this]
      exact ih
  | .bond c :: ts, n, co, fresh, depth, st, fuel, hv, sim => by
    obtain ⟨hc, hv'⟩ := hv
    obtain ⟨o, ho⟩ : ∃ o, bondToOrder2.lookup c = some o := by
      simp only [TK.ok] at hc
      cases hl : bondToOrder2.lookup c with
      | none => rw [hl] at hc; cases hc
      | some o => exact ⟨o, rfl⟩
    rw [render_cons, show fuel + 1 + itersT (.bond c :: ts) = (fuel + 1 + itersT ts) + 1 from by simp [itersT]; omega]
    show stripAux _ (c :: render ts) st = _
    rw [stripAux, bond_step c o ho _ st]
    simp only [bind, Except.bind, List.foldl_cons]
    exact stripAux_tokens ts n false fresh depth _ fuel hv'
      ⟨by simp [afterTK, sim.count], fun h => (by cases h), fun h => by simp [afterTK, sim.prev h], by simp [afterTK, sim.anchors]⟩
  | .ring r :: ts, n, co, fresh, depth, st, fuel, hv, sim => by
    obtain ⟨⟨hne, hall⟩, hnext, hv'⟩ := hv
    obtain ⟨c, cs, rfl⟩ : ∃ c cs, r = c :: cs := by
      cases r with
      | nil => exact absurd rfl hne
      | cons c cs => exact ⟨c, cs, rfl⟩
    have hafter := (render_head ts n true fresh depth hv').2 hnext
    rw [render_cons, show fuel + 1 + itersT (.ring (c :: cs) :: ts) = (fuel + 1 + itersT ts) + 1 from by simp [itersT]; omega]
    show stripAux _ (c :: (cs ++ render ts)) st = _
    rw [stripAux, ring_step c cs (render ts) hall hafter st]
    simp only [bind, Except.bind, List.foldl_cons]
    exact stripAux_tokens ts n true fresh depth _ fuel hv'
      ⟨by simp [afterTK, sim.count], fun _ => rfl, fun h => by simp [afterTK, sim.prev h], by simp [afterTK, sim.anchors]⟩
  | .opn :: ts, n, co, fresh, depth, st, fuel, hv, sim => by
    rw [render_cons, show fuel + 1 + itersT (.opn :: ts) = (fuel + 1 + itersT ts) + 1 from by simp [itersT]; omega]
    show stripAux _ ('(' :: render ts) st = _
    rw [stripAux, opn_step _ st]
    simp only [bind, Except.bind, List.foldl_cons]
    exact stripAux_tokens ts n co fresh (depth + 1) _ fuel hv
      ⟨by simp [afterTK, sim.count], fun h => by simp [afterTK, sim.order h], fun h => by simp [afterTK, sim.prev h],
        by simp [afterTK, sim.anchors]⟩
  | .cls :: ts, n, co, fresh, depth, st, fuel, hv, sim => by
    obtain ⟨hd, hv'⟩ := hv
    have hanc : st.anchor ≠ [] := by
      intro e; have := sim.anchors; rw [e] at this; simp at this; omega
    rw [render_cons, show fuel + 1 + itersT (.cls :: ts) = (fuel + 1 + itersT ts) + 1 from by simp [itersT]; omega]
    show stripAux _ (')' :: render ts) st = _
    rw [stripAux, cls_step _ st hanc]
    simp only [bind, Except.bind, List.foldl_cons]
    exact stripAux_tokens ts n co false (depth - 1) _ fuel hv'
      ⟨by simp [afterTK, sim.count], fun h => by simp [afterTK, sim.order h], fun h => (by cases h),
        by simp [afterTK, sim.anchors]⟩

/-! ### what the folded state holds -/

theorem fold_fields : ∀ (ts : List TK) (n : Nat) (co fresh : Bool) (depth : Nat) (st : StripState),
    Valid n co fresh depth ts → Sim n co fresh depth st →
    (ts.foldl afterTK st).smile = st.smile ++ cleanText ts ∧
    (ts.foldl afterTK st).bonding = specDict n st.bonding ts ∧
    (ts.foldl afterTK st).ez = st.ez ∧ (ts.foldl afterTK st).attrs = st.attrs
  | [], _, _, _, _, st, _, _ => by simp [cleanText, specDict]
  | .atom e :: ts, n, co, fresh, depth, st, hv, sim => by
    obtain ⟨h1, h2, h3, h4⟩ := fold_fields ts (n + 1) true true depth (afterAtom st e) hv.2
      ⟨by simp [afterAtom, sim.count], fun _ => rfl, fun _ => rfl, by simp [afterAtom, sim.anchors]⟩
    simp only [List.foldl_cons, afterTK]
    exact ⟨by rw [h1]; simp [afterAtom, cleanText, TK.clean, TK.text], by rw [h2]; simp [afterAtom, specDict], h3, h4⟩
  | .desc d :: ts, n, co, fresh, depth, st, hv, sim => by
    obtain ⟨hn, hco, hfr, hv'⟩ := hv
    obtain ⟨h1, h2, h3, h4⟩ := fold_fields ts n co fresh depth (afterDesc st d) hv'
      ⟨by simp [afterDesc, sim.count], fun h => by simp [afterDesc, sim.order h], fun h => by simp [afterDesc, sim.prev h],
        by simp [afterDesc, sim.anchors]⟩
    have hp : st.prevNode = n - 1 := by have := sim.prev hfr; have := sim.count; omega
    simp only [List.foldl_cons, afterTK]
    exact ⟨by rw [h1]; simp [afterDesc, cleanText, TK.clean], by rw [h2]; simp [afterDesc, specDict, hp], h3, h4⟩
  | .bond c :: ts, n, co, fresh, depth, st, hv, sim => by
    obtain ⟨h1, h2, h3, h4⟩ := fold_fields ts n false fresh depth (afterTK st (.bond c)) hv.2
      ⟨by simp [afterTK, sim.count], fun h => (by cases h), fun h => by simp [afterTK, sim.prev h], by simp [afterTK, sim.anchors]⟩
    simp only [List.foldl_cons]
    exact ⟨by rw [h1]; simp [afterTK, cleanText, TK.clean, TK.text], by rw [h2]; simp [afterTK, specDict], h3, h4⟩
  | .ring r :: ts, n, co, fresh, depth, st, hv, sim => by
    obtain ⟨h1, h2, h3, h4⟩ := fold_fields ts n true fresh depth (afterTK st (.ring r)) hv.2.2
      ⟨by simp [afterTK, sim.count], fun _ => rfl, fun h => by simp [afterTK, sim.prev h], by simp [afterTK, sim.anchors]⟩
    simp only [List.foldl_cons]
    exact ⟨by rw [h1]; simp [afterTK, cleanText, TK.clean, TK.text], by rw [h2]; simp [afterTK, specDict], h3, h4⟩
  | .opn :: ts, n, co, fresh, depth, st, hv, sim => by
    obtain ⟨h1, h2, h3, h4⟩ := fold_fields ts n co fresh (depth + 1) (afterTK st .opn) hv
      ⟨by simp [afterTK, sim.count], fun h => by simp [afterTK, sim.order h], fun h => by simp [afterTK, sim.prev h],
        by simp [afterTK, sim.anchors]⟩
    simp only [List.foldl_cons]
    exact ⟨by rw [h1]; simp [afterTK, cleanText, TK.clean, TK.text], by rw [h2]; simp [afterTK, specDict], h3, h4⟩
  | .cls :: ts, n, co, fresh, depth, st, hv, sim => by
    obtain ⟨h1, h2, h3, h4⟩ := fold_fields ts n co false (depth - 1) (afterTK st .cls) hv.2
      ⟨by simp [afterTK, sim.count], fun h => by simp [afterTK, sim.order h], fun h => (by cases h),
        by simp [afterTK, sim.anchors]⟩
    simp only [List.foldl_cons]
    exact ⟨by rw [h1]; simp [afterTK, cleanText, TK.clean, TK.text], by rw [h2]; simp [afterTK, specDict], h3, h4⟩

theorem itersT_le : ∀ (ts : List TK) (n : Nat) (co fresh : Bool) (depth : Nat), Valid n co fresh depth ts →
    itersT ts ≤ (render ts).length
  | [], _, _, _, _, _ => by simp [itersT]
  | .atom e :: ts, n, co, fresh, depth, hv => by
    have := itersT_le ts _ _ _ _ hv.2
    simp only [itersT, render_cons, TK.text, List.length_append, List.length_singleton]; omega
  | .desc d :: ts, n, co, fresh, depth, hv => by
    have := itersT_le ts _ _ _ _ hv.2.2.2
    have := itersD_le d
    simp only [itersT, render_cons, TK.text, List.length_append]; omega
  | .bond c :: ts, n, co, fresh, depth, hv => by
    have := itersT_le ts _ _ _ _ hv.2
    simp only [itersT, render_cons, TK.text, List.length_append, List.length_singleton]; omega
  | .ring r :: ts, n, co, fresh, depth, hv => by
    have := itersT_le ts _ _ _ _ hv.2.2
    have hne : 1 ≤ r.length := by
      cases r with
      | nil => exact absurd rfl hv.1.1
      | cons _ _ => simp
    simp only [itersT, render_cons, TK.text, List.length_append]; omega
  | .opn :: ts, n, co, fresh, depth, hv => by
    have := itersT_le ts _ _ _ _ hv
    simp only [itersT, render_cons, TK.text, List.length_append, List.length_singleton]; omega
  | .cls :: ts, n, co, fresh, depth, hv => by
    have := itersT_le ts _ _ _ _ hv.2
    simp only [itersT, render_cons, TK.text, List.length_append, List.length_singleton]; omega

/-- **C13 for fragment texts with branches, ring digits and bond symbols.**  Any stream of plain atoms,
    bond symbols, ring-closure runs, balanced parentheses and bonding descriptors (each written after an
    atom, after that atom's ring digits or after another descriptor of the same atom): the clean text is the
    text without the descriptors, the dictionary holds every descriptor — kind, label, order digit — under
    the index of the atom it was written after, in the order written; no slash marks, no annotations. -/
theorem C13_tokens (ts : List TK) (hv : Valid 0 true false 0 ts)
    (hascii : ((render ts).any fun c => decide (c.toNat > 127)) = false) :
    strip (render ts) = .ok ⟨cleanText ts, specDict 0 [] ts, [], []⟩ := by
  unfold strip
  simp only [hascii, Bool.false_eq_true, if_false]
  have hle := itersT_le ts 0 true false 0 hv
  have sim : Sim 0 true false 0 ({} : StripState) := ⟨rfl, fun _ => rfl, fun h => (by cases h), rfl⟩
  rw [show (render ts).length + 1 = ((render ts).length - itersT ts) + 1 + itersT ts from by omega]
  rw [stripAux_tokens ts 0 true false 0 {} _ hv sim]
  obtain ⟨h1, h2, h3, h4⟩ := fold_fields ts 0 true false 0 {} hv sim
  simp only [bind, Except.bind, pure, Except.pure, h1, h2, h3, h4]
  rfl

/-! worked instance: descriptors after an atom, inside a branch with a bond symbol, and after ring digits -/
def dA : WFDesc := ⟨'$', "a".toList, 1, by decide, by decide, by decide⟩
def dB : WFDesc := ⟨'>', "b".toList, 2, by decide, by decide, by decide⟩
def dC : WFDesc := ⟨'<', [], 1, by decide, by decide, by decide⟩
def exToks : List TK :=
  [.atom 'C', .desc dA, .ring "1".toList, .opn, .atom 'C', .desc dB, .cls, .bond '=', .atom 'C', .atom 'C', .ring "1".toList, .desc dC]
example : render exToks = "C[$a]1(C=[>b])=CC1[<]".toList := by decide +kernel
example : Valid 0 true false 0 exToks := by
  simp only [exToks, Valid, TK.ok, TK.isRing, List.head?_cons, Option.map_some]
  decide +kernel
example : cleanText exToks = "C1(C)=CC1".toList ∧
    specDict 0 [] exToks = [(0, ["$a1".toList]), (1, [">b2".toList]), (3, ["<1".toList])] := by decide +kernel

end CGV.C13
