/-
  C13 for fragment texts with branches, ring digits and bond symbols: a text made of plain atoms, bond
  symbols, ring-closure runs (digits and %nn, with or without a ring bond symbol in front), parentheses
  and bonding descriptors written after an atom, after the atom's ring digits, after another descriptor
  or after a closing parenthesis — any length, any nesting — is separated exactly: the clean text is the
  text without the descriptors, every descriptor is reported on the atom it was written after (counting
  atoms in order of appearance, also inside branches; after a closing parenthesis that is the atom the
  branch hangs on), in the order written, with its order; nothing else is reported.
-/
import CGV.Props.C13Chain
namespace CGV.C13
open CGV Gen
set_option linter.unusedSimpArgs false

inductive TK
  | atom (e : Char)
  | atom2 (e c : Char)      -- a two-letter element: `Cl`, `Br`, `Si`, `Mg`, `Na`
  | node (inner : Str)      -- a bracket atom without annotations: `[#name]`, `[nH]`, `[O-]`
  | anode (nm anno : Str) -- a bracket atom with annotations: `[#name;q=1]`, `[C;w=0.5;x=S]`
  | slash (c : Char)        -- an E/Z mark `/` or `\`
  | desc (d : WFDesc)
  | bond (c : Char)
  | ring (run : Str)
  | opn
  | cls

def TK.text : TK → Str
  | .atom e => [e]
  | .atom2 e c => [e, c]
  | .node inner => '[' :: (inner ++ [']'])
  | .anode nm anno => '[' :: (nm ++ ';' :: (anno ++ [']']))
  | .slash c => [c]
  | .desc d => d.fmt
  | .bond c => [c]
  | .ring r => r
  | .opn => ['(']
  | .cls => [')']

/-- what stays in the clean text -/
def TK.clean : TK → Str
  | .desc _ => []
  | .slash _ => []
  | .anode nm _ => '[' :: (nm ++ [']'])
  | t => t.text

def render (ts : List TK) : Str := ts.flatMap TK.text
def cleanText (ts : List TK) : Str := ts.flatMap TK.clean

/-- where we are in the text: `n` = atoms seen so far, `prev` = the atom a descriptor or mark written here
    belongs to (the last atom, or after a closing parenthesis the atom the closed branch hangs on), `stk` =
    the atoms the open branches hang on, innermost first -/
structure Pos where
  n : Nat := 0
  prev : Nat := 0
  stk : List Nat := []

def Pos.after (p : Pos) : TK → Pos
  | .atom _ => ⟨p.n + 1, p.n, p.stk⟩
  | .atom2 _ _ => ⟨p.n + 1, p.n, p.stk⟩
  | .node _ => ⟨p.n + 1, p.n, p.stk⟩
  | .anode _ _ => ⟨p.n + 1, p.n, p.stk⟩
  | .opn => ⟨p.n, p.prev, p.prev :: p.stk⟩
  | .cls => ⟨p.n, p.stk.headD 0, p.stk.tail⟩
  | .desc _ => p
  | .bond _ => p
  | .ring _ => p
  | .slash _ => p

/-- the dictionary the property describes: every descriptor under the index of the atom it was written after -/
def specDict : Pos → List (Nat × List Desc) → List TK → List (Nat × List Desc)
  | _, b, [] => b
  | p, b, t :: ts =>
    match t with
    | .desc d => specDict p (appendDesc b p.prev d.text) ts
    | t => specDict (p.after t) b ts

/-- the E/Z marks: every slash is recorded on the atom before it and on the atom that follows it (a later
    mark on the same atom replaces the earlier one) -/
def specEz : Pos → List (Nat × Char) → List TK → List (Nat × Char)
  | _, z, [] => z
  | p, z, t :: ts =>
    match t with
    | .slash c => specEz p (pySet (pySet z p.n c) p.prev c) ts
    | t => specEz (p.after t) z ts

/-- what the fragment dialect gives an atom written without annotations -/
def bareAttrs : Attrs := [("weight".toList, .num 1 0)]

/-- what the fragment dialect (C14) makes of an annotation text -/
def annoOf (anno : Str) : Attrs :=
  match parseFrag anno with
  | .ok a => a.foldl (fun acc (kv : Str × AVal) => pySet acc kv.1 kv.2) []
  | .error _ => []

/-- the annotation dictionary: one entry per bracket atom, under its atom index -/
def specAttrs : Nat → List TK → List (Nat × Attrs)
  | _, [] => []
  | n, t :: ts =>
    match t with
    | .atom _ => specAttrs (n + 1) ts
    | .atom2 _ _ => specAttrs (n + 1) ts
    | .node _ => (n, bareAttrs) :: specAttrs (n + 1) ts
    | .anode _ anno => (n, annoOf anno) :: specAttrs (n + 1) ts
    | _ => specAttrs n ts

def ringChar (c : Char) : Bool := c.isDigit || c == '%'

/-- well-formed token -/
def TK.ok : TK → Prop
  | .atom e => e ∈ plainAtoms
  | .atom2 e c => [e, c] ∈ twoLetterElements
  | .node inner => (∃ c r, inner = c :: r ∧ descriptorKinds.contains c = false) ∧ ']' ∉ inner ∧ ';' ∉ inner
  | .anode nm anno => (∃ c r, nm = c :: r ∧ descriptorKinds.contains c = false) ∧ ']' ∉ nm ∧ ';' ∉ nm ∧
      ']' ∉ anno ∧ ∃ a, parseFrag anno = .ok a
  | .slash c => c = '/' ∨ c = '\\'
  | .desc _ => True
  | .bond c => (bondToOrder2.lookup c).isSome = true
  | .ring r => r ≠ [] ∧ r.all ringChar = true
  | .opn => True
  | .cls => True

def TK.isRing : TK → Bool
  | .ring _ => true
  | _ => false

/-- where a descriptor may stand, and parentheses balanced: `co` = no bond symbol pending, `n` = atoms so
    far, `depth` = open branches -/
def Valid : Nat → Bool → Nat → List TK → Prop
  | _, _, _, [] => True
  | n, _, depth, .atom e :: ts => TK.ok (.atom e) ∧ Valid (n + 1) true depth ts
  | n, _, depth, .atom2 e c :: ts => TK.ok (.atom2 e c) ∧ Valid (n + 1) true depth ts
  | n, _, depth, .node i :: ts => TK.ok (.node i) ∧ Valid (n + 1) true depth ts
  | n, _, depth, .anode a x :: ts => TK.ok (.anode a x) ∧ Valid (n + 1) true depth ts
  | n, co, depth, .slash c :: ts => TK.ok (.slash c) ∧ Valid n co depth ts
  | n, co, depth, .desc d :: ts => 0 < n ∧ co = true ∧ Valid n co depth ts
  | n, _, depth, .bond c :: ts => TK.ok (.bond c) ∧ Valid n false depth ts
  | n, _, depth, .ring r :: ts => TK.ok (.ring r) ∧ (ts.head?.map TK.isRing ≠ some true) ∧ Valid n true depth ts
  | n, co, depth, .opn :: ts => Valid n co (depth + 1) ts
  | n, co, depth, .cls :: ts => 0 < depth ∧ Valid n co (depth - 1) ts

/-! ### one loop iteration per token -/

def afterTK (st : StripState) : TK → StripState
  | .atom e => afterAtom st e
  | .atom2 e c => { st with smile := st.smile ++ [e, c], currentOrder := none, prevNode := st.nodeCount,
                            nodeCount := st.nodeCount + 1 }
  | .anode nm anno => { st with attrs := pySet st.attrs st.nodeCount
                                        ((match parseFrag anno with | .ok a => a | .error _ => []).foldl
                                          (fun acc (kv : Str × AVal) => pySet acc kv.1 kv.2) ((st.attrs.lookup st.nodeCount).getD [])),
                                  smile := st.smile ++ ['['] ++ nm ++ [']'],
                                  prevNode := st.nodeCount, nodeCount := st.nodeCount + 1, currentOrder := none }
  | .slash c => { st with ez := pySet (pySet st.ez st.nodeCount c) st.prevNode c }
  | .node inner => { st with attrs := pySet st.attrs st.nodeCount
                                        (bareAttrs.foldl (fun acc (kv : Str × AVal) => pySet acc kv.1 kv.2) ((st.attrs.lookup st.nodeCount).getD [])),
                             smile := st.smile ++ ['['] ++ inner ++ [']'],
                             prevNode := st.nodeCount, nodeCount := st.nodeCount + 1, currentOrder := none }
  | .desc d => afterDesc st d
  | .bond c => { st with currentOrder := bondToOrder2.lookup c, smile := st.smile ++ [c] }
  | .ring r => { st with smile := st.smile ++ r, currentOrder := none }
  | .opn => { st with anchor := st.anchor ++ [st.prevNode], smile := st.smile ++ ['('] }
  | .cls => { st with prevNode := st.anchor.getLast?.getD 0, anchor := st.anchor.dropLast, smile := st.smile ++ [')'] }

def itersT : List TK → Nat
  | [] => 0
  | .desc d :: ts => itersD d + itersT ts
  | _ :: ts => 1 + itersT ts

theorem bond_step (c : Char) (o : Nat) (hc : bondToOrder2.lookup c = some o) (rest : Str) (st : StripState) :
    stripStep c rest st = .ok (rest, afterTK st (.bond c)) := by
  have : c = '-' ∨ c = '=' ∨ c = '#' ∨ c = '$' ∨ c = ':' ∨ c = '.' := by
    by_cases h1 : c = '-'; · exact Or.inl h1
    by_cases h2 : c = '='; · exact Or.inr (Or.inl h2)
    by_cases h3 : c = '#'; · exact Or.inr (Or.inr (Or.inl h3))
    by_cases h4 : c = '$'; · exact Or.inr (Or.inr (Or.inr (Or.inl h4)))
    by_cases h5 : c = ':'; · exact Or.inr (Or.inr (Or.inr (Or.inr (Or.inl h5))))
    by_cases h6 : c = '.'; · exact Or.inr (Or.inr (Or.inr (Or.inr (Or.inr h6))))
    have ne : ∀ x, c ≠ x → (c == x) = false := fun x h => by simpa using h
    simp [bondToOrder2, List.lookup, ne _ h1, ne _ h2, ne _ h3, ne _ h4, ne _ h5, ne _ h6] at hc
  rcases this with rfl | rfl | rfl | rfl | rfl | rfl <;>
    simp [stripStep, afterTK, bondToOrder2, List.lookup, pure, Except.pure]

theorem opn_step (rest : Str) (st : StripState) : stripStep '(' rest st = .ok (rest, afterTK st .opn) := by
  simp [stripStep, afterTK, pure, Except.pure]

theorem cls_step (rest : Str) (st : StripState) (h : st.anchor ≠ []) : stripStep ')' rest st = .ok (rest, afterTK st .cls) := by
  have hl : st.anchor.getLast? = some (st.anchor.getLast h) := List.getLast?_eq_some_getLast h
  simp [stripStep, afterTK, hl, pure, Except.pure]

theorem span_loop_run (p : Char → Bool) : ∀ (r after acc : Str), r.all p = true → (after.head?.map p ≠ some true) →
    List.span.loop p (r ++ after) acc = (acc.reverse ++ r, after)
  | [], after, acc, _, h => by
    cases after with
    | nil => simp [List.span.loop]
    | cons c cs =>
      have : p c = false := by
        cases hp : p c with
        | false => rfl
        | true => simp [hp] at h
      simp [List.span.loop, this]
  | c :: cs, after, acc, hr, h => by
    simp only [List.all_cons, Bool.and_eq_true] at hr
    have ih := span_loop_run p cs after (c :: acc) hr.2 h
    simp only [List.cons_append, List.span.loop, hr.1, ih, List.reverse_cons, List.append_assoc, List.singleton_append,
      List.nil_append]

theorem span_run (p : Char → Bool) (r after : Str) (hr : r.all p = true) (h : after.head?.map p ≠ some true) :
    (r ++ after).span p = (r, after) := by
  unfold List.span
  rw [span_loop_run p r after [] hr h]; rfl

theorem takeBracket_inner (inner rest : Str) (h : ']' ∉ inner) : takeBracket (inner ++ ']' :: rest) = some (inner, rest) :=
  takeBracket_label inner rest h

theorem span_no_semicolon (inner : Str) (h : ';' ∉ inner) : inner.span (· != ';') = (inner, []) := by
  have := span_run (fun c => c != ';') inner [] (by
    rw [List.all_eq_true]; intro c hc; simp only [bne_iff_ne, ne_eq]; intro e; exact h (e ▸ hc)) (by simp)
  simpa using this

theorem node_step (inner rest : Str) (st : StripState) (hok : TK.ok (.node inner)) :
    stripStep '[' (inner ++ ']' :: rest) st = .ok (rest, afterTK st (.node inner)) := by
  obtain ⟨⟨c, r, rfl, hk⟩, hb, hs⟩ := hok
  have htb := takeBracket_inner (c :: r) rest hb
  have hsp : splitAtomAnno (c :: r) = (c :: r, []) := by
    unfold splitAtomAnno; rw [span_no_semicolon (c :: r) hs]
  have hpf : parseFrag [] = .ok bareAttrs := by decide +kernel
  simp only [stripStep, beq_self_eq_true, if_true, List.cons_append, hk, Bool.false_eq_true, if_false]
  rw [show c :: (r ++ ']' :: rest) = (c :: r) ++ ']' :: rest from rfl, htb]
  simp only [hsp, hpf, bind, Except.bind, pure, Except.pure, afterTK]

theorem anode_step (nm anno rest : Str) (st : StripState) (hok : TK.ok (.anode nm anno)) :
    stripStep '[' (nm ++ ';' :: (anno ++ ']' :: rest)) st = .ok (rest, afterTK st (.anode nm anno)) := by
  obtain ⟨⟨c, r, rfl, hk⟩, hb, hs, hb2, a, ha⟩ := hok
  have hin : ']' ∉ (c :: r) ++ ';' :: anno := by
    intro hm
    rcases List.mem_append.mp hm with h | h
    · exact hb h
    · rcases List.mem_cons.mp h with e | h
      · cases e
      · exact hb2 h
  have htb := takeBracket_inner ((c :: r) ++ ';' :: anno) rest hin
  have hsp : splitAtomAnno ((c :: r) ++ ';' :: anno) = (c :: r, anno) := by
    unfold splitAtomAnno
    rw [span_run (fun x => x != ';') (c :: r) (';' :: anno) (by
      rw [List.all_eq_true]; intro x hx; simp only [bne_iff_ne, ne_eq]; intro e; exact hs (e ▸ hx)) (by simp)]
  simp only [stripStep, beq_self_eq_true, if_true, List.cons_append, hk, Bool.false_eq_true, if_false]
  rw [show c :: (r ++ ';' :: (anno ++ ']' :: rest)) = ((c :: r) ++ ';' :: anno) ++ ']' :: rest from by simp, htb]
  simp only [hsp, ha, bind, Except.bind, pure, Except.pure, afterTK]

theorem atom2_step (e c : Char) (h : [e, c] ∈ twoLetterElements) (rest : Str) (st : StripState) :
    stripStep e (c :: rest) st = .ok (rest, afterTK st (.atom2 e c)) := by
  have key : ∀ x ∈ twoLetterElements, ∀ e c, x = [e, c] →
      (e == '[') = false ∧ (e == '(') = false ∧ (e == ')') = false ∧ bondToOrder2.lookup e = none ∧
      (e == '%' || e.isDigit) = false ∧ pyStrIn [e] passThroughChars = false ∧ pyStrIn [e] ezChars = false := by
    intro x hx
    have : x = ['C', 'l'] ∨ x = ['B', 'r'] ∨ x = ['S', 'i'] ∨ x = ['M', 'g'] ∨ x = ['N', 'a'] := by
      simpa [twoLetterElements] using hx
    rcases this with rfl | rfl | rfl | rfl | rfl <;> intro e c hec <;> cases hec <;> decide +kernel
  obtain ⟨h1, h2, h3, h4, h5, h6, h7⟩ := key _ h e c rfl
  have h8 : twoLetterElements.contains [e, c] = true := List.contains_iff_mem.mpr h
  simp [stripStep, afterTK, h1, h2, h3, h4, h5, h6, h7, h, pure, Except.pure]

theorem slash_step (c : Char) (h : c = '/' ∨ c = '\\') (rest : Str) (st : StripState) :
    stripStep c rest st = .ok (rest, afterTK st (.slash c)) := by
  rcases h with rfl | rfl <;>
    simp [stripStep, afterTK, bondToOrder2, List.lookup, pyStrIn, passThroughChars, ezChars, pure, Except.pure]

theorem ring_step (c : Char) (cs after : Str) (hr : (c :: cs).all ringChar = true)
    (hafter : after.head?.map ringChar ≠ some true) (st : StripState) :
    stripStep c (cs ++ after) st = .ok (after, afterTK st (.ring (c :: cs))) := by
  have hc : ringChar c = true := by simp only [List.all_cons, Bool.and_eq_true] at hr; exact hr.1
  have facts : ∀ x : Char, ringChar x = true → (x == '[') = false ∧ (x == '(') = false ∧ (x == ')') = false ∧
      bondToOrder2.lookup x = none := by
    intro x hx
    unfold ringChar at hx
    rcases Bool.or_eq_true_iff.mp hx with hd | hp
    · have h1 : x ≠ '[' := by intro e; subst e; revert hd; decide
      have h2 : x ≠ '(' := by intro e; subst e; revert hd; decide
      have h3 : x ≠ ')' := by intro e; subst e; revert hd; decide
      refine ⟨by simpa using h1, by simpa using h2, by simpa using h3, ?_⟩
      have ne : ∀ y : Char, y.isDigit = false → (x == y) = false := by
        intro y hy; simp only [beq_eq_false_iff_ne, ne_eq]; intro e; subst e; rw [hd] at hy; cases hy
      simp [bondToOrder2, List.lookup, ne '-' (by decide), ne '=' (by decide), ne '#' (by decide), ne '$' (by decide),
        ne ':' (by decide), ne '.' (by decide)]
    · have : x = '%' := by simpa using hp
      subst this; decide
  obtain ⟨f1, f2, f3, f4⟩ := facts c hc
  have hrc : (c == '%' || c.isDigit) = true := by
    unfold ringChar at hc; rw [Bool.or_comm]; exact hc
  have hspan : ringRun (c :: (cs ++ after)) = (c :: cs, after) := by
    unfold ringRun
    exact span_run ringChar (c :: cs) after hr hafter
  simp only [stripStep, f1, f2, f3, f4, hrc, Bool.false_eq_true, if_false, if_true, hspan, afterTK, pure, Except.pure]

/-! ### what can follow a token -/

/-- second letters of the two-letter elements the reader knows -/
def secondLetters : List Char := ['l', 'r', 'i', 'g', 'a']

theorem atom_step3 (e : Char) (he : e ∈ plainAtoms) (rest : Str) (hrest : rest.head?.all (fun c => !secondLetters.contains c) = true)
    (st : StripState) : stripStep e rest st = .ok (rest, afterAtom st e) := by
  have key : ∀ e ∈ plainAtoms,
      (e == '[') = false ∧ (e == '(') = false ∧ (e == ')') = false ∧ bondToOrder2.lookup e = none ∧
      (e == '%' || e.isDigit) = false ∧ pyStrIn [e] passThroughChars = false ∧ pyStrIn [e] ezChars = false := by decide +kernel
  obtain ⟨h1, h2, h3, h4, h5, h6, h7⟩ := key e he
  cases rest with
  | nil => simp [stripStep, afterAtom, h1, h2, h3, h4, h5, h6, h7, pure, Except.pure]
  | cons c r =>
    have hc : secondLetters.contains c = false := by simpa using hrest
    have h8 : twoLetterElements.contains [e, c] = false := by
      have : ∀ x ∈ twoLetterElements, secondLetters.contains (x.getD 1 ' ') = true := by decide +kernel
      cases hh : twoLetterElements.contains [e, c] with
      | false => rfl
      | true =>
        have e2 := this _ (List.contains_iff_mem.mp hh)
        simp only [List.getD_cons_succ, List.getD_cons_zero] at e2
        rw [e2] at hc; cases hc
    have h8' : ¬ [e, c] ∈ twoLetterElements := by simpa using h8
    simp [stripStep, afterAtom, h1, h2, h3, h4, h5, h6, h7, h8', pure, Except.pure]

/-- the first character of a well-formed token -/
theorem tk_head (t : TK) (ht : t.ok) : ∃ c r, t.text = c :: r ∧ secondLetters.contains c = false ∧
    (t.isRing = false → ringChar c = false) := by
  cases t with
  | atom e =>
    have : ∀ e ∈ plainAtoms, secondLetters.contains e = false ∧ ringChar e = false := by decide +kernel
    exact ⟨e, [], rfl, (this e ht).1, fun _ => (this e ht).2⟩
  | atom2 e c =>
    have : ∀ x ∈ twoLetterElements, secondLetters.contains (x.getD 0 ' ') = false ∧ ringChar (x.getD 0 ' ') = false := by
      decide +kernel
    have h := this _ ht
    simp only [List.getD_cons_zero] at h
    exact ⟨e, [c], rfl, h.1, fun _ => h.2⟩
  | node inner => exact ⟨'[', inner ++ [']'], rfl, by decide +kernel, fun _ => by decide +kernel⟩
  | anode nm anno => exact ⟨'[', nm ++ ';' :: (anno ++ [']']), rfl, by decide +kernel, fun _ => by decide +kernel⟩
  | slash c =>
    have hc : c = '/' ∨ c = '\\' := ht
    rcases hc with rfl | rfl
    · exact ⟨'/', [], rfl, by decide +kernel, fun _ => by decide +kernel⟩
    · exact ⟨'\\', [], rfl, by decide +kernel, fun _ => by decide +kernel⟩
  | desc d =>
    obtain ⟨c, r, h1, h2⟩ := fmt_head d
    have : ∀ c ∈ ['[', '.', '=', '#', '$'], secondLetters.contains c = false ∧ ringChar c = false := by decide +kernel
    exact ⟨c, r, h1, (this c h2).1, fun _ => (this c h2).2⟩
  | bond c =>
    have hc : c ∈ bondToOrder2.map (·.1) := by
      simp only [TK.ok] at ht
      cases hl : bondToOrder2.lookup c with
      | none => rw [hl] at ht; cases ht
      | some o =>
        obtain ⟨l1, l2, e, _⟩ := List.lookup_eq_some_iff.mp hl
        rw [e]; simp
    have : ∀ c ∈ bondToOrder2.map (·.1), secondLetters.contains c = false ∧ ringChar c = false := by decide +kernel
    exact ⟨c, [], rfl, (this c hc).1, fun _ => (this c hc).2⟩
  | ring r =>
    obtain ⟨hne, hall⟩ := ht
    cases r with
    | nil => exact absurd rfl hne
    | cons c cs =>
      simp only [List.all_cons, Bool.and_eq_true] at hall
      refine ⟨c, cs, rfl, ?_, fun h => by cases h⟩
      have : ∀ x ∈ secondLetters, ringChar x = false := by decide +kernel
      cases hh : secondLetters.contains c with
      | false => rfl
      | true => have := this c (List.contains_iff_mem.mp hh); rw [hall.1] at this; cases this
  | opn => exact ⟨'(', [], rfl, by decide +kernel, fun _ => by decide +kernel⟩
  | cls => exact ⟨')', [], rfl, by decide +kernel, fun _ => by decide +kernel⟩

theorem valid_head_ok : ∀ (ts : List TK) (n : Nat) (co : Bool) (depth : Nat), Valid n co depth ts →
    ∀ t ∈ ts.head?, t.ok
  | [], _, _, _, _, t, h => by simp at h
  | t0 :: ts, n, co, depth, hv, t, h => by
    simp only [List.head?_cons, Option.mem_def, Option.some.injEq] at h
    subst h
    cases t0 with
    | atom e => exact hv.1
    | atom2 e c => exact hv.1
    | node i => exact hv.1
    | anode a x => exact hv.1
    | slash c => exact hv.1
    | desc d => trivial
    | bond c => exact hv.1
    | ring r => exact hv.1
    | opn => trivial
    | cls => trivial

theorem render_head (ts : List TK) (n : Nat) (co : Bool) (depth : Nat) (hv : Valid n co depth ts) :
    (render ts).head?.all (fun c => !secondLetters.contains c) = true ∧
    (ts.head?.map TK.isRing ≠ some true → (render ts).head?.map ringChar ≠ some true) := by
  cases ts with
  | nil => simp [render]
  | cons t ts' =>
    obtain ⟨c, r, h1, h2, h3⟩ := tk_head t (valid_head_ok _ n co depth hv t (by simp))
    have : render (t :: ts') = c :: (r ++ render ts') := by simp [render, h1]
    rw [this]
    refine ⟨by simp only [List.head?_cons, Option.all_some, h2]; rfl, ?_⟩
    intro hr
    simp only [List.head?_cons, Option.map_some, ne_eq, Option.some.injEq] at hr ⊢
    have := h3 (by cases hh : t.isRing <;> simp_all)
    rw [this]; simp

/-! ### the loop on a token stream -/

/-- what the loop state knows: atoms so far, no pending bond symbol, open branches -/
structure Sim (n : Nat) (co : Bool) (depth : Nat) (st : StripState) : Prop where
  count : st.nodeCount = n
  order : co = true → st.currentOrder = none
  anchors : st.anchor.length = depth

theorem render_cons (t : TK) (ts : List TK) : render (t :: ts) = t.text ++ render ts := by simp [render]

/-- the loop takes exactly `itersT ts` iterations on a valid token stream and ends in the folded state -/
theorem stripAux_tokens : ∀ (ts : List TK) (n : Nat) (co : Bool) (depth : Nat) (st : StripState) (fuel : Nat),
    Valid n co depth ts → Sim n co depth st →
    stripAux (fuel + 1 + itersT ts) (render ts) st = .ok (ts.foldl afterTK st)
  | [], _, _, _, st, fuel, _, _ => by simp [itersT, render, stripAux, pure, Except.pure]
  | .atom e :: ts, n, co, depth, st, fuel, hv, sim => by
    obtain ⟨he, hv'⟩ := hv
    have hh := (render_head ts (n + 1) true depth hv').1
    rw [render_cons, show fuel + 1 + itersT (.atom e :: ts) = (fuel + 1 + itersT ts) + 1 from by simp [itersT]; omega]
    show stripAux _ (e :: render ts) st = _
    rw [stripAux, atom_step3 e he _ hh st]
    simp only [bind, Except.bind, List.foldl_cons]
    exact stripAux_tokens ts (n + 1) true depth _ fuel hv'
      ⟨by simp [afterAtom, sim.count], fun _ => rfl, by simp [afterAtom, sim.anchors]⟩
  | .atom2 e c :: ts, n, co, depth, st, fuel, hv, sim => by
    obtain ⟨he, hv'⟩ := hv
    rw [render_cons, show fuel + 1 + itersT (.atom2 e c :: ts) = (fuel + 1 + itersT ts) + 1 from by simp [itersT]; omega]
    show stripAux _ (e :: c :: render ts) st = _
    rw [stripAux, atom2_step e c he _ st]
    simp only [bind, Except.bind, List.foldl_cons]
    exact stripAux_tokens ts (n + 1) true depth _ fuel hv'
      ⟨by simp [afterTK, sim.count], fun _ => rfl, by simp [afterTK, sim.anchors]⟩
  | .node inner :: ts, n, co, depth, st, fuel, hv, sim => by
    obtain ⟨hok, hv'⟩ := hv
    rw [render_cons, show fuel + 1 + itersT (.node inner :: ts) = (fuel + 1 + itersT ts) + 1 from by simp [itersT]; omega]
    show stripAux _ ('[' :: (inner ++ [']']) ++ render ts) st = _
    rw [show '[' :: (inner ++ [']']) ++ render ts = '[' :: (inner ++ ']' :: render ts) from by simp]
    rw [stripAux, node_step inner (render ts) st hok]
    simp only [bind, Except.bind, List.foldl_cons]
    exact stripAux_tokens ts (n + 1) true depth _ fuel hv'
      ⟨by simp [afterTK, sim.count], fun _ => rfl, by simp [afterTK, sim.anchors]⟩
  | .anode nm anno :: ts, n, co, depth, st, fuel, hv, sim => by
    obtain ⟨hok, hv'⟩ := hv
    rw [render_cons, show fuel + 1 + itersT (.anode nm anno :: ts) = (fuel + 1 + itersT ts) + 1 from by simp [itersT]; omega]
    show stripAux _ ('[' :: (nm ++ ';' :: (anno ++ [']'])) ++ render ts) st = _
    rw [show '[' :: (nm ++ ';' :: (anno ++ [']'])) ++ render ts = '[' :: (nm ++ ';' :: (anno ++ ']' :: render ts)) from by simp]
    rw [stripAux, anode_step nm anno (render ts) st hok]
    simp only [bind, Except.bind, List.foldl_cons]
    exact stripAux_tokens ts (n + 1) true depth _ fuel hv'
      ⟨by simp [afterTK, sim.count], fun _ => rfl, by simp [afterTK, sim.anchors]⟩
  | .slash c :: ts, n, co, depth, st, fuel, hv, sim => by
    obtain ⟨hc, hv'⟩ := hv
    rw [render_cons, show fuel + 1 + itersT (.slash c :: ts) = (fuel + 1 + itersT ts) + 1 from by simp [itersT]; omega]
    show stripAux _ (c :: render ts) st = _
    rw [stripAux, slash_step c hc _ st]
    simp only [bind, Except.bind, List.foldl_cons]
    exact stripAux_tokens ts n co depth _ fuel hv'
      ⟨by simp [afterTK, sim.count], fun h => by simp [afterTK, sim.order h], by simp [afterTK, sim.anchors]⟩
  | .desc d :: ts, n, co, depth, st, fuel, hv, sim => by
    obtain ⟨hn, hco, hv'⟩ := hv
    have hnc : st.nodeCount ≠ 0 := by rw [sim.count]; omega
    have hcur := sim.order hco
    have sim' : Sim n co depth (afterDesc st d) :=
      ⟨by simp [afterDesc, sim.count], fun h => by simp [afterDesc, sim.order h], by simp [afterDesc, sim.anchors]⟩
    have ih := stripAux_tokens ts n co depth (afterDesc st d) fuel hv' sim'
    rw [render_cons]
    show stripAux _ (d.fmt ++ render ts) st = _
    simp only [List.foldl_cons, itersT]
    by_cases h1 : d.o = 1
    · have := stripAux_desc d (render ts) st (fuel + itersT ts) hnc hcur
      simp only [h1, if_true] at this
      rw [show fuel + 1 + (itersD d + itersT ts) = fuel + itersT ts + 2 from by simp [itersD, h1]; omega]
      rw [this, show fuel + itersT ts + 1 = fuel + 1 + itersT ts from by omega]
      exact ih
    · have := stripAux_desc d (render ts) st (fuel + 1 + itersT ts) hnc hcur
      simp only [h1, if_false, Nat.add_zero] at this
      rw [show fuel + 1 + (itersD d + itersT ts) = fuel + 1 + itersT ts + 2 from by simp [itersD, h1]; omega]
      rw [this]
      exact ih
  | .bond c :: ts, n, co, depth, st, fuel, hv, sim => by
    obtain ⟨hc, hv'⟩ := hv
    obtain ⟨o, ho⟩ : ∃ o, bondToOrder2.lookup c = some o := by
      simp only [TK.ok] at hc
      cases hl : bondToOrder2.lookup c with
      | none => rw [hl] at hc; cases hc
      | some o => exact ⟨o, rfl⟩
    rw [render_cons, show fuel + 1 + itersT (.bond c :: ts) = (fuel + 1 + itersT ts) + 1 from by simp [itersT]; omega]
    show stripAux _ (c :: render ts) st = _
    rw [stripAux, bond_step c o ho _ st]
    simp only [bind, Except.bind, List.foldl_cons]
    exact stripAux_tokens ts n false depth _ fuel hv'
      ⟨by simp [afterTK, sim.count], fun h => (by cases h), by simp [afterTK, sim.anchors]⟩
  | .ring r :: ts, n, co, depth, st, fuel, hv, sim => by
    obtain ⟨⟨hne, hall⟩, hnext, hv'⟩ := hv
    obtain ⟨c, cs, rfl⟩ : ∃ c cs, r = c :: cs := by
      cases r with
      | nil => exact absurd rfl hne
      | cons c cs => exact ⟨c, cs, rfl⟩
    have hafter := (render_head ts n true depth hv').2 hnext
    rw [render_cons, show fuel + 1 + itersT (.ring (c :: cs) :: ts) = (fuel + 1 + itersT ts) + 1 from by simp [itersT]; omega]
    show stripAux _ (c :: (cs ++ render ts)) st = _
    rw [stripAux, ring_step c cs (render ts) hall hafter st]
    simp only [bind, Except.bind, List.foldl_cons]
    exact stripAux_tokens ts n true depth _ fuel hv'
      ⟨by simp [afterTK, sim.count], fun _ => rfl, by simp [afterTK, sim.anchors]⟩
  | .opn :: ts, n, co, depth, st, fuel, hv, sim => by
    rw [render_cons, show fuel + 1 + itersT (.opn :: ts) = (fuel + 1 + itersT ts) + 1 from by simp [itersT]; omega]
    show stripAux _ ('(' :: render ts) st = _
    rw [stripAux, opn_step _ st]
    simp only [bind, Except.bind, List.foldl_cons]
    exact stripAux_tokens ts n co (depth + 1) _ fuel hv
      ⟨by simp [afterTK, sim.count], fun h => by simp [afterTK, sim.order h], by simp [afterTK, sim.anchors]⟩
  | .cls :: ts, n, co, depth, st, fuel, hv, sim => by
    obtain ⟨hd, hv'⟩ := hv
    have hanc : st.anchor ≠ [] := by
      intro e; have := sim.anchors; rw [e] at this; simp at this; omega
    rw [render_cons, show fuel + 1 + itersT (.cls :: ts) = (fuel + 1 + itersT ts) + 1 from by simp [itersT]; omega]
    show stripAux _ (')' :: render ts) st = _
    rw [stripAux, cls_step _ st hanc]
    simp only [bind, Except.bind, List.foldl_cons]
    exact stripAux_tokens ts n co (depth - 1) _ fuel hv'
      ⟨by simp [afterTK, sim.count], fun h => by simp [afterTK, sim.order h], by simp [afterTK, sim.anchors]⟩

/-! ### what the folded state holds -/

/-- the loop state agrees with the position in the text -/
structure At (p : Pos) (st : StripState) : Prop where
  n : st.nodeCount = p.n
  prev : st.prevNode = p.prev
  stk : st.anchor = p.stk.reverse

theorem fold_fields : ∀ (ts : List TK) (co : Bool) (depth : Nat) (p : Pos) (st : StripState),
    Valid p.n co depth ts → At p st → (∀ q ∈ st.attrs, q.1 < st.nodeCount) →
    (ts.foldl afterTK st).smile = st.smile ++ cleanText ts ∧
    (ts.foldl afterTK st).bonding = specDict p st.bonding ts ∧
    (ts.foldl afterTK st).ez = specEz p st.ez ts ∧ (ts.foldl afterTK st).attrs = st.attrs ++ specAttrs p.n ts
  | [], _, _, _, st, _, _, _ => by simp [cleanText, specDict, specEz, specAttrs]
  | .atom e :: ts, co, depth, p, st, hv, hat, hk => by
    obtain ⟨h1, h2, h3, h4⟩ := fold_fields ts true depth (p.after (.atom e)) (afterAtom st e) hv.2
      ⟨by simp [afterAtom, Pos.after, hat.n], by simp [afterAtom, Pos.after, hat.n], by simpa [afterAtom, Pos.after] using hat.stk⟩
      (fun q hq => Nat.lt_succ_of_lt (hk q hq))
    simp only [List.foldl_cons, afterTK]
    exact ⟨by rw [h1]; simp [afterAtom, cleanText, TK.clean, TK.text], by rw [h2]; simp [afterAtom, specDict], by rw [h3]; simp [afterAtom, specEz],
      by rw [h4]; simp [afterAtom, specAttrs, Pos.after]⟩
  | .atom2 e c :: ts, co, depth, p, st, hv, hat, hk => by
    obtain ⟨h1, h2, h3, h4⟩ := fold_fields ts true depth (p.after (.atom2 e c)) (afterTK st (.atom2 e c)) hv.2
      ⟨by simp [afterTK, Pos.after, hat.n], by simp [afterTK, Pos.after, hat.n], by simpa [afterTK, Pos.after] using hat.stk⟩
      (fun q hq => Nat.lt_succ_of_lt (hk q hq))
    simp only [List.foldl_cons]
    exact ⟨by rw [h1]; simp [afterTK, cleanText, TK.clean, TK.text], by rw [h2]; simp [afterTK, specDict], by rw [h3]; simp [afterTK, specEz],
      by rw [h4]; simp [afterTK, specAttrs, Pos.after]⟩
  | .node inner :: ts, co, depth, p, st, hv, hat, hk => by
    have hfresh : ∀ q ∈ st.attrs, q.1 ≠ st.nodeCount := fun q hq => Nat.ne_of_lt (hk q hq)
    have hattrs : (afterTK st (.node inner)).attrs = st.attrs ++ [(st.nodeCount, bareAttrs)] := by
      simp only [afterTK, lookup_absent st.attrs st.nodeCount hfresh, Option.getD_none]
      rw [pySet_absent st.attrs st.nodeCount _ hfresh]
      rfl
    obtain ⟨h1, h2, h3, h4⟩ := fold_fields ts true depth (p.after (.node inner)) (afterTK st (.node inner)) hv.2
      ⟨by simp [afterTK, Pos.after, hat.n], by simp [afterTK, Pos.after, hat.n], by simpa [afterTK, Pos.after] using hat.stk⟩
      (by
        intro q hq
        rw [hattrs] at hq
        show q.1 < st.nodeCount + 1
        rcases List.mem_append.mp hq with h | h
        · exact Nat.lt_succ_of_lt (hk q h)
        · simp only [List.mem_singleton] at h; rw [h]; exact Nat.lt_succ_self _)
    simp only [List.foldl_cons]
    exact ⟨by rw [h1]; simp [afterTK, cleanText, TK.clean, TK.text], by rw [h2]; simp [afterTK, specDict], by rw [h3]; simp [afterTK, specEz],
      by rw [h4, hattrs]; simp [specAttrs, Pos.after, hat.n]⟩
  | .anode nm anno :: ts, co, depth, p, st, hv, hat, hk => by
    have hfresh : ∀ q ∈ st.attrs, q.1 ≠ st.nodeCount := fun q hq => Nat.ne_of_lt (hk q hq)
    obtain ⟨a, ha⟩ := hv.1.2.2.2.2
    have hattrs : (afterTK st (.anode nm anno)).attrs = st.attrs ++ [(st.nodeCount, annoOf anno)] := by
      simp only [afterTK, lookup_absent st.attrs st.nodeCount hfresh, Option.getD_none]
      rw [pySet_absent st.attrs st.nodeCount _ hfresh]
      simp only [annoOf, ha]
    obtain ⟨h1, h2, h3, h4⟩ := fold_fields ts true depth (p.after (.anode nm anno)) (afterTK st (.anode nm anno)) hv.2
      ⟨by simp [afterTK, Pos.after, hat.n], by simp [afterTK, Pos.after, hat.n], by simpa [afterTK, Pos.after] using hat.stk⟩
      (by
        intro q hq
        rw [hattrs] at hq
        show q.1 < st.nodeCount + 1
        rcases List.mem_append.mp hq with h | h
        · exact Nat.lt_succ_of_lt (hk q h)
        · simp only [List.mem_singleton] at h; rw [h]; exact Nat.lt_succ_self _)
    simp only [List.foldl_cons]
    exact ⟨by rw [h1]; simp [afterTK, cleanText, TK.clean, TK.text], by rw [h2]; simp [afterTK, specDict], by rw [h3]; simp [afterTK, specEz],
      by rw [h4, hattrs]; simp [specAttrs, Pos.after, hat.n]⟩
  | .slash c :: ts, co, depth, p, st, hv, hat, hk => by
    obtain ⟨h1, h2, h3, h4⟩ := fold_fields ts co depth p (afterTK st (.slash c)) hv.2
      ⟨by simp [afterTK, hat.n], by simp [afterTK, hat.prev], by simpa [afterTK] using hat.stk⟩ (by simpa [afterTK] using hk)
    simp only [List.foldl_cons]
    exact ⟨by rw [h1]; simp [afterTK, cleanText, TK.clean], by rw [h2]; simp [afterTK, specDict, Pos.after],
      by rw [h3]; simp [afterTK, specEz, hat.n, hat.prev], by rw [h4]; simp [afterTK, specAttrs]⟩
  | .desc d :: ts, co, depth, p, st, hv, hat, hk => by
    obtain ⟨hn, hco, hv'⟩ := hv
    obtain ⟨h1, h2, h3, h4⟩ := fold_fields ts co depth p (afterDesc st d) hv'
      ⟨by simp [afterDesc, hat.n], by simp [afterDesc, hat.prev], by simpa [afterDesc] using hat.stk⟩ (by simpa [afterDesc] using hk)
    simp only [List.foldl_cons, afterTK]
    exact ⟨by rw [h1]; simp [afterDesc, cleanText, TK.clean], by rw [h2]; simp [afterDesc, specDict, hat.prev],
      by rw [h3]; simp [afterDesc, specEz, Pos.after], by rw [h4]; simp [afterDesc, specAttrs]⟩
  | .bond c :: ts, co, depth, p, st, hv, hat, hk => by
    obtain ⟨h1, h2, h3, h4⟩ := fold_fields ts false depth p (afterTK st (.bond c)) hv.2
      ⟨by simp [afterTK, hat.n], by simp [afterTK, hat.prev], by simpa [afterTK] using hat.stk⟩ (by simpa [afterTK] using hk)
    simp only [List.foldl_cons]
    exact ⟨by rw [h1]; simp [afterTK, cleanText, TK.clean, TK.text], by rw [h2]; simp [afterTK, specDict, Pos.after],
      by rw [h3]; simp [afterTK, specEz, Pos.after], by rw [h4]; simp [afterTK, specAttrs]⟩
  | .ring r :: ts, co, depth, p, st, hv, hat, hk => by
    obtain ⟨h1, h2, h3, h4⟩ := fold_fields ts true depth p (afterTK st (.ring r)) hv.2.2
      ⟨by simp [afterTK, hat.n], by simp [afterTK, hat.prev], by simpa [afterTK] using hat.stk⟩ (by simpa [afterTK] using hk)
    simp only [List.foldl_cons]
    exact ⟨by rw [h1]; simp [afterTK, cleanText, TK.clean, TK.text], by rw [h2]; simp [afterTK, specDict, Pos.after],
      by rw [h3]; simp [afterTK, specEz, Pos.after], by rw [h4]; simp [afterTK, specAttrs]⟩
  | .opn :: ts, co, depth, p, st, hv, hat, hk => by
    obtain ⟨h1, h2, h3, h4⟩ := fold_fields ts co (depth + 1) (p.after .opn) (afterTK st .opn) hv
      ⟨by simp [afterTK, Pos.after, hat.n], by simp [afterTK, Pos.after, hat.prev], by simp [afterTK, Pos.after, hat.stk, hat.prev]⟩
      (by simpa [afterTK] using hk)
    simp only [List.foldl_cons]
    exact ⟨by rw [h1]; simp [afterTK, cleanText, TK.clean, TK.text], by rw [h2]; simp [afterTK, specDict],
      by rw [h3]; simp [afterTK, specEz], by rw [h4]; simp [afterTK, specAttrs, Pos.after]⟩
  | .cls :: ts, co, depth, p, st, hv, hat, hk => by
    have hlast : st.anchor.getLast?.getD 0 = p.stk.headD 0 := by
      rw [hat.stk]; cases p.stk <;> simp
    have hdrop : st.anchor.dropLast = p.stk.tail.reverse := by
      rw [hat.stk]; cases p.stk <;> simp
    obtain ⟨h1, h2, h3, h4⟩ := fold_fields ts co (depth - 1) (p.after .cls) (afterTK st .cls) hv.2
      ⟨by simp [afterTK, Pos.after, hat.n], by simp [afterTK, Pos.after, hlast], by simp [afterTK, Pos.after, hdrop]⟩
      (by simpa [afterTK] using hk)
    simp only [List.foldl_cons]
    exact ⟨by rw [h1]; simp [afterTK, cleanText, TK.clean, TK.text], by rw [h2]; simp [afterTK, specDict],
      by rw [h3]; simp [afterTK, specEz], by rw [h4]; simp [afterTK, specAttrs, Pos.after]⟩

theorem itersT_le : ∀ (ts : List TK) (n : Nat) (co : Bool) (depth : Nat), Valid n co depth ts →
    itersT ts ≤ (render ts).length
  | [], _, _, _, _ => by simp [itersT]
  | .atom e :: ts, n, co, depth, hv => by
    have := itersT_le ts _ _ _ hv.2
    simp only [itersT, render_cons, TK.text, List.length_append, List.length_singleton]; omega
  | .atom2 e c :: ts, n, co, depth, hv => by
    have := itersT_le ts _ _ _ hv.2
    simp only [itersT, render_cons, TK.text, List.length_append, List.length_cons, List.length_nil]; omega
  | .node i :: ts, n, co, depth, hv => by
    have := itersT_le ts _ _ _ hv.2
    simp only [itersT, render_cons, TK.text, List.length_append, List.length_cons]; omega
  | .anode a x :: ts, n, co, depth, hv => by
    have := itersT_le ts _ _ _ hv.2
    simp only [itersT, render_cons, TK.text, List.length_append, List.length_cons]; omega
  | .slash c :: ts, n, co, depth, hv => by
    have := itersT_le ts _ _ _ hv.2
    simp only [itersT, render_cons, TK.text, List.length_append, List.length_singleton]; omega
  | .desc d :: ts, n, co, depth, hv => by
    have := itersT_le ts _ _ _ hv.2.2
    have := itersD_le d
    simp only [itersT, render_cons, TK.text, List.length_append]; omega
  | .bond c :: ts, n, co, depth, hv => by
    have := itersT_le ts _ _ _ hv.2
    simp only [itersT, render_cons, TK.text, List.length_append, List.length_singleton]; omega
  | .ring r :: ts, n, co, depth, hv => by
    have := itersT_le ts _ _ _ hv.2.2
    have hne : 1 ≤ r.length := by
      cases r with
      | nil => exact absurd rfl hv.1.1
      | cons _ _ => simp
    simp only [itersT, render_cons, TK.text, List.length_append]; omega
  | .opn :: ts, n, co, depth, hv => by
    have := itersT_le ts _ _ _ hv
    simp only [itersT, render_cons, TK.text, List.length_append, List.length_singleton]; omega
  | .cls :: ts, n, co, depth, hv => by
    have := itersT_le ts _ _ _ hv.2
    simp only [itersT, render_cons, TK.text, List.length_append, List.length_singleton]; omega

/-- the dictionaries of a whole text -/
abbrev specDict0 (ts : List TK) : List (Nat × List Desc) := specDict {} [] ts
abbrev specEz0 (ts : List TK) : List (Nat × Char) := specEz {} [] ts

/-- **C13 for fragment texts.**  Any stream of plain atoms, two-letter elements, bracket atoms with or without
    annotations, bond symbols, ring-closure runs (digits and `%nn`, with or without a ring bond symbol),
    balanced parentheses at any depth, E/Z marks, and bonding descriptors — each written after an atom, after
    that atom's ring digits, after another descriptor or after a closing parenthesis: the clean text is the
    text without descriptors, marks and annotations; the dictionary holds every descriptor — kind, label, order
    digit — under the index of the atom it was written after (after a closing parenthesis: the atom the branch
    hangs on), in the order written; every E/Z mark is recorded on the atoms on both of its sides; the
    annotation dictionary holds, for every bracket atom, what the fragment dialect (C14) makes of its
    annotation text. -/
theorem C13_tokens (ts : List TK) (hv : Valid 0 true 0 ts)
    (hascii : ((render ts).any fun c => decide (c.toNat > 127)) = false) :
    strip (render ts) = .ok ⟨cleanText ts, specDict0 ts, specEz0 ts, specAttrs 0 ts⟩ := by
  unfold strip
  simp only [hascii, Bool.false_eq_true, if_false]
  have hle := itersT_le ts 0 true 0 hv
  have sim : Sim 0 true 0 ({} : StripState) := ⟨rfl, fun _ => rfl, rfl⟩
  rw [show (render ts).length + 1 = ((render ts).length - itersT ts) + 1 + itersT ts from by omega]
  rw [stripAux_tokens ts 0 true 0 {} _ hv sim]
  obtain ⟨h1, h2, h3, h4⟩ := fold_fields ts true 0 {} {} hv ⟨rfl, rfl, rfl⟩ (by intro q hq; cases hq)
  simp only [bind, Except.bind, pure, Except.pure, h1, h2, h3, h4]
  rfl

/-! worked instance: descriptors after an atom, inside a branch with a bond symbol, after a closing
    parenthesis (they belong to the atom the branch hangs on) and after ring digits; a two-letter element,
    an annotated bracket atom and E/Z marks -/
def dA : WFDesc := ⟨'$', "a".toList, 1, by decide, by decide, by decide⟩
def dB : WFDesc := ⟨'>', "b".toList, 2, by decide, by decide, by decide⟩
def dC : WFDesc := ⟨'<', [], 1, by decide, by decide, by decide⟩
def exToks : List TK :=
  [.atom 'C', .desc dA, .ring "1".toList, .opn, .atom 'C', .desc dB, .opn, .atom 'O', .cls, .cls, .desc dC, .bond '=', .atom 'C',
   .atom 'C', .ring "1".toList, .desc dC]
example : render exToks = "C[$a]1(C=[>b](O))[<]=CC1[<]".toList := by decide +kernel
example : Valid 0 true 0 exToks := by
  simp only [exToks, Valid, TK.ok, TK.isRing, List.head?_cons, Option.map_some]
  decide +kernel
example : cleanText exToks = "C1(C(O))=CC1".toList ∧
    specDict0 exToks = [(0, ["$a1".toList, "<1".toList]), (1, [">b2".toList]), (4, ["<1".toList])] := by decide +kernel
example : (match strip "C[$a]1(C=[>b](O))[<]=CC1[<]".toList with
    | .ok o => some (o.smile, o.bonding, o.ez.length, o.attrs.length)
    | .error _ => none) =
    some ("C1(C(O))=CC1".toList, [(0, ["$a1".toList, "<1".toList]), (1, [">b2".toList]), (4, ["<1".toList])], 0, 0) := by
  decide +kernel

def exToks2 : List TK :=
  [.atom2 'C' 'l', .slash '/', .atom 'C', .desc dA, .bond '=', .anode "C".toList "q=1".toList, .slash '\\', .atom2 'B' 'r']
example : render exToks2 = "Cl/C[$a]=[C;q=1]\\Br".toList := by decide +kernel
example : cleanText exToks2 = "ClC=[C]Br".toList ∧ specDict0 exToks2 = [(1, ["$a1".toList])] ∧
    specEz0 exToks2 = [(1, '/'), (0, '/'), (3, '\\'), (2, '\\')] := by decide +kernel

end CGV.C13
