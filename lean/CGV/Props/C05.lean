import CGV.Model.ReadCG
namespace CGV.C05
end CGV.C05
