/-
  C05 — the multiplication operator is shorthand for writing the unit out.

  Proved at the string level for node multipliers on chains of any length: a node followed by
  `|digits` reads exactly — same numbering, names, annotation defaults, bond orders — like the node
  written out that many times (first copy with the incoming bond order, further copies joined by single
  bonds, the bond symbol after the number ordering the bond to what follows).
  Branch multipliers: the open findings R4, R6a–c are pinned below by kernel-evaluated witnesses on
  the faithful model (shorthand ≠ longhand); outside those classes the claim is validated by the
  correspondence + metamorphic oracle (partial).
-/
import CGV.Props.C04
namespace CGV.C05
open CGV Gen C04

def MItemOk (it : MItem) : Prop :=
  NameOk it.name ∧ it.order ≤ 4 ∧ ∀ m, it.mult = some m → pyIsDigit m = true ∧ 0 < digitsVal m

def MultOk (m : Option Str) : Prop := ∀ d, m = some d → pyIsDigit d = true ∧ 0 < digitsVal d

/-- tokens of the tail of a chain with multipliers; `p` = the character before the tail -/
def toksTailM : Char → List MItem → List (Char × Str × Str)
  | _, [] => []
  | p, it :: its =>
    ((symText it.order).getLast?.getD p, it.name, multText it.mult ++ renderTailM its) ::
      toksTailM ((multText it.mult).getLast?.getD ']') its

theorem multText_no_open (m : Option Str) (h : MultOk m) : ∀ c ∈ multText m, c ≠ '[' := by
  cases m with
  | none => simp [multText]
  | some d =>
    intro c hc
    simp only [multText, List.mem_cons] at hc
    rcases hc with rfl | hc
    · decide
    · have hd := (h d rfl).1
      simp only [pyIsDigit, Bool.and_eq_true, List.all_eq_true] at hd
      intro e; subst e; have := hd.2 _ hc; revert this; decide

theorem renderTailM_length (it : MItem) (its : List MItem) :
    (renderTailM (it :: its)).length =
      (symText it.order).length + (it.name.length + 3) + (multText it.mult).length + (renderTailM its).length := by
  simp [renderTailM, nodeText_length]; omega

theorem matches_tailM (last : Char) : ∀ (its : List MItem) (p : Char) (fuel : Nat),
    (∀ it ∈ its, MItemOk it) → (renderTailM its).length ≤ fuel →
    matchesAux last fuel p (renderTailM its) = toksTailM p its
  | [], p, fuel, _, hf => by
    obtain ⟨f, rfl⟩ : ∃ f, fuel = f + 1 := ⟨fuel - 1, by simp [renderTailM] at hf; omega⟩
    simp only [renderTailM, toksTailM]
    rw [matchesAux_other last p '}' f [] (by decide), matchesAux_nil]
  | it :: its, p, fuel, hok, hf => by
    have hit := hok it List.mem_cons_self
    have hrest : ∀ x ∈ its, MItemOk x := fun x hx => hok x (List.mem_cons_of_mem _ hx)
    have hname := hit.1.2
    have hmo : MultOk it.mult := hit.2.2
    rw [renderTailM_length] at hf
    -- after the node: skip the multiplier text, then the tail
    have after : ∀ (f : Nat) (q : Char), (multText it.mult).length + (renderTailM its).length ≤ f →
        matchesAux last f q (multText it.mult ++ renderTailM its) =
          toksTailM ((multText it.mult).getLast?.getD q) its := by
      intro f q hfq
      obtain ⟨f', rfl⟩ : ∃ f', f = f' + (multText it.mult).length := ⟨f - (multText it.mult).length, by omega⟩
      rw [matchesAux_skip last (multText it.mult) q f' (renderTailM its) (multText_no_open it.mult hmo)]
      exact matches_tailM last its _ f' hrest (by omega)
    rcases symText_cases it.order hit.2.1 with ⟨_, hs⟩ | ⟨_, s, hs, hlook⟩
    · rw [hs] at hf
      obtain ⟨f, rfl⟩ : ∃ f, fuel = f + 1 := ⟨fuel - 1, by simp at hf; omega⟩
      show matchesAux last (f + 1) p (symText it.order ++ nodeText it.name ++ multText it.mult ++ renderTailM its) = _
      rw [hs, List.nil_append, List.append_assoc, matchesAux_nodeText last p f it.name _ hname]
      rw [after f ']' (by simp at hf; omega)]
      simp [toksTailM, hs]
    · obtain ⟨_, _, _, _, _, hsb, _⟩ := sym_facts s it.order hlook
      rw [hs] at hf
      obtain ⟨f, rfl⟩ : ∃ f, fuel = f + 2 := ⟨fuel - 2, by simp at hf; omega⟩
      show matchesAux last (f + 2) p (symText it.order ++ nodeText it.name ++ multText it.mult ++ renderTailM its) = _
      rw [hs, List.append_assoc, List.append_assoc, List.singleton_append]
      rw [show f + 2 = (f + 1) + 1 from rfl, matchesAux_other last p s (f + 1) _ hsb]
      rw [matchesAux_nodeText last s f it.name _ hname]
      rw [after f ']' (by simp at hf; omega)]
      simp [toksTailM, hs]

/-! ### graphs -/

theorem copies_ones (name : Str) : ∀ (k : Nat) (g : CGGraph) (prev cur : Nat),
    copiesGraph g (defaultAttrs name) (some prev) (some defaultBondOrder) cur k =
      pathGraphAux g prev cur (List.replicate k ⟨name, 1⟩)
  | 0, _, _, _ => rfl
  | k + 1, g, prev, cur => by
    simp only [copiesGraph, List.replicate_succ, pathGraphAux]
    exact copies_ones name k _ cur (cur + 1)

theorem copies_path (name : Str) (o : Nat) (m : Option Str) (hpos : 0 < copies m) (g : CGGraph) (prev cur : Nat) :
    copiesGraph g (defaultAttrs name) (some prev) (some o) cur (copies m) =
      pathGraphAux g prev cur (expandItem name o m) := by
  obtain ⟨k, hk⟩ : ∃ k, copies m = k + 1 := ⟨copies m - 1, by omega⟩
  simp only [expandItem, hk, copiesGraph, pathGraphAux, Nat.add_sub_cancel]
  exact copies_ones name k _ cur (cur + 1)

theorem pathGraphAux_append : ∀ (l1 l2 : List LItem) (g : CGGraph) (prev k : Nat), l1 ≠ [] →
    pathGraphAux g prev k (l1 ++ l2) = pathGraphAux (pathGraphAux g prev k l1) (k + l1.length - 1) (k + l1.length) l2
  | [], _, _, _, _, h => absurd rfl h
  | [x], l2, g, prev, k, _ => by simp [pathGraphAux]
  | x :: y :: l1, l2, g, prev, k, _ => by
    have ih := pathGraphAux_append (y :: l1) l2 ((g.addNode k (defaultAttrs x.name)).addEdge prev k (some x.order)) k (k + 1) (by simp)
    simp only [List.cons_append, pathGraphAux] at ih ⊢
    rw [ih]
    simp only [List.length_cons]
    have e1 : k + 1 + (l1.length + 1) - 1 = k + (l1.length + 1 + 1) - 1 := by omega
    have e2 : k + 1 + (l1.length + 1) = k + (l1.length + 1 + 1) := by omega
    rw [e1, e2]

theorem expandItem_length (name : Str) (o : Nat) (m : Option Str) (hpos : 0 < copies m) :
    (expandItem name o m).length = copies m := by
  simp [expandItem]; omega

/-! ### the state machine -/

def nextOrderM : List MItem → Nat
  | [] => 1
  | it :: _ => it.order

theorem gap_tailM (its : List MItem) (hok : ∀ it ∈ its, MItemOk it) : PlainGap (renderTailM its) (nextOrderM its) := by
  cases its with
  | nil => exact PlainGap.close []
  | cons it its =>
    have hit := hok it List.mem_cons_self
    show PlainGap (symText it.order ++ nodeText it.name ++ multText it.mult ++ renderTailM its) it.order
    rcases symText_cases it.order hit.2.1 with ⟨h1, hs⟩ | ⟨_, s, hs, hlook⟩
    · rw [hs, h1]; simp only [List.nil_append, nodeText, List.cons_append]; exact PlainGap.node _
    · rw [hs]; simp only [List.singleton_append, nodeText, List.cons_append, List.append_assoc]
      exact PlainGap.sym s it.order _ hlook

theorem multText_no_close (m : Option Str) (h : MultOk m) : ∀ c ∈ multText m, c ≠ ')' := by
  cases m with
  | none => simp [multText]
  | some d =>
    intro c hc
    simp only [multText, List.mem_cons] at hc
    rcases hc with rfl | hc
    · decide
    · have hd := (h d rfl).1
      simp only [pyIsDigit, Bool.and_eq_true, List.all_eq_true] at hd
      intro e; subst e; have := hd.2 _ hc; revert this; decide

theorem tail_no_closeM (its : List MItem) (hok : ∀ it ∈ its, MItemOk it) : ∀ c ∈ renderTailM its, c ≠ ')' := by
  induction its with
  | nil => intro c hc; simp [renderTailM] at hc; subst hc; decide
  | cons it its ih =>
    have hit := hok it List.mem_cons_self
    intro c hc
    simp only [renderTailM, List.mem_append] at hc
    rcases hc with ((hc | hc) | hc) | hc
    · rcases symText_cases it.order hit.2.1 with ⟨_, hs⟩ | ⟨_, s, hs, hlook⟩
      · rw [hs] at hc; simp at hc
      · rw [hs] at hc; simp only [List.mem_singleton] at hc; subst hc
        exact (sym_facts c it.order hlook).2.2.2.1
    · simp only [nodeText, List.mem_cons, List.mem_append, List.mem_singleton] at hc
      rcases hc with rfl | rfl | hc | hc
      · decide
      · decide
      · exact (nameChar_facts c (List.all_eq_true.mp hit.1.2 c hc)).2.2.2.1
      · rcases hc with rfl | hc
        · decide
        · simp at hc
    · exact multText_no_close it.mult hit.2.2 c hc
    · exact ih (fun x hx => hok x (List.mem_cons_of_mem _ hx)) c hc

theorem multLast_ne (m : Option Str) (h : MultOk m) : (multText m).getLast?.getD ']' ≠ '(' := by
  cases m with
  | none => simp [multText]
  | some d =>
    have hd := (h d rfl).1
    simp only [pyIsDigit, Bool.and_eq_true, List.all_eq_true] at hd
    have hne : d ≠ [] := by intro e; rw [e] at hd; simp at hd
    have hne' : ('|' :: d) ≠ [] := by simp
    simp only [multText]
    rw [List.getLast?_eq_some_getLast hne', Option.getD_some]
    have : ('|' :: d).getLast hne' = d.getLast hne := List.getLast_cons hne
    rw [this]
    intro e
    have := hd.2 _ (List.getLast_mem hne)
    rw [e] at this; revert this; decide

/-- one node of the chain — plain or multiplied — seen from a state with a previous node -/
theorem step_item (st : RState) (pre : Char) (it : MItem) (its : List MItem) (prev : Nat)
    (hit : MItemOk it) (hok : ∀ x ∈ its, MItemOk x) (hpre : pre ≠ '(') (hbr : st.branching = false)
    (hprev : st.prev = some prev) (hpbo : st.pbo = some it.order) :
    ∃ st', stepNode st (pre, it.name, multText it.mult ++ renderTailM its) = .ok st' ∧
      st'.g = pathGraphAux st.g prev st.current (expandItem it.name it.order it.mult) ∧
      st'.current = st.current + copies it.mult ∧ st'.prev = some (st.current + copies it.mult - 1) ∧
      st'.pbo = some (nextOrderM its) ∧ st'.branching = false ∧ st'.cycle = st.cycle := by
  cases hm : it.mult with
  | none =>
    obtain ⟨r, hstep⟩ := stepNode_plain st pre it.name (renderTailM its) (nextOrderM its) (defaultAttrs it.name) hpre
      (gap_tailM its hok) (parse_name it.name hit.1) hbr (tail_no_closeM its hok)
    let st1 : RState :=
      { st with g := (match st.prev with
                      | some p => (st.g.addNode st.current (defaultAttrs it.name)).addEdge p st.current st.pbo
                      | none => st.g.addNode st.current (defaultAttrs it.name)),
                current := st.current + 1, prev := some st.current, pbo := some (nextOrderM its),
                attrs := some (defaultAttrs it.name), rdx := some r }
    have hs1 : stepNode st (pre, it.name, multText none ++ renderTailM its) = .ok st1 := by
      simp only [multText, List.nil_append]
      exact hstep
    refine ⟨st1, hs1, ?_, rfl, rfl, rfl, hbr, rfl⟩
    show (match st.prev with
      | some p => (st.g.addNode st.current (defaultAttrs it.name)).addEdge p st.current st.pbo
      | none => st.g.addNode st.current (defaultAttrs it.name)) = _
    simp [hprev, hpbo, expandItem, copies, pathGraphAux]
  | some d =>
    obtain ⟨hd, hpos⟩ := hit.2.2 d hm
    obtain ⟨st', h1, h2, h3, h4, h5, h6, h7⟩ := stepNode_mult st pre it.name d (renderTailM its) (nextOrderM its)
      (defaultAttrs it.name) hpre hd (gap_tailM its hok) (parse_name it.name hit.1) hbr (tail_no_closeM its hok) hpos
    refine ⟨st', by simpa [multText] using h1, ?_, h3, h4, h5, h6, h7⟩
    rw [h2, hprev, hpbo]
    exact copies_path it.name it.order (some d) hpos st.g prev st.current

theorem fold_tailM : ∀ (its : List MItem) (p : Char) (st : RState) (prev : Nat),
    (∀ it ∈ its, MItemOk it) → p ≠ '(' → st.branching = false → st.prev = some prev → st.pbo = some (nextOrderM its) →
    ∃ st', (toksTailM p its).foldlM stepNode st = .ok st' ∧
      st'.g = pathGraphAux st.g prev st.current (expandM its) ∧ st'.cycle = st.cycle
  | [], _, st, _, _, _, _, _, _ => ⟨st, rfl, rfl, rfl⟩
  | it :: its, p, st, prev, hok, hp, hbr, hprev, hpbo => by
    have hit := hok it List.mem_cons_self
    have hrest : ∀ x ∈ its, MItemOk x := fun x hx => hok x (List.mem_cons_of_mem _ hx)
    have hpre : (symText it.order).getLast?.getD p ≠ '(' := toksTail_pre p hp ⟨it.name, it.order⟩ ⟨hit.1, hit.2.1⟩
    obtain ⟨st1, h1, h2, h3, h4, h5, h6, h7⟩ := step_item st _ it its prev hit hrest hpre hbr hprev hpbo
    obtain ⟨st', g1, g2, g3⟩ := fold_tailM its ((multText it.mult).getLast?.getD ']') st1 (st.current + copies it.mult - 1)
      hrest (multLast_ne it.mult hit.2.2) h6 h4 h5
    refine ⟨st', ?_, ?_, g3.trans h7⟩
    · simp only [toksTailM, List.foldlM_cons, h1, bind, Except.bind]; exact g1
    · have hpos : 0 < copies it.mult := by
        cases hm : it.mult with
        | none => simp [copies]
        | some d => simpa [copies] using (hit.2.2 d hm).2
      have hne : expandItem it.name it.order it.mult ≠ [] := by simp [expandItem]
      rw [g2, h2, h3]
      simp only [expandM, List.flatMap_cons]
      rw [pathGraphAux_append _ _ st.g prev st.current hne, expandItem_length _ _ _ hpos]

/-! ### whole strings -/

theorem renderTailM_getLast (its : List MItem) : (renderTailM its).getLast? = some '}' := by
  induction its with
  | nil => rfl
  | cons it its ih =>
    show (symText it.order ++ nodeText it.name ++ multText it.mult ++ renderTailM its).getLast? = _
    rw [List.getLast?_append, ih]; rfl

theorem matches_chainM (first : Str) (fm : Option Str) (its : List MItem) (hfirst : NameOk first) (hfm : MultOk fm)
    (hok : ∀ it ∈ its, MItemOk it) :
    matches' (renderChainM first fm its) =
      ('{', first, multText fm ++ renderTailM its) :: toksTailM ((multText fm).getLast?.getD ']') its := by
  unfold matches' renderChainM
  have hlast : (('{' :: (nodeText first ++ multText fm ++ renderTailM its)).getLast?.getD ' ') = '}' := by
    have h1 : ('{' :: (nodeText first ++ multText fm ++ renderTailM its)) =
        (['{'] ++ nodeText first ++ multText fm) ++ renderTailM its := by simp
    rw [h1, List.getLast?_append, renderTailM_getLast]; rfl
  rw [hlast]
  have hlen : ('{' :: (nodeText first ++ multText fm ++ renderTailM its)).length + 1 =
      (((first.length + 3 + (renderTailM its).length) + (multText fm).length) + 1) + 1 := by
    simp only [List.length_cons, List.length_append, nodeText_length]; omega
  rw [hlen, matchesAux_other '}' '}' '{' _ _ (by decide), List.append_assoc]
  rw [matchesAux_nodeText '}' '{' _ first _ hfirst.2]
  rw [matchesAux_skip '}' (multText fm) ']' _ (renderTailM its) (multText_no_open fm hfm)]
  rw [matches_tailM '}' its _ _ hok (by omega)]

theorem multText_ok (m : Option Str) (h : MultOk m) : ∀ c ∈ multText m, okChar c = true := by
  cases m with
  | none => simp [multText]
  | some d =>
    intro c hc
    simp only [multText, List.mem_cons] at hc
    rcases hc with rfl | hc
    · decide
    · have hd := (h d rfl).1
      simp only [pyIsDigit, Bool.and_eq_true, List.all_eq_true] at hd
      have hdig := hd.2 c hc
      have : nameChar c = true := by simp [nameChar, Char.isAlphanum, hdig]
      exact nameChar_ok c this

theorem renderTailM_ok (its : List MItem) (hok : ∀ it ∈ its, MItemOk it) : ∀ c ∈ renderTailM its, okChar c = true := by
  induction its with
  | nil => intro c hc; simp [renderTailM] at hc; subst hc; decide
  | cons it its ih =>
    have hit := hok it List.mem_cons_self
    intro c hc
    simp only [renderTailM, List.mem_append] at hc
    rcases hc with ((hc | hc) | hc) | hc
    · exact symText_ok it.order hit.2.1 c hc
    · exact nodeText_ok it.name hit.1.2 c hc
    · exact multText_ok it.mult hit.2.2 c hc
    · exact ih (fun x hx => hok x (List.mem_cons_of_mem _ hx)) c hc

/-- the written-out chain of a shorthand chain -/
def longhand (first : Str) (fm : Option Str) (its : List MItem) : List LItem :=
  List.replicate (copies fm - 1) ⟨first, 1⟩ ++ expandM its

/-- C05 (node multipliers, chains of any length): the shorthand reads to exactly the graph of the
    written-out string — identical numbering, names, default annotations and bond orders, including
    the order between copies (single) and the order to what follows (the symbol after the number) -/
theorem C05_node_graph (first : Str) (fm : Option Str) (its : List MItem) (hfirst : NameOk first) (hfm : MultOk fm)
    (hok : ∀ it ∈ its, MItemOk it) :
    readCG (renderChainM first fm its) = .ok (pathGraph first (longhand first fm its)) := by
  have hsup : ((renderChainM first fm its).any fun c => c == '\n' || decide (c.toNat > 127)) = false := by
    rw [List.any_eq_false]
    intro c hc
    have : okChar c = true := by
      simp only [renderChainM, List.mem_cons, List.mem_append] at hc
      rcases hc with rfl | (hc | hc) | hc
      · decide
      · exact nodeText_ok first hfirst.2 c hc
      · exact multText_ok fm hfm c hc
      · exact renderTailM_ok its hok c hc
    simpa [okChar] using this
  have hposf : 0 < copies fm := by
    cases hm : fm with
    | none => simp [copies]
    | some d => simpa [copies] using (hfm d hm).2
  unfold readCG
  simp only [hsup, Bool.false_eq_true, if_false]
  rw [matches_chainM first fm its hfirst hfm hok]
  -- the first node: from the empty state
  have first_step : ∃ st1, stepNode {} ('{', first, multText fm ++ renderTailM its) = .ok st1 ∧
      st1.g = pathGraphAux (({} : CGGraph).addNode 0 (defaultAttrs first)) 0 1 (List.replicate (copies fm - 1) ⟨first, 1⟩) ∧
      st1.current = copies fm ∧ st1.prev = some (copies fm - 1) ∧ st1.pbo = some (nextOrderM its) ∧
      st1.branching = false ∧ st1.cycle = [] := by
    cases hm : fm with
    | none =>
      obtain ⟨r, hstep⟩ := stepNode_plain {} '{' first (renderTailM its) (nextOrderM its) (defaultAttrs first) (by decide)
        (gap_tailM its hok) (parse_name first hfirst) rfl (tail_no_closeM its hok)
      exact ⟨_, by simpa [multText] using hstep, rfl, rfl, rfl, rfl, rfl, rfl⟩
    | some d =>
      obtain ⟨hd, hpos⟩ := hfm d hm
      obtain ⟨st1, h1, h2, h3, h4, h5, h6, h7⟩ := stepNode_mult {} '{' first d (renderTailM its) (nextOrderM its)
        (defaultAttrs first) (by decide) hd (gap_tailM its hok) (parse_name first hfirst) rfl (tail_no_closeM its hok) hpos
      refine ⟨st1, by simpa [multText] using h1, ?_, by simpa [copies] using h3, by simpa [copies] using h4, h5, h6, h7⟩
      rw [h2]
      obtain ⟨k, hk⟩ : ∃ k, digitsVal d = k + 1 := ⟨digitsVal d - 1, by omega⟩
      simp only [copies, hk, copiesGraph, Nat.add_sub_cancel]
      exact copies_ones first k _ 0 1
  obtain ⟨st1, h1, h2, h3, h4, h5, h6, h7⟩ := first_step
  simp only [List.foldlM_cons, h1, bind, Except.bind]
  obtain ⟨st', g1, g2, g3⟩ := fold_tailM its ((multText fm).getLast?.getD ']') st1 (copies fm - 1) hok
    (multLast_ne fm hfm) h6 h4 h5
  rw [g1]
  have hc : st'.cycle.isEmpty = true := by rw [g3, h7]; rfl
  simp only [hc, Bool.not_true, Bool.false_eq_true, if_false, pure, Except.pure, g2, h2, h3, pathGraph, longhand]
  congr 1
  by_cases hk : copies fm - 1 = 0
  · rw [hk]; simp only [List.replicate_zero, List.nil_append, pathGraphAux]
    have : copies fm = 1 := by omega
    rw [this]
  · have hne : List.replicate (copies fm - 1) (⟨first, 1⟩ : LItem) ≠ [] := by
      intro e; have := congrArg List.length e; simp at this; exact hk this
    rw [pathGraphAux_append _ _ _ 0 1 hne]
    simp only [List.length_replicate]
    have e1 : 1 + (copies fm - 1) - 1 = copies fm - 1 := by omega
    have e2 : 1 + (copies fm - 1) = copies fm := by omega
    rw [e1, e2]

theorem longhand_ok (first : Str) (fm : Option Str) (its : List MItem) (hfirst : NameOk first)
    (hok : ∀ it ∈ its, MItemOk it) : ∀ it ∈ longhand first fm its, ItemOk it := by
  intro it hit
  simp only [longhand, List.mem_append, List.mem_replicate, expandM, List.mem_flatMap, expandItem, List.mem_cons] at hit
  rcases hit with ⟨_, rfl⟩ | ⟨m, hm, h⟩
  · exact ⟨hfirst, by show (1 : Nat) ≤ 4; decide⟩
  · have := hok m hm
    rcases h with rfl | ⟨_, rfl⟩
    · exact ⟨this.1, this.2.1⟩
    · exact ⟨this.1, by show (1 : Nat) ≤ 4; decide⟩

/-- C05 as stated: reading the shorthand gives exactly what reading the written-out string gives -/
theorem C05_node (first : Str) (fm : Option Str) (its : List MItem) (hfirst : NameOk first) (hfm : MultOk fm)
    (hok : ∀ it ∈ its, MItemOk it) :
    readCG (renderChainM first fm its) = readCG (renderChain first (longhand first fm its)) := by
  rw [C05_node_graph first fm its hfirst hfm hok,
    C04_read_chain first (longhand first fm its) hfirst (longhand_ok first fm its hfirst hok)]

/-! ### non-vacuity and documented examples (kernel evaluation) -/
example : renderChainM "PEO".toList (some "5".toList) [] = "{[#PEO]|5}".toList := by decide +kernel
example : renderChain "PEO".toList (longhand "PEO".toList (some "5".toList) []) = "{[#PEO][#PEO][#PEO][#PEO][#PEO]}".toList := by
  decide +kernel
example : renderChainM "A".toList (some "3".toList) [⟨"B".toList, 2, none⟩] = "{[#A]|3=[#B]}".toList := by decide +kernel
example : readCG "{[#A]|3=[#B]}".toList = readCG "{[#A][#A][#A]=[#B]}".toList := by decide +kernel
example : (readCG "{[#PMA]([#PEO][#PEO])|3}".toList).map (·.edges.length) =
    (readCG "{[#PMA]([#PEO][#PEO])[#PMA]([#PEO][#PEO])[#PMA]([#PEO][#PEO])}".toList).map (·.edges.length) := by decide +kernel

/-! ### open findings, pinned on the faithful model: the shorthand reads differently from the longhand -/

/-- R4: a multiplied node with incoming order ≠ 1 inside a multiplied branch -/
theorem C05_R4_witness : (readCG "{[#C]=([#C]|2)|3}".toList).map (·.edges.map (·.order)) ≠
    (readCG "{[#C]=([#C][#C])[#C]=([#C][#C])[#C]=([#C][#C])}".toList).map (·.edges.map (·.order)) := by decide +kernel

/-- R6a: a multiplied anchor with more than one branch -/
theorem C05_R6a_witness : (readCG "{[#B]([#C])([#A])|2}".toList).map (·.nodes.length) ≠
    (readCG "{[#B]([#C])([#A])[#B]([#C])([#A])}".toList).map (·.nodes.length) := by decide +kernel

/-- R6b: a nested branch inside a multiplied branch, three copies -/
theorem C05_R6b_witness : (readCG "{[#A]([#C]([#B]))|3}".toList).map (·.edges.length) ≠
    (readCG "{[#A]([#C]([#B]))[#A]([#C]([#B]))[#A]([#C]([#B]))}".toList).map (·.edges.length) := by decide +kernel

end CGV.C05
