/-
  C16 for whole runs of the sampler: every molecule the growth loop can reach — any templates (distinct
  keys, closed bonds, connected), any recorded decisions, any number of steps — has distinct keys, only
  bonds between its own atoms, and is connected; every step attaches the new copy by exactly one bond
  that joins an atom that was there with an atom of the copy, all other new bonds lying inside the copy.
-/
import CGV.Props.C16
import CGV.Props.C17
import CGV.Props.C10Reach
namespace CGV.C16
open CGV Mol C10
set_option linter.unusedSimpArgs false

/-! ### dictionaries -/

theorem pySet_mem {α β : Type} [BEq α] (d : List (α × β)) (k : α) (v : β) (p : α × β) (h : p ∈ pySet d k v) :
    p ∈ d ∨ p = (k, v) := by
  unfold pySet at h
  split at h
  · obtain ⟨q, hq, e⟩ := List.mem_map.mp h
    split at e
    · exact Or.inr e.symm
    · exact Or.inl (e ▸ hq)
  · rcases List.mem_append.mp h with h | h
    · exact Or.inl h
    · exact Or.inr (by simpa using h)

theorem lookup_getD_mem {α β : Type} [BEq α] [LawfulBEq α] (d : List (α × List β)) (k : α) (x : β)
    (h : x ∈ (d.lookup k).getD []) : ∃ l, (k, l) ∈ d ∧ x ∈ l := by
  cases hl : d.lookup k with
  | none => rw [hl] at h; simp at h
  | some l => rw [hl] at h; exact ⟨l, lookup_mem' d k l hl, by simpa using h⟩

/-- every node `find_open_bonds` lists is a node of the molecule -/
theorem openBonds_keys (mol : Mol) : ∀ p ∈ openBonds mol, ∀ k ∈ p.2, k ∈ mol.keys := by
  unfold openBonds
  have gen : ∀ (atoms : List Atom) (acc : List (Desc × List Key)),
      (∀ a ∈ atoms, a.key ∈ mol.keys) → (∀ p ∈ acc, ∀ k ∈ p.2, k ∈ mol.keys) →
      ∀ p ∈ atoms.foldl (fun acc a => a.bonding.foldl (fun acc d => pySet acc d (((acc.lookup d).getD []) ++ [a.key])) acc) acc,
        ∀ k ∈ p.2, k ∈ mol.keys := by
    intro atoms
    induction atoms with
    | nil => intro acc _ h; exact h
    | cons a as ih =>
      intro acc hk hacc
      simp only [List.foldl_cons]
      apply ih _ (fun x hx => hk x (by simp [hx]))
      have hak := hk a (by simp)
      generalize a.bonding = ds
      induction ds generalizing acc with
      | nil => exact hacc
      | cons d ds ih2 =>
        simp only [List.foldl_cons]
        apply ih2
        intro p hp k hkp
        rcases pySet_mem _ _ _ p hp with h | h
        · exact hacc p h k hkp
        · subst h
          rcases List.mem_append.mp hkp with h | h
          · obtain ⟨l, hl, hx⟩ := lookup_getD_mem acc d k h
            exact hacc _ hl k hx
          · simp only [List.mem_singleton] at h; rw [h]; exact hak
  exact gen mol.atoms [] (fun a ha => List.mem_map.mpr ⟨a, ha, rfl⟩) (by simp)

/-- every `(fragment, node)` entry of `fragments_by_bonding` names a node of a template of that name -/
theorem fragsByBonding_mem (frags : FragDict) :
    ∀ p ∈ fragsByBonding frags, ∀ q ∈ p.2, ∃ tmpl, (q.1, tmpl) ∈ frags ∧ q.2 ∈ tmpl.keys := by
  unfold fragsByBonding
  have gen : ∀ (fs : List (Str × Mol)) (acc : List (Desc × List (Str × Key))),
      (∀ f ∈ fs, f ∈ frags) → (∀ p ∈ acc, ∀ q ∈ p.2, ∃ tmpl, (q.1, tmpl) ∈ frags ∧ q.2 ∈ tmpl.keys) →
      ∀ p ∈ fs.foldl (fun acc (f : Str × Mol) =>
          f.2.atoms.foldl (fun acc a =>
            a.bonding.foldl (fun acc d => pySet acc d (((acc.lookup d).getD []) ++ [(f.1, a.key)])) acc) acc) acc,
        ∀ q ∈ p.2, ∃ tmpl, (q.1, tmpl) ∈ frags ∧ q.2 ∈ tmpl.keys := by
    intro fs
    induction fs with
    | nil => intro acc _ h; exact h
    | cons f fs ih =>
      intro acc hf hacc
      simp only [List.foldl_cons]
      apply ih _ (fun x hx => hf x (by simp [hx]))
      have hfm := hf f (by simp)
      obtain ⟨name, tmpl⟩ := f
      have inner : ∀ (atoms : List Atom) (acc : List (Desc × List (Str × Key))),
          (∀ a ∈ atoms, a.key ∈ tmpl.keys) → (∀ p ∈ acc, ∀ q ∈ p.2, ∃ t, (q.1, t) ∈ frags ∧ q.2 ∈ t.keys) →
          ∀ p ∈ atoms.foldl (fun acc a =>
              a.bonding.foldl (fun acc d => pySet acc d (((acc.lookup d).getD []) ++ [(name, a.key)])) acc) acc,
            ∀ q ∈ p.2, ∃ t, (q.1, t) ∈ frags ∧ q.2 ∈ t.keys := by
        intro atoms
        induction atoms with
        | nil => intro acc _ h; exact h
        | cons a as iha =>
          intro acc hk hacc
          simp only [List.foldl_cons]
          apply iha _ (fun x hx => hk x (by simp [hx]))
          have hak := hk a (by simp)
          generalize a.bonding = ds
          induction ds generalizing acc with
          | nil => exact hacc
          | cons d ds ih2 =>
            simp only [List.foldl_cons]
            apply ih2
            intro p hp q hq
            rcases pySet_mem _ _ _ p hp with h | h
            · exact hacc p h q hq
            · subst h
              rcases List.mem_append.mp hq with h | h
              · obtain ⟨l, hl, hx⟩ := lookup_getD_mem acc d q h
                exact hacc _ hl q hx
              · simp only [List.mem_singleton] at h; rw [h]; exact ⟨tmpl, hfm, hak⟩
      exact inner tmpl.atoms acc (fun a ha => List.mem_map.mpr ⟨a, ha, rfl⟩) hacc
  exact gen frags [] (fun f hf => hf) (by simp)

/-! ### merging a copy: the same keys and bonds as the resolver's `instantiate` -/

theorem addEdge_edges_congr (m m' : Mol) (e : Edge) (h : m.edges = m'.edges) : (m.addEdge e).edges = (m'.addEdge e).edges := by
  unfold Mol.addEdge Mol.hasEdge
  rw [h]
  split <;> simp [h]

theorem foldl_addEdge_edges_congr (es : List Edge) (m m' : Mol) (h : m.edges = m'.edges) :
    (es.foldl Mol.addEdge m).edges = (es.foldl Mol.addEdge m').edges := by
  induction es generalizing m m' with
  | nil => exact h
  | cons e es ih => simp only [List.foldl_cons]; exact ih _ _ (addEdge_edges_congr m m' e h)

theorem merge_edges (mol tmpl : Mol) (k : Key) (name : Str) :
    (mergeRunning mol tmpl).1.edges = (instantiate mol k name tmpl).1.edges := by
  unfold mergeRunning instantiate
  exact foldl_addEdge_edges_congr _ _ _ rfl

theorem merge_keys (mol tmpl : Mol) (k : Key) (name : Str) :
    (mergeRunning mol tmpl).1.keys = (instantiate mol k name tmpl).1.keys := by
  unfold mergeRunning instantiate Mol.keys
  simp only [foldl_addEdge_atoms, List.map_append, List.map_map]
  rfl

theorem merge_corr (mol tmpl : Mol) (k : Key) (name : Str) :
    (mergeRunning mol tmpl).2 = (instantiate mol k name tmpl).2 := rfl

/-- the key the copy of template node `t` receives -/
def nkOf (mol tmpl : Mol) (t : Key) : Key :=
  ((tmpl.atoms.zipIdx.map fun (p : Atom × Nat) => (p.1.key, mol.nextKey + p.2)).lookup t).getD t

theorem nkOf_new (mol tmpl : Mol) (hnd : tmpl.keys.Nodup) (t : Key) (ht : t ∈ tmpl.keys) :
    nkOf mol tmpl t ∈ (tmpl.atoms.zipIdx.map fun p => mol.nextKey + p.2) := by
  obtain ⟨a, ha, rfl⟩ := List.mem_map.mp ht
  obtain ⟨i, hi⟩ : ∃ i, (a, i) ∈ tmpl.atoms.zipIdx := by
    obtain ⟨i, hlt, e⟩ := List.getElem_of_mem ha
    exact ⟨i, by rw [List.mem_zipIdx_iff_getElem?]; simp [e, hlt]⟩
  unfold nkOf
  rw [lookup_corr tmpl.atoms mol.nextKey 0 hnd a i hi]
  exact List.mem_map.mpr ⟨(a, i), hi, rfl⟩

theorem new_is_nkOf (mol tmpl : Mol) (hnd : tmpl.keys.Nodup) (x : Key)
    (hx : x ∈ (tmpl.atoms.zipIdx.map fun p => mol.nextKey + p.2)) : ∃ t ∈ tmpl.keys, x = nkOf mol tmpl t := by
  obtain ⟨⟨a, i⟩, hp, rfl⟩ := List.mem_map.mp hx
  refine ⟨a.key, List.mem_map.mpr ⟨a, List.fst_mem_of_mem_zipIdx hp, rfl⟩, ?_⟩
  unfold nkOf
  rw [lookup_corr tmpl.atoms mol.nextKey 0 hnd a i hp]
  rfl

theorem new_not_old (mol tmpl : Mol) (x : Key) (hx : x ∈ (tmpl.atoms.zipIdx.map fun p => mol.nextKey + p.2)) :
    x ∉ mol.keys := by
  intro h
  have h1 := C10.key_lt_nextKey mol x h
  have h2 := (zipIdx_snd_nodup tmpl.atoms 0 mol.nextKey).2 x hx
  exact absurd h1 (Nat.not_lt.mpr h2)

/-! ### where the bonds of a merged molecule lie -/

/-- adding bonds whose ends all satisfy `S` to a molecule none of whose bond ends satisfies `S` leaves the
    old bonds exactly as they were and appends bonds with both ends in `S` -/
theorem foldl_addEdge_split (S : Key → Prop) (es : List Edge) (hes : ∀ e ∈ es, S e.a ∧ S e.b) (base : List Edge)
    (hbase : ∀ y ∈ base, ¬ S y.a ∧ ¬ S y.b) :
    ∀ (m : Mol) (r : List Edge), m.edges = base ++ r → (∀ x ∈ r, S x.a ∧ S x.b) →
      ∃ r', (es.foldl Mol.addEdge m).edges = base ++ r' ∧ ∀ x ∈ r', S x.a ∧ S x.b := by
  induction es with
  | nil => intro m r h hr; exact ⟨r, h, hr⟩
  | cons e es ih =>
    intro m r h hr
    simp only [List.foldl_cons]
    have he := hes e (by simp)
    by_cases hh : m.hasEdge e.a e.b = true
    · apply ih (fun x hx => hes x (by simp [hx])) (m.addEdge e)
        (r.map fun x => if Edge.joins x e.a e.b then { x with order2 := e.order2, bonding := e.bonding.or x.bonding } else x)
      · unfold Mol.addEdge
        rw [if_pos hh]
        show List.map _ m.edges = _
        rw [h, List.map_append]
        congr 1
        conv => rhs; rw [← List.map_id base]
        apply List.map_congr_left
        intro y hy
        have hn := hbase y hy
        have : Edge.joins y e.a e.b = false := by
          unfold Edge.joins
          have h1 : (y.a == e.a) = false := by
            simp only [beq_eq_false_iff_ne, ne_eq]; intro e1; exact hn.1 (e1 ▸ he.1)
          have h2 : (y.a == e.b) = false := by
            simp only [beq_eq_false_iff_ne, ne_eq]; intro e1; exact hn.1 (e1 ▸ he.2)
          simp [h1, h2]
        simp [this]
      · intro x hx
        obtain ⟨y, hy, rfl⟩ := List.mem_map.mp hx
        split
        · exact hr y hy
        · exact hr y hy
    · apply ih (fun x hx => hes x (by simp [hx])) (m.addEdge e) (r ++ [e])
      · unfold Mol.addEdge
        rw [if_neg hh]
        show m.edges ++ [e] = base ++ (r ++ [e])
        rw [h, List.append_assoc]
      · intro x hx
        rcases List.mem_append.mp hx with h1 | h1
        · exact hr x h1
        · simp only [List.mem_singleton] at h1; rw [h1]; exact he

/-- the keys a merged copy receives -/
def newKeys (mol tmpl : Mol) : List Key := tmpl.atoms.zipIdx.map fun p => mol.nextKey + p.2

theorem merge_keys' (mol tmpl : Mol) (hnd : tmpl.keys.Nodup) :
    (mergeRunning mol tmpl).1.keys = mol.keys ++ newKeys mol tmpl := by
  rw [merge_keys mol tmpl 0 [], inst_keys mol 0 [] tmpl hnd]; rfl

theorem merge_edges_split (mol tmpl : Mol) (hnd : tmpl.keys.Nodup) (hct : Closed tmpl) (hc : Closed mol) :
    ∃ r, (mergeRunning mol tmpl).1.edges = mol.edges ++ r ∧ ∀ x ∈ r, x.a ∈ newKeys mol tmpl ∧ x.b ∈ newKeys mol tmpl := by
  unfold mergeRunning
  dsimp only
  apply foldl_addEdge_split (fun k => k ∈ newKeys mol tmpl) _ _ mol.edges _ _ [] (by simp) (by simp)
  · intro e he
    obtain ⟨y, hy, rfl⟩ := List.mem_map.mp he
    have hy' := hct y (List.mem_filter.mp hy).1
    exact ⟨nkOf_new mol tmpl hnd y.a hy'.1, nkOf_new mol tmpl hnd y.b hy'.2⟩
  · intro y hy
    exact ⟨fun h => new_not_old mol tmpl _ h (hc y hy).1, fun h => new_not_old mol tmpl _ h (hc y hy).2⟩

theorem attach_target (cfg : SamplerCfg) (mol : Mol) (bonding partner : Desc) (source tnode : Key) (tmpl : Mol) (o : Nat) :
    (attach cfg mol bonding partner source tnode tmpl o).2 = nkOf mol tmpl tnode := by
  unfold attach mergeRunning nkOf
  rfl

/-- **one bond per added fragment**: after a growth step the bonds are the old bonds, unchanged and in
    place, then bonds inside the new copy, then exactly one bond — from an atom that was there to an atom
    of the copy, with the order digit of the site descriptor and the descriptor pair recorded -/
theorem C16_step_tree (cfg : SamplerCfg) (mol : Mol) (bonding partner : Desc) (source tnode : Key) (tmpl : Mol) (o : Nat)
    (hnd : tmpl.keys.Nodup) (hct : Closed tmpl) (hc : Closed mol) (hs : source ∈ mol.keys) (ht : tnode ∈ tmpl.keys) :
    ∃ r, (attach cfg mol bonding partner source tnode tmpl o).1.edges =
        mol.edges ++ r ++ [⟨source, nkOf mol tmpl tnode, 2 * o, some (bonding, partner)⟩] ∧
      (∀ x ∈ r, x.a ∈ newKeys mol tmpl ∧ x.b ∈ newKeys mol tmpl) ∧
      nkOf mol tmpl tnode ∈ newKeys mol tmpl ∧ nkOf mol tmpl tnode ∉ mol.keys ∧
      (mergeRunning mol tmpl).1.edges = mol.edges ++ r := by
  obtain ⟨r, hr, hrn⟩ := merge_edges_split mol tmpl hnd hct hc
  have htn := nkOf_new mol tmpl hnd tnode ht
  refine ⟨r, ?_, hrn, htn, new_not_old mol tmpl _ htn, hr⟩
  rw [C16_one_bond, attach_target]
  have hno : (mergeRunning mol tmpl).1.hasEdge source (nkOf mol tmpl tnode) = false := by
    unfold Mol.hasEdge
    rw [hr]
    simp only [List.any_eq_false, Bool.not_eq_true]
    intro y hy
    unfold Edge.joins
    rcases List.mem_append.mp hy with h | h
    · have h1 : y.a ≠ nkOf mol tmpl tnode := fun e => new_not_old mol tmpl _ htn (e ▸ (hc y h).1)
      have h2 : y.b ≠ nkOf mol tmpl tnode := fun e => new_not_old mol tmpl _ htn (e ▸ (hc y h).2)
      simp [h1, h2]
    · have h1 : y.a ≠ source := fun e => new_not_old mol tmpl _ (hrn y h).1 (e ▸ hs)
      have h2 : y.b ≠ source := fun e => new_not_old mol tmpl _ (hrn y h).2 (e ▸ hs)
      simp [h1, h2]
  unfold Mol.addEdge
  simp only [hno, Bool.false_eq_true, if_false, hr]

/-- a growth step keeps the keys distinct and every bond between existing atoms -/
theorem attach_wf (cfg : SamplerCfg) (mol : Mol) (bonding partner : Desc) (source tnode : Key) (tmpl : Mol) (o : Nat)
    (hnd : tmpl.keys.Nodup) (hct : Closed tmpl) (hm : mol.keys.Nodup) (hc : Closed mol) (hs : source ∈ mol.keys)
    (ht : tnode ∈ tmpl.keys) :
    (attach cfg mol bonding partner source tnode tmpl o).1.keys = mol.keys ++ newKeys mol tmpl ∧
    (attach cfg mol bonding partner source tnode tmpl o).1.keys.Nodup ∧
    Closed (attach cfg mol bonding partner source tnode tmpl o).1 := by
  have hk : (attach cfg mol bonding partner source tnode tmpl o).1.keys = mol.keys ++ newKeys mol tmpl := by
    rw [C16_node_set, merge_keys' mol tmpl hnd]
  obtain ⟨r, hr, hrn, htn, _, _⟩ := C16_step_tree cfg mol bonding partner source tnode tmpl o hnd hct hc hs ht
  refine ⟨hk, ?_, ?_⟩
  · rw [C16_node_set, merge_keys mol tmpl 0 []]; exact inst_nodup mol 0 [] tmpl hnd hm
  · intro e he
    rw [hk]
    rw [hr] at he
    simp only [List.mem_append, List.mem_singleton] at he ⊢
    rcases he with (h | h) | h
    · exact ⟨Or.inl (hc e h).1, Or.inl (hc e h).2⟩
    · exact ⟨Or.inr (hrn e h).1, Or.inr (hrn e h).2⟩
    · rw [h]; exact ⟨Or.inl hs, Or.inr htn⟩

/-! ### connectedness -/

/-- `b` can be reached from `a` along bonds -/
inductive Reach (m : Mol) : Key → Key → Prop
  | refl (a : Key) : Reach m a a
  | step {a b c : Key} : m.hasEdge a b = true → Reach m b c → Reach m a c

theorem hasEdge_symm (m : Mol) (u v : Key) : m.hasEdge u v = m.hasEdge v u := by
  unfold Mol.hasEdge
  congr 1
  funext e
  exact joins_symm e u v

theorem Reach.trans {m : Mol} {a b c : Key} (h1 : Reach m a b) (h2 : Reach m b c) : Reach m a c := by
  induction h1 with
  | refl => exact h2
  | step he _ ih => exact .step he (ih h2)

theorem Reach.symm {m : Mol} {a b : Key} (h : Reach m a b) : Reach m b a := by
  induction h with
  | refl => exact .refl _
  | @step a b c he _ ih => exact ih.trans (.step (by rw [hasEdge_symm]; exact he) (.refl _))

theorem Reach.mono {m m' : Mol} (hm : ∀ u v, m.hasEdge u v = true → m'.hasEdge u v = true) {a b : Key}
    (h : Reach m a b) : Reach m' a b := by
  induction h with
  | refl => exact .refl _
  | step he _ ih => exact .step (hm _ _ he) ih

/-- a molecule in one piece -/
def Conn (m : Mol) : Prop := ∀ a ∈ m.keys, ∀ b ∈ m.keys, Reach m a b

theorem hasEdge_of_edges_prefix (m m' : Mol) (r : List Edge) (h : m'.edges = m.edges ++ r) (u v : Key)
    (he : m.hasEdge u v = true) : m'.hasEdge u v = true := by
  unfold Mol.hasEdge at he ⊢
  rw [h, List.any_append, he]; rfl

theorem hasEdge_of_edges_eq (m m' : Mol) (h : m'.edges = m.edges) (u v : Key) : m'.hasEdge u v = m.hasEdge u v := by
  unfold Mol.hasEdge; rw [h]

/-- paths of the template are paths between the copies -/
theorem reach_copy (mol tmpl : Mol) (t t' : Key) (h : Reach tmpl t t') :
    Reach (mergeRunning mol tmpl).1 (nkOf mol tmpl t) (nkOf mol tmpl t') := by
  induction h with
  | refl => exact .refl _
  | @step a b c he _ ih =>
    refine Reach.trans ?_ ih
    unfold Mol.hasEdge at he
    obtain ⟨e, hem, hj⟩ := List.any_eq_true.mp he
    by_cases hne : nkOf mol tmpl e.a = nkOf mol tmpl e.b
    · -- a self loop after renaming: both ends are the same node
      have : nkOf mol tmpl a = nkOf mol tmpl b := by
        unfold Edge.joins at hj
        simp only [Bool.or_eq_true, Bool.and_eq_true, beq_iff_eq] at hj
        rcases hj with ⟨h1, h2⟩ | ⟨h1, h2⟩
        · rw [← h1, ← h2]; exact hne
        · rw [← h1, ← h2]; exact hne.symm
      rw [this]; exact .refl _
    · have hc := C02.C02_copy_edges mol 0 [] tmpl e hem hne
      have hc' : (mergeRunning mol tmpl).1.hasEdge (nkOf mol tmpl e.a) (nkOf mol tmpl e.b) = true := by
        rw [hasEdge_of_edges_eq _ _ (merge_edges mol tmpl 0 [])]; exact hc
      unfold Edge.joins at hj
      simp only [Bool.or_eq_true, Bool.and_eq_true, beq_iff_eq] at hj
      rcases hj with ⟨h1, h2⟩ | ⟨h1, h2⟩
      · rw [← h1, ← h2]; exact .step hc' (.refl _)
      · rw [← h1, ← h2]; exact .step (by rw [hasEdge_symm]; exact hc') (.refl _)

/-- the first fragment of a sample is in one piece when its template is -/
theorem merge_conn_empty (tmpl : Mol) (hnd : tmpl.keys.Nodup) (hconn : Conn tmpl) : Conn (mergeRunning {} tmpl).1 := by
  intro a ha b hb
  rw [merge_keys' _ tmpl hnd] at ha hb
  simp only [Mol.keys, List.map_nil, List.nil_append] at ha hb
  obtain ⟨t, ht, rfl⟩ := new_is_nkOf _ tmpl hnd a ha
  obtain ⟨t', ht', rfl⟩ := new_is_nkOf _ tmpl hnd b hb
  exact reach_copy _ tmpl t t' (hconn t ht t' ht')

/-- a growth step keeps the molecule in one piece -/
theorem attach_conn (cfg : SamplerCfg) (mol : Mol) (bonding partner : Desc) (source tnode : Key) (tmpl : Mol) (o : Nat)
    (hnd : tmpl.keys.Nodup) (hct : Closed tmpl) (hconnT : Conn tmpl) (hc : Closed mol) (hconn : Conn mol)
    (hs : source ∈ mol.keys) (ht : tnode ∈ tmpl.keys) :
    Conn (attach cfg mol bonding partner source tnode tmpl o).1 := by
  obtain ⟨r, hr, hrn, htn, _, hm⟩ := C16_step_tree cfg mol bonding partner source tnode tmpl o hnd hct hc hs ht
  have hk : (attach cfg mol bonding partner source tnode tmpl o).1.keys = mol.keys ++ newKeys mol tmpl := by
    rw [C16_node_set, merge_keys' mol tmpl hnd]
  have hmono : ∀ u v, mol.hasEdge u v = true → (attach cfg mol bonding partner source tnode tmpl o).1.hasEdge u v = true :=
    fun u v h => hasEdge_of_edges_prefix mol _ (r ++ [⟨source, nkOf mol tmpl tnode, 2 * o, some (bonding, partner)⟩])
      (by rw [hr, List.append_assoc]) u v h
  have hmonoM : ∀ u v, (mergeRunning mol tmpl).1.hasEdge u v = true →
      (attach cfg mol bonding partner source tnode tmpl o).1.hasEdge u v = true :=
    fun u v h => hasEdge_of_edges_prefix (mergeRunning mol tmpl).1 _ [⟨source, nkOf mol tmpl tnode, 2 * o, some (bonding, partner)⟩]
      (by rw [hr, hm]) u v h
  have hbond : (attach cfg mol bonding partner source tnode tmpl o).1.hasEdge (nkOf mol tmpl tnode) source = true := by
    unfold Mol.hasEdge
    rw [hr]
    apply List.any_eq_true.mpr
    exact ⟨⟨source, nkOf mol tmpl tnode, 2 * o, some (bonding, partner)⟩, by simp, by simp [Edge.joins]⟩
  have hall : ∀ x ∈ (attach cfg mol bonding partner source tnode tmpl o).1.keys,
      Reach (attach cfg mol bonding partner source tnode tmpl o).1 x source := by
    intro x hx
    rw [hk] at hx
    rcases List.mem_append.mp hx with h | h
    · exact (hconn x h source hs).mono hmono
    · obtain ⟨t, htk, rfl⟩ := new_is_nkOf mol tmpl hnd x h
      exact ((reach_copy mol tmpl t tnode (hconnT t htk tnode ht)).mono hmonoM).trans (.step hbond (.refl _))
  intro a ha b hb
  exact (hall a ha).trans (hall b hb).symm

/-! ### whole runs -/

/-- what is assumed of the sampler's fragment library: a dictionary (distinct names) of templates with
    distinct keys, bonds between their own atoms, each in one piece -/
structure CfgWF (cfg : SamplerCfg) : Prop where
  frags : FragsWF cfg.frags
  names : (cfg.frags.map (·.1)).Nodup
  conn : ∀ p ∈ cfg.frags, Conn p.2

theorem lookup_unique {β : Type} (d : List (Str × β)) (k : Str) (v : β) (hnd : (d.map (·.1)).Nodup) (h : (k, v) ∈ d) :
    d.lookup k = some v := by
  induction d with
  | nil => simp at h
  | cons x xs ih =>
    obtain ⟨a, b⟩ := x
    simp only [List.map_cons, List.nodup_cons] at hnd
    rcases List.mem_cons.mp h with e | h'
    · simp only [Prod.mk.injEq] at e; obtain ⟨rfl, rfl⟩ := e; simp [List.lookup]
    · have : (k == a) = false := by
        simp only [beq_eq_false_iff_ne, ne_eq]
        intro e; subst e
        exact hnd.1 (List.mem_map.mpr ⟨(k, v), h', rfl⟩)
      simp only [List.lookup, this]
      exact ih hnd.2 h'

/-- the anatomy of one successful growth step -/
theorem addFragment_spec (cfg : SamplerCfg) (hw : CfgWF cfg) (mol : Mol) (rng rest : List Nat) (out : GrowOut)
    (h : addFragment cfg mol rng = .ok (out, rest)) :
    ∃ tnode tmpl o, (out.fragname, tmpl) ∈ cfg.frags ∧ out.source ∈ mol.keys ∧ tnode ∈ tmpl.keys ∧
      out.mol = (attach cfg mol out.site out.partner out.source tnode tmpl o).1 ∧
      out.target = nkOf mol tmpl tnode ∧ descOrder out.site = .ok o := by
  unfold addFragment at h
  simp only [bind, Except.bind] at h
  split at h
  · cases h
  rename_i r1 h1
  obtain ⟨bonding, rng1⟩ := r1
  simp only at h
  split at h
  · cases h
  rename_i r2 h2
  obtain ⟨source, rng2⟩ := r2
  simp only at h
  split at h
  · cases h
  rename_i compl h3
  split at h
  · cases h
  rename_i r4 h4
  obtain ⟨partner, rng3⟩ := r4
  simp only at h
  split at h
  · cases h
  rename_i r5 h5
  obtain ⟨⟨fragname, tnode⟩, rng4⟩ := r5
  simp only at h
  split at h
  · cases h
  rename_i tmpl h6
  split at h
  · cases h
  rename_i o h7
  simp only [pure, Except.pure, Except.ok.injEq, Prod.mk.injEq] at h
  obtain ⟨rfl, _⟩ := h
  have hsrc : source ∈ mol.keys := by
    obtain ⟨l, hl, hx⟩ := lookup_getD_mem _ _ _ (C17.C17_choose_mem _ _ _ _ h2)
    exact openBonds_keys mol _ hl source hx
  obtain ⟨l, hl, hx⟩ := lookup_getD_mem _ _ _ (C17.C17_choose_mem _ _ _ _ h5)
  obtain ⟨tmpl', hmem, htn⟩ := fragsByBonding_mem cfg.frags _ hl _ hx
  have htm : tmpl' = tmpl := by
    have h1 := lookup_unique cfg.frags fragname tmpl' hw.names hmem
    unfold pyGet at h6
    rw [h1] at h6
    simpa using h6
  subst htm
  exact ⟨tnode, tmpl', o, hmem, hsrc, htn, rfl, attach_target cfg mol bonding partner source tnode tmpl' o, h7⟩

/-- the invariant of the growth loop -/
structure RunInv (m : Mol) : Prop where
  nodup : m.keys.Nodup
  closed : Closed m
  conn : Conn m

theorem addFragment_inv (cfg : SamplerCfg) (hw : CfgWF cfg) (mol : Mol) (rng rest : List Nat) (out : GrowOut)
    (inv : RunInv mol) (h : addFragment cfg mol rng = .ok (out, rest)) : RunInv out.mol := by
  obtain ⟨tnode, tmpl, o, hmem, hs, ht, hm, _, _⟩ := addFragment_spec cfg hw mol rng rest out h
  obtain ⟨hnd, hct⟩ := hw.frags _ hmem
  have hcn := hw.conn _ hmem
  rw [hm]
  obtain ⟨_, h2, h3⟩ := attach_wf cfg mol out.site out.partner out.source tnode tmpl o hnd hct inv.nodup inv.closed hs ht
  exact ⟨h2, h3, attach_conn cfg mol out.site out.partner out.source tnode tmpl o hnd hct hcn inv.closed inv.conn hs ht⟩

theorem grow_inv (cfg : SamplerCfg) (hw : CfgWF cfg) (target : Int × Nat) :
    ∀ (fuel : Nat) (mol : Mol) (cur : Int × Nat) (rng : List Nat) (log : List GrowStep) (res : Mol × List GrowStep × List Nat),
      RunInv mol → grow cfg target fuel mol cur rng log = .ok res → RunInv res.1 := by
  intro fuel
  induction fuel with
  | zero =>
    intro mol cur rng log res inv h
    simp only [grow, pure, Except.pure, Except.ok.injEq] at h
    subst h; exact inv
  | succ f ih =>
    intro mol cur rng log res inv h
    simp only [grow] at h
    split at h
    · simp only [bind, Except.bind] at h
      split at h
      · cases h
      rename_i r hr
      obtain ⟨out, rest⟩ := r
      simp only at h
      split at h
      · cases h
      exact ih _ _ _ _ _ (addFragment_inv cfg hw mol rng rest out inv hr) h
    · simp only [pure, Except.pure, Except.ok.injEq] at h
      subst h; exact inv

theorem runInv_start (tmpl : Mol) (hnd : tmpl.keys.Nodup) (hct : Closed tmpl) (hcn : Conn tmpl) :
    RunInv (mergeRunning {} tmpl).1 := by
  have he : Closed ({} : Mol) := by intro e he; simp at he
  refine ⟨?_, ?_, merge_conn_empty tmpl hnd hcn⟩
  · rw [merge_keys _ tmpl 0 []]; exact inst_nodup _ 0 [] tmpl hnd (by simp [Mol.keys])
  · intro e he'
    rw [merge_keys _ tmpl 0 []]
    rw [merge_edges _ tmpl 0 []] at he'
    exact inst_closed _ 0 [] tmpl hnd hct he e he'

/-- **C16 for every run.**  Whatever the fragment library (a dictionary of templates with distinct keys,
    closed bonds, each in one piece), the reactivities, the target, the start fragment and the random
    decisions: the molecule the growth loop returns has distinct keys, bonds only between its own atoms,
    and is connected. -/
theorem C16_run (cfg : SamplerCfg) (hw : CfgWF cfg) (target : Int × Nat) (startDecision : Option Nat)
    (startName : Option Str) (rng : List Nat) (res : Mol × List GrowStep × List Nat)
    (h : sampleA cfg target startDecision startName rng = .ok res) : RunInv res.1 := by
  have tail : ∀ name : Str, Except.bind (pyGet cfg.frags name)
      (fun tmpl => grow cfg target (rng.length + 1) (mergeRunning {} tmpl).1 (0, 1) rng []) = Except.ok res → RunInv res.1 := by
    intro name h
    unfold Except.bind at h
    split at h
    · cases h
    rename_i tmpl ht
    have hmem : (name, tmpl) ∈ cfg.frags := by
      unfold pyGet at ht
      split at ht
      · rename_i v hv
        simp only [Except.ok.injEq] at ht; subst ht
        exact lookup_mem' _ _ _ hv
      · cases ht
    obtain ⟨hnd, hct⟩ := hw.frags _ hmem
    exact grow_inv cfg hw target _ _ _ _ _ res (runInv_start tmpl hnd hct (hw.conn _ hmem)) h
  unfold sampleA at h
  simp only [bind] at h
  cases startName with
  | some n => exact tail n h
  | none =>
    cases startDecision with
    | none => cases h
    | some i =>
      simp only at h
      cases hc : choose (cfg.frags.map (·.1)) [i] with
      | error e => rw [hc] at h; cases h
      | ok r => rw [hc] at h; exact tail r.1 h

/-- one growth step in the sampler's own terms: for every state the loop can reach (`RunInv`), the new
    fragment copy is attached by exactly one bond, from an atom that was there (`out.source`) to an atom of
    the copy (`out.target`), carrying the site descriptor's order digit and the descriptor pair; old bonds
    are untouched, all other new bonds lie inside the copy -/
theorem C16_step (cfg : SamplerCfg) (hw : CfgWF cfg) (mol : Mol) (inv : RunInv mol) (rng rest : List Nat) (out : GrowOut)
    (h : addFragment cfg mol rng = .ok (out, rest)) :
    ∃ (tmpl : Mol) (o : Nat) (r : List Edge), (out.fragname, tmpl) ∈ cfg.frags ∧ descOrder out.site = .ok o ∧
      out.mol.keys = mol.keys ++ newKeys mol tmpl ∧
      out.mol.edges = mol.edges ++ r ++ [⟨out.source, out.target, 2 * o, some (out.site, out.partner)⟩] ∧
      (∀ x ∈ r, x.a ∈ newKeys mol tmpl ∧ x.b ∈ newKeys mol tmpl) ∧
      out.source ∈ mol.keys ∧ out.target ∈ newKeys mol tmpl ∧ out.target ∉ mol.keys := by
  obtain ⟨tnode, tmpl, o, hmem, hs, ht, hm, htg, ho⟩ := addFragment_spec cfg hw mol rng rest out h
  obtain ⟨hnd, hct⟩ := hw.frags _ hmem
  obtain ⟨r, hr, hrn, htn, hto, _⟩ := C16_step_tree cfg mol out.site out.partner out.source tnode tmpl o hnd hct inv.closed hs ht
  refine ⟨tmpl, o, r, hmem, ho, ?_, ?_, hrn, hs, htg ▸ htn, htg ▸ hto⟩
  · rw [hm]; exact (attach_wf cfg mol out.site out.partner out.source tnode tmpl o hnd hct inv.nodup inv.closed hs ht).1
  · rw [hm, hr, htg]

/-! ### the hypothesis as an executable check -/

theorem neighbors_hasEdge (m : Mol) (k n : Key) (h : n ∈ m.neighbors k) : m.hasEdge k n = true := by
  unfold Mol.neighbors at h
  obtain ⟨e, he, hn⟩ := List.mem_filterMap.mp h
  unfold Mol.hasEdge
  apply List.any_eq_true.mpr
  refine ⟨e, he, ?_⟩
  unfold Edge.joins
  split at hn
  · rename_i h1
    simp only [Option.some.injEq] at hn
    simp only [beq_iff_eq] at h1
    simp [h1, hn]
  · split at hn
    · rename_i h1 h2
      simp only [Option.some.injEq] at hn
      simp only [beq_iff_eq] at h2
      simp [h2, hn]
    · cases hn

theorem reachSet_sound (m : Mol) (k : Key) : ∀ (fuel : Nat) (seen : List Key), (∀ x ∈ seen, Reach m k x) →
    ∀ x ∈ reachSet m fuel seen, Reach m k x
  | 0, seen, hs => hs
  | fuel + 1, seen, hs => by
    apply reachSet_sound m k fuel
    intro x hx
    rw [List.mem_eraseDups] at hx
    rcases List.mem_append.mp hx with h | h
    · exact hs x h
    · obtain ⟨y, hy, hxy⟩ := List.mem_flatMap.mp h
      exact (hs y hy).trans (.step (neighbors_hasEdge m y x hxy) (.refl _))

theorem connb_sound (m : Mol) (h : m.connb = true) : Conn m := by
  unfold Mol.connb at h
  split at h
  · rename_i hk
    intro a ha; rw [hk] at ha; simp at ha
  · rename_i k ks hk
    have hall : ∀ x ∈ m.keys, Reach m k x := by
      intro x hx
      have := List.all_eq_true.mp h x hx
      simp only [List.contains_iff_mem] at this
      exact reachSet_sound m k _ [k] (by intro y hy; simp only [List.mem_singleton] at hy; rw [hy]; exact .refl _) x this
    intro a ha b hb
    exact (hall a ha).symm.trans (hall b hb)

/-- the Boolean the driver evaluates on every fragment library it is handed implies the hypothesis -/
theorem cfgWFb_sound (cfg : SamplerCfg) (h : cfgWFb cfg = true) : CfgWF cfg := by
  unfold cfgWFb at h
  simp only [Bool.and_eq_true, decide_eq_true_eq, List.all_eq_true] at h
  exact ⟨(fragsWFb_iff _).mp h.1.1, h.1.2, fun p hp => connb_sound _ (h.2 p hp)⟩

/-! worked instance: the hypothesis holds of a two-fragment library, and a run through the model -/
def exLib : FragDict :=
  [("A".toList, { atoms := [{ key := 0, element := "C".toList, bonding := ["$1".toList] },
                            { key := 1, element := "C".toList, bonding := ["$1".toList] }],
                  edges := [⟨0, 1, 2, none⟩] }),
   ("B".toList, { atoms := [{ key := 0, element := "O".toList, bonding := ["$1".toList] }], edges := [] })]
def exCfg : SamplerCfg := ⟨exLib, [], [], [], [("A".toList, (28, 1)), ("B".toList, (17, 1))], false⟩
example : cfgWFb exCfg = true := by decide +kernel
example : ((sampleA exCfg (40, 1) none (some "A".toList) [0, 1, 0, 0, 0, 1, 0, 2]).map fun r =>
    (r.1.keys, r.1.edges.map fun e => (e.a, e.b))) = .ok ([0, 1, 2, 3, 4], [(0, 1), (2, 3), (1, 2), (3, 4)]) := by
  decide +kernel

end CGV.C16
