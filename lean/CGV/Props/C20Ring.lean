/-
  C20 at string level for chains with ring bonds: a ring marker that occurs an odd number of times —
  opened and not closed — makes the reader raise SyntaxError wherever it stands, in a string of any size;
  and whatever the string of this grammar, the reader either returns a graph or raises SyntaxError.
-/
import CGV.Props.C04Ring
import CGV.Props.C20
namespace CGV.C20
open CGV Gen C04
set_option linter.unusedSimpArgs false

/-- a marker is open after the markers `ms` iff it occurs an odd number of times among them (or was open) -/
def oddIn (m : Nat) (ms : List RMark) : Bool := decide ((ms.filter (·.id == m)).length % 2 = 1)

theorem toggle_parity (cur : Nat) (ms : List RMark) (opened : List (Nat × Nat × Nat)) (m : Nat) :
    hasKey (toggle opened cur ms []).1 m = (hasKey opened m != oddIn m ms) := by
  rw [← applyRings_toggle, C20_ring_parity cur (ms.map occ) opened [] m]
  unfold oddIn
  congr 3
  induction ms with
  | nil => rfl
  | cons x xs ih =>
    simp only [List.map_cons, List.filter_cons, occ]
    split
    · simp only [List.length_cons]; omega
    · exact ih

theorem oddIn_append (m : Nat) (a b : List RMark) : oddIn m (a ++ b) = (oddIn m a != oddIn m b) := by
  unfold oddIn
  rw [List.filter_append, List.length_append]
  generalize (a.filter (·.id == m)).length = x
  generalize (b.filter (·.id == m)).length = y
  rcases Nat.mod_two_eq_zero_or_one x with hx | hx <;> rcases Nat.mod_two_eq_zero_or_one y with hy | hy <;>
    simp [Nat.add_mod, hx, hy]

theorem addRingEdges_err (g : CGGraph) (es : List (Nat × Nat × Nat)) (e : PyErr) (h : addRingEdges g es = .error e) :
    e = .syntax := by
  unfold addRingEdges at h
  induction es generalizing g with
  | nil => simp [List.foldlM_nil, pure, Except.pure] at h
  | cons x xs ih =>
    rw [List.foldlM_cons] at h
    by_cases hx : g.hasEdge x.1 x.2.1 = true
    · simp [hx, bind, Except.bind, throw, throwThe, MonadExceptOf.throw] at h; exact h.symm
    · simp only [hx, Bool.false_eq_true, if_false, bind, Except.bind, pure, Except.pure] at h
      exact ih _ h

/-- the denotation returns a graph only when every marker is closed again; its only error is SyntaxError -/
theorem ringGraphAux_cases : ∀ (its : List RItem) (g : CGGraph) (opened : List (Nat × Nat × Nat)) (prev k : Nat),
    (∃ res, ringGraphAux g opened prev k its = .ok res ∧ ∀ m, hasKey opened m = oddIn m (its.flatMap (·.rings))) ∨
    ringGraphAux g opened prev k its = .error .syntax
  | [], g, opened, prev, k => by
    unfold ringGraphAux
    cases h : opened.isEmpty with
    | true =>
      left
      refine ⟨g, by simp [pure, Except.pure], fun m => ?_⟩
      have : opened = [] := List.isEmpty_iff.mp h
      subst this; rfl
    | false => right; simp [throw, throwThe, MonadExceptOf.throw]
  | it :: its, g, opened, prev, k => by
    unfold ringGraphAux
    simp only [bind, Except.bind]
    cases h : addRingEdges ((g.addNode k (defaultAttrs it.name)).addEdge prev k (some it.order)) (toggle opened k it.rings []).2 with
    | error e => right; rw [addRingEdges_err _ _ e h]
    | ok g2 =>
      simp only
      rcases ringGraphAux_cases its g2 (toggle opened k it.rings []).1 k (k + 1) with ⟨res, h1, h2⟩ | h1
      · left
        refine ⟨res, h1, fun m => ?_⟩
        have := h2 m
        rw [toggle_parity] at this
        simp only [List.flatMap_cons, oddIn_append]
        generalize hasKey opened m = a at this ⊢
        generalize oddIn m it.rings = b at this ⊢
        generalize oddIn m (its.flatMap (·.rings)) = c at this ⊢
        cases a <;> cases b <;> cases c <;> simp_all
      · right; exact h1

/-- all ring markers of a string, in order -/
def allMarks (frings : List RMark) (its : List RItem) : List RMark := frings ++ its.flatMap (·.rings)

/-- **a ring index that is opened and not closed is rejected**: in every ring-chain string, of any size,
    in which some marker occurs an odd number of times, the reader raises SyntaxError -/
theorem C20_unclosed_ring_string (first : Str) (frings : List RMark) (its : List RItem) (hfirst : NameOk first)
    (hfr : MarksOk frings) (hok : ∀ it ∈ its, RItemOk it) (m : Nat) (hodd : oddIn m (allMarks frings its) = true) :
    readCG (renderRing first frings its) = .error .syntax := by
  rw [C04_read_ring first frings its hfirst hfr hok]
  unfold ringGraph
  simp only [bind, Except.bind]
  cases h : addRingEdges (({} : CGGraph).addNode 0 (defaultAttrs first)) (toggle [] 0 frings []).2 with
  | error e => rw [addRingEdges_err _ _ e h]
  | ok g1 =>
    simp only
    rcases ringGraphAux_cases its g1 (toggle [] 0 frings []).1 0 1 with ⟨res, _, h2⟩ | h1
    · exfalso
      have := h2 m
      rw [toggle_parity] at this
      unfold allMarks at hodd
      rw [oddIn_append] at hodd
      have h0 : hasKey ([] : List (Nat × Nat × Nat)) m = false := rfl
      rw [h0] at this
      generalize oddIn m frings = b at this hodd
      generalize oddIn m (its.flatMap (·.rings)) = c at this hodd
      cases b <;> cases c <;> simp_all
    · exact h1

/-- whatever the ring-chain string: a graph or SyntaxError, nothing else -/
theorem C20_ring_string_total (first : Str) (frings : List RMark) (its : List RItem) (hfirst : NameOk first)
    (hfr : MarksOk frings) (hok : ∀ it ∈ its, RItemOk it) :
    (∃ g, readCG (renderRing first frings its) = .ok g) ∨ readCG (renderRing first frings its) = .error .syntax := by
  rw [C04_read_ring first frings its hfirst hfr hok]
  unfold ringGraph
  simp only [bind, Except.bind]
  cases h : addRingEdges (({} : CGGraph).addNode 0 (defaultAttrs first)) (toggle [] 0 frings []).2 with
  | error e => right; rw [addRingEdges_err _ _ e h]
  | ok g1 =>
    simp only
    rcases ringGraphAux_cases its g1 (toggle [] 0 frings []).1 0 1 with ⟨res, h1, _⟩ | h1
    · exact Or.inl ⟨res, h1⟩
    · exact Or.inr h1

end CGV.C20
