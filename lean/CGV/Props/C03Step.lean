/-
  C03 at the level of the molecule: after `edges_from_bonding_descrpt` two atoms are bonded exactly when they were
  bonded inside a fragment copy already or a bond was created for them from a pair of descriptors — nothing else
  appears, nothing disappears.  Together with `C03_adjacent` / `C03_pair_compatible` (bonds are created only for listed
  base-graph edges, from compatible pairs) this is the statement "inter-fragment bonds follow the base graph" about the
  molecule itself, for every base graph and every fragment set.
-/
import CGV.Props.C10Quot
namespace CGV.C03
open CGV C10 Mol

def cutJoins (c : Cut) (u v : Key) : Bool := (c.a == u && c.b == v) || (c.a == v && c.b == u)

theorem map_hasEdge (m : Mol) (f : Edge → Edge) (hf : ∀ x, (f x).a = x.a ∧ (f x).b = x.b) (u v : Key) :
    ({ m with edges := m.edges.map f } : Mol).hasEdge u v = m.hasEdge u v := by
  simp only [Mol.hasEdge, List.any_map]
  congr 1
  funext x
  simp only [Function.comp, Edge.joins, (hf x).1, (hf x).2]

theorem addEdge_hasEdge (m : Mol) (e : Edge) (u v : Key) :
    (m.addEdge e).hasEdge u v = (m.hasEdge u v || Edge.joins e u v) := by
  unfold Mol.addEdge
  by_cases h : m.hasEdge e.a e.b = true
  · rw [if_pos h]
    have h1 := map_hasEdge m (fun x => if Edge.joins x e.a e.b then
        { x with order2 := e.order2, bonding := e.bonding.or x.bonding } else x) (by intro x; split <;> exact ⟨rfl, rfl⟩) u v
    have h2 : Edge.joins e u v = true → m.hasEdge u v = true := by
      intro hj
      simp only [Edge.joins, Bool.or_eq_true, Bool.and_eq_true, beq_iff_eq] at hj
      rcases hj with ⟨rfl, rfl⟩ | ⟨rfl, rfl⟩
      · exact h
      · rw [hasEdge_comm]; exact h
    rw [h1]
    cases hj : Edge.joins e u v with
    | false => simp
    | true => simp [h2 hj]
  · rw [if_neg h]
    exact hasEdge_append m e u v

theorem applyCut_hasEdge (allAtom : Bool) (m m' : Mol) (c : Cut) (h : applyCut allAtom m c = .ok m') (u v : Key) :
    m'.hasEdge u v = (m.hasEdge u v || cutJoins c u v) := by
  unfold applyCut at h
  cases ho : descOrder c.da with
  | error e => rw [ho] at h; simp [bind, Except.bind] at h
  | ok o =>
    rw [ho] at h
    simp only [bind, Except.bind] at h
    cases allAtom with
    | false =>
      simp only [Bool.false_eq_true, if_false, pure, Except.pure, Except.ok.injEq] at h
      subst h
      rw [addEdge_hasEdge]; rfl
    | true =>
      simp only [if_true, pure, Except.pure, Except.ok.injEq] at h
      subst h
      simp only [updAtom_hasEdge]
      rw [addEdge_hasEdge]; rfl

theorem fold_hasEdge (allAtom : Bool) : ∀ (cuts : List Cut) (m m' : Mol), cuts.foldlM (applyCut allAtom) m = .ok m' →
    ∀ u v, m'.hasEdge u v = (m.hasEdge u v || cuts.any fun c => cutJoins c u v)
  | [], m, m', h, u, v => by
    simp [List.foldlM_nil, pure, Except.pure] at h; subst h; simp
  | c :: cs, m, m', h, u, v => by
    rw [List.foldlM_cons] at h
    cases hx : applyCut allAtom m c with
    | error e => rw [hx] at h; simp [bind, Except.bind] at h
    | ok m2 =>
      rw [hx] at h
      simp only [bind, Except.bind] at h
      rw [fold_hasEdge allAtom cs m2 m' h u v, applyCut_hasEdge allAtom m m2 c hx u v]
      simp [Bool.or_assoc]

/-- **C03 about the molecule, for every step**: after bond creation two atoms are bonded iff they were bonded inside a
    fragment copy or a bond was created for them (a cut of `edgesFrom`, each made for a listed base-graph edge from a
    compatible pair of descriptors: `C03_adjacent`, `C03_pair_compatible`) -/
theorem C03_step_adjacency (cp : Desc → Desc → Bool) (allAtom : Bool) (mg : Meta) (m0 m1 : Mol) (inst : List (Key × List Key))
    (h : connect cp allAtom mg m0 inst = .ok m1) (u v : Key) :
    m1.hasEdge u v = (m0.hasEdge u v || (edgesFrom cp mg.edges (openOf m0 inst)).2.any fun c => cutJoins c u v) := by
  unfold connect at h
  exact fold_hasEdge allAtom _ m0 m1 h u v

/-! worked instance: the two fragments of `exMeta`/`exFd` joined through `$`-type descriptors instead of shared atoms -/
def exFdBond : FragDict := [("A".toList, exFrag [] ["$a1".toList]), ("B".toList, exFrag ["$a1".toList] [])]
example : ((phaseA (compat false) false exMeta exFdBond).map fun r => r.1.edges.map fun e => (e.a, e.b, e.order2)) =
    .ok [(0, 1, 2), (2, 3, 2), (1, 2, 2)] := by decide +kernel

end CGV.C03
