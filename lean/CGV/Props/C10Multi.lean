/-
  C10 for every sequence of merges: the whole loop of `squash_atoms` — any number of shared pairs, atoms
  shared several times over (the chain of previous merges is followed) — removes exactly one atom per
  merge, only ever atoms that sit on a '!' bond, and leaves every other atom as it was.
-/
import CGV.Props.C10
namespace CGV.C10
open CGV Mol
set_option linter.unusedSimpArgs false

/-- the provisional '!' bonds, in the order `nx.get_edge_attributes(...).items()` reports them -/
def sharedOf (mol : Mol) : List Edge :=
  mol.edgesIter.filter fun e =>
    match e.bonding with
    | some (d, _) => d.head? == some '!'
    | none => false

/-- one turn of the loop of `squash_atoms` -/
def sqStep (acc : Mol × List (Key × Key)) (e : Edge) : Mol × List (Key × Key) :=
  let keep := squash.resolveKey acc.2.length.succ acc.2 e.a
  let rem := squash.resolveKey acc.2.length.succ acc.2 e.b
  if keep == rem then acc
  else (contract acc.1 keep rem, (rem, keep) :: acc.2)

theorem squash_eq (mol : Mol) : squash mol = ((sharedOf mol).foldl sqStep (mol, [])).1 := rfl

/-! ### the record of merges: every `keep` was alive when it was recorded -/

inductive WF : List (Key × Key) → Prop
  | nil : WF []
  | cons {sq r k} : WF sq → k ∉ sq.map (·.1) → k ≠ r → WF ((r, k) :: sq)

theorem split_first (sq : List (Key × Key)) (k : Key) (h : k ∈ sq.map (·.1)) :
    ∃ pre k' post, sq = pre ++ (k, k') :: post ∧ k ∉ pre.map (·.1) := by
  induction sq with
  | nil => simp at h
  | cons x xs ih =>
    by_cases hx : x.1 = k
    · exact ⟨[], x.2, xs, by subst hx; rfl, by simp⟩
    · have : k ∈ xs.map (·.1) := by
        simp only [List.map_cons, List.mem_cons] at h
        rcases h with h | h
        · exact absurd h.symm hx
        · exact h
      obtain ⟨pre, k', post, e, hn⟩ := ih this
      refine ⟨x :: pre, k', post, by rw [e]; rfl, ?_⟩
      simp only [List.map_cons, List.mem_cons, not_or]
      exact ⟨fun e => hx e.symm, hn⟩

theorem lookup_split (pre post : List (Key × Key)) (k k' : Key) (hn : k ∉ pre.map (·.1)) :
    (pre ++ (k, k') :: post).lookup k = some k' := by
  induction pre with
  | nil => simp [List.lookup]
  | cons x xs ih =>
    simp only [List.map_cons, List.mem_cons, not_or] at hn
    obtain ⟨a, b⟩ := x
    have : (k == a) = false := by simpa using hn.1
    simp only [List.cons_append, List.lookup, this]
    exact ih hn.2

theorem lookup_none (sq : List (Key × Key)) (k : Key) (hn : k ∉ sq.map (·.1)) : sq.lookup k = none := by
  induction sq with
  | nil => rfl
  | cons x xs ih =>
    simp only [List.map_cons, List.mem_cons, not_or] at hn
    obtain ⟨a, b⟩ := x
    have : (k == a) = false := by simpa using hn.1
    simp only [List.lookup, this]
    exact ih hn.2

/-- in a well-formed record the target of an entry is not removed by an older entry -/
theorem WF.split {sq : List (Key × Key)} (h : WF sq) (pre post : List (Key × Key)) (r k : Key)
    (e : sq = pre ++ (r, k) :: post) : k ∉ post.map (·.1) ∧ k ≠ r := by
  induction h generalizing pre with
  | nil => simp at e
  | @cons sq r' k' _ hk hne ih =>
    cases pre with
    | nil =>
      simp only [List.nil_append, List.cons.injEq, Prod.mk.injEq] at e
      obtain ⟨⟨rfl, rfl⟩, rfl⟩ := e
      exact ⟨hk, hne⟩
    | cons x xs =>
      simp only [List.cons_append, List.cons.injEq] at e
      exact ih xs e.2

/-- a key that was never removed resolves to itself -/
theorem resolve_live (sq : List (Key × Key)) (k : Key) (f : Nat) (hn : k ∉ sq.map (·.1)) :
    squash.resolveKey f sq k = k := by
  cases f with
  | zero => rfl
  | succ f => simp only [squash.resolveKey, lookup_none sq k hn]

/-- following the chain of previous merges from any key ends, within the loop's fuel, at a key that has
    not been removed (the `while node in squashed` loops of squash_atoms terminate) -/
theorem resolve_chain {sq : List (Key × Key)} (h : WF sq) :
    ∀ (n : Nat) (pre post : List (Key × Key)) (k k' : Key), pre.length = n → sq = pre ++ (k, k') :: post →
      k ∉ pre.map (·.1) → ∀ f, n + 2 ≤ f → squash.resolveKey f sq k ∉ sq.map (·.1) := by
  intro n
  induction n using Nat.strongRecOn with
  | _ n ih =>
    intro pre post k k' hlen e hn f hf
    obtain ⟨f, rfl⟩ : ∃ g, f = g + 1 := ⟨f - 1, by omega⟩
    have hl : sq.lookup k = some k' := by rw [e]; exact lookup_split pre post k k' hn
    simp only [squash.resolveKey, hl]
    have hsp := h.split pre post k k' e
    by_cases hd : k' ∈ sq.map (·.1)
    · -- k' was removed later: its entry lies in `pre`
      have hpre : k' ∈ pre.map (·.1) := by
        rw [e] at hd
        simp only [List.map_append, List.map_cons, List.mem_append, List.mem_cons] at hd
        rcases hd with hd | hd | hd
        · exact hd
        · exact absurd hd hsp.2
        · exact absurd hd hsp.1
      obtain ⟨pre', k'', post', e', hn'⟩ := split_first pre k' hpre
      have hlt : pre'.length < n := by rw [← hlen, e']; simp
      apply ih pre'.length hlt pre' (post' ++ (k, k') :: post) k' k'' rfl (by rw [e, e']; simp) hn' f
      omega
    · rw [resolve_live sq k' f hd]; exact hd

theorem resolve_alive {sq : List (Key × Key)} (h : WF sq) (k : Key) :
    squash.resolveKey sq.length.succ sq k ∉ sq.map (·.1) := by
  by_cases hd : k ∈ sq.map (·.1)
  · obtain ⟨pre, k', post, e, hn⟩ := split_first sq k hd
    apply resolve_chain h pre.length pre post k k' rfl e hn
    rw [e]; simp
  · rw [resolve_live sq k _ hd]; exact hd

/-- the result of following the chain is the key itself or a recorded survivor -/
theorem resolve_mem (sq : List (Key × Key)) (k : Key) (f : Nat) :
    squash.resolveKey f sq k = k ∨ squash.resolveKey f sq k ∈ sq.map (·.2) := by
  induction f generalizing k with
  | zero => exact Or.inl rfl
  | succ f ih =>
    simp only [squash.resolveKey]
    cases hl : sq.lookup k with
    | none => exact Or.inl rfl
    | some k' =>
      simp only
      rcases ih k' with h | h
      · rw [h]; right
        obtain ⟨l1, l2, e, _⟩ := List.lookup_eq_some_iff.mp hl
        rw [e]; simp
      · exact Or.inr h

/-! ### the loop invariant -/

theorem contract_keys (mol : Mol) (keep rem : Key) :
    (contract mol keep rem).keys = mol.keys.filter (· != rem) := by
  have hf : (mol.atoms.filter (·.key != rem)).map (·.key) = (mol.atoms.map (·.key)).filter (· != rem) := by
    rw [List.filter_map]; rfl
  unfold contract Mol.keys
  cases mol.atom? rem with
  | none => simp only [moved_atoms]; exact hf
  | some r =>
    simp only [Mol.updAtom, moved_atoms, List.map_map]
    rw [← hf]
    apply List.map_congr_left
    intro a _
    simp only [Function.comp]
    split <;> rfl

structure SInv (mol0 : Mol) (acc : Mol × List (Key × Key)) : Prop where
  wf : WF acc.2
  nodup : acc.1.keys.Nodup
  live : ∀ k, k ∈ acc.1.keys ↔ k ∈ mol0.keys ∧ k ∉ acc.2.map (·.1)
  count : acc.1.atoms.length + acc.2.length = mol0.atoms.length
  inK : ∀ p ∈ acc.2, p.2 ∈ mol0.keys

theorem sinv_init (mol : Mol) (hnd : mol.keys.Nodup) : SInv mol (mol, []) :=
  ⟨.nil, hnd, by simp, by simp, by simp⟩

theorem resolve_inK {mol0 : Mol} {acc : Mol × List (Key × Key)} (inv : SInv mol0 acc) (k : Key) (hk : k ∈ mol0.keys) :
    squash.resolveKey acc.2.length.succ acc.2 k ∈ acc.1.keys := by
  rw [inv.live]
  refine ⟨?_, resolve_alive inv.wf k⟩
  rcases resolve_mem acc.2 k acc.2.length.succ with h | h
  · rw [h]; exact hk
  · obtain ⟨p, hp, e⟩ := List.mem_map.mp h
    rw [← e]; exact inv.inK p hp

theorem sinv_step {mol0 : Mol} {acc : Mol × List (Key × Key)} (inv : SInv mol0 acc) (e : Edge)
    (ha : e.a ∈ mol0.keys) (hb : e.b ∈ mol0.keys) : SInv mol0 (sqStep acc e) := by
  have hk := resolve_inK inv e.a ha
  have hr := resolve_inK inv e.b hb
  unfold sqStep
  dsimp only
  by_cases heq : (squash.resolveKey acc.2.length.succ acc.2 e.a == squash.resolveKey acc.2.length.succ acc.2 e.b) = true
  · rw [if_pos heq]; exact inv
  · rw [if_neg heq]
    have hne : squash.resolveKey acc.2.length.succ acc.2 e.a ≠ squash.resolveKey acc.2.length.succ acc.2 e.b := by
      simpa using heq
    refine ⟨.cons inv.wf (resolve_alive inv.wf e.a) hne, ?_, ?_, ?_, ?_⟩
    · simp only [contract_keys]; exact inv.nodup.filter _
    · intro k
      simp only [contract_keys, List.mem_filter, inv.live, List.map_cons, List.mem_cons, not_or, bne_iff_ne, ne_eq]
      constructor
      · rintro ⟨⟨h1, h2⟩, h3⟩; exact ⟨h1, h3, h2⟩
      · rintro ⟨h1, h3, h2⟩; exact ⟨⟨h1, h2⟩, h3⟩
    · have := C10_one_fewer acc.1 (squash.resolveKey acc.2.length.succ acc.2 e.a)
        (squash.resolveKey acc.2.length.succ acc.2 e.b) inv.nodup hr
      have hc := inv.count
      simp only [List.length_cons]
      omega
    · intro p hp
      simp only [List.mem_cons] at hp
      rcases hp with rfl | hp
      · exact ((inv.live _).mp hk).1
      · exact inv.inK p hp

theorem sinv_fold {mol0 : Mol} (es : List Edge) (acc : Mol × List (Key × Key)) (inv : SInv mol0 acc)
    (hes : ∀ e ∈ es, e.a ∈ mol0.keys ∧ e.b ∈ mol0.keys) : SInv mol0 (es.foldl sqStep acc) := by
  induction es generalizing acc with
  | nil => exact inv
  | cons e es ih =>
    simp only [List.foldl_cons]
    exact ih _ (sinv_step inv e (hes e (by simp)).1 (hes e (by simp)).2) (fun x hx => hes x (by simp [hx]))

/-- every edge the iteration reports joins the end points of a stored edge -/
theorem edgesIter_ends (m : Mol) (x : Edge) (hx : x ∈ m.edgesIter) :
    ∃ e ∈ m.edges, (x.a = e.a ∧ x.b = e.b) ∨ (x.a = e.b ∧ x.b = e.a) := by
  unfold Mol.edgesIter at hx
  simp only [List.mem_flatMap, List.mem_filter, List.mem_map] at hx
  obtain ⟨_, _, ⟨e, he, rfl⟩, _⟩ := hx
  refine ⟨e, he, ?_⟩
  split
  · exact Or.inl ⟨rfl, rfl⟩
  · exact Or.inr ⟨rfl, rfl⟩

/-- a molecule whose bonds join atoms it contains -/
def Closed (m : Mol) : Prop := ∀ e ∈ m.edges, e.a ∈ m.keys ∧ e.b ∈ m.keys

theorem shared_ends (mol : Mol) (hc : Closed mol) : ∀ e ∈ sharedOf mol, e.a ∈ mol.keys ∧ e.b ∈ mol.keys := by
  intro x hx
  obtain ⟨e, he, h⟩ := edgesIter_ends mol x (List.mem_filter.mp hx).1
  rcases h with ⟨h1, h2⟩ | ⟨h1, h2⟩
  · rw [h1, h2]; exact hc e he
  · rw [h1, h2]; exact (hc e he).symm

/-- the merges the loop performs (pairs already merged through other pairs are skipped) -/
def merges (mol : Mol) : Nat := ((sharedOf mol).foldl sqStep (mol, [])).2.length

/-- **C10, every sequence of merges.**  For every molecule (distinct keys, bonds between its own atoms)
    with any number of '!' bonds, chains of repeatedly shared atoms included: the loop of `squash_atoms`
    ends with exactly one atom fewer per merge it performed, and with distinct keys again. -/
theorem C10_count (mol : Mol) (hnd : mol.keys.Nodup) (hc : Closed mol) :
    (squash mol).atoms.length + merges mol = mol.atoms.length ∧ (squash mol).keys.Nodup := by
  have inv := sinv_fold (sharedOf mol) (mol, []) (sinv_init mol hnd) (shared_ends mol hc)
  rw [squash_eq]
  exact ⟨inv.count, inv.nodup⟩

/-! ### separate shared pairs: one merge each -/

def ends (es : List Edge) : List Key := es.flatMap fun e => [e.a, e.b]

theorem fold_separate (es : List Edge) (acc : Mol × List (Key × Key)) (hnd : (ends es).Nodup)
    (hfresh : ∀ p ∈ acc.2, p.1 ∉ ends es) :
    (es.foldl sqStep acc).2.length = acc.2.length + es.length := by
  induction es generalizing acc with
  | nil => rfl
  | cons e es ih =>
    simp only [ends, List.flatMap_cons, List.cons_append, List.nil_append, List.nodup_cons, List.mem_cons, not_or] at hnd
    obtain ⟨⟨hab, ha⟩, hb, hnd'⟩ := hnd
    have hda : e.a ∉ acc.2.map (·.1) := by
      intro h; obtain ⟨p, hp, e1⟩ := List.mem_map.mp h
      exact hfresh p hp (by simp [ends, e1])
    have hdb : e.b ∉ acc.2.map (·.1) := by
      intro h; obtain ⟨p, hp, e1⟩ := List.mem_map.mp h
      exact hfresh p hp (by simp [ends, e1])
    have hstep : sqStep acc e = (contract acc.1 e.a e.b, (e.b, e.a) :: acc.2) := by
      unfold sqStep
      simp only [resolve_live acc.2 e.a _ hda, resolve_live acc.2 e.b _ hdb]
      rw [if_neg (by simpa using hab)]
    simp only [List.foldl_cons, hstep]
    rw [ih _ hnd']
    · simp only [List.length_cons]; omega
    · intro p hp
      simp only [List.mem_cons] at hp
      rcases hp with rfl | hp
      · exact hb
      · intro h; exact hfresh p hp (by simp only [ends, List.flatMap_cons, List.mem_append, List.mem_cons] at h ⊢; exact Or.inr h)

/-- when no atom sits on two '!' bonds, every shared pair is one merge: the fine graph has exactly one
    atom fewer per shared pair -/
theorem C10_separate_pairs (mol : Mol) (hnd : mol.keys.Nodup) (hc : Closed mol) (hsep : (ends (sharedOf mol)).Nodup) :
    (squash mol).atoms.length + (sharedOf mol).length = mol.atoms.length := by
  have h := (C10_count mol hnd hc).1
  have : merges mol = (sharedOf mol).length := by
    unfold merges; rw [fold_separate _ _ hsep (by simp)]; simp
  omega

theorem merges_le (es : List Edge) (acc : Mol × List (Key × Key)) :
    (es.foldl sqStep acc).2.length ≤ acc.2.length + es.length := by
  induction es generalizing acc with
  | nil => simp
  | cons e es ih =>
    simp only [List.foldl_cons]
    have := ih (sqStep acc e)
    have h2 : (sqStep acc e).2.length ≤ acc.2.length + 1 := by
      unfold sqStep; dsimp only; split <;> simp
    simp only [List.length_cons]; omega

/-- never more than one atom per shared pair is removed -/
theorem C10_at_most (mol : Mol) (hnd : mol.keys.Nodup) (hc : Closed mol) :
    mol.atoms.length ≤ (squash mol).atoms.length + (sharedOf mol).length := by
  have h := (C10_count mol hnd hc).1
  have := merges_le (sharedOf mol) (mol, [])
  unfold merges at h
  simp at this
  omega

/-! ### nothing else is merged or lost -/

theorem fold_untouched (E : List Key) (a : Atom) (haE : a.key ∉ E) (es : List Edge) (acc : Mol × List (Key × Key))
    (hes : ∀ e ∈ es, e.a ∈ E ∧ e.b ∈ E) (hsq : ∀ p ∈ acc.2, p.2 ∈ E) (ha : a ∈ acc.1.atoms) :
    a ∈ (es.foldl sqStep acc).1.atoms := by
  induction es generalizing acc with
  | nil => exact ha
  | cons e es ih =>
    simp only [List.foldl_cons]
    have hin : ∀ k, k ∈ E → squash.resolveKey acc.2.length.succ acc.2 k ∈ E := by
      intro k hk
      rcases resolve_mem acc.2 k acc.2.length.succ with h | h
      · rw [h]; exact hk
      · obtain ⟨p, hp, e1⟩ := List.mem_map.mp h
        rw [← e1]; exact hsq p hp
    have hk := hin e.a (hes e (by simp)).1
    have hr := hin e.b (hes e (by simp)).2
    apply ih _ (fun x hx => hes x (by simp [hx]))
    · intro p hp
      unfold sqStep at hp; dsimp only at hp
      split at hp
      · exact hsq p hp
      · simp only [List.mem_cons] at hp
        rcases hp with rfl | hp
        · exact hk
        · exact hsq p hp
    · unfold sqStep; dsimp only
      split
      · exact ha
      · exact C10_others_kept acc.1 _ _ a ha (fun h => haE (h ▸ hk)) (fun h => haE (h ▸ hr))

/-- every atom that does not sit on a '!' bond is in the result exactly as it was (attributes and
    memberships included), however many merges happen around it -/
theorem C10_untouched (mol : Mol) (a : Atom) (ha : a ∈ mol.atoms) (hfree : a.key ∉ ends (sharedOf mol)) :
    a ∈ (squash mol).atoms := by
  rw [squash_eq]
  apply fold_untouched (ends (sharedOf mol)) a hfree (sharedOf mol) (mol, []) _ (by simp) ha
  intro e he
  simp only [ends, List.mem_flatMap]
  exact ⟨⟨e, he, by simp⟩, ⟨e, he, by simp⟩⟩

/-! worked instances: a pair, and one atom shared by three fragments (a chain of merges) -/
example : merges ex = 1 ∧ (sharedOf ex).length = 1 := by decide +kernel
def ex3 : Mol := { atoms := [{ key := 0, fragid := [0] }, { key := 1, fragid := [0] }, { key := 2, fragid := [1] },
                             { key := 3, fragid := [1] }, { key := 4, fragid := [2] }, { key := 5, fragid := [2] }],
                   edges := [⟨0, 1, 2, none⟩, ⟨2, 3, 2, none⟩, ⟨4, 5, 2, none⟩,
                             ⟨1, 2, 2, some ("!1".toList, "!1".toList)⟩, ⟨2, 4, 2, some ("!2".toList, "!2".toList)⟩] }
example : merges ex3 = 2 ∧ ((squash ex3).atoms.map fun a => (a.key, a.fragid)) = [(0, [0]), (1, [0, 1, 2]), (3, [1]), (5, [2])] := by
  decide +kernel
example : ex3.keys.Nodup ∧ (∀ e ∈ ex3.edges, e.a ∈ ex3.keys ∧ e.b ∈ ex3.keys) := by decide +kernel

end CGV.C10
