/-
  C07 for path graphs, end to end: the writer model on the path graph with names `n0 … nk` and bond
  orders `o1 … ok` produces exactly the chain string, and (C04_read_chain) reading that string gives
  the path graph back — for every length, all names, all orders 0–4.
-/
import CGV.Props.C07
namespace CGV.C07
open CGV Gen C04
set_option linter.unusedSimpArgs false

/-! ### the path graph as the writer sees it -/

def nodesFrom (k : Nat) : List Str → List WNode
  | [] => []
  | nm :: r => ⟨k, nodeText nm, [], false⟩ :: nodesFrom (k + 1) r

def edgesFromP (k : Nat) : List LItem → List WEdge
  | [] => []
  | it :: r => ⟨k, k + 1, 2 * it.order⟩ :: edgesFromP (k + 1) r

def succFrom (k : Nat) : List LItem → List (Nat × List Nat)
  | [] => []
  | _ :: r => (k, [k + 1]) :: succFrom (k + 1) r

/-- nodes `0 … k` in a row, `dfs_successors` from node 0 -/
def pathW (first : Str) (its : List LItem) : WGraph :=
  { nodes := nodesFrom 0 (first :: its.map (·.name)), edges := edgesFromP 0 its, succ := succFrom 0 its,
    ringEdges := [], smilesFormat := false }

theorem nodesFrom_find (names : List Str) : ∀ (k i : Nat) (nm : Str), names[i]? = some nm →
    (nodesFrom k names).find? (·.key == k + i) = some ⟨k + i, nodeText nm, [], false⟩ := by
  induction names with
  | nil => intro k i nm h; simp at h
  | cons x xs ih =>
    intro k i nm h
    cases i with
    | zero => simp at h; subst h; simp [nodesFrom]
    | succ i =>
      have hne : (k == k + (i + 1)) = false := by simp <;> omega
      simp only [nodesFrom, List.find?_cons, hne]
      have := ih (k + 1) i nm (by simpa using h)
      rw [show k + 1 + i = k + (i + 1) from by omega] at this
      exact this

theorem succFrom_lookup (its : List LItem) : ∀ (k i : Nat),
    (succFrom k its).lookup (k + i) = if i < its.length then some [k + i + 1] else none := by
  induction its with
  | nil => intro k i; simp [succFrom]
  | cons x xs ih =>
    intro k i
    cases i with
    | zero => simp [succFrom, List.lookup]
    | succ i =>
      have hne : (k + (i + 1) == k) = false := by simp <;> omega
      simp only [succFrom, List.lookup_cons, hne]
      have := ih (k + 1) i
      rw [show k + 1 + i = k + (i + 1) from by omega] at this
      rw [this]
      simp

theorem pred_lookup (its : List LItem) : ∀ (k i : Nat),
    ((succFrom k its).flatMap fun (n, ss) => ss.map fun s => (s, n)).lookup (k + i + 1) =
      if i < its.length then some (k + i) else none := by
  induction its with
  | nil => intro k i; simp [succFrom]
  | cons x xs ih =>
    intro k i
    cases i with
    | zero => simp [succFrom, List.lookup]
    | succ i =>
      have hne : (k + (i + 1) + 1 == k + 1) = false := by simp <;> omega
      simp only [succFrom, List.flatMap_cons, List.map_cons, List.map_nil, List.singleton_append, List.lookup_cons, hne]
      have := ih (k + 1) i
      rw [show k + 1 + i + 1 = k + (i + 1) + 1 from by omega, show k + 1 + i = k + (i + 1) from by omega] at this
      rw [this]
      simp

theorem pred_lookup_low (its : List LItem) : ∀ (k i : Nat), i ≤ k →
    ((succFrom k its).flatMap fun (n, ss) => ss.map fun s => (s, n)).lookup i = none := by
  induction its with
  | nil => intro k i _; simp [succFrom]
  | cons x xs ih =>
    intro k i hik
    have hne : (i == k + 1) = false := by simp <;> omega
    simp only [succFrom, List.flatMap_cons, List.map_cons, List.map_nil, List.singleton_append, List.lookup_cons, hne]
    exact ih (k + 1) i (by omega)

theorem edges_find (its : List LItem) : ∀ (k i : Nat) (it : LItem), its[i]? = some it →
    ((edgesFromP k its).find? fun e => (e.a == k + i && e.b == k + i + 1) || (e.a == k + i + 1 && e.b == k + i)).map (·.order2) =
      some (2 * it.order) := by
  induction its with
  | nil => intro k i it h; simp at h
  | cons x xs ih =>
    intro k i it h
    cases i with
    | zero =>
      simp at h; subst h
      simp [edgesFromP]
    | succ i =>
      have h1 : (k == k + (i + 1)) = false := by simp <;> omega
      have h2 : (k == k + (i + 1) + 1) = false := by simp <;> omega
      simp only [edgesFromP, List.find?_cons, h1, h2, Bool.false_and, Bool.or_self]
      have := ih (k + 1) i it (by simpa using h)
      rw [show k + 1 + i = k + (i + 1) from by omega] at this
      exact this

/-- the symbol the writer emits for a chain bond is the symbol of the chain grammar -/
theorem edgeSymbol_path (first : Str) (its : List LItem) (i : Nat) (it : LItem) (h : its[i]? = some it) (ho : it.order ≤ 4) :
    edgeSymbol (pathW first its) i (i + 1) = .ok (symText it.order) := by
  have hord : (pathW first its).order2? i (i + 1) = some (2 * it.order) := by
    have := edges_find its 0 i it h
    simpa [WGraph.order2?, pathW] using this
  have hlen : i < its.length := by
    rcases Nat.lt_or_ge i its.length with h' | h'
    · exact h'
    · rw [List.getElem?_eq_none h'] at h; cases h
  have haro : ∀ j, (pathW first its).aromatic j = false := by
    intro j
    unfold WGraph.aromatic WGraph.node? pathW
    simp only
    generalize (first :: its.map (·.name)) = names
    generalize (0 : Nat) = k
    induction names generalizing k with
    | nil => simp [nodesFrom]
    | cons x xs ih =>
      simp only [nodesFrom, List.find?_cons]
      split
      · rfl
      · exact ih (k + 1)
  by_cases h1 : it.order = 1
  · have : symText it.order = [] := by rw [h1]; decide +kernel
    rw [this]
    exact C07_single_bond_silent _ _ _ (by rw [hord, h1]) (by rw [haro]; rfl)
  · obtain ⟨c, hc1, _, hc3⟩ := C07_symbols_inverse it.order ho h1
    have hne : (2 * it.order == 2) = false := by simp <;> omega
    simp [edgeSymbol, writeEdgeSymbol, hord, haro, hne, hc1, hc3, pyGet, bind, Except.bind, pure, Except.pure]

def predOf (g : WGraph) : List (Nat × Nat) := g.succ.flatMap fun (n, ss) => ss.map fun s => (s, n)

/-- one iteration of the writer's loop on a path: the bond symbol and the node text are appended, the
    next node (if any) is scheduled -/
theorem writeStep_path (first : Str) (its : List LItem) (acc : Str) (j : Nat) (nm sym : Str)
    (hnm : (first :: its.map (·.name))[j]? = some nm)
    (hsym : (match (predOf (pathW first its)).lookup j with
             | some previous => edgeSymbol (pathW first its) previous j
             | none => pure []) = .ok sym) :
    writeStep (pathW first its) (predOf (pathW first its)) ⟨acc, [j], [], 0, []⟩ =
      .ok ⟨acc ++ sym ++ nodeText nm, if j < its.length then [j + 1] else [], [], 0, []⟩ := by
  have hnode : (pathW first its).node? j = some ⟨j, nodeText nm, [], false⟩ := by
    have := nodesFrom_find (first :: its.map (·.name)) 0 j nm hnm
    simpa [WGraph.node?, pathW] using this
  have hsucc : (pathW first its).succ.lookup j = if j < its.length then some [j + 1] else none := by
    have := succFrom_lookup its 0 j
    simpa [pathW] using this
  have hring : ringIdxsOf (pathW first its) j = [] := by simp [ringIdxsOf, pathW]
  unfold writeStep
  simp only [List.getLast?_singleton, List.dropLast_singleton, List.contains_nil, hsym, hnode, hring, hsucc,
    bind, Except.bind, pure, Except.pure, Bool.false_eq_true, if_false, List.isEmpty_nil, if_true, List.foldlM_nil,
    List.filter_nil, List.append_nil, List.flatMap_nil]
  cases hl : (predOf (pathW first its)).lookup j with
  | none =>
    rw [hl] at hsym
    simp only [pure, Except.pure, Except.ok.injEq] at hsym
    subst hsym
    by_cases hj : j < its.length <;> simp [hj]
  | some previous =>
    rw [hl] at hsym
    simp only at hsym
    by_cases hj : j < its.length <;> simp [hj, hsym]

/-- the chain text without braces -/
def renderBody : List LItem → Str
  | [] => []
  | it :: r => symText it.order ++ nodeText it.name ++ renderBody r

theorem renderTail_body (its : List LItem) : renderTail its = renderBody its ++ ['}'] := by
  induction its with
  | nil => rfl
  | cons it r ih => simp [renderTail, renderBody, ih]

/-- the writer's loop from the state after node `i` -/
theorem writeLoop_path (first : Str) (its : List LItem) (hok : ∀ it ∈ its, ItemOk it) : ∀ (m i : Nat) (acc : Str) (fuel : Nat),
    its.length - i = m → m < fuel →
    writeLoop (pathW first its) (predOf (pathW first its)) fuel ⟨acc, if i < its.length then [i + 1] else [], [], 0, []⟩ =
      .ok ⟨acc ++ renderBody (its.drop i), [], [], 0, []⟩
  | 0, i, acc, fuel, hm, _ => by
    have hi : ¬ i < its.length := by omega
    have hd : its.drop i = [] := List.drop_eq_nil_of_le (by omega)
    simp only [hi, if_false, hd, renderBody, List.append_nil]
    cases fuel with
    | zero => rfl
    | succ f => simp [writeLoop, pure, Except.pure]
  | m + 1, i, acc, fuel, hm, hf => by
    have hi : i < its.length := by omega
    obtain ⟨f, rfl⟩ : ∃ f, fuel = f + 1 := ⟨fuel - 1, by omega⟩
    have hit : its[i]? = some its[i] := List.getElem?_eq_getElem hi
    have hmem : its[i] ∈ its := List.getElem_mem hi
    have hnm : (first :: its.map (·.name))[i + 1]? = some its[i].name := by simp [hi]
    have hpred : (predOf (pathW first its)).lookup (i + 1) = some i := by
      have := pred_lookup its 0 i
      simpa [predOf, pathW, hi] using this
    have hsym : (match (predOf (pathW first its)).lookup (i + 1) with
                 | some previous => edgeSymbol (pathW first its) previous (i + 1)
                 | none => pure []) = .ok (symText its[i].order) := by
      rw [hpred]; exact edgeSymbol_path first its i its[i] hit (hok _ hmem).2
    have hstep := writeStep_path first its acc (i + 1) its[i].name (symText its[i].order) hnm hsym
    simp only [hi, if_true]
    rw [writeLoop]
    simp only [List.isEmpty_cons, Bool.false_eq_true, if_false, hstep, bind, Except.bind]
    rw [writeLoop_path first its hok m (i + 1) _ f (by omega) (by omega)]
    have hdrop : its.drop i = its[i] :: its.drop (i + 1) := List.drop_eq_getElem_cons hi
    rw [hdrop]
    simp only [renderBody, List.append_assoc]

theorem foldl_min_zero (l : List Nat) : l.foldl min 0 = 0 := by
  induction l with
  | nil => rfl
  | cons x xs ih => simp [List.foldl_cons, ih]

/-- the writer on a path graph produces the chain string -/
theorem writeGraph_path (first : Str) (its : List LItem) (hok : ∀ it ∈ its, ItemOk it) :
    writeGraph (pathW first its) = .ok (nodeText first ++ renderBody its) := by
  unfold writeGraph
  have hkeys : (pathW first its).nodes.map (·.key) = 0 :: ((nodesFrom 1 (its.map (·.name))).map (·.key)) := by
    simp [pathW, nodesFrom]
  have hnlen : ∀ (k : Nat) (l : List Str), (nodesFrom k l).length = l.length := by
    intro k l; induction l generalizing k with
    | nil => rfl
    | cons x xs ih => simp [nodesFrom, ih]
  have hlen : (pathW first its).nodes.length = its.length + 1 := by
    simp [pathW, hnlen]
  have hpred0 : (predOf (pathW first its)).lookup 0 = none := by
    have := pred_lookup_low its 0 0 (Nat.le_refl 0)
    simpa [predOf, pathW] using this
  have hsym0 : (match (predOf (pathW first its)).lookup 0 with
                | some previous => edgeSymbol (pathW first its) previous 0
                | none => pure []) = .ok ([] : Str) := by rw [hpred0]; rfl
  have hstep := writeStep_path first its [] 0 first [] (by simp) hsym0
  have hloop := writeLoop_path first its hok (its.length - 0) 0 ([] ++ [] ++ nodeText first) (its.length + 1) rfl (by omega)
  simp only [hkeys, foldl_min_zero, hlen, bind, Except.bind, pure, Except.pure]
  rw [show its.length + 1 + 1 = (its.length + 1) + 1 from rfl, writeLoop]
  simp only [List.isEmpty_cons, Bool.false_eq_true, if_false, bind, Except.bind]
  have hpd : (List.flatMap (fun x => List.map (fun s => (s, x.fst)) x.snd) (pathW first its).succ) = predOf (pathW first its) := rfl
  rw [hpd]
  have hst0 : ({ toVisit := [0] } : WState) = ⟨[], [0], [], 0, []⟩ := rfl
  rw [hst0, hstep]
  simp only []
  rw [hloop]
  simp

/-- `write_cgsmiles_graph`: the graph string in braces -/
def writeCG (g : WGraph) : Py Str := do
  let s ← writeGraph g
  pure ('{' :: (s ++ ['}']))

/-- **C07 for path graphs, end to end.** For every path graph — any number of nodes, alphanumeric
    names, every bond order 0–4 — the string the writer produces is read back to exactly that graph:
    node `i` named `n_i` with the default annotation values, consecutive nodes joined with the order
    the graph had.  Both directions are the models that the correspondence ties to the code. -/
theorem C07_path_roundtrip (first : Str) (its : List LItem) (hfirst : NameOk first) (hok : ∀ it ∈ its, ItemOk it) :
    (writeCG (pathW first its)).bind readCG = .ok (pathGraph first its) := by
  unfold writeCG
  rw [writeGraph_path first its hok]
  simp only [bind, Except.bind, pure, Except.pure]
  have : '{' :: (nodeText first ++ renderBody its ++ ['}']) = renderChain first its := by
    simp [renderChain, renderTail_body]
  rw [this]
  exact C04_read_chain first its hfirst hok

/-- what is written is the documented chain syntax -/
theorem C07_path_text (first : Str) (its : List LItem) (hok : ∀ it ∈ its, ItemOk it) :
    writeCG (pathW first its) = .ok (renderChain first its) := by
  unfold writeCG
  rw [writeGraph_path first its hok]
  simp [bind, Except.bind, pure, Except.pure, renderChain, renderTail_body]

example : writeCG (pathW "A".toList [⟨"B".toList, 2⟩, ⟨"C".toList, 1⟩, ⟨"D".toList, 0⟩]) = .ok "{[#A]=[#B][#C].[#D]}".toList := by
  decide +kernel

end CGV.C07
