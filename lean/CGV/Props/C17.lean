/-
  C17 — the sampler honours target weight, reactivities, terminals and seed.

  Model: CGV.Model.Sample — `select` (= _select_bonding_operator), `addFragment`, `grow`
  (= the `while current_weight < target_weight` loop), every random decision an input.
  Seed reproducibility is a statement about the process-global RNG; the model makes it precise
  (the result is a function of inputs and decision list) and the check validates it on call
  histories (partial by nature).
-/
import CGV.Model.Sample
namespace CGV.C17
open CGV Gen

/-! ### reactivities -/

/-- a growth site / partner chosen through a non-empty reactivity table has non-zero weight there:
    a descriptor with reactivity 0 — or missing from the table — is never chosen -/
theorem C17_zero_never_chosen (bonds : List Desc) (tbl : React) (rng rng' : List Nat) (b : Desc)
    (hne : tbl.isEmpty = false) (h : select bonds (some tbl) rng = .ok (b, rng')) :
    tbl.lookup b = some true ∧ b ∈ bonds := by
  unfold select at h
  simp only [hne, Bool.false_eq_true, if_false] at h
  split at h
  · cases h
  · split at h
    · cases h
    · cases rng with
      | nil => cases h
      | cons i rest =>
        simp only at h
        split at h
        · rename_i b' hb hw
          simp only [Except.ok.injEq, Prod.mk.injEq] at h
          obtain ⟨rfl, _⟩ := h
          have hmem : b' ∈ bonds := List.mem_of_getElem? hb
          refine ⟨?_, hmem⟩
          rw [List.getElem?_map, hb] at hw
          simp only [Option.map_some, Option.some.injEq] at hw
          cases hl : tbl.lookup b' with
          | none => rw [hl] at hw; simp at hw
          | some v => rw [hl] at hw; simp at hw; rw [hw]
        · cases h

/-- with an empty table (or none) the choice is uniform: any listed descriptor may be taken -/
theorem C17_empty_table_uniform (bonds : List Desc) (rng : List Nat) :
    select bonds (some []) rng = choose bonds rng ∧ select bonds none rng = choose bonds rng := ⟨rfl, rfl⟩

/-- what is chosen is always one of the offered descriptors -/
theorem C17_choose_mem {α : Type} (seq : List α) (rng rng' : List Nat) (x : α) (h : choose seq rng = .ok (x, rng')) : x ∈ seq := by
  unfold choose at h
  split at h
  · cases h
  · cases rng with
    | nil => cases h
    | cons i rest =>
      simp only at h
      split at h
      · rename_i y hs
        simp only [Except.ok.injEq, Prod.mk.injEq] at h
        obtain ⟨rfl, _⟩ := h
        exact List.mem_of_getElem? hs
      · cases h

/-! ### the stopping rule -/

/-- exact sum of the masses added so far, as the loop accumulates it -/
def addAll (cur : Int × Nat) (ms : List (Int × Nat)) : Int × Nat := ms.foldl ratAdd cur

/-- the growth loop as a relation on (current weight, masses of the fragments added): fragments are
    added exactly while the current weight is below the target -/
inductive Grows (target : Int × Nat) : (Int × Nat) → List (Int × Nat) → Prop
  | stop (cur : Int × Nat) (h : ratLt cur target = false) : Grows target cur []
  | step (cur m : Int × Nat) (ms : List (Int × Nat)) (h : ratLt cur target = true)
      (rest : Grows target (ratAdd cur m) ms) : Grows target cur (m :: ms)

/-- C17 (stop rule): when the loop ends by its condition, the accumulated weight has reached the target
    and every proper prefix of the additions was still below it — in particular the sum without the
    last fragment is below the target; and nothing is added iff the start weight is not below it -/
theorem C17_stop (target cur : Int × Nat) (ms : List (Int × Nat)) (h : Grows target cur ms) :
    ratLt (addAll cur ms) target = false ∧
    (∀ k, k < ms.length → ratLt (addAll cur (ms.take k)) target = true) ∧
    (ms = [] ↔ ratLt cur target = false) := by
  induction h with
  | stop cur h => exact ⟨h, by intro k hk; simp at hk, by simp [h]⟩
  | step cur m ms hlt _ ih =>
    obtain ⟨ih1, ih2, _⟩ := ih
    refine ⟨by simpa [addAll] using ih1, ?_, by simp [hlt]⟩
    intro k hk
    cases k with
    | zero => simpa [addAll] using hlt
    | succ j =>
      have := ih2 j (by simpa using hk)
      simpa [addAll] using this

/-- the model's loop is such a growth whenever it ends before its fuel (the number of recorded
    decisions) does: the masses are those of the fragments in its log -/
theorem C17_grow_is_Grows (cfg : SamplerCfg) (target : Int × Nat) :
    ∀ (fuel : Nat) (mol : Mol) (cur : Int × Nat) (rng : List Nat) (log : List GrowStep)
      (mol' : Mol) (log' : List GrowStep) (rng' : List Nat),
      grow cfg target fuel mol cur rng log = .ok (mol', log', rng') →
      ∃ added ms, log' = log ++ added ∧ ms.length = added.length ∧
        (∀ i (h1 : i < ms.length) (h2 : i < added.length), cfg.masses.lookup added[i].fragname = some ms[i]) ∧
        (fuel > added.length → Grows target cur ms)
  | 0, mol, cur, rng, log, mol', log', rng', h => by
    simp only [grow, pure, Except.pure, Except.ok.injEq, Prod.mk.injEq] at h
    obtain ⟨_, rfl, _⟩ := h
    exact ⟨[], [], by simp, rfl, by intro i h1; simp at h1, by intro h; simp at h⟩
  | fuel + 1, mol, cur, rng, log, mol', log', rng', h => by
    unfold grow at h
    by_cases hlt : ratLt cur target = true
    · simp only [hlt, if_true] at h
      cases ha : addFragment cfg mol rng with
      | error e => simp [ha, bind, Except.bind] at h
      | ok r =>
        obtain ⟨out, rest⟩ := r
        simp only [ha, bind, Except.bind] at h
        cases hm : pyGet cfg.masses out.fragname with
        | error e => simp [hm] at h
        | ok m =>
          simp only [hm] at h
          obtain ⟨added, ms, e1, e2, e3, e4⟩ := C17_grow_is_Grows cfg target fuel out.mol (ratAdd cur m) rest _ mol' log' rng' h
          have hmass : cfg.masses.lookup out.fragname = some m := by
            unfold pyGet at hm
            cases hl : cfg.masses.lookup out.fragname with
            | none => simp [hl] at hm
            | some v => simp [hl] at hm; rw [hm]
          refine ⟨⟨out.fragname, out.site, out.partner, out.source, out.target⟩ :: added, m :: ms, ?_, by simp [e2], ?_, ?_⟩
          · rw [e1]; simp
          · intro i h1 h2
            cases i with
            | zero => simpa using hmass
            | succ j => simpa using e3 j (by simpa using h1) (by simpa using h2)
          · intro hf
            exact Grows.step cur m ms hlt (e4 (by simp at hf; omega))
    · simp only [hlt, Bool.false_eq_true, if_false, pure, Except.pure, Except.ok.injEq, Prod.mk.injEq] at h
      obtain ⟨_, rfl, _⟩ := h
      exact ⟨[], [], by simp, rfl, by intro i h1; simp at h1,
        fun _ => Grows.stop cur (by simpa using hlt)⟩

/-! ### terminals -/

/-- after a growth step the source atom offers nothing more if the partner was a terminal descriptor,
    and no terminal descriptor any more otherwise -/
theorem C17_terminal (terminals : List Desc) (partner : Desc) (mol3 : Mol) (source : Key) :
    let mol4 := if terminals.contains partner then mol3.updAtom source fun a => { a with bonding := [] }
      else mol3.updAtom source fun a => { a with bonding := a.bonding.filter fun b => !terminals.contains b }
    ∀ a ∈ mol4.atoms, a.key = source →
      (terminals.contains partner = true → a.bonding = []) ∧
      (terminals.contains partner = false → ∀ b ∈ a.bonding, terminals.contains b = false) := by
  intro mol4 a ha hk
  by_cases ht : terminals.contains partner = true
  · simp only [mol4, ht, if_true, Mol.updAtom, List.mem_map] at ha
    obtain ⟨x, _, rfl⟩ := ha
    by_cases hx : (x.key == source) = true
    · simp [hx, ht]
    · simp only [hx, Bool.false_eq_true, if_false] at hk ⊢
      exact absurd (by simpa using hk) hx
  · simp only [mol4, ht, Bool.false_eq_true, if_false, Mol.updAtom, List.mem_map] at ha
    obtain ⟨x, _, rfl⟩ := ha
    by_cases hx : (x.key == source) = true
    · simp only [hx, if_true]
      refine ⟨fun h => absurd h ht, fun _ b hb => ?_⟩
      have := (List.mem_filter.mp hb).2
      simpa using this
    · simp only [hx, Bool.false_eq_true, if_false] at hk ⊢
      exact absurd (by simpa using hk) hx

/-! ### table normalisation (translated `_set_bond_order_defaults`) -/
example : Gen.setBondOrderDefaultsList ["$".toList, ">a".toList, "<b2".toList] = .ok ["$1".toList, ">a1".toList, "<b2".toList] := by
  decide +kernel

/-! non-vacuity of the stop rule: masses 10, 10 with target 15 -/
example : Grows (15, 1) (0, 1) [(10, 1), (10, 1)] :=
  Grows.step _ _ _ (by decide) (Grows.step _ _ _ (by decide) (Grows.stop _ (by decide)))

end CGV.C17
