/-
  C04 for chains with ring bonds, string-level: every string `{ node marks (bond? node marks)* }` with
  single-digit and %dd ring markers, each optionally preceded by a bond symbol — any length, any number
  of rings, rings nested or interleaved — reads to exactly what its denotation (`ringGraph`) gives: the
  graph with the ring bonds, or SyntaxError when a ring bond duplicates a bond or a marker stays open.
-/
import CGV.Spec.Ring
import CGV.Props.C04
import CGV.Lemmas.ReadTree
namespace CGV.C04
open CGV Gen
set_option linter.unusedSimpArgs false

/-! ### digits -/

theorem digit_facts : ∀ n < 10, (ringDigit n).isDigit = true ∧ ringDigit n ≠ '%' ∧ ringDigit n ≠ '[' ∧ ringDigit n ≠ ')' ∧
    ringDigit n ≠ '(' ∧ ringDigit n ≠ '|' ∧ ringDigit n ≠ '\n' ∧ (ringDigit n).toNat ≤ 127 ∧
    pyIntLit [ringDigit n] = .ok n ∧ pyStrIn [ringDigit n] bondAfterNodeChars = false := by decide +kernel

theorem two_digits : ∀ n < 100, pyIntLit [ringDigit (n / 10), ringDigit (n % 10)] = .ok n := by decide +kernel

def MarkOk (m : RMark) : Prop := m.order ≤ 4 ∧ (if m.pct then m.id < 100 else m.id < 10)

/-- the text of the marker starts with a character that is not a digit -/
def StartsNonDigit (m : RMark) : Prop := m.pct = true ∨ m.order ≠ 1

def MarksOk : List RMark → Prop
  | [] => True
  | m :: ms => MarkOk m ∧ MarksOk ms ∧ (m.pct = true → match ms with | [] => True | m2 :: _ => StartsNonDigit m2)

def occ (m : RMark) : RingOcc := (m.id, m.order)

/-! ### the ring scan, one character at a time -/

theorem scan_sym (s : Char) (o : Nat) (rest : Str) (i rbo : Nat) (acc : List RingOcc)
    (hso : symbolToOrder.lookup s = some o) :
    ringScanAux (s :: rest) i [] false rbo acc = ringScanAux rest (i + 1) [] false o acc := by
  obtain ⟨f1, f2, _⟩ := sym_facts s o hso
  have e2 : (s == '%') = false := by simpa using f2
  have hso' : symOrder s = some o := hso
  simp [ringScanAux, f1, e2, hso', pure, Except.pure, bind, Except.bind]

theorem scan_digit (d : Char) (rest : Str) (i rbo : Nat) (acc : List RingOcc) (hd : d.isDigit = true) (hp : d ≠ '%') :
    ringScanAux (d :: rest) i [] false rbo acc =
      (pyIntLit [d]).bind fun m => ringScanAux rest (i + 1) [] false defaultBondOrder (acc ++ [(m, rbo)]) := by
  have e2 : (d == '%') = false := by simpa using hp
  simp [ringScanAux, hd, e2, pure, Except.pure, bind, Except.bind]

theorem scan_pct (rest : Str) (i rbo : Nat) (acc : List RingOcc) :
    ringScanAux ('%' :: rest) i [] false rbo acc = ringScanAux rest (i + 1) ['%'] true rbo acc := by
  simp [ringScanAux, pure, Except.pure, bind, Except.bind]

theorem scan_digit_multi (d : Char) (rest marker : Str) (i rbo : Nat) (acc : List RingOcc) (hd : d.isDigit = true)
    (hp : d ≠ '%') :
    ringScanAux (d :: rest) i marker true rbo acc = ringScanAux rest (i + 1) (marker ++ [d]) true rbo acc := by
  have e2 : (d == '%') = false := by simpa using hp
  simp [ringScanAux, hd, e2, pure, Except.pure, bind, Except.bind]

theorem scan_close_multi (c : Char) (rest marker : Str) (i rbo : Nat) (acc : List RingOcc) (hd : c.isDigit = false) :
    ringScanAux (c :: rest) i marker true rbo acc =
      (pyIntLit (marker.drop 1)).bind fun m => ringScanAux (c :: rest) i [] false defaultBondOrder (acc ++ [(m, rbo)]) := by
  cases hm : pyIntLit (marker.drop 1) with
  | error e =>
    have hm' : pyIntLit marker.tail = .error e := by simpa using hm
    simp [ringScanAux, hd, hm', pure, Except.pure, bind, Except.bind]
  | ok m =>
    have hm' : pyIntLit marker.tail = .ok m := by simpa using hm
    simp [ringScanAux, hd, hm', pure, Except.pure, bind, Except.bind]

/-! ### the ring scan over the text of the markers -/

/-- scanning `bond?` in front of a marker: the pending ring bond order becomes the marker's order -/
theorem scan_symText (o : Nat) (ho : o ≤ 4) (rest : Str) (i : Nat) (acc : List RingOcc) :
    ringScanAux (symText o ++ rest) i [] false defaultBondOrder acc =
      ringScanAux rest (i + (symText o).length) [] false o acc := by
  rcases symText_cases o ho with ⟨rfl, h⟩ | ⟨_, s, h, hs⟩
  · rw [h]; rfl
  · rw [h]; exact scan_sym s o rest i defaultBondOrder acc hs

theorem markText_length (m : RMark) : (markText m).length = (symText m.order).length + (if m.pct then 3 else 1) := by
  unfold markText markDigits
  split <;> simp

/-- a single-digit marker -/
theorem scan_mark_digit (m : RMark) (hm : MarkOk m) (hp : m.pct = false) (rest : Str) (i : Nat) (acc : List RingOcc) :
    ringScanAux (markText m ++ rest) i [] false defaultBondOrder acc =
      ringScanAux rest (i + (markText m).length) [] false defaultBondOrder (acc ++ [occ m]) := by
  have hid : m.id < 10 := by have := hm.2; simpa [hp] using this
  obtain ⟨d1, d2, _, _, _, _, _, _, d9, _⟩ := digit_facts m.id hid
  rw [markText_length]
  unfold markText markDigits
  simp only [hp, Bool.false_eq_true, if_false, List.append_assoc, List.singleton_append]
  rw [scan_symText m.order hm.1, scan_digit _ _ _ _ _ d1 d2, d9]
  simp only [Except.bind, occ]
  rw [Nat.add_assoc]

/-- a `%dd` marker followed by a character that is not a digit -/
theorem scan_mark_pct (m : RMark) (hm : MarkOk m) (hp : m.pct = true) (c : Char) (hc : c.isDigit = false) (rest : Str)
    (i : Nat) (acc : List RingOcc) :
    ringScanAux (markText m ++ c :: rest) i [] false defaultBondOrder acc =
      ringScanAux (c :: rest) (i + (markText m).length) [] false defaultBondOrder (acc ++ [occ m]) := by
  have hid : m.id < 100 := by have := hm.2; simpa [hp] using this
  obtain ⟨a1, a2, _⟩ := digit_facts (m.id / 10) (by omega)
  obtain ⟨b1, b2, _⟩ := digit_facts (m.id % 10) (by omega)
  rw [markText_length]
  unfold markText markDigits
  simp only [hp, if_true, List.append_assoc, List.cons_append, List.nil_append]
  rw [scan_symText m.order hm.1, scan_pct, scan_digit_multi _ _ _ _ _ _ a1 a2, scan_digit_multi _ _ _ _ _ _ b1 b2,
    scan_close_multi c rest _ _ _ _ hc]
  have : pyIntLit (List.drop 1 (['%'] ++ [ringDigit (m.id / 10)] ++ [ringDigit (m.id % 10)])) = .ok m.id :=
    two_digits m.id hid
  rw [this]
  simp only [Except.bind, occ]
  have : i + (symText m.order).length + 1 + 1 + 1 = i + ((symText m.order).length + 3) := by omega
  rw [this]

theorem markText_head_nonDigit (m : RMark) (hm : MarkOk m) (h : StartsNonDigit m) (rest : Str) :
    ∃ c r, markText m ++ rest = c :: r ∧ c.isDigit = false := by
  unfold markText
  rcases symText_cases m.order hm.1 with ⟨h1, h2⟩ | ⟨_, s, h2, hs⟩
  · rcases h with hp | hne
    · rw [h2]; unfold markDigits; rw [if_pos hp]; exact ⟨'%', _, rfl, by decide⟩
    · exact absurd h1 hne
  · rw [h2]; exact ⟨s, _, rfl, (sym_facts s m.order hs).1⟩

/-- the scan reads all markers of a node and arrives, in its initial state, at the text behind them -/
theorem scan_marks : ∀ (ms : List RMark), MarksOk ms → ∀ (c : Char) (rest : Str) (i : Nat) (acc : List RingOcc),
    c.isDigit = false →
    ringScanAux (marksText ms ++ c :: rest) i [] false defaultBondOrder acc =
      ringScanAux (c :: rest) (i + (marksText ms).length) [] false defaultBondOrder (acc ++ ms.map occ)
  | [], _, c, rest, i, acc, _ => by simp [marksText]
  | m :: ms, hok, c, rest, i, acc, hc => by
    obtain ⟨hm, hms, hfollow⟩ := hok
    simp only [marksText, List.append_assoc, List.length_append, List.map_cons]
    cases hp : m.pct with
    | false =>
      rw [scan_mark_digit m hm hp, scan_marks ms hms c rest _ _ hc]
      simp only [List.append_assoc, List.singleton_append, Nat.add_assoc]
    | true =>
      obtain ⟨c', r', e, hc'⟩ : ∃ c' r', marksText ms ++ c :: rest = c' :: r' ∧ c'.isDigit = false := by
        cases ms with
        | nil => exact ⟨c, rest, rfl, hc⟩
        | cons m2 ms2 =>
          have := hfollow hp
          simp only [marksText, List.append_assoc]
          exact markText_head_nonDigit m2 hms.1 this _
      rw [e, scan_mark_pct m hm hp c' hc' r', ← e, scan_marks ms hms c rest _ _ hc]
      simp only [List.append_assoc, List.singleton_append, Nat.add_assoc]

/-! ### what the loop body computes from the text behind a node -/

theorem applyRings_toggle (cycle : List (Nat × Nat × Nat)) (cur : Nat) : ∀ (ms : List RMark) (acc : List (Nat × Nat × Nat)),
    applyRings cycle cur (ms.map occ) acc = toggle cycle cur ms acc := by
  intro ms
  induction ms generalizing cycle with
  | nil => intro acc; rfl
  | cons m ms ih =>
    intro acc
    simp only [List.map_cons, occ, applyRings, toggle]
    cases cycle.lookup m.id with
    | none => exact ih _ _
    | some p => exact ih _ _

theorem markText_chars (m : RMark) (hm : MarkOk m) : ∀ c ∈ markText m,
    c ≠ '[' ∧ c ≠ ')' ∧ c ≠ '(' ∧ c ≠ '|' ∧ c ≠ '\n' ∧ c.toNat ≤ 127 := by
  intro c hc
  unfold markText at hc
  rcases List.mem_append.mp hc with h | h
  · rcases symText_cases m.order hm.1 with ⟨_, h2⟩ | ⟨_, s, h2, hs⟩
    · rw [h2] at h; simp at h
    · rw [h2] at h
      simp only [List.mem_singleton] at h; subst h
      have : c = '.' ∨ c = '=' ∨ c = '-' ∨ c = '#' ∨ c = '$' := by
        by_cases h1 : c = '.'; · exact Or.inl h1
        by_cases h2 : c = '='; · exact Or.inr (Or.inl h2)
        by_cases h3 : c = '-'; · exact Or.inr (Or.inr (Or.inl h3))
        by_cases h4 : c = '#'; · exact Or.inr (Or.inr (Or.inr (Or.inl h4)))
        by_cases h5 : c = '$'; · exact Or.inr (Or.inr (Or.inr (Or.inr h5)))
        have ne : ∀ x, c ≠ x → (c == x) = false := fun x h => by simpa using h
        simp [symbolToOrder, List.lookup, ne _ h1, ne _ h2, ne _ h3, ne _ h4, ne _ h5] at hs
      rcases this with rfl | rfl | rfl | rfl | rfl <;> decide
  · unfold markDigits at h
    have dig : ∀ n < 10, ringDigit n ≠ '[' ∧ ringDigit n ≠ ')' ∧ ringDigit n ≠ '(' ∧ ringDigit n ≠ '|' ∧
        ringDigit n ≠ '\n' ∧ (ringDigit n).toNat ≤ 127 := by
      intro n hn
      obtain ⟨_, _, d3, d4, d5, d6, d7, d8, _⟩ := digit_facts n hn
      exact ⟨d3, d4, d5, d6, d7, d8⟩
    split at h
    · rename_i hp
      have hid : m.id < 100 := by have := hm.2; simpa [hp] using this
      simp only [List.mem_cons, List.mem_nil_iff, or_false] at h
      rcases h with rfl | rfl | rfl
      · decide
      · exact dig _ (by omega)
      · exact dig _ (by omega)
    · rename_i hp
      have hid : m.id < 10 := by have := hm.2; simpa [hp] using this
      simp only [List.mem_singleton] at h
      subst h; exact dig _ hid

theorem marksText_chars : ∀ (ms : List RMark), MarksOk ms → ∀ c ∈ marksText ms,
    c ≠ '[' ∧ c ≠ ')' ∧ c ≠ '(' ∧ c ≠ '|' ∧ c ≠ '\n' ∧ c.toNat ≤ 127
  | [], _, c, hc => by simp [marksText] at hc
  | m :: ms, hok, c, hc => by
    simp only [marksText, List.mem_append] at hc
    rcases hc with h | h
    · exact markText_chars m hok.1 c h
    · exact marksText_chars ms hok.2.1 c h

/-- the last character of a non-empty marker text is a digit -/
theorem marksText_last : ∀ (ms : List RMark), MarksOk ms → ms ≠ [] →
    ∃ n, n < 10 ∧ (marksText ms).getLast? = some (ringDigit n)
  | [], _, h => absurd rfl h
  | [m], hok, _ => by
    have hm := hok.1
    simp only [marksText, List.append_nil]
    unfold markText markDigits
    split
    · rename_i hp
      have hid : m.id < 100 := by have := hm.2; simpa [hp] using this
      exact ⟨m.id % 10, by omega, by simp [List.getLast?_append]⟩
    · rename_i hp
      have hid : m.id < 10 := by have := hm.2; simpa [hp] using this
      exact ⟨m.id, hid, by simp [List.getLast?_append]⟩
  | m :: m2 :: ms, hok, _ => by
    obtain ⟨n, hn, h⟩ := marksText_last (m2 :: ms) hok.2.1 (by simp)
    refine ⟨n, hn, ?_⟩
    show (markText m ++ marksText (m2 :: ms)).getLast? = _
    rw [List.getLast?_append, h]; rfl

/-- ring scan and pending bond order of the text behind a node: markers, then the gap to the next node -/
theorem scan_rest (ms : List RMark) (hms : MarksOk ms) (gap : Str) (o : Nat) (hgap : PlainGap gap o) :
    ∃ r, ringScan (marksText ms ++ gap) = .ok ⟨ms.map occ, some r⟩ ∧ bondOrderOf (marksText ms ++ gap) (some r) = .ok o := by
  have hne : (marksText ms ++ gap).isEmpty = false := by
    cases hgap <;> simp
  -- the character in front of the gap is `]` or a digit: no bond symbol
  have hlast : ∀ (L : Nat) (x : Str), L = (marksText ms).length →
      pyStrIn [if L == 0 then ']' else ((marksText ms ++ x)[L - 1]?).getD ']'] bondAfterNodeChars = false := by
    intro L x hL
    by_cases h0 : ms = []
    · subst h0; simp [marksText] at hL; subst hL; simp only [beq_self_eq_true, if_true]; decide
    · obtain ⟨n, hn, hl⟩ := marksText_last ms hms h0
      have hpos : 0 < (marksText ms).length := by
        cases hm : marksText ms with
        | nil => rw [hm] at hl; simp at hl
        | cons _ _ => simp
      have hL0 : (L == 0) = false := by simp; omega
      rw [hL0]
      simp only [Bool.false_eq_true, if_false]
      have : (marksText ms ++ x)[L - 1]? = some (ringDigit n) := by
        rw [List.getElem?_append_left (by omega), hL, ← List.getLast?_eq_getElem?]; exact hl
      rw [this]
      exact (digit_facts n hn).2.2.2.2.2.2.2.2.2
  unfold ringScan
  cases hgap with
  | close r =>
    refine ⟨(marksText ms).length, ?_, ?_⟩
    · rw [scan_marks ms hms '}' r 0 [] (by decide)]
      simp [ringScanAux, symOrder, symbolToOrder, List.lookup, pure, Except.pure, bind, Except.bind]
    · unfold bondOrderOf
      simp only [hne, Bool.false_eq_true, if_false, hlast _ _ rfl, pure, Except.pure]
      rfl
  | node r =>
    refine ⟨(marksText ms).length, ?_, ?_⟩
    · rw [scan_marks ms hms '[' r 0 [] (by decide)]
      simp [ringScanAux, symOrder, symbolToOrder, List.lookup, pure, Except.pure, bind, Except.bind]
    · unfold bondOrderOf
      simp only [hne, Bool.false_eq_true, if_false, hlast _ _ rfl, pure, Except.pure]
      rfl
  | sym s o r hs =>
    obtain ⟨f1, f2, f3, f4, f5, f6, f7⟩ := sym_facts s o hs
    refine ⟨(marksText ms).length + 1, ?_, ?_⟩
    · rw [scan_marks ms hms s ('[' :: r) 0 [] f1, scan_sym s o _ _ _ _ hs]
      simp [ringScanAux, symOrder, symbolToOrder, List.lookup, pure, Except.pure, bind, Except.bind]
    · unfold bondOrderOf
      have h1 : ((marksText ms).length + 1 == 0) = false := by simp
      have h2 : (marksText ms ++ s :: '[' :: r)[(marksText ms).length + 1 - 1]? = some s := by
        simp
      have hso : symOrder s = some o := hs
      simp only [hne, Bool.false_eq_true, if_false, h1, h2, Option.getD_some, f5, if_true, hso]
      rfl

/-- the graph after adding node `cur` bonded to the previous node -/
def nodeAddedG (g : CGGraph) (cur : Nat) (prev pbo : Option Nat) (a : Attrs) : CGGraph :=
  match prev with
  | some p => (g.addNode cur a).addEdge p cur pbo
  | none => g.addNode cur a

def nodeAdded (st : RState) (a : Attrs) : CGGraph := nodeAddedG st.g st.current st.prev st.pbo a

theorem addCopy_ring (a : Attrs) (es : List (Nat × Nat × Nat)) (st : RState) :
    addCopy a es st = (addRingEdges (nodeAddedG st.g st.current st.prev st.pbo a) es).bind fun g2 =>
      .ok { st with g := g2, pbo := some defaultBondOrder, prev := some st.current, current := st.current + 1 } := by
  unfold addCopy addRingEdges nodeAddedG
  cases st.prev <;> rfl

/-- the loop body on a node that opens no branch and is followed by ring markers and a plain gap: the
    node is added and bonded, the markers are toggled in order, the ring bonds of the closed ones are added
    (SyntaxError when one is there already), the bond symbol behind the markers becomes the pending order -/
theorem stepNode_ring (st : RState) (pre : Char) (name : Str) (ms : List RMark) (gap : Str) (o : Nat) (a : Attrs)
    (hpre : pre ≠ '(') (hms : MarksOk ms) (hgap : PlainGap gap o) (hparse : parseBase name = .ok a)
    (hbr : st.branching = false) (hnc : ∀ c ∈ gap, c ≠ ')') :
    ∃ r, stepNode st (pre, name, marksText ms ++ gap) =
      (addRingEdges (nodeAdded st a) (toggle st.cycle st.current ms []).2).bind fun g2 =>
        .ok { st with g := g2, current := st.current + 1, prev := some st.current, pbo := some o, attrs := some a,
                      rdx := some r, cycle := (toggle st.cycle st.current ms []).1 } := by
  have hp : (pre == '(') = false := by simpa using hpre
  have hcl : ∀ (fuel : Nat) (s' : RState), closeLoop fuel (marksText ms ++ gap) 0 s' = .ok s' := by
    intro fuel s'
    apply closeLoop_no_close
    intro c hc
    simp only [List.drop_zero, List.mem_append] at hc
    rcases hc with h | h
    · exact (marksText_chars ms hms c h).2.1
    · exact hnc c h
  obtain ⟨r, hscan, hbo⟩ := scan_rest ms hms gap o hgap
  have hhead : (marksText ms ++ gap).head? ≠ some '|' := by
    cases hm : marksText ms with
    | nil =>
      simp only [List.nil_append]
      cases hgap with
      | close r => simp
      | node r => simp
      | sym s o r hs => simp only [List.head?_cons, ne_eq, Option.some.injEq]; exact (sym_facts s o hs).2.2.1
    | cons c cs =>
      simp only [List.cons_append, List.head?_cons, ne_eq, Option.some.injEq]
      exact (marksText_chars ms hms c (by rw [hm]; simp)).2.2.2.1
  have hm : multOf (marksText ms ++ gap) o = .ok (1, o) := multOf_nobar _ _ hhead
  refine ⟨r, ?_⟩
  unfold stepNode
  simp only [openBranch, hp, Bool.false_eq_true, if_false, hscan, applyRings_toggle, hbo, hm, hparse, hbr, hcl,
    bind, Except.bind, pure, Except.pure, Option.orElse, List.range, List.range.loop, List.foldlM]
  rw [addCopy_ring]
  unfold nodeAdded
  simp only []
  generalize addRingEdges (nodeAddedG st.g st.current st.prev st.pbo a) (toggle st.cycle st.current ms []).2 = res
  cases res with
  | error e => rfl
  | ok g2 => simp [Except.bind, hcl]

/-! ### the regex scan of a ring chain -/

def RItemOk (it : RItem) : Prop := NameOk it.name ∧ it.order ≤ 4 ∧ MarksOk it.rings

def toksR : Char → List RItem → List (Char × Str × Str)
  | _, [] => []
  | p, it :: its => ((symText it.order).getLast?.getD p, it.name, marksText it.rings ++ renderRTail its) ::
      toksR ((marksText it.rings).getLast?.getD ']') its

theorem matches_rtail (last : Char) : ∀ (its : List RItem) (p : Char) (fuel : Nat),
    (∀ it ∈ its, RItemOk it) → (renderRTail its).length ≤ fuel →
    matchesAux last fuel p (renderRTail its) = toksR p its
  | [], p, fuel, _, hf => by
    obtain ⟨f, rfl⟩ : ∃ f, fuel = f + 1 := ⟨fuel - 1, by simp [renderRTail] at hf; omega⟩
    simp only [renderRTail, toksR]
    rw [matchesAux_other last p '}' f [] (by decide), matchesAux_nil]
  | it :: its, p, fuel, hok, hf => by
    have hit := hok it List.mem_cons_self
    have hrest : ∀ x ∈ its, RItemOk x := fun x hx => hok x (List.mem_cons_of_mem _ hx)
    have hname := hit.1.2
    have hlen : (renderRTail (it :: its)).length =
        (symText it.order).length + (it.name.length + 3) + (marksText it.rings).length + (renderRTail its).length := by
      simp [renderRTail, nodeText_length]; omega
    rw [hlen] at hf
    have hnb : ∀ c ∈ marksText it.rings, c ≠ '[' := fun c hc => (marksText_chars it.rings hit.2.2 c hc).1
    -- after the node: skip the marker text, then the rest
    have after : ∀ (f : Nat), (renderRTail its).length ≤ f →
        matchesAux last (f + (marksText it.rings).length) ']' (marksText it.rings ++ renderRTail its) =
          toksR ((marksText it.rings).getLast?.getD ']') its := by
      intro f hfl
      rw [matchesAux_skip last (marksText it.rings) ']' f (renderRTail its) hnb]
      exact matches_rtail last its _ f hrest hfl
    rcases symText_cases it.order hit.2.1 with ⟨_, hs⟩ | ⟨_, s, hs, hlook⟩
    · rw [hs] at hf
      obtain ⟨f, rfl⟩ : ∃ f, fuel = (f + (marksText it.rings).length) + 1 :=
        ⟨fuel - 1 - (marksText it.rings).length, by simp at hf; omega⟩
      show matchesAux last _ p (symText it.order ++ nodeText it.name ++ marksText it.rings ++ renderRTail its) = _
      rw [hs, List.nil_append, List.append_assoc, matchesAux_nodeText last p _ it.name _ hname]
      rw [after f (by simp at hf; omega)]
      simp [toksR, hs]
    · obtain ⟨_, _, _, _, _, hsb, _⟩ := sym_facts s it.order hlook
      rw [hs] at hf
      obtain ⟨f, rfl⟩ : ∃ f, fuel = ((f + (marksText it.rings).length) + 1) + 1 :=
        ⟨fuel - 2 - (marksText it.rings).length, by simp at hf; omega⟩
      show matchesAux last _ p (symText it.order ++ nodeText it.name ++ marksText it.rings ++ renderRTail its) = _
      rw [hs, List.append_assoc, List.append_assoc, List.singleton_append]
      rw [matchesAux_other last p s _ _ hsb, matchesAux_nodeText last s _ it.name _ hname]
      rw [after f (by simp at hf; omega)]
      simp [toksR, hs]

theorem renderRTail_getLast (its : List RItem) : (renderRTail its).getLast? = some '}' := by
  induction its with
  | nil => rfl
  | cons it its ih =>
    show (symText it.order ++ nodeText it.name ++ marksText it.rings ++ renderRTail its).getLast? = _
    rw [List.getLast?_append, ih]; rfl

theorem matches_ring (first : Str) (frings : List RMark) (its : List RItem) (hfirst : NameOk first)
    (hfr : MarksOk frings) (hok : ∀ it ∈ its, RItemOk it) :
    matches' (renderRing first frings its) =
      ('{', first, marksText frings ++ renderRTail its) :: toksR ((marksText frings).getLast?.getD ']') its := by
  unfold matches' renderRing
  have hlast : (('{' :: (nodeText first ++ marksText frings ++ renderRTail its)).getLast?.getD ' ') = '}' := by
    have h1 : ('{' :: (nodeText first ++ marksText frings ++ renderRTail its)) =
        (['{'] ++ nodeText first ++ marksText frings) ++ renderRTail its := by simp
    rw [h1, List.getLast?_append, renderRTail_getLast]; rfl
  rw [hlast]
  have hlen : ('{' :: (nodeText first ++ marksText frings ++ renderRTail its)).length + 1 =
      ((((first.length + 3 + (renderRTail its).length)) + (marksText frings).length) + 1) + 1 := by
    simp only [List.length_cons, List.length_append, nodeText_length]
    omega
  have hnb : ∀ c ∈ marksText frings, c ≠ '[' := fun c hc => (marksText_chars frings hfr c hc).1
  rw [hlen, matchesAux_other '}' '}' '{' _ _ (by decide), List.append_assoc]
  rw [matchesAux_nodeText '}' '{' _ first _ hfirst.2]
  rw [matchesAux_skip '}' (marksText frings) ']' _ (renderRTail its) hnb]
  rw [matches_rtail '}' its _ _ hok (by omega)]

/-! ### the state machine on a ring chain -/

def nextOrderR : List RItem → Nat
  | [] => 1
  | it :: _ => it.order

theorem gap_rtail (its : List RItem) (hok : ∀ it ∈ its, RItemOk it) : PlainGap (renderRTail its) (nextOrderR its) := by
  cases its with
  | nil => exact .close []
  | cons it its =>
    have hit := hok it List.mem_cons_self
    show PlainGap (symText it.order ++ nodeText it.name ++ marksText it.rings ++ renderRTail its) it.order
    rcases symText_cases it.order hit.2.1 with ⟨h1, hs⟩ | ⟨_, s, hs, hlook⟩
    · rw [hs, h1]; simp only [List.nil_append, nodeText, List.cons_append]; exact .node _
    · rw [hs]; simp only [List.singleton_append, nodeText, List.cons_append]; exact .sym s it.order _ hlook

theorem rtail_no_close (its : List RItem) (hok : ∀ it ∈ its, RItemOk it) : ∀ c ∈ renderRTail its, c ≠ ')' := by
  induction its with
  | nil => intro c hc; simp [renderRTail] at hc; subst hc; decide
  | cons it its ih =>
    intro c hc
    have hit := hok it List.mem_cons_self
    simp only [renderRTail, List.mem_append] at hc
    rcases hc with ((h | h) | h) | h
    · rcases symText_cases it.order hit.2.1 with ⟨_, hs⟩ | ⟨_, s, hs, hlook⟩
      · rw [hs] at h; simp at h
      · rw [hs] at h; simp only [List.mem_singleton] at h; subst h; exact (sym_facts c it.order hlook).2.2.2.1
    · simp only [nodeText, List.mem_cons, List.mem_append, List.mem_singleton, List.mem_nil_iff, or_false] at h
      rcases h with rfl | rfl | h | rfl
      · decide
      · decide
      · exact (nameChar_facts c (List.all_eq_true.mp hit.1.2 c h)).2.2.2.1
      · decide
    · exact (marksText_chars it.rings hit.2.2 c h).2.1
    · exact ih (fun x hx => hok x (List.mem_cons_of_mem _ hx)) c h

theorem toksR_pre (p : Char) (hp : p ≠ '(') (it : RItem) (hit : RItemOk it) :
    (symText it.order).getLast?.getD p ≠ '(' := by
  rcases symText_cases it.order hit.2.1 with ⟨_, hs⟩ | ⟨_, s, hs, hlook⟩
  · rw [hs]; exact hp
  · rw [hs]; simp only [List.getLast?_singleton, Option.getD_some]
    exact (sym_facts s it.order hlook).2.2.2.2.2.2

theorem marks_last_pre (ms : List RMark) (hms : MarksOk ms) : (marksText ms).getLast?.getD ']' ≠ '(' := by
  cases h : (marksText ms).getLast? with
  | none => decide
  | some c =>
    simp only [Option.getD_some]
    exact (marksText_chars ms hms c (List.mem_of_getLast? h)).2.2.1

/-- what `read_cgsmiles` does after its loop: a marker left open is an error -/
def finish (st : RState) : Py CGGraph := if !st.cycle.isEmpty then throw PyErr.syntax else pure st.g

/-- the state machine on the tail of a ring chain, followed by the final check, is the denotation -/
theorem fold_rtail : ∀ (its : List RItem) (p : Char) (st : RState) (prev : Nat),
    (∀ it ∈ its, RItemOk it) → p ≠ '(' → st.branching = false → st.prev = some prev → st.pbo = some (nextOrderR its) →
    ((toksR p its).foldlM stepNode st).bind finish = ringGraphAux st.g st.cycle prev st.current its
  | [], _, st, prev, _, _, _, _, _ => by
    simp only [toksR, List.foldlM_nil, pure, Except.pure, Except.bind, finish, ringGraphAux]
    cases st.cycle.isEmpty <;> rfl
  | it :: its, p, st, prev, hok, hp, hbr, hprev, hpbo => by
    have hit := hok it List.mem_cons_self
    have hrest : ∀ x ∈ its, RItemOk x := fun x hx => hok x (List.mem_cons_of_mem _ hx)
    obtain ⟨r, hstep⟩ := stepNode_ring st ((symText it.order).getLast?.getD p) it.name it.rings (renderRTail its)
      (nextOrderR its) (defaultAttrs it.name) (toksR_pre p hp it hit) hit.2.2 (gap_rtail its hrest)
      (parse_name it.name hit.1) hbr (rtail_no_close its hrest)
    simp only [toksR, List.foldlM_cons, hstep, bind]
    have hna : nodeAdded st (defaultAttrs it.name) =
        (st.g.addNode st.current (defaultAttrs it.name)).addEdge prev st.current (some it.order) := by
      unfold nodeAdded nodeAddedG
      rw [hprev, hpbo]; rfl
    rw [hna]
    simp only [ringGraphAux, bind]
    cases addRingEdges ((st.g.addNode st.current (defaultAttrs it.name)).addEdge prev st.current (some it.order))
        (toggle st.cycle st.current it.rings []).2 with
    | error e => rfl
    | ok g2 =>
      simp only [Except.bind]
      exact fold_rtail its _ _ st.current hrest (marks_last_pre it.rings hit.2.2) hbr rfl rfl

/-! ### the whole string -/

theorem marksText_ok (ms : List RMark) (hms : MarksOk ms) : ∀ c ∈ marksText ms, okChar c = true := by
  intro c hc
  obtain ⟨_, _, _, _, h5, h6⟩ := marksText_chars ms hms c hc
  simp only [okChar, Bool.not_eq_true', Bool.or_eq_false_iff, beq_eq_false_iff_ne, ne_eq, decide_eq_false_iff_not]
  exact ⟨h5, by omega⟩

theorem renderRTail_ok (its : List RItem) (hok : ∀ it ∈ its, RItemOk it) : ∀ c ∈ renderRTail its, okChar c = true := by
  induction its with
  | nil => intro c hc; simp [renderRTail] at hc; subst hc; decide
  | cons it its ih =>
    intro c hc
    have hit := hok it List.mem_cons_self
    simp only [renderRTail, List.mem_append] at hc
    rcases hc with ((h | h) | h) | h
    · exact symText_ok it.order hit.2.1 c h
    · exact nodeText_ok it.name hit.1.2 c h
    · exact marksText_ok it.rings hit.2.2 c h
    · exact ih (fun x hx => hok x (List.mem_cons_of_mem _ hx)) c h

theorem renderRing_supported (first : Str) (frings : List RMark) (its : List RItem) (hfirst : NameOk first)
    (hfr : MarksOk frings) (hok : ∀ it ∈ its, RItemOk it) :
    ((renderRing first frings its).any fun c => c == '\n' || decide (c.toNat > 127)) = false := by
  rw [List.any_eq_false]
  intro c hc
  have : okChar c = true := by
    simp only [renderRing, List.mem_cons, List.mem_append] at hc
    rcases hc with rfl | (hc | hc) | hc
    · decide
    · exact nodeText_ok first hfirst.2 c hc
    · exact marksText_ok frings hfr c hc
    · exact renderRTail_ok its hok c hc
  simpa [okChar] using this

/-- **C04 for chains with ring bonds.**  Every string `{ node marks (bond? node marks)* }` — alphanumeric
    names, bond symbols . = # $ (or none) between nodes and in front of ring markers, single-digit and `%dd`
    markers, any length, any number of rings, nested or interleaved — reads to exactly what it denotes: the
    chain with one ring bond per closed marker, carrying the order written in front of the opening marker;
    `SyntaxError` when a ring bond would duplicate a bond or a marker is left open. -/
theorem C04_read_ring (first : Str) (frings : List RMark) (its : List RItem) (hfirst : NameOk first)
    (hfr : MarksOk frings) (hok : ∀ it ∈ its, RItemOk it) :
    readCG (renderRing first frings its) = ringGraph first frings its := by
  have hsup := renderRing_supported first frings its hfirst hfr hok
  unfold readCG
  simp only [hsup, Bool.false_eq_true, if_false]
  rw [matches_ring first frings its hfirst hfr hok]
  obtain ⟨r, hstep⟩ := stepNode_ring {} '{' first frings (renderRTail its) (nextOrderR its) (defaultAttrs first) (by decide)
    hfr (gap_rtail its hok) (parse_name first hfirst) rfl (rtail_no_close its hok)
  simp only [List.foldlM_cons, hstep, bind]
  have hna : nodeAdded ({} : RState) (defaultAttrs first) = ({} : CGGraph).addNode 0 (defaultAttrs first) := rfl
  rw [hna]
  unfold ringGraph
  simp only [bind]
  cases addRingEdges (({} : CGGraph).addNode 0 (defaultAttrs first)) (toggle [] 0 frings []).2 with
  | error e => rfl
  | ok g1 =>
    simp only [Except.bind]
    have := fold_rtail its ((marksText frings).getLast?.getD ']')
      { ({} : RState) with g := g1, current := 0 + 1, prev := some 0, pbo := some (nextOrderR its),
                           attrs := some (defaultAttrs first), rdx := some r, cycle := (toggle [] 0 frings []).1 }
      0 hok (marks_last_pre frings hfr) rfl rfl rfl
    simp only [Except.bind, finish, bind] at this ⊢
    exact this

/-! worked instances: the hypotheses are met by concrete strings, and the denotation is what one expects -/
example : renderRing "A".toList [⟨1, 2, false⟩] [⟨"B".toList, 1, []⟩, ⟨"C".toList, 3, [⟨1, 1, false⟩]⟩] =
    "{[#A]=1[#B]#[#C]1}".toList := by decide +kernel
example : NameOk "A".toList ∧ MarksOk [⟨1, 2, false⟩] ∧ RItemOk ⟨"B".toList, 1, []⟩ ∧ RItemOk ⟨"C".toList, 3, [⟨1, 1, false⟩]⟩ := by
  refine ⟨⟨by decide, by decide⟩, ⟨⟨by decide, by decide⟩, trivial, fun h => by cases h⟩,
    ⟨⟨by decide, by decide⟩, by decide, trivial⟩, ⟨⟨by decide, by decide⟩, by decide, ⟨⟨by decide, by decide⟩, trivial, fun h => by cases h⟩⟩⟩
example : (ringGraph "A".toList [⟨1, 2, false⟩] [⟨"B".toList, 1, []⟩, ⟨"C".toList, 3, [⟨1, 1, false⟩]⟩]).map (·.edges) =
    .ok [⟨0, 1, some 1⟩, ⟨1, 2, some 3⟩, ⟨2, 0, some 2⟩] := by decide +kernel
-- `%dd` markers, two rings interleaved
example : renderRing "A".toList [⟨12, 1, true⟩, ⟨3, 0, false⟩] [⟨"B".toList, 1, []⟩, ⟨"C".toList, 1, [⟨12, 1, true⟩]⟩, ⟨"D".toList, 1, [⟨3, 1, false⟩]⟩] =
    "{[#A]%12.3[#B][#C]%12[#D]3}".toList := by decide +kernel
example : (ringGraph "A".toList [⟨12, 1, true⟩, ⟨3, 0, false⟩] [⟨"B".toList, 1, []⟩, ⟨"C".toList, 1, [⟨12, 1, true⟩]⟩, ⟨"D".toList, 1, [⟨3, 1, false⟩]⟩]).map (·.edges) =
    .ok [⟨0, 1, some 1⟩, ⟨1, 2, some 1⟩, ⟨2, 0, some 1⟩, ⟨2, 3, some 1⟩, ⟨3, 0, some 0⟩] := by decide +kernel
-- a ring bond that duplicates the chain bond, and a marker left open
example : ringGraph "A".toList [⟨1, 1, false⟩] [⟨"B".toList, 1, [⟨1, 1, false⟩]⟩] = .error .syntax := by decide +kernel
example : ringGraph "A".toList [⟨1, 1, false⟩] [⟨"B".toList, 1, []⟩, ⟨"C".toList, 1, []⟩] = .error .syntax := by decide +kernel

end CGV.C04
