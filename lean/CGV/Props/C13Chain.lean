/-
  C13 for whole chains of atoms: a fragment text made of any number of plain atoms, each followed by
  any number of bonding descriptors (all kinds, labels, orders 0–4), is separated exactly — the
  clean text is the atoms alone, every descriptor is reported on the atom it was written after, in
  the order written, with its order, and nothing else is reported.
-/
import CGV.Props.C13
namespace CGV.C13
open CGV Gen
set_option linter.unusedSimpArgs false

/-- loop iterations one written descriptor takes: the bracket, plus one for a bond symbol -/
def itersD (d : WFDesc) : Nat := if d.o = 1 then 1 else 2
def iters (ds : List WFDesc) : Nat := (ds.map itersD).sum

/-- reading a list of written descriptors takes exactly `iters ds` iterations -/
theorem stripAux_descs_exact (rest : Str) : ∀ (ds : List WFDesc) (st : StripState) (fuel : Nat),
    st.nodeCount ≠ 0 → st.currentOrder = none →
    stripAux (fuel + 1 + iters ds) (ds.flatMap (·.fmt) ++ rest) st = stripAux (fuel + 1) rest (ds.foldl afterDesc st)
  | [], st, fuel, _, _ => by simp [iters]
  | d :: ds, st, fuel, hn, hc => by
    have ih := stripAux_descs_exact rest ds (afterDesc st d) fuel hn hc
    simp only [List.flatMap_cons, List.append_assoc, List.foldl_cons, iters, List.map_cons, List.sum_cons] at ih ⊢
    by_cases h1 : d.o = 1
    · have := stripAux_desc d (ds.flatMap (·.fmt) ++ rest) st (fuel + (ds.map itersD).sum) hn hc
      simp only [h1, if_true] at this
      rw [show fuel + 1 + (itersD d + (ds.map itersD).sum) = fuel + (ds.map itersD).sum + 2 from by simp [itersD, h1]; omega]
      rw [this, show fuel + (ds.map itersD).sum + 1 = fuel + 1 + (ds.map itersD).sum from by omega]
      exact ih
    · have := stripAux_desc d (ds.flatMap (·.fmt) ++ rest) st (fuel + 1 + (ds.map itersD).sum) hn hc
      simp only [h1, if_false, Nat.add_zero] at this
      rw [show fuel + 1 + (itersD d + (ds.map itersD).sum) = fuel + 1 + (ds.map itersD).sum + 2 from by simp [itersD, h1]; omega]
      rw [this]
      exact ih

/-! ### atoms -/

def startChars : List Char := plainAtoms ++ ['[', '.', '=', '#', '$']

/-- the state after a plain atom has been read -/
def afterAtom (st : StripState) (e : Char) : StripState :=
  { st with smile := st.smile ++ [e], currentOrder := none, prevNode := st.nodeCount, nodeCount := st.nodeCount + 1 }

theorem atom_step2 (e : Char) (he : e ∈ plainAtoms) (rest : Str)
    (hrest : rest = [] ∨ ∃ c r, rest = c :: r ∧ c ∈ startChars) (st : StripState) :
    stripStep e rest st = .ok (rest, afterAtom st e) := by
  have key : ∀ e ∈ plainAtoms,
      (e == '[') = false ∧ (e == '(') = false ∧ (e == ')') = false ∧ bondToOrder2.lookup e = none ∧
      (e == '%' || e.isDigit) = false ∧ pyStrIn [e] passThroughChars = false ∧ pyStrIn [e] ezChars = false := by decide +kernel
  have key2 : ∀ e ∈ plainAtoms, ∀ c ∈ startChars, twoLetterElements.contains [e, c] = false := by decide +kernel
  obtain ⟨h1, h2, h3, h4, h5, h6, h7⟩ := key e he
  rcases hrest with rfl | ⟨c, r, rfl, hc⟩
  · simp [stripStep, afterAtom, h1, h2, h3, h4, h5, h6, h7, pure, Except.pure]
  · have h8 := key2 e he c hc
    have h8' : ¬ [e, c] ∈ twoLetterElements := by simpa using h8
    simp [stripStep, afterAtom, h1, h2, h3, h4, h5, h6, h7, h8', pure, Except.pure]

/-! ### chains -/

abbrev CItem := Char × List WFDesc

def renderC (items : List CItem) : Str := items.flatMap fun it => it.1 :: it.2.flatMap (·.fmt)

def afterItem (st : StripState) (it : CItem) : StripState := it.2.foldl afterDesc (afterAtom st it.1)

def itersC (items : List CItem) : Nat := (items.map fun it => 1 + iters it.2).sum

theorem renderC_head (items : List CItem) (hat : ∀ it ∈ items, it.1 ∈ plainAtoms) :
    renderC items = [] ∨ ∃ c r, renderC items = c :: r ∧ c ∈ startChars := by
  cases items with
  | nil => left; rfl
  | cons it its =>
    right
    refine ⟨it.1, it.2.flatMap (·.fmt) ++ renderC its, by simp [renderC], ?_⟩
    exact List.mem_append_left _ (hat it List.mem_cons_self)

theorem descs_head (ds : List WFDesc) (hne : ds ≠ []) (rest : Str) :
    ∃ c r, ds.flatMap (·.fmt) ++ rest = c :: r ∧ c ∈ startChars := by
  obtain ⟨d, ds', rfl⟩ : ∃ d ds', ds = d :: ds' := by
    cases ds with
    | nil => exact absurd rfl hne
    | cons d ds' => exact ⟨d, ds', rfl⟩
  obtain ⟨c, r, hfmt, hc⟩ := fmt_head d
  exact ⟨c, r ++ (ds'.flatMap (·.fmt) ++ rest), by simp [hfmt], List.mem_append_right _ hc⟩

/-- the loop on a whole chain: exactly `itersC items` iterations, ending in the folded state -/
theorem stripAux_chain : ∀ (items : List CItem) (st : StripState) (fuel : Nat),
    (∀ it ∈ items, it.1 ∈ plainAtoms) →
    stripAux (fuel + 1 + itersC items) (renderC items) st = .ok (items.foldl afterItem st)
  | [], st, fuel, _ => by simp [itersC, renderC, stripAux, pure, Except.pure]
  | it :: its, st, fuel, hat => by
    have he := hat it List.mem_cons_self
    have hrest : ∀ x ∈ its, x.1 ∈ plainAtoms := fun x hx => hat x (List.mem_cons_of_mem _ hx)
    have htext : renderC (it :: its) = it.1 :: (it.2.flatMap (·.fmt) ++ renderC its) := by simp [renderC]
    have hfuel : fuel + 1 + itersC (it :: its) = (fuel + 1 + itersC its + iters it.2) + 1 := by
      simp [itersC]; omega
    rw [htext, hfuel, stripAux]
    have hnext : it.2.flatMap (·.fmt) ++ renderC its = [] ∨
        ∃ c r, it.2.flatMap (·.fmt) ++ renderC its = c :: r ∧ c ∈ startChars := by
      by_cases hds : it.2 = []
      · rw [hds]; simpa using renderC_head its hrest
      · right; exact descs_head it.2 hds _
    rw [atom_step2 it.1 he _ hnext st]
    simp only [bind, Except.bind]
    have hn : (afterAtom st it.1).nodeCount ≠ 0 := by simp [afterAtom]
    rw [show fuel + 1 + itersC its + iters it.2 = (fuel + itersC its) + 1 + iters it.2 from by omega]
    rw [stripAux_descs_exact (renderC its) it.2 (afterAtom st it.1) (fuel + itersC its) hn rfl]
    rw [show fuel + itersC its + 1 = fuel + 1 + itersC its from by omega]
    rw [stripAux_chain its _ fuel hrest]
    rfl

/-! ### the descriptor dictionary -/

section dict
variable {β : Type}

theorem lookup_absent (b : List (Nat × β)) (n : Nat) (h : ∀ p ∈ b, p.1 ≠ n) : b.lookup n = none := by
  induction b with
  | nil => rfl
  | cons x xs ih =>
    obtain ⟨a, v⟩ := x
    have hne : (n == a) = false := by
      have := h (a, v) List.mem_cons_self
      simp only [beq_eq_false_iff_ne, ne_eq]; exact fun e => this e.symm
    simp only [List.lookup_cons, hne]
    exact ih (fun p hp => h p (List.mem_cons_of_mem _ hp))

theorem any_absent (b : List (Nat × β)) (n : Nat) (h : ∀ p ∈ b, p.1 ≠ n) : b.any (fun p => p.1 == n) = false := by
  rw [List.any_eq_false]
  intro p hp
  simpa using h p hp

theorem pySet_absent (b : List (Nat × β)) (n : Nat) (v : β) (h : ∀ p ∈ b, p.1 ≠ n) : pySet b n v = b ++ [(n, v)] := by
  unfold pySet
  simp [any_absent b n h]

theorem lookup_last (b : List (Nat × β)) (n : Nat) (l : β) (h : ∀ p ∈ b, p.1 ≠ n) : (b ++ [(n, l)]).lookup n = some l := by
  induction b with
  | nil => simp [List.lookup]
  | cons x xs ih =>
    obtain ⟨a, v⟩ := x
    have hne : (n == a) = false := by
      have := h (a, v) List.mem_cons_self
      simp only [beq_eq_false_iff_ne, ne_eq]; exact fun e => this e.symm
    simp only [List.cons_append, List.lookup_cons, hne]
    exact ih (fun p hp => h p (List.mem_cons_of_mem _ hp))

theorem pySet_last (b : List (Nat × β)) (n : Nat) (l v : β) (h : ∀ p ∈ b, p.1 ≠ n) :
    pySet (b ++ [(n, l)]) n v = b ++ [(n, v)] := by
  unfold pySet
  have hany : (b ++ [(n, l)]).any (fun p => p.1 == n) = true := by simp
  simp only [hany, if_true, List.map_append, List.map_cons, List.map_nil, beq_self_eq_true]
  congr 1
  conv => rhs; rw [← List.map_id b]
  apply List.map_congr_left
  intro p hp
  have : (p.1 == n) = false := by simpa using h p hp
  simp [this]

end dict

/-- what one atom contributes to the dictionary: nothing without descriptors, else one entry -/
def entryOf (n : Nat) (l : List Desc) : List (Nat × List Desc) := if l = [] then [] else [(n, l)]

theorem foldl_afterDesc_dict (b : List (Nat × List Desc)) (n : Nat) (hb : ∀ p ∈ b, p.1 ≠ n) :
    ∀ (ds : List WFDesc) (l : List Desc) (s : StripState), s.prevNode = n → s.bonding = b ++ entryOf n l →
      (ds.foldl afterDesc s).bonding = b ++ entryOf n (l ++ ds.map (·.text))
  | [], l, s, _, hs => by simpa using hs
  | d :: ds, l, s, hp, hs => by
    have hstep : (afterDesc s d).bonding = b ++ entryOf n (l ++ [d.text]) := by
      simp only [afterDesc, appendDesc, hp, hs]
      by_cases hl : l = []
      · subst hl
        simp only [entryOf, if_true, List.append_nil, lookup_absent b n hb, Option.getD_none, List.nil_append,
          pySet_absent b n _ hb]
        simp
      · simp only [entryOf, hl, if_false, lookup_last b n l hb, Option.getD_some, pySet_last b n l _ hb]
        simp
    have := foldl_afterDesc_dict b n hb ds (l ++ [d.text]) (afterDesc s d) (by simp [afterDesc, hp]) hstep
    simp only [List.foldl_cons, List.map_cons]
    rw [this]
    simp

/-- the expected dictionary of a chain whose first atom has index `k` -/
def expectedBonding : Nat → List CItem → List (Nat × List Desc)
  | _, [] => []
  | k, it :: its => entryOf k (it.2.map (·.text)) ++ expectedBonding (k + 1) its

theorem foldl_afterItem_fields : ∀ (items : List CItem) (st : StripState), (∀ p ∈ st.bonding, p.1 < st.nodeCount) →
    (items.foldl afterItem st).smile = st.smile ++ items.map (·.1) ∧
    (items.foldl afterItem st).nodeCount = st.nodeCount + items.length ∧
    (items.foldl afterItem st).ez = st.ez ∧ (items.foldl afterItem st).attrs = st.attrs ∧
    (items.foldl afterItem st).bonding = st.bonding ++ expectedBonding st.nodeCount items
  | [], st, _ => by simp [expectedBonding]
  | it :: its, st, hb => by
    have hb' : ∀ p ∈ st.bonding, p.1 ≠ st.nodeCount := fun p hp => Nat.ne_of_lt (hb p hp)
    have hf := foldl_afterDesc_fields it.2 (afterAtom st it.1)
    have hd := foldl_afterDesc_dict st.bonding st.nodeCount hb' it.2 [] (afterAtom st it.1) rfl (by simp [afterAtom, entryOf])
    simp only [List.nil_append] at hd
    have hkeys : ∀ p ∈ (afterItem st it).bonding, p.1 < (afterItem st it).nodeCount := by
      intro p hp
      simp only [afterItem] at hp ⊢
      rw [hd] at hp
      rw [hf.1]
      simp only [afterAtom]
      rcases List.mem_append.mp hp with hp | hp
      · exact Nat.lt_succ_of_lt (hb p hp)
      · unfold entryOf at hp
        split at hp
        · simp at hp
        · simp only [List.mem_singleton] at hp; rw [hp]; exact Nat.lt_succ_self _
    obtain ⟨i1, i2, i3, i4, i5⟩ := foldl_afterItem_fields its (afterItem st it) hkeys
    have e1 : (afterItem st it).smile = st.smile ++ [it.1] := by unfold afterItem; rw [hf.2.2.2.1]; rfl
    have e2 : (afterItem st it).nodeCount = st.nodeCount + 1 := by unfold afterItem; rw [hf.1]; rfl
    have e3 : (afterItem st it).ez = st.ez := by unfold afterItem; rw [hf.2.2.2.2.1]; rfl
    have e4 : (afterItem st it).attrs = st.attrs := by unfold afterItem; rw [hf.2.2.2.2.2]; rfl
    have e5 : (afterItem st it).bonding = st.bonding ++ entryOf st.nodeCount (it.2.map (·.text)) := by
      unfold afterItem; exact hd
    simp only [List.foldl_cons]
    refine ⟨?_, ?_, ?_, ?_, ?_⟩
    · rw [i1, e1]; simp
    · rw [i2, e2]; simp only [List.length_cons]; omega
    · rw [i3, e3]
    · rw [i4, e4]
    · rw [i5, e5, e2]; simp only [expectedBonding, List.append_assoc]

theorem itersD_le (d : WFDesc) : itersD d ≤ d.fmt.length := by
  have := fmt_length d
  unfold itersD; split <;> omega

theorem iters_le (ds : List WFDesc) : iters ds ≤ (ds.flatMap (·.fmt)).length := by
  induction ds with
  | nil => simp [iters]
  | cons d ds ih =>
    simp only [iters, List.map_cons, List.sum_cons, List.flatMap_cons, List.length_append] at ih ⊢
    have := itersD_le d
    omega

theorem itersC_le (items : List CItem) : itersC items ≤ (renderC items).length := by
  induction items with
  | nil => simp [itersC, renderC]
  | cons it its ih =>
    simp only [itersC, renderC, List.map_cons, List.sum_cons, List.flatMap_cons, List.length_append, List.length_cons] at ih ⊢
    have := iters_le it.2
    omega

/-- **C13 for chains.** Any number of plain atoms, each followed by any number of written bonding
    descriptors: the clean text is the atoms, the dictionary holds for every atom that has
    descriptors exactly those descriptors (kind, label, order digit) in the order written, keyed by
    the atom's index; no slash marks, no annotations. -/
theorem C13_chain (items : List CItem) (hat : ∀ it ∈ items, it.1 ∈ plainAtoms)
    (hascii : ((renderC items).any fun c => decide (c.toNat > 127)) = false) :
    strip (renderC items) = .ok ⟨items.map (·.1), expectedBonding 0 items, [], []⟩ := by
  unfold strip
  simp only [hascii, Bool.false_eq_true, if_false]
  have hle := itersC_le items
  rw [show (renderC items).length + 1 = ((renderC items).length - itersC items) + 1 + itersC items from by omega]
  rw [stripAux_chain items {} _ hat]
  obtain ⟨h1, _, h3, h4, h5⟩ := foldl_afterItem_fields items {} (by intro p hp; cases hp)
  simp only [bind, Except.bind, pure, Except.pure, h1, h3, h4, h5]
  rfl

/-- an instance of the theorem's domain: `C[$a]=[$b]CO[>]` is `renderC` of three atoms with 2, 0 and 1
    descriptors, and the theorem's right-hand side is what the kernel computes -/
def exItems : List CItem :=
  [('C', [⟨'$', ['a'], 1, by decide, by decide, by decide⟩, ⟨'$', ['b'], 2, by decide, by decide, by decide⟩]),
   ('C', []), ('O', [⟨'>', [], 1, by decide, by decide, by decide⟩])]

example : renderC exItems = "C[$a]=[$b]CO[>]".toList := by decide +kernel
example : expectedBonding 0 exItems = [(0, ["$a1".toList, "$b2".toList]), (2, [">1".toList])] := by decide +kernel
example : (strip "C[$a]=[$b]CO[>]".toList).map (fun o => (o.smile, o.bonding)) =
    .ok ("CCO".toList, [(0, ["$a1".toList, "$b2".toList]), (2, [">1".toList])]) := by decide +kernel

end CGV.C13
