/-
  C10 — shared atoms: the squash operator merges exactly the two marked atoms.

  Model: `contract` = networkx.contracted_nodes(G, keep, rem, self_loops=False) + the membership
  concatenation of resolve.py:350-351; `squash` = the loop of squash_atoms over the provisional
  '!' bonds (with the transitive remap).
-/
import CGV.Model.Resolve
namespace CGV.C10
open CGV Mol
set_option linter.unusedSimpArgs false

theorem updAtom_length (m : Mol) (k : Key) (f : Atom → Atom) : (m.updAtom k f).atoms.length = m.atoms.length := by
  simp [Mol.updAtom]

theorem updAtom_edges (m : Mol) (k : Key) (f : Atom → Atom) : (m.updAtom k f).edges = m.edges := rfl

theorem moveStep_atoms (keep rem : Key) (m : Mol) (e : Edge) : (moveStep keep rem m e).atoms = m.atoms := by
  unfold moveStep
  dsimp only
  by_cases h1 : ((if e.a == rem then e.b else e.a) == keep || (if e.a == rem then e.b else e.a) == rem) = true
  · rw [if_pos h1]
  · rw [if_neg h1]
    by_cases h2 : m.hasEdge keep (if e.a == rem then e.b else e.a) = true
    · rw [if_pos h2]
    · rw [if_neg h2]

theorem moveStep_edges_mono (keep rem : Key) (m : Mol) (e x : Edge) (hx : x ∈ m.edges) :
    x ∈ (moveStep keep rem m e).edges := by
  unfold moveStep
  dsimp only
  by_cases h1 : ((if e.a == rem then e.b else e.a) == keep || (if e.a == rem then e.b else e.a) == rem) = true
  · rw [if_pos h1]; exact hx
  · rw [if_neg h1]
    by_cases h2 : m.hasEdge keep (if e.a == rem then e.b else e.a) = true
    · rw [if_pos h2]; exact hx
    · rw [if_neg h2]; exact List.mem_append_left _ hx

/-- the re-attachment loop never touches the node list -/
theorem moved_atoms (incident : List Edge) (rest : Mol) (keep rem : Key) :
    (incident.foldl (moveStep keep rem) rest).atoms = rest.atoms := by
  induction incident generalizing rest with
  | nil => rfl
  | cons e es ih => simp only [List.foldl_cons]; rw [ih, moveStep_atoms]

/-- … and only ever appends edges: every edge that was there stays -/
theorem moved_edges_mono (incident : List Edge) (rest : Mol) (keep rem : Key) (x : Edge) (hx : x ∈ rest.edges) :
    x ∈ (incident.foldl (moveStep keep rem) rest).edges := by
  induction incident generalizing rest with
  | nil => exact hx
  | cons e es ih => simp only [List.foldl_cons]; exact ih _ (moveStep_edges_mono keep rem rest e x hx)

/-- exactly one atom fewer per shared pair -/
theorem C10_one_fewer (mol : Mol) (keep rem : Key) (hnd : mol.keys.Nodup) (hrem : rem ∈ mol.keys) :
    (contract mol keep rem).atoms.length + 1 = mol.atoms.length := by
  have hlen : (mol.atoms.filter (·.key != rem)).length + 1 = mol.atoms.length := by
    unfold Mol.keys at hnd hrem
    generalize mol.atoms = l at hnd hrem
    induction l with
    | nil => simp at hrem
    | cons a as ih =>
      simp only [List.map_cons, List.nodup_cons, List.mem_cons] at hnd hrem
      by_cases h : a.key = rem
      · have : as.filter (·.key != rem) = as := by
          apply List.filter_eq_self.mpr
          intro b hb
          simp only [bne_iff_ne, ne_eq]
          intro e; exact hnd.1 (h ▸ e ▸ List.mem_map.mpr ⟨b, hb, rfl⟩)
        simp [List.filter_cons, h, this]
      · have hr : rem ∈ as.map (·.key) := by
          rcases hrem with e | e
          · exact absurd e.symm h
          · exact e
        simp [List.filter_cons, h, ih hnd.2 hr]
  unfold contract
  cases mol.atom? rem with
  | none => simp only [moved_atoms]; exact hlen
  | some r => simp only [updAtom_length, moved_atoms]; exact hlen

/-- nothing else is merged or lost: every atom other than the two marked ones is still there, unchanged -/
theorem C10_others_kept (mol : Mol) (keep rem : Key) (a : Atom) (ha : a ∈ mol.atoms)
    (h1 : a.key ≠ keep) (h2 : a.key ≠ rem) : a ∈ (contract mol keep rem).atoms := by
  have hf : a ∈ mol.atoms.filter (·.key != rem) := List.mem_filter.mpr ⟨ha, by simpa using h2⟩
  unfold contract
  cases mol.atom? rem with
  | none => simp only [moved_atoms]; exact hf
  | some r =>
    simp only [Mol.updAtom, moved_atoms, List.mem_map]
    exact ⟨a, hf, by simp [h1]⟩

/-- the removed atom is gone -/
theorem C10_removed_gone (mol : Mol) (keep rem : Key) (hne : keep ≠ rem) :
    ∀ a ∈ (contract mol keep rem).atoms, a.key ≠ rem := by
  intro a ha
  unfold contract at ha
  have base : ∀ b ∈ mol.atoms.filter (·.key != rem), b.key ≠ rem := by
    intro b hb; simpa using (List.mem_filter.mp hb).2
  cases hr : mol.atom? rem with
  | none => rw [hr] at ha; simp only [moved_atoms] at ha; exact base a ha
  | some r =>
    rw [hr] at ha
    simp only [Mol.updAtom, moved_atoms, List.mem_map] at ha
    obtain ⟨b, hb, rfl⟩ := ha
    by_cases hk : b.key == keep
    · simp only [hk, if_true]; simp only [beq_iff_eq] at hk; rw [hk]; exact hne
    · simp only [hk, Bool.false_eq_true, if_false]; exact base b hb

/-- the kept atom belongs to both coarse nodes: memberships (and template mappings) are concatenated -/
theorem C10_membership (mol : Mol) (keep rem : Key) (k r : Atom) (hk : k ∈ mol.atoms) (hkk : k.key = keep)
    (hr : mol.atom? rem = some r) (hne : keep ≠ rem) :
    ({ k with fragid := k.fragid ++ r.fragid, mapping := k.mapping ++ r.mapping } : Atom) ∈ (contract mol keep rem).atoms := by
  unfold contract
  rw [hr]
  simp only [Mol.updAtom, moved_atoms, List.mem_map]
  refine ⟨k, List.mem_filter.mpr ⟨hk, by simp [hkk, hne]⟩, by simp [hkk]⟩

/-- bonds that do not involve the removed atom are kept as they are -/
theorem C10_bonds_kept (mol : Mol) (keep rem : Key) (e : Edge) (he : e ∈ mol.edges) (h1 : e.a ≠ rem) (h2 : e.b ≠ rem) :
    e ∈ (contract mol keep rem).edges := by
  have hf : e ∈ mol.edges.filter fun e => !(e.a == rem || e.b == rem) :=
    List.mem_filter.mpr ⟨he, by simp [h1, h2]⟩
  unfold contract
  cases mol.atom? rem with
  | none => exact moved_edges_mono _ _ keep rem e hf
  | some r => rw [updAtom_edges]; exact moved_edges_mono _ _ keep rem e hf

/-! worked instance: propane written as two overlapping fragments C–C! and !C–C -/
def ex : Mol := { atoms := [{ key := 0, fragid := [0] }, { key := 1, fragid := [0] }, { key := 2, fragid := [1] }, { key := 3, fragid := [1] }],
                  edges := [⟨0, 1, 2, none⟩, ⟨2, 3, 2, none⟩, ⟨1, 2, 2, some ("!1".toList, "!1".toList)⟩] }
example : ((squash ex).atoms.map fun a => (a.key, a.fragid)) = [(0, [0]), (1, [0, 1]), (3, [1])] := by decide +kernel
example : ((squash ex).edges.map fun e => (e.a, e.b)) = [(0, 1), (1, 3)] := by decide +kernel

end CGV.C10
