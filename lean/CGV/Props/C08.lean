import CGV.Model.Strip
import CGV.Model.Write
namespace CGV.C08
end CGV.C08
