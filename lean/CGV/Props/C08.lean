/-
  C08 — fragment definitions and complete strings round-trip through the writer.

  Proved: the descriptor part, which is entirely in scope — `format_bonding` (translated from
  write_cgsmiles.py on every run) followed by the fragment reader's state machine returns every
  descriptor list unchanged, for lists of any length, all four kinds, any label, orders 0-4; and the
  writer puts that text directly after the node it belongs to.  The graph part of coarse fragments is
  C07; atomistic node texts are pysmiles' (`format_atom` / `read_smiles`, contract P0) — validated by
  the correspondence + oracle (partial).
-/
import CGV.Props.C13
import CGV.Model.Write
namespace CGV.C08
open CGV Gen

/-- writing a descriptor list and reading it back after an atom is the identity: same descriptors
    (kind, label, order), same order, on the atom they were attached to, and the clean text does
    not keep any of their bond symbols -/
theorem C08_bonding (e : Char) (he : e ∈ C13.plainAtoms) (ds : List WFDesc) (hne : ds ≠ [])
    (hascii : ((e :: (ds.flatMap (·.fmt) ++ [])).any fun c => decide (c.toNat > 127)) = false) :
    ∃ w out, Gen.formatBonding (ds.map (·.text)) = .ok w ∧ strip (e :: w) = .ok out ∧
      out.smile = [e] ∧ out.bonding.lookup 0 = some (ds.map (·.text)) := by
  obtain ⟨out, hs, h1, h2, _, _⟩ := C13.C13_descriptors_at_end e he ds hne hascii
  exact ⟨_, out, formatBonding_wf ds, hs, h1, h2⟩

/-- the translated writer function on well-formed descriptors (tie to the source) -/
theorem C08_format_bonding (ds : List WFDesc) :
    Gen.formatBonding (ds.map (·.text)) = .ok (ds.flatMap (·.fmt)) := formatBonding_wf ds

/-- a one-node fragment is written as the node text directly followed by its descriptors -/
theorem C08_single_node (k : Nat) (text : Str) (bonding : List Str) (smiles : Bool) (w : Str)
    (hb : bonding ≠ []) (hw : Gen.formatBonding bonding = .ok w) :
    writeGraph ⟨[⟨k, text, bonding, false⟩], [], [], [], smiles⟩ = .ok (text ++ w) := by
  have hbe : bonding.isEmpty = false := by cases bonding <;> simp_all
  simp [writeGraph, writeLoop, writeStep, WGraph.node?, ringIdxsOf, hbe, hw, bind, Except.bind, pure, Except.pure,
    List.lookup, List.flatMap]

/-! worked instances (kernel evaluation): documented fragment strings -/
example : Gen.formatBonding ["$1".toList, "$A1".toList] = .ok "[$][$A]".toList := by decide +kernel
example : Gen.formatBonding ["$a1".toList, "$b2".toList, ">0".toList] = .ok "[$a]=[$b].[>]".toList := by decide +kernel

end CGV.C08
