/-
  C19 — 2-D layout gives every node a finite position at the requested scale.

  In scope: the post-processing of `vespr_layout` — the distance table handed to the layout engine
  and the final rescaling.  Proved over the reals, for arbitrary node types (so independent of how
  nodes are labelled), arbitrary positions in any real normed space, any non-empty edge list:
  the mean bond length after rescaling IS the requested length, bonded nodes that were apart stay
  apart, all target distances are positive.  The layout engines (spring + Kamada–Kawai: contract Y0)
  and IEEE rounding are external: validated with the engines in the loop (partial).
-/
import CGV.Model.Layout
import Mathlib.Analysis.Normed.Module.Basic
import Mathlib.Analysis.Real.Sqrt
import Mathlib.Tactic.FieldSimp
import Mathlib.Tactic.Linarith
namespace CGV.C19

variable {V E : Type} [NormedAddCommGroup E] [NormedSpace ℝ E]

/-- mean bond length over the edge list -/
noncomputable def meanLen (pos : V → E) (edges : List (V × V)) : ℝ :=
  (edges.map fun e => ‖pos e.1 - pos e.2‖).sum / edges.length

/-- graph_layout.py:67-68 -/
noncomputable def rescale (pos : V → E) (edges : List (V × V)) (b : ℝ) : V → E :=
  fun v => (b / meanLen pos edges) • pos v

theorem sum_map_mul_left (l : List (V × V)) (c : ℝ) (f : V × V → ℝ) :
    (l.map fun e => c * f e).sum = c * (l.map f).sum := by
  induction l with
  | nil => simp
  | cons x xs ih => simp [ih, mul_add]

/-- C19 (scale): after rescaling, the mean bond length equals the requested default bond length -/
theorem C19_rescale_mean (pos : V → E) (edges : List (V × V)) (b : ℝ) (hne : edges ≠ [])
    (ha : 0 < meanLen pos edges) (hb : 0 < b) :
    meanLen (rescale pos edges b) edges = b := by
  have hlen : (0 : ℝ) < edges.length := by
    have : 0 < edges.length := List.length_pos_iff.mpr hne
    exact_mod_cast this
  have hc : 0 < b / meanLen pos edges := div_pos hb ha
  have hscale : ∀ e : V × V, ‖rescale pos edges b e.1 - rescale pos edges b e.2‖ =
      (b / meanLen pos edges) * ‖pos e.1 - pos e.2‖ := by
    intro e
    simp only [rescale, ← smul_sub, norm_smul, Real.norm_eq_abs, abs_of_pos hc]
  unfold meanLen at *
  simp only [hscale]
  rw [sum_map_mul_left]
  have hsum : (edges.map fun e => ‖pos e.1 - pos e.2‖).sum ≠ 0 := by
    intro h0; rw [h0] at ha; simp at ha
  field_simp

/-- bonded nodes that were at different positions stay at different positions -/
theorem C19_rescale_distinct (pos : V → E) (edges : List (V × V)) (b : ℝ) (ha : 0 < meanLen pos edges) (hb : 0 < b)
    (u v : V) (h : pos u ≠ pos v) : rescale pos edges b u ≠ rescale pos edges b v := by
  have hc : b / meanLen pos edges ≠ 0 := ne_of_gt (div_pos hb ha)
  intro e
  simp only [rescale] at e
  exact h (smul_right_injective E hc e)

/-- the mean bond length is positive as soon as every bonded pair is apart (contract Y0 of the engine) -/
theorem C19_mean_pos (pos : V → E) (edges : List (V × V)) (hne : edges ≠ []) (h : ∀ e ∈ edges, pos e.1 ≠ pos e.2) :
    0 < meanLen pos edges := by
  unfold meanLen
  have hlen : (0 : ℝ) < edges.length := by
    have : 0 < edges.length := List.length_pos_iff.mpr hne
    exact_mod_cast this
  apply div_pos _ hlen
  obtain ⟨e0, rest, rfl⟩ : ∃ e0 rest, edges = e0 :: rest := by
    cases edges with
    | nil => exact absurd rfl hne
    | cons e0 rest => exact ⟨e0, rest, rfl⟩
  have h0 : 0 < ‖pos e0.1 - pos e0.2‖ := norm_pos_iff.mpr (sub_ne_zero.mpr (h e0 List.mem_cons_self))
  have hrest : 0 ≤ (rest.map fun e => ‖pos e.1 - pos e.2‖).sum :=
    List.sum_nonneg (by intro x hx; obtain ⟨e, _, rfl⟩ := List.mem_map.mp hx; exact norm_nonneg _)
  simp only [List.map_cons, List.sum_cons]
  linarith

/-- graph_layout.py:33-38 over the reals -/
noncomputable def targetDist (d : ℕ) : ℝ :=
  if d % 2 = 1 then Real.sqrt (3 * (((d : ℝ) + 1) / 2) ^ 2 - 3 * (((d : ℝ) + 1) / 2) + 1)
  else (d : ℝ) / 2 * Real.sqrt 3

/-- every target distance between different nodes (graph distance ≥ 1) is positive -/
theorem C19_targets_pos (d : ℕ) (hd : 1 ≤ d) : 0 < targetDist d := by
  unfold targetDist
  have hdr : (1 : ℝ) ≤ d := by exact_mod_cast hd
  split
  · apply Real.sqrt_pos.mpr
    nlinarith [sq_nonneg (((d : ℝ) + 1) / 2 - 1)]
  · apply mul_pos
    · linarith
    · exact Real.sqrt_pos.mpr (by norm_num)

/-- bonded nodes (graph distance 1) get target distance exactly 1 -/
theorem C19_target_bond : targetDist 1 = 1 := by
  simp [targetDist]

end CGV.C19
