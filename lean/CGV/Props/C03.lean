/-
  C03 — inter-fragment bonds follow the base graph and the bonding-descriptor rules.

  Model: `edgesFrom` (CGV.Model.Descr) = the descriptor bookkeeping of
  resolve.py:294-317 with `compat` = resolve.py:14 `compatible` (the translated function,
  `Gen.compatible`, is proved equal to `compat` below — re-checked against the regenerated
  translation on every run) and `applyCut` (CGV.Model.Resolve) for the bond's order.
  All theorems quantify over every base-graph edge list, every initial descriptor state and
  both matching conventions.
-/
import CGV.Lemmas.Bridge
import CGV.Lemmas.Restore
import CGV.Model.Resolve
namespace CGV.C03
open CGV

/-- tie to the source: the function translated from resolve.py is `compat` -/
theorem C03_translated_compatible (lc rc : Char) (lt rt : Str) (legacy : Bool) :
    Gen.compatible (lc :: lt) (rc :: rt) legacy = .ok (compat legacy (lc :: lt) (rc :: rt)) :=
  gen_compatible_eq lc rc lt rt legacy

/-- compatibility, BigSmiles ("legacy") convention: `$`/`!` (anything but `<`, `>`, blank) with the
    identical descriptor text (kind, label, order); `<` with `>` of identical label and order -/
theorem C03_compatible_iff_legacy (lc rc : Char) (ltl rtl : Str) :
    compat true (lc :: ltl) (rc :: rtl) = true ↔
      ((lc = rc ∧ ltl = rtl ∧ lc ≠ '>' ∧ lc ≠ '<' ∧ lc ≠ ' ') ∨
       (((lc = '<' ∧ rc = '>') ∨ (lc = '>' ∧ rc = '<')) ∧ ltl = rtl)) := by
  simp only [compat, if_true]
  grind

/-- compatibility, label-insensitive convention: only the symbol kind counts -/
theorem C03_compatible_iff_nonlegacy (lc rc : Char) (ltl rtl : Str) :
    compat false (lc :: ltl) (rc :: rtl) = true ↔
      ((lc = '$' ∧ rc = '$') ∨ (lc = '!' ∧ rc = '!') ∨ (lc = '<' ∧ rc = '>') ∨ (lc = '>' ∧ rc = '<')) := by
  simp only [compat]
  grind

variable (cp : Desc → Desc → Bool)

/-- bonds exist only across base-graph edges of order ≥ 1 -/
theorem C03_adjacent (edges : List MEdge) (s : OpenSt) :
    ∀ c ∈ (edgesFrom cp edges s).2, ∃ o, (c.p, c.n, o) ∈ edges ∧ 0 < o := by
  obtain ⟨new, h1, _, h3⟩ := foldl_cuts (cp := cp) edges (s, [])
  intro c hc
  have : (edgesFrom cp edges s).2 = new := by simpa [edgesFrom] using h1
  rw [this] at hc
  exact h3 c hc

/-- never more bonds for a pair of coarse nodes than the order of the edge(s) listed for it
    (none for order 0) -/
theorem C03_le_order (edges : List MEdge) (s : OpenSt) (p n : Key) :
    cutsFor (edgesFrom cp edges s).2 p n ≤ orderSum edges p n := by
  obtain ⟨new, h1, h2, _⟩ := foldl_cuts (cp := cp) edges (s, [])
  have : (edgesFrom cp edges s).2 = new := by simpa [edgesFrom] using h1
  rw [this]
  exact h2 p n

/-- every bond joins a compatible pair -/
theorem C03_pair_compatible (edges : List MEdge) (s : OpenSt) (hw : s.WF) (hn : NoSelfLoops edges) :
    ∀ c ∈ (edgesFrom cp edges s).2, cp c.da c.db = true :=
  (edgesFrom_inv (cp := cp) edges s hw hn).compat

/-- conservation: for every atom and descriptor, what was written = what is left + what was used
    (as source half) + what was used (as target half). Hence no written descriptor is used for more
    than one bond. -/
theorem C03_no_reuse (edges : List MEdge) (s : OpenSt) (hw : s.WF) (hn : NoSelfLoops edges) (k a : Key) (d : Desc) :
    cnt (s.get k) a d =
      cnt ((edgesFrom cp edges s).1.get k) a d + usedSrc (edgesFrom cp edges s).2 k a d
        + usedTgt (edgesFrom cp edges s).2 k a d :=
  (edgesFrom_inv (cp := cp) edges s hw hn).cons k a d

/-- both end atoms of a bond carried the recorded descriptor in the fragment instance of the
    corresponding coarse node -/
theorem C03_pair_carried (edges : List MEdge) (s : OpenSt) (hw : s.WF) (hn : NoSelfLoops edges) :
    ∀ c ∈ (edgesFrom cp edges s).2,
      (∃ ds, (c.a, ds) ∈ s.get c.p ∧ c.da ∈ ds) ∧ (∃ ds, (c.b, ds) ∈ s.get c.n ∧ c.db ∈ ds) := by
  intro c hc
  have hI := edgesFrom_inv (cp := cp) edges s hw hn
  constructor
  · apply (cnt_pos_iff _ _ _).mp
    rw [hI.cons c.p c.a c.da]
    have : 0 < usedSrc (edgesFrom cp edges s).2 c.p c.a c.da :=
      List.countP_pos_iff.mpr ⟨c, hc, by simp⟩
    omega
  · apply (cnt_pos_iff _ _ _).mp
    rw [hI.cons c.n c.b c.db]
    have : 0 < usedTgt (edgesFrom cp edges s).2 c.n c.b c.db :=
      List.countP_pos_iff.mpr ⟨c, hc, by simp⟩
    omega

/-- with a dedicated, uniquely labelled compatible pair per unit of edge order (hypotheses
    `CutSpec`), exactly those bonds are created — a permutation of the specified cuts, hence exactly
    `order` many per base-graph edge — and every descriptor is consumed; for every order of the
    edge list, of the atoms and of the descriptors on an atom. -/
theorem C03_exact (edges : List MEdge) (s : OpenSt) (spec : List Cut) (h : CutSpec cp edges s spec) :
    (edgesFrom cp edges s).2.Perm spec ∧ ∀ k a d, cnt ((edgesFrom cp edges s).1.get k) a d = 0 := by
  obtain ⟨made, h1, h2, h3⟩ := restore_aux (cp := cp) edges edges s spec [] h.noself h.norev h.pairs
    (fun _ he => he) h.orders h.rem.covered h.rem
  have e : (edgesFrom cp edges s).2 = made := by simpa [edgesFrom] using h1
  exact ⟨e ▸ h2, h3⟩

/-- the bond's order: the digit that ends the source descriptor, or 1.5 (3 half units) iff both
    atoms are flagged aromatic; and the descriptor pair is recorded on the bond -/
theorem C03_bond_order (allAtom : Bool) (mol : Mol) (c : Cut) (o : Nat) (ho : descOrder c.da = .ok o)
    (hne : mol.hasEdge c.a c.b = false) :
    ∃ m, applyCut allAtom mol c = .ok m ∧
      ∃ e ∈ m.edges, e.a = c.a ∧ e.b = c.b ∧ e.bonding = some (c.da, c.db) ∧
        e.order2 = (if ((mol.atom? c.a).map (·.aromatic)).getD false && ((mol.atom? c.b).map (·.aromatic)).getD false
                    then 3 else 2 * o) := by
  cases allAtom <;>
  · simp only [applyCut, ho, bind, Except.bind, pure, Except.pure, Mol.addEdge, hne]
    refine ⟨_, rfl, ?_⟩
    simp [Mol.updAtom]

/-! ### non-vacuity: concrete instances that satisfy the hypotheses -/

/-- `{[#A]=[#B]}.{#A=[$x]C[$y], #B=[$y]C[$x]}`-like instance: two cuts between instances 0 and 1 -/
def exSpec : List Cut := [⟨0, 1, 10, 20, "$x1".toList, "$x1".toList⟩, ⟨0, 1, 10, 21, "$y1".toList, "$y1".toList⟩]
def exState : OpenSt := [(0, [(10, ["$y1".toList, "$x1".toList])]), (1, [(20, ["$x1".toList]), (21, ["$y1".toList])])]

example : (edgesFrom (compat true) [(0, 1, 2)] exState).2.Perm exSpec := by decide +kernel
example : exState.WF := ⟨by decide, by
  intro k f h
  simp only [exState, List.mem_cons, Prod.mk.injEq, List.not_mem_nil, or_false] at h
  rcases h with ⟨_, rfl⟩ | ⟨_, rfl⟩ <;> decide⟩
example : NoSelfLoops [((0 : Key), (1 : Key), 2)] := by
  intro e he
  simp only [List.mem_cons, List.not_mem_nil, or_false] at he
  subst he; decide

end CGV.C03
