/-
  C07 for simple cycles, end to end: the writer model on the cycle with names `n0 … nk` (k ≥ 2), chain
  orders `o1 … ok` and ring-closing order `oc` — the ring edge stored in either orientation — produces
  `{[#n0] oc 1 … [#nk]1}`, and (C04_read_ring) reading that string gives the cycle back: the path graph
  plus the bond between the last and the first node with order `oc`.
-/
import CGV.Props.C07Path
import CGV.Props.C04Ring
namespace CGV.C07
open CGV Gen C04
set_option linter.unusedSimpArgs false

/-- the ring-closing edge as the writer is handed it -/
def ringEnds (n : Nat) (flip : Bool) : Nat × Nat := if flip then (n, 0) else (0, n)

/-- nodes `0 … n` in a row plus the edge `n – 0`; `dfs_successors` from node 0 follows the row -/
def cycleW (first : Str) (its : List LItem) (oc : Nat) (flip : Bool) : WGraph :=
  { nodes := nodesFrom 0 (first :: its.map (·.name)),
    edges := edgesFromP 0 its ++ [⟨(ringEnds its.length flip).1, (ringEnds its.length flip).2, 2 * oc⟩],
    succ := succFrom 0 its, ringEdges := [ringEnds its.length flip], smilesFormat := false }

theorem cycle_node (first : Str) (its : List LItem) (oc : Nat) (flip : Bool) (k : Nat) :
    (cycleW first its oc flip).node? k = (pathW first its).node? k := rfl

theorem cycle_aromatic (first : Str) (its : List LItem) (oc : Nat) (flip : Bool) (k : Nat) :
    (cycleW first its oc flip).aromatic k = (pathW first its).aromatic k := rfl

theorem cycle_pred (first : Str) (its : List LItem) (oc : Nat) (flip : Bool) :
    predOf (cycleW first its oc flip) = predOf (pathW first its) := rfl

theorem path_aromatic (first : Str) (its : List LItem) (j : Nat) : (pathW first its).aromatic j = false := by
  unfold WGraph.aromatic WGraph.node? pathW
  simp only
  generalize (first :: its.map (·.name)) = names
  generalize (0 : Nat) = k
  induction names generalizing k with
  | nil => simp [nodesFrom]
  | cons x xs ih =>
    simp only [nodesFrom, List.find?_cons]
    split
    · rfl
    · exact ih (k + 1)

/-- a chain bond is found before the ring-closing edge -/
theorem cycle_order_chain (first : Str) (its : List LItem) (oc : Nat) (flip : Bool) (i : Nat) (it : LItem)
    (h : its[i]? = some it) : (cycleW first its oc flip).order2? i (i + 1) = some (2 * it.order) := by
  have := edges_find its 0 i it h
  simp only [Nat.zero_add] at this
  unfold WGraph.order2? cycleW
  simp only [List.find?_append]
  cases hf : (edgesFromP 0 its).find? fun e => (e.a == i && e.b == i + 1) || (e.a == i + 1 && e.b == i) with
  | none => rw [hf] at this; simp at this
  | some e => rw [hf] at this; simpa using this

theorem edgeSymbol_of_order (g : WGraph) (u v o : Nat) (ho : o ≤ 4) (hord : g.order2? u v = some (2 * o))
    (hu : g.aromatic u = false) : edgeSymbol g u v = .ok (symText o) := by
  by_cases h1 : o = 1
  · have : symText o = [] := by rw [h1]; decide +kernel
    rw [this]
    exact C07_single_bond_silent _ _ _ (by rw [hord, h1]) (by rw [hu]; rfl)
  · obtain ⟨c, hc1, _, hc3⟩ := C07_symbols_inverse o ho h1
    have hne : (2 * o == 2) = false := by simp <;> omega
    simp [edgeSymbol, writeEdgeSymbol, hord, hu, hne, hc1, hc3, pyGet, bind, Except.bind, pure, Except.pure]

theorem edgeSymbol_cycle_chain (first : Str) (its : List LItem) (oc : Nat) (flip : Bool) (i : Nat) (it : LItem)
    (h : its[i]? = some it) (ho : it.order ≤ 4) :
    edgeSymbol (cycleW first its oc flip) i (i + 1) = .ok (symText it.order) :=
  edgeSymbol_of_order _ _ _ _ ho (cycle_order_chain first its oc flip i it h) (path_aromatic first its i)

theorem edges_succ : ∀ (l : List LItem) (k : Nat), ∀ e ∈ edgesFromP k l, e.a + 1 = e.b := by
  intro l
  induction l with
  | nil => intro k e he; simp [edgesFromP] at he
  | cons x xs ih =>
    intro k e he
    simp only [edgesFromP, List.mem_cons] at he
    rcases he with rfl | he
    · rfl
    · exact ih (k + 1) e he

/-- no chain bond joins the two ends when the cycle has at least three nodes -/
theorem chain_no_ring (its : List LItem) (n : Nat) (hn : 2 ≤ n) (u v : Nat) (huv : (u = 0 ∧ v = n) ∨ (u = n ∧ v = 0)) :
    ((edgesFromP 0 its).find? fun e => (e.a == u && e.b == v) || (e.a == v && e.b == u)) = none := by
  rw [List.find?_eq_none]
  intro e he
  have := edges_succ its 0 e he
  simp only [Bool.or_eq_true, Bool.and_eq_true, beq_iff_eq, not_or, not_and]
  rcases huv with ⟨rfl, rfl⟩ | ⟨rfl, rfl⟩ <;> constructor <;> intro h1 <;> omega

theorem cycle_order_ring (first : Str) (its : List LItem) (oc : Nat) (flip : Bool) (hn : 2 ≤ its.length) :
    (cycleW first its oc flip).order2? (ringEnds its.length flip).1 (ringEnds its.length flip).2 = some (2 * oc) := by
  unfold WGraph.order2? cycleW
  simp only [List.find?_append]
  rw [chain_no_ring its its.length hn _ _ (by cases flip <;> simp [ringEnds])]
  simp

theorem edgeSymbol_cycle_ring (first : Str) (its : List LItem) (oc : Nat) (flip : Bool) (hn : 2 ≤ its.length) (ho : oc ≤ 4) :
    edgeSymbol (cycleW first its oc flip) (ringEnds its.length flip).1 (ringEnds its.length flip).2 = .ok (symText oc) :=
  edgeSymbol_of_order _ _ _ _ ho (cycle_order_ring first its oc flip hn) (path_aromatic first its _)

/-- ring edges a node takes part in: only the two ends -/
theorem cycle_ringIdxs (first : Str) (its : List LItem) (oc : Nat) (flip : Bool) (k : Nat) :
    ringIdxsOf (cycleW first its oc flip) k =
      if k = 0 ∨ k = its.length then [(1, ringEnds its.length flip)] else [] := by
  unfold ringIdxsOf cycleW ringEnds
  by_cases h : k = 0 ∨ k = its.length
  · rw [if_pos h]
    cases flip <;> rcases h with rfl | rfl <;> simp
  · rw [if_neg h]
    simp only [not_or] at h
    have h1 : (0 == k) = false := by simp; omega
    have h2 : (its.length == k) = false := by simp; omega
    cases flip <;> simp [h1, h2] <;> omega

/-! ### the writer's loop body on the three kinds of node -/

/-- a node without ring edge: symbol and node text are appended, the open ring markers stay -/
theorem writeStep_mid (g : WGraph) (pred : List (Nat × Nat)) (acc : Str) (k : Nat) (mk : List (Nat × Nat)) (sym nm : Str)
    (nx : Nat)
    (hnode : g.node? k = some ⟨k, nm, [], false⟩) (hsucc : g.succ.lookup k = some [nx])
    (hsym : (match pred.lookup k with
             | some previous => edgeSymbol g previous k
             | none => pure []) = .ok sym)
    (hring : ringIdxsOf g k = []) :
    writeStep g pred ⟨acc, [k], [], 0, mk⟩ = .ok ⟨acc ++ sym ++ nm, [nx], [], 0, mk⟩ := by
  unfold writeStep
  simp only [List.getLast?_singleton, List.dropLast_singleton, List.contains_nil, hnode, hring, hsucc,
    bind, Except.bind, pure, Except.pure, Bool.false_eq_true, if_false, List.isEmpty_nil, if_true, List.foldlM_nil,
    List.filter_nil, List.append_nil, List.flatMap_nil]
  cases hl : pred.lookup k with
  | none =>
    rw [hl] at hsym
    simp only [pure, Except.pure, Except.ok.injEq] at hsym
    subst hsym
    simp
  | some previous =>
    rw [hl] at hsym
    simp only at hsym
    simp [hsym]

/-- the node at which the ring is opened: marker 1 is allocated and written with the ring bond's symbol -/
theorem writeStep_open (g : WGraph) (pred : List (Nat × Nat)) (acc : Str) (k : Nat) (nm rsym : Str) (re : Nat × Nat) (nx : Nat)
    (hnode : g.node? k = some ⟨k, nm, [], false⟩) (hsucc : g.succ.lookup k = some [nx])
    (hpred : pred.lookup k = none) (hring : ringIdxsOf g k = [(1, re)]) (hrs : edgeSymbol g re.1 re.2 = .ok rsym) :
    writeStep g pred ⟨acc, [k], [], 0, []⟩ = .ok ⟨acc ++ nm ++ rsym ++ ['1'], [nx], [], 0, [(1, 1)]⟩ := by
  unfold writeStep
  simp [hnode, hring, hsucc, hpred, hrs, bind, Except.bind, pure, Except.pure, lowestFree, markerText, pyDel]
  decide

/-- the node at which the ring is closed: the marker is written and released -/
theorem writeStep_close (g : WGraph) (pred : List (Nat × Nat)) (acc : Str) (k : Nat) (sym nm : Str) (re : Nat × Nat)
    (hnode : g.node? k = some ⟨k, nm, [], false⟩) (hsucc : g.succ.lookup k = none)
    (hsym : (match pred.lookup k with
             | some previous => edgeSymbol g previous k
             | none => pure []) = .ok sym)
    (hring : ringIdxsOf g k = [(1, re)]) :
    writeStep g pred ⟨acc, [k], [], 0, [(1, 1)]⟩ = .ok ⟨acc ++ sym ++ nm ++ ['1'], [], [], 0, []⟩ := by
  unfold writeStep
  cases hl : pred.lookup k with
  | none =>
    rw [hl] at hsym
    simp only [pure, Except.pure, Except.ok.injEq] at hsym
    subst hsym
    simp [hnode, hring, hsucc, hl, bind, Except.bind, pure, Except.pure, markerText, pyDel, List.lookup]
    decide
  | some previous =>
    rw [hl] at hsym
    simp only at hsym
    simp [hnode, hring, hsucc, hl, hsym, bind, Except.bind, pure, Except.pure, markerText, pyDel, List.lookup]
    decide

/-! ### the writer on the whole cycle -/

theorem cycle_node_at (first : Str) (its : List LItem) (oc : Nat) (flip : Bool) (j : Nat) (nm : Str)
    (hnm : (first :: its.map (·.name))[j]? = some nm) :
    (cycleW first its oc flip).node? j = some ⟨j, nodeText nm, [], false⟩ := by
  have := nodesFrom_find (first :: its.map (·.name)) 0 j nm hnm
  simpa [WGraph.node?, cycleW] using this

theorem cycle_succ_at (first : Str) (its : List LItem) (oc : Nat) (flip : Bool) (j : Nat) :
    (cycleW first its oc flip).succ.lookup j = if j < its.length then some [j + 1] else none := by
  have := succFrom_lookup its 0 j
  simpa [cycleW] using this

/-- the writer's loop from the state after node `i` (ring marker 1 open) to the end -/
theorem writeLoop_cycle (first : Str) (its : List LItem) (oc : Nat) (flip : Bool) (hok : ∀ it ∈ its, ItemOk it) :
    ∀ (m i : Nat) (acc : Str) (fuel : Nat), its.length - i = m + 1 → m + 1 < fuel →
    writeLoop (cycleW first its oc flip) (predOf (pathW first its)) fuel ⟨acc, [i + 1], [], 0, [(1, 1)]⟩ =
      .ok ⟨acc ++ renderBody (its.drop i) ++ ['1'], [], [], 0, []⟩
  | m, i, acc, fuel, hm, hf => by
    have hi : i < its.length := by omega
    obtain ⟨f, rfl⟩ : ∃ f, fuel = f + 1 := ⟨fuel - 1, by omega⟩
    have hit : its[i]? = some its[i] := List.getElem?_eq_getElem hi
    have hmem : its[i] ∈ its := List.getElem_mem hi
    have hnm : (first :: its.map (·.name))[i + 1]? = some its[i].name := by simp [hi]
    have hpred : (predOf (pathW first its)).lookup (i + 1) = some i := by
      have := pred_lookup its 0 i
      simpa [predOf, pathW, hi] using this
    have hsym : (match (predOf (pathW first its)).lookup (i + 1) with
                 | some previous => edgeSymbol (cycleW first its oc flip) previous (i + 1)
                 | none => pure []) = .ok (symText its[i].order) := by
      rw [hpred]; exact edgeSymbol_cycle_chain first its oc flip i its[i] hit (hok _ hmem).2
    have hnode := cycle_node_at first its oc flip (i + 1) its[i].name hnm
    have hdrop : its.drop i = its[i] :: its.drop (i + 1) := List.drop_eq_getElem_cons hi
    rw [writeLoop]
    simp only [List.isEmpty_cons, Bool.false_eq_true, if_false, bind, Except.bind]
    cases m with
    | zero =>
      -- the last node: the ring is closed
      have hlast : i + 1 = its.length := by omega
      have hsucc : (cycleW first its oc flip).succ.lookup (i + 1) = none := by
        rw [cycle_succ_at]; simp [hlast]
      have hring : ringIdxsOf (cycleW first its oc flip) (i + 1) = [(1, ringEnds its.length flip)] := by
        rw [cycle_ringIdxs]; simp [hlast]
      rw [writeStep_close _ _ acc (i + 1) (symText its[i].order) (nodeText its[i].name) _ hnode hsucc hsym hring]
      simp only []
      have hnil : its.drop (i + 1) = [] := List.drop_eq_nil_of_le (by omega)
      rw [hdrop, hnil]
      cases f with
      | zero => omega
      | succ f' => simp [writeLoop, renderBody, pure, Except.pure]
    | succ m' =>
      have hlt : i + 1 < its.length := by omega
      have hsucc : (cycleW first its oc flip).succ.lookup (i + 1) = some [i + 1 + 1] := by
        rw [cycle_succ_at]; simp [hlt]
      have hring : ringIdxsOf (cycleW first its oc flip) (i + 1) = [] := by
        rw [cycle_ringIdxs]
        have h1 : ¬ (i + 1 = 0 ∨ i + 1 = its.length) := by omega
        rw [if_neg h1]
      rw [writeStep_mid _ _ acc (i + 1) [(1, 1)] (symText its[i].order) (nodeText its[i].name) (i + 1 + 1) hnode hsucc hsym hring]
      simp only []
      rw [writeLoop_cycle first its oc flip hok m' (i + 1) _ f (by omega) (by omega)]
      rw [hdrop]
      simp only [renderBody, List.append_assoc]

/-- the writer on a cycle produces the chain string with ring marker 1 at both ends -/
theorem writeGraph_cycle (first : Str) (its : List LItem) (oc : Nat) (flip : Bool) (hok : ∀ it ∈ its, ItemOk it)
    (hn : 2 ≤ its.length) (hoc : oc ≤ 4) :
    writeGraph (cycleW first its oc flip) = .ok (nodeText first ++ symText oc ++ ['1'] ++ renderBody its ++ ['1']) := by
  unfold writeGraph
  have hkeys : (cycleW first its oc flip).nodes.map (·.key) = 0 :: ((nodesFrom 1 (its.map (·.name))).map (·.key)) := by
    simp [cycleW, nodesFrom]
  have hnlen : ∀ (k : Nat) (l : List Str), (nodesFrom k l).length = l.length := by
    intro k l; induction l generalizing k with
    | nil => rfl
    | cons x xs ih => simp [nodesFrom, ih]
  have hlen : (cycleW first its oc flip).nodes.length = its.length + 1 := by simp [cycleW, hnlen]
  have hpred0 : (predOf (pathW first its)).lookup 0 = none := by
    have := pred_lookup_low its 0 0 (Nat.le_refl 0)
    simpa [predOf, pathW] using this
  have hnode := cycle_node_at first its oc flip 0 first (by simp)
  have hsucc : (cycleW first its oc flip).succ.lookup 0 = some [0 + 1] := by
    rw [cycle_succ_at, if_pos (by omega)]
  have hring : ringIdxsOf (cycleW first its oc flip) 0 = [(1, ringEnds its.length flip)] := by
    rw [cycle_ringIdxs]; simp
  have hstep := writeStep_open (cycleW first its oc flip) (predOf (pathW first its)) [] 0 (nodeText first) (symText oc)
    (ringEnds its.length flip) (0 + 1) hnode hsucc hpred0 hring (edgeSymbol_cycle_ring first its oc flip hn hoc)
  have hloop := writeLoop_cycle first its oc flip hok (its.length - 1) 0 ([] ++ nodeText first ++ symText oc ++ ['1'])
    (its.length + 1) (by omega) (by omega)
  simp only [hkeys, foldl_min_zero, hlen, bind, Except.bind, pure, Except.pure]
  rw [show its.length + 1 + 1 = (its.length + 1) + 1 from rfl, writeLoop]
  simp only [List.isEmpty_cons, Bool.false_eq_true, if_false, bind, Except.bind]
  have hpd : (List.flatMap (fun x => List.map (fun s => (s, x.fst)) x.snd) (cycleW first its oc flip).succ) = predOf (pathW first its) := rfl
  rw [hpd]
  have hst0 : ({ toVisit := [0] } : WState) = ⟨[], [0], [], 0, []⟩ := rfl
  rw [hst0, hstep]
  simp only []
  rw [hloop]
  simp

/-! ### reading the cycle string back -/

/-- the chain items as ring-chain items: marker 1 is closed at the last node -/
def closeLast : List LItem → List RItem
  | [] => []
  | [x] => [⟨x.name, x.order, [⟨1, 1, false⟩]⟩]
  | x :: y :: r => ⟨x.name, x.order, []⟩ :: closeLast (y :: r)

theorem render_closeLast : ∀ (its : List LItem), its ≠ [] → renderRTail (closeLast its) = renderBody its ++ ['1', '}']
  | [], h => absurd rfl h
  | [x], _ => by
    simp only [closeLast, renderRTail, renderBody, marksText, List.append_nil, List.append_assoc]
    have : markText ⟨1, 1, false⟩ = ['1'] := by decide +kernel
    rw [this]; simp
  | x :: y :: r, _ => by
    have ih := render_closeLast (y :: r) (by simp)
    simp only [closeLast, renderRTail, renderBody, marksText, List.append_nil, List.append_assoc] at ih ⊢
    rw [ih]

theorem closeLast_ok : ∀ (its : List LItem), (∀ it ∈ its, ItemOk it) → ∀ it ∈ closeLast its, RItemOk it
  | [], _, it, h => by simp [closeLast] at h
  | [x], hok, it, h => by
    simp only [closeLast, List.mem_singleton] at h
    subst h
    have hx := hok x (by simp)
    exact ⟨hx.1, hx.2, ⟨⟨by decide, by decide⟩, trivial, fun h => by cases h⟩⟩
  | x :: y :: r, hok, it, h => by
    simp only [closeLast, List.mem_cons] at h
    rcases h with rfl | h
    · have hx := hok x (by simp)
      exact ⟨hx.1, hx.2, trivial⟩
    · exact closeLast_ok (y :: r) (fun z hz => hok z (by simp [hz])) it (by simpa [closeLast] using h)

theorem rga_plain (g : CGGraph) (opened : List (Nat × Nat × Nat)) (prev k : Nat) (nm : Str) (o : Nat) (its : List RItem) :
    ringGraphAux g opened prev k (⟨nm, o, []⟩ :: its) =
      ringGraphAux ((g.addNode k (defaultAttrs nm)).addEdge prev k (some o)) opened k (k + 1) its := by
  rw [ringGraphAux]
  simp only [toggle, addRingEdges, List.foldlM_nil, bind, Except.bind, pure, Except.pure]

theorem rga_close (g : CGGraph) (prev k : Nat) (nm : Str) (o oc : Nat) :
    ringGraphAux g [(1, 0, oc)] prev k [⟨nm, o, [⟨1, 1, false⟩]⟩] =
      (if ((g.addNode k (defaultAttrs nm)).addEdge prev k (some o)).hasEdge k 0 then .error .syntax
       else .ok (((g.addNode k (defaultAttrs nm)).addEdge prev k (some o)).addEdge k 0 (some oc))) := by
  have ht : toggle [(1, 0, oc)] k [⟨1, 1, false⟩] [] = ([], [(k, 0, oc)]) := by
    simp [toggle, List.lookup, pyDel]
  rw [ringGraphAux]
  simp only [ht, addRingEdges, List.foldlM_cons, List.foldlM_nil, bind, Except.bind, pure, Except.pure]
  generalize (g.addNode k (defaultAttrs nm)).addEdge prev k (some o) = g1
  by_cases hh : g1.hasEdge k 0 = true
  · simp [hh, throw, throwThe, MonadExceptOf.throw]
  · simp [hh, ringGraphAux, pure, Except.pure]

theorem closeLast_one (x : LItem) : closeLast [x] = [⟨x.name, x.order, [⟨1, 1, false⟩]⟩] := by simp [closeLast]
theorem closeLast_cons (x y : LItem) (r : List LItem) :
    closeLast (x :: y :: r) = ⟨x.name, x.order, []⟩ :: closeLast (y :: r) := by simp [closeLast]

/-- the denotation of the cycle string: the path, then the ring bond (an error if it were there already) -/
theorem ringGraphAux_closeLast (oc : Nat) (its : List LItem) : ∀ (g : CGGraph) (prev k : Nat), its ≠ [] →
    ringGraphAux g [(1, 0, oc)] prev k (closeLast its) =
      (if (pathGraphAux g prev k its).hasEdge (k + its.length - 1) 0 then .error .syntax
       else .ok ((pathGraphAux g prev k its).addEdge (k + its.length - 1) 0 (some oc))) := by
  induction its with
  | nil => intro g prev k h; exact absurd rfl h
  | cons x xs ih =>
    intro g prev k _
    cases xs with
    | nil =>
      have hk : k + [x].length - 1 = k := by simp
      rw [hk, closeLast_one, rga_close]
      rfl
    | cons y r =>
      have hk : k + (x :: y :: r).length - 1 = k + 1 + (y :: r).length - 1 := by simp only [List.length_cons]; omega
      rw [hk, closeLast_cons, rga_plain, ih _ k (k + 1) (by simp)]
      rfl

/-! bonds of a path graph join consecutive keys -/

theorem cg_addEdge_succ (g : CGGraph) (u v : Nat) (o : Option Nat) (h : ∀ e ∈ g.edges, e.a + 1 = e.b) (huv : u + 1 = v) :
    ∀ e ∈ (g.addEdge u v o).edges, e.a + 1 = e.b := by
  intro e he
  unfold CGGraph.addEdge at he
  have hen : ∀ (x : CGGraph) (k : Nat), (x.ensure k).edges = x.edges := by
    intro x k; unfold CGGraph.ensure; split <;> rfl
  simp only at he
  split at he
  · simp only [List.mem_map, hen] at he
    obtain ⟨y, hy, rfl⟩ := he
    split <;> exact h y hy
  · simp only [hen, List.mem_append, List.mem_singleton] at he
    rcases he with h1 | rfl
    · exact h e h1
    · exact huv

theorem cg_addNode_edges (g : CGGraph) (k : Nat) (a : Attrs) : (g.addNode k a).edges = g.edges := by
  unfold CGGraph.addNode; split <;> rfl

theorem pathGraphAux_succ : ∀ (its : List LItem) (g : CGGraph) (prev k : Nat), prev + 1 = k →
    (∀ e ∈ g.edges, e.a + 1 = e.b) → ∀ e ∈ (pathGraphAux g prev k its).edges, e.a + 1 = e.b
  | [], g, _, _, _, h => h
  | it :: its, g, prev, k, hk, h => by
    simp only [pathGraphAux]
    apply pathGraphAux_succ its _ k (k + 1) rfl
    apply cg_addEdge_succ _ prev k _ _ hk
    rw [cg_addNode_edges]; exact h

theorem pathGraph_no_ring (first : Str) (its : List LItem) (hn : 2 ≤ its.length) :
    (pathGraph first its).hasEdge its.length 0 = false := by
  unfold CGGraph.hasEdge
  rw [List.any_eq_false]
  intro e he
  have := pathGraphAux_succ its (({} : CGGraph).addNode 0 (defaultAttrs first)) 0 1 rfl
    (by rw [cg_addNode_edges]; intro e he; simp at he) e he
  unfold CGGraph.joins
  simp only [Bool.or_eq_true, Bool.and_eq_true, beq_iff_eq, not_or, not_and]
  constructor <;> intro h1 <;> omega

/-- **C07 for simple cycles, end to end.**  For every cycle of at least three nodes — alphanumeric names,
    every bond order 0–4 on the chain bonds and on the ring-closing bond, the ring edge handed to the writer
    in either orientation — the string the writer produces reads back to exactly that cycle: the path graph
    plus the bond between the last and the first node with its order. -/
theorem C07_cycle_roundtrip (first : Str) (its : List LItem) (oc : Nat) (flip : Bool) (hfirst : NameOk first)
    (hok : ∀ it ∈ its, ItemOk it) (hn : 2 ≤ its.length) (hoc : oc ≤ 4) :
    (writeCG (cycleW first its oc flip)).bind readCG =
      .ok ((pathGraph first its).addEdge its.length 0 (some oc)) := by
  have hne : its ≠ [] := by intro e; rw [e] at hn; simp at hn
  unfold writeCG
  rw [writeGraph_cycle first its oc flip hok hn hoc]
  simp only [bind, Except.bind, pure, Except.pure]
  have htext : '{' :: (nodeText first ++ symText oc ++ ['1'] ++ renderBody its ++ ['1'] ++ ['}']) =
      renderRing first [⟨1, oc, false⟩] (closeLast its) := by
    have hm : marksText [⟨1, oc, false⟩] = symText oc ++ ['1'] := by
      simp only [marksText, markText, markDigits, List.append_nil]
      rfl
    simp only [renderRing, hm, render_closeLast its hne, List.append_assoc, List.cons_append, List.nil_append]
  rw [htext, C04_read_ring first [⟨1, oc, false⟩] (closeLast its) hfirst
    ⟨⟨hoc, by simp⟩, trivial, fun h => by cases h⟩ (closeLast_ok its hok)]
  unfold ringGraph
  simp only [toggle, List.lookup, addRingEdges, List.foldlM_nil, bind, Except.bind, pure, Except.pure, List.nil_append]
  rw [ringGraphAux_closeLast oc its _ 0 1 hne]
  have hidx : 1 + its.length - 1 = its.length := by omega
  rw [hidx]
  have := pathGraph_no_ring first its hn
  unfold pathGraph at this ⊢
  rw [this]
  rfl

theorem C07_cycle_text (first : Str) (its : List LItem) (oc : Nat) (flip : Bool) (hok : ∀ it ∈ its, ItemOk it)
    (hn : 2 ≤ its.length) (hoc : oc ≤ 4) :
    writeCG (cycleW first its oc flip) = .ok ('{' :: (nodeText first ++ symText oc ++ ['1'] ++ renderBody its ++ ['1'] ++ ['}'])) := by
  unfold writeCG
  rw [writeGraph_cycle first its oc flip hok hn hoc]
  rfl

example : writeCG (cycleW "A".toList [⟨"B".toList, 2⟩, ⟨"C".toList, 1⟩, ⟨"D".toList, 0⟩] 3 true) =
    .ok "{[#A]#1=[#B][#C].[#D]1}".toList := by decide +kernel

end CGV.C07
