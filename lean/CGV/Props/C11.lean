/-
  C11 — virtual nodes and zero-order edges are inert.

  Model: `disconnected`, `edgesFrom`, `phaseA`, `membersOf` (CGV.Model.Resolve / Descr).
-/
import CGV.Model.Resolve
import CGV.Lemmas.Edges
namespace CGV.C11
open CGV

variable (cp : Desc → Desc → Bool)

/-- an edge of order 0 gives no pass through the loop body: state and bonds are unchanged -/
theorem C11_zero_edge_step (acc : OpenSt × List Cut) (p n : Key) : stepEdge cp acc (p, n, 0) = acc := rfl

/-- zero-order edges anywhere in the base graph's edge list contribute nothing -/
theorem C11_zero_edges_inert (edges : List MEdge) (s : OpenSt) :
    edgesFrom cp edges s = edgesFrom cp (edges.filter fun e => e.2.2 != 0) s := by
  unfold edgesFrom
  generalize (s, ([] : List Cut)) = acc
  induction edges generalizing acc with
  | nil => rfl
  | cons e es ih =>
    obtain ⟨p, n, o⟩ := e
    by_cases h : o = 0
    · subst h
      simp only [List.foldl_cons, List.filter_cons]
      have : stepEdge cp acc (p, n, 0) = acc := rfl
      rw [this]
      simpa using ih acc
    · have h' : ((p, n, o).2.2 != 0) = true := by simpa using h
      simp only [List.foldl_cons, List.filter_cons, h', if_true]
      exact ih _

/-- no bond is ever made for an edge of order 0 -/
theorem C11_no_bond_for_zero (edges : List MEdge) (s : OpenSt) :
    ∀ c ∈ (edgesFrom cp edges s).2, ∃ o, (c.p, c.n, o) ∈ edges ∧ 0 < o := by
  obtain ⟨new, h1, _, h3⟩ := foldl_cuts (cp := cp) edges (s, [])
  intro c hc
  have : (edgesFrom cp edges s).2 = new := by simpa [edgesFrom] using h1
  rw [this] at hc
  exact h3 c hc

/-- one step of resolve_disconnected_molecule -/
def discStep (mg : Meta) (fd : FragDict) (acc : Mol × List (Key × List Key)) (mn : MetaNode) :
    Py (Mol × List (Key × List Key)) :=
  match fd.lookup mn.fragname with
  | none => if virtualOk mg mn.key then pure acc else throw PyErr.syntax
  | some tmpl =>
    let r := instantiate acc.1 mn.key mn.fragname tmpl
    pure (r.1, acc.2 ++ [(mn.key, r.2.map (·.2))])

theorem disconnected_eq (mg : Meta) (fd : FragDict) :
    disconnected mg fd = mg.nodes.foldlM (discStep mg fd) (({} : Mol), []) := rfl

/-- a fragment-less node with an incident edge of order ≥ 1 is rejected, wherever it stands -/
theorem foldlM_reject (mg : Meta) (fd : FragDict) (bad : MetaNode)
    (hfrag : fd.lookup bad.fragname = none) (hv : virtualOk mg bad.key = false) :
    ∀ (ns : List MetaNode) (acc : Mol × List (Key × List Key)), bad ∈ ns →
      (∀ mn ∈ ns, ∀ a, discStep mg fd a mn = .error .syntax ∨ ∃ r, discStep mg fd a mn = .ok r) →
      ns.foldlM (discStep mg fd) acc = .error .syntax
  | [], _, h, _ => by simp at h
  | mn :: ns, acc, h, hall => by
    simp only [List.foldlM_cons]
    rcases hall mn List.mem_cons_self acc with he | ⟨r, hr⟩
    · rw [he]; rfl
    · rw [hr]
      rcases List.mem_cons.mp h with rfl | h'
      · simp [discStep, hfrag, hv] at hr
      · exact foldlM_reject mg fd bad hfrag hv ns r h' (fun m hm a => hall m (List.mem_cons_of_mem _ hm) a)

theorem discStep_total (mg : Meta) (fd : FragDict) (a : Mol × List (Key × List Key)) (mn : MetaNode) :
    discStep mg fd a mn = .error .syntax ∨ ∃ r, discStep mg fd a mn = .ok r := by
  unfold discStep
  cases fd.lookup mn.fragname with
  | none => by_cases h : virtualOk mg mn.key <;> simp [h, pure, Except.pure, throw, throwThe, MonadExceptOf.throw]
  | some t => exact Or.inr ⟨_, rfl⟩

/-- C11 (rejection): a coarse node without fragment that has an edge of order 1 or more makes the
    resolution step raise SyntaxError, whatever its position in the base graph -/
theorem C11_nonvirtual_rejected (mg : Meta) (fd : FragDict) (bad : MetaNode) (hb : bad ∈ mg.nodes)
    (hfrag : fd.lookup bad.fragname = none) (hv : virtualOk mg bad.key = false) :
    disconnected mg fd = .error .syntax := by
  rw [disconnected_eq]
  exact foldlM_reject mg fd bad hfrag hv mg.nodes _ hb (fun mn _ a => discStep_total mg fd a mn)

/-- C11 (skipping): a virtual node (no fragment, only order-0 edges) contributes nothing: removing it
    from the node list — at any position — leaves the instantiated molecule and the instance table
    unchanged -/
theorem C11_virtual_skipped (edges : List MEdge) (fd : FragDict) (ns1 ns2 : List MetaNode) (v : MetaNode)
    (hfrag : fd.lookup v.fragname = none) (hv : virtualOk ⟨ns1 ++ v :: ns2, edges⟩ v.key = true) :
    disconnected ⟨ns1 ++ v :: ns2, edges⟩ fd = disconnected ⟨ns1 ++ ns2, edges⟩ fd := by
  have hstep : ∀ (mgA mgB : Meta), mgA.edges = mgB.edges → ∀ a mn, discStep mgA fd a mn = discStep mgB fd a mn := by
    intro mgA mgB he a mn
    unfold discStep virtualOk
    rw [he]
  have hvv : ∀ a, discStep ⟨ns1 ++ v :: ns2, edges⟩ fd a v = .ok a := by
    intro a; simp [discStep, hfrag, hv, pure, Except.pure]
  rw [disconnected_eq, disconnected_eq]
  simp only [List.foldlM_append, List.foldlM_cons]
  have e1 : ∀ (l : List MetaNode) a, l.foldlM (discStep ⟨ns1 ++ v :: ns2, edges⟩ fd) a =
      l.foldlM (discStep ⟨ns1 ++ ns2, edges⟩ fd) a := by
    intro l
    induction l with
    | nil => intro a; rfl
    | cons x xs ih =>
      intro a
      simp only [List.foldlM_cons, hstep ⟨ns1 ++ v :: ns2, edges⟩ ⟨ns1 ++ ns2, edges⟩ rfl a x]
      cases discStep ⟨ns1 ++ ns2, edges⟩ fd a x with
      | error e => rfl
      | ok r => exact ih r
  rw [e1 ns1]
  cases ns1.foldlM (discStep ⟨ns1 ++ ns2, edges⟩ fd) (({} : Mol), []) with
  | error e => rfl
  | ok r =>
    simp only [bind, Except.bind, hvv r]
    exact e1 ns2 r

/-- a virtual node is mapped to no fine node: nothing records a coarse key that was never
    instantiated (here for the instance table; `membersOf` reads `fragid`) -/
theorem C11_virtual_no_instance (mg : Meta) (fd : FragDict) (v : MetaNode)
    (hfrag : fd.lookup v.fragname = none) :
    ∀ (ns : List MetaNode) (acc r : Mol × List (Key × List Key)),
      (∀ mn ∈ ns, mn.key = v.key → mn.fragname = v.fragname) →
      ns.foldlM (discStep mg fd) acc = .ok r → v.key ∉ acc.2.map (·.1) → v.key ∉ r.2.map (·.1)
  | [], acc, r, _, h, hn => by
    simp [pure, Except.pure] at h; subst h; exact hn
  | mn :: ns, acc, r, hsame, h, hn => by
    simp only [List.foldlM_cons] at h
    cases hs : discStep mg fd acc mn with
    | error e => rw [hs] at h; cases h
    | ok a =>
      rw [hs] at h
      simp only [bind, Except.bind] at h
      refine C11_virtual_no_instance mg fd v hfrag ns a r (fun m hm => hsame m (List.mem_cons_of_mem _ hm)) h ?_
      unfold discStep at hs
      cases hl : fd.lookup mn.fragname with
      | none =>
        rw [hl] at hs
        by_cases hvk : virtualOk mg mn.key
        · simp [hvk, pure, Except.pure] at hs; subst hs; exact hn
        · simp [hvk, throw, throwThe, MonadExceptOf.throw] at hs
      | some t =>
        rw [hl] at hs
        simp only [pure, Except.pure, Except.ok.injEq] at hs
        subst hs
        simp only [List.map_append, List.map_cons, List.map_nil, List.mem_append, List.mem_singleton, not_or]
        refine ⟨hn, fun e => ?_⟩
        have := hsame mn List.mem_cons_self e.symm
        rw [this, hfrag] at hl
        cases hl

end CGV.C11
