/-
  C12 — output numbering is canonical and results depend on the input alone.

  Proved part: the renumbering (`sortNodes` = graph_utils.sort_nodes_by_attr) and the naming rule
  (`setNames` = set_atom_names_atomistic).  That the *same input gives identical graphs on every
  call, under every hash seed, across call histories, without mutating passed-in libraries* is a
  statement about interpreter state; the model is a pure function of its input, and the check
  validates "implementation = that pure function" on call histories and hash seeds by
  correspondence (see DESIGN §7 C12).
-/
import CGV.Lemmas.Sort
import Std.Data.String.ToNat
namespace CGV.C12
open CGV

/-- resolved graphs have node keys 0 … n-1 -/
theorem C12_keys (mol : Mol) (h : mol.keys.Nodup) :
    (sortNodes mol).1.keys.Perm (List.range mol.atoms.length) := sortNodes_keys mol h

/-- … ordered by coarse-node membership, ties broken by the pre-sort key: so without shared atoms
    the atoms of coarse node k (hydrogens inherit their parent's membership, C09) come after all atoms
    of smaller coarse nodes and before all atoms of larger ones — one contiguous block each -/
theorem C12_monotone (mol : Mol) (h : mol.keys.Nodup) (a b : Atom) (ha : a ∈ mol.atoms) (hb : b ∈ mol.atoms)
    (hlt : sortKeyLt (a.fragid, a.key) (b.fragid, b.key) = true) :
    (sortOrder mol).idxOf a.key < (sortOrder mol).idxOf b.key := sortNodes_monotone mol h a b ha hb hlt

/-- in particular: membership `[k]` before membership `[k']` whenever `k < k'` -/
theorem C12_blocks (mol : Mol) (h : mol.keys.Nodup) (a b : Atom) (ha : a ∈ mol.atoms) (hb : b ∈ mol.atoms)
    (k k' : Nat) (hka : a.fragid = [k]) (hkb : b.fragid = [k']) (hlt : k < k') :
    (sortOrder mol).idxOf a.key < (sortOrder mol).idxOf b.key := by
  apply sortNodes_monotone mol h a b ha hb
  simp [sortKeyLt, hka, hkb, lexLt, hlt]

/-- renumbering changes nothing but the key (node attributes, iteration order) -/
theorem C12_attrs (mol : Mol) :
    (sortNodes mol).1.atoms.map (fun a => { a with key := 0 }) = mol.atoms.map (fun a => { a with key := 0 }) :=
  sortNodes_attrs mol

/-- edges are carried over endpoint-wise by the same relabeling -/
theorem C12_edges (mol : Mol) :
    (sortNodes mol).1.edges = mol.edges.map fun e =>
      { e with a := (sortOrder mol).idxOf e.a, b := (sortOrder mol).idxOf e.b } := rfl

theorem natStr_injective {i j : Nat} (h : natStr i = natStr j) : i = j := by
  unfold natStr at h
  have h' : toString i = toString j := String.toList_inj.mp h
  exact Nat.repr_injective h'

/-- atom names are element + running index; two atoms of one coarse node with the same element get
    different names because their indices differ -/
theorem C12_names_distinct (el : Str) (i j : Nat) (h : el ++ natStr i = el ++ natStr j) : i = j :=
  natStr_injective (List.append_cancel_left h)

/-- one naming step writes `element ++ index` on the addressed atom and touches no other -/
theorem C12_name_step (m : Mol) (k : Key) (i : Nat) (a : Atom) (ha : a ∈ m.atoms) :
    ({ a with atomname := if a.key == k then a.element ++ natStr i else a.atomname } : Atom) ∈
      (m.updAtom k fun a => { a with atomname := a.element ++ natStr i }).atoms := by
  unfold Mol.updAtom
  simp only [List.mem_map]
  refine ⟨a, ha, ?_⟩
  by_cases h : a.key == k <;> simp [h]

/-! non-vacuity / worked instance -/
example : (sortNodes { atoms := [{ key := 5, fragid := [1] }, { key := 7, fragid := [0] }, { key := 9, fragid := [0, 1] }],
                        edges := [⟨5, 7, 2, none⟩] }).1.keys = [2, 0, 1] := by decide +kernel

end CGV.C12
