/-
  The graph of a tree as the writer sees it (pre-order numbering, `dfs_successors` from the root), and
  the proof that it holds the tree's tables (`EmbT`): with it the tree theorems of C07Tree hold without
  hypotheses about the graph.
-/
import CGV.Props.C07Tree
namespace CGV.C07
open CGV Gen C04
set_option linter.unusedSimpArgs false

mutual
def nodesT (k : Nat) : RT → List WNode
  | .node nm ks => ⟨k, nodeText nm, [], false⟩ :: nodesK (k + 1) ks
def nodesK (k : Nat) : Kids → List WNode
  | .nil => []
  | .cons _ t r => nodesT k t ++ nodesK (k + t.size) r
end

mutual
def edgesT (k : Nat) : RT → List WEdge
  | .node _ ks => edgesK k (k + 1) ks
def edgesK (p k : Nat) : Kids → List WEdge
  | .nil => []
  | .cons o t r => ⟨p, k, 2 * o⟩ :: (edgesT k t ++ edgesK p (k + t.size) r)
end

def succEntry (k : Nat) (ks : Kids) : List (Nat × List Nat) :=
  match kidKeys (k + 1) ks with
  | [] => []
  | l => [(k, l.reverse)]

mutual
def succT (k : Nat) : RT → List (Nat × List Nat)
  | .node _ ks => succEntry k ks ++ succK (k + 1) ks
def succK (k : Nat) : Kids → List (Nat × List Nat)
  | .nil => []
  | .cons _ t r => succT k t ++ succK (k + t.size) r
end

/-- the tree as a graph for the writer -/
def graphOfTree (T : RT) : WGraph :=
  { nodes := nodesT 0 T, edges := edgesT 0 T, succ := succT 0 T, ringEdges := [], smilesFormat := false }

/-! ### ranges -/

mutual
theorem nodesT_range : ∀ (T : RT) (k : Nat) (w : WNode), w ∈ nodesT k T → k ≤ w.key ∧ w.key < k + T.size ∧ w.aromatic = false
  | .node nm ks, k, w, h => by
    simp only [nodesT, List.mem_cons] at h
    simp only [RT.size]
    rcases h with rfl | h
    · refine ⟨Nat.le_refl _, ?_, rfl⟩
      show k < k + (1 + ks.size)
      omega
    · have := nodesK_range ks (k + 1) w h
      exact ⟨by omega, by omega, this.2.2⟩
theorem nodesK_range : ∀ (ks : Kids) (k : Nat) (w : WNode), w ∈ nodesK k ks → k ≤ w.key ∧ w.key < k + ks.size ∧ w.aromatic = false
  | .nil, k, w, h => by simp [nodesK] at h
  | .cons o t r, k, w, h => by
    simp only [nodesK, List.mem_append] at h
    simp only [Kids.size]
    rcases h with h | h
    · have := nodesT_range t k w h
      exact ⟨this.1, by omega, this.2.2⟩
    · have := nodesK_range r (k + t.size) w h
      exact ⟨by omega, by omega, this.2.2⟩
end

mutual
theorem nodesT_length : ∀ (T : RT) (k : Nat), (nodesT k T).length = T.size
  | .node nm ks, k => by simp [nodesT, RT.size, nodesK_length ks (k + 1)]; omega
theorem nodesK_length : ∀ (ks : Kids) (k : Nat), (nodesK k ks).length = ks.size
  | .nil, k => rfl
  | .cons o t r, k => by simp [nodesK, Kids.size, nodesT_length t k, nodesK_length r (k + t.size)]
end

mutual
/-- entries of the successor table of a subtree: keys inside the block, listed nodes strictly inside -/
theorem succT_range : ∀ (T : RT) (k : Nat) (e : Nat × List Nat), e ∈ succT k T →
    k ≤ e.1 ∧ e.1 < k + T.size ∧ ∀ s ∈ e.2, k < s ∧ s < k + T.size
  | .node nm ks, k, e, h => by
    simp only [succT, List.mem_append] at h
    simp only [RT.size]
    rcases h with h | h
    · unfold succEntry at h
      split at h
      · simp at h
      · simp only [List.mem_singleton] at h
        subst h
        refine ⟨Nat.le_refl _, by omega, ?_⟩
        intro s hs
        have hsl : s ∈ kidKeys (k + 1) ks := List.mem_reverse.mp hs
        have := kidKeys_range ks (k + 1) s hsl
        omega
    · have := succK_range ks (k + 1) e h
      refine ⟨by omega, by omega, ?_⟩
      intro s hs
      have := this.2.2 s hs
      omega
theorem succK_range : ∀ (ks : Kids) (k : Nat) (e : Nat × List Nat), e ∈ succK k ks →
    k ≤ e.1 ∧ e.1 < k + ks.size ∧ ∀ s ∈ e.2, k < s ∧ s < k + ks.size
  | .nil, k, e, h => by simp [succK] at h
  | .cons o t r, k, e, h => by
    simp only [succK, List.mem_append] at h
    simp only [Kids.size]
    rcases h with h | h
    · have := succT_range t k e h
      refine ⟨this.1, by omega, ?_⟩
      intro s hs
      have := this.2.2 s hs
      omega
    · have := succK_range r (k + t.size) e h
      refine ⟨by omega, by omega, ?_⟩
      intro s hs
      have := this.2.2 s hs
      omega
end

mutual
theorem edgesT_range : ∀ (T : RT) (k : Nat) (e : WEdge), e ∈ edgesT k T → e.a < e.b ∧ k < e.b ∧ e.b < k + T.size
  | .node nm ks, k, e, h => by
    simp only [edgesT] at h
    have := edgesK_range ks k (k + 1) e (by omega) h
    simp only [RT.size]
    omega
theorem edgesK_range : ∀ (ks : Kids) (p k : Nat) (e : WEdge), p < k → e ∈ edgesK p k ks → e.a < e.b ∧ k ≤ e.b ∧ e.b < k + ks.size
  | .nil, p, k, e, _, h => by simp [edgesK] at h
  | .cons o t r, p, k, e, hp, h => by
    simp only [edgesK, List.mem_cons, List.mem_append] at h
    have hs := RT.size_pos t
    simp only [Kids.size]
    rcases h with rfl | h | h
    · simp only; omega
    · have := edgesT_range t k e h
      omega
    · have := edgesK_range r p (k + t.size) e (by omega) h
      omega
end

/-! ### list lookups past blocks that cannot match -/

theorem find_skip {α : Type} (q : α → Bool) (A L : List α) (h : ∀ w ∈ A, q w = false) : (A ++ L).find? q = L.find? q := by
  induction A with
  | nil => rfl
  | cons a as ih =>
    have ha := h a List.mem_cons_self
    simp only [List.cons_append, List.find?_cons, ha]
    exact ih (fun w hw => h w (List.mem_cons_of_mem _ hw))

theorem lookup_skip {β : Type} (A L : List (Nat × β)) (k : Nat) (h : ∀ e ∈ A, e.1 ≠ k) : (A ++ L).lookup k = L.lookup k := by
  induction A with
  | nil => rfl
  | cons a as ih =>
    obtain ⟨a1, a2⟩ := a
    have ha : (k == a1) = false := by
      have := h (a1, a2) List.mem_cons_self
      simp only [beq_eq_false_iff_ne, ne_eq]; exact fun e => this e.symm
    simp only [List.cons_append, List.lookup_cons, ha]
    exact ih (fun e he => h e (List.mem_cons_of_mem _ he))

theorem lookup_none_of {β : Type} (L : List (Nat × β)) (k : Nat) (h : ∀ e ∈ L, e.1 ≠ k) : L.lookup k = none := by
  have := lookup_skip L [] k h
  simpa using this

def predF (x : Nat × List Nat) : List (Nat × Nat) := x.2.map fun s => (s, x.1)

theorem predOf_eq (g : WGraph) : predOf g = g.succ.flatMap predF := rfl

theorem pred_skip (A L : List (Nat × List Nat)) (c : Nat) (h : ∀ e ∈ A, c ∉ e.2) :
    ((A ++ L).flatMap predF).lookup c = (L.flatMap predF).lookup c := by
  rw [List.flatMap_append]
  apply lookup_skip
  intro e he
  obtain ⟨x, hx, hex⟩ := List.mem_flatMap.mp he
  unfold predF at hex
  obtain ⟨s, hs, rfl⟩ := List.mem_map.mp hex
  exact fun e' => h x hx (e' ▸ hs)

theorem pred_hit (p : Nat) (l : List Nat) (R : List (Nat × List Nat)) (c : Nat) (hc : c ∈ l) :
    (((p, l) :: R).flatMap predF).lookup c = some p := by
  simp only [List.flatMap_cons, predF]
  induction l with
  | nil => simp at hc
  | cons x xs ih =>
    by_cases hx : c = x
    · subst hx; simp [List.lookup]
    · have hb : (c == x) = false := by simpa using hx
      simp only [List.map_cons, List.cons_append, List.lookup_cons, hb]
      exact ih (by simpa [hx] using hc)

theorem arom_false (g : WGraph) (harom : ∀ w ∈ g.nodes, w.aromatic = false) (k : Nat) : g.aromatic k = false := by
  unfold WGraph.aromatic WGraph.node?
  cases h : g.nodes.find? (·.key == k) with
  | none => rfl
  | some w => simp [harom w (List.mem_of_find?_eq_some h)]

/-- the bond symbol of an edge that the edge table holds at a position nothing before it can shadow -/
theorem edgeSymbol_block (g : WGraph) (harom : ∀ w ∈ g.nodes, w.aromatic = false) (Ae R : List WEdge) (p k o : Nat)
    (hedges : g.edges = Ae ++ (⟨p, k, 2 * o⟩ :: R)) (hAe : ∀ e ∈ Ae, e.a < e.b ∧ e.b < k) (hpk : p < k) (ho : o ≤ 4) :
    edgeSymbol g p k = .ok (symText o) := by
  have hord : g.order2? p k = some (2 * o) := by
    unfold WGraph.order2?
    rw [hedges, find_skip _ Ae _ (by
      intro e he
      obtain ⟨h1, h2⟩ := hAe e he
      have n1 : (e.b == k) = false := by simp only [beq_eq_false_iff_ne, ne_eq]; omega
      have n2 : (e.a == k) = false := by simp only [beq_eq_false_iff_ne, ne_eq]; omega
      simp [n1, n2])]
    simp
  have ha1 := arom_false g harom p
  have ha2 := arom_false g harom k
  by_cases h1 : o = 1
  · have : symText o = [] := by rw [h1]; decide +kernel
    rw [this]
    exact C07_single_bond_silent _ _ _ (by rw [hord, h1]) (by rw [ha1]; rfl)
  · obtain ⟨c, hc1, _, hc3⟩ := C07_symbols_inverse o ho h1
    have hne : (2 * o == 2) = false := by simp only [beq_eq_false_iff_ne, ne_eq]; omega
    simp [edgeSymbol, writeEdgeSymbol, hord, ha1, ha2, hne, hc1, hc3, pyGet, bind, Except.bind, pure, Except.pure]

/-! ### the graph holds the tree's tables -/

theorem kidKeys_mem_lt (ks : Kids) (k s : Nat) (h : s ∈ kidKeys k ks) : k ≤ s ∧ s < k + ks.size := kidKeys_range ks k s h

mutual
theorem embT_block (g : WGraph) (harom : ∀ w ∈ g.nodes, w.aromatic = false) :
    ∀ (T : RT) (k : Nat) (An Bn : List WNode) (As Bs : List (Nat × List Nat)) (Ae Be : List WEdge),
    OkT T →
    g.nodes = An ++ (nodesT k T ++ Bn) → (∀ w ∈ An, w.key < k) →
    g.succ = As ++ (succT k T ++ Bs) → (∀ e ∈ As, e.1 < k ∧ ∀ s ∈ e.2, s ≤ k ∨ k + T.size ≤ s) → (∀ e ∈ Bs, k + T.size ≤ e.1) →
    g.edges = Ae ++ (edgesT k T ++ Be) → (∀ e ∈ Ae, e.a < e.b ∧ e.b ≤ k) →
    EmbT g (predOf g) k T
  | .node nm ks, k, An, Bn, As, Bs, Ae, Be, hok, hn, hAn, hs, hAs, hBs, he, hAe => by
    unfold OkT at hok
    unfold EmbT
    refine ⟨?_, ?_, ?_⟩
    · -- the node table
      unfold WGraph.node?
      rw [hn, find_skip _ An _ (by
        intro w hw
        have := hAn w hw
        simp only [beq_eq_false_iff_ne, ne_eq]; omega)]
      simp [nodesT]
    · -- the successor table
      rw [hs, lookup_skip As _ k (by intro e he; have := (hAs e he).1; omega)]
      simp only [succT, succEntry]
      cases hkk : kidKeys (k + 1) ks with
      | nil =>
        simp only [List.nil_append]
        apply lookup_none_of
        intro e he
        rcases List.mem_append.mp he with he | he
        · have := (succK_range ks (k + 1) e he).1; omega
        · have := hBs e he; simp only [RT.size] at this; omega
      | cons x xs => simp [List.lookup]
    · -- the kids
      cases ks with
      | nil => unfold EmbK; trivial
      | cons o t r =>
        have hse : succEntry k (Kids.cons o t r) = [(k, (kidKeys (k + 1) (Kids.cons o t r)).reverse)] := by
          simp [succEntry, kidKeys]
        apply embK_block g harom (Kids.cons o t r) k (k + 1) (An ++ [⟨k, nodeText nm, [], false⟩]) Bn As
          ((kidKeys (k + 1) (Kids.cons o t r)).reverse) [] Bs Ae Be hok.2 (by omega)
        · rw [hn]; simp [nodesT]
        · intro w hw
          rcases List.mem_append.mp hw with hw | hw
          · have := hAn w hw; omega
          · simp only [List.mem_singleton] at hw; rw [hw]; simp
        · rw [hs]; simp [succT, hse]
        · intro e he
          obtain ⟨h1, h2⟩ := hAs e he
          refine ⟨by omega, ?_⟩
          intro s hs'
          have := h2 s hs'
          simp only [RT.size] at this
          omega
        · intro s hs'; exact List.mem_reverse.mpr hs'
        · intro s hs'; right; right; exact List.mem_reverse.mp hs'
        · intro e he; cases he
        · intro e he; have := hBs e he; simp only [RT.size] at this; omega
        · rw [he]; simp [edgesT]
        · intro e he; have := hAe e he; omega
theorem embK_block (g : WGraph) (harom : ∀ w ∈ g.nodes, w.aromatic = false) :
    ∀ (ks : Kids) (p k : Nat) (An Bn : List WNode) (As1 : List (Nat × List Nat)) (L : List Nat)
      (As2 Bs : List (Nat × List Nat)) (Ae Be : List WEdge),
    OkK ks → p < k →
    g.nodes = An ++ (nodesK k ks ++ Bn) → (∀ w ∈ An, w.key < k) →
    g.succ = (As1 ++ (p, L) :: As2) ++ (succK k ks ++ Bs) →
    (∀ e ∈ As1, e.1 < k ∧ ∀ s ∈ e.2, s < k ∨ k + ks.size ≤ s) →
    (∀ s ∈ kidKeys k ks, s ∈ L) → (∀ s ∈ L, s < k ∨ k + ks.size ≤ s ∨ s ∈ kidKeys k ks) →
    (∀ e ∈ As2, e.1 < k ∧ ∀ s ∈ e.2, s < k ∨ k + ks.size ≤ s) → (∀ e ∈ Bs, k + ks.size ≤ e.1) →
    g.edges = Ae ++ (edgesK p k ks ++ Be) → (∀ e ∈ Ae, e.a < e.b ∧ e.b < k) →
    EmbK g (predOf g) p k ks
  | .nil, _, _, _, _, _, _, _, _, _, _, _, _, _, _, _, _, _, _, _, _, _, _ => by unfold EmbK; trivial
  | .cons o t r, p, k, An, Bn, As1, L, As2, Bs, Ae, Be, hok, hpk, hn, hAn, hs, hA1, hL, hL2, hA2, hBs, he, hAe => by
    unfold OkK at hok
    have hts := RT.size_pos t
    unfold EmbK
    refine ⟨?_, ?_, ?_, ?_⟩
    · -- the predecessor of the kid is the parent
      rw [predOf_eq, hs, List.append_assoc, pred_skip As1 _ k (by
        intro e he hk
        have := (hA1 e he).2 k hk
        simp only [Kids.size] at this
        omega)]
      rw [List.cons_append]
      exact pred_hit p L _ k (hL k (by simp [kidKeys]))
    · -- the symbol of the bond to the kid
      exact edgeSymbol_block g harom Ae (edgesT k t ++ (edgesK p (k + t.size) r ++ Be)) p k o
        (by rw [he]; simp [edgesK]) hAe hpk hok.1
    · -- the kid's subtree
      apply embT_block g harom t k An (nodesK (k + t.size) r ++ Bn) (As1 ++ (p, L) :: As2) (succK (k + t.size) r ++ Bs)
        (Ae ++ [⟨p, k, 2 * o⟩]) (edgesK p (k + t.size) r ++ Be) hok.2.1
      · rw [hn]; simp [nodesK]
      · exact hAn
      · rw [hs]; simp [succK]
      · intro e hmem
        rcases List.mem_append.mp hmem with hmem | hmem
        · obtain ⟨h1, h2⟩ := hA1 e hmem
          refine ⟨h1, fun s hs' => ?_⟩
          have := h2 s hs'; simp only [Kids.size] at this; omega
        · rcases List.mem_cons.mp hmem with rfl | hmem
          · refine ⟨hpk, fun s hs' => ?_⟩
            rcases hL2 s hs' with h | h | h
            · omega
            · simp only [Kids.size] at h; omega
            · simp only [kidKeys, List.mem_cons] at h
              rcases h with rfl | h
              · omega
              · have := kidKeys_range r (k + t.size) s h; omega
          · obtain ⟨h1, h2⟩ := hA2 e hmem
            refine ⟨h1, fun s hs' => ?_⟩
            have := h2 s hs'; simp only [Kids.size] at this; omega
      · intro e hmem
        rcases List.mem_append.mp hmem with hmem | hmem
        · have := (succK_range r (k + t.size) e hmem).1; omega
        · have := hBs e hmem; simp only [Kids.size] at this; omega
      · rw [he]; simp [edgesK]
      · intro e hmem
        rcases List.mem_append.mp hmem with hmem | hmem
        · have := hAe e hmem; omega
        · simp only [List.mem_singleton] at hmem; rw [hmem]; simp only; omega
    · -- the later kids
      apply embK_block g harom r p (k + t.size) (An ++ nodesT k t) Bn As1 L (As2 ++ succT k t) Bs
        (Ae ++ ⟨p, k, 2 * o⟩ :: edgesT k t) Be hok.2.2 (by omega)
      · rw [hn]; simp [nodesK]
      · intro w hw
        rcases List.mem_append.mp hw with hw | hw
        · have := hAn w hw; omega
        · have := (nodesT_range t k w hw).2.1; omega
      · rw [hs]; simp [succK]
      · intro e hmem
        obtain ⟨h1, h2⟩ := hA1 e hmem
        refine ⟨by omega, fun s hs' => ?_⟩
        have := h2 s hs'; simp only [Kids.size] at this; omega
      · intro s hs'; exact hL s (by simp [kidKeys, hs'])
      · intro s hs'
        rcases hL2 s hs' with h | h | h
        · left; omega
        · right; left; simp only [Kids.size] at h; omega
        · simp only [kidKeys, List.mem_cons] at h
          rcases h with rfl | h
          · left; omega
          · right; right; exact h
      · intro e hmem
        rcases List.mem_append.mp hmem with hmem | hmem
        · obtain ⟨h1, h2⟩ := hA2 e hmem
          refine ⟨by omega, fun s hs' => ?_⟩
          have := h2 s hs'; simp only [Kids.size] at this; omega
        · have := succT_range t k e hmem
          refine ⟨by omega, fun s hs' => ?_⟩
          have := this.2.2 s hs'; omega
      · intro e hmem; have := hBs e hmem; simp only [Kids.size] at this; omega
      · rw [he]; simp [edgesK]
      · intro e hmem
        rcases List.mem_append.mp hmem with hmem | hmem
        · have := hAe e hmem; omega
        · rcases List.mem_cons.mp hmem with rfl | hmem
          · simp only; omega
          · have := edgesT_range t k e hmem; omega
end

/-! ### the closed theorems -/

theorem graphOfTree_arom (T : RT) : ∀ w ∈ (graphOfTree T).nodes, w.aromatic = false :=
  fun w hw => (nodesT_range T 0 w hw).2.2

theorem graphOfTree_emb (T : RT) (hok : OkT T) : EmbT (graphOfTree T) (predOf (graphOfTree T)) 0 T := by
  apply embT_block (graphOfTree T) (graphOfTree_arom T) T 0 [] [] [] [] [] [] hok
  · simp [graphOfTree]
  · intro w hw; cases hw
  · simp [graphOfTree]
  · intro e he; cases he
  · intro e he; cases he
  · simp [graphOfTree]
  · intro e he; cases he

theorem graphOfTree_root (T : RT) : (predOf (graphOfTree T)).lookup 0 = none := by
  rw [predOf_eq]
  apply lookup_none_of
  intro e he
  obtain ⟨x, hx, hex⟩ := List.mem_flatMap.mp he
  unfold predF at hex
  obtain ⟨s, hs, rfl⟩ := List.mem_map.mp hex
  have := (succT_range T 0 x hx).2.2 s hs
  simp only
  omega

/-- **the writer on every tree**: no hypothesis about the graph is left -/
theorem C07_tree_text (T : RT) (hok : OkT T) : writeGraph (graphOfTree T) = .ok T.text := by
  apply writeGraph_tree (graphOfTree T) T rfl rfl (graphOfTree_emb T hok) (graphOfTree_root T)
  · cases T with
    | node nm ks => exact ⟨(nodesK 1 ks).map (·.key), by simp [graphOfTree, nodesT]⟩
  · simp [graphOfTree, nodesT_length]

/-- **C07 for trees, closed.** For every tree — any branching, any depth, any size, alphanumeric names,
    bond orders 0–4 — numbered in the writer's visiting order: writing its graph and reading the string
    back gives the graph that the nested text denotes (`treeGraph`: every node bonded, with the written
    order, to the node at which its branch was opened or to the node in front of it). -/
theorem C07_tree_roundtrip_closed (first : Str) (ks : Kids) (hok : OkT (.node first ks)) :
    (writeCG (graphOfTree (.node first ks))).bind readCG = .ok (treeGraph first (itemsK false ks)) := by
  apply C07_tree_roundtrip (graphOfTree (.node first ks)) first ks rfl rfl
    (graphOfTree_emb _ hok) (graphOfTree_root _) ⟨(nodesK 1 ks).map (·.key), by simp [graphOfTree, nodesT]⟩
    (by simp [graphOfTree, nodesT_length]) hok

end CGV.C07
