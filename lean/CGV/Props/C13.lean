/-
  C13 — bonding descriptors are separated from fragment text exactly.

  Model: `strip` / `stripAux` / `stripStep` (CGV.Model.Strip) = strip_bonding_descriptors with its
  PeekIter and ring-number collection.  Proved for descriptor lists of any length, any kinds/labels and
  orders 0-4 written after an atom; the position-generic statement ("after any atom of any fragment
  text") is validated by the correspondence + oracle on generated fragment texts (partial).
-/
import CGV.Lemmas.Bonding
namespace CGV.C13
open CGV Gen

/-- one-letter atoms of the organic subset (and their aromatic forms) -/
def plainAtoms : List Char := ['C', 'N', 'O', 'S', 'P', 'F', 'B', 'I', 'c', 'n', 'o', 's']

/-- what the loop does with a plain atom that is followed by a descriptor or a bond symbol -/
theorem atom_step (e : Char) (he : e ∈ plainAtoms) (next : Char) (hn : next ∈ ['[', '.', '=', '#', '$'])
    (rest : Str) (st : StripState) :
    stripStep e (next :: rest) st = .ok (next :: rest,
      { st with smile := st.smile ++ [e], currentOrder := none, prevNode := st.nodeCount, nodeCount := st.nodeCount + 1 }) := by
  have key : ∀ e ∈ plainAtoms, ∀ c ∈ ['[', '.', '=', '#', '$'],
      (e == '[') = false ∧ (e == '(') = false ∧ (e == ')') = false ∧ bondToOrder2.lookup e = none ∧
      (e == '%' || e.isDigit) = false ∧ pyStrIn [e] passThroughChars = false ∧ pyStrIn [e] ezChars = false ∧
      twoLetterElements.contains [e, c] = false := by decide +kernel
  obtain ⟨h1, h2, h3, h4, h5, h6, h7, h8⟩ := key e he next hn
  have h8' : ¬ [e, next] ∈ twoLetterElements := by simpa using h8
  simp [stripStep, h1, h2, h3, h4, h5, h6, h7, h8', pure, Except.pure]

theorem fmt_head (d : WFDesc) : ∃ c rest, d.fmt = c :: rest ∧ c ∈ ['[', '.', '=', '#', '$'] := by
  have ho := d.ho
  have : d.o = 0 ∨ d.o = 1 ∨ d.o = 2 ∨ d.o = 3 ∨ d.o = 4 := by omega
  have f0 : orderSym 0 = ['.'] := by decide +kernel
  have f1 : orderSym 1 = [] := by decide +kernel
  have f2 : orderSym 2 = ['='] := by decide +kernel
  have f3 : orderSym 3 = ['#'] := by decide +kernel
  have f4 : orderSym 4 = ['$'] := by decide +kernel
  rcases this with h | h | h | h | h <;> simp [WFDesc.fmt, h, f0, f1, f2, f3, f4]

theorem fmt_length (d : WFDesc) : 2 ≤ d.fmt.length := by
  simp [WFDesc.fmt, WFDesc.kl]; omega

theorem flat_length (ds : List WFDesc) : 2 * ds.length ≤ (ds.flatMap (·.fmt)).length := by
  induction ds with
  | nil => simp
  | cons d ds ih => simp only [List.flatMap_cons, List.length_append, List.length_cons]; have := fmt_length d; omega

/-- C13 for descriptors written after an atom: any number of descriptors (all four kinds, any label,
    orders 0-4 through the bond symbol written before the bracket) after a plain atom — the clean
    text is the atom alone (symbols that belong to descriptors are removed), every descriptor is
    reported on that atom, in order, with its order; whatever text follows is processed from exactly
    that state. -/
theorem C13_descriptors_after_atom (e : Char) (he : e ∈ plainAtoms) (ds : List WFDesc) (hne : ds ≠ []) (tail : Str)
    (hascii : ((e :: (ds.flatMap (·.fmt) ++ tail)).any fun c => decide (c.toNat > 127)) = false) :
    ∃ fuel' st1, tail.length + 1 ≤ fuel' ∧
      strip (e :: (ds.flatMap (·.fmt) ++ tail)) =
        (stripAux fuel' tail st1).map (fun st => ⟨st.smile, st.bonding, st.ez, st.attrs⟩) ∧
      st1.smile = [e] ∧ st1.bonding.lookup 0 = some (ds.map (·.text)) ∧ st1.ez = [] ∧ st1.attrs = [] ∧
      st1.nodeCount = 1 ∧ st1.prevNode = 0 ∧ st1.currentOrder = none ∧ st1.anchor = [] := by
  obtain ⟨d0, ds', rfl⟩ : ∃ d0 ds', ds = d0 :: ds' := by
    cases ds with
    | nil => exact absurd rfl hne
    | cons d ds' => exact ⟨d, ds', rfl⟩
  obtain ⟨c, r, hfmt, hc⟩ := fmt_head d0
  let st0 : StripState := { smile := [e], nodeCount := 1, prevNode := 0, currentOrder := none }
  have hflat := flat_length (d0 :: ds')
  -- fuel bookkeeping: |text| + 1 = 1 (atom) + (k + 2n) with k ≥ |tail| + 1
  have hsplit : (e :: ((d0 :: ds').flatMap (·.fmt) ++ tail)).length + 1 =
      ((((d0 :: ds').flatMap (·.fmt)).length - 2 * (d0 :: ds').length + tail.length + 1) + 2 * (d0 :: ds').length) + 1 := by
    rw [List.length_cons, List.length_append]
    generalize ((d0 :: ds').flatMap (·.fmt)).length = L at hflat ⊢
    generalize (d0 :: ds').length = n at hflat ⊢
    omega
  obtain ⟨fuel', hle, hrun⟩ := stripAux_descs tail (d0 :: ds') st0
    (((d0 :: ds').flatMap (·.fmt)).length - 2 * (d0 :: ds').length + tail.length + 1)
    (by show (1 : Nat) ≠ 0; decide) rfl
  refine ⟨fuel', (d0 :: ds').foldl afterDesc st0, by omega, ?_, ?_⟩
  · unfold strip
    simp only [hascii, Bool.false_eq_true, if_false, hsplit]
    rw [stripAux]
    have hstep := atom_step e he c hc (r ++ (ds'.flatMap (·.fmt) ++ tail)) {}
    have htext : (d0 :: ds').flatMap (·.fmt) ++ tail = c :: (r ++ (ds'.flatMap (·.fmt) ++ tail)) := by
      simp [List.flatMap_cons, hfmt]
    rw [htext, hstep]
    simp only [bind, Except.bind]
    rw [← htext]
    have hst : ({ smile := ([] : Str) ++ [e], currentOrder := none, prevNode := 0, nodeCount := 0 + 1 } : StripState) = st0 := rfl
    simp only [List.nil_append] at hst ⊢
    rw [hrun]
    cases stripAux fuel' tail ((d0 :: ds').foldl afterDesc st0) <;> rfl
  · have hf := foldl_afterDesc_fields (d0 :: ds') st0
    have hb := foldl_afterDesc_bonding (d0 :: ds') st0 (by simp)
    exact ⟨hf.2.2.2.1, by simpa [st0, List.lookup] using hb, hf.2.2.2.2.1, hf.2.2.2.2.2, hf.1, hf.2.2.1, hf.2.1, by
      have : ∀ (l : List WFDesc) (s : StripState), (l.foldl afterDesc s).anchor = s.anchor := by
        intro l; induction l with
        | nil => intro s; rfl
        | cons x xs ih => intro s; simp only [List.foldl_cons]; exact ih _
      exact this _ _⟩

/-- closed form when nothing follows: `C[$a]=[$b]` ↦ clean text `C`, descriptors `$a1`, `$b2` on atom 0 -/
theorem C13_descriptors_at_end (e : Char) (he : e ∈ plainAtoms) (ds : List WFDesc) (hne : ds ≠ [])
    (hascii : ((e :: (ds.flatMap (·.fmt) ++ [])).any fun c => decide (c.toNat > 127)) = false) :
    ∃ out, strip (e :: ds.flatMap (·.fmt)) = .ok out ∧ out.smile = [e] ∧
      out.bonding.lookup 0 = some (ds.map (·.text)) ∧ out.ez = [] ∧ out.attrs = [] := by
  obtain ⟨fuel', st1, hle, hs, h1, h2, h3, h4, _⟩ := C13_descriptors_after_atom e he ds hne [] hascii
  simp only [List.append_nil] at hs
  have : stripAux fuel' [] st1 = .ok st1 := by cases fuel' <;> rfl
  rw [this] at hs
  exact ⟨_, hs, h1, h2, h3, h4⟩

/-! worked instances: the repository's own test strings, by kernel evaluation of the model -/
example : (strip "[$]COC[$]".toList).map (fun o => (o.smile, o.bonding)) =
    .ok ("COC".toList, [(0, ["$1".toList]), (2, ["$1".toList])]) := by decide +kernel
example : (strip "CC=[$a]=[$b]CC".toList).map (fun o => (o.smile, o.bonding)) =
    .ok ("CCCC".toList, [(1, ["$a2".toList, "$b2".toList])]) := by decide +kernel
example : (strip "[$]CC1[$]CCC1".toList).map (fun o => (o.smile, o.bonding)) =
    .ok ("CC1CCC1".toList, [(0, ["$1".toList]), (1, ["$1".toList])]) := by decide +kernel
example : (strip "C=1[$]CC1".toList).map (fun o => (o.smile, o.bonding)) =
    .ok ("C=1CC1".toList, [(0, ["$1".toList])]) := by decide +kernel
example : (strip "C.[$]C".toList).map (fun o => (o.smile, o.bonding)) =
    .ok ("CC".toList, [(0, ["$0".toList])]) := by decide +kernel
example : (strip "C(COC[$1])[$2]CCC[$3]".toList).map (fun o => (o.smile, o.bonding)) =
    .ok ("C(COC)CCC".toList, [(3, ["$11".toList]), (0, ["$21".toList]), (6, ["$31".toList])]) := by decide +kernel

end CGV.C13
