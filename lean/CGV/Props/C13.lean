import CGV.Model.Strip
namespace CGV.C13
end CGV.C13
