/-
  C13, leading descriptors: descriptors written BEFORE the first atom (`[$]CC…`, `[>a]=[<]C…`, the order symbol
  following the bracket) are reported on the first atom, in the order written, with their order; the rest of
  the text is separated as `C13_tokens` says.
-/
import CGV.Props.C13Tokens
namespace CGV.C13
open CGV Gen
set_option linter.unusedSimpArgs false

/-- a leading descriptor as written: `[kind label]` followed by the order symbol (none for a single bond) -/
def leadText (d : WFDesc) : Str := '[' :: (d.kl ++ ']' :: orderSym d.o)

def noBondHead (s : Str) : Prop := ∀ c ∈ s.head?, bondToOrder2.lookup c = none

/-- one loop iteration reads one leading descriptor (bracket and order symbol together) -/
theorem lead_step (d : WFDesc) (rest : Str) (st : StripState) (hn : st.nodeCount = 0) (hc : st.currentOrder = none)
    (hrest : noBondHead rest) :
    stripStep '[' (d.kl ++ ']' :: (orderSym d.o ++ rest)) st = .ok (rest, afterDesc st d) := by
  have hk : descriptorKinds.contains d.kind = true := d.hkind
  have htb : ∀ r, takeBracket (d.label ++ ']' :: r) = some (d.label, r) := fun r => takeBracket_label d.label r d.hlabel
  have hot := orderText_digit d.o d.ho
  have ho := d.ho
  have hn0 : (st.nodeCount == 0) = true := by simp [hn]
  have cases5 : d.o = 0 ∨ d.o = 1 ∨ d.o = 2 ∨ d.o = 3 ∨ d.o = 4 := by omega
  have symcase : ∀ (c : Char), orderSym d.o = [c] → bondToOrder2.lookup c = some (2 * d.o) →
      stripStep '[' (d.kl ++ ']' :: (orderSym d.o ++ rest)) st = .ok (rest, afterDesc st d) := by
    intro c hsym hlook
    simp only [stripStep, WFDesc.kl, List.cons_append, beq_self_eq_true, if_true, hk, hsym, List.singleton_append, htb,
      hn0, hlook, Option.map_some, pure, Except.pure, afterDesc, WFDesc.text, hot, List.nil_append]
  rcases cases5 with h | h | h | h | h
  · exact symcase '.' (by rw [h]; decide +kernel) (by rw [h]; decide +kernel)
  · have f1 : orderSym 1 = [] := by decide +kernel
    have hot1 : orderText 2 = [digitChar 1] := by decide +kernel
    simp only [stripStep, WFDesc.kl, List.cons_append, beq_self_eq_true, if_true, hk, h, f1, List.nil_append, htb, hn0, hc]
    cases rest with
    | nil => simp [pure, Except.pure, afterDesc, WFDesc.text, WFDesc.kl, h, hot1, hc]
    | cons c r =>
      have := hrest c (by simp)
      simp [this, pure, Except.pure, afterDesc, WFDesc.text, WFDesc.kl, h, hot1, hc]
  · exact symcase '=' (by rw [h]; decide +kernel) (by rw [h]; decide +kernel)
  · exact symcase '#' (by rw [h]; decide +kernel) (by rw [h]; decide +kernel)
  · exact symcase '$' (by rw [h]; decide +kernel) (by rw [h]; decide +kernel)

def leadsText (ls : List WFDesc) : Str := ls.flatMap leadText

theorem leadsText_head (ls : List WFDesc) (rest : Str) (h : noBondHead rest) : noBondHead (leadsText ls ++ rest) := by
  cases ls with
  | nil => simpa [leadsText] using h
  | cons d ds =>
    intro c hc
    simp only [leadsText, List.flatMap_cons, leadText, List.cons_append, List.head?_cons, Option.mem_def,
      Option.some.injEq] at hc
    subst hc; decide +kernel

/-- the loop on the leading descriptors: one iteration each, the state only gains the descriptors -/
theorem stripAux_leads (rest : Str) (hrest : noBondHead rest) : ∀ (ls : List WFDesc) (st : StripState) (fuel : Nat),
    st.nodeCount = 0 → st.currentOrder = none →
    stripAux (fuel + ls.length) (leadsText ls ++ rest) st = stripAux fuel rest (ls.foldl afterDesc st)
  | [], st, fuel, _, _ => by simp [leadsText]
  | d :: ds, st, fuel, hn, hc => by
    have hh := leadsText_head ds rest hrest
    simp only [leadsText, List.flatMap_cons, List.append_assoc, List.length_cons, List.foldl_cons]
    rw [show fuel + (ds.length + 1) = (fuel + ds.length) + 1 from by omega]
    show stripAux _ ('[' :: (d.kl ++ ']' :: orderSym d.o) ++ (List.flatMap leadText ds ++ rest)) st = _
    rw [show '[' :: (d.kl ++ ']' :: orderSym d.o) ++ (List.flatMap leadText ds ++ rest) =
      '[' :: (d.kl ++ ']' :: (orderSym d.o ++ (leadsText ds ++ rest))) from by simp [leadsText]]
    rw [stripAux, lead_step d _ st hn hc hh]
    simp only [bind, Except.bind]
    exact stripAux_leads rest hrest ds (afterDesc st d) fuel hn hc

/-- tokens that start an atom -/
def TK.isAtom : TK → Bool
  | .atom _ => true
  | .atom2 _ _ => true
  | .node _ => true
  | .anode _ _ => true
  | _ => false

theorem atom_noBondHead (t : TK) (ts : List TK) (ht : t.isAtom = true) (hok : t.ok) : noBondHead (render (t :: ts)) := by
  intro c hc
  cases t with
  | atom e =>
    simp only [render, List.flatMap_cons, TK.text, List.cons_append, List.nil_append, List.head?_cons, Option.mem_def,
      Option.some.injEq] at hc
    subst hc
    have : ∀ e ∈ plainAtoms, bondToOrder2.lookup e = none := by decide +kernel
    exact this _ hok
  | atom2 e c' =>
    simp only [render, List.flatMap_cons, TK.text, List.cons_append, List.head?_cons, Option.mem_def,
      Option.some.injEq] at hc
    subst hc
    have : ∀ x ∈ twoLetterElements, bondToOrder2.lookup (x.getD 0 ' ') = none := by decide +kernel
    have h := this _ hok
    simpa using h
  | node i =>
    simp only [render, List.flatMap_cons, TK.text, List.cons_append, List.head?_cons, Option.mem_def,
      Option.some.injEq] at hc
    subst hc; decide +kernel
  | anode a x =>
    simp only [render, List.flatMap_cons, TK.text, List.cons_append, List.head?_cons, Option.mem_def,
      Option.some.injEq] at hc
    subst hc; decide +kernel
  | slash _ => cases ht
  | desc _ => cases ht
  | bond _ => cases ht
  | ring _ => cases ht
  | opn => cases ht
  | cls => cases ht

/-- the descriptors of the first atom that were written in front of it -/
def leadDict (ls : List WFDesc) : List (Nat × List Desc) := ls.foldl (fun b d => appendDesc b 0 d.text) []

theorem foldl_afterDesc_lead (ls : List WFDesc) : ∀ (st : StripState), st.prevNode = 0 →
    (ls.foldl afterDesc st).bonding = ls.foldl (fun b d => appendDesc b 0 d.text) st.bonding ∧
    (ls.foldl afterDesc st).smile = st.smile ∧ (ls.foldl afterDesc st).ez = st.ez ∧ (ls.foldl afterDesc st).attrs = st.attrs ∧
    (ls.foldl afterDesc st).nodeCount = st.nodeCount ∧ (ls.foldl afterDesc st).prevNode = st.prevNode ∧
    (ls.foldl afterDesc st).currentOrder = st.currentOrder ∧ (ls.foldl afterDesc st).anchor = st.anchor := by
  induction ls with
  | nil => intro st _; simp
  | cons d ds ih =>
    intro st hp
    simp only [List.foldl_cons]
    obtain ⟨h1, h2, h3, h4, h5, h6, h7, h8⟩ := ih (afterDesc st d) (by simpa [afterDesc] using hp)
    exact ⟨by rw [h1]; simp [afterDesc, hp], by rw [h2]; rfl, by rw [h3]; rfl, by rw [h4]; rfl, by rw [h5]; rfl,
      by rw [h6]; rfl, by rw [h7]; rfl, by rw [h8]; rfl⟩

theorem leadsText_length (ls : List WFDesc) : ls.length ≤ (leadsText ls).length := by
  induction ls with
  | nil => simp [leadsText]
  | cons d ds ih =>
    simp only [leadsText, List.flatMap_cons, leadText, List.length_append, List.length_cons] at ih ⊢
    omega

/-- **C13 with leading descriptors.**  A fragment text that starts with any number of descriptors (each written as
    `[kind label]` followed by its order symbol), followed by a token stream that starts with an atom: the leading
    descriptors are reported on the first atom, in the order written, in front of the descriptors written after
    that atom; everything else as in `C13_tokens`. -/
theorem C13_leading (ls : List WFDesc) (t : TK) (ts : List TK) (ht : t.isAtom = true) (hv : Valid 0 true 0 (t :: ts))
    (hascii : ((leadsText ls ++ render (t :: ts)).any fun c => decide (c.toNat > 127)) = false) :
    strip (leadsText ls ++ render (t :: ts)) =
      .ok ⟨cleanText (t :: ts), specDict {} (leadDict ls) (t :: ts), specEz0 (t :: ts), specAttrs 0 (t :: ts)⟩ := by
  have hok : t.ok := valid_head_ok (t :: ts) 0 true 0 hv t (by simp)
  have hnb := atom_noBondHead t ts ht hok
  unfold strip
  simp only [hascii, Bool.false_eq_true, if_false]
  have hle := itersT_le (t :: ts) 0 true 0 hv
  have hll := leadsText_length ls
  obtain ⟨f1, f2, f3, f4, f5, f6, f7, f8⟩ := foldl_afterDesc_lead ls ({} : StripState) rfl
  rw [show (leadsText ls ++ render (t :: ts)).length + 1 =
      (((leadsText ls).length - ls.length + ((render (t :: ts)).length - itersT (t :: ts))) + 1 + itersT (t :: ts)) + ls.length from by
    simp only [List.length_append]; omega]
  rw [stripAux_leads (render (t :: ts)) hnb ls {} _ rfl rfl]
  have sim : Sim 0 true 0 (ls.foldl afterDesc ({} : StripState)) := ⟨by rw [f5], fun _ => by rw [f7], by rw [f8]; rfl⟩
  rw [stripAux_tokens (t :: ts) 0 true 0 _ _ hv sim]
  obtain ⟨h1, h2, h3, h4⟩ := fold_fields (t :: ts) true 0 {} (ls.foldl afterDesc ({} : StripState)) hv
    ⟨by rw [f5], by rw [f6], by rw [f8]; rfl⟩ (by rw [f4]; intro q hq; cases hq)
  simp only [bind, Except.bind, pure, Except.pure, h1, h2, h3, h4, f1, f2, f3, f4]
  rfl

/-! worked instance: `[$a][>b]=CC[<]` -/
example : leadsText [dA, dB] ++ render [.atom 'C', .atom 'C', .desc dC] = "[$a][>b]=CC[<]".toList := by decide +kernel
example : specDict {} (leadDict [dA, dB]) [.atom 'C', .atom 'C', .desc dC] =
    [(0, ["$a1".toList, ">b2".toList]), (1, ["<1".toList])] := by decide +kernel

end CGV.C13
