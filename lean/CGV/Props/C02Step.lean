/-
  C02 for every resolution step the model can take: every fine node of a successful step records at
  least one coarse node, only coarse nodes that were instantiated, and is listed under each of them in
  the coarse graph — through instantiation, bond creation, squashing (memberships concatenated),
  the aromaticity patch, hydrogen completion (a new hydrogen takes the membership of its atom), sorting,
  stereo annotation and naming.
-/
import CGV.Props.C12Reach
import CGV.Props.C09
namespace CGV.C02
open CGV Mol C10
set_option linter.unusedSimpArgs false

/-- a membership list that is non-empty and names only coarse nodes of `I` -/
def FragOK (I : List Key) (a : Atom) : Prop := a.fragid ≠ [] ∧ ∀ k ∈ a.fragid, k ∈ I

/-! ### phase A -/

theorem disconnected_fragok (mg : Meta) (fd : FragDict) (m0 : Mol) (inst : List (Key × List Key))
    (h : disconnected mg fd = .ok (m0, inst)) : ∀ a ∈ m0.atoms, FragOK (inst.map (·.1)) a := by
  rw [C11.disconnected_eq] at h
  intro a ha
  obtain ⟨k, hk, e⟩ := C02_fragid_cover mg fd mg.nodes _ (m0, inst) (by simp) h a ha
  exact ⟨by rw [e]; simp, by intro x hx; rw [e] at hx; simp only [List.mem_singleton] at hx; rw [hx]; exact hk⟩

theorem applyCut_fragids (allAtom : Bool) (m m' : Mol) (c : Cut) (h : applyCut allAtom m c = .ok m') :
    m'.atoms.map (fun a => (a.key, a.fragid)) = m.atoms.map (fun a => (a.key, a.fragid)) := by
  unfold applyCut at h
  cases ho : descOrder c.da with
  | error e => rw [ho] at h; simp [bind, Except.bind] at h
  | ok o =>
    rw [ho] at h
    simp only [bind, Except.bind] at h
    have hdec : ∀ (x : Mol) (k : Key),
        (x.updAtom k fun a => if a.isH then a else if a.aromatic || !a.hasArom then { a with hcount2 := a.hcount2 - 3 }
          else { a with hcount2 := a.hcount2 - 2 }).atoms.map (fun a => (a.key, a.fragid)) = x.atoms.map (fun a => (a.key, a.fragid)) := by
      intro x k
      unfold Mol.updAtom
      simp only [List.map_map]
      apply List.map_congr_left
      intro a _
      simp only [Function.comp]
      split
      · split
        · rfl
        · split <;> rfl
      · rfl
    cases allAtom with
    | false =>
      simp only [Bool.false_eq_true, if_false, pure, Except.pure, Except.ok.injEq] at h
      subst h; rw [addEdge_atoms]
    | true =>
      simp only [if_true, pure, Except.pure, Except.ok.injEq] at h
      subst h; rw [hdec, hdec, addEdge_atoms]

theorem connect_fragids (cp : Desc → Desc → Bool) (allAtom : Bool) (mg : Meta) (m0 m1 : Mol) (inst : List (Key × List Key))
    (h : connect cp allAtom mg m0 inst = .ok m1) :
    m1.atoms.map (fun a => (a.key, a.fragid)) = m0.atoms.map (fun a => (a.key, a.fragid)) := by
  unfold connect at h
  refine foldlM_inv _ (fun m => m.atoms.map (fun a => (a.key, a.fragid)) = m0.atoms.map (fun a => (a.key, a.fragid)))
    _ m0 m1 rfl ?_ h
  intro st c st' _ hst hstep
  rw [applyCut_fragids allAtom st st' c hstep]; exact hst

theorem fragok_of_map (I : List Key) (m m' : Mol)
    (h : m'.atoms.map (fun a => (a.key, a.fragid)) = m.atoms.map (fun a => (a.key, a.fragid)))
    (hm : ∀ a ∈ m.atoms, FragOK I a) : ∀ a ∈ m'.atoms, FragOK I a := by
  intro a ha
  have : (a.key, a.fragid) ∈ m.atoms.map (fun a => (a.key, a.fragid)) := by
    rw [← h]; exact List.mem_map.mpr ⟨a, ha, rfl⟩
  obtain ⟨b, hb, e⟩ := List.mem_map.mp this
  simp only [Prod.mk.injEq] at e
  have := hm b hb
  unfold FragOK at this ⊢
  rw [← e.2]; exact this

/-- contraction keeps memberships non-empty and inside `I` (they are concatenated on the kept atom) -/
theorem contract_fragok (I : List Key) (m : Mol) (keep rem : Key) (hm : ∀ a ∈ m.atoms, FragOK I a) :
    ∀ a ∈ (contract m keep rem).atoms, FragOK I a := by
  intro a ha
  unfold contract at ha
  cases hr : m.atom? rem with
  | none =>
    rw [hr] at ha
    simp only [moved_atoms] at ha
    exact hm a (List.mem_filter.mp ha).1
  | some r =>
    rw [hr] at ha
    simp only [Mol.updAtom, moved_atoms, List.mem_map] at ha
    obtain ⟨b, hb, rfl⟩ := ha
    have hb' := hm b (List.mem_filter.mp hb).1
    have hr' : FragOK I r := hm r (List.mem_of_find?_eq_some hr)
    split
    · exact ⟨by simp [hb'.1], by
        intro k hk
        rcases List.mem_append.mp hk with h | h
        · exact hb'.2 k h
        · exact hr'.2 k h⟩
    · exact hb'

theorem squash_fragok (I : List Key) (m : Mol) (hm : ∀ a ∈ m.atoms, FragOK I a) : ∀ a ∈ (squash m).atoms, FragOK I a := by
  rw [squash_eq]
  have : ∀ (es : List Edge) (acc : Mol × List (Key × Key)), (∀ a ∈ acc.1.atoms, FragOK I a) →
      ∀ a ∈ (es.foldl sqStep acc).1.atoms, FragOK I a := by
    intro es
    induction es with
    | nil => intro acc h; exact h
    | cons e es ih =>
      intro acc h
      simp only [List.foldl_cons]
      apply ih
      unfold sqStep; dsimp only
      split
      · exact h
      · exact contract_fragok I acc.1 _ _ h
  exact this _ _ hm

/-! ### phase B: hydrogens take the membership of their atom -/

theorem applyArom_fragok (I : List Key) (m : Mol) (p : AromPatch) (hm : ∀ a ∈ m.atoms, FragOK I a) :
    ∀ a ∈ (applyArom m p).atoms, FragOK I a := by
  intro a ha
  unfold applyArom at ha
  simp only [List.mem_map] at ha
  obtain ⟨b, hb, rfl⟩ := ha
  have := hm b hb
  split <;> exact this

theorem applyArom_closed (m : Mol) (p : AromPatch) (hc : Closed m) : Closed (applyArom m p) := by
  intro e he
  rw [C12.applyArom_keys]
  unfold applyArom at he
  simp only [List.mem_map] at he
  obtain ⟨y, hy, rfl⟩ := he
  split <;> exact hc y hy

/-- a node is either a member already, or a hydrogen whose first neighbour is -/
def HOK (I : List Key) (m : Mol) (a : Atom) : Prop :=
  FragOK I a ∨ (a.isH = true ∧ a.singleH = false ∧ a.fragid = [] ∧
    ∃ n rest p, m.neighbors a.key = n :: rest ∧ m.atom? n = some p ∧ FragOK I p)

structure HInv (I K0 : List Key) (m : Mol) : Prop where
  closed : Closed m
  old : ∀ k ∈ K0, ∃ p, m.atom? k = some p ∧ FragOK I p
  all : ∀ a ∈ m.atoms, HOK I m a

theorem atom?_append_left (atoms more : List Atom) (edges edges' : List Edge) (k : Key) (p : Atom)
    (h : ({ atoms := atoms, edges := edges } : Mol).atom? k = some p) :
    ({ atoms := atoms ++ more, edges := edges' } : Mol).atom? k = some p := by
  unfold Mol.atom? at h ⊢
  simp only at h ⊢
  rw [List.find?_append, h]; rfl

theorem neighbors_append_left (m : Mol) (atoms' : List Atom) (es : List Edge) (k n : Key) (rest : List Key)
    (h : m.neighbors k = n :: rest) :
    ∃ rest', ({ atoms := atoms', edges := m.edges ++ es } : Mol).neighbors k = n :: rest' := by
  unfold Mol.neighbors at h ⊢
  simp only [List.filterMap_append]
  rw [h]
  exact ⟨_, rfl⟩

theorem atom?_mem_key (m : Mol) (k : Key) (hk : k ∈ m.keys) : ∃ p ∈ m.atoms, m.atom? k = some p := by
  obtain ⟨a, ha, rfl⟩ := List.mem_map.mp hk
  unfold Mol.atom?
  cases hf : m.atoms.find? (·.key == a.key) with
  | none =>
    have := List.find?_eq_none.mp hf a ha
    simp at this
  | some p => exact ⟨p, List.mem_of_find?_eq_some hf, rfl⟩

theorem hStep_inv (I K0 : List Key) (m : Mol) (kc : Key × Nat) (inv : HInv I K0 m) (hk : kc.1 ∈ K0) :
    HInv I K0 (hStep m kc) := by
  obtain ⟨p, hp, hpok⟩ := inv.old kc.1 hk
  have hkk : kc.1 ∈ m.keys := atom?_key m kc.1 p hp
  have hkeys := C12.hStep_keys m kc
  refine ⟨?_, ?_, ?_⟩
  · intro e he
    rw [hkeys]
    unfold hStep at he
    simp only at he
    rcases List.mem_append.mp he with h | h
    · exact ⟨List.mem_append_left _ (inv.closed e h).1, List.mem_append_left _ (inv.closed e h).2⟩
    · obtain ⟨i, hi, rfl⟩ := List.mem_map.mp h
      exact ⟨List.mem_append_left _ hkk, List.mem_append_right _ (List.mem_map.mpr ⟨i, hi, rfl⟩)⟩
  · intro k hk'
    obtain ⟨q, hq, hqok⟩ := inv.old k hk'
    exact ⟨q, atom?_append_left m.atoms _ m.edges _ k q hq, hqok⟩
  · intro a ha
    unfold hStep at ha
    simp only at ha
    rcases List.mem_append.mp ha with h | h
    · rcases inv.all a h with hok | ⟨h1, h2, h3, n, rest, q, hn, hq, hqok⟩
      · exact Or.inl hok
      · obtain ⟨rest', hr⟩ := neighbors_append_left m (m.atoms ++ (List.range kc.2).map fun i =>
          ({ key := m.nextKey + i, element := ['H'], isH := true, hasArom := true, aromatic := false, charge := 0 } : Atom))
          ((List.range kc.2).map fun i => ⟨kc.1, m.nextKey + i, 2, none⟩) a.key n rest hn
        exact Or.inr ⟨h1, h2, h3, n, rest', q, hr, atom?_append_left m.atoms _ m.edges _ n q hq, hqok⟩
    · obtain ⟨i, hi, rfl⟩ := List.mem_map.mp h
      right
      refine ⟨rfl, rfl, rfl, kc.1, [], p, ?_, atom?_append_left m.atoms _ m.edges _ kc.1 p hp, hpok⟩
      have hwf : ∀ e ∈ m.edges, e.a < m.nextKey ∧ e.b < m.nextKey :=
        fun e he => ⟨C10.key_lt_nextKey m _ (inv.closed e he).1, C10.key_lt_nextKey m _ (inv.closed e he).2⟩
      exact C09.C09_new_hydrogen_one_bond m kc.1 kc.2 i (List.mem_range.mp hi) hwf (C10.key_lt_nextKey m _ hkk)

theorem addHs_inv (I : List Key) (m : Mol) (counts : List (Key × Nat)) (hc : Closed m)
    (hm : ∀ a ∈ m.atoms, FragOK I a) (hcounts : ∀ kc ∈ counts, kc.1 ∈ m.keys) :
    HInv I m.keys (addHs m counts) := by
  unfold addHs
  have h0 : HInv I m.keys ({ m with atoms := m.atoms.map fun a => { a with hcount2 := 0 } } : Mol) := by
    have hkeys : ({ m with atoms := m.atoms.map fun a => { a with hcount2 := 0 } } : Mol).keys = m.keys := by
      unfold Mol.keys; simp [List.map_map, Function.comp]
    have hall : ∀ a ∈ ({ m with atoms := m.atoms.map fun a => { a with hcount2 := 0 } } : Mol).atoms, FragOK I a := by
      intro a ha
      simp only [List.mem_map] at ha
      obtain ⟨b, hb, rfl⟩ := ha
      exact hm b hb
    refine ⟨?_, ?_, fun a ha => Or.inl (hall a ha)⟩
    · intro e he; rw [hkeys]; exact hc e he
    · intro k hk
      obtain ⟨p, hp, hpa⟩ := atom?_mem_key _ k (hkeys ▸ hk)
      exact ⟨p, hpa, hall p hp⟩
  generalize ({ m with atoms := m.atoms.map fun a => { a with hcount2 := 0 } } : Mol) = m0 at h0
  induction counts generalizing m0 with
  | nil => exact h0
  | cons c cs ih =>
    simp only [List.foldl_cons]
    exact ih (fun kc hkc => hcounts kc (by simp [hkc])) _ (hStep_inv I m.keys m0 c h0 (hcounts c (by simp)))

theorem hCounts_keys (m : Mol) (counts : List (Key × Nat)) (h : hCounts m = .ok counts) : ∀ kc ∈ counts, kc.1 ∈ m.keys := by
  intro kc hkc
  unfold hCounts at h
  obtain ⟨a, ha, hf⟩ := mapM_ok_mem _ _ _ h kc hkc
  have : kc.1 = a.key := by
    split at hf
    · simp only [pure, Except.pure, Except.ok.injEq] at hf; rw [← hf]
    · split at hf
      · simp [throw, throwThe, MonadExceptOf.throw] at hf
      · simp only [pure, Except.pure, Except.ok.injEq] at hf; rw [← hf]
  rw [this]; exact List.mem_map.mpr ⟨a, ha, rfl⟩

/-- after the inheritance loop every node is a member -/
theorem inheritH_fragok (I K0 : List Key) (m m' : Mol) (inv : HInv I K0 m) (h : inheritH m = .ok m') :
    ∀ a ∈ m'.atoms, FragOK I a := by
  unfold inheritH at h
  simp only [bind, Except.bind] at h
  split at h
  · simp at h
  · rename_i atoms hat
    simp only [pure, Except.pure, Except.ok.injEq] at h
    subst h
    intro y hy
    obtain ⟨x, hx, hf⟩ := mapM_ok_mem _ _ _ hat y hy
    have hxok := inv.all x hx
    split at hf
    · rename_i hcond
      split at hf
      · simp [throw, throwThe, MonadExceptOf.throw] at hf
      · rename_i n rest hn
        split at hf
        · simp [throw, throwThe, MonadExceptOf.throw] at hf
        · rename_i p hp
          simp only [pure, Except.pure, Except.ok.injEq] at hf
          subst hf
          rcases hxok with hok | ⟨_, _, h3, n', rest', p', hn', hp', hpok⟩
          · have : (x.fragid == []) = false := by simpa using hok.1
            unfold FragOK
            simp only [this, Bool.false_eq_true, if_false]
            exact hok
          · rw [hn] at hn'
            simp only [List.cons.injEq] at hn'
            obtain ⟨rfl, _⟩ := hn'
            rw [hp] at hp'
            simp only [Option.some.injEq] at hp'
            subst hp'
            unfold FragOK
            simp only [h3, beq_self_eq_true, if_true]
            exact hpok
    · rename_i hcond
      simp only [pure, Except.pure, Except.ok.injEq] at hf
      subst hf
      rcases hxok with hok | ⟨h1, h2, _⟩
      · exact hok
      · simp [h1, h2] at hcond

theorem rebuildH_fragok (I : List Key) (m m' : Mol) (hc : Closed m) (hm : ∀ a ∈ m.atoms, FragOK I a)
    (h : rebuildH m = .ok m') : ∀ a ∈ m'.atoms, FragOK I a := by
  unfold rebuildH at h
  simp only [bind, Except.bind] at h
  split at h
  · simp at h
  · rename_i counts hcn
    exact inheritH_fragok I m.keys _ m' (addHs_inv I m counts hc hm (hCounts_keys m counts hcn)) h

/-! ### the whole step -/

theorem sortNodes_fragok (I : List Key) (m : Mol) (hm : ∀ a ∈ m.atoms, FragOK I a) :
    ∀ a ∈ (sortNodes m).1.atoms, FragOK I a := by
  intro a ha
  simp only [sortNodes, List.mem_map] at ha
  obtain ⟨b, hb, rfl⟩ := ha
  exact hm b hb

theorem annotateEZ_fragok (I : List Key) (m m' : Mol) (h : annotateEZ m = .ok m') (hm : ∀ a ∈ m.atoms, FragOK I a) :
    ∀ a ∈ m'.atoms, FragOK I a := by
  unfold annotateEZ at h
  simp only [bind, Except.bind] at h
  split at h
  · simp at h
  · simp only [pure, Except.pure, Except.ok.injEq] at h
    subst h
    intro a ha
    simp only [List.mem_map] at ha
    obtain ⟨b, hb, rfl⟩ := ha
    exact hm b hb

theorem setNames_fragids (m : Mol) (mg : Meta) :
    (setNames m mg).atoms.map (fun a => (a.key, a.fragid)) = m.atoms.map (fun a => (a.key, a.fragid)) := by
  unfold setNames
  generalize mg.nodes = ns
  induction ns generalizing m with
  | nil => rfl
  | cons n ns ih =>
    simp only [List.foldl_cons]
    rw [ih]
    generalize (membersOf m n.key).zipIdx = l
    induction l generalizing m with
    | nil => rfl
    | cons p ps ih2 =>
      simp only [List.foldl_cons]
      rw [ih2]
      unfold Mol.updAtom
      simp only [List.map_map]
      apply List.map_congr_left
      intro a _
      simp only [Function.comp]
      split <;> rfl

/-- what phase B returns: every node a member of instantiated coarse nodes only, and listed under each -/
theorem phaseB_cover (I : List Key) (allAtom : Bool) (mg : Meta) (m : Mol) (out : StepOut) (hc : Closed m)
    (hm : ∀ a ∈ m.atoms, FragOK I a) (hI : ∀ k ∈ I, k ∈ mg.nodes.map (·.key))
    (h : phaseB allAtom mg m = .ok out) :
    ∀ a ∈ out.fine.atoms, FragOK I a ∧ ∀ k ∈ a.fragid, ∃ ks, (k, ks) ∈ out.coarse ∧ a.key ∈ ks := by
  have fin : ∀ (fm : Mol), (∀ a ∈ fm.atoms, FragOK I a) →
      ∀ a ∈ fm.atoms, FragOK I a ∧ ∀ k ∈ a.fragid, ∃ ks, (k, ks) ∈ mg.nodes.map (fun mn => (mn.key, membersOf fm mn.key)) ∧ a.key ∈ ks := by
    intro fm hfm a ha
    refine ⟨hfm a ha, ?_⟩
    intro k hk
    obtain ⟨mn, hmn, e⟩ := List.mem_map.mp (hI k ((hfm a ha).2 k hk))
    exact ⟨membersOf fm k, List.mem_map.mpr ⟨mn, hmn, by rw [e]⟩, C02_cover fm a ha k hk⟩
  unfold phaseB at h
  cases allAtom with
  | false =>
    simp only [Bool.false_eq_true, if_false, pure, Except.pure, bind, Except.bind, Except.ok.injEq] at h
    subst h
    exact fin _ (sortNodes_fragok I m hm)
  | true =>
    simp only [if_true, bind, Except.bind] at h
    split at h
    · simp at h
    · rename_i m1 h1
      split at h
      · simp at h
      · rename_i m2 h2
        simp only [pure, Except.pure, Except.ok.injEq] at h
        subst h
        have hm2 := annotateEZ_fragok I _ m2 h2 (sortNodes_fragok I m1 (rebuildH_fragok I m m1 hc hm h1))
        intro a ha
        -- naming changes neither keys nor memberships
        have hmem : (a.key, a.fragid) ∈ m2.atoms.map (fun a => (a.key, a.fragid)) := by
          rw [← setNames_fragids m2 mg]; exact List.mem_map.mpr ⟨a, ha, rfl⟩
        obtain ⟨b, hb, e⟩ := List.mem_map.mp hmem
        simp only [Prod.mk.injEq] at e
        obtain ⟨h3, h4⟩ := fin m2 hm2 b hb
        unfold FragOK at h3 ⊢
        rw [← e.1, ← e.2]
        exact ⟨h3, h4⟩

/-- **C02 for every step of the resolver model**: whatever the base graph, the templates (distinct keys,
    closed bonds) and the recorded aromaticity answer — after a successful step every fine node records at
    least one coarse node, every coarse node it records is a node of the base graph that has a fragment,
    and the coarse graph lists the fine node under each of them (the sets cover the fine graph). -/
theorem C02_step_cover (cp : Desc → Desc → Bool) (allAtom : Bool) (mg : Meta) (fd : FragDict) (hfd : FragsWF fd)
    (pre : Mol) (ks : List Key) (patch : Option AromPatch) (out : StepOut)
    (hA : phaseA cp allAtom mg fd = .ok (pre, ks))
    (hB : phaseB allAtom mg (match patch with | some p => applyArom pre p | none => pre) = .ok out) :
    ∀ a ∈ out.fine.atoms, a.fragid ≠ [] ∧
      (∀ k ∈ a.fragid, k ∈ ks ∧ ∃ mn ∈ mg.nodes, mn.key = k ∧ (fd.lookup mn.fragname).isSome) ∧
      ∀ k ∈ a.fragid, ∃ members, (k, members) ∈ out.coarse ∧ a.key ∈ members := by
  unfold phaseA at hA
  simp only [bind, Except.bind] at hA
  split at hA
  · simp at hA
  rename_i r hd
  obtain ⟨m0, inst⟩ := r
  simp only at hA
  split at hA
  · simp at hA
  rename_i m1 hcn
  simp only [pure, Except.pure, Except.ok.injEq, Prod.mk.injEq] at hA
  obtain ⟨rfl, rfl⟩ := hA
  obtain ⟨hnd, hc, _⟩ := phaseA_wellformed cp allAtom mg fd hfd m0 m1 inst hd hcn
  have hm1 := fragok_of_map (inst.map (·.1)) m0 m1 (connect_fragids cp allAtom mg m0 m1 inst hcn)
    (disconnected_fragok mg fd m0 inst hd)
  have hsq := squash_fragok (inst.map (·.1)) m1 hm1
  have hsc := squash_closed m1 hnd hc
  -- the instantiated coarse nodes are nodes of the base graph with a fragment
  have hinst : ∀ k ∈ inst.map (·.1), ∃ mn ∈ mg.nodes, mn.key = k ∧ (fd.lookup mn.fragname).isSome := by
    rw [C11.disconnected_eq] at hd
    have gen : ∀ (ns : List MetaNode) (acc r : Mol × List (Key × List Key)),
        (∀ k ∈ acc.2.map (·.1), ∃ mn ∈ mg.nodes, mn.key = k ∧ (fd.lookup mn.fragname).isSome) →
        (∀ mn ∈ ns, mn ∈ mg.nodes) → ns.foldlM (C11.discStep mg fd) acc = .ok r →
        ∀ k ∈ r.2.map (·.1), ∃ mn ∈ mg.nodes, mn.key = k ∧ (fd.lookup mn.fragname).isSome := by
      intro ns acc r hacc hns hf
      refine foldlM_inv _ (fun st => ∀ k ∈ st.2.map (·.1), ∃ mn ∈ mg.nodes, mn.key = k ∧ (fd.lookup mn.fragname).isSome)
        ns acc r hacc ?_ hf
      intro st mn st' hmn hst hstep
      unfold C11.discStep at hstep
      cases hl : fd.lookup mn.fragname with
      | none =>
        rw [hl] at hstep
        dsimp only at hstep
        split at hstep
        · simp only [pure, Except.pure, Except.ok.injEq] at hstep; subst hstep; exact hst
        · simp [throw, throwThe, MonadExceptOf.throw] at hstep
      | some t =>
        rw [hl] at hstep
        simp only [pure, Except.pure, Except.ok.injEq] at hstep
        subst hstep
        intro k hk
        simp only [List.map_append, List.map_cons, List.map_nil, List.mem_append, List.mem_singleton] at hk
        rcases hk with hk | hk
        · exact hst k hk
        · exact ⟨mn, hns mn hmn, hk.symm, by rw [hl]; rfl⟩
    exact gen mg.nodes _ _ (by simp) (fun mn h => h) hd
  have hI : ∀ k ∈ inst.map (·.1), k ∈ mg.nodes.map (·.key) := by
    intro k hk
    obtain ⟨mn, hmn, e, _⟩ := hinst k hk
    exact List.mem_map.mpr ⟨mn, hmn, e⟩
  have finish : ∀ m : Mol, Closed m → (∀ a ∈ m.atoms, FragOK (inst.map (·.1)) a) → phaseB allAtom mg m = .ok out →
      ∀ a ∈ out.fine.atoms, a.fragid ≠ [] ∧
        (∀ k ∈ a.fragid, k ∈ inst.map (·.1) ∧ ∃ mn ∈ mg.nodes, mn.key = k ∧ (fd.lookup mn.fragname).isSome) ∧
        ∀ k ∈ a.fragid, ∃ members, (k, members) ∈ out.coarse ∧ a.key ∈ members := by
    intro m hcm hfm hB' a ha
    obtain ⟨h1, h2⟩ := phaseB_cover (inst.map (·.1)) allAtom mg m out hcm hfm hI hB' a ha
    exact ⟨h1.1, fun k hk => ⟨h1.2 k hk, hinst k (h1.2 k hk)⟩, h2⟩
  cases patch with
  | none => exact finish _ hsc hsq hB
  | some p => exact finish _ (applyArom_closed _ p hsc) (applyArom_fragok _ _ p hsq) hB

end CGV.C02
