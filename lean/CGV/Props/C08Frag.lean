/-
  C08 for coarse path fragments, end to end: a fragment that is a path of named beads, every bead carrying
  any list of bonding descriptors (all kinds, labels, orders 0–4), any bond order 0–4 between neighbouring
  beads, is written by the writer model and read back by the fragment reader model to the same path graph
  with every descriptor — kind, label, order — on the bead it was attached to.
-/
import CGV.Props.C08Path
import CGV.Props.C13Tokens
import CGV.Props.C04Bare
import CGV.Model.FragCG
namespace CGV.C08
open CGV Gen C04 C07 C13
set_option linter.unusedSimpArgs false

/-- the bond symbol in front of a bead as a token -/
def bondTok (o : Nat) : List TK :=
  match symText o with
  | [s] => [.bond s]
  | _ => []

/-- a bead as tokens: its bracket atom, then its descriptors -/
def beadToks (b : Bead) : List TK := .node ('#' :: b.1) :: b.2.map .desc

def toksOf (first : Bead) (its : List (Nat × Bead)) : List TK :=
  beadToks first ++ its.flatMap fun it => bondTok it.1 ++ beadToks it.2

theorem bondTok_text (o : Nat) (ho : o ≤ 4) : render (bondTok o) = symText o := by
  rcases symText_cases o ho with ⟨_, h⟩ | ⟨_, s, h, _⟩ <;> simp [bondTok, h, render, TK.text]

theorem bondTok_clean (o : Nat) (ho : o ≤ 4) : cleanText (bondTok o) = symText o := by
  rcases symText_cases o ho with ⟨_, h⟩ | ⟨_, s, h, _⟩ <;> simp [bondTok, h, cleanText, TK.clean, TK.text]

theorem beadToks_text (b : Bead) : render (beadToks b) = nodeText b.1 ++ b.2.flatMap (·.fmt) := by
  simp [beadToks, render, TK.text, nodeText, List.flatMap_map]

theorem beadToks_clean (b : Bead) : cleanText (beadToks b) = nodeText b.1 := by
  simp [beadToks, cleanText, TK.clean, TK.text, nodeText, List.flatMap_map]

theorem render_append (a b : List TK) : render (a ++ b) = render a ++ render b := by simp [render]
theorem clean_append (a b : List TK) : cleanText (a ++ b) = cleanText a ++ cleanText b := by simp [cleanText]

/-- what the writer emits is the rendering of the tokens -/
theorem toksOf_text (first : Bead) (its : List (Nat × Bead)) (hok : ∀ it ∈ its, BeadOk it) :
    render (toksOf first its) = nodeText first.1 ++ first.2.flatMap (·.fmt) ++ renderBeads its := by
  unfold toksOf
  rw [render_append, beadToks_text]
  congr 1
  induction its with
  | nil => rfl
  | cons it r ih =>
    have hit := hok it (by simp)
    simp only [List.flatMap_cons, render_append, bondTok_text it.1 hit.2, beadToks_text, renderBeads, List.append_assoc]
    rw [ih (fun x hx => hok x (by simp [hx]))]

/-- the clean text is the brace-less chain of the beads -/
theorem toksOf_clean (first : Bead) (its : List (Nat × Bead)) (hok : ∀ it ∈ its, BeadOk it) :
    cleanText (toksOf first its) = nodeText first.1 ++ renderBody (plain its) := by
  unfold toksOf
  rw [clean_append, beadToks_clean]
  congr 1
  induction its with
  | nil => rfl
  | cons it r ih =>
    have hit := hok it (by simp)
    simp only [List.flatMap_cons, clean_append, bondTok_clean it.1 hit.2, beadToks_clean, plain, List.map_cons, renderBody,
      List.append_assoc]
    rw [ih (fun x hx => hok x (by simp [hx]))]
    rfl

/-! ### the tokens are a valid stream -/

theorem node_ok (name : Str) (h : NameOk name) : TK.ok (.node ('#' :: name)) := by
  refine ⟨⟨'#', name, rfl, by decide⟩, ?_, ?_⟩
  · intro hm
    rcases List.mem_cons.mp hm with e | hm
    · cases e
    · exact (nameChar_facts _ (List.all_eq_true.mp h.2 _ hm)).1 rfl
  · intro hm
    rcases List.mem_cons.mp hm with e | hm
    · cases e
    · exact (nameChar_facts _ (List.all_eq_true.mp h.2 _ hm)).2.2.2.2.2.1 rfl

theorem valid_descs (n depth : Nat) (hn : 0 < n) : ∀ (ds : List WFDesc) (rest : List TK),
    Valid n true depth rest → Valid n true depth (ds.map .desc ++ rest)
  | [], rest, h => h
  | d :: ds, rest, h => ⟨hn, rfl, valid_descs n depth hn ds rest h⟩

theorem valid_bond_node (n : Nat) (co : Bool) (depth o : Nat) (ho : o ≤ 4) (inner : Str) (ts : List TK)
    (hnode : TK.ok (.node inner)) (h : Valid (n + 1) true depth ts) :
    Valid n co depth (bondTok o ++ .node inner :: ts) := by
  rcases symText_cases o ho with ⟨_, hs⟩ | ⟨_, s, hs, hl⟩
  · simp only [bondTok, hs, List.nil_append]; exact ⟨hnode, h⟩
  · simp only [bondTok, hs, List.singleton_append]
    have hb : (bondToOrder2.lookup s).isSome = true := by
      have : ∀ c o, symbolToOrder.lookup c = some o → (bondToOrder2.lookup c).isSome = true := by
        intro c o hc
        obtain ⟨l1, l2, e, _⟩ := List.lookup_eq_some_iff.mp hc
        have hm : (c, o) ∈ symbolToOrder := by rw [e]; simp
        have : ∀ p ∈ symbolToOrder, (bondToOrder2.lookup p.1).isSome = true := by decide +kernel
        exact this _ hm
      exact this s o hl
    exact ⟨hb, hnode, h⟩

theorem valid_beads (depth : Nat) : ∀ (its : List (Nat × Bead)) (n : Nat) (co : Bool), (∀ it ∈ its, BeadOk it) →
    Valid n co depth (its.flatMap fun it => bondTok it.1 ++ beadToks it.2)
  | [], _, _, _ => trivial
  | it :: r, n, co, hok => by
    have hit := hok it (by simp)
    simp only [List.flatMap_cons, beadToks, List.append_assoc, List.cons_append]
    apply valid_bond_node n co depth it.1 hit.2 _ _ (node_ok it.2.1 hit.1)
    apply valid_descs (n + 1) depth (Nat.succ_pos n)
    exact valid_beads depth r (n + 1) true (fun x hx => hok x (by simp [hx]))

theorem toksOf_valid (first : Bead) (its : List (Nat × Bead)) (hfirst : NameOk first.1) (hok : ∀ it ∈ its, BeadOk it) :
    Valid 0 true 0 (toksOf first its) := by
  unfold toksOf beadToks
  simp only [List.cons_append]
  refine ⟨node_ok first.1 hfirst, ?_⟩
  apply valid_descs 1 0 (by decide)
  exact valid_beads 0 its 1 true hok

/-- **C08 for coarse path fragments, end to end.**  A fragment that is a path of named beads (alphanumeric
    names), any bond order 0–4 between neighbouring beads, every bead carrying any list of bonding descriptors
    (all four kinds, any label, orders 0–4): the text the writer model produces is read back by the fragment
    reader model (descriptor scanner, then `read_cgsmiles` on the cleaned text) to the same path graph, with
    the dictionary that holds every descriptor — kind, label, order digit — under the index of the bead it was
    attached to, in order. -/
theorem C08_path_fragment (first : Bead) (its : List (Nat × Bead)) (hfirst : NameOk first.1) (hok : ∀ it ∈ its, BeadOk it)
    (hascii : ((render (toksOf first its)).any fun c => decide (c.toNat > 127)) = false) :
    (writeGraph (pathWB first its)).bind readFragCG =
      .ok ⟨pathGraph first.1 (plain its), specDict0 (toksOf first its), specAttrs 0 (toksOf first its)⟩ := by
  rw [writeGraph_beads first its hok, ← toksOf_text first its hok]
  simp only [Except.bind, readFragCG, bind]
  rw [C13_tokens (toksOf first its) (toksOf_valid first its hfirst hok) hascii]
  simp only [toksOf_clean first its hok]
  have hplain : ∀ it ∈ plain its, ItemOk it := by
    intro it hit
    obtain ⟨x, hx, rfl⟩ := List.mem_map.mp hit
    exact hok x hx
  rw [C04_read_bare_chain first.1 (plain its) hfirst hplain]
  rfl

/-- the dictionary in the theorem, spelled out on an instance: `[#A][$a]=[>b2]=[#B].[#C][<]` -/
def exFirst : Bead := ("A".toList, [C13.dA, C13.dB])
def exIts : List (Nat × Bead) := [(2, ("B".toList, [])), (0, ("C".toList, [C13.dC]))]
example : render (toksOf exFirst exIts) = "[#A][$a]=[>b]=[#B].[#C][<]".toList := by decide +kernel
example : specDict0 (toksOf exFirst exIts) = [(0, ["$a1".toList, ">b2".toList]), (2, ["<1".toList])] := by decide +kernel
example : (writeGraph (pathWB exFirst exIts)).bind readFragCG =
    .ok ⟨pathGraph "A".toList [⟨"B".toList, 2⟩, ⟨"C".toList, 0⟩], [(0, ["$a1".toList, ">b2".toList]), (2, ["<1".toList])],
         [(0, bareAttrs), (1, bareAttrs), (2, bareAttrs)]⟩ := by decide +kernel

end CGV.C08
