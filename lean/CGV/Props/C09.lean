/-
  C09 — every atom of an atomistic result has a complete, standard valence.

  Model: `rebuildH = inheritH ∘ addHs ∘ hCounts` (CGV.Model.Resolve) — rebuild_h_atoms after the
  external aromaticity correction: hcount reset, fill_valence(respect_hcount=False),
  add_explicit_hydrogens, attribute inheritance.  The valence lists are the generated table
  (pysmiles evaluated on every run).
-/
import CGV.Lemmas.Valence
import CGV.Lemmas.Fold
namespace CGV.C09
open CGV Mol

/-- what `hCounts` returns: one entry per atom in node order; 0 for hydrogens, and for any other atom
    the number of hydrogens missing to the first listed valence that accommodates its bonds -/
def countFor (mol : Mol) (a : Atom) : Option (Key × Nat) :=
  if a.isH then some (a.key, 0)
  else (valenceOf a).map fun vs => (a.key, missingH vs (mol.bonds2 a.key))

theorem hCounts_ok (mol : Mol) (counts : List (Key × Nat)) (h : hCounts mol = .ok counts) :
    mol.atoms.map (countFor mol) = counts.map some := by
  unfold hCounts at h
  generalize hl : mol.atoms = l at h
  have key : ∀ (l : List Atom) (counts : List (Key × Nat)),
      (l.mapM fun a => if a.isH then (pure (a.key, 0) : Py (Key × Nat))
        else match valenceOf a with
          | none => throw PyErr.value
          | some vs => pure (a.key, missingH vs (mol.bonds2 a.key))) = .ok counts →
      l.map (countFor mol) = counts.map some := by
    intro l
    induction l with
    | nil => intro counts h; simp [pure, Except.pure] at h; subst h; rfl
    | cons a as ih =>
      intro counts h
      rw [List.mapM_cons] at h
      by_cases hH : a.isH
      · simp only [hH, if_true, bind, Except.bind, pure, Except.pure] at h
        cases hr : (as.mapM fun a => if a.isH then (pure (a.key, 0) : Py (Key × Nat))
            else match valenceOf a with
              | none => throw PyErr.value
              | some vs => pure (a.key, missingH vs (mol.bonds2 a.key))) with
        | error e => simp only [pure, Except.pure] at hr; rw [hr] at h; cases h
        | ok r =>
          simp only [pure, Except.pure] at hr; rw [hr] at h
          cases h
          simp [countFor, hH, ih r (by simpa [pure, Except.pure] using hr)]
      · cases hv : valenceOf a with
        | none => simp [hH, hv, bind, Except.bind, throw, throwThe, MonadExceptOf.throw] at h
        | some vs =>
          simp only [hH, hv, Bool.false_eq_true, if_false, bind, Except.bind, pure, Except.pure] at h
          cases hr : (as.mapM fun a => if a.isH then (pure (a.key, 0) : Py (Key × Nat))
              else match valenceOf a with
                | none => throw PyErr.value
                | some vs => pure (a.key, missingH vs (mol.bonds2 a.key))) with
          | error e => simp only [pure, Except.pure] at hr; rw [hr] at h; cases h
          | ok r =>
            simp only [pure, Except.pure] at hr; rw [hr] at h
            cases h
            simp [countFor, hH, hv, ih r (by simpa [pure, Except.pure] using hr)]
  exact key l counts h

/-- with distinct node keys, the entries of `counts` for key `k` are exactly the one of its atom -/
theorem counts_for_key (mol : Mol) (hnd : mol.keys.Nodup) (counts : List (Key × Nat))
    (h : mol.atoms.map (countFor mol) = counts.map some) (a : Atom) (ha : a ∈ mol.atoms) (c : Nat)
    (hc : countFor mol a = some (a.key, c)) :
    ((counts.filter (·.1 == a.key)).map (·.2)).sum = c := by
  -- every entry of counts is (b.key, _) for the atom b at the same position
  have hkeys : ∀ (l : List Atom) (cs : List (Key × Nat)), l.map (countFor mol) = cs.map some →
      cs.map (·.1) = l.map (·.key) := by
    intro l
    induction l with
    | nil => intro cs h; cases cs <;> simp_all
    | cons b bs ih =>
      intro cs h
      cases cs with
      | nil => simp at h
      | cons x xs =>
        simp only [List.map_cons, List.cons.injEq] at h ⊢
        refine ⟨?_, ih xs h.2⟩
        have := h.1
        unfold countFor at this
        by_cases hb : b.isH
        · simp [hb] at this; rw [← this]
        · cases hv : valenceOf b with
          | none => simp [hb, hv] at this
          | some vs => simp [hb, hv] at this; rw [← this]
  have aux : ∀ (l : List Atom) (cs : List (Key × Nat)), l.map (countFor mol) = cs.map some →
      (l.map (·.key)).Nodup → a ∈ l → ((cs.filter (·.1 == a.key)).map (·.2)).sum = c := by
    intro l
    induction l with
    | nil => intro cs _ _ hm; simp at hm
    | cons b bs ih =>
      intro cs h hn hm
      cases cs with
      | nil => simp at h
      | cons x xs =>
        simp only [List.map_cons, List.cons.injEq] at h
        simp only [List.map_cons, List.nodup_cons] at hn
        have hxs := hkeys bs xs h.2
        rcases List.mem_cons.mp hm with rfl | hm'
        · have hx : x = (a.key, c) := by
            have := h.1; rw [hc] at this; exact (Option.some.inj this).symm
          have hrest : xs.filter (·.1 == a.key) = [] := by
            apply List.filter_eq_nil_iff.mpr
            intro y hy
            have : y.1 ∈ xs.map (·.1) := List.mem_map.mpr ⟨y, hy, rfl⟩
            rw [hxs] at this
            simp only [beq_iff_eq]
            intro e; exact hn.1 (e ▸ this)
          subst hx
          simp [List.filter_cons, hrest]
        · have hne : (x.1 == a.key) = false := by
            have hx1 : x.1 = b.key := by
              have := hkeys [b] [x] (by simp [h.1]); simpa using this
            simp only [beq_eq_false_iff_ne, ne_eq, hx1]
            intro e
            exact hn.1 (e ▸ List.mem_map.mpr ⟨a, hm', rfl⟩)
          simp only [List.filter_cons, hne]
          exact ih xs h.2 hn.2 hm'
  exact aux mol.atoms counts h hnd ha

/-- C09 (completeness): after hydrogen completion, a non-hydrogen atom whose bonds fit within one of
    its element/charge valences has bond orders adding up exactly to the SMALLEST such valence (the
    orders to the added hydrogens included) — `2 * v` in half units — whenever its bond-order sum is
    integral. -/
theorem C09_complete (mol : Mol) (hnd : mol.keys.Nodup) (counts : List (Key × Nat)) (h : hCounts mol = .ok counts)
    (a : Atom) (ha : a ∈ mol.atoms) (hH : a.isH = false) (vs : List Nat) (hv : valenceOf a = some vs)
    (v : Nat) (hfind : vs.find? (fun v => decide (2 * v ≥ mol.bonds2 a.key)) = some v)
    (heven : mol.bonds2 a.key % 2 = 0) :
    (addHs mol counts).bonds2 a.key = 2 * v := by
  have hc := hCounts_ok mol counts h
  have hcf : countFor mol a = some (a.key, missingH vs (mol.bonds2 a.key)) := by simp [countFor, hH, hv]
  have hsum := counts_for_key mol hnd counts hc a ha _ hcf
  unfold addHs
  have hlt : a.key < ({ mol with atoms := mol.atoms.map fun a => { a with hcount2 := 0 } } : Mol).nextKey := by
    have : ({ a with hcount2 := 0 } : Atom) ∈ mol.atoms.map fun a => { a with hcount2 := 0 } :=
      List.mem_map.mpr ⟨a, ha, rfl⟩
    exact key_lt_nextKey { mol with atoms := mol.atoms.map fun a => { a with hcount2 := 0 } }
      ({ a with hcount2 := 0 } : Atom) this
  rw [foldl_hStep_bonds2 counts _ a.key hlt, hsum]
  have : bonds2 ({ mol with atoms := mol.atoms.map fun a => { a with hcount2 := 0 } } : Mol) a.key = mol.bonds2 a.key := rfl
  rw [this]
  exact missingH_complete hfind heven

/-- the valence reached is the smallest one that fits (valence lists are ascending — checked on the
    whole generated table) -/
theorem C09_smallest (a : Atom) (vs : List Nat) (hv : valenceOf a = some vs) (b2 v : Nat)
    (hfind : vs.find? (fun v => decide (2 * v ≥ b2)) = some v) : ∀ w ∈ vs, b2 ≤ 2 * w → v ≤ w := by
  have hs : vs.Pairwise (· < ·) := by
    unfold valenceOf at hv
    split at hv
    · cases hv; exact List.Pairwise.nil
    · cases hl : Gen.valenceTable.lookup (a.element, a.charge) with
      | none => simp [hl] at hv
      | some r =>
        simp only [hl] at hv
        have hm : ((a.element, a.charge), r) ∈ Gen.valenceTable := by
          have := List.lookup_eq_some_iff.mp hl
          obtain ⟨l1, l2, e, _⟩ := this
          rw [e]; simp
        exact valenceTable_ascending _ hm vs hv
  exact find_is_min hs hfind

/-- hydrogens themselves receive no further hydrogens -/
theorem C09_hydrogen_untouched (mol : Mol) (a : Atom) (hH : a.isH = true) : countFor mol a = some (a.key, 0) := by
  simp [countFor, hH]

/-- nothing is added when the bonds already exceed every known valence (the property's guard) -/
theorem C09_over_valence (vs : List Nat) (b2 : Nat) (h : ∀ v ∈ vs, 2 * v < b2) : missingH vs b2 = 0 :=
  missingH_none h

/-! non-vacuity: a methyl carbon with one heavy neighbour gets three hydrogens -/
example : missingH [4] 2 = 3 := by decide
example : valenceOf { key := 0, element := ['C'], charge := 0 } = some [4] := by decide +kernel
example : valenceOf { key := 0, element := ['N'], charge := 1 } = some [4] := by decide +kernel
example : valenceOf { key := 0, element := ['S'], charge := 0 } = some [2, 4, 6] := by decide +kernel

end CGV.C09

namespace CGV.C09
open CGV Mol

/-! ### hydrogens: one bond, and the attributes of the atom they sit on -/

theorem beq_false_of_lt (a n i : Nat) (h : a < n) : (a == n + i) = false := by
  simp only [beq_eq_false_iff_ne, ne_eq]; omega

theorem beq_add_false (n j i : Nat) (h : j ≠ i) : (n + j == n + i) = false := by
  simp only [beq_eq_false_iff_ne, ne_eq]; omega

/-- every hydrogen that `add_explicit_hydrogens` adds for an atom is bonded to that atom and to
    nothing else (the keys are fresh, so no existing bond can involve them) -/
theorem C09_new_hydrogen_one_bond (m : Mol) (k : Key) (c i : Nat) (hi : i < c)
    (hwf : ∀ e ∈ m.edges, e.a < m.nextKey ∧ e.b < m.nextKey) (hk : k < m.nextKey) :
    (hStep m (k, c)).neighbors (m.nextKey + i) = [k] := by
  unfold hStep Mol.neighbors
  simp only [List.filterMap_append]
  have hold : m.edges.filterMap (fun e => if e.a == m.nextKey + i then some e.b
      else if e.b == m.nextKey + i then some e.a else none) = [] := by
    rw [List.filterMap_eq_nil_iff]
    intro e he
    obtain ⟨h1, h2⟩ := hwf e he
    have n1 : (e.a == m.nextKey + i) = false := beq_false_of_lt _ _ _ h1
    have n2 : (e.b == m.nextKey + i) = false := beq_false_of_lt _ _ _ h2
    simp only [n1, n2, Bool.false_eq_true, if_false]
  rw [hold, List.nil_append, List.filterMap_map]
  have hne : (k == m.nextKey + i) = false := beq_false_of_lt _ _ _ hk
  -- among the new edges (k, start + j) exactly the one with j = i matches
  have : ∀ (n : Nat), i < n → (List.range n).filterMap ((fun e : Edge => if e.a == m.nextKey + i then some e.b
      else if e.b == m.nextKey + i then some e.a else none) ∘ fun j => (⟨k, m.nextKey + j, 2, none⟩ : Edge)) = [k] := by
    intro n
    induction n with
    | zero => intro h; omega
    | succ n ih =>
      intro h
      rw [List.range_succ, List.filterMap_append]
      by_cases hin : i < n
      · rw [ih hin]
        have : (m.nextKey + n == m.nextKey + i) = false := beq_add_false _ _ _ (by omega)
        simp only [List.filterMap_cons, List.filterMap_nil, Function.comp, hne, this, Bool.false_eq_true, if_false,
          List.append_nil]
      · have hi' : i = n := by omega
        subst hi'
        have hnone : (List.range i).filterMap ((fun e : Edge => if e.a == m.nextKey + i then some e.b
            else if e.b == m.nextKey + i then some e.a else none) ∘ fun j => (⟨k, m.nextKey + j, 2, none⟩ : Edge)) = [] := by
          rw [List.filterMap_eq_nil_iff]
          intro j hj
          have hj' : j < i := List.mem_range.mp hj
          have : (m.nextKey + j == m.nextKey + i) = false := beq_add_false m.nextKey j i (Nat.ne_of_lt hj')
          simp only [Function.comp, hne, this, Bool.false_eq_true, if_false]
        rw [hnone]
        simp only [List.filterMap_cons, List.filterMap_nil, Function.comp, hne, beq_self_eq_true, if_true,
          Bool.false_eq_true, if_false, List.nil_append]
  exact this c hi

/-- the attribute inheritance: bonds and non-hydrogen atoms are untouched; a completed hydrogen
    takes membership, fragment name and weight of the atom it is bonded to, unless it was written
    with its own -/
theorem C09_inherit (m m' : Mol) (h : inheritH m = .ok m') (h0 : Atom) (hin : h0 ∈ m.atoms) :
    m'.edges = m.edges ∧
    ∃ h1 ∈ m'.atoms, h1.key = h0.key ∧ h1.element = h0.element ∧
      ((h0.isH && !h0.singleH) = false → h1 = h0) ∧
      ((h0.isH && !h0.singleH) = true → ∃ n rest p, m.neighbors h0.key = n :: rest ∧ m.atom? n = some p ∧
        h1.fragid = (if h0.fragid == [] then p.fragid else h0.fragid) ∧
        h1.fragname = (if h0.fragname == [] then p.fragname else h0.fragname) ∧
        (h0.extra.any (·.1 == "weight") = false →
          h1.extra = h0.extra ++ [("weight", (p.extra.lookup "weight").getD "None")]) ∧
        (h0.extra.any (·.1 == "weight") = true → h1.extra = h0.extra)) := by
  unfold inheritH at h
  simp only [bind, Except.bind, pure, Except.pure] at h
  split at h
  · cases h
  · rename_i atoms hm
    simp only [Except.ok.injEq] at h
    subst h
    refine ⟨rfl, ?_⟩
    obtain ⟨h1, hmem, hf⟩ := mapM_ok_all _ _ _ hm h0 hin
    refine ⟨h1, hmem, ?_⟩
    by_cases hc : (h0.isH && !h0.singleH) = true
    · simp only [hc, if_true] at hf
      cases hn : m.neighbors h0.key with
      | nil => rw [hn] at hf; cases hf
      | cons n rest =>
        rw [hn] at hf
        simp only at hf
        cases hp : m.atom? n with
        | none => rw [hp] at hf; cases hf
        | some p =>
          rw [hp] at hf
          simp only [pure, Except.pure, Except.ok.injEq] at hf
          subst hf
          refine ⟨rfl, rfl, ?_, ?_⟩
          · intro hx; rw [hc] at hx; cases hx
          · intro _
            refine ⟨n, rest, p, rfl, hp, rfl, rfl, ?_, ?_⟩
            · intro hw; simp [hw]
            · intro hw; simp [hw]
    · have hc' : (h0.isH && !h0.singleH) = false := by simpa using hc
      simp only [hc', Bool.false_eq_true, if_false, pure, Except.pure, Except.ok.injEq] at hf
      subst hf
      refine ⟨rfl, rfl, fun _ => rfl, ?_⟩
      intro hx; rw [hc'] at hx; cases hx

end CGV.C09
