/-
  C04 for chain texts WITHOUT braces — the form in which `read_cgsmiles` is called for the body of a coarse
  fragment definition (`read_fragment_cgsmiles` hands it the descriptor-free text): `node (bond? node)*`
  reads to the same path graph as the braced string.
-/
import CGV.Props.C07Path
namespace CGV.C04
open CGV Gen C07
set_option linter.unusedSimpArgs false

/-- the loop body on the LAST node of a brace-less text (nothing follows): the node is added and bonded -/
theorem stepNode_end (st : RState) (pre : Char) (name : Str) (a : Attrs)
    (hpre : pre ≠ '(') (hparse : parseBase name = .ok a) (hbr : st.branching = false) :
    stepNode st (pre, name, []) = .ok
      { st with g := (match st.prev with
                      | some p => (st.g.addNode st.current a).addEdge p st.current st.pbo
                      | none => st.g.addNode st.current a),
                current := st.current + 1, prev := some st.current, pbo := some defaultBondOrder, attrs := some a } := by
  have hp : (pre == '(') = false := by simpa using hpre
  have hcl : ∀ (fuel : Nat) (s' : RState), closeLoop fuel [] 0 s' = .ok s' :=
    fun fuel s' => closeLoop_no_close fuel [] 0 s' (by simp)
  simp [stepNode, openBranch, hp, ringScan, ringScanAux, applyRings, bondOrderOf, multOf, hparse, hbr, addCopy, hcl,
    bind, Except.bind, pure, Except.pure, List.range, List.range.loop, List.foldlM, defaultBondOrder, Option.orElse]
  cases st.prev <;> cases st.rdx <;> rfl

def toksBody : Char → List LItem → List (Char × Str × Str)
  | _, [] => []
  | p, it :: its => ((symText it.order).getLast?.getD p, it.name, renderBody its) :: toksBody ']' its

theorem matches_body (last : Char) : ∀ (its : List LItem) (p : Char) (fuel : Nat),
    (∀ it ∈ its, ItemOk it) → (renderBody its).length ≤ fuel →
    matchesAux last fuel p (renderBody its) = toksBody p its
  | [], p, fuel, _, _ => by
    simp only [renderBody, toksBody]
    exact matchesAux_nil last p fuel
  | it :: its, p, fuel, hok, hf => by
    have hit := hok it List.mem_cons_self
    have hrest : ∀ x ∈ its, ItemOk x := fun x hx => hok x (List.mem_cons_of_mem _ hx)
    have hname := hit.1.2
    have hlen : (renderBody (it :: its)).length =
        (symText it.order).length + (it.name.length + 3) + (renderBody its).length := by
      simp [renderBody, nodeText_length]; omega
    rw [hlen] at hf
    rcases symText_cases it.order hit.2 with ⟨_, hs⟩ | ⟨_, s, hs, hlook⟩
    · rw [hs] at hf
      obtain ⟨f, rfl⟩ : ∃ f, fuel = f + 1 := ⟨fuel - 1, by simp at hf; omega⟩
      show matchesAux last (f + 1) p (symText it.order ++ nodeText it.name ++ renderBody its) = _
      rw [hs, List.nil_append, matchesAux_nodeText last p f it.name (renderBody its) hname]
      rw [matches_body last its ']' f hrest (by simp at hf; omega)]
      simp [toksBody, hs]
    · obtain ⟨_, _, _, _, _, hsb, _⟩ := sym_facts s it.order hlook
      rw [hs] at hf
      obtain ⟨f, rfl⟩ : ∃ f, fuel = f + 2 := ⟨fuel - 2, by simp at hf; omega⟩
      show matchesAux last (f + 2) p (symText it.order ++ nodeText it.name ++ renderBody its) = _
      rw [hs, List.append_assoc, List.singleton_append]
      rw [show f + 2 = (f + 1) + 1 from rfl, matchesAux_other last p s (f + 1) _ hsb]
      rw [matchesAux_nodeText last s f it.name (renderBody its) hname]
      rw [matches_body last its ']' f hrest (by simp at hf; omega)]
      simp [toksBody, hs]

theorem gap_body (it : LItem) (its : List LItem) (hit : ItemOk it) : PlainGap (renderBody (it :: its)) it.order := by
  show PlainGap (symText it.order ++ nodeText it.name ++ renderBody its) it.order
  rcases symText_cases it.order hit.2 with ⟨h1, hs⟩ | ⟨_, s, hs, hlook⟩
  · rw [hs, h1]; exact PlainGap.node _
  · rw [hs]; exact PlainGap.sym s it.order _ hlook

theorem body_no_close (its : List LItem) (hok : ∀ it ∈ its, ItemOk it) : ∀ c ∈ renderBody its, c ≠ ')' := by
  intro c hc
  apply tail_no_close its hok c
  rw [renderTail_body]; exact List.mem_append_left _ hc

/-- the state machine on the tail of a brace-less chain -/
theorem fold_body : ∀ (its : List LItem) (p : Char) (st : RState) (prev : Nat),
    (∀ it ∈ its, ItemOk it) → p ≠ '(' → st.branching = false → st.prev = some prev → st.pbo = some (nextOrder its) →
    ∃ st', (toksBody p its).foldlM stepNode st = .ok st' ∧
      st'.g = pathGraphAux st.g prev st.current its ∧ st'.cycle = st.cycle
  | [], _, st, _, _, _, _, _, _ => ⟨st, rfl, rfl, rfl⟩
  | it :: its, p, st, prev, hok, hp, hbr, hprev, hpbo => by
    have hit := hok it List.mem_cons_self
    have hrest : ∀ x ∈ its, ItemOk x := fun x hx => hok x (List.mem_cons_of_mem _ hx)
    have hpre := toksTail_pre p hp it hit
    cases its with
    | nil =>
      have hstep := stepNode_end st ((symText it.order).getLast?.getD p) it.name (defaultAttrs it.name) hpre
        (parse_name it.name hit.1) hbr
      simp only [toksBody, renderBody, List.foldlM_cons, List.foldlM_nil, hstep, bind, Except.bind, pure, Except.pure]
      refine ⟨_, rfl, ?_, rfl⟩
      simp only [pathGraphAux, hpbo, hprev, nextOrder]
    | cons it2 its2 =>
      obtain ⟨r, hstep⟩ := stepNode_plain st ((symText it.order).getLast?.getD p) it.name (renderBody (it2 :: its2)) it2.order
        (defaultAttrs it.name) hpre (gap_body it2 its2 (hrest it2 (by simp))) (parse_name it.name hit.1) hbr
        (body_no_close (it2 :: its2) hrest)
      simp only [toksBody, List.foldlM_cons, hstep, bind, Except.bind]
      obtain ⟨st', h1, h2, h3⟩ := fold_body (it2 :: its2) ']'
        { st with g := (match st.prev with
                        | some p => (st.g.addNode st.current (defaultAttrs it.name)).addEdge p st.current st.pbo
                        | none => st.g.addNode st.current (defaultAttrs it.name)),
                  current := st.current + 1, prev := some st.current, pbo := some it2.order,
                  attrs := some (defaultAttrs it.name), rdx := some r }
        st.current hrest (by decide) hbr rfl rfl
      refine ⟨st', ?_, ?_, h3⟩
      · exact h1
      · rw [h2]
        simp only [pathGraphAux, hpbo, hprev, nextOrder]

theorem renderBody_getLast (first : Str) (its : List LItem) :
    (nodeText first ++ renderBody its).getLast? = some ']' := by
  induction its generalizing first with
  | nil =>
    have : nodeText first ++ renderBody [] = ('[' :: '#' :: first) ++ [']'] := by simp [renderBody, nodeText]
    rw [this, List.getLast?_append]; rfl
  | cons it its ih =>
    have := ih it.name
    show (nodeText first ++ (symText it.order ++ nodeText it.name ++ renderBody its)).getLast? = _
    rw [show nodeText first ++ (symText it.order ++ nodeText it.name ++ renderBody its) =
      (nodeText first ++ symText it.order) ++ (nodeText it.name ++ renderBody its) from by simp]
    rw [List.getLast?_append, this]; rfl

/-- **the brace-less chain text reads to the path graph** (the call `read_fragment_cgsmiles` makes) -/
theorem C04_read_bare_chain (first : Str) (its : List LItem) (hfirst : NameOk first) (hok : ∀ it ∈ its, ItemOk it) :
    readCG (nodeText first ++ renderBody its) = .ok (pathGraph first its) := by
  have hsup : ((nodeText first ++ renderBody its).any fun c => c == '\n' || decide (c.toNat > 127)) = false := by
    rw [List.any_eq_false]
    intro c hc
    have : okChar c = true := by
      rcases List.mem_append.mp hc with h | h
      · exact nodeText_ok first hfirst.2 c h
      · apply renderTail_ok its hok c; rw [renderTail_body]; exact List.mem_append_left _ h
    simpa [okChar] using this
  unfold readCG
  simp only [hsup, Bool.false_eq_true, if_false]
  -- the regex scan
  have hm : matches' (nodeText first ++ renderBody its) = (']', first, renderBody its) :: toksBody ']' its := by
    unfold matches'
    rw [renderBody_getLast]
    simp only [Option.getD_some]
    have hlen : (nodeText first ++ renderBody its).length + 1 = (first.length + 3 + (renderBody its).length) + 1 := by
      simp only [List.length_append, nodeText_length]
    rw [hlen, matchesAux_nodeText ']' ']' _ first (renderBody its) hfirst.2]
    rw [matches_body ']' its ']' _ hok (by omega)]
  rw [hm]
  cases its with
  | nil =>
    have hstep := stepNode_end {} ']' first (defaultAttrs first) (by decide) (parse_name first hfirst) rfl
    simp only [renderBody, toksBody, List.foldlM_cons, List.foldlM_nil, hstep, bind, Except.bind, pure, Except.pure]
    rfl
  | cons it2 its2 =>
    obtain ⟨r, hstep⟩ := stepNode_plain {} ']' first (renderBody (it2 :: its2)) it2.order (defaultAttrs first) (by decide)
      (gap_body it2 its2 (hok it2 (by simp))) (parse_name first hfirst) rfl (body_no_close (it2 :: its2) hok)
    simp only [List.foldlM_cons, hstep, bind, Except.bind]
    obtain ⟨st', h1, h2, h3⟩ := fold_body (it2 :: its2) ']'
      { ({} : RState) with g := ({} : CGGraph).addNode 0 (defaultAttrs first), current := 0 + 1, prev := some 0,
                           pbo := some it2.order, attrs := some (defaultAttrs first), rdx := some r }
      0 hok (by decide) rfl rfl rfl
    rw [h1]
    have hc : st'.cycle.isEmpty = true := by rw [h3]; rfl
    simp only [hc, Bool.not_true, Bool.false_eq_true, if_false, pure, Except.pure, h2, pathGraph]

end CGV.C04
