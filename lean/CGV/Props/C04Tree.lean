/-
  C04 for the branching grammar (Spec/Tree): every string
      '{' node ( bond? '('? node ')'* )* '}'
  with alphanumeric names, bonds . = # $ (or none) and no `)` without an open branch reads to the graph
  the stack-machine denotation gives: nodes numbered in order of appearance, every node bonded to the
  node in front of it or — directly after a closing parenthesis — to the node at which the closed
  branch was opened, with the order written in front of it (in front of the parenthesis, if any).
  String-level: nothing but the rendered text enters `readCG`.
-/
import CGV.Props.C04
import CGV.Lemmas.ReadTree
namespace CGV.C04
open CGV Gen
set_option linter.unusedSimpArgs false

def TItemOk (it : TItem) : Prop := NameOk it.name ∧ it.order ≤ 4

/-! ### the denotation's stack -/

theorem popK_spec : ∀ (k : Nat) (stack : List Nat) (prev : Nat), k ≤ stack.length →
    (popK k stack prev).1 = stack.take (stack.length - k) ∧
    (k = 0 → (popK k stack prev).2 = prev) ∧
    (0 < k → stack[stack.length - k]? = some (popK k stack prev).2)
  | 0, stack, prev, _ => ⟨by simp [popK], fun _ => rfl, fun h => absurd h (by omega)⟩
  | k + 1, stack, prev, hk => by
    have hne : stack ≠ [] := by intro e; rw [e] at hk; simp at hk
    have hlast : stack.getLast? = some (stack.getLast hne) := List.getLast?_eq_some_getLast hne
    have hk1 : k ≤ stack.dropLast.length := by rw [List.length_dropLast]; omega
    obtain ⟨h1, h2, h3⟩ := popK_spec k stack.dropLast (stack.getLast hne) hk1
    simp only [popK, hlast]
    refine ⟨?_, fun h => absurd h (by omega), fun _ => ?_⟩
    · rw [h1, List.length_dropLast, List.dropLast_eq_take, List.take_take]
      congr 1; omega
    · by_cases hk0 : k = 0
      · subst hk0
        rw [h2 rfl]
        rw [List.getLast?_eq_getElem?] at hlast
        simpa using hlast
      · have := h3 (by omega)
        rw [← this, List.length_dropLast, List.dropLast_eq_take, List.getElem?_take]
        have hlt : stack.length - 1 - k < stack.length - 1 := by omega
        simp only [hlt, if_true]
        congr 1
        omega

/-! ### the regex scan -/

/-- character in front of an item's `[` -/
def preOf (p : Char) (it : TItem) : Char := (symText it.order ++ openText it.opens).getLast?.getD p

/-- the tokens the regex scan yields for the items after a node -/
def toksTree : Char → List TItem → List (Char × Str × Str)
  | _, [] => []
  | p, it :: its =>
    (preOf p it, it.name, List.replicate it.closes ')' ++ renderItems its) ::
      toksTree ((List.replicate it.closes ')').getLast?.getD ']') its

theorem symText_no_open (o : Nat) (ho : o ≤ 4) : ∀ c ∈ symText o, c ≠ '[' ∧ c ≠ '(' := by
  have : o = 0 ∨ o = 1 ∨ o = 2 ∨ o = 3 ∨ o = 4 := by omega
  rcases this with rfl | rfl | rfl | rfl | rfl <;> decide +kernel

theorem renderItems_length_pos (its : List TItem) : 1 ≤ (renderItems its).length := by
  cases its <;> simp [renderItems, renderItem, nodeText] <;> omega

theorem matches_items (last : Char) : ∀ (its : List TItem) (p : Char) (fuel : Nat),
    (∀ it ∈ its, TItemOk it) → (renderItems its).length ≤ fuel →
    matchesAux last fuel p (renderItems its) = toksTree p its
  | [], p, fuel, _, hf => by
    obtain ⟨f, rfl⟩ : ∃ f, fuel = f + 1 := ⟨fuel - 1, by simp [renderItems] at hf; omega⟩
    simp only [renderItems, toksTree]
    rw [matchesAux_other last p '}' f [] (by decide), matchesAux_nil]
  | it :: its, p, fuel, hok, hf => by
    have hit := hok it List.mem_cons_self
    have hrest : ∀ x ∈ its, TItemOk x := fun x hx => hok x (List.mem_cons_of_mem _ hx)
    have hw : ∀ c ∈ symText it.order ++ openText it.opens, c ≠ '[' := by
      intro c hc
      rcases List.mem_append.mp hc with hc | hc
      · exact (symText_no_open it.order hit.2 c hc).1
      · unfold openText at hc; split at hc
        · simp at hc; subst hc; decide
        · simp at hc
    have hw2 : ∀ c ∈ List.replicate it.closes ')', c ≠ '[' := by
      intro c hc; rw [List.mem_replicate] at hc; rw [hc.2]; decide
    have hlen : (renderItems (it :: its)).length =
        (symText it.order ++ openText it.opens).length + (it.name.length + 3) + it.closes + (renderItems its).length := by
      simp [renderItems, renderItem, nodeText_length]; omega
    rw [hlen] at hf
    obtain ⟨f, rfl⟩ : ∃ f, fuel = ((f + it.closes) + 1) + (symText it.order ++ openText it.opens).length :=
      ⟨fuel - it.closes - 1 - (symText it.order ++ openText it.opens).length, by omega⟩
    have hf' : (renderItems its).length ≤ f := by omega
    show matchesAux last _ p (renderItem it ++ renderItems its) = _
    have hsplit : renderItem it ++ renderItems its =
        (symText it.order ++ openText it.opens) ++ (nodeText it.name ++ (List.replicate it.closes ')' ++ renderItems its)) := by
      simp [renderItem]
    rw [hsplit, matchesAux_skip last _ p _ _ hw]
    rw [matchesAux_nodeText last _ _ it.name _ hit.1.2]
    have hrl : f + it.closes = f + (List.replicate it.closes ')').length := by simp
    rw [hrl, matchesAux_skip last (List.replicate it.closes ')') ']' f (renderItems its) hw2]
    rw [matches_items last its _ f hrest hf']
    simp [toksTree, preOf]

theorem renderItems_getLast (its : List TItem) : (renderItems its).getLast? = some '}' := by
  induction its with
  | nil => rfl
  | cons it its ih =>
    show (renderItem it ++ renderItems its).getLast? = _
    rw [List.getLast?_append, ih]; rfl

theorem matches_tree (first : Str) (its : List TItem) (hfirst : NameOk first) (hok : ∀ it ∈ its, TItemOk it) :
    matches' (renderTree first its) = ('{', first, renderItems its) :: toksTree ']' its := by
  unfold matches' renderTree
  have hlast : (('{' :: (nodeText first ++ renderItems its)).getLast?.getD ' ') = '}' := by
    have h1 : ('{' :: (nodeText first ++ renderItems its)) = (['{'] ++ nodeText first) ++ renderItems its := by simp
    rw [h1, List.getLast?_append, renderItems_getLast]; rfl
  rw [hlast]
  have hlen : ('{' :: (nodeText first ++ renderItems its)).length + 1 = ((first.length + 3 + (renderItems its).length) + 1) + 1 := by
    simp only [List.length_cons, List.length_append, nodeText_length]
  rw [hlen, matchesAux_other '}' '}' '{' _ _ (by decide)]
  rw [matchesAux_nodeText '}' '{' _ first (renderItems its) hfirst.2]
  rw [matches_items '}' its ']' _ hok (by omega)]

/-! ### the state machine on the items -/

def nextOrderT : List TItem → Nat
  | [] => 1
  | it :: _ => it.order

theorem gap_items (its : List TItem) (hok : ∀ it ∈ its, TItemOk it) : TreeGap (renderItems its) (nextOrderT its) := by
  cases its with
  | nil => exact TreeGap.close
  | cons it its =>
    have hit := hok it List.mem_cons_self
    show TreeGap (renderItem it ++ renderItems its) it.order
    have hnode : ∀ r, nodeText it.name ++ r = '[' :: '#' :: (it.name ++ ']' :: r) := by intro r; simp [nodeText]
    unfold renderItem openText
    rcases symText_cases it.order hit.2 with ⟨h1, hs⟩ | ⟨_, s, hs, hlook⟩
    · rw [hs, h1]
      cases it.opens
      · simp only [Bool.false_eq_true, if_false, List.nil_append, List.append_assoc, hnode]
        exact TreeGap.node _
      · simp only [if_true, List.nil_append, List.append_assoc, hnode, List.singleton_append]
        exact TreeGap.opn _
    · rw [hs]
      cases it.opens
      · simp only [Bool.false_eq_true, if_false, List.append_nil, List.append_assoc, hnode, List.singleton_append]
        exact TreeGap.sym s it.order _ hlook
      · simp only [if_true, List.append_assoc, hnode, List.singleton_append]
        exact TreeGap.symopn s it.order _ hlook

theorem preOf_open (p : Char) (hp : p ≠ '(') (it : TItem) (hit : TItemOk it) :
    preOf p it = '(' ↔ it.opens = true := by
  unfold preOf openText
  cases hopen : it.opens
  · simp only [Bool.false_eq_true, if_false, List.append_nil, iff_false]
    rcases symText_cases it.order hit.2 with ⟨_, hs⟩ | ⟨_, s, hs, hlook⟩
    · rw [hs]; exact hp
    · rw [hs]; simp only [List.getLast?_singleton, Option.getD_some]
      exact (sym_facts s it.order hlook).2.2.2.2.2.2
  · simp

/-- the state machine on the items of a tree: the reader's graph is the denotation's graph -/
theorem fold_tree : ∀ (its : List TItem) (p : Char) (st : RState) (prev : Nat) (stack : List Nat),
    (∀ it ∈ its, TItemOk it) → Balanced stack.length its → p ≠ '(' →
    st.prev = some prev → st.anchors = stack.map some → st.branching = !st.anchors.isEmpty →
    st.attrs.isSome → st.pbo = some (nextOrderT its) →
    ∃ st', (toksTree p its).foldlM stepNode st = .ok st' ∧
      st'.g = treeGraphAux st.g stack prev st.current its ∧ st'.cycle = st.cycle
  | [], _, st, _, _, _, _, _, _, _, _, _, _ => ⟨st, rfl, rfl, rfl⟩
  | it :: its, p, st, prev, stack, hok, hbal, hp, hprev, hanch, hbr, hattrs, hpbo => by
    have hit := hok it List.mem_cons_self
    have hrest : ∀ x ∈ its, TItemOk x := fun x hx => hok x (List.mem_cons_of_mem _ hx)
    obtain ⟨hcl, hbal'⟩ := hbal
    have hpre := preOf_open p hp it hit
    -- the anchors after a possible opening
    have hanch1 : (if preOf p it = '(' then st.anchors ++ [some prev] else st.anchors) =
        (if it.opens then stack ++ [prev] else stack).map some := by
      cases hopen : it.opens
      · have : preOf p it ≠ '(' := fun e => by rw [hpre.mp e] at hopen; cases hopen
        simp [this, hanch]
      · have : preOf p it = '(' := hpre.mpr hopen
        simp [this, hanch]
    have hlen1 : (if it.opens then stack ++ [prev] else stack).length = stack.length + (if it.opens then 1 else 0) := by
      cases it.opens <;> simp
    have hk : it.closes ≤ (if preOf p it = '(' then st.anchors ++ [some prev] else st.anchors).length := by
      rw [hanch1, List.length_map, hlen1]; exact hcl
    obtain ⟨st1, hstep, hg, hcur, hcyc, hat, han, hbr1, hpbo1, hprev0, hprevk⟩ :=
      stepNode_tree st (preOf p it) it.name (renderItems its) it.closes (nextOrderT its) (defaultAttrs it.name) prev
        (gap_items its hrest) (parse_name it.name hit.1) hprev (fun _ => hattrs) hbr hk
    rw [hanch1] at han hprevk
    obtain ⟨q1, q2, q3⟩ := popK_spec it.closes (if it.opens then stack ++ [prev] else stack) st.current (by rw [hlen1]; exact hcl)
    -- the attachment point after the closings
    have hprev1 : st1.prev = some (popK it.closes (if it.opens then stack ++ [prev] else stack) st.current).2 := by
      by_cases hk0 : it.closes = 0
      · rw [hprev0 hk0, q2 hk0]
      · have h1 := hprevk (by omega)
        have h2 := q3 (by omega)
        rw [List.length_map, List.getElem?_map, h2] at h1
        simpa using h1.symm
    have han1 : st1.anchors = (popK it.closes (if it.opens then stack ++ [prev] else stack) st.current).1.map some := by
      rw [han, q1, List.length_map, List.map_take]
    have hdepth : (popK it.closes (if it.opens then stack ++ [prev] else stack) st.current).1.length =
        stack.length + (if it.opens then 1 else 0) - it.closes := by
      rw [q1, List.length_take, hlen1]; omega
    have hp' : (List.replicate it.closes ')').getLast?.getD ']' ≠ '(' := by
      cases hc : it.closes with
      | zero => simp
      | succ n => rw [List.getLast?_replicate]; simp
    obtain ⟨st', h1, h2, h3⟩ := fold_tree its _ st1 _ _ hrest (by rw [hdepth]; exact hbal') hp' hprev1 han1 hbr1
      (by rw [hat]; rfl) hpbo1
    refine ⟨st', ?_, ?_, by rw [h3, hcyc]⟩
    · simp only [toksTree, List.foldlM_cons, hstep, bind, Except.bind]
      exact h1
    · rw [h2, hg, hcur]
      simp only [treeGraphAux, hpbo, nextOrderT]

/-- the loop body on the first node of the string -/
theorem stepNode_first (name tg : Str) (o : Nat) (a : Attrs) (hgap : TreeGap tg o) (hparse : parseBase name = .ok a) :
    ∃ st', stepNode {} ('{', name, tg) = .ok st' ∧ st'.g = ({} : CGGraph).addNode 0 a ∧ st'.current = 1 ∧
      st'.prev = some 0 ∧ st'.anchors = [] ∧ st'.branching = false ∧ st'.pbo = some o ∧ st'.attrs = some a ∧
      st'.cycle = [] := by
  obtain ⟨r, hscan, hbo, hmult⟩ := gap_scan 0 tg o hgap
  simp only [List.replicate_zero, List.nil_append, if_true] at hscan hbo hmult
  unfold stepNode
  have hop : openBranch ({} : RState) '{' = .ok {} := by simp [openBranch, pure, Except.pure]
  simp only [hop, hscan, applyRings, hbo, hmult, hparse, bind, Except.bind, pure, Except.pure, Option.orElse,
    List.range, List.range.loop, List.foldlM]
  rw [addCopy_noring]
  simp only [show (1 : Nat) > 0 from by decide, if_true, Bool.false_eq_true, if_false]
  have hcl := closeLoop_zero (tg.length + 1) [] tg o
    { g := ({} : CGGraph).addNode 0 a, current := 0 + 1, anchors := [], recipes := [], prev := some 0, branching := false,
      cycle := [], pbo := some o, attrs := some a, baseAnchor := none, rdx := some r } hgap
  simp only [List.nil_append, List.length_nil] at hcl
  exact ⟨_, hcl, rfl, rfl, rfl, rfl, rfl, rfl, rfl, rfl⟩

theorem renderItems_ok (its : List TItem) (hok : ∀ it ∈ its, TItemOk it) : ∀ c ∈ renderItems its, okChar c = true := by
  induction its with
  | nil => intro c hc; simp [renderItems] at hc; subst hc; decide
  | cons it its ih =>
    have hit := hok it List.mem_cons_self
    intro c hc
    simp only [renderItems, renderItem, List.mem_append] at hc
    rcases hc with (((hc | hc) | hc) | hc) | hc
    · exact symText_ok it.order hit.2 c hc
    · unfold openText at hc; split at hc
      · simp at hc; subst hc; decide
      · simp at hc
    · exact nodeText_ok it.name hit.1.2 c hc
    · rw [List.mem_replicate] at hc; rw [hc.2]; decide
    · exact ih (fun x hx => hok x (List.mem_cons_of_mem _ hx)) c hc

theorem renderTree_supported (first : Str) (its : List TItem) (hfirst : NameOk first) (hok : ∀ it ∈ its, TItemOk it) :
    ((renderTree first its).any fun c => c == '\n' || decide (c.toNat > 127)) = false := by
  rw [List.any_eq_false]
  intro c hc
  have : okChar c = true := by
    simp only [renderTree, List.mem_cons, List.mem_append] at hc
    rcases hc with rfl | hc | hc
    · decide
    · exact nodeText_ok first hfirst.2 c hc
    · exact renderItems_ok its hok c hc
  simpa [okChar] using this

/-- **C04 for the branching grammar.** Every string `{ node (bond? '('? node ')'*)* }` with
    alphanumeric names, bond symbols . = # $ (or none) and no `)` without an open branch — any length,
    any nesting depth, branches opening directly after closings, symbols in front of parentheses and
    after them — reads to exactly the graph its stack-machine denotation gives. -/
theorem C04_read_tree (first : Str) (its : List TItem) (hfirst : NameOk first) (hok : ∀ it ∈ its, TItemOk it)
    (hbal : Balanced 0 its) : readCG (renderTree first its) = .ok (treeGraph first its) := by
  have hsup := renderTree_supported first its hfirst hok
  unfold readCG
  simp only [hsup, Bool.false_eq_true, if_false]
  rw [matches_tree first its hfirst hok]
  obtain ⟨st1, hstep, hg, hcur, hprev, hanch, hbr, hpbo, hat, hcyc⟩ :=
    stepNode_first first (renderItems its) (nextOrderT its) (defaultAttrs first) (gap_items its hok) (parse_name first hfirst)
  simp only [List.foldlM_cons, hstep, bind, Except.bind]
  obtain ⟨st', h1, h2, h3⟩ := fold_tree its ']' st1 0 [] hok hbal (by decide) hprev (by rw [hanch]; rfl)
    (by rw [hbr, hanch]; rfl) (by rw [hat]; rfl) hpbo
  rw [h1]
  have hc : st'.cycle.isEmpty = true := by rw [h3, hcyc]; rfl
  simp only [hc, Bool.not_true, Bool.false_eq_true, if_false, pure, Except.pure, h2, hg, hcur, treeGraph]

/-- chains are the trees without parentheses: the chain theorem is an instance -/
theorem treeGraph_ofChain (first : Str) (its : List LItem) : treeGraph first (ofChain its) = pathGraph first its := by
  unfold treeGraph pathGraph
  generalize ({} : CGGraph).addNode 0 (defaultAttrs first) = g
  generalize (0 : Nat) = prev
  generalize (1 : Nat) = k
  induction its generalizing g prev k with
  | nil => rfl
  | cons it its ih =>
    simp only [ofChain, List.map_cons, treeGraphAux, popK, pathGraphAux, Bool.false_eq_true, if_false]
    exact ih _ _ _

/-- an instance with a branch, symbols in front of the parenthesis and after it: the premises are
    satisfiable, the rendered text is the documented syntax -/
def exItems : List TItem := [⟨"B".toList, 2, true, 0⟩, ⟨"C".toList, 1, false, 1⟩, ⟨"D".toList, 3, false, 0⟩]

example : renderTree "A".toList exItems = "{[#A]=([#B][#C])#[#D]}".toList := by decide +kernel
example : Balanced 0 exItems := by simp [Balanced, exItems]
example : ∀ it ∈ exItems, TItemOk it := by
  intro it hit
  simp only [exItems, List.mem_cons, List.mem_nil_iff, or_false] at hit
  rcases hit with rfl | rfl | rfl <;> exact ⟨⟨by decide, by decide⟩, by decide⟩
example : readCG "{[#A]=([#B][#C])#[#D]}".toList = .ok (treeGraph "A".toList exItems) := by decide +kernel

end CGV.C04
