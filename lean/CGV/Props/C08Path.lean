/-
  C08 for coarse path fragments, writer side: a fragment that is a path of named beads, each carrying any
  list of bonding descriptors, is written as `[#n0] d… b1 [#n1] d… …` — every bead directly followed by its
  descriptors in the documented form (`format_bonding` is the function translated from the source), the
  bond symbol in front of the next bead.
-/
import CGV.Props.C07Path
import CGV.Props.C08
namespace CGV.C08
open CGV Gen C04 C07
set_option linter.unusedSimpArgs false

theorem edgeSymbol_of_order' (g : WGraph) (u v o : Nat) (ho : o ≤ 4) (hord : g.order2? u v = some (2 * o))
    (hu : g.aromatic u = false) : edgeSymbol g u v = .ok (symText o) := by
  by_cases h1 : o = 1
  · have : symText o = [] := by rw [h1]; decide +kernel
    rw [this]
    exact C07_single_bond_silent _ _ _ (by rw [hord, h1]) (by rw [hu]; rfl)
  · obtain ⟨c, hc1, _, hc3⟩ := C07_symbols_inverse o ho h1
    have hne : (2 * o == 2) = false := by simp <;> omega
    simp [edgeSymbol, writeEdgeSymbol, hord, hu, hne, hc1, hc3, pyGet, bind, Except.bind, pure, Except.pure]

/-- a bead of a fragment: name and descriptors -/
abbrev Bead := Str × List WFDesc

def nodesFromB (k : Nat) : List Bead → List WNode
  | [] => []
  | b :: r => ⟨k, nodeText b.1, b.2.map (·.text), false⟩ :: nodesFromB (k + 1) r

/-- the path fragment as the writer sees it; `its` = (bond order to the previous bead, bead) -/
def pathWB (first : Bead) (its : List (Nat × Bead)) : WGraph :=
  { nodes := nodesFromB 0 (first :: its.map (·.2)),
    edges := edgesFromP 0 (its.map fun it => ⟨it.2.1, it.1⟩),
    succ := succFrom 0 (its.map fun it => ⟨it.2.1, it.1⟩), ringEdges := [], smilesFormat := false }

/-- the chain items without descriptors -/
def plain (its : List (Nat × Bead)) : List LItem := its.map fun it => ⟨it.2.1, it.1⟩

theorem nodesFromB_find (beads : List Bead) : ∀ (k i : Nat) (b : Bead), beads[i]? = some b →
    (nodesFromB k beads).find? (·.key == k + i) = some ⟨k + i, nodeText b.1, b.2.map (·.text), false⟩ := by
  induction beads with
  | nil => intro k i b h; simp at h
  | cons x xs ih =>
    intro k i b h
    cases i with
    | zero => simp at h; subst h; simp [nodesFromB]
    | succ i =>
      have hne : (k == k + (i + 1)) = false := by simp <;> omega
      simp only [nodesFromB, List.find?_cons, hne]
      have := ih (k + 1) i b (by simpa using h)
      rw [show k + 1 + i = k + (i + 1) from by omega] at this
      exact this

theorem pathWB_aromatic (first : Bead) (its : List (Nat × Bead)) (j : Nat) : (pathWB first its).aromatic j = false := by
  unfold WGraph.aromatic WGraph.node? pathWB
  simp only
  generalize (first :: its.map (·.2)) = beads
  generalize (0 : Nat) = k
  induction beads generalizing k with
  | nil => simp [nodesFromB]
  | cons x xs ih =>
    simp only [nodesFromB, List.find?_cons]
    split
    · rfl
    · exact ih (k + 1)

theorem edgeSymbol_pathWB (first : Bead) (its : List (Nat × Bead)) (i : Nat) (it : Nat × Bead) (h : its[i]? = some it)
    (ho : it.1 ≤ 4) : edgeSymbol (pathWB first its) i (i + 1) = .ok (symText it.1) := by
  apply edgeSymbol_of_order' _ _ _ _ ho _ (pathWB_aromatic first its i)
  have hp : (plain its)[i]? = some ⟨it.2.1, it.1⟩ := by simp [plain, h]
  have := edges_find (plain its) 0 i _ hp
  simpa [WGraph.order2?, pathWB, plain] using this

/-- one iteration of the writer's loop on a bead of the path: bond symbol, bead text, its descriptors -/
theorem writeStep_bead (first : Bead) (its : List (Nat × Bead)) (acc : Str) (j : Nat) (b : Bead) (sym : Str)
    (hb : (first :: its.map (·.2))[j]? = some b)
    (hsym : (match (predOf (pathWB first its)).lookup j with
             | some previous => edgeSymbol (pathWB first its) previous j
             | none => pure []) = .ok sym) :
    writeStep (pathWB first its) (predOf (pathWB first its)) ⟨acc, [j], [], 0, []⟩ =
      .ok ⟨acc ++ sym ++ nodeText b.1 ++ b.2.flatMap (·.fmt), if j < its.length then [j + 1] else [], [], 0, []⟩ := by
  have hnode : (pathWB first its).node? j = some ⟨j, nodeText b.1, b.2.map (·.text), false⟩ := by
    have := nodesFromB_find (first :: its.map (·.2)) 0 j b hb
    simpa [WGraph.node?, pathWB] using this
  have hsucc : (pathWB first its).succ.lookup j = if j < its.length then some [j + 1] else none := by
    have := succFrom_lookup (plain its) 0 j
    simpa [pathWB, plain] using this
  have hring : ringIdxsOf (pathWB first its) j = [] := by simp [ringIdxsOf, pathWB]
  have hfmt := formatBonding_wf b.2
  unfold writeStep
  by_cases hemp : b.2 = []
  · simp only [List.getLast?_singleton, List.dropLast_singleton, List.contains_nil, hsym, hnode, hring, hsucc, hemp,
      bind, Except.bind, pure, Except.pure, Bool.false_eq_true, if_false, List.isEmpty_nil, if_true, List.foldlM_nil,
      List.filter_nil, List.append_nil, List.flatMap_nil, List.map_nil]
    cases hl : (predOf (pathWB first its)).lookup j with
    | none =>
      rw [hl] at hsym
      simp only [pure, Except.pure, Except.ok.injEq] at hsym
      subst hsym
      by_cases hj : j < its.length <;> simp [hj]
    | some previous =>
      rw [hl] at hsym
      simp only at hsym
      by_cases hj : j < its.length <;> simp [hj, hsym]
  · have hne : (b.2.map (·.text)).isEmpty = false := by
      cases hb2 : b.2 with
      | nil => exact absurd hb2 hemp
      | cons _ _ => simp
    simp only [List.getLast?_singleton, List.dropLast_singleton, List.contains_nil, hsym, hnode, hring, hsucc, hne, hfmt,
      bind, Except.bind, pure, Except.pure, Bool.false_eq_true, if_false, List.isEmpty_nil, if_true, List.foldlM_nil,
      List.filter_nil, List.append_nil, List.flatMap_nil]
    cases hl : (predOf (pathWB first its)).lookup j with
    | none =>
      rw [hl] at hsym
      simp only [pure, Except.pure, Except.ok.injEq] at hsym
      subst hsym
      by_cases hj : j < its.length <;> simp [hj]
    | some previous =>
      rw [hl] at hsym
      simp only at hsym
      by_cases hj : j < its.length <;> simp [hj, hsym]

/-- the fragment text behind the first bead -/
def renderBeads : List (Nat × Bead) → Str
  | [] => []
  | it :: r => symText it.1 ++ nodeText it.2.1 ++ it.2.2.flatMap (·.fmt) ++ renderBeads r

def BeadOk (it : Nat × Bead) : Prop := NameOk it.2.1 ∧ it.1 ≤ 4

theorem writeLoop_beads (first : Bead) (its : List (Nat × Bead)) (hok : ∀ it ∈ its, BeadOk it) :
    ∀ (m i : Nat) (acc : Str) (fuel : Nat), its.length - i = m → m < fuel →
    writeLoop (pathWB first its) (predOf (pathWB first its)) fuel ⟨acc, if i < its.length then [i + 1] else [], [], 0, []⟩ =
      .ok ⟨acc ++ renderBeads (its.drop i), [], [], 0, []⟩
  | 0, i, acc, fuel, hm, _ => by
    have hi : ¬ i < its.length := by omega
    have hd : its.drop i = [] := List.drop_eq_nil_of_le (by omega)
    simp only [hi, if_false, hd, renderBeads, List.append_nil]
    cases fuel with
    | zero => rfl
    | succ f => simp [writeLoop, pure, Except.pure]
  | m + 1, i, acc, fuel, hm, hf => by
    have hi : i < its.length := by omega
    obtain ⟨f, rfl⟩ : ∃ f, fuel = f + 1 := ⟨fuel - 1, by omega⟩
    have hit : its[i]? = some its[i] := List.getElem?_eq_getElem hi
    have hmem : its[i] ∈ its := List.getElem_mem hi
    have hb : (first :: its.map (·.2))[i + 1]? = some its[i].2 := by simp [hi]
    have hpred : (predOf (pathWB first its)).lookup (i + 1) = some i := by
      have := pred_lookup (plain its) 0 i
      simpa [predOf, pathWB, plain, hi] using this
    have hsym : (match (predOf (pathWB first its)).lookup (i + 1) with
                 | some previous => edgeSymbol (pathWB first its) previous (i + 1)
                 | none => pure []) = .ok (symText its[i].1) := by
      rw [hpred]; exact edgeSymbol_pathWB first its i its[i] hit (hok _ hmem).2
    have hstep := writeStep_bead first its acc (i + 1) its[i].2 (symText its[i].1) hb hsym
    simp only [hi, if_true]
    rw [writeLoop]
    simp only [List.isEmpty_cons, Bool.false_eq_true, if_false, hstep, bind, Except.bind]
    rw [writeLoop_beads first its hok m (i + 1) _ f (by omega) (by omega)]
    have hdrop : its.drop i = its[i] :: its.drop (i + 1) := List.drop_eq_getElem_cons hi
    rw [hdrop]
    simp only [renderBeads, List.append_assoc]

/-- **the writer on a coarse path fragment**: every bead is followed by its descriptors as `format_bonding`
    writes them, the bond symbol stands in front of the next bead -/
theorem writeGraph_beads (first : Bead) (its : List (Nat × Bead)) (hok : ∀ it ∈ its, BeadOk it) :
    writeGraph (pathWB first its) = .ok (nodeText first.1 ++ first.2.flatMap (·.fmt) ++ renderBeads its) := by
  unfold writeGraph
  have hkeys : (pathWB first its).nodes.map (·.key) = 0 :: ((nodesFromB 1 (its.map (·.2))).map (·.key)) := by
    simp [pathWB, nodesFromB]
  have hnlen : ∀ (k : Nat) (l : List Bead), (nodesFromB k l).length = l.length := by
    intro k l; induction l generalizing k with
    | nil => rfl
    | cons x xs ih => simp [nodesFromB, ih]
  have hlen : (pathWB first its).nodes.length = its.length + 1 := by simp [pathWB, hnlen]
  have hpred0 : (predOf (pathWB first its)).lookup 0 = none := by
    have := pred_lookup_low (plain its) 0 0 (Nat.le_refl 0)
    simpa [predOf, pathWB, plain] using this
  have hsym0 : (match (predOf (pathWB first its)).lookup 0 with
                | some previous => edgeSymbol (pathWB first its) previous 0
                | none => pure []) = .ok ([] : Str) := by rw [hpred0]; rfl
  have hstep := writeStep_bead first its [] 0 first [] (by simp) hsym0
  have hloop := writeLoop_beads first its hok (its.length - 0) 0 ([] ++ [] ++ nodeText first.1 ++ first.2.flatMap (·.fmt))
    (its.length + 1) rfl (by omega)
  simp only [hkeys, foldl_min_zero, hlen, bind, Except.bind, pure, Except.pure]
  rw [show its.length + 1 + 1 = (its.length + 1) + 1 from rfl, writeLoop]
  simp only [List.isEmpty_cons, Bool.false_eq_true, if_false, bind, Except.bind]
  have hpd : (List.flatMap (fun x => List.map (fun s => (s, x.fst)) x.snd) (pathWB first its).succ) = predOf (pathWB first its) := rfl
  rw [hpd]
  have hst0 : ({ toVisit := [0] } : WState) = ⟨[], [0], [], 0, []⟩ := rfl
  rw [hst0, hstep]
  simp only []
  rw [hloop]
  simp

end CGV.C08
