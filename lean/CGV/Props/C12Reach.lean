/-
  C12 for every resolution step the model can take: whatever base graph, fragment templates (distinct
  keys, closed bonds) and recorded aromaticity answer — when the step succeeds, the fine graph's keys are
  exactly 0 … n-1.  The `Nodup` hypothesis of the C12 theorems is discharged through phase A (C10Reach),
  the aromaticity patch, hydrogen completion, sorting, stereo annotation and naming.
-/
import CGV.Props.C10Reach
import CGV.Props.C12
namespace CGV.C12
open CGV Mol C10
set_option linter.unusedSimpArgs false

theorem applyArom_keys (m : Mol) (p : AromPatch) : (applyArom m p).keys = m.keys := by
  unfold applyArom Mol.keys
  simp only [List.map_map]
  apply List.map_congr_left
  intro a _
  simp only [Function.comp]
  split <;> rfl

/-- one atom's hydrogens get fresh keys -/
theorem hStep_keys (m : Mol) (kc : Key × Nat) : (hStep m kc).keys = m.keys ++ (List.range kc.2).map (m.nextKey + ·) := by
  unfold hStep Mol.keys
  simp [List.map_append, List.map_map, Function.comp]

theorem hStep_nodup (m : Mol) (kc : Key × Nat) (h : m.keys.Nodup) : (hStep m kc).keys.Nodup := by
  rw [hStep_keys]
  apply List.nodup_append.mpr
  refine ⟨h, ?_, ?_⟩
  · rw [← List.range'_eq_map_range]; exact List.nodup_range' 1
  · intro a ha b hb e
    subst e
    obtain ⟨i, _, hi⟩ := List.mem_map.mp hb
    have h1 := key_lt_nextKey m _ ha
    have h2 : m.nextKey ≤ m.nextKey + i := Nat.le_add_right _ _
    rw [hi] at h2
    exact absurd h1 (Nat.not_lt.mpr h2)

theorem addHs_nodup (m : Mol) (counts : List (Key × Nat)) (h : m.keys.Nodup) : (addHs m counts).keys.Nodup := by
  unfold addHs
  have h0 : ({ m with atoms := m.atoms.map fun a => { a with hcount2 := 0 } } : Mol).keys.Nodup := by
    have : ({ m with atoms := m.atoms.map fun a => { a with hcount2 := 0 } } : Mol).keys = m.keys := by
      unfold Mol.keys; simp [List.map_map, Function.comp]
    rw [this]; exact h
  generalize ({ m with atoms := m.atoms.map fun a => { a with hcount2 := 0 } } : Mol) = m0 at h0
  induction counts generalizing m0 with
  | nil => exact h0
  | cons c cs ih => simp only [List.foldl_cons]; exact ih _ (hStep_nodup m0 c h0)

theorem mapM_keys (f : Atom → Py Atom) (hf : ∀ a b, f a = .ok b → b.key = a.key) :
    ∀ (l r : List Atom), l.mapM f = .ok r → r.map (·.key) = l.map (·.key)
  | [], r, h => by simp [List.mapM_nil, pure, Except.pure] at h; subst h; rfl
  | x :: xs, r, h => by
    rw [List.mapM_cons] at h
    cases hx : f x with
    | error e => rw [hx] at h; simp [bind, Except.bind] at h
    | ok v =>
      cases hr : xs.mapM f with
      | error e => rw [hx, hr] at h; simp [bind, Except.bind] at h
      | ok vs =>
        rw [hx, hr] at h
        simp [bind, Except.bind, pure, Except.pure] at h
        subst h
        simp [hf x v hx, mapM_keys f hf xs vs hr]

theorem inheritH_keys (m m' : Mol) (h : inheritH m = .ok m') : m'.keys = m.keys := by
  unfold inheritH at h
  simp only [bind, Except.bind] at h
  split at h
  · simp at h
  · rename_i atoms hat
    simp only [pure, Except.pure, Except.ok.injEq] at h
    subst h
    unfold Mol.keys
    apply mapM_keys _ _ _ _ hat
    intro a b hab
    split at hab
    · split at hab
      · simp [throw, throwThe, MonadExceptOf.throw] at hab
      · split at hab
        · simp [throw, throwThe, MonadExceptOf.throw] at hab
        · simp only [pure, Except.pure, Except.ok.injEq] at hab; subst hab; rfl
    · simp only [pure, Except.pure, Except.ok.injEq] at hab; subst hab; rfl

theorem rebuildH_nodup (m m' : Mol) (hm : m.keys.Nodup) (h : rebuildH m = .ok m') : m'.keys.Nodup := by
  unfold rebuildH at h
  simp only [bind, Except.bind] at h
  split at h
  · simp at h
  · rename_i counts _
    rw [inheritH_keys _ _ h]
    exact addHs_nodup m counts hm

theorem annotateEZ_keys (m m' : Mol) (h : annotateEZ m = .ok m') : m'.keys = m.keys := by
  unfold annotateEZ at h
  simp only [bind, Except.bind] at h
  split at h
  · simp at h
  · simp only [pure, Except.pure, Except.ok.injEq] at h
    subst h
    unfold Mol.keys
    simp [List.map_map, Function.comp]

theorem setNames_keys (m : Mol) (mg : Meta) : (setNames m mg).keys = m.keys := by
  unfold setNames
  generalize mg.nodes = ns
  induction ns generalizing m with
  | nil => rfl
  | cons n ns ih =>
    simp only [List.foldl_cons]
    rw [ih]
    generalize (membersOf m n.key).zipIdx = l
    induction l generalizing m with
    | nil => rfl
    | cons p ps ih2 =>
      simp only [List.foldl_cons]
      rw [ih2]
      exact updAtom_keys m p.1 _ (fun a => rfl)

/-- phase B keeps keys 0 … n-1 -/
theorem phaseB_keys (allAtom : Bool) (mg : Meta) (m : Mol) (out : StepOut) (hm : m.keys.Nodup)
    (h : phaseB allAtom mg m = .ok out) : out.fine.keys.Perm (List.range out.fine.atoms.length) := by
  have hlen : ∀ x : Mol, x.atoms.length = x.keys.length := fun x => by simp [Mol.keys]
  unfold phaseB at h
  cases allAtom with
  | false =>
    simp only [Bool.false_eq_true, if_false, pure, Except.pure, bind, Except.bind, Except.ok.injEq] at h
    subst h
    have := C12_keys m hm
    rw [hlen, this.length_eq]; simpa using this
  | true =>
    simp only [if_true, bind, Except.bind] at h
    split at h
    · simp at h
    · rename_i m1 h1
      split at h
      · simp at h
      · rename_i m2 h2
        simp only [pure, Except.pure, Except.ok.injEq] at h
        subst h
        have hk := C12_keys m1 (rebuildH_nodup m m1 hm h1)
        have e2 := annotateEZ_keys _ _ h2
        simp only [hlen, setNames_keys, e2]
        rw [hk.length_eq]; simpa using hk

/-- **C12 for every step of the resolver model**: whatever the base graph, the templates (distinct keys,
    closed bonds) and the recorded aromaticity answer, a step that succeeds returns a fine graph whose keys
    are exactly 0 … n-1. -/
theorem C12_step_keys (cp : Desc → Desc → Bool) (allAtom : Bool) (mg : Meta) (fd : FragDict) (hfd : FragsWF fd)
    (pre : Mol) (ks : List Key) (patch : Option AromPatch) (out : StepOut)
    (hA : phaseA cp allAtom mg fd = .ok (pre, ks))
    (hB : phaseB allAtom mg (match patch with | some p => applyArom pre p | none => pre) = .ok out) :
    out.fine.keys.Perm (List.range out.fine.atoms.length) := by
  have hpre : pre.keys.Nodup := by
    unfold phaseA at hA
    simp only [bind, Except.bind] at hA
    split at hA
    · simp at hA
    · rename_i r hd
      obtain ⟨m0, inst⟩ := r
      simp only at hA
      split at hA
      · simp at hA
      · rename_i m1 hcn
        simp only [pure, Except.pure, Except.ok.injEq, Prod.mk.injEq] at hA
        rw [← hA.1]
        exact (C10_resolver_count cp allAtom mg fd hfd m0 m1 inst hd hcn).2.2.2
  apply phaseB_keys allAtom mg _ out _ hB
  cases patch with
  | none => exact hpre
  | some p => simp only [applyArom_keys]; exact hpre

end CGV.C12
