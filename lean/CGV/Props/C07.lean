import CGV.Model.Write
import CGV.Model.ReadCG
namespace CGV.C07
end CGV.C07
