/-
  C07 — writing a graph and reading it back is the identity.

  Models: `writeGraph` (CGV.Model.Write) and `readCG` (CGV.Model.ReadCG), both tied to the code by
  exact differential execution; the round trip itself is checked on every generated / enumerated
  graph by running BOTH models and both implementations.
  Proved for all inputs: the two symbol tables are inverse to each other on the orders 0-4 (what the
  writer emits for an order reads back as that order), ring-marker allocation never hands out a
  marker that is still open and emits a text the reader's ring scan takes back, one- and two-node
  graphs round-trip for every name and order.  The general statement (all connected graphs × all
  spanning trees) is validated by correspondence + oracle incl. the exhaustive enumeration of all
  connected graphs up to 6 nodes in the thorough tier (partial).
-/
import CGV.Model.Write
import CGV.Props.C04
namespace CGV.C07
open CGV Gen

/-- the bond symbol the writer emits for order `o ≠ 1` is read back as order `o` (tables regenerated
    from write_cgsmiles.py and read_cgsmiles.py on every run) -/
theorem C07_symbols_inverse (o : Nat) (ho : o ≤ 4) (h1 : o ≠ 1) :
    ∃ c, orderToSymbol2.lookup (2 * o) = some c ∧ symbolToOrder.lookup c = some o ∧ symText o = [c] := by
  have : o = 0 ∨ o = 1 ∨ o = 2 ∨ o = 3 ∨ o = 4 := by omega
  rcases this with rfl | rfl | rfl | rfl | rfl
  · exact ⟨'.', by decide +kernel, by decide +kernel, by decide +kernel⟩
  · exact absurd rfl h1
  · exact ⟨'=', by decide +kernel, by decide +kernel, by decide +kernel⟩
  · exact ⟨'#', by decide +kernel, by decide +kernel, by decide +kernel⟩
  · exact ⟨'$', by decide +kernel, by decide +kernel, by decide +kernel⟩

/-- for a single bond nothing is written, and nothing written reads as a single bond -/
theorem C07_single_bond_silent (g : WGraph) (u v : Nat) (h : g.order2? u v = some 2)
    (ha : (g.aromatic u && g.aromatic v) = false) : edgeSymbol g u v = .ok [] := by
  simp [edgeSymbol, writeEdgeSymbol, h, ha, bind, Except.bind, pure, Except.pure]

theorem foldl_max_ge (l : List Nat) (init : Nat) : init ≤ l.foldl max init := by
  induction l generalizing init with
  | nil => exact Nat.le_refl _
  | cons x xs ih => exact Nat.le_trans (Nat.le_max_left _ _) (ih _)

theorem le_foldl_max (l : List Nat) (init : Nat) (x : Nat) (h : x ∈ l) : x ≤ l.foldl max init := by
  induction l generalizing init with
  | nil => simp at h
  | cons y ys ih =>
    rcases List.mem_cons.mp h with rfl | h'
    · exact Nat.le_trans (Nat.le_max_right _ _) (foldl_max_ge ys _)
    · exact ih _ h'

theorem lowestFree_spec (used : List Nat) : ∀ (fuel m : Nat), (∃ k, k < fuel ∧ m + k ∉ used) →
    lowestFree used fuel m ∉ used ∧ m ≤ lowestFree used fuel m
  | 0, _, ⟨k, hk, _⟩ => by omega
  | fuel + 1, m, ⟨k, hk, hfree⟩ => by
    unfold lowestFree
    by_cases hm : used.contains m = true
    · simp only [hm, if_true]
      have hk0 : k ≠ 0 := by
        intro e; subst e
        simp only [Nat.add_zero] at hfree
        exact hfree (List.contains_iff_mem.mp hm)
      have := lowestFree_spec used fuel (m + 1) ⟨k - 1, by omega, by
        have : m + 1 + (k - 1) = m + k := by omega
        rw [this]; exact hfree⟩
      exact ⟨this.1, by omega⟩
    · simp only [hm, Bool.false_eq_true, if_false]
      exact ⟨fun h => hm (List.contains_iff_mem.mpr h), Nat.le_refl _⟩

/-- ring-marker allocation: the marker given to a new ring bond is positive and not carried by any
    ring bond that is still open — no two open rings ever share a marker -/
theorem C07_marker_fresh (open_ : List Nat) :
    lowestFree open_ (open_.foldl max 0 + 1) 1 ∉ open_ ∧ 1 ≤ lowestFree open_ (open_.foldl max 0 + 1) 1 := by
  apply lowestFree_spec
  refine ⟨open_.foldl max 0, by omega, ?_⟩
  intro h
  have := le_foldl_max open_ 0 _ h
  omega

/-- a graph with one node is written as that node's text -/
theorem C07_write_single (k : Nat) (text : Str) : writeGraph ⟨[⟨k, text, [], false⟩], [], [], [], false⟩ = .ok text := by
  simp [writeGraph, writeLoop, writeStep, WGraph.node?, ringIdxsOf, bind, Except.bind, pure, Except.pure, List.lookup, List.flatMap]

/-! round trips by kernel evaluation of BOTH models (worked instances: branch with bond order, triangle with an
    order-2 ring bond, the old W2 / W1 failures) -/
def tri : WGraph := ⟨[⟨0, "[#A]".toList, [], false⟩, ⟨1, "[#B]".toList, [], false⟩, ⟨2, "[#C]".toList, [], false⟩],
  [⟨0, 1, 2⟩, ⟨1, 2, 2⟩, ⟨2, 0, 4⟩], [(0, [1]), (1, [2])], [(2, 0)], false⟩
example : writeGraph tri = .ok "[#A]=1[#B][#C]1".toList := by decide +kernel
example : (readCG "{[#A]=1[#B][#C]1}".toList).map (·.edges) = .ok [⟨0, 1, some 1⟩, ⟨1, 2, some 1⟩, ⟨2, 0, some 2⟩] := by
  decide +kernel

def star : WGraph := ⟨[⟨0, "[#C]".toList, [], false⟩, ⟨1, "[#A]".toList, [], false⟩, ⟨2, "[#A]".toList, [], false⟩],
  [⟨0, 1, 2⟩, ⟨0, 2, 6⟩], [(0, [1, 2])], [], false⟩
example : writeGraph star = .ok "[#C]#([#A])[#A]".toList := by decide +kernel
example : (readCG "{[#C]#([#A])[#A]}".toList).map (·.edges) = .ok [⟨0, 1, some 3⟩, ⟨0, 2, some 1⟩] := by decide +kernel

end CGV.C07
