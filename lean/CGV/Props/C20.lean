/-
  C20 — malformed input is rejected, never silently resolved.

  Models: `parseAnno` (dialects.py), `readCG`/`stepNode`/`applyRings` (read_cgsmiles.py),
  `disconnected` (resolve.py).  In the models an exception is a value of `Except`; "no graph is
  returned" is `… = .error _`.
-/
import CGV.Lemmas.Anno
import CGV.Lemmas.Fold
import CGV.Model.ReadCG
import CGV.Props.C11
namespace CGV.C20
open CGV Gen

/-! ### annotation faults -/

theorem classifyEntry_cases (entry : Str) :
    classifyEntry entry = .error .syntax ∨ ∃ r, classifyEntry entry = .ok r := by
  unfold classifyEntry
  split
  · exact Or.inl rfl
  · split <;> first | exact Or.inr ⟨_, rfl⟩ | exact Or.inl rfl

/-- an entry with two (or more) `=` makes the whole annotation a SyntaxError — whichever entry it is
    and whatever the other entries are -/
theorem C20_two_equals (sig : DialectSig) (s : Str) (bad : Str) (hne : s ≠ [])
    (hbad : bad ∈ splitOn annotationSep s) (hcount : bad.count annotationAssign > 1) :
    parseAnno sig s = .error .syntax := by
  have hc : collect s = .error .syntax := by
    unfold collect
    have : s.isEmpty = false := by cases s <;> simp_all
    simp only [this, Bool.false_eq_true, if_false]
    apply foldlM_error_of_mem _ .syntax bad _ _ hbad
    · intro st
      simp [classifyEntry, hcount, bind, Except.bind]
    · intro y _ st
      rcases classifyEntry_cases y with h | ⟨r, h⟩
      · exact Or.inl (by simp [h, bind, Except.bind])
      · obtain ⟨k, v⟩ := r
        cases k with
        | none => exact Or.inr ⟨(st.1 ++ [v], st.2), by simp [h, bind, Except.bind, pure, Except.pure]⟩
        | some k => exact Or.inr ⟨(st.1, pySet st.2 k v), by simp [h, bind, Except.bind, pure, Except.pure]⟩
  simp [parseAnno, hc, bind, Except.bind]

/-- more positional values than reserved parameters: SyntaxError -/
theorem C20_surplus_positional (sig : DialectSig) (args : List Str) (kw : List (Str × Str))
    (h : args.length > sig.params.length) : bindSig sig args kw = .error .syntax := by
  unfold bindSig; rw [if_pos h]

/-- concretely: a fourth positional entry in a base-graph node, a third in an atom -/
theorem C20_surplus_base (a b c d : Str) (kw : List (Str × Str)) : bindSig baseDialect [a, b, c, d] kw = .error .syntax :=
  C20_surplus_positional _ _ _ (by simp [baseDialect])
theorem C20_surplus_frag (a b c : Str) (kw : List (Str × Str)) : bindSig fragDialect [a, b, c] kw = .error .syntax :=
  C20_surplus_positional _ _ _ (by simp [fragDialect])

/-- a reserved parameter given positionally and by keyword: SyntaxError -/
theorem C20_duplicate_argument (name q q' : Str) :
    bindSig baseDialect [name, q] [(['q'], q')] = .error .syntax := by rfl

/-- a non-numeric value for a numeric reserved key is a TypeError (the values before it being fine) -/
theorem C20_non_numeric (sig : DialectSig) (pre post : List (AnnoParam × Str)) (p : AnnoParam) (v : Str)
    (extra : List (Str × Str)) (hp : p.type = .float) (hv : parseFloat v = .ok none)
    (hpre : ∀ y ∈ pre, ∃ r, castVal y.1 y.2 = .ok r) :
    finishAnno sig (pre ++ (p, v) :: post) extra = .error .type := by
  unfold finishAnno
  have : (pre ++ (p, v) :: post).mapM (fun (x : AnnoParam × Str) => do
      let c ← castVal x.1 x.2
      pure (x.1.name, c)) = .error .type := by
    apply mapM_error_at
    · intro y hy
      obtain ⟨r, hr⟩ := hpre y hy
      exact ⟨(y.1.name, r), by simp [hr, bind, Except.bind, pure, Except.pure]⟩
    · simp [castVal, hp, hv, bind, Except.bind, throw, throwThe, MonadExceptOf.throw]
  simp only [bind, Except.bind] at this ⊢
  rw [this]

/-! ### the error reaches the caller of `read_cgsmiles` -/

/-- whatever exception the loop body raises at some node is what `read_cgsmiles` raises: no handler
    exists on the path -/
theorem C20_read_propagates (s : Str) (pre post : List (Char × Str × Str)) (m : Char × Str × Str) (st : RState) (e : PyErr)
    (hs : (s.any fun c => c == '\n' || c.toNat > 127) = false)
    (hm : matches' s = pre ++ m :: post) (hpre : pre.foldlM stepNode {} = .ok st) (hstep : stepNode st m = .error e) :
    readCG s = .error e := by
  unfold readCG
  simp only [hs, Bool.false_eq_true, if_false, hm]
  rw [foldlM_error_at stepNode pre post m {} st e hpre hstep]
  rfl

/-! ### ring faults -/

/-- a ring marker that is still open at the end of the string: SyntaxError -/
theorem C20_dangling (s : Str) (st : RState)
    (hs : (s.any fun c => c == '\n' || c.toNat > 127) = false)
    (hrun : (matches' s).foldlM stepNode {} = .ok st) (hopen : st.cycle ≠ []) :
    readCG s = .error .syntax := by
  unfold readCG
  have : st.cycle.isEmpty = false := by cases h : st.cycle <;> simp_all
  simp [hs, hrun, this, bind, Except.bind, throw, throwThe, MonadExceptOf.throw]

def hasKey (c : List (Nat × Nat × Nat)) (m : Nat) : Bool := c.any (·.1 == m)

theorem lookup_isSome_iff_hasKey (c : List (Nat × Nat × Nat)) (m : Nat) : (c.lookup m).isSome = hasKey c m := by
  induction c with
  | nil => rfl
  | cons x xs ih =>
    obtain ⟨k, v⟩ := x
    simp only [List.lookup, hasKey, List.any_cons]
    by_cases h : m = k
    · subst h; simp
    · have h1 : (m == k) = false := by simpa using h
      have h2 : (k == m) = false := by simpa using fun e : k = m => h e.symm
      simp only [h1, h2, Bool.false_or]
      exact ih

theorem hasKey_pyDel (c : List (Nat × Nat × Nat)) (m m' : Nat) : hasKey (pyDel c m) m' = (hasKey c m' && m' != m) := by
  induction c with
  | nil => simp [hasKey, pyDel]
  | cons x xs ih =>
    obtain ⟨k, v⟩ := x
    simp only [pyDel, hasKey, List.filter_cons, List.any_cons] at ih ⊢
    by_cases hk : k = m
    · subst hk
      simp only [beq_self_eq_true, Bool.not_true, Bool.false_eq_true, if_false]
      rw [ih]
      by_cases h2 : m' = k
      · subst h2; simp
      · have : (k == m') = false := by simpa using fun e : k = m' => h2 e.symm
        simp [this]
    · have : (k == m) = false := by simpa using hk
      simp only [this, Bool.not_false, if_true, List.any_cons]
      rw [ih]
      by_cases h2 : k = m'
      · subst h2; simp [hk]
      · have : (k == m') = false := by simpa using h2
        simp [this]

theorem hasKey_append (c : List (Nat × Nat × Nat)) (x : Nat × Nat × Nat) (m' : Nat) :
    hasKey (c ++ [x]) m' = (hasKey c m' || x.1 == m') := by
  simp [hasKey, List.any_append]

/-- parity law of the ring bookkeeping: after a node's ring markers have been processed, marker `m` is
    open iff (it was open before) XOR (it occurs an odd number of times on the node) -/
theorem C20_ring_parity (cur : Nat) :
    ∀ (occs : List RingOcc) (cycle edges : List (Nat × Nat × Nat)) (m : Nat),
      hasKey (applyRings cycle cur occs edges).1 m =
        (hasKey cycle m != decide ((occs.filter (·.1 == m)).length % 2 = 1))
  | [], cycle, edges, m => by simp [applyRings]
  | (m0, o) :: rest, cycle, edges, m => by
    unfold applyRings
    have hk := lookup_isSome_iff_hasKey cycle m0
    cases hl : cycle.lookup m0 with
    | some v =>
      obtain ⟨node, ord⟩ := v
      rw [hl] at hk
      simp only [Option.isSome_some] at hk
      rw [C20_ring_parity cur rest _ _ m, hasKey_pyDel]
      by_cases hm : m0 = m
      · subst hm
        simp only [List.filter_cons, beq_self_eq_true, if_true, List.length_cons, ← hk, bne_self_eq_false, Bool.and_false]
        cases hpar : decide ((rest.filter (·.1 == m0)).length % 2 = 1) <;> simp_all <;> omega
      · have h1 : (m0 == m) = false := by simpa using hm
        have h2 : (m != m0) = true := by simpa using fun e : m = m0 => hm e.symm
        simp [List.filter_cons, h1, h2]
    | none =>
      rw [hl] at hk
      simp only [Option.isSome_none] at hk
      rw [C20_ring_parity cur rest _ _ m, hasKey_append]
      by_cases hm : m0 = m
      · subst hm
        simp only [List.filter_cons, beq_self_eq_true, if_true, List.length_cons, ← hk, Bool.or_true]
        cases hpar : decide ((rest.filter (·.1 == m0)).length % 2 = 1) <;> simp_all <;> omega
      · have h1 : (m0 == m) = false := by simpa using hm
        simp [List.filter_cons, h1]

/-- a ring bond that would duplicate an existing edge (between already adjacent nodes, or the same
    ring bond written twice) makes the node's step raise SyntaxError -/
theorem C20_duplicate_ring_edge (g : CGGraph) (pre post : List (Nat × Nat × Nat)) (e : Nat × Nat × Nat) (g' : CGGraph)
    (hpre : pre.foldlM (fun (g : CGGraph) (e : Nat × Nat × Nat) =>
      if g.hasEdge e.1 e.2.1 then (throw PyErr.syntax : Py CGGraph) else pure (g.addEdge e.1 e.2.1 (some e.2.2))) g = Except.ok g')
    (hdup : g'.hasEdge e.1 e.2.1 = true) :
    (pre ++ e :: post).foldlM (fun (g : CGGraph) (e : Nat × Nat × Nat) =>
      if g.hasEdge e.1 e.2.1 then (throw PyErr.syntax : Py CGGraph) else pure (g.addEdge e.1 e.2.1 (some e.2.2))) g = .error .syntax :=
  foldlM_error_at _ pre post e g g' .syntax hpre (by simp [hdup, throw, throwThe, MonadExceptOf.throw])

/-! ### missing fragment -/

/-- a non-virtual node (at least one incident edge of order ≥ 1) whose name has no fragment
    definition makes the resolution step raise SyntaxError, at any position of the base graph -/
theorem C20_missing_fragment (mg : Meta) (fd : FragDict) (bad : MetaNode) (hb : bad ∈ mg.nodes)
    (hfrag : fd.lookup bad.fragname = none) (hv : virtualOk mg bad.key = false)
    (cp : Desc → Desc → Bool) (allAtom : Bool) :
    phaseA cp allAtom mg fd = .error .syntax := by
  unfold phaseA
  rw [C11.C11_nonvirtual_rejected mg fd bad hb hfrag hv]
  rfl

/-! worked instances: the documented errors, by kernel evaluation of the model -/
example : readCG "{[#A][#B]1}".toList = .error .syntax := by decide +kernel
example : readCG "{[#A]1[#B]1}".toList = .error .syntax := by decide +kernel
example : readCG "{[#A]([#B]1[#C])[#D]}".toList = .error .syntax := by decide +kernel
example : readCG "{[#A;w=ab=c][#B]}".toList = .error .syntax := by decide +kernel
example : readCG "{[#A;w=1,c=1,q=a;d][#B]}".toList = .error .syntax := by decide +kernel
example : readCG "{[#A;w=1x][#B]}".toList = .error .type := by decide +kernel
example : readCG "{[#A;q=--1][#B]}".toList = .error .type := by decide +kernel

end CGV.C20
