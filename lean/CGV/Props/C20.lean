import CGV.Model.ReadCG
namespace CGV.C20
end CGV.C20
