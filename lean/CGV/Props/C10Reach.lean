/-
  The hypotheses of the C10 / C12 theorems hold for every molecule the resolver model builds: phase A
  (instantiate every coarse node, create the bonds from the descriptors) yields distinct keys and bonds
  between existing atoms whenever the fragment templates have them.  Hence the count of C10 in the
  resolver's own terms: atoms of all fragment copies together, minus one per merge.
-/
import CGV.Props.C10Multi
import CGV.Props.C02
import CGV.Lemmas.Fold
namespace CGV.C10
open CGV Mol
set_option linter.unusedSimpArgs false

/-! ### fresh keys -/

theorem foldl_max_ge (l : List Atom) (n : Nat) : n ≤ l.foldl (fun acc a => max acc (a.key + 1)) n := by
  induction l generalizing n with
  | nil => exact Nat.le_refl _
  | cons a as ih => simp only [List.foldl_cons]; exact Nat.le_trans (Nat.le_max_left _ _) (ih _)

theorem foldl_max_gt (l : List Atom) (n : Nat) (a : Atom) (ha : a ∈ l) :
    a.key < l.foldl (fun acc a => max acc (a.key + 1)) n := by
  induction l generalizing n with
  | nil => simp at ha
  | cons x xs ih =>
    simp only [List.foldl_cons]
    rcases List.mem_cons.mp ha with rfl | h
    · have := foldl_max_ge xs (max n (a.key + 1))
      have h2 := Nat.le_max_right n (a.key + 1)
      exact Nat.lt_of_lt_of_le (Nat.lt_of_lt_of_le (Nat.lt_succ_self _) h2) this
    · exact ih _ h

/-- every key is below `nextKey` -/
theorem key_lt_nextKey (m : Mol) (k : Key) (hk : k ∈ m.keys) : k < m.nextKey := by
  obtain ⟨a, ha, rfl⟩ := List.mem_map.mp hk
  exact foldl_max_gt m.atoms 0 a ha

theorem inst_keys (mol : Mol) (k : Key) (name : Str) (tmpl : Mol) (hnd : tmpl.keys.Nodup) :
    (instantiate mol k name tmpl).1.keys = mol.keys ++ (tmpl.atoms.zipIdx.map fun p => mol.nextKey + p.2) := by
  unfold Mol.keys
  rw [C02.C02_copy_atoms mol k name tmpl hnd]
  simp [List.map_append, List.map_map, Function.comp]

theorem zipIdx_snd_nodup {α : Type} (l : List α) (off start : Nat) :
    ((l.zipIdx off).map fun p => start + p.2).Nodup ∧ ∀ x ∈ (l.zipIdx off).map (fun p => start + p.2), start + off ≤ x := by
  induction l generalizing off with
  | nil => simp
  | cons a as ih =>
    simp only [List.zipIdx_cons, List.map_cons, List.nodup_cons, List.mem_cons]
    obtain ⟨h1, h2⟩ := ih (off + 1)
    refine ⟨⟨?_, h1⟩, ?_⟩
    · intro h; have := h2 _ h; omega
    · intro x hx
      rcases hx with rfl | hx
      · exact Nat.le_refl _
      · have := h2 x hx; omega

/-- instantiation keeps the keys distinct -/
theorem inst_nodup (mol : Mol) (k : Key) (name : Str) (tmpl : Mol) (hnd : tmpl.keys.Nodup) (h : mol.keys.Nodup) :
    (instantiate mol k name tmpl).1.keys.Nodup := by
  rw [inst_keys mol k name tmpl hnd]
  obtain ⟨h1, h2⟩ := zipIdx_snd_nodup tmpl.atoms 0 mol.nextKey
  apply List.nodup_append.mpr
  refine ⟨h, h1, ?_⟩
  intro a ha b hb e
  subst e
  exact absurd (key_lt_nextKey mol a ha) (Nat.not_lt.mpr (h2 a hb))

/-! ### bonds between existing atoms -/

theorem addEdge_keys (m : Mol) (e : Edge) : (m.addEdge e).keys = m.keys := by
  unfold Mol.keys; rw [addEdge_atoms]

theorem addEdge_closed (m : Mol) (e : Edge) (hc : Closed m) (ha : e.a ∈ m.keys) (hb : e.b ∈ m.keys) :
    Closed (m.addEdge e) := by
  intro x hx
  rw [addEdge_keys]
  unfold Mol.addEdge at hx
  split at hx
  · simp only [List.mem_map] at hx
    obtain ⟨y, hy, rfl⟩ := hx
    split <;> exact hc y hy
  · rcases List.mem_append.mp hx with h | h
    · exact hc x h
    · simp only [List.mem_singleton] at h; rw [h]; exact ⟨ha, hb⟩

theorem foldl_addEdge_closed (es : List Edge) (m : Mol) (hc : Closed m)
    (hes : ∀ e ∈ es, e.a ∈ m.keys ∧ e.b ∈ m.keys) : Closed (es.foldl Mol.addEdge m) := by
  induction es generalizing m with
  | nil => exact hc
  | cons e es ih =>
    simp only [List.foldl_cons]
    apply ih _ (addEdge_closed m e hc (hes e (by simp)).1 (hes e (by simp)).2)
    intro x hx; rw [addEdge_keys]; exact hes x (by simp [hx])

/-- instantiation keeps every bond between existing atoms -/
theorem inst_closed (mol : Mol) (k : Key) (name : Str) (tmpl : Mol) (hnd : tmpl.keys.Nodup) (hct : Closed tmpl)
    (hc : Closed mol) : Closed (instantiate mol k name tmpl).1 := by
  have hkeys := inst_keys mol k name tmpl hnd
  -- the copy of a template key is a key of the new molecule
  have hnew : ∀ x ∈ tmpl.keys,
      ((tmpl.atoms.zipIdx.map fun (p : Atom × Nat) => (p.1.key, mol.nextKey + p.2)).lookup x).getD x ∈
        mol.keys ++ (tmpl.atoms.zipIdx.map fun p => mol.nextKey + p.2) := by
    intro x hx
    obtain ⟨a, ha, rfl⟩ := List.mem_map.mp hx
    obtain ⟨i, hi⟩ : ∃ i, (a, i) ∈ tmpl.atoms.zipIdx := by
      obtain ⟨i, hlt, e⟩ := List.getElem_of_mem ha
      exact ⟨i, by rw [List.mem_zipIdx_iff_getElem?]; simp [e, hlt]⟩
    rw [lookup_corr tmpl.atoms mol.nextKey 0 hnd a i hi]
    exact List.mem_append_right _ (List.mem_map.mpr ⟨(a, i), hi, rfl⟩)
  unfold instantiate at hkeys ⊢
  dsimp only at hkeys ⊢
  unfold Mol.keys at hkeys
  rw [foldl_addEdge_atoms] at hkeys
  apply foldl_addEdge_closed
  · intro e he
    have := hc e he
    simp only [Mol.keys, List.map_append, List.mem_append]
    exact ⟨Or.inl this.1, Or.inl this.2⟩
  · intro e he
    obtain ⟨y, hy, rfl⟩ := List.mem_map.mp he
    have hy' := (List.mem_filter.mp hy).1
    unfold Mol.keys
    rw [hkeys]
    exact ⟨hnew _ (hct y hy').1, hnew _ (hct y hy').2⟩

/-! ### every molecule phase A builds -/

/-- the fragment templates have distinct keys and bonds between their own atoms -/
def FragsWF (fd : FragDict) : Prop := ∀ p ∈ fd, p.2.keys.Nodup ∧ Closed p.2

theorem lookup_mem' {κ α : Type} [BEq κ] [LawfulBEq κ] (fd : List (κ × α)) (n : κ) (t : α) (h : fd.lookup n = some t) : (n, t) ∈ fd := by
  obtain ⟨l1, l2, e, _⟩ := List.lookup_eq_some_iff.mp h
  rw [e]; simp

/-- what holds of the disconnected molecule and the record of instances -/
structure DInv (acc : Mol × List (Key × List Key)) : Prop where
  nodup : acc.1.keys.Nodup
  closed : Closed acc.1
  count : acc.1.atoms.length = (acc.2.map (·.2.length)).sum
  inst : ∀ p ∈ acc.2, ∀ k ∈ p.2, k ∈ acc.1.keys

theorem inst_length (mol : Mol) (k : Key) (name : Str) (tmpl : Mol) (hnd : tmpl.keys.Nodup) :
    (instantiate mol k name tmpl).1.atoms.length = mol.atoms.length + tmpl.atoms.length := by
  rw [C02.C02_copy_atoms mol k name tmpl hnd]; simp

theorem inst_corr (mol : Mol) (k : Key) (name : Str) (tmpl : Mol) :
    (instantiate mol k name tmpl).2.map (·.2) = tmpl.atoms.zipIdx.map fun p => mol.nextKey + p.2 := by
  unfold instantiate; simp [List.map_map, Function.comp]

theorem disconnected_inv (mg : Meta) (fd : FragDict) (hfd : FragsWF fd) (r : Mol × List (Key × List Key))
    (h : disconnected mg fd = .ok r) : DInv r := by
  unfold disconnected at h
  refine foldlM_inv _ DInv mg.nodes _ r ⟨by simp [Mol.keys], by intro e he; simp at he, by simp, by simp⟩ ?_ h
  intro st mn st' _ inv hstep
  dsimp only at hstep
  cases hl : fd.lookup mn.fragname with
  | none =>
    rw [hl] at hstep
    dsimp only at hstep
    split at hstep
    · simp only [pure, Except.pure, Except.ok.injEq] at hstep; subst hstep; exact inv
    · simp [throw, throwThe, MonadExceptOf.throw] at hstep
  | some tmpl =>
    rw [hl] at hstep
    simp only [pure, Except.pure, Except.ok.injEq] at hstep
    subst hstep
    obtain ⟨hnd, hct⟩ := hfd _ (lookup_mem' fd _ _ hl)
    have hkeys := inst_keys st.1 mn.key mn.fragname tmpl hnd
    refine ⟨inst_nodup _ _ _ _ hnd inv.nodup, inst_closed _ _ _ _ hnd hct inv.closed, ?_, ?_⟩
    · simp only [inst_length _ _ _ _ hnd, List.map_append, List.sum_append, List.map_cons, List.map_nil, List.sum_cons,
        List.sum_nil, List.length_map, inv.count]
      have : (instantiate st.1 mn.key mn.fragname tmpl).2.length = tmpl.atoms.length := by
        have := congrArg List.length (inst_corr st.1 mn.key mn.fragname tmpl)
        simpa using this
      omega
    · intro p hp k hk
      rw [hkeys]
      rcases List.mem_append.mp hp with hp | hp
      · exact List.mem_append_left _ (inv.inst p hp k hk)
      · simp only [List.mem_singleton] at hp
        subst hp
        simp only at hk
        rw [inst_corr] at hk
        exact List.mem_append_right _ hk

/-! ### the bonds from descriptors join atoms of the instances -/

/-- all fine keys that occur in the table of open descriptors -/
def stKeys (s : OpenSt) : List Key := s.flatMap fun p => p.2.map (·.1)

theorem get_keys (s : OpenSt) (k x : Key) (hx : x ∈ (s.get k).map (·.1)) : x ∈ stKeys s := by
  unfold OpenSt.get at hx
  cases hl : s.lookup k with
  | none => rw [hl] at hx; simp at hx
  | some f =>
    rw [hl] at hx
    simp only [Option.getD_some] at hx
    have := lookup_mem' s k f hl
    exact List.mem_flatMap.mpr ⟨(k, f), this, hx⟩

theorem removeAt_keys (f : Open) (n : Key) (d : Desc) : (removeAt f n d).map (·.1) = f.map (·.1) := by
  unfold removeAt
  rw [List.map_map]
  apply List.map_congr_left
  intro p _
  obtain ⟨k, ds⟩ := p
  simp only [Function.comp]
  split <;> rfl

theorem set_keys (s : OpenSt) (k : Key) (f : Open) (x : Key) (hx : x ∈ stKeys (s.set k f)) :
    x ∈ stKeys s ∨ x ∈ f.map (·.1) := by
  unfold stKeys OpenSt.set at hx
  simp only [List.mem_flatMap, List.mem_map] at hx
  obtain ⟨p, ⟨q, hq, rfl⟩, hx⟩ := hx
  obtain ⟨k', f'⟩ := q
  dsimp only at hx
  split at hx
  · exact Or.inr (by simpa using hx)
  · exact Or.inl (List.mem_flatMap.mpr ⟨(k', f'), hq, by simpa using hx⟩)

theorem matchBD_keys (cp : Desc → Desc → Bool) (src tgt : Open) (a b : Key) (d : Desc × Desc)
    (h : matchBD cp src tgt = some ((a, b), d)) : a ∈ src.map (·.1) ∧ b ∈ tgt.map (·.1) := by
  unfold matchBD at h
  obtain ⟨p, hp, h1⟩ := List.exists_of_findSome?_eq_some h
  obtain ⟨sn, bs⟩ := p
  dsimp only at h1
  obtain ⟨q, hq, h2⟩ := List.exists_of_findSome?_eq_some h1
  obtain ⟨tn, bt⟩ := q
  dsimp only at h2
  cases hf : findInLists cp bs bt with
  | none => rw [hf] at h2; simp at h2
  | some pr =>
    rw [hf] at h2
    simp only [Option.map_some, Option.some.injEq, Prod.mk.injEq] at h2
    obtain ⟨⟨rfl, rfl⟩, _⟩ := h2
    exact ⟨List.mem_map.mpr ⟨(sn, bs), hp, rfl⟩, List.mem_map.mpr ⟨(tn, bt), hq, rfl⟩⟩

/-- invariant of the bond loop: every key in the table and every bond end is a key of the set `K` -/
def CutInv (K : List Key) (acc : OpenSt × List Cut) : Prop :=
  (∀ x ∈ stKeys acc.1, x ∈ K) ∧ ∀ c ∈ acc.2, c.a ∈ K ∧ c.b ∈ K

theorem stepUnit_inv (cp : Desc → Desc → Bool) (K : List Key) (p n : Key) (acc : OpenSt × List Cut)
    (inv : CutInv K acc) : CutInv K (stepUnit cp p n acc) := by
  unfold stepUnit
  cases hm : matchBD cp (acc.1.get p) (acc.1.get n) with
  | none => exact inv
  | some r =>
    obtain ⟨⟨a, b⟩, ⟨da, db⟩⟩ := r
    dsimp only
    obtain ⟨ha, hb⟩ := matchBD_keys cp _ _ a b (da, db) hm
    have haK := inv.1 a (get_keys _ _ _ ha)
    have hbK := inv.1 b (get_keys _ _ _ hb)
    have h1 : ∀ x ∈ stKeys (acc.1.set p (removeAt (acc.1.get p) a da)), x ∈ K := by
      intro x hx
      rcases set_keys _ _ _ x hx with h | h
      · exact inv.1 x h
      · rw [removeAt_keys] at h; exact inv.1 x (get_keys _ _ _ h)
    refine ⟨?_, ?_⟩
    · intro x hx
      rcases set_keys _ _ _ x hx with h | h
      · exact h1 x h
      · rw [removeAt_keys] at h; exact h1 x (get_keys _ _ _ h)
    · intro c hc
      rcases List.mem_append.mp hc with h | h
      · exact inv.2 c h
      · simp only [List.mem_singleton] at h; subst h; exact ⟨haK, hbK⟩

theorem iterUnit_inv (cp : Desc → Desc → Bool) (K : List Key) (p n : Key) (k : Nat) (acc : OpenSt × List Cut)
    (inv : CutInv K acc) : CutInv K (iterUnit cp p n k acc) := by
  induction k generalizing acc with
  | zero => exact inv
  | succ k ih => simp only [iterUnit]; exact ih _ (stepUnit_inv cp K p n acc inv)

theorem edgesFrom_inv_keys (cp : Desc → Desc → Bool) (K : List Key) (edges : List MEdge) (s : OpenSt)
    (hs : ∀ x ∈ stKeys s, x ∈ K) : CutInv K (edgesFrom cp edges s) := by
  unfold edgesFrom
  have : ∀ (acc : OpenSt × List Cut), CutInv K acc → CutInv K (edges.foldl (stepEdge cp) acc) := by
    induction edges with
    | nil => intro acc h; exact h
    | cons e es ih => intro acc h; simp only [List.foldl_cons]; exact ih _ (iterUnit_inv cp K _ _ _ acc h)
  exact this _ ⟨hs, by simp⟩

theorem atom?_key (m : Mol) (k : Key) (a : Atom) (h : m.atom? k = some a) : k ∈ m.keys := by
  unfold Mol.atom? at h
  have h1 := List.find?_some h
  have h2 := List.mem_of_find?_eq_some h
  simp only [beq_iff_eq] at h1
  exact List.mem_map.mpr ⟨a, h2, h1⟩

theorem openOf_keys (mol : Mol) (inst : List (Key × List Key)) : ∀ x ∈ stKeys (openOf mol inst), x ∈ mol.keys := by
  intro x hx
  unfold stKeys openOf at hx
  obtain ⟨p, hp, hx⟩ := List.mem_flatMap.mp hx
  obtain ⟨⟨ck, ks⟩, _, rfl⟩ := List.mem_map.mp hp
  dsimp only at hx
  obtain ⟨q, hq, rfl⟩ := List.mem_map.mp hx
  obtain ⟨k, _, hk⟩ := List.mem_filterMap.mp hq
  cases ha : mol.atom? k with
  | none => rw [ha] at hk; simp at hk
  | some a =>
    rw [ha] at hk
    simp only [Option.map_some, Option.some.injEq] at hk
    subst hk
    exact atom?_key mol k a ha

/-! ### creating the bonds -/

theorem updAtom_keys (m : Mol) (k : Key) (f : Atom → Atom) (hf : ∀ a, (f a).key = a.key) : (m.updAtom k f).keys = m.keys := by
  unfold Mol.updAtom Mol.keys
  simp only [List.map_map]
  apply List.map_congr_left
  intro a _
  simp only [Function.comp]
  split
  · exact hf a
  · rfl

theorem updAtom_closed (m : Mol) (k : Key) (f : Atom → Atom) (hf : ∀ a, (f a).key = a.key) (hc : Closed m) :
    Closed (m.updAtom k f) := by
  intro e he
  rw [updAtom_keys m k f hf]
  exact hc e he

theorem applyCut_inv (allAtom : Bool) (m m' : Mol) (c : Cut) (h : applyCut allAtom m c = .ok m')
    (ha : c.a ∈ m.keys) (hb : c.b ∈ m.keys) (hc : Closed m) :
    m'.keys = m.keys ∧ Closed m' ∧ m'.atoms.length = m.atoms.length := by
  unfold applyCut at h
  cases ho : descOrder c.da with
  | error e => rw [ho] at h; simp [bind, Except.bind] at h
  | ok o =>
    rw [ho] at h
    simp only [bind, Except.bind] at h
    have hdec : ∀ (x : Mol) (k : Key), Closed x →
        (x.updAtom k fun a => if a.isH then a else if a.aromatic || !a.hasArom then { a with hcount2 := a.hcount2 - 3 }
          else { a with hcount2 := a.hcount2 - 2 }).keys = x.keys ∧
        Closed (x.updAtom k fun a => if a.isH then a else if a.aromatic || !a.hasArom then { a with hcount2 := a.hcount2 - 3 }
          else { a with hcount2 := a.hcount2 - 2 }) ∧
        (x.updAtom k fun a => if a.isH then a else if a.aromatic || !a.hasArom then { a with hcount2 := a.hcount2 - 3 }
          else { a with hcount2 := a.hcount2 - 2 }).atoms.length = x.atoms.length := by
      intro x k hx
      have hf : ∀ a : Atom, (if a.isH then a else if a.aromatic || !a.hasArom then { a with hcount2 := a.hcount2 - 3 }
          else { a with hcount2 := a.hcount2 - 2 }).key = a.key := by
        intro a; split; rfl; split <;> rfl
      exact ⟨updAtom_keys x k _ hf, updAtom_closed x k _ hf hx, updAtom_length x k _⟩
    have hadd : ∀ o2, Closed (m.addEdge ⟨c.a, c.b, o2, some (c.da, c.db)⟩) := fun o2 => addEdge_closed m ⟨c.a, c.b, o2, some (c.da, c.db)⟩ hc ha hb
    cases allAtom with
    | false =>
      simp only [Bool.false_eq_true, if_false, pure, Except.pure, Except.ok.injEq] at h
      subst h
      exact ⟨addEdge_keys _ _, hadd _, by rw [addEdge_atoms]⟩
    | true =>
      simp only [if_true, pure, Except.pure, Except.ok.injEq] at h
      subst h
      obtain ⟨k1, c1, l1⟩ := hdec _ c.a (hadd _)
      obtain ⟨k2, c2, l2⟩ := hdec _ c.b c1
      exact ⟨by rw [k2, k1, addEdge_keys], c2, by rw [l2, l1, addEdge_atoms]⟩

theorem connect_inv (cp : Desc → Desc → Bool) (allAtom : Bool) (mg : Meta) (m0 m1 : Mol) (inst : List (Key × List Key))
    (hc : Closed m0) (h : connect cp allAtom mg m0 inst = .ok m1) :
    m1.keys = m0.keys ∧ Closed m1 ∧ m1.atoms.length = m0.atoms.length := by
  unfold connect at h
  have hcuts := (edgesFrom_inv_keys cp m0.keys mg.edges (openOf m0 inst) (openOf_keys m0 inst)).2
  refine foldlM_inv _ (fun m => m.keys = m0.keys ∧ Closed m ∧ m.atoms.length = m0.atoms.length) _ m0 m1
    ⟨rfl, hc, rfl⟩ ?_ h
  intro st c st' hcm ⟨hk, hcl, hl⟩ hstep
  obtain ⟨k', c', l'⟩ := applyCut_inv allAtom st st' c hstep (hk ▸ (hcuts c hcm).1) (hk ▸ (hcuts c hcm).2) hcl
  exact ⟨k'.trans hk, c', l'.trans hl⟩

/-- **Every molecule phase A hands to `squash_atoms` meets the hypotheses of the C10 (and C12) theorems**:
    with fragment templates that have distinct keys and bonds between their own atoms, the molecule after
    instantiating all coarse nodes and creating the bonds from the descriptors has distinct keys, only
    bonds between its own atoms, and as many atoms as all fragment copies together. -/
theorem phaseA_wellformed (cp : Desc → Desc → Bool) (allAtom : Bool) (mg : Meta) (fd : FragDict) (hfd : FragsWF fd)
    (m0 m1 : Mol) (inst : List (Key × List Key))
    (hd : disconnected mg fd = .ok (m0, inst)) (hcn : connect cp allAtom mg m0 inst = .ok m1) :
    m1.keys.Nodup ∧ Closed m1 ∧ m1.atoms.length = (inst.map (·.2.length)).sum := by
  have inv := disconnected_inv mg fd hfd _ hd
  obtain ⟨hk, hc, hl⟩ := connect_inv cp allAtom mg m0 m1 inst inv.closed hcn
  exact ⟨hk ▸ inv.nodup, hc, hl.trans inv.count⟩

/-- **C10 in the resolver's terms**: the molecule one resolution step returns from phase A has exactly as
    many atoms as all fragment copies contain together minus one per merge, never fewer than one per
    shared pair less, and exactly one per shared pair less when no atom sits on two '!' bonds. -/
theorem C10_resolver_count (cp : Desc → Desc → Bool) (allAtom : Bool) (mg : Meta) (fd : FragDict) (hfd : FragsWF fd)
    (m0 m1 : Mol) (inst : List (Key × List Key))
    (hd : disconnected mg fd = .ok (m0, inst)) (hcn : connect cp allAtom mg m0 inst = .ok m1) :
    (squash m1).atoms.length + merges m1 = (inst.map (·.2.length)).sum ∧
    (inst.map (·.2.length)).sum ≤ (squash m1).atoms.length + (sharedOf m1).length ∧
    ((ends (sharedOf m1)).Nodup → (squash m1).atoms.length + (sharedOf m1).length = (inst.map (·.2.length)).sum) ∧
    (squash m1).keys.Nodup := by
  obtain ⟨hnd, hc, hl⟩ := phaseA_wellformed cp allAtom mg fd hfd m0 m1 inst hd hcn
  have h1 := C10_count m1 hnd hc
  refine ⟨by rw [← hl]; exact h1.1, by rw [← hl]; exact C10_at_most m1 hnd hc, ?_, h1.2⟩
  intro hsep; rw [← hl]; exact C10_separate_pairs m1 hnd hc hsep

/-- `phaseA` is these two steps followed by `squash` -/
theorem phaseA_eq (cp : Desc → Desc → Bool) (allAtom : Bool) (mg : Meta) (fd : FragDict) (m0 m1 : Mol)
    (inst : List (Key × List Key)) (hd : disconnected mg fd = .ok (m0, inst)) (hcn : connect cp allAtom mg m0 inst = .ok m1) :
    phaseA cp allAtom mg fd = .ok (squash m1, inst.map (·.1)) := by
  unfold phaseA
  simp [hd, hcn, bind, Except.bind, pure, Except.pure]

/-- the executable check the driver reports for every template set is exactly the hypothesis `FragsWF` -/
theorem fragsWFb_iff (fd : FragDict) : fragsWFb fd = true ↔ FragsWF fd := by
  unfold fragsWFb FragsWF Mol.wfb Closed
  simp only [List.all_eq_true, Bool.and_eq_true, decide_eq_true_eq, List.contains_iff_mem]

/-! worked instance: propane as two overlapping fragments, through the whole of phase A -/
def exFrag (a b : List Desc) : Mol :=
  { atoms := [{ key := 0, element := "C".toList, bonding := a }, { key := 1, element := "C".toList, bonding := b }],
    edges := [⟨0, 1, 2, none⟩] }
def exMeta : Meta := { nodes := [⟨0, "A".toList⟩, ⟨1, "B".toList⟩], edges := [(0, 1, 1)] }
def exFd : FragDict := [("A".toList, exFrag [] ["!a1".toList]), ("B".toList, exFrag ["!a1".toList] [])]
example : fragsWFb exFd = true := by decide +kernel
example : ((phaseA (compat false) false exMeta exFd).map fun r => r.1.atoms.map fun a => (a.key, a.fragid)) =
    .ok [(0, [0]), (1, [0, 1]), (3, [1])] := by decide +kernel

/-! ### squashing keeps the bonds between existing atoms -/

theorem moveStep_ends (keep rem : Key) (K : List Key) (hkeep : keep ∈ K) (m : Mol) (e : Edge)
    (hm : ∀ x ∈ m.edges, x.a ∈ K ∧ x.b ∈ K)
    (he : (if e.a == rem then e.b else e.a) ≠ rem → (if e.a == rem then e.b else e.a) ∈ K) :
    ∀ x ∈ (moveStep keep rem m e).edges, x.a ∈ K ∧ x.b ∈ K := by
  unfold moveStep
  dsimp only
  generalize (if e.a == rem then e.b else e.a) = w at he ⊢
  by_cases h1 : (w == keep || w == rem) = true
  · rw [if_pos h1]; exact hm
  · rw [if_neg h1]
    by_cases h2 : m.hasEdge keep w = true
    · rw [if_pos h2]; exact hm
    · rw [if_neg h2]
      intro x hx
      rcases List.mem_append.mp hx with h | h
      · exact hm x h
      · simp only [List.mem_singleton] at h
        rw [h]
        simp only [Bool.or_eq_true, beq_iff_eq, not_or] at h1
        exact ⟨hkeep, he h1.2⟩

theorem contract_closed (m : Mol) (keep rem : Key) (hc : Closed m) (hk : keep ∈ m.keys) (hne : keep ≠ rem) :
    Closed (contract m keep rem) := by
  intro x hx
  rw [contract_keys]
  have hK : keep ∈ m.keys.filter (· != rem) := List.mem_filter.mpr ⟨hk, by simpa using hne⟩
  have hmoved : ∀ (incident : List Edge) (rest : Mol), (∀ e ∈ incident, e ∈ m.edges) →
      (∀ y ∈ rest.edges, y.a ∈ m.keys.filter (· != rem) ∧ y.b ∈ m.keys.filter (· != rem)) →
      ∀ y ∈ (incident.foldl (moveStep keep rem) rest).edges, y.a ∈ m.keys.filter (· != rem) ∧ y.b ∈ m.keys.filter (· != rem) := by
    intro incident
    induction incident with
    | nil => intro rest _ h; exact h
    | cons e es ih =>
      intro rest hin hrest
      simp only [List.foldl_cons]
      apply ih _ (fun y hy => hin y (by simp [hy]))
      apply moveStep_ends keep rem _ hK rest e hrest
      intro hw
      have hem := hc e (hin e (by simp))
      apply List.mem_filter.mpr
      refine ⟨?_, by simpa using hw⟩
      split
      · exact hem.2
      · exact hem.1
  have hrest : ∀ y ∈ (m.edges.filter fun e => !(e.a == rem || e.b == rem)),
      y.a ∈ m.keys.filter (· != rem) ∧ y.b ∈ m.keys.filter (· != rem) := by
    intro y hy
    obtain ⟨hy1, hy2⟩ := List.mem_filter.mp hy
    simp only [Bool.not_eq_true', Bool.or_eq_false_iff, beq_eq_false_iff_ne, ne_eq] at hy2
    exact ⟨List.mem_filter.mpr ⟨(hc y hy1).1, by simpa using hy2.1⟩, List.mem_filter.mpr ⟨(hc y hy1).2, by simpa using hy2.2⟩⟩
  unfold contract at hx
  cases hr : m.atom? rem with
  | none =>
    rw [hr] at hx
    exact hmoved _ _ (fun e he => (List.mem_filter.mp he).1) hrest x hx
  | some r =>
    rw [hr] at hx
    rw [updAtom_edges] at hx
    exact hmoved _ _ (fun e he => (List.mem_filter.mp he).1) hrest x hx

/-- the loop of `squash_atoms` keeps every bond between existing atoms -/
theorem squash_closed (mol : Mol) (hnd : mol.keys.Nodup) (hc : Closed mol) : Closed (squash mol) := by
  rw [squash_eq]
  have : ∀ (es : List Edge) (acc : Mol × List (Key × Key)), SInv mol acc → Closed acc.1 →
      (∀ e ∈ es, e.a ∈ mol.keys ∧ e.b ∈ mol.keys) → Closed (es.foldl sqStep acc).1 := by
    intro es
    induction es with
    | nil => intro acc _ h _; exact h
    | cons e es ih =>
      intro acc inv hcl hes
      simp only [List.foldl_cons]
      have he := hes e (by simp)
      apply ih _ (sinv_step inv e he.1 he.2) _ (fun x hx => hes x (by simp [hx]))
      unfold sqStep; dsimp only
      split
      · exact hcl
      · rename_i hne
        exact contract_closed acc.1 _ _ hcl (resolve_inK inv e.a he.1) (by simpa using hne)
  exact this _ _ (sinv_init mol hnd) hc (shared_ends mol hc)

end CGV.C10
