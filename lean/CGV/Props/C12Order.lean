/-
  C12: "output numbering is canonical" — the ORDER half, for every step of the resolver model.  `C12_step_keys` says the
  fine graph of a successful step has the keys 0 … n-1; here: those keys follow the coarse nodes.  Whenever the
  membership list of one fine node is lexicographically smaller than that of another (in particular: member of coarse
  node k only versus member of k' > k only), it has the smaller key — hydrogens included, since they inherit the
  membership of their atom before the renumbering.  (Seeded change C12-15 — the renumbering skipped unless the number
  of atoms changed — breaks exactly this while keeping the key *set* intact in most cases.)
-/
import CGV.Props.C12Reach
import CGV.Props.C02Step
namespace CGV.C12
open CGV C10

/-- keys follow memberships -/
def Ordered (l : List (Key × List Nat)) : Prop :=
  ∀ p ∈ l, ∀ q ∈ l, lexLt p.2 q.2 = true → p.1 < q.1

def keyFrag (m : Mol) : List (Key × List Nat) := m.atoms.map fun a => (a.key, a.fragid)

theorem sortNodes_ordered (mol : Mol) (h : mol.keys.Nodup) : Ordered (keyFrag (sortNodes mol).1) := by
  intro p hp q hq hl
  simp only [keyFrag, sortNodes, List.map_map, List.mem_map, Function.comp] at hp hq
  obtain ⟨a, ha, rfl⟩ := hp
  obtain ⟨b, hb, rfl⟩ := hq
  simp only at hl ⊢
  apply sortNodes_monotone mol h a b ha hb
  simp [sortKeyLt, hl]

theorem annotateEZ_keyFrag (m m' : Mol) (h : annotateEZ m = .ok m') : keyFrag m' = keyFrag m := by
  unfold annotateEZ at h
  simp only [bind, Except.bind] at h
  split at h
  · simp at h
  · simp only [pure, Except.pure, Except.ok.injEq] at h
    subst h
    unfold keyFrag
    simp [List.map_map, Function.comp]

/-- phase B returns its atoms numbered along their memberships -/
theorem phaseB_ordered (allAtom : Bool) (mg : Meta) (m : Mol) (out : StepOut) (hm : m.keys.Nodup)
    (h : phaseB allAtom mg m = .ok out) : Ordered (keyFrag out.fine) := by
  unfold phaseB at h
  cases allAtom with
  | false =>
    simp only [Bool.false_eq_true, if_false, pure, Except.pure, bind, Except.bind, Except.ok.injEq] at h
    subst h
    exact sortNodes_ordered m hm
  | true =>
    simp only [if_true, bind, Except.bind] at h
    split at h
    · simp at h
    · rename_i m1 h1
      split at h
      · simp at h
      · rename_i m2 h2
        simp only [pure, Except.pure, Except.ok.injEq] at h
        subst h
        have h3 : keyFrag (setNames m2 mg) = keyFrag m2 := C02.setNames_fragids m2 mg
        have h4 := annotateEZ_keyFrag _ _ h2
        show Ordered (keyFrag (setNames m2 mg))
        rw [h3, h4]
        exact sortNodes_ordered m1 (rebuildH_nodup m m1 hm h1)

/-- **C12, the order of the numbering, for every step of the resolver model**: whatever the base graph, the templates
    (distinct keys, closed bonds) and the recorded aromaticity answer — in the fine graph of a successful step a node
    whose membership list is lexicographically smaller has the smaller key. -/
theorem C12_step_order (cp : Desc → Desc → Bool) (allAtom : Bool) (mg : Meta) (fd : FragDict) (hfd : FragsWF fd)
    (pre : Mol) (ks : List Key) (patch : Option AromPatch) (out : StepOut)
    (hA : phaseA cp allAtom mg fd = .ok (pre, ks))
    (hB : phaseB allAtom mg (match patch with | some p => applyArom pre p | none => pre) = .ok out) :
    ∀ x ∈ out.fine.atoms, ∀ y ∈ out.fine.atoms, lexLt x.fragid y.fragid = true → x.key < y.key := by
  have hpre : pre.keys.Nodup := by
    unfold phaseA at hA
    simp only [bind, Except.bind] at hA
    split at hA
    · simp at hA
    · rename_i r hd
      obtain ⟨m0, inst⟩ := r
      simp only at hA
      split at hA
      · simp at hA
      · rename_i m1 hcn
        simp only [pure, Except.pure, Except.ok.injEq, Prod.mk.injEq] at hA
        rw [← hA.1]
        exact (C10_resolver_count cp allAtom mg fd hfd m0 m1 inst hd hcn).2.2.2
  have ho : Ordered (keyFrag out.fine) := by
    apply phaseB_ordered allAtom mg _ out _ hB
    cases patch with
    | none => exact hpre
    | some p => simp only [applyArom_keys]; exact hpre
  intro x hx y hy hl
  exact ho (x.key, x.fragid) (List.mem_map.mpr ⟨x, hx, rfl⟩) (y.key, y.fragid) (List.mem_map.mpr ⟨y, hy, rfl⟩) hl

/-- in particular: the atoms of coarse node k come before the atoms of coarse node k' > k -/
theorem C12_step_blocks (cp : Desc → Desc → Bool) (allAtom : Bool) (mg : Meta) (fd : FragDict) (hfd : FragsWF fd)
    (pre : Mol) (ks : List Key) (patch : Option AromPatch) (out : StepOut)
    (hA : phaseA cp allAtom mg fd = .ok (pre, ks))
    (hB : phaseB allAtom mg (match patch with | some p => applyArom pre p | none => pre) = .ok out)
    (x y : Atom) (hx : x ∈ out.fine.atoms) (hy : y ∈ out.fine.atoms) (k k' : Nat)
    (hkx : x.fragid = [k]) (hky : y.fragid = [k']) (hlt : k < k') : x.key < y.key := by
  apply C12_step_order cp allAtom mg fd hfd pre ks patch out hA hB x hx y hy
  simp [hkx, hky, lexLt, hlt]

/-! worked instance (propane as two overlapping fragments, `exMeta`/`exFd` of `C10Reach`): the step succeeds and the
    three atoms are numbered along their memberships -/
example : ((phaseA (compat false) false exMeta exFd).bind fun r => phaseB false exMeta r.1).map (fun o => keyFrag o.fine) =
    .ok [(0, [0]), (1, [0, 1]), (2, [1])] := by decide +kernel

end CGV.C12
