/-
  C02 — the coarse-to-fine mapping is a faithful partition into fragment copies.

  Model: `instantiate`, `disconnected`, `membersOf`, `sortNodes` (CGV.Model.Resolve).
-/
import CGV.Lemmas.Inst
import CGV.Lemmas.Sort
import CGV.Props.C11
namespace CGV.C02
open CGV Mol

/-- instantiating a template appends one node per template atom, in template order, and changes no
    node that was there -/
theorem C02_copy_atoms (mol : Mol) (k : Key) (name : Str) (tmpl : Mol) (hnd : tmpl.keys.Nodup) :
    (instantiate mol k name tmpl).1.atoms =
      mol.atoms ++ tmpl.atoms.zipIdx.map fun (p : Atom × Nat) =>
        { p.1 with key := mol.nextKey + p.2, fragid := [k], mapping := [(name, p.1.key)] } := by
  unfold instantiate
  simp only [foldl_addEdge_atoms]
  congr 1
  -- rewrite the right-hand side as a map over the atoms using their positions
  have hz : tmpl.atoms.map (fun a => ({ a with
      key := ((tmpl.atoms.zipIdx.map fun (p : Atom × Nat) => (p.1.key, mol.nextKey + p.2)).lookup a.key).getD a.key,
      fragid := [k], mapping := [(name, a.key)] } : Atom)) =
    tmpl.atoms.zipIdx.map fun (p : Atom × Nat) =>
      ({ p.1 with key := mol.nextKey + p.2, fragid := [k], mapping := [(name, p.1.key)] } : Atom) := by
    have : tmpl.atoms = tmpl.atoms.zipIdx.map (·.1) := by simp
    conv => lhs; rw [this, List.map_map]
    apply List.map_congr_left
    intro p hp
    obtain ⟨a, i⟩ := p
    have := lookup_corr tmpl.atoms mol.nextKey 0 hnd a i hp
    simp [Function.comp, this]
  exact hz

/-- every copy carries the template atom's attributes — name, element, charge, aromaticity, weight,
    chirality, free annotation keys (`extra`), descriptors — and reports the fragment name the
    template had; only key, membership and mapping are set -/
theorem C02_copy_attrs (mol : Mol) (k : Key) (name : Str) (tmpl : Mol) (hnd : tmpl.keys.Nodup) (a : Atom) (i : Nat)
    (h : (a, i) ∈ tmpl.atoms.zipIdx) :
    ({ a with key := mol.nextKey + i, fragid := [k], mapping := [(name, a.key)] } : Atom) ∈
      (instantiate mol k name tmpl).1.atoms := by
  rw [C02_copy_atoms mol k name tmpl hnd]
  exact List.mem_append_right _ (List.mem_map.mpr ⟨(a, i), h, rfl⟩)

/-- the internal bonds of the template are bonds between the corresponding copies -/
theorem C02_copy_edges (mol : Mol) (k : Key) (name : Str) (tmpl : Mol) (e : Edge) (he : e ∈ tmpl.edges) :
    let nk := fun (x : Key) =>
      ((tmpl.atoms.zipIdx.map fun (p : Atom × Nat) => (p.1.key, mol.nextKey + p.2)).lookup x).getD x
    nk e.a ≠ nk e.b → (instantiate mol k name tmpl).1.hasEdge (nk e.a) (nk e.b) = true := by
  intro nk hne
  unfold instantiate
  have hmem : ({ e with a := nk e.a, b := nk e.b } : Edge) ∈
      (tmpl.edges.filter fun e => nk e.a != nk e.b).map fun e => { e with a := nk e.a, b := nk e.b } :=
    List.mem_map.mpr ⟨e, List.mem_filter.mpr ⟨he, by simpa using hne⟩, rfl⟩
  exact foldl_addEdge_hasEdge _ _ _ hmem

/-- membership after instantiation: every fine node records exactly one coarse node, and that one
    was instantiated (has a fragment) -/
theorem C02_fragid_cover (mg : Meta) (fd : FragDict) :
    ∀ (ns : List MetaNode) (acc r : Mol × List (Key × List Key)),
      (∀ a ∈ acc.1.atoms, ∃ k ∈ acc.2.map (·.1), a.fragid = [k]) →
      ns.foldlM (C11.discStep mg fd) acc = .ok r →
      ∀ a ∈ r.1.atoms, ∃ k ∈ r.2.map (·.1), a.fragid = [k]
  | [], acc, r, hinv, h => by
    simp [pure, Except.pure] at h; subst h; exact hinv
  | mn :: ns, acc, r, hinv, h => by
    simp only [List.foldlM_cons] at h
    cases hs : C11.discStep mg fd acc mn with
    | error e => rw [hs] at h; cases h
    | ok a' =>
      rw [hs] at h
      simp only [bind, Except.bind] at h
      refine C02_fragid_cover mg fd ns a' r ?_ h
      unfold C11.discStep at hs
      cases hl : fd.lookup mn.fragname with
      | none =>
        rw [hl] at hs
        by_cases hvk : virtualOk mg mn.key
        · simp [hvk, pure, Except.pure] at hs; subst hs; exact hinv
        · simp [hvk, throw, throwThe, MonadExceptOf.throw] at hs
      | some t =>
        rw [hl] at hs
        simp only [pure, Except.pure, Except.ok.injEq] at hs
        subst hs
        intro a ha
        simp only [instantiate, foldl_addEdge_atoms, List.mem_append, List.mem_map] at ha
        rcases ha with ha | ⟨b, _, rfl⟩
        · obtain ⟨k, hk, e⟩ := hinv a ha
          exact ⟨k, by simp [List.map_append]; exact Or.inl (by simpa using hk), e⟩
        · exact ⟨mn.key, by simp [List.map_append], rfl⟩

/-- each coarse node carries exactly the set of fine nodes that record it -/
theorem C02_members_iff (mol : Mol) (k k' : Key) :
    k' ∈ membersOf mol k ↔ ∃ a ∈ mol.atoms, a.key = k' ∧ k ∈ a.fragid := by
  unfold membersOf
  simp only [List.mem_map, List.mem_filter, List.contains_iff_mem]
  constructor
  · rintro ⟨a, ⟨ha, hk⟩, rfl⟩; exact ⟨a, ha, rfl, hk⟩
  · rintro ⟨a, ha, rfl, hk⟩; exact ⟨a, ⟨ha, hk⟩, rfl⟩

/-- … and these sets cover the fine graph as soon as every node has a non-empty membership list -/
theorem C02_cover (mol : Mol) (a : Atom) (ha : a ∈ mol.atoms) (k : Key) (hk : k ∈ a.fragid) :
    a.key ∈ membersOf mol k := (C02_members_iff mol k a.key).mpr ⟨a, ha, rfl, hk⟩

/-- renumbering keeps membership, names and every other attribute (L-sort) -/
theorem C02_sort_keeps (mol : Mol) :
    (sortNodes mol).1.atoms.map (fun a => (a.fragid, a.fragname, a.mapping, a.atomname, a.element, a.extra)) =
      mol.atoms.map (fun a => (a.fragid, a.fragname, a.mapping, a.atomname, a.element, a.extra)) := by
  simp [sortNodes, List.map_map, Function.comp_def]

end CGV.C02
