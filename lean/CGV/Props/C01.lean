/-
  C01 — cutting a molecule into fragments and resolving gives the molecule back.

  The chain of the argument (DESIGN §7 C01) and what is machine-checked here:
    1. strip: descriptors are separated from the fragment text exactly           → C13
    2. instantiate: every fragment instance is a copy of its template            → C02_copy_*
    3. bonds: with uniquely labelled complementary pairs carrying the cut bond's order and base-graph
       edge order = number of cut bonds, the bond loop re-creates EXACTLY the cut bonds, whatever the
       order of base-graph nodes/edges, of atoms in the fragment text and of descriptors on an atom
                                                                                 → `C01_bonds` (L-restore)
    4. each re-created bond gets the cut bond's order (1.5 between aromatic atoms) → `C01_bond_order`
    5. the uncut description creates no bond at all                              → `C01_uncut`
    6. hydrogens: every heavy atom is completed to its smallest fitting valence  → `C01_hydrogens`
  Outside the proofs (validated by correspondence + oracle on generated molecules, partitions,
  renderings): pysmiles' SMILES reading of the clean fragment text and its aromaticity correction
  (contracts A0–A2), which is why the aromatic part of the claim is `partial`.
-/
import CGV.Props.C03
import CGV.Props.C09
namespace CGV.C01
open CGV

variable (cp : Desc → Desc → Bool)

/-- (3) exactly the cut bonds, independent of every ordering in the description -/
theorem C01_bonds (edges : List MEdge) (s : OpenSt) (spec : List Cut) (h : CutSpec cp edges s spec) :
    (edgesFrom cp edges s).2.Perm spec ∧ ∀ k a d, cnt ((edgesFrom cp edges s).1.get k) a d = 0 :=
  C03.C03_exact cp edges s spec h

/-- … in particular the same bonds for any reordering of the base graph's edge list -/
theorem C01_edge_order_irrelevant (edges edges' : List MEdge) (s : OpenSt) (spec : List Cut)
    (h : CutSpec cp edges s spec) (h' : CutSpec cp edges' s spec) :
    (edgesFrom cp edges s).2.Perm (edgesFrom cp edges' s).2 :=
  (C01_bonds cp edges s spec h).1.trans (C01_bonds cp edges' s spec h').1.symm

/-- (4) -/
theorem C01_bond_order (allAtom : Bool) (mol : Mol) (c : Cut) (o : Nat) (ho : descOrder c.da = .ok o)
    (hne : mol.hasEdge c.a c.b = false) :
    ∃ m, applyCut allAtom mol c = .ok m ∧
      ∃ e ∈ m.edges, e.a = c.a ∧ e.b = c.b ∧ e.bonding = some (c.da, c.db) ∧
        e.order2 = (if ((mol.atom? c.a).map (·.aromatic)).getD false && ((mol.atom? c.b).map (·.aromatic)).getD false
                    then 3 else 2 * o) :=
  C03.C03_bond_order allAtom mol c o ho hne

/-- (5) a single-fragment description (no base-graph edge) makes no bond and consumes nothing -/
theorem C01_uncut (s : OpenSt) : edgesFrom cp [] s = (s, []) := rfl

/-- (6) -/
theorem C01_hydrogens (mol : Mol) (hnd : mol.keys.Nodup) (counts : List (Key × Nat)) (h : hCounts mol = .ok counts)
    (a : Atom) (ha : a ∈ mol.atoms) (hH : a.isH = false) (vs : List Nat) (hv : valenceOf a = some vs)
    (v : Nat) (hfind : vs.find? (fun v => decide (2 * v ≥ mol.bonds2 a.key)) = some v)
    (heven : mol.bonds2 a.key % 2 = 0) :
    (addHs mol counts).bonds2 a.key = 2 * v :=
  C09.C09_complete mol hnd counts h a ha hH vs hv v hfind heven

end CGV.C01
