/-
  C15 — stereo information survives fragmentation and renumbering.

  Proved here, for every molecule (any size, any number of double bonds):
  * `C15_refs`        every annotation the final step produces is a path
                      substituent–atom=atom–substituent of the molecule it annotates;
  * `C15_stored`      what a node stores is exactly the annotations that start at it (own or mirrored);
  * `C15_marks_removed`, `C15_keeps`  the slash marks are gone afterwards, nothing else changes
                      (keys, elements, chirality labels and every other attribute, all bonds);
  * `C15_chiral`      a chirality label written on a fragment atom sits on the copy of that atom
                      (same element, same position in its fragment) after instantiation, renumbering
                      and annotation;
  * `C15_order_within_fragment`  the final renumbering keeps the relative order of two atoms of one fragment;
  * `C15_ez_geometric` (the part of the cis/trans claim that holds): when the second substituent
                      has the larger index than its atom — as in any single left-to-right writing —
                      the class is the geometric one (sides of the two substituents differ ↔ trans);
  * `C15_ez_E1`       … and when it has the smaller index, the class is the *opposite* of the
                      geometric one.  This is finding E1: cutting at the double bond and listing the
                      fragments right-to-left (or writing the right-hand fragment substituent first)
                      produces exactly that situation; `C15_E1_witness` evaluates the model on it.
  The full statement `C15_ez` (class independent of fragment order) is false of model and code today.
-/
import CGV.Model.Resolve
import CGV.Lemmas.Sort
import CGV.Props.C14
import CGV.Lemmas.Fold
namespace CGV.C15
open CGV Mol

/-! ### geometry of the slash marks -/

/-- is the marked substituent above the double bond?  written before its atom (`X/C`) the bond goes
    up to the atom, so X is below; written after (`C/X`) X is above; `\` the other way round -/
def sideUp (before : Bool) (t : String) : Option Bool :=
  if t == "/" then some (!before) else if t == "\\" then some before else none

/-- the pysmiles table is the geometric rule provided the second substituent is written after its atom -/
theorem C15_ez_table (b : Bool) (t1 t2 : String) (u1 u2 : Bool)
    (h1 : sideUp b t1 = some u1) (h2 : sideUp false t2 = some u2) : ezClass b t1 t2 = some (u1 != u2) := by
  unfold sideUp at h1 h2
  unfold ezClass
  by_cases a1 : t1 = "/" <;> by_cases a2 : t2 = "/" <;> by_cases b1 : t1 = "\\" <;> by_cases b2 : t2 = "\\" <;>
    cases b <;> simp_all <;> (try (subst_vars; simp_all)) <;> (try (rw [← h1, ← h2])) <;> decide

/-- … and the opposite of it when the second substituent is written before its atom -/
theorem C15_ez_table_reversed (b : Bool) (t1 t2 : String) (u1 u2 : Bool)
    (h1 : sideUp b t1 = some u1) (h2 : sideUp true t2 = some u2) : ezClass b t1 t2 = some (u1 == u2) := by
  unfold sideUp at h1 h2
  unfold ezClass
  by_cases a1 : t1 = "/" <;> by_cases a2 : t2 = "/" <;> by_cases b1 : t1 = "\\" <;> by_cases b2 : t2 = "\\" <;>
    cases b <;> simp_all <;> (try (subst_vars; simp_all)) <;> (try (rw [← h1, ← h2])) <;> decide

/-! ### what the annotation step produces -/

theorem mem_taggedOn {m : Mol} {anchor other : Key} {x : Key × Key × String} (h : x ∈ taggedOn m anchor other) :
    x.1 ∈ m.neighbors anchor ∧ x.2.1 = anchor ∧ x.1 ≠ anchor ∧ x.1 ≠ other ∧ ezTok m x.1 = some x.2.2 := by
  unfold taggedOn at h
  obtain ⟨n, hn, hx⟩ := List.mem_filterMap.mp h
  by_cases c : (n == anchor || n == other) = true
  · rw [if_pos c] at hx; cases hx
  · rw [if_neg c] at hx
    cases ht : ezTok m n with
    | none => rw [ht] at hx; cases hx
    | some t =>
      rw [ht] at hx
      simp only [Option.map_some, Option.some.injEq] at hx
      subst hx
      simp only [Bool.or_eq_true, beq_iff_eq, not_or] at c
      exact ⟨hn, rfl, c.1, c.2, ht⟩

theorem mem_ezPairsOf {m : Mol} {e : Edge} {r} (h : ezPairsOf m e = .ok r) {p} (hp : p ∈ r) :
    e.order2 = 4 ∧ p.1 ∈ taggedOn m e.a e.b ∧ p.2 ∈ taggedOn m e.b e.a := by
  unfold ezPairsOf at h
  by_cases c1 : (e.order2 != 4) = true
  · rw [if_pos c1] at h; cases h; simp at hp
  · rw [if_neg c1] at h
    simp only at h
    split at h
    · cases h
    · split at h
      · cases h
      · cases h
        obtain ⟨s1, hs1, hp'⟩ := List.mem_flatMap.mp hp
        obtain ⟨s2, hs2, rfl⟩ := List.mem_map.mp hp'
        refine ⟨?_, hs1, hs2⟩
        simpa using c1

theorem mem_edgesIter {m : Mol} {e : Edge} (h : e ∈ m.edgesIter) :
    ∃ e' ∈ m.edges, e'.order2 = e.order2 ∧ ((e'.a = e.a ∧ e'.b = e.b) ∨ (e'.a = e.b ∧ e'.b = e.a)) := by
  unfold edgesIter at h
  obtain ⟨u, _, hu⟩ := List.mem_flatMap.mp h
  obtain ⟨hm, _⟩ := List.mem_filter.mp hu
  obtain ⟨e', he', rfl⟩ := List.mem_map.mp hm
  refine ⟨e', he', ?_⟩
  split
  · exact ⟨rfl, Or.inl ⟨rfl, rfl⟩⟩
  · exact ⟨rfl, Or.inr ⟨rfl, rfl⟩⟩

/-- every annotation is a path substituent–atom=atom–substituent of the molecule, over a bond of
    order 2 that the molecule has, and its class is the table entry for the two marks and the index
    comparison of the first substituent -/
theorem C15_refs (m : Mol) (l : List EZ) (h : ezAll m = .ok l) (z : EZ) (hz : z ∈ l) :
    (∃ e' ∈ m.edges, e'.order2 = 4 ∧ ((e'.a = z.a1 ∧ e'.b = z.a2) ∨ (e'.a = z.a2 ∧ e'.b = z.a1))) ∧
    z.l1 ∈ m.neighbors z.a1 ∧ z.l2 ∈ m.neighbors z.a2 ∧
    z.l1 ≠ z.a1 ∧ z.l1 ≠ z.a2 ∧ z.l2 ≠ z.a2 ∧ z.l2 ≠ z.a1 ∧
    ∃ t1 t2, ezTok m z.l1 = some t1 ∧ ezTok m z.l2 = some t2 ∧
      ezClass (decide (z.l1 < z.a1)) t1 t2 = some z.trans := by
  unfold ezAll at h
  cases hp : m.edgesIter.mapM (ezPairsOf m) with
  | error e => rw [hp] at h; simp [bind, Except.bind] at h
  | ok pairs =>
    rw [hp] at h
    simp only [bind, Except.bind] at h
    obtain ⟨p, hpm, hpz⟩ := mapM_ok_mem _ _ _ h z hz
    obtain ⟨ps, hps, hpin⟩ := List.mem_flatten.mp hpm
    obtain ⟨e, he, hpe⟩ := mapM_ok_mem _ _ _ hp ps hps
    obtain ⟨ho, ht1, ht2⟩ := mem_ezPairsOf hpe hpin
    obtain ⟨n1, a1, x1, y1, k1⟩ := mem_taggedOn ht1
    obtain ⟨n2, a2, x2, y2, k2⟩ := mem_taggedOn ht2
    obtain ⟨e', he', ho', hor⟩ := mem_edgesIter he
    unfold ezOfPair at hpz
    cases hc : ezClass (decide (p.1.1 < p.1.2.1)) p.1.2.2 p.2.2.2 with
    | none => rw [hc] at hpz; cases hpz
    | some c =>
      rw [hc] at hpz
      cases hpz
      simp only
      refine ⟨⟨e', he', ho'.trans ho, ?_⟩, ?_, ?_, ?_, ?_, ?_, ?_, p.1.2.2, p.2.2.2, k1, k2, hc⟩
      · rw [a1, a2]; exact hor
      · rw [a1]; exact n1
      · rw [a2]; exact n2
      · rw [a1]; exact x1
      · rw [a2]; exact y1
      · rw [a2]; exact x2
      · rw [a1]; exact y2

/-- the cis/trans claim as far as it holds: whenever the second substituent has the larger index
    than its atom, the stored class is the geometric one -/
theorem C15_ez_geometric (m : Mol) (l : List EZ) (h : ezAll m = .ok l) (z : EZ) (hz : z ∈ l)
    (t1 t2 : String) (k1 : ezTok m z.l1 = some t1) (k2 : ezTok m z.l2 = some t2) (u1 u2 : Bool)
    (s1 : sideUp (decide (z.l1 < z.a1)) t1 = some u1) (s2 : sideUp (decide (z.l2 < z.a2)) t2 = some u2)
    (hafter : z.a2 < z.l2) : z.trans = (u1 != u2) := by
  obtain ⟨_, _, _, _, _, _, _, t1', t2', k1', k2', hc⟩ := C15_refs m l h z hz
  rw [k1] at k1'; rw [k2] at k2'; cases k1'; cases k2'
  have : decide (z.l2 < z.a2) = false := decide_eq_false (Nat.not_lt.mpr (Nat.le_of_lt hafter))
  rw [this] at s2
  rw [C15_ez_table _ _ _ _ _ s1 s2] at hc
  exact (Option.some.inj hc).symm

/-- finding E1, in general: whenever the second substituent has the smaller index than its atom,
    the stored class is the opposite of the geometric one -/
theorem C15_ez_E1 (m : Mol) (l : List EZ) (h : ezAll m = .ok l) (z : EZ) (hz : z ∈ l)
    (t1 t2 : String) (k1 : ezTok m z.l1 = some t1) (k2 : ezTok m z.l2 = some t2) (u1 u2 : Bool)
    (s1 : sideUp (decide (z.l1 < z.a1)) t1 = some u1) (s2 : sideUp (decide (z.l2 < z.a2)) t2 = some u2)
    (hbefore : z.l2 < z.a2) : z.trans = !(u1 != u2) := by
  obtain ⟨_, _, _, _, _, _, _, t1', t2', k1', k2', hc⟩ := C15_refs m l h z hz
  rw [k1] at k1'; rw [k2] at k2'; cases k1'; cases k2'
  have : decide (z.l2 < z.a2) = true := by simpa using hbefore
  rw [this] at s2
  rw [C15_ez_table_reversed _ _ _ _ _ s1 s2] at hc
  have := (Option.some.inj hc).symm
  rw [this]; cases u1 <;> cases u2 <;> rfl

/-! ### storing the annotations -/

theorem mem_ezInsert (x y : EZ) : ∀ l, y ∈ ezInsert x l ↔ y = x ∨ y ∈ l
  | [] => by simp [ezInsert]
  | z :: zs => by
    unfold ezInsert
    split
    · simp
    · simp only [List.mem_cons, mem_ezInsert x y zs]
      constructor
      · rintro (h | h | h)
        · exact Or.inr (Or.inl h)
        · exact Or.inl h
        · exact Or.inr (Or.inr h)
      · rintro (h | h | h)
        · exact Or.inr (Or.inl h)
        · exact Or.inl h
        · exact Or.inr (Or.inr h)

theorem mem_ezSort (y : EZ) : ∀ l, y ∈ ezSort l ↔ y ∈ l
  | [] => by simp [ezSort]
  | x :: xs => by
    have := mem_ezSort y xs
    unfold ezSort at this ⊢
    rw [List.foldr_cons, mem_ezInsert, this]
    simp

/-- a node stores exactly the annotations that start at it: its own ones and the mirror images of
    those that end at it -/
theorem C15_stored (all : List EZ) (k : Key) (z : EZ) :
    z ∈ ezStored all k ↔ z.l1 = k ∧ (z ∈ all ∨ ∃ w ∈ all, w.flip = z) := by
  unfold ezStored
  rw [mem_ezSort, List.mem_append, List.mem_filter, List.mem_filter, List.mem_map]
  simp only [beq_iff_eq]
  constructor
  · rintro (⟨h1, h2⟩ | ⟨⟨w, hw, rfl⟩, h2⟩)
    · exact ⟨h2, Or.inl h1⟩
    · exact ⟨h2, Or.inr ⟨w, hw, rfl⟩⟩
  · rintro ⟨h2, h1 | ⟨w, hw, rfl⟩⟩
    · exact Or.inl ⟨h1, h2⟩
    · exact Or.inr ⟨⟨w, hw, rfl⟩, h2⟩

/-- a mirrored annotation is again a path (the same one, read from the other end) with the same class -/
theorem C15_flip (z : EZ) : z.flip.l1 = z.l2 ∧ z.flip.a1 = z.a2 ∧ z.flip.a2 = z.a1 ∧ z.flip.l2 = z.l1 ∧
    z.flip.trans = z.trans := ⟨rfl, rfl, rfl, rfl, rfl⟩

theorem lookup_filter_ne (x : List (String × String)) (k : String) :
    (x.filter fun kv => kv.1 != k).lookup k = none := by
  induction x with
  | nil => rfl
  | cons p ps ih =>
    obtain ⟨pk, pv⟩ := p
    rw [List.filter_cons]
    by_cases c : pk = k
    · rw [if_neg (by simp [c])]; exact ih
    · rw [if_pos (by simpa using c)]
      have c' : (k == pk) = false := by
        simp only [beq_eq_false_iff_ne, ne_eq]; exact fun e => c e.symm
      simp only [List.lookup_cons, c']; exact ih

theorem lookup_filter_other (x : List (String × String)) (k j : String) (h : j ≠ k) :
    (x.filter fun kv => kv.1 != k).lookup j = x.lookup j := by
  induction x with
  | nil => rfl
  | cons p ps ih =>
    obtain ⟨pk, pv⟩ := p
    rw [List.filter_cons]
    by_cases c : pk = k
    · rw [if_neg (by simp [c])]
      have c' : (j == pk) = false := by
        simp only [beq_eq_false_iff_ne, ne_eq]; rw [c]; exact h
      simp only [List.lookup_cons, c']; exact ih
    · rw [if_pos (by simpa using c)]
      simp only [List.lookup_cons, ih]

/-- the slash marks are gone after the step … -/
theorem C15_marks_removed (m m' : Mol) (h : annotateEZ m = .ok m') (a : Atom) (ha : a ∈ m'.atoms) :
    a.extra.lookup "ez_isomer_class" = none := by
  unfold annotateEZ at h
  cases hall : ezAll m with
  | error e => rw [hall] at h; simp [bind, Except.bind] at h
  | ok all =>
    rw [hall] at h
    simp only [bind, Except.bind, pure, Except.pure, Except.ok.injEq] at h
    subst h
    obtain ⟨a0, _, rfl⟩ := List.mem_map.mp ha
    simp only
    split
    · exact lookup_filter_ne _ _
    · rw [List.lookup_append, lookup_filter_ne]
      simp [List.lookup_cons]

/-- … and nothing else changes: same bonds, same keys, elements and memberships in the same order,
    and every attribute other than the marks and the annotation itself (chirality labels included) -/
theorem C15_keeps (m m' : Mol) (h : annotateEZ m = .ok m') :
    m'.edges = m.edges ∧
    m'.atoms.map (fun a => (a.key, a.element, a.fragid, a.charge)) = m.atoms.map (fun a => (a.key, a.element, a.fragid, a.charge)) ∧
    ∀ j : String, j ≠ "ez_isomer_class" → j ≠ "ez_isomer" →
      m'.atoms.map (fun a => a.extra.lookup j) = m.atoms.map (fun a => a.extra.lookup j) := by
  unfold annotateEZ at h
  cases hall : ezAll m with
  | error e => rw [hall] at h; simp [bind, Except.bind] at h
  | ok all =>
    rw [hall] at h
    simp only [bind, Except.bind, pure, Except.pure, Except.ok.injEq] at h
    subst h
    refine ⟨rfl, ?_, ?_⟩
    · simp [List.map_map, Function.comp_def]
    · intro j h1 h2
      simp only [List.map_map]
      apply List.map_congr_left
      intro a _
      simp only [Function.comp]
      split
      · exact lookup_filter_other _ _ _ h1
      · rw [List.lookup_append, lookup_filter_other _ _ _ h1]
        have : (j == "ez_isomer") = false := by simpa using h2
        simp [List.lookup_cons, this]

/-! ### chirality labels and the order of atoms inside a fragment -/

/-- a label written on a fragment atom is, after instantiation, on the copy of that atom: same
    element, at the same position of its block, member of exactly the instantiated coarse node -/
theorem C15_chiral (mol : Mol) (k : Key) (name : Str) (tmpl : Mol) (hnd : tmpl.keys.Nodup) (a : Atom) (i : Nat)
    (h : (a, i) ∈ tmpl.atoms.zipIdx) :
    ∃ c ∈ (instantiate mol k name tmpl).1.atoms, c.key = mol.nextKey + i ∧ c.fragid = [k] ∧ c.element = a.element ∧
      c.extra.lookup "chiral" = a.extra.lookup "chiral" ∧ c.extra.lookup "ez_isomer_class" = a.extra.lookup "ez_isomer_class" := by
  refine ⟨{ a with key := mol.nextKey + i, fragid := [k], mapping := [(name, a.key)] }, ?_, rfl, rfl, rfl, rfl, rfl⟩
  rw [show (instantiate mol k name tmpl).1.atoms = mol.atoms ++ tmpl.atoms.zipIdx.map fun (p : Atom × Nat) =>
      { p.1 with key := mol.nextKey + p.2, fragid := [k], mapping := [(name, p.1.key)] } from by
    unfold instantiate
    simp only [foldl_addEdge_atoms]
    congr 1
    have : tmpl.atoms = tmpl.atoms.zipIdx.map (·.1) := by simp
    conv => lhs; rw [this, List.map_map]
    apply List.map_congr_left
    intro p hp
    obtain ⟨a', i'⟩ := p
    have := lookup_corr tmpl.atoms mol.nextKey 0 hnd a' i' hp
    simp [Function.comp, this]]
  exact List.mem_append_right _ (List.mem_map.mpr ⟨(a, i), h, rfl⟩)

/-- the final renumbering keeps the relative order of two atoms that belong to the same coarse
    nodes — so "substituent written before its atom" inside a fragment is still "smaller index" afterwards -/
theorem C15_order_within_fragment (mol : Mol) (h : mol.keys.Nodup) (a b : Atom) (ha : a ∈ mol.atoms) (hb : b ∈ mol.atoms)
    (hf : a.fragid = b.fragid) (hlt : a.key < b.key) :
    (sortOrder mol).idxOf a.key < (sortOrder mol).idxOf b.key := by
  apply sortNodes_monotone mol h a b ha hb
  simp [sortKeyLt, hf, hlt]

/-! ### E1 on the model: one written molecule, two fragment orders, two answers -/

def atomC (k : Key) (f : Nat) : Atom := { key := k, element := "C".toList, fragid := [f], extra := [("ez_isomer_class", "/")] }
def atomX (k : Key) (el : String) (f : Nat) : Atom := { key := k, element := el.toList, fragid := [f], extra := [("ez_isomer_class", "/")] }

/-- `{[#A]=[#B]}.{#A=F/C=[$],#B=[$]=C/Cl}` after connection and renumbering (hydrogens left out) -/
def writtenOrder : Mol :=
  { atoms := [atomX 0 "F" 0, atomC 1 0, atomC 2 1, atomX 3 "Cl" 1],
    edges := [⟨0, 1, 2, none⟩, ⟨2, 3, 2, none⟩, ⟨1, 2, 4, none⟩] }
/-- `{[#B]=[#A]}.{#A=F/C=[$],#B=[$]=C/Cl}`: the same fragments, listed the other way round -/
def reversedOrder : Mol :=
  { atoms := [atomC 0 0, atomX 1 "Cl" 0, atomX 2 "F" 1, atomC 3 1],
    edges := [⟨0, 1, 2, none⟩, ⟨2, 3, 2, none⟩, ⟨0, 3, 4, none⟩] }

theorem C15_E1_witness :
    ezAll writtenOrder = .ok [⟨0, 1, 2, 3, true⟩] ∧ ezAll reversedOrder = .ok [⟨1, 0, 3, 2, false⟩] := by
  constructor <;> decide +kernel

/-! ### E3 on the model: the slash mark goes with the removed copy of a shared atom -/

def atomP (k : Key) (el : String) (f : Nat) : Atom := { key := k, element := el.toList, fragid := [f] }

/-- `{[#B][#A]}.{#A=F/C=C[!]/Cl,#B=[!]CBr}` after connection (hydrogens left out): the unmarked copy of the shared atom
    (key 0, fragment B) is kept, the marked one (key 4, an atom of the double bond) is removed -/
def sharedBA : Mol :=
  { atoms := [atomP 0 "C" 0, atomP 1 "Br" 0, atomX 2 "F" 1, atomC 3 1, atomC 4 1, atomX 5 "Cl" 1],
    edges := [⟨0, 1, 2, none⟩, ⟨2, 3, 2, none⟩, ⟨3, 4, 4, none⟩, ⟨4, 5, 2, none⟩, ⟨0, 4, 2, some ("!1".toList, "!1".toList)⟩] }
/-- `{[#A][#B]}.{#A=F/C=C[!]/Cl,#B=[!]CBr}`: the same fragments, listed the other way round -/
def sharedAB : Mol :=
  { atoms := [atomX 0 "F" 0, atomC 1 0, atomC 2 0, atomX 3 "Cl" 0, atomP 4 "C" 1, atomP 5 "Br" 1],
    edges := [⟨0, 1, 2, none⟩, ⟨1, 2, 4, none⟩, ⟨2, 3, 2, none⟩, ⟨4, 5, 2, none⟩, ⟨2, 4, 2, some ("!1".toList, "!1".toList)⟩] }

/-- one written molecule, two fragment orders: a geometry, or "dangling E/Z token" (finding E3) -/
theorem C15_E3_witness :
    ezAll (squash sharedAB) = .ok [⟨0, 1, 2, 3, true⟩] ∧ ezAll (squash sharedBA) = .error PyErr.value ∧
    ((squash sharedBA).atoms.map fun a => (a.key, a.extra.length)) = [(0, 0), (1, 0), (2, 1), (3, 1), (5, 1)] := by
  refine ⟨?_, ?_, ?_⟩ <;> decide +kernel

/-- the mechanism, for every molecule: the atom kept by a contraction has exactly the free attributes (slash marks
    included) it had before — nothing the removed copy carried is handed over except memberships and template
    positions (`C10_membership`) -/
theorem C15_E3_marks_not_transferred (mol : Mol) (keep rem : Key) (hne : keep ≠ rem) (b : Atom)
    (hb : b ∈ (contract mol keep rem).atoms) (hbk : b.key = keep) :
    ∃ k ∈ mol.atoms, k.key = keep ∧ b.extra = k.extra ∧ b.element = k.element := by
  unfold contract at hb
  have hmoved : ∀ (inc : List Edge) (rest : Mol), (inc.foldl (moveStep keep rem) rest).atoms = rest.atoms := by
    intro inc
    induction inc with
    | nil => intro rest; rfl
    | cons e es ih =>
      intro rest
      simp only [List.foldl_cons]
      rw [ih]
      unfold moveStep
      dsimp only
      split
      · split <;> (try rfl) <;> (split <;> rfl)
      · split <;> (try rfl) <;> (split <;> rfl)
  cases hr : mol.atom? rem with
  | none =>
    rw [hr] at hb
    simp only [hmoved] at hb
    obtain ⟨h1, _⟩ := List.mem_filter.mp hb
    exact ⟨b, h1, hbk, rfl, rfl⟩
  | some r =>
    rw [hr] at hb
    simp only [Mol.updAtom, hmoved, List.mem_map] at hb
    obtain ⟨k, hk, rfl⟩ := hb
    obtain ⟨h1, _⟩ := List.mem_filter.mp hk
    by_cases hkk : (k.key == keep) = true
    · simp only [hkk, if_true] at hbk ⊢
      exact ⟨k, h1, by simpa using hkk, rfl, rfl⟩
    · simp only [hkk, Bool.false_eq_true, if_false] at hbk ⊢
      exact ⟨k, h1, hbk, rfl, rfl⟩

end CGV.C15
