/-
  C04 with annotations inside the nodes: every chain `{[#label0] b1 [#label1] b2 … }` whose node texts are ANY
  texts the base dialect accepts (name plus positional / keyword annotations, `;`-separated — whatever
  `parse_graph_base_node` makes of them, C14) reads to the chain graph whose nodes carry exactly the parsed
  annotation values, numbered in order of appearance, consecutive nodes joined with the written order.
-/
import CGV.Props.C04
namespace CGV.C04
open CGV Gen

/-- a chain item whose node text is a label with annotations; `attrs` is what the base dialect reads from it -/
structure AItem where
  label : Str
  attrs : Attrs
  order : Nat

/-- characters a node text may consist of here: anything printable except the two brackets that end the node /
    close a branch -/
def labelChar (c : Char) : Bool := !(c == ']' || c == ')' || c == '\n' || decide (c.toNat > 127))

def LabelOk (label : Str) (attrs : Attrs) : Prop := label.all labelChar = true ∧ parseBase label = .ok attrs
def AItemOk (it : AItem) : Prop := LabelOk it.label it.attrs ∧ it.order ≤ 4

def renderTailA : List AItem → Str
  | [] => ['}']
  | it :: its => symText it.order ++ nodeText it.label ++ renderTailA its

def renderChainA (first : Str) (its : List AItem) : Str := '{' :: (nodeText first ++ renderTailA its)

def annoGraphAux (g : CGGraph) (prev k : Nat) : List AItem → CGGraph
  | [] => g
  | it :: its => annoGraphAux ((g.addNode k it.attrs).addEdge prev k (some it.order)) k (k + 1) its

/-- the graph the text denotes: node `i` carries the annotation values of the `i`-th node text -/
def annoGraph (first : Attrs) (its : List AItem) : CGGraph :=
  annoGraphAux (({} : CGGraph).addNode 0 first) 0 1 its

theorem labelChar_facts (c : Char) (h : labelChar c = true) : c ≠ ']' ∧ c ≠ ')' ∧ c ≠ '\n' ∧ okChar c = true := by
  simp only [labelChar, Bool.not_eq_true', Bool.or_eq_false_iff, beq_eq_false_iff_ne, ne_eq, decide_eq_false_iff_not] at h
  obtain ⟨⟨⟨h1, h2⟩, h3⟩, h4⟩ := h
  refine ⟨h1, h2, h3, ?_⟩
  have : (c == '\n') = false := by simpa using h3
  simp [okChar, this]; omega

theorem untilClose_label (label rest : Str) (h : label.all labelChar = true) :
    untilClose (label ++ ']' :: rest) = some (label, rest) := by
  induction label with
  | nil => simp [untilClose]
  | cons c cs ih =>
    simp only [List.all_cons, Bool.and_eq_true] at h
    obtain ⟨h1, _, h3, _⟩ := labelChar_facts c h.1
    have e1 : (c == ']') = false := by simpa using h1
    have e2 : (c == '\n') = false := by simpa using h3
    simp [untilClose, e1, e2, ih h.2]

theorem matchesAux_label (last pre : Char) (fuel : Nat) (label rest : Str) (h : label.all labelChar = true) :
    matchesAux last (fuel + 1) pre (nodeText label ++ rest) = (pre, label, rest) :: matchesAux last fuel ']' rest := by
  have : nodeText label ++ rest = '[' :: '#' :: (label ++ ']' :: rest) := by simp [nodeText]
  rw [this]
  simp [matchesAux, untilClose_label label rest h]

def toksTailA : Char → List AItem → List (Char × Str × Str)
  | _, [] => []
  | p, it :: its => ((symText it.order).getLast?.getD p, it.label, renderTailA its) :: toksTailA ']' its

theorem matches_tailA (last : Char) : ∀ (its : List AItem) (p : Char) (fuel : Nat),
    (∀ it ∈ its, AItemOk it) → (renderTailA its).length ≤ fuel →
    matchesAux last fuel p (renderTailA its) = toksTailA p its
  | [], p, fuel, _, hf => by
    obtain ⟨f, rfl⟩ : ∃ f, fuel = f + 1 := ⟨fuel - 1, by simp [renderTailA] at hf; omega⟩
    simp only [renderTailA, toksTailA]
    rw [matchesAux_other last p '}' f [] (by decide), matchesAux_nil]
  | it :: its, p, fuel, hok, hf => by
    have hit := hok it List.mem_cons_self
    have hrest : ∀ x ∈ its, AItemOk x := fun x hx => hok x (List.mem_cons_of_mem _ hx)
    have hname := hit.1.1
    have hlen : (renderTailA (it :: its)).length =
        (symText it.order).length + (it.label.length + 3) + (renderTailA its).length := by
      simp [renderTailA, nodeText_length]; omega
    rw [hlen] at hf
    rcases symText_cases it.order hit.2 with ⟨_, hs⟩ | ⟨_, s, hs, hlook⟩
    · rw [hs] at hf
      obtain ⟨f, rfl⟩ : ∃ f, fuel = f + 1 := ⟨fuel - 1, by simp at hf; omega⟩
      show matchesAux last (f + 1) p (symText it.order ++ nodeText it.label ++ renderTailA its) = _
      rw [hs, List.nil_append, matchesAux_label last p f it.label (renderTailA its) hname]
      rw [matches_tailA last its ']' f hrest (by simp at hf; omega)]
      simp [toksTailA, hs]
    · obtain ⟨_, _, _, _, _, hsb, _⟩ := sym_facts s it.order hlook
      rw [hs] at hf
      obtain ⟨f, rfl⟩ : ∃ f, fuel = f + 2 := ⟨fuel - 2, by simp at hf; omega⟩
      show matchesAux last (f + 2) p (symText it.order ++ nodeText it.label ++ renderTailA its) = _
      rw [hs, List.append_assoc, List.singleton_append]
      rw [show f + 2 = (f + 1) + 1 from rfl, matchesAux_other last p s (f + 1) _ hsb]
      rw [matchesAux_label last s f it.label (renderTailA its) hname]
      rw [matches_tailA last its ']' f hrest (by simp at hf; omega)]
      simp [toksTailA, hs]

theorem renderTailA_getLast (its : List AItem) : (renderTailA its).getLast? = some '}' := by
  induction its with
  | nil => rfl
  | cons it its ih =>
    show (symText it.order ++ nodeText it.label ++ renderTailA its).getLast? = _
    rw [List.getLast?_append, ih]; rfl

theorem matches_chainA (first : Str) (its : List AItem) (hfirst : first.all labelChar = true) (hok : ∀ it ∈ its, AItemOk it) :
    matches' (renderChainA first its) = ('{', first, renderTailA its) :: toksTailA ']' its := by
  unfold matches' renderChainA
  have hlast : (('{' :: (nodeText first ++ renderTailA its)).getLast?.getD ' ') = '}' := by
    have h1 : ('{' :: (nodeText first ++ renderTailA its)) = (['{'] ++ nodeText first) ++ renderTailA its := by simp
    rw [h1, List.getLast?_append, renderTailA_getLast]; rfl
  rw [hlast]
  have hlen : ('{' :: (nodeText first ++ renderTailA its)).length + 1 = ((first.length + 3 + (renderTailA its).length) + 1) + 1 := by
    simp only [List.length_cons, List.length_append, nodeText_length]
  rw [hlen, matchesAux_other '}' '}' '{' _ _ (by decide)]
  rw [matchesAux_label '}' '{' _ first (renderTailA its) hfirst]
  rw [matches_tailA '}' its ']' _ hok (by omega)]

def nextOrderA : List AItem → Nat
  | [] => 1
  | it :: _ => it.order

theorem gap_tailA (its : List AItem) (hok : ∀ it ∈ its, AItemOk it) : PlainGap (renderTailA its) (nextOrderA its) := by
  cases its with
  | nil => exact PlainGap.close []
  | cons it its =>
    have hit := hok it List.mem_cons_self
    show PlainGap (symText it.order ++ nodeText it.label ++ renderTailA its) it.order
    rcases symText_cases it.order hit.2 with ⟨h1, hs⟩ | ⟨_, s, hs, hlook⟩
    · rw [hs, h1]; exact PlainGap.node _
    · rw [hs]; exact PlainGap.sym s it.order _ hlook

theorem tail_no_closeA (its : List AItem) (hok : ∀ it ∈ its, AItemOk it) : ∀ c ∈ renderTailA its, c ≠ ')' := by
  induction its with
  | nil => intro c hc; simp [renderTailA] at hc; subst hc; decide
  | cons it its ih =>
    have hit := hok it List.mem_cons_self
    intro c hc
    simp only [renderTailA, nodeText, List.mem_append, List.mem_cons, List.mem_singleton] at hc
    rcases hc with (hc | hc | hc | hc | hc) | hc
    · rcases symText_cases it.order hit.2 with ⟨_, hs⟩ | ⟨_, s, hs, hlook⟩
      · rw [hs] at hc; simp at hc
      · rw [hs] at hc; simp only [List.mem_singleton] at hc; subst hc
        exact (sym_facts c it.order hlook).2.2.2.1
    · subst hc; decide
    · subst hc; decide
    · exact (labelChar_facts c (List.all_eq_true.mp hit.1.1 c hc)).2.1
    · rcases hc with hc | hc
      · subst hc; decide
      · simp at hc
    · exact ih (fun x hx => hok x (List.mem_cons_of_mem _ hx)) c hc

theorem fold_tailA : ∀ (its : List AItem) (p : Char) (st : RState) (prev : Nat),
    (∀ it ∈ its, AItemOk it) → p ≠ '(' → st.branching = false → st.prev = some prev → st.pbo = some (nextOrderA its) →
    ∃ st', (toksTailA p its).foldlM stepNode st = .ok st' ∧
      st'.g = annoGraphAux st.g prev st.current its ∧ st'.cycle = st.cycle
  | [], _, st, _, _, _, _, _, _ => ⟨st, rfl, rfl, rfl⟩
  | it :: its, p, st, prev, hok, hp, hbr, hprev, hpbo => by
    have hit := hok it List.mem_cons_self
    have hrest : ∀ x ∈ its, AItemOk x := fun x hx => hok x (List.mem_cons_of_mem _ hx)
    have hpre : (symText it.order).getLast?.getD p ≠ '(' := by
      rcases symText_cases it.order hit.2 with ⟨_, hs⟩ | ⟨_, s, hs, hlook⟩
      · rw [hs]; exact hp
      · rw [hs]; simp only [List.getLast?_singleton, Option.getD_some]
        exact (sym_facts s it.order hlook).2.2.2.2.2.2
    obtain ⟨r, hstep⟩ := stepNode_plain st ((symText it.order).getLast?.getD p) it.label (renderTailA its) (nextOrderA its)
      it.attrs hpre (gap_tailA its hrest) hit.1.2 hbr (tail_no_closeA its hrest)
    simp only [toksTailA, List.foldlM_cons, hstep, bind, Except.bind]
    obtain ⟨st', h1, h2, h3⟩ := fold_tailA its ']'
      { st with g := (match st.prev with
                      | some p => (st.g.addNode st.current it.attrs).addEdge p st.current st.pbo
                      | none => st.g.addNode st.current it.attrs),
                current := st.current + 1, prev := some st.current, pbo := some (nextOrderA its),
                attrs := some it.attrs, rdx := some r }
      st.current hrest (by decide) hbr rfl rfl
    refine ⟨st', h1, ?_, h3⟩
    rw [h2]
    simp only [annoGraphAux, hpbo, hprev, nextOrderA]

theorem nodeText_okA (label : Str) (h : label.all labelChar = true) : ∀ c ∈ nodeText label, okChar c = true := by
  intro c hc
  simp only [nodeText, List.mem_cons, List.mem_append, List.mem_singleton] at hc
  rcases hc with rfl | rfl | hc | hc
  · decide
  · decide
  · exact (labelChar_facts c (List.all_eq_true.mp h c hc)).2.2.2
  · rcases hc with rfl | hc
    · decide
    · simp at hc

theorem renderTailA_ok (its : List AItem) (hok : ∀ it ∈ its, AItemOk it) : ∀ c ∈ renderTailA its, okChar c = true := by
  induction its with
  | nil => intro c hc; simp [renderTailA] at hc; subst hc; decide
  | cons it its ih =>
    have hit := hok it List.mem_cons_self
    intro c hc
    simp only [renderTailA, List.mem_append] at hc
    rcases hc with (hc | hc) | hc
    · exact symText_ok it.order hit.2 c hc
    · exact nodeText_okA it.label hit.1.1 c hc
    · exact ih (fun x hx => hok x (List.mem_cons_of_mem _ hx)) c hc

/-- **C04 for chains of annotated nodes.**  Every string `{[#t0] b1 [#t1] b2 … }` whose node texts `ti` are texts the
    base dialect accepts (no `]`, `)`, line break or non-ASCII character in them) and whose `b` are bond symbols or
    nothing: reading succeeds and returns the chain whose `i`-th node carries exactly the annotation values the dialect
    reads from `ti` — name, charge, weight, free keys (C14 says which) — joined to its predecessor with the written
    order. -/
theorem C04_read_annotated_chain (first : Str) (fattrs : Attrs) (its : List AItem) (hfirst : LabelOk first fattrs)
    (hok : ∀ it ∈ its, AItemOk it) :
    readCG (renderChainA first its) = .ok (annoGraph fattrs its) := by
  have hsup : ((renderChainA first its).any fun c => c == '\n' || decide (c.toNat > 127)) = false := by
    rw [List.any_eq_false]
    intro c hc
    have : okChar c = true := by
      simp only [renderChainA, List.mem_cons, List.mem_append] at hc
      rcases hc with rfl | hc | hc
      · decide
      · exact nodeText_okA first hfirst.1 c hc
      · exact renderTailA_ok its hok c hc
    simpa [okChar] using this
  unfold readCG
  simp only [hsup, Bool.false_eq_true, if_false]
  rw [matches_chainA first its hfirst.1 hok]
  obtain ⟨r, hstep⟩ := stepNode_plain {} '{' first (renderTailA its) (nextOrderA its) fattrs (by decide)
    (gap_tailA its hok) hfirst.2 rfl (tail_no_closeA its hok)
  simp only [List.foldlM_cons, hstep, bind, Except.bind]
  obtain ⟨st', h1, h2, h3⟩ := fold_tailA its ']'
    { ({} : RState) with g := ({} : CGGraph).addNode 0 fattrs, current := 0 + 1, prev := some 0,
                         pbo := some (nextOrderA its), attrs := some fattrs, rdx := some r }
    0 hok (by decide) rfl rfl rfl
  rw [h1]
  have hc : st'.cycle.isEmpty = true := by rw [h3]; rfl
  simp only [hc, Bool.not_true, Bool.false_eq_true, if_false, pure, Except.pure, h2, annoGraph]

/-! worked instance: `{[#PMA;q=+1]=[#PEO;0.5;x=S][#PMA;-0.25]}` — charge by keyword, charge by position with a free
    key, a negative charge by position -/
def exA1 : Attrs := [("fragname".toList, .str "PMA".toList), ("weight".toList, .num 1 0), ("charge".toList, .num 1 0)]
def exA2 : Attrs := [("x".toList, .str "S".toList), ("fragname".toList, .str "PEO".toList), ("weight".toList, .num 1 0),
  ("charge".toList, .num 5 (-1))]
def exA3 : Attrs := [("fragname".toList, .str "PMA".toList), ("weight".toList, .num 1 0), ("charge".toList, .num (-25) (-2))]
example : parseBase "PMA;q=+1".toList = .ok exA1 ∧ parseBase "PEO;0.5;x=S".toList = .ok exA2 ∧
    parseBase "PMA;-0.25".toList = .ok exA3 := by decide +kernel
example : renderChainA "PMA;q=+1".toList [⟨"PEO;0.5;x=S".toList, exA2, 2⟩, ⟨"PMA;-0.25".toList, exA3, 1⟩] =
    "{[#PMA;q=+1]=[#PEO;0.5;x=S][#PMA;-0.25]}".toList := by decide +kernel
example : readCG "{[#PMA;q=+1]=[#PEO;0.5;x=S][#PMA;-0.25]}".toList =
    .ok (annoGraph exA1 [⟨"PEO;0.5;x=S".toList, exA2, 2⟩, ⟨"PMA;-0.25".toList, exA3, 1⟩]) := by decide +kernel

end CGV.C04
