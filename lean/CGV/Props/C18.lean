/-
  C18 — the RDKit bridge keeps chemistry and puts coordinates on the right atoms.

  In scope and modelled: the node ↔ atom index map (rdkit.py `node_to_idx`), the position write-back
  of `embed_3d_via_rdkit`, the bond-type table (regenerated from rdkit.py on every run) and the bead
  formula of `forward_map_molecule`.  RDKit itself (sanitisation, embedding, force field — contract
  R0, finding K4) and floating point are external: validated with RDKit in the loop (partial).
-/
import CGV.Model.Coords
import Mathlib.Algebra.BigOperators.Ring.Finset
import Mathlib.Algebra.BigOperators.Field
import Mathlib.Tactic.FieldSimp
import Mathlib.Tactic.Ring
namespace CGV.C18
open CGV Gen

/-- atom indices are 0 … n-1 in node iteration order -/
theorem C18_index_range (nodes : List Nat) : (nodeToIdx nodes).map (·.2) = List.range nodes.length := by
  simp [nodeToIdx, List.zipIdx_map_snd, List.range_eq_range']

/-- … and every node has exactly its position in the iteration order as atom index, whatever its key -/
theorem C18_index_of_node (nodes : List Nat) (i : Nat) (h : i < nodes.length) :
    (nodeToIdx nodes)[i]? = some (nodes[i], i) := by
  simp [nodeToIdx, List.getElem?_zipIdx, h]

/-- the write-back stores on the node at iteration position `i` the coordinates of RDKit atom `i` —
    for any keys, any iteration order (this is what fails when positions are stored by key) -/
theorem C18_writeback {P : Type} (nodes : List Nat) (pos : List P) (i : Nat) (h1 : i < nodes.length) (h2 : i < pos.length) :
    (writeBack nodes pos)[i]? = some (nodes[i], pos[i]) := by
  simp [writeBack, List.getElem?_zip_eq_some, h1, h2]

/-- with distinct keys the stored position of a node is found under its key -/
theorem C18_transfer {P : Type} (nodes : List Nat) (pos : List P) (hn : nodes.Nodup) (hl : nodes.length = pos.length)
    (i : Nat) (h : i < nodes.length) :
    (writeBack nodes pos).lookup nodes[i] = some (pos[i]'(hl ▸ h)) := by
  induction nodes generalizing pos i with
  | nil => simp at h
  | cons n ns ih =>
    cases pos with
    | nil => simp at hl
    | cons p ps =>
      rw [List.nodup_cons] at hn
      cases i with
      | zero => simp [writeBack, List.lookup]
      | succ j =>
        have hj : j < ns.length := by simpa using h
        have hne : (ns[j] == n) = false := by
          simp only [beq_eq_false_iff_ne, ne_eq]
          intro e; exact hn.1 (e ▸ List.getElem_mem hj)
        simp only [writeBack, List.zip_cons_cons, List.getElem_cons_succ, List.lookup, hne]
        exact ih ps hn.2 (by simpa using hl) j hj

/-- the bond-type table is inverted by RDKit's `GetBondTypeAsDouble` on every order the bridge maps -/
theorem C18_bondtable : ∀ p ∈ bondTypeMap2, bondTypeAsDouble2 p.2 = some p.1 := by decide

/-- bead position: weight-normalised mean of the member atoms' coordinates (one component) -/
noncomputable def beadPos {ι K : Type} [Field K] (s : Finset ι) (w p : ι → K) : K :=
  (∑ i ∈ s, w i * p i) / (∑ i ∈ s, w i)

/-- translating all member atoms by `t` translates the bead by `t` (any weights with non-zero sum) -/
theorem C18_bead_translation {ι K : Type} [Field K] (s : Finset ι) (w p : ι → K) (t : K) (hw : ∑ i ∈ s, w i ≠ 0) :
    beadPos s w (fun i => p i + t) = beadPos s w p + t := by
  unfold beadPos
  have : ∑ i ∈ s, w i * (p i + t) = ∑ i ∈ s, w i * p i + (∑ i ∈ s, w i) * t := by
    simp [mul_add, Finset.sum_add_distrib, Finset.sum_mul]
  rw [this]
  field_simp

/-- the bead depends on exactly its own atoms: positions of atoms outside the member set are irrelevant -/
theorem C18_bead_own_atoms {ι K : Type} [Field K] (s : Finset ι) (w p q : ι → K) (h : ∀ i ∈ s, p i = q i) :
    beadPos s w p = beadPos s w q := by
  unfold beadPos
  congr 1
  exact Finset.sum_congr rfl (fun i hi => by rw [h i hi])

/-- with all weights equal to one the bead is the plain mean -/
theorem C18_bead_unit_weights {ι K : Type} [Field K] (s : Finset ι) (p : ι → K) :
    beadPos s (fun _ => 1) p = (∑ i ∈ s, p i) / (s.card : K) := by
  simp [beadPos]

/-- the executable rational bead used in the correspondence computes Σ w·p over Σ w (one component) -/
example : bead [((1, 2), [(2, 1)]), ((3, 2), [(4, 1)])] = some [((28, 4), (8, 4))] := by decide

end CGV.C18
