import CGV.Model.ReadCG
namespace CGV.C04
end CGV.C04
