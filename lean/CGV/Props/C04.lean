/-
  C04 — the graph reader implements the documented grammar.

  Model: `readCG` (CGV.Model.ReadCG) = read_cgsmiles: regex scan, per-node index arithmetic, state
  machine — tied to the code by exact differential execution (valid, exhaustive-small and malformed
  strings).

  Proved at the STRING level, for every string of the linear part of the grammar (any number of
  nodes, any alphanumeric names, every bond symbol): reading returns exactly the denoted graph.
  Branches, ring bonds and annotations inside such strings: per-node lemmas (`stepNode_plain`,
  ring parity C20) and kernel-evaluated documented examples below; their unbounded statement is
  validated by the exhaustive/random correspondence + the independent denotation oracle (partial).
-/
import CGV.Spec.Chain
import CGV.Lemmas.Read
import CGV.Props.C14
namespace CGV.C04
open CGV Gen

def ItemOk (it : LItem) : Prop := NameOk it.name ∧ it.order ≤ 4

/-- the tokens the regex scan yields for the part of the string after a node -/
def toksTail : Char → List LItem → List (Char × Str × Str)
  | _, [] => []
  | p, it :: its => ((symText it.order).getLast?.getD p, it.name, renderTail its) :: toksTail ']' its

theorem symText_cases (o : Nat) (ho : o ≤ 4) :
    (o = 1 ∧ symText o = []) ∨ (o ≠ 1 ∧ ∃ s, symText o = [s] ∧ symbolToOrder.lookup s = some o) := by
  have : o = 0 ∨ o = 1 ∨ o = 2 ∨ o = 3 ∨ o = 4 := by omega
  rcases this with rfl | rfl | rfl | rfl | rfl
  · exact Or.inr ⟨by decide, '.', by decide +kernel, by decide +kernel⟩
  · exact Or.inl ⟨rfl, by decide +kernel⟩
  · exact Or.inr ⟨by decide, '=', by decide +kernel, by decide +kernel⟩
  · exact Or.inr ⟨by decide, '#', by decide +kernel, by decide +kernel⟩
  · exact Or.inr ⟨by decide, '$', by decide +kernel, by decide +kernel⟩

theorem renderTail_length_pos (its : List LItem) : 1 ≤ (renderTail its).length := by
  cases its <;> simp [renderTail, nodeText] <;> omega

theorem matchesAux_nodeText (last pre : Char) (fuel : Nat) (name rest : Str) (h : name.all nameChar = true) :
    matchesAux last (fuel + 1) pre (nodeText name ++ rest) = (pre, name, rest) :: matchesAux last fuel ']' rest := by
  have : nodeText name ++ rest = '[' :: '#' :: (name ++ ']' :: rest) := by simp [nodeText]
  rw [this, matchesAux_node last pre fuel name rest h]

theorem nodeText_length (name : Str) : (nodeText name).length = name.length + 3 := by simp [nodeText]

/-- the regex scan of the tail of a chain string -/
theorem matches_tail (last : Char) : ∀ (its : List LItem) (p : Char) (fuel : Nat),
    (∀ it ∈ its, ItemOk it) → (renderTail its).length ≤ fuel →
    matchesAux last fuel p (renderTail its) = toksTail p its
  | [], p, fuel, _, hf => by
    obtain ⟨f, rfl⟩ : ∃ f, fuel = f + 1 := ⟨fuel - 1, by simp [renderTail] at hf; omega⟩
    simp only [renderTail, toksTail]
    rw [matchesAux_other last p '}' f [] (by decide), matchesAux_nil]
  | it :: its, p, fuel, hok, hf => by
    have hit := hok it List.mem_cons_self
    have hrest : ∀ x ∈ its, ItemOk x := fun x hx => hok x (List.mem_cons_of_mem _ hx)
    have hname := hit.1.2
    have hlen : (renderTail (it :: its)).length =
        (symText it.order).length + (it.name.length + 3) + (renderTail its).length := by
      simp [renderTail, nodeText_length]; omega
    rw [hlen] at hf
    rcases symText_cases it.order hit.2 with ⟨_, hs⟩ | ⟨_, s, hs, hlook⟩
    · -- no symbol: the node follows directly
      rw [hs] at hf
      obtain ⟨f, rfl⟩ : ∃ f, fuel = f + 1 := ⟨fuel - 1, by simp at hf; omega⟩
      show matchesAux last (f + 1) p (symText it.order ++ nodeText it.name ++ renderTail its) = _
      rw [hs, List.nil_append, matchesAux_nodeText last p f it.name (renderTail its) hname]
      rw [matches_tail last its ']' f hrest (by simp at hf; omega)]
      simp [toksTail, hs]
    · obtain ⟨_, _, _, _, _, hsb, _⟩ := sym_facts s it.order hlook
      rw [hs] at hf
      obtain ⟨f, rfl⟩ : ∃ f, fuel = f + 2 := ⟨fuel - 2, by simp at hf; omega⟩
      show matchesAux last (f + 2) p (symText it.order ++ nodeText it.name ++ renderTail its) = _
      rw [hs, List.append_assoc, List.singleton_append]
      rw [show f + 2 = (f + 1) + 1 from rfl, matchesAux_other last p s (f + 1) _ hsb]
      rw [matchesAux_nodeText last s f it.name (renderTail its) hname]
      rw [matches_tail last its ']' f hrest (by simp at hf; omega)]
      simp [toksTail, hs]

theorem renderTail_getLast (its : List LItem) : (renderTail its).getLast? = some '}' := by
  induction its with
  | nil => rfl
  | cons it its ih =>
    show (symText it.order ++ nodeText it.name ++ renderTail its).getLast? = _
    rw [List.getLast?_append, ih]; rfl

theorem matches_chain (first : Str) (its : List LItem) (hfirst : NameOk first) (hok : ∀ it ∈ its, ItemOk it) :
    matches' (renderChain first its) = ('{', first, renderTail its) :: toksTail ']' its := by
  unfold matches' renderChain
  have hlast : (('{' :: (nodeText first ++ renderTail its)).getLast?.getD ' ') = '}' := by
    have h1 : ('{' :: (nodeText first ++ renderTail its)) = (['{'] ++ nodeText first) ++ renderTail its := by simp
    rw [h1, List.getLast?_append, renderTail_getLast]; rfl
  rw [hlast]
  have hlen : ('{' :: (nodeText first ++ renderTail its)).length + 1 = ((first.length + 3 + (renderTail its).length) + 1) + 1 := by
    simp only [List.length_cons, List.length_append, nodeText_length]
  rw [hlen, matchesAux_other '}' '}' '{' _ _ (by decide)]
  rw [matchesAux_nodeText '}' '{' _ first (renderTail its) hfirst.2]
  rw [matches_tail '}' its ']' _ hok (by omega)]

/-! ### the state machine on a chain -/

def nextOrder : List LItem → Nat
  | [] => 1
  | it :: _ => it.order

theorem gap_tail (its : List LItem) (hok : ∀ it ∈ its, ItemOk it) : PlainGap (renderTail its) (nextOrder its) := by
  cases its with
  | nil => exact PlainGap.close []
  | cons it its =>
    have hit := hok it List.mem_cons_self
    show PlainGap (symText it.order ++ nodeText it.name ++ renderTail its) it.order
    rcases symText_cases it.order hit.2 with ⟨h1, hs⟩ | ⟨_, s, hs, hlook⟩
    · rw [hs, h1]; exact PlainGap.node _
    · rw [hs]; exact PlainGap.sym s it.order _ hlook

theorem tail_no_close (its : List LItem) (hok : ∀ it ∈ its, ItemOk it) : ∀ c ∈ renderTail its, c ≠ ')' := by
  induction its with
  | nil => intro c hc; simp [renderTail] at hc; subst hc; decide
  | cons it its ih =>
    have hit := hok it List.mem_cons_self
    intro c hc
    simp only [renderTail, nodeText, List.mem_append, List.mem_cons, List.mem_singleton] at hc
    rcases hc with (hc | hc | hc | hc | hc) | hc
    · rcases symText_cases it.order hit.2 with ⟨_, hs⟩ | ⟨_, s, hs, hlook⟩
      · rw [hs] at hc; simp at hc
      · rw [hs] at hc; simp only [List.mem_singleton] at hc; subst hc
        exact (sym_facts c it.order hlook).2.2.2.1
    · subst hc; decide
    · subst hc; decide
    · exact (nameChar_facts c (List.all_eq_true.mp hit.1.2 c hc)).2.2.2.1
    · rcases hc with hc | hc
      · subst hc; decide
      · simp at hc
    · exact ih (fun x hx => hok x (List.mem_cons_of_mem _ hx)) c hc

theorem parse_name (name : Str) (h : NameOk name) : parseBase name = .ok (defaultAttrs name) := by
  have h1 : ';' ∉ name := fun hm => (nameChar_facts _ (List.all_eq_true.mp h.2 _ hm)).2.2.2.2.2.1 rfl
  have h2 : '=' ∉ name := fun hm => (nameChar_facts _ (List.all_eq_true.mp h.2 _ hm)).2.2.2.2.2.2.1 rfl
  exact C14.C14_defaults_base name h1 h2 h.1

theorem toksTail_pre (p : Char) (hp : p ≠ '(') (it : LItem) (hit : ItemOk it) :
    (symText it.order).getLast?.getD p ≠ '(' := by
  rcases symText_cases it.order hit.2 with ⟨_, hs⟩ | ⟨_, s, hs, hlook⟩
  · rw [hs]; exact hp
  · rw [hs]; simp only [List.getLast?_singleton, Option.getD_some]
    exact (sym_facts s it.order hlook).2.2.2.2.2.2

/-- the state machine on the tail of a chain: every node is added with the next key, bonded to its
    predecessor with the order written before it -/
theorem fold_tail : ∀ (its : List LItem) (p : Char) (st : RState) (prev : Nat),
    (∀ it ∈ its, ItemOk it) → p ≠ '(' → st.branching = false → st.prev = some prev → st.pbo = some (nextOrder its) →
    ∃ st', (toksTail p its).foldlM stepNode st = .ok st' ∧
      st'.g = pathGraphAux st.g prev st.current its ∧ st'.cycle = st.cycle
  | [], _, st, _, _, _, _, _, _ => ⟨st, rfl, rfl, rfl⟩
  | it :: its, p, st, prev, hok, hp, hbr, hprev, hpbo => by
    have hit := hok it List.mem_cons_self
    have hrest : ∀ x ∈ its, ItemOk x := fun x hx => hok x (List.mem_cons_of_mem _ hx)
    obtain ⟨r, hstep⟩ := stepNode_plain st ((symText it.order).getLast?.getD p) it.name (renderTail its) (nextOrder its)
      (defaultAttrs it.name) (toksTail_pre p hp it hit) (gap_tail its hrest) (parse_name it.name hit.1) hbr
      (tail_no_close its hrest)
    simp only [toksTail, List.foldlM_cons, hstep, bind, Except.bind]
    obtain ⟨st', h1, h2, h3⟩ := fold_tail its ']'
      { st with g := (match st.prev with
                      | some p => (st.g.addNode st.current (defaultAttrs it.name)).addEdge p st.current st.pbo
                      | none => st.g.addNode st.current (defaultAttrs it.name)),
                current := st.current + 1, prev := some st.current, pbo := some (nextOrder its),
                attrs := some (defaultAttrs it.name), rdx := some r }
      st.current hrest (by decide) hbr rfl rfl
    refine ⟨st', h1, ?_, h3⟩
    rw [h2]
    simp only [pathGraphAux, hpbo, hprev, nextOrder]

theorem nameChar_ascii (c : Char) (h : nameChar c = true) : c.toNat ≤ 127 := by
  simp only [nameChar, Char.isAlphanum, Char.isAlpha, Char.isUpper, Char.isLower, Char.isDigit, Bool.or_eq_true,
    Bool.and_eq_true, decide_eq_true_eq] at h
  have : c.toNat = c.val.toNat := rfl
  rw [this]
  rcases h with (⟨_, h⟩ | ⟨_, h⟩) | ⟨_, h⟩ <;>
  · have := UInt32.le_iff_toNat_le.mp h
    simp at this
    omega

def okChar (c : Char) : Bool := !(c == '\n' || decide (c.toNat > 127))

theorem nameChar_ok (c : Char) (h : nameChar c = true) : okChar c = true := by
  have h1 := nameChar_ascii c h
  have h2 := (nameChar_facts c h).2.2.1
  have : (c == '\n') = false := by simpa using h2
  simp [okChar, this]; omega

theorem symText_ok (o : Nat) (ho : o ≤ 4) : ∀ c ∈ symText o, okChar c = true := by
  have : o = 0 ∨ o = 1 ∨ o = 2 ∨ o = 3 ∨ o = 4 := by omega
  rcases this with rfl | rfl | rfl | rfl | rfl <;> decide +kernel

theorem nodeText_ok (name : Str) (h : name.all nameChar = true) : ∀ c ∈ nodeText name, okChar c = true := by
  intro c hc
  simp only [nodeText, List.mem_cons, List.mem_append, List.mem_singleton] at hc
  rcases hc with rfl | rfl | hc | hc
  · decide
  · decide
  · exact nameChar_ok c (List.all_eq_true.mp h c hc)
  · rcases hc with rfl | hc
    · decide
    · simp at hc

theorem renderTail_ok (its : List LItem) (hok : ∀ it ∈ its, ItemOk it) : ∀ c ∈ renderTail its, okChar c = true := by
  induction its with
  | nil => intro c hc; simp [renderTail] at hc; subst hc; decide
  | cons it its ih =>
    have hit := hok it List.mem_cons_self
    intro c hc
    simp only [renderTail, List.mem_append] at hc
    rcases hc with (hc | hc) | hc
    · exact symText_ok it.order hit.2 c hc
    · exact nodeText_ok it.name hit.1.2 c hc
    · exact ih (fun x hx => hok x (List.mem_cons_of_mem _ hx)) c hc

theorem renderChain_supported (first : Str) (its : List LItem) (hfirst : NameOk first) (hok : ∀ it ∈ its, ItemOk it) :
    ((renderChain first its).any fun c => c == '\n' || decide (c.toNat > 127)) = false := by
  rw [List.any_eq_false]
  intro c hc
  have : okChar c = true := by
    simp only [renderChain, List.mem_cons, List.mem_append] at hc
    rcases hc with rfl | hc | hc
    · decide
    · exact nodeText_ok first hfirst.2 c hc
    · exact renderTail_ok its hok c hc
  simpa [okChar] using this

/-- C04 for the linear grammar: every string `{[#n0] b1 [#n1] b2 … }` (alphanumeric names, each
    `b` one of the bond symbols . = # $ or nothing) reads to exactly the graph it denotes — nodes
    numbered in order of appearance with their names and default annotation values, consecutive nodes
    joined with the written order -/
theorem C04_read_chain (first : Str) (its : List LItem) (hfirst : NameOk first) (hok : ∀ it ∈ its, ItemOk it) :
    readCG (renderChain first its) = .ok (pathGraph first its) := by
  have hsup := renderChain_supported first its hfirst hok
  unfold readCG
  simp only [hsup, Bool.false_eq_true, if_false]
  rw [matches_chain first its hfirst hok]
  obtain ⟨r, hstep⟩ := stepNode_plain {} '{' first (renderTail its) (nextOrder its) (defaultAttrs first) (by decide)
    (gap_tail its hok) (parse_name first hfirst) rfl (tail_no_close its hok)
  simp only [List.foldlM_cons, hstep, bind, Except.bind]
  obtain ⟨st', h1, h2, h3⟩ := fold_tail its ']'
    { ({} : RState) with g := ({} : CGGraph).addNode 0 (defaultAttrs first), current := 0 + 1, prev := some 0,
                         pbo := some (nextOrder its), attrs := some (defaultAttrs first), rdx := some r }
    0 hok (by decide) rfl rfl rfl
  rw [h1]
  have hc : st'.cycle.isEmpty = true := by rw [h3]; rfl
  simp only [hc, Bool.not_true, Bool.false_eq_true, if_false, pure, Except.pure, h2, pathGraph]

/-! ### documented examples beyond chains, by kernel evaluation of the model (tests of the model, not the
    unbounded claim) -/
example : (readCG "{[#A].([#B][#C])[#D]}".toList).map (·.edges) =
    .ok [⟨0, 1, some 0⟩, ⟨1, 2, some 1⟩, ⟨0, 3, some 1⟩] := by decide +kernel
example : (readCG "{[#A].([#B][#C]).[#D]}".toList).map (·.edges) =
    .ok [⟨0, 1, some 0⟩, ⟨1, 2, some 1⟩, ⟨0, 3, some 0⟩] := by decide +kernel
example : (readCG "{[#A].1[#B][#C]1}".toList).map (·.edges) =
    .ok [⟨0, 1, some 1⟩, ⟨1, 2, some 1⟩, ⟨2, 0, some 0⟩] := by decide +kernel
example : (readCG "{[#A]([#B]([#C]))[#D]}".toList).map (·.edges) =
    .ok [⟨0, 1, some 1⟩, ⟨1, 2, some 1⟩, ⟨0, 3, some 1⟩] := by decide +kernel
example : (readCG "{[#PMA]=%123[#PEO][#PMA]%123}".toList).map (·.edges) =
    .ok [⟨0, 1, some 1⟩, ⟨1, 2, some 1⟩, ⟨2, 0, some 2⟩] := by decide +kernel

/-- non-vacuity: a concrete chain satisfies every hypothesis of `C04_read_chain` -/
example : readCG (renderChain "PEO".toList [⟨"PMA".toList, 2⟩, ⟨"B1".toList, 0⟩]) =
    .ok (pathGraph "PEO".toList [⟨"PMA".toList, 2⟩, ⟨"B1".toList, 0⟩]) := by decide +kernel

end CGV.C04
