/-
  C06: "each step's coarse graph is the previous step's fine graph, the mapping guarantees hold at every
  step" — composed over the whole layered resolution.  For every list of levels with well-formed templates
  and an aromaticity correction that is a patch: every atom of every level of `resolve_iter` traces, through
  the membership lists (`fragid`) of the successive levels, down to a node of the ORIGINAL base graph.  The
  membership relation of a multi-level resolution is therefore the composition of the per-step ones, and no
  atom at any depth is an orphan.
-/
import CGV.Props.C06Steps
namespace CGV.C06
open CGV C10

/-- `Origin all i x b`: the atom with key `x` of the `i`-th fine graph stems, through the membership lists of
    levels `i, i-1, …, 0`, from the base-graph node with key `b` -/
def Origin (all : List (Meta × StepOut)) : Nat → Key → Key → Prop
  | 0, x, b => ∃ r, all[0]? = some r ∧ ∃ a ∈ r.2.fine.atoms, a.key = x ∧ b ∈ a.fragid
  | i + 1, x, b => ∃ r, all[i + 1]? = some r ∧ ∃ a ∈ r.2.fine.atoms, a.key = x ∧ ∃ k ∈ a.fragid, Origin all i k b

/-- index form of `Chained` -/
theorem chained_get {α : Type} (r : α → α → Prop) : ∀ (l : List α), Chained r l →
    ∀ i x y, l[i]? = some x → l[i + 1]? = some y → r x y
  | [], _, i, x, y, hx, _ => by simp at hx
  | [_], _, i, x, y, _, hy => by simp at hy
  | a :: b :: t, h, i, x, y, hx, hy => by
    cases i with
    | zero =>
      simp at hx hy; subst hx; subst hy; exact h.1
    | succ j =>
      simp only [List.getElem?_cons_succ] at hx hy
      exact chained_get r (b :: t) h.2 j x y hx (by simpa using hy)

/-- one successful step: every fine node records at least one coarse node, and every coarse node it records
    is a node of the coarse graph the step was given -/
theorem step_fragid_in_coarse (ext : Ext) (harom : AromIsPatch ext) (cp : Desc → Desc → Bool) (lv : Level)
    (hfd : FragsWF lv.fd) (mg : Meta) (out : StepOut) (h : step ext cp lv mg = .ok out) :
    ∀ a ∈ out.fine.atoms, a.fragid ≠ [] ∧ ∀ k ∈ a.fragid, ∃ mn ∈ mg.nodes, mn.key = k := by
  unfold step at h
  simp only [bind, Except.bind] at h
  split at h
  · simp at h
  rename_i r hA
  obtain ⟨pre, ks⟩ := r
  simp only at h
  cases hall : lv.allAtom with
  | false =>
    rw [hall] at h hA
    simp only [Bool.false_eq_true, if_false, pure, Except.pure] at h
    have hB : phaseB false mg (match (none : Option AromPatch) with | some p => applyArom pre p | none => pre) = .ok out := h
    intro a ha
    obtain ⟨h1, h2, _⟩ := C02.C02_step_cover cp false mg lv.fd hfd pre ks none out hA hB a ha
    exact ⟨h1, fun k hk => by obtain ⟨_, mn, hmn, hk', _⟩ := h2 k hk; exact ⟨mn, hmn, hk'⟩⟩
  | true =>
    rw [hall] at h hA
    simp only [if_true] at h
    split at h
    · simp at h
    rename_i pre' hp
    obtain ⟨p, rfl⟩ := harom pre pre' hp
    have hB : phaseB true mg (match some p with | some p => applyArom pre p | none => pre) = .ok out := h
    intro a ha
    obtain ⟨h1, h2, _⟩ := C02.C02_step_cover cp true mg lv.fd hfd pre ks (some p) out hA hB a ha
    exact ⟨h1, fun k hk => by obtain ⟨_, mn, hmn, hk', _⟩ := h2 k hk; exact ⟨mn, hmn, hk'⟩⟩

/-- **memberships compose**: every atom of every level of a layered resolution stems from a node of the
    original base graph -/
theorem C06_every_atom_stems_from_base (ext : Ext) (harom : AromIsPatch ext) (cp : Desc → Desc → Bool)
    (lvs : List Level) (hfd : ∀ lv ∈ lvs, FragsWF lv.fd) (mg : Meta) (all : List (Meta × StepOut))
    (h : resolveIter ext cp lvs mg = .ok all) :
    ∀ (i : Nat) (r : Meta × StepOut), all[i]? = some r → ∀ a ∈ r.2.fine.atoms, ∃ b, Origin all i a.key b ∧ ∃ mn ∈ mg.nodes, mn.key = b := by
  obtain ⟨hlen, hstep⟩ := C06_each_is_step ext cp lvs mg all h
  obtain ⟨hchain, hhead⟩ := C06_chain ext cp lvs mg all h
  have hst : ∀ (i : Nat) (r : Meta × StepOut), all[i]? = some r → ∀ a ∈ r.2.fine.atoms,
      a.fragid ≠ [] ∧ ∀ k ∈ a.fragid, ∃ mn ∈ r.1.nodes, mn.key = k := by
    intro i r hr
    obtain ⟨hi, rfl⟩ := List.getElem?_eq_some_iff.mp hr
    have hl : i < lvs.length := by omega
    exact step_fragid_in_coarse ext harom cp lvs[i] (hfd _ (List.getElem_mem hl)) all[i].1 all[i].2 (hstep i hi hl)
  intro i
  induction i with
  | zero =>
    intro r hr a ha
    obtain ⟨hne, hk⟩ := hst 0 r hr a ha
    obtain ⟨k, hkm⟩ := List.exists_mem_of_ne_nil _ hne
    obtain ⟨mn, hmn, hmk⟩ := hk k hkm
    have hmg : r.1 = mg := hhead r (by rw [List.head?_eq_getElem?]; exact hr)
    exact ⟨k, ⟨r, hr, a, ha, rfl, hkm⟩, mn, hmg ▸ hmn, hmk⟩
  | succ j ih =>
    intro r hr a ha
    obtain ⟨hne, hk⟩ := hst (j + 1) r hr a ha
    obtain ⟨k, hkm⟩ := List.exists_mem_of_ne_nil _ hne
    obtain ⟨mn, hmn, hmk⟩ := hk k hkm
    obtain ⟨hj1, _⟩ := List.getElem?_eq_some_iff.mp hr
    have hj : j < all.length := by omega
    have hprev : all[j]? = some all[j] := List.getElem?_eq_getElem hj
    have hrel : r.1 = nextMeta ext all[j].2.fine := chained_get _ all hchain j all[j] r hprev hr
    rw [hrel] at hmn
    simp only [nextMeta, List.mem_map] at hmn
    obtain ⟨a', ha', rfl⟩ := hmn
    simp only at hmk
    obtain ⟨b, hb, hbase⟩ := ih all[j] hprev a' ha'
    exact ⟨b, ⟨r, hr, a, ha, rfl, k, hkm, hmk ▸ hb⟩, hbase⟩

/-- and the coarse graph of every level after the first has exactly the keys 0 … n-1 of the previous fine
    graph, in the previous fine graph's order -/
theorem C06_next_coarse_keys (ext : Ext) (cp : Desc → Desc → Bool) (lvs : List Level) (mg : Meta)
    (all : List (Meta × StepOut)) (h : resolveIter ext cp lvs mg = .ok all) :
    ∀ (i : Nat) (x y : Meta × StepOut), all[i]? = some x → all[i + 1]? = some y → y.1.nodes.map (·.key) = x.2.fine.keys := by
  obtain ⟨hchain, _⟩ := C06_chain ext cp lvs mg all h
  intro i x y hx hy
  have := chained_get _ all hchain i x y hx hy
  rw [this]
  simp [nextMeta, Mol.keys, Function.comp_def]

/-! worked instance (the hypotheses are satisfiable and the conclusion is not vacuous): propane as two
    overlapping two-atom fragments, then every carbon resolved again into a two-atom fragment -/
def exExt : Ext := ⟨fun _ => [], fun m => .ok m⟩
def exFragN (a b : List Desc) : Mol :=
  { atoms := [{ key := 0, element := "C".toList, atomname := "C".toList, bonding := a },
              { key := 1, element := "C".toList, atomname := "C".toList, bonding := b }],
    edges := [⟨0, 1, 2, none⟩] }
def exFd1 : FragDict := [("A".toList, exFragN [] ["!a1".toList]), ("B".toList, exFragN ["!a1".toList] [])]
def exFd2 : FragDict := [("C".toList, exFragN [] [])]
theorem exExt_patch : AromIsPatch exExt := by
  intro m m' h
  refine ⟨⟨[], []⟩, ?_⟩
  simp only [exExt, Except.ok.injEq] at h
  subst h
  cases m
  simp [applyArom]
example : fragsWFb exFd1 = true ∧ fragsWFb exFd2 = true := by decide +kernel
example : (resolveIter exExt (compat false) [⟨exFd1, false⟩, ⟨exFd2, false⟩] exMeta).map
    (fun l => l.map fun r => (r.2.fine.atoms.map fun a => (a.key, a.fragid))) =
    .ok [[(0, [0]), (1, [0, 1]), (2, [1])], [(0, [0]), (1, [0]), (2, [1]), (3, [1]), (4, [2]), (5, [2])]] := by
  decide +kernel

end CGV.C06
