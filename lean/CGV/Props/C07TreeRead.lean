/-
  What the reader's denotation of the written tree text is: exactly the graph of the tree — the nodes in
  pre-order with their names, every child bonded to its parent with the tree's order.  Together with
  C07_tree_roundtrip_closed: writing the graph of a tree and reading the string back gives that graph.
-/
import CGV.Props.C07TreeGraph
namespace CGV.C07
open CGV Gen C04
set_option linter.unusedSimpArgs false

mutual
def cgNodesT (k : Nat) : RT → List (Nat × Attrs)
  | .node nm ks => (k, defaultAttrs nm) :: cgNodesK (k + 1) ks
def cgNodesK (k : Nat) : Kids → List (Nat × Attrs)
  | .nil => []
  | .cons _ t r => cgNodesT k t ++ cgNodesK (k + t.size) r
end

mutual
def cgEdgesT (k : Nat) : RT → List CGEdge
  | .node _ ks => cgEdgesK k (k + 1) ks
def cgEdgesK (p k : Nat) : Kids → List CGEdge
  | .nil => []
  | .cons o t r => ⟨p, k, some o⟩ :: (cgEdgesT k t ++ cgEdgesK p (k + t.size) r)
end

/-- the tree as the reader's graph: node `i` of the pre-order carries the `i`-th name with the default
    annotation values; one edge per child, with the order of the tree -/
def cgOfTree (T : RT) : CGGraph := ⟨cgNodesT 0 T, cgEdgesT 0 T⟩

mutual
/-- key of the node at the end of a subtree's chain (the one behind which `)` is written) -/
def leafT (k : Nat) : RT → Nat
  | .node _ .nil => k
  | .node _ (.cons o t r) => leafK (k + 1) (.cons o t r)
def leafK (k : Nat) : Kids → Nat
  | .nil => k
  | .cons _ t .nil => leafT k t
  | .cons _ t (.cons o' t' r) => leafK (k + t.size) (.cons o' t' r)
end

/-! ### one reader step on a graph whose keys are all smaller -/

def Below (g : CGGraph) (k : Nat) : Prop := (∀ n ∈ g.nodes, n.1 < k) ∧ (∀ e ∈ g.edges, e.a < k ∧ e.b < k)

theorem hasNode_false (g : CGGraph) (k : Nat) (h : ∀ n ∈ g.nodes, n.1 < k) : g.hasNode k = false := by
  unfold CGGraph.hasNode
  rw [List.any_eq_false]
  intro n hn
  have := h n hn
  simp only [beq_iff_eq]; omega

theorem add_step (g : CGGraph) (k prev o : Nat) (a : Attrs) (hb : Below g k) (hp : g.hasNode prev = true) (hpk : prev < k) :
    (g.addNode k a).addEdge prev k (some o) = ⟨g.nodes ++ [(k, a)], g.edges ++ [⟨prev, k, some o⟩]⟩ := by
  have hk := hasNode_false g k hb.1
  unfold CGGraph.addNode
  simp only [hk, Bool.false_eq_true, if_false]
  unfold CGGraph.addEdge CGGraph.ensure
  have hp' : (⟨g.nodes ++ [(k, a)], g.edges⟩ : CGGraph).hasNode prev = true := by
    unfold CGGraph.hasNode at hp ⊢; simp only [List.any_append, hp, Bool.true_or]
  simp only [hp', if_true]
  have hk' : (⟨g.nodes ++ [(k, a)], g.edges⟩ : CGGraph).hasNode k = true := by
    unfold CGGraph.hasNode; simp
  simp only [hk', if_true]
  have he : (⟨g.nodes ++ [(k, a)], g.edges⟩ : CGGraph).hasEdge prev k = false := by
    unfold CGGraph.hasEdge
    rw [List.any_eq_false]
    intro e hemem
    have := hb.2 e hemem
    unfold CGGraph.joins
    have n1 : (e.b == k) = false := by simp only [beq_eq_false_iff_ne, ne_eq]; omega
    have n2 : (e.a == k) = false := by simp only [beq_eq_false_iff_ne, ne_eq]; omega
    simp [n1, n2]
  simp only [he, Bool.false_eq_true, if_false]

/-! ### ranges of the tree's node and edge lists -/

mutual
theorem cgNodesT_range : ∀ (T : RT) (k : Nat) (n : Nat × Attrs), n ∈ cgNodesT k T → k ≤ n.1 ∧ n.1 < k + T.size
  | .node nm ks, k, n, h => by
    simp only [cgNodesT, List.mem_cons] at h
    simp only [RT.size]
    rcases h with rfl | h
    · constructor
      · exact Nat.le_refl _
      · show k < k + (1 + ks.size); omega
    · have := cgNodesK_range ks (k + 1) n h; omega
theorem cgNodesK_range : ∀ (ks : Kids) (k : Nat) (n : Nat × Attrs), n ∈ cgNodesK k ks → k ≤ n.1 ∧ n.1 < k + ks.size
  | .nil, k, n, h => by simp [cgNodesK] at h
  | .cons o t r, k, n, h => by
    simp only [cgNodesK, List.mem_append] at h
    simp only [Kids.size]
    rcases h with h | h
    · have := cgNodesT_range t k n h; omega
    · have := cgNodesK_range r (k + t.size) n h; omega
end

mutual
theorem cgEdgesT_range : ∀ (T : RT) (k : Nat) (e : CGEdge), e ∈ cgEdgesT k T → k ≤ e.a ∧ e.a < k + T.size ∧ k < e.b ∧ e.b < k + T.size
  | .node nm ks, k, e, h => by
    simp only [cgEdgesT] at h
    have := cgEdgesK_range ks k (k + 1) e h
    simp only [RT.size]
    omega
theorem cgEdgesK_range : ∀ (ks : Kids) (p k : Nat) (e : CGEdge), e ∈ cgEdgesK p k ks →
    (e.a = p ∨ (k ≤ e.a ∧ e.a < k + ks.size)) ∧ k ≤ e.b ∧ e.b < k + ks.size
  | .nil, p, k, e, h => by simp [cgEdgesK] at h
  | .cons o t r, p, k, e, h => by
    simp only [cgEdgesK, List.mem_cons, List.mem_append] at h
    have hs := RT.size_pos t
    simp only [Kids.size]
    rcases h with rfl | h | h
    · refine ⟨Or.inl rfl, Nat.le_refl _, ?_⟩
      show k < k + (t.size + r.size); omega
    · have := cgEdgesT_range t k e h; omega
    · have := cgEdgesK_range r p (k + t.size) e h; omega
end

mutual
theorem leafT_range : ∀ (T : RT) (k : Nat), k ≤ leafT k T ∧ leafT k T < k + T.size
  | .node nm .nil, k => by simp [leafT, RT.size, Kids.size]
  | .node nm (.cons o t r), k => by
    have := leafK_range (.cons o t r) (k + 1) (by simp)
    simp only [leafT, RT.size]; omega
theorem leafK_range : ∀ (ks : Kids) (k : Nat), ks ≠ .nil → k ≤ leafK k ks ∧ leafK k ks < k + ks.size
  | .nil, _, h => absurd rfl h
  | .cons o t .nil, k, _ => by
    have := leafT_range t k
    simp only [leafK, Kids.size]; omega
  | .cons o t (.cons o' t' r), k, _ => by
    have := leafK_range (.cons o' t' r) (k + t.size) (by simp)
    simp only [leafK, Kids.size] at this ⊢; omega
end

mutual
theorem leafT_mem : ∀ (T : RT) (k : Nat), ∃ a, (leafT k T, a) ∈ cgNodesT k T
  | .node nm .nil, k => ⟨defaultAttrs nm, by simp [leafT, cgNodesT]⟩
  | .node nm (.cons o t r), k => by
    obtain ⟨a, ha⟩ := leafK_mem (.cons o t r) (k + 1) (by simp)
    exact ⟨a, by simp only [leafT, cgNodesT]; exact List.mem_cons_of_mem _ ha⟩
theorem leafK_mem : ∀ (ks : Kids) (k : Nat), ks ≠ .nil → ∃ a, (leafK k ks, a) ∈ cgNodesK k ks
  | .nil, _, h => absurd rfl h
  | .cons o t .nil, k, _ => by
    obtain ⟨a, ha⟩ := leafT_mem t k
    exact ⟨a, by simp only [leafK, cgNodesK]; exact List.mem_append_left _ ha⟩
  | .cons o t (.cons o' t' r), k, _ => by
    obtain ⟨a, ha⟩ := leafK_mem (.cons o' t' r) (k + t.size) (by simp)
    exact ⟨a, by simp only [leafK, cgNodesK]; exact List.mem_append_right _ ha⟩
end

theorem has_of_mem (g : CGGraph) (x : Nat) (a : Attrs) (h : (x, a) ∈ g.nodes) : g.hasNode x = true := by
  unfold CGGraph.hasNode
  rw [List.any_eq_true]
  exact ⟨(x, a), h, by simp⟩

theorem has_mono (n m : List (Nat × Attrs)) (e e' : List CGEdge) (x : Nat) (h : (⟨n, e⟩ : CGGraph).hasNode x = true) :
    (⟨n ++ m, e'⟩ : CGGraph).hasNode x = true := by
  unfold CGGraph.hasNode at h ⊢
  simp only [List.any_append, h, Bool.true_or]

/-! ### the denotation of the items is the tree -/

/-- stack after the items of a subtree -/
def endStack (opens cl : Bool) (stack : List Nat) (prev : Nat) : List Nat :=
  if cl then (if opens then stack ++ [prev] else stack).dropLast else (if opens then stack ++ [prev] else stack)
/-- attachment point after the items of a subtree whose chain ends at `leaf` -/
def endPrev (opens cl : Bool) (stack : List Nat) (prev leaf : Nat) : Nat :=
  if cl then ((if opens then stack ++ [prev] else stack).getLast?).getD 0 else leaf

theorem popK_one (stack : List Nat) (k : Nat) (h : stack ≠ []) :
    popK 1 stack k = (stack.dropLast, (stack.getLast?).getD 0) := by
  have hl : stack.getLast? = some (stack.getLast h) := List.getLast?_eq_some_getLast h
  simp [popK, hl]

/-- invariant of the graph under construction before node `k` is added -/
structure Inv (g : CGGraph) (stack : List Nat) (prev k : Nat) : Prop where
  below : Below g k
  hprev : g.hasNode prev = true
  lt : prev < k
  hstack : ∀ s ∈ stack, g.hasNode s = true ∧ s < k

mutual
theorem tg_T : ∀ (T : RT) (o : Nat) (opens cl : Bool) (g : CGGraph) (stack : List Nat) (prev k : Nat) (rest : List TItem),
    Inv g stack prev k → (cl = true → (if opens then stack ++ [prev] else stack) ≠ []) →
    treeGraphAux g stack prev k (itemsT o opens cl T ++ rest) =
      treeGraphAux ⟨g.nodes ++ cgNodesT k T, g.edges ++ ⟨prev, k, some o⟩ :: cgEdgesT k T⟩
        (endStack opens cl stack prev) (endPrev opens cl stack prev (leafT k T)) (k + T.size) rest ∧
    Inv ⟨g.nodes ++ cgNodesT k T, g.edges ++ ⟨prev, k, some o⟩ :: cgEdgesT k T⟩
      (endStack opens cl stack prev) (endPrev opens cl stack prev (leafT k T)) (k + T.size)
  | .node nm .nil, o, opens, cl, g, stack, prev, k, rest, inv, hcl => by
    have hstep := add_step g k prev o (defaultAttrs nm) inv.below inv.hprev inv.lt
    have hinv' : Inv ⟨g.nodes ++ [(k, defaultAttrs nm)], g.edges ++ [⟨prev, k, some o⟩]⟩
        (endStack opens cl stack prev) (endPrev opens cl stack prev k) (k + 1) := by
      have hb : Below ⟨g.nodes ++ [(k, defaultAttrs nm)], g.edges ++ [⟨prev, k, some o⟩]⟩ (k + 1) := by
        constructor
        · intro n hn
          rcases List.mem_append.mp hn with hn | hn
          · have := inv.below.1 n hn; omega
          · simp only [List.mem_singleton] at hn; rw [hn]; simp
        · intro e he
          rcases List.mem_append.mp he with he | he
          · have := inv.below.2 e he; omega
          · simp only [List.mem_singleton] at he; rw [he]; simp only; have := inv.lt; omega
      have hsk : ∀ s ∈ (if opens then stack ++ [prev] else stack),
          (⟨g.nodes ++ [(k, defaultAttrs nm)], g.edges ++ [⟨prev, k, some o⟩]⟩ : CGGraph).hasNode s = true ∧ s < k + 1 := by
        intro s hs
        have : g.hasNode s = true ∧ s < k := by
          split at hs
          · rcases List.mem_append.mp hs with hs | hs
            · exact inv.hstack s hs
            · simp only [List.mem_singleton] at hs; rw [hs]; exact ⟨inv.hprev, inv.lt⟩
          · exact inv.hstack s hs
        exact ⟨has_mono _ _ _ _ _ this.1, by omega⟩
      cases cl
      · refine ⟨hb, ?_, ?_, ?_⟩
        · simp only [endPrev, Bool.false_eq_true, if_false]
          exact has_of_mem _ k (defaultAttrs nm) (by simp)
        · simp [endPrev]
        · simpa [endStack] using hsk
      · have hne := hcl rfl
        have hlast : (if opens then stack ++ [prev] else stack).getLast? =
            some ((if opens then stack ++ [prev] else stack).getLast hne) := List.getLast?_eq_some_getLast hne
        have hmem := List.getLast_mem hne
        have := hsk _ hmem
        refine ⟨hb, ?_, ?_, ?_⟩
        · simp only [endPrev, if_true, hlast, Option.getD_some]; exact this.1
        · simp only [endPrev, if_true, hlast, Option.getD_some]; exact this.2
        · intro s hs
          simp only [endStack, if_true] at hs
          rw [List.dropLast_eq_take] at hs; exact hsk s (List.mem_of_mem_take hs)
    refine ⟨?_, ?_⟩
    · simp only [itemsT, List.singleton_append, treeGraphAux, hstep, cgNodesT, cgNodesK, cgEdgesT, cgEdgesK, leafT,
        RT.size, Kids.size, List.append_nil]
      cases cl
      · simp [popK, endStack, endPrev]
      · simp only [if_true, popK_one _ k (hcl rfl), endStack, endPrev]
    · simpa [cgNodesT, cgNodesK, cgEdgesT, cgEdgesK, leafT, RT.size, Kids.size] using hinv'
  | .node nm (.cons o' t r), o, opens, cl, g, stack, prev, k, rest, inv, hcl => by
    have hstep := add_step g k prev o (defaultAttrs nm) inv.below inv.hprev inv.lt
    -- the graph and stack after the node itself
    have hinv1 : Inv ⟨g.nodes ++ [(k, defaultAttrs nm)], g.edges ++ [⟨prev, k, some o⟩]⟩
        (if opens then stack ++ [prev] else stack) k (k + 1) := by
      refine ⟨⟨?_, ?_⟩, has_of_mem _ k (defaultAttrs nm) (by simp), by omega, ?_⟩
      · intro n hn
        rcases List.mem_append.mp hn with hn | hn
        · have := inv.below.1 n hn; omega
        · simp only [List.mem_singleton] at hn; rw [hn]; simp
      · intro e he
        rcases List.mem_append.mp he with he | he
        · have := inv.below.2 e he; omega
        · simp only [List.mem_singleton] at he; rw [he]; simp only; have := inv.lt; omega
      · intro s hs
        have : g.hasNode s = true ∧ s < k := by
          split at hs
          · rcases List.mem_append.mp hs with hs | hs
            · exact inv.hstack s hs
            · simp only [List.mem_singleton] at hs; rw [hs]; exact ⟨inv.hprev, inv.lt⟩
          · exact inv.hstack s hs
        exact ⟨has_mono _ _ _ _ _ this.1, by omega⟩
    obtain ⟨hK, hKinv⟩ := tg_K (.cons o' t r) cl _ (if opens then stack ++ [prev] else stack) k (k + 1) rest (by simp) hinv1 hcl
    refine ⟨?_, ?_⟩
    · simp only [itemsT, List.cons_append, treeGraphAux, hstep, popK]
      rw [hK]
      simp only [cgNodesT, cgEdgesT, leafT, RT.size, endStack, endPrev, List.append_assoc, List.singleton_append,
        List.cons_append, List.nil_append]
      congr 1 <;> omega
    · have : k + (RT.node nm (Kids.cons o' t r)).size = k + 1 + (Kids.cons o' t r).size := by simp only [RT.size]; omega
      rw [this]
      simpa [cgNodesT, cgEdgesT, leafT, endStack, endPrev, List.append_assoc] using hKinv
theorem tg_K : ∀ (ks : Kids) (cl : Bool) (g : CGGraph) (stack : List Nat) (p k : Nat) (rest : List TItem), ks ≠ .nil →
    Inv g stack p k → (cl = true → stack ≠ []) →
    treeGraphAux g stack p k (itemsK cl ks ++ rest) =
      treeGraphAux ⟨g.nodes ++ cgNodesK k ks, g.edges ++ cgEdgesK p k ks⟩
        (if cl then stack.dropLast else stack) (if cl then (stack.getLast?).getD 0 else leafK k ks) (k + ks.size) rest ∧
    Inv ⟨g.nodes ++ cgNodesK k ks, g.edges ++ cgEdgesK p k ks⟩
      (if cl then stack.dropLast else stack) (if cl then (stack.getLast?).getD 0 else leafK k ks) (k + ks.size)
  | .nil, _, _, _, _, _, _, h, _, _ => absurd rfl h
  | .cons o t .nil, cl, g, stack, p, k, rest, _, inv, hcl => by
    obtain ⟨h1, h2⟩ := tg_T t o false cl g stack p k rest inv (by simpa using hcl)
    simp only [itemsK, cgNodesK, cgEdgesK, leafK, Kids.size, List.append_nil, Nat.add_zero]
    simp only [endStack, endPrev, Bool.false_eq_true, if_false] at h1 h2
    exact ⟨h1, h2⟩
  | .cons o t (.cons o' t' r), cl, g, stack, p, k, rest, _, inv, hcl => by
    obtain ⟨h1, h2⟩ := tg_T t o true true g stack p k (itemsK cl (.cons o' t' r) ++ rest) inv (by intro _; simp)
    simp only [endStack, endPrev, if_true, List.dropLast_concat, List.getLast?_concat, Option.getD_some] at h1 h2
    obtain ⟨h3, h4⟩ := tg_K (.cons o' t' r) cl _ stack p (k + t.size) rest (by simp) h2 hcl
    refine ⟨?_, ?_⟩
    · simp only [itemsK, List.append_assoc]
      rw [h1, h3]
      simp only [cgNodesK, cgEdgesK, leafK, Kids.size, List.append_assoc, List.cons_append]
      congr 1 <;> omega
    · have : k + (Kids.cons o t (Kids.cons o' t' r)).size = k + t.size + (Kids.cons o' t' r).size := by
        simp only [Kids.size]; omega
      rw [this]
      simpa [cgNodesK, cgEdgesK, leafK, List.append_assoc] using h4
end

/-- the reader's denotation of the written tree text is the tree's own graph -/
theorem treeGraph_tree (first : Str) (ks : Kids) :
    treeGraph first (itemsK false ks) = cgOfTree (.node first ks) := by
  cases ks with
  | nil => simp [treeGraph, itemsK, treeGraphAux, cgOfTree, cgNodesT, cgNodesK, cgEdgesT, cgEdgesK, CGGraph.addNode, CGGraph.hasNode]
  | cons o t r =>
    have inv : Inv (({} : CGGraph).addNode 0 (defaultAttrs first)) [] 0 1 := by
      refine ⟨⟨?_, ?_⟩, ?_, by omega, by simp⟩
      · intro n hn; simp [CGGraph.addNode, CGGraph.hasNode] at hn; rw [hn]; simp
      · intro e he; simp [CGGraph.addNode, CGGraph.hasNode] at he
      · simp [CGGraph.addNode, CGGraph.hasNode]
    have h := (tg_K (.cons o t r) false _ [] 0 1 [] (by simp) inv (by simp)).1
    simp only [List.append_nil] at h
    simp only [treeGraph, h, treeGraphAux, cgOfTree, cgNodesT, cgEdgesT]
    simp [CGGraph.addNode, CGGraph.hasNode]

/-- **C07 on trees, in the tree's own terms.**  For every tree of beads (names and orders as in
    `C07_tree_roundtrip_closed`): the writer's graph of the tree and the reader's graph of the tree have the
    same keys, and the same bonds with the same orders; writing the first and reading the string back gives
    the second. -/
theorem C07_tree_identity (first : Str) (ks : Kids) (hok : OkT (.node first ks)) :
    (writeCG (graphOfTree (.node first ks))).bind readCG = .ok (cgOfTree (.node first ks)) := by
  rw [C07_tree_roundtrip_closed first ks hok, treeGraph_tree]

mutual
theorem keys_T : ∀ (T : RT) (k : Nat), (cgNodesT k T).map (·.1) = (nodesT k T).map (·.key)
  | .node nm ks, k => by simp [cgNodesT, nodesT, keys_K ks (k + 1)]
theorem keys_K : ∀ (ks : Kids) (k : Nat), (cgNodesK k ks).map (·.1) = (nodesK k ks).map (·.key)
  | .nil, k => by simp [cgNodesK, nodesK]
  | .cons o t r, k => by simp [cgNodesK, nodesK, keys_T t k, keys_K r (k + t.size)]
end

mutual
theorem bonds_T : ∀ (T : RT) (k : Nat),
    (cgEdgesT k T).map (fun e => (e.a, e.b, e.order)) = (edgesT k T).map (fun e => (e.a, e.b, some (e.order2 / 2)))
  | .node nm ks, k => by simp [cgEdgesT, edgesT, bonds_K ks k (k + 1)]
theorem bonds_K : ∀ (ks : Kids) (p k : Nat),
    (cgEdgesK p k ks).map (fun e => (e.a, e.b, e.order)) = (edgesK p k ks).map (fun e => (e.a, e.b, some (e.order2 / 2)))
  | .nil, p, k => by simp [cgEdgesK, edgesK]
  | .cons o t r, p, k => by simp [cgEdgesK, edgesK, bonds_T t k, bonds_K r p (k + t.size)]
end

/-- the graph read back has the written graph's keys, in the same order, … -/
theorem C07_tree_same_keys (T : RT) :
    (cgOfTree T).nodes.map (·.1) = (graphOfTree T).nodes.map (·.key) := keys_T T 0
/-- … and its bonds, with the same end points and (half-unit orders halved) the same orders. -/
theorem C07_tree_same_bonds (T : RT) :
    (cgOfTree T).edges.map (fun e => (e.a, e.b, e.order)) =
      (graphOfTree T).edges.map (fun e => (e.a, e.b, some (e.order2 / 2))) := bonds_T T 0

end CGV.C07
