import CGV.Model.ReadCG
namespace CGV.C14
end CGV.C14
