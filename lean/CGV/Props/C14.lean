/-
  C14 — annotations mean the same however written and reach the graphs unchanged.

  Model: `parseAnno sig = finishAnno sig ∘ bindSig sig ∘ collect` (CGV.Model.Dialect) with the two
  signatures generated from dialects.py on every run (`Gen.baseDialect`, `Gen.fragDialect`).
  The theorems quantify over ALL value texts; the signatures are the finite generated data, so
  positional/keyword equivalence is proved signature by signature (and re-proved whenever the
  generated signature changes).
-/
import CGV.Lemmas.Anno
import CGV.Lemmas.Inst
import CGV.Lemmas.Sort
namespace CGV.C14
open CGV Gen

abbrev S (x : String) : Str := x.toList

/-! ### positional ≡ keyword -/

/-- base-graph dialect: `[#name;q;w]`, `[#name;q;w=…]`, `[#name;q=…;w=…]`, `[#name;w=…;q=…]` bind
    identically, for all value texts -/
theorem C14_pos_kw_base (name q w : Str) :
    bindSig baseDialect [name, q, w] [] = bindSig baseDialect [name, q] [(S "w", w)] ∧
    bindSig baseDialect [name, q, w] [] = bindSig baseDialect [name] [(S "q", q), (S "w", w)] ∧
    bindSig baseDialect [name, q, w] [] = bindSig baseDialect [name] [(S "w", w), (S "q", q)] := by
  refine ⟨?_, ?_, ?_⟩ <;> rfl

theorem C14_pos_kw_base_q (name q : Str) :
    bindSig baseDialect [name, q] [] = bindSig baseDialect [name] [(S "q", q)] := rfl

/-- atom dialect (`w ; x`) -/
theorem C14_pos_kw_frag (w x : Str) :
    bindSig fragDialect [w, x] [] = bindSig fragDialect [w] [(S "x", x)] ∧
    bindSig fragDialect [w, x] [] = bindSig fragDialect [] [(S "w", w), (S "x", x)] ∧
    bindSig fragDialect [w, x] [] = bindSig fragDialect [] [(S "x", x), (S "w", w)] := by
  refine ⟨?_, ?_, ?_⟩ <;> rfl

/-! ### keyword order -/

/-- keyword entries with pairwise distinct keys may be written in any order (and interleaved
    anywhere with the positional ones — `collect` separates the two kinds): the same reserved
    parameters are bound to the same values, the same free keywords are kept -/
theorem C14_kw_perm (sig : DialectSig) (args : List Str) (kw kw' : List (Str × Str)) (h : kw.Perm kw')
    (hn : (kw.map (·.1)).Nodup) (b : List (AnnoParam × Str)) (ex : List (Str × Str))
    (hb : bindSig sig args kw = .ok (b, ex)) :
    ∃ ex', bindSig sig args kw' = .ok (b, ex') ∧ ex.Perm ex' :=
  (bindSig_perm sig args h hn).2 b ex hb

/-- … and an error is the same error -/
theorem C14_kw_perm_error (sig : DialectSig) (args : List Str) (kw kw' : List (Str × Str)) (h : kw.Perm kw')
    (hn : (kw.map (·.1)).Nodup) (e : PyErr) (hb : bindSig sig args kw = .error e) :
    bindSig sig args kw' = .error e :=
  (bindSig_perm sig args h hn).1 e hb

/-! ### defaults, numbers, verbatim texts -/

/-- a plain node `[#name]` gets the documented defaults: charge 0, weight 1 -/
theorem C14_defaults_base (name : Str) (h1 : ';' ∉ name) (h2 : '=' ∉ name) (hne : name ≠ []) :
    parseBase name = .ok [(S "fragname", .str name), (S "weight", .num 1 0), (S "charge", .num 0 0)] := by
  have hc : collect name = .ok ([name], []) := by
    unfold collect
    have : name.isEmpty = false := by cases name <;> simp_all
    simp only [this, Bool.false_eq_true, if_false, annotationSep]
    rw [splitOn_no_sep ';' name h1]
    have hcount : List.count '=' name = 0 := List.count_eq_zero.mpr h2
    simp [List.foldlM, classifyEntry, hcount, annotationAssign, splitOn_no_sep '=' name h2, bind, Except.bind, pure, Except.pure]
  simp only [parseBase, parseAnno, hc, bind, Except.bind]
  rfl

/-- a plain atom gets weight 1 and no chirality -/
theorem C14_defaults_frag : parseFrag [] = .ok [(S "weight", .num 1 0)] := by decide +kernel

/-- reserved numeric keys hold numbers, everything else the text verbatim -/
theorem C14_cast (p : AnnoParam) (v : Str) :
    (p.type = .str → castVal p v = .ok (.str v)) ∧
    (p.type = .float → ∀ a, castVal p v = .ok a → ∃ m e, a = .num m e) := by
  constructor
  · intro h; simp [castVal, h]
  · intro h a ha
    simp only [castVal, h] at ha
    cases hp : parseFloat v with
    | error e => simp [hp, bind, Except.bind] at ha
    | ok r =>
      cases r with
      | none => simp [hp, bind, Except.bind, throw, throwThe, MonadExceptOf.throw] at ha
      | some me => simp [hp, bind, Except.bind, pure, Except.pure] at ha; exact ⟨me.1, me.2, ha.symm⟩

/-- numeric spellings denote the numbers they spell (mantissa × 10^exponent) -/
theorem C14_numeric_spellings :
    parseFloat (S "+1") = .ok (some (1, 0)) ∧ parseFloat (S "-0.25") = .ok (some (-25, -2)) ∧
    parseFloat (S "1e-1") = .ok (some (1, -1)) ∧ parseFloat (S ".5") = .ok (some (5, -1)) ∧
    parseFloat (S "5.") = .ok (some (5, 0)) ∧ parseFloat (S "abc") = .error .unsupported ∧
    parseFloat (S "1x") = .ok none ∧ parseFloat (S "") = .ok none := by decide +kernel

/-! ### propagation -/

/-- annotations on a fragment atom (weight, chirality, free keys live in `extra`; charge, element, …
    in their fields) appear unchanged on every copy of that atom: instantiation changes only key,
    membership and mapping … -/
theorem C14_atom_propagate (mol : Mol) (k : Key) (name : Str) (tmpl : Mol) (hnd : tmpl.keys.Nodup) (a : Atom) (i : Nat)
    (h : (a, i) ∈ tmpl.atoms.zipIdx) :
    ∃ c ∈ (instantiate mol k name tmpl).1.atoms, c.extra = a.extra ∧ c.charge = a.charge ∧ c.element = a.element ∧
      c.atomname = a.atomname ∧ c.mapping = [(name, a.key)] := by
  refine ⟨{ a with key := mol.nextKey + i, fragid := [k], mapping := [(name, a.key)] }, ?_, rfl, rfl, rfl, rfl, rfl⟩
  rw [show (instantiate mol k name tmpl).1.atoms = mol.atoms ++ tmpl.atoms.zipIdx.map fun (p : Atom × Nat) =>
      { p.1 with key := mol.nextKey + p.2, fragid := [k], mapping := [(name, p.1.key)] } from by
    unfold instantiate
    simp only [foldl_addEdge_atoms]
    congr 1
    have : tmpl.atoms = tmpl.atoms.zipIdx.map (·.1) := by simp
    conv => lhs; rw [this, List.map_map]
    apply List.map_congr_left
    intro p hp
    obtain ⟨a', i'⟩ := p
    have := lookup_corr tmpl.atoms mol.nextKey 0 hnd a' i' hp
    simp [Function.comp, this]]
  exact List.mem_append_right _ (List.mem_map.mpr ⟨(a, i), h, rfl⟩)

/-- … and the final renumbering keeps them too -/
theorem C14_sort_keeps (mol : Mol) :
    (sortNodes mol).1.atoms.map (fun a => (a.extra, a.charge)) = mol.atoms.map (fun a => (a.extra, a.charge)) := by
  simp [sortNodes, List.map_map, Function.comp_def]

/-! worked instances (kernel evaluation of the model on documented examples) -/
example : parseBase (S "PMA;+1") = parseBase (S "PMA;q=+1") := by decide +kernel
example : parseBase (S "A;0;0.5") = parseBase (S "A;w=0.5") := by decide +kernel
example : parseBase (S "A;w=0.5;1") = parseBase (S "A;1;w=0.5") := by decide +kernel
example : parseBase (S "A;q=1;mass=72") =
    .ok [(S "mass", .str (S "72")), (S "fragname", .str (S "A")), (S "weight", .num 1 0), (S "charge", .num 1 0)] := by
  decide +kernel

/-- finding S3 on the model: the annotation of a coarse-fragment node is parsed with the fragment
    dialect (strip_bonding_descriptors knows no other), where `q` is a free key kept as text and the
    first positional value is the weight — the base dialect, documented for every coarse resolution,
    reads the same texts as a charge -/
theorem C14_S3_witness :
    parseFrag (S "q=1") = .ok [(S "q", .str (S "1")), (S "weight", .num 1 0)] ∧
    parseFrag (S "1;0.5") = .ok [(S "weight", .num 1 0), (S "chiral", .str (S "0.5"))] ∧
    parseBase (S "X;q=1") = .ok [(S "fragname", .str (S "X")), (S "weight", .num 1 0), (S "charge", .num 1 0)] := by
  refine ⟨?_, ?_, ?_⟩ <;> decide +kernel

end CGV.C14
