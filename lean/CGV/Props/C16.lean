/-
  C16 — sampled polymers are well-formed molecules built from the given fragments.

  Model: CGV.Model.Sample (`addFragment` = choices ∘ `attach`, `mergeRunning` = merge_graphs as the
  sampler uses it), `Gen.findComplementary` translated from cgsmiles_utils.py on every run.
  The theorems hold for ALL decision lists (every `random.choice(s)` is an input).
-/
import CGV.Model.Sample
import CGV.Lemmas.Inst
import CGV.Lemmas.Sort
import CGV.Props.C09
import CGV.Props.C17
namespace CGV.C16
open CGV Gen Mol

/-! ### the complement lookup (translated function) -/

/-- `>x` is complemented by exactly `<x` (label and order kept), and must be on offer -/
theorem C16_complement_forward (t : Str) (elig : List Str) :
    Gen.findComplementary ('>' :: t) elig =
      if elig.elem ('<' :: t) then .ok ['<' :: t] else .error .io := by
  simp [Gen.findComplementary, pyHead, bind, Except.bind, pure, Except.pure]
  by_cases h : ('<' :: t) ∈ elig <;> simp [h, throw, throwThe, MonadExceptOf.throw]

theorem C16_complement_backward (t : Str) (elig : List Str) :
    Gen.findComplementary ('<' :: t) elig =
      if elig.elem ('>' :: t) then .ok ['>' :: t] else .error .io := by
  simp [Gen.findComplementary, pyHead, bind, Except.bind, pure, Except.pure]
  by_cases h : ('>' :: t) ∈ elig <;> simp [h, throw, throwThe, MonadExceptOf.throw]

/-- the `$` branch keeps exactly the offered `$`-descriptors whose order digit equals the site's
    (labels only steer probabilities) -/
def dollarStep (site : Str) (d : Str) (acc : List Str) : Py (ForInStep (List Str)) := do
  if (← (do if (← (do pure ((← pyHead d) == ['$']))) then (do pure ((← pyLast d) == (← pyLast site))) else pure false)) then
    pure (ForInStep.yield (acc ++ [d]))
  else pure (ForInStep.yield acc)

theorem forIn_filter (F : Str → List Str → Py (ForInStep (List Str))) (P : Str → Bool) :
    ∀ (l : List Str) (acc : List Str), (∀ d ∈ l, ∀ s, F d s = .ok (ForInStep.yield (if P d then s ++ [d] else s))) →
      forIn l acc F = .ok (acc ++ l.filter P)
  | [], acc, _ => by simp [pure, Except.pure]
  | d :: ds, acc, h => by
    rw [List.forIn_cons, h d List.mem_cons_self acc]
    simp only [bind, Except.bind]
    rw [forIn_filter F P ds _ (fun d' hd' s => h d' (List.mem_cons_of_mem _ hd') s)]
    by_cases hp : P d <;> simp [List.filter_cons, hp]

theorem C16_complement_dollar (t : Str) (elig : List Str) (hne : elig ≠ []) (hnonempty : ∀ d ∈ elig, d ≠ []) :
    Gen.findComplementary ('$' :: t) elig =
      .ok (elig.filter fun d => d.head? == some '$' && d.getLast? == ('$' :: t).getLast?) := by
  have he : elig.isEmpty = false := by cases elig <;> simp_all
  simp only [Gen.findComplementary, pyHead, bind, Except.bind, pure, Except.pure, he]
  simp only [beq_self_eq_true, Bool.not_false, Bool.and_self, if_true]
  rw [forIn_filter _ (fun d => d.head? == some '$' && d.getLast? == ('$' :: t).getLast?)]
  · simp
  · intro d hd s
    have hdne := hnonempty d hd
    obtain ⟨c, r, rfl⟩ : ∃ c r, d = c :: r := by cases d with
      | nil => exact absurd rfl hdne
      | cons c r => exact ⟨c, r, rfl⟩
    have hl1 : ∃ x, (c :: r).getLast? = some x := ⟨_, List.getLast?_eq_some_getLast (by simp)⟩
    have hl2 : ∃ y, ('$' :: t).getLast? = some y := ⟨_, List.getLast?_eq_some_getLast (by simp)⟩
    obtain ⟨x, hx⟩ := hl1
    obtain ⟨y, hy⟩ := hl2
    by_cases hc : c = '$'
    · subst hc
      by_cases hxy : x = y
      · subst hxy; simp [pyHead, pyLast, hx, hy, bind, Except.bind, pure, Except.pure]
      · simp [pyHead, pyLast, hx, hy, bind, Except.bind, pure, Except.pure, hxy]
    · have : (c == '$') = false := by simpa using hc
      simp [pyHead, pyLast, hx, hy, bind, Except.bind, pure, Except.pure, hc, this]

/-! ### one growth step -/

theorem updAtom_edges (m : Mol) (k : Key) (f : Atom → Atom) : (m.updAtom k f).edges = m.edges := rfl
theorem updAtom_keys (m : Mol) (k : Key) (f : Atom → Atom) (hf : ∀ a, (f a).key = a.key) : (m.updAtom k f).keys = m.keys := by
  simp only [Mol.updAtom, Mol.keys, List.map_map]
  apply List.map_congr_left
  intro a _
  simp only [Function.comp]
  split <;> simp [hf]

/-- a growth step attaches the new fragment copy by exactly one bond: it joins the chosen site atom
    with the copy of the chosen template atom, records the descriptor pair, and carries the order digit
    of the site descriptor; every other bond of the result was there before or is a bond of the copy -/
theorem C16_one_bond (cfg : SamplerCfg) (mol : Mol) (bonding partner : Desc) (source tnode : Key) (tmpl : Mol) (o : Nat) :
    (attach cfg mol bonding partner source tnode tmpl o).1.edges =
      ((mergeRunning mol tmpl).1.addEdge
        ⟨source, (attach cfg mol bonding partner source tnode tmpl o).2, 2 * o, some (bonding, partner)⟩).edges := by
  unfold attach
  simp only
  split <;> rfl

/-- the fragment copy: the template's atoms appended with fresh consecutive keys and the running
    fragment index as membership; atoms that were there are untouched by the merge -/
theorem C16_copy (mol tmpl : Mol) :
    (mergeRunning mol tmpl).1.atoms.take mol.atoms.length = mol.atoms ∧
    ((mergeRunning mol tmpl).1.atoms.drop mol.atoms.length).map (fun a => { a with key := 0, fragid := [] }) =
      tmpl.atoms.map (fun a => { a with key := 0, fragid := [] }) := by
  unfold mergeRunning
  simp only [foldl_addEdge_atoms]
  constructor
  · simp
  · simp [List.map_map, Function.comp_def]

/-- both descriptors are consumed (one occurrence each), all other atoms keep their descriptor lists -/
theorem C16_node_set (cfg : SamplerCfg) (mol : Mol) (bonding partner : Desc) (source tnode : Key) (tmpl : Mol) (o : Nat) :
    (attach cfg mol bonding partner source tnode tmpl o).1.keys = (mergeRunning mol tmpl).1.keys := by
  have K : ∀ (m : Mol) (k : Key) (g : Atom → List Desc), (m.updAtom k fun a => { a with bonding := g a }).keys = m.keys :=
    fun m k g => updAtom_keys m k _ (fun _ => rfl)
  unfold attach
  simp only
  split <;> (rw [K, K, K]; simp only [Mol.keys, addEdge_atoms])

/-- node numbering of the result is canonical (L-sort) -/
theorem C16_canonical (mol : Mol) (h : mol.keys.Nodup) :
    (sortNodes mol).1.keys.Perm (List.range mol.atoms.length) := sortNodes_keys mol h

/-- all-atom samples satisfy valence completeness: the same `rebuildH` as in the resolver (C09) -/
theorem C16_valence (mol : Mol) (hnd : mol.keys.Nodup) (counts : List (Key × Nat)) (h : hCounts mol = .ok counts)
    (a : Atom) (ha : a ∈ mol.atoms) (hH : a.isH = false) (vs : List Nat) (hv : valenceOf a = some vs)
    (v : Nat) (hfind : vs.find? (fun v => decide (2 * v ≥ mol.bonds2 a.key)) = some v)
    (heven : mol.bonds2 a.key % 2 = 0) :
    (addHs mol counts).bonds2 a.key = 2 * v :=
  C09.C09_complete mol hnd counts h a ha hH vs hv v hfind heven

/-! worked instances (kernel evaluation of the translated function) -/
example : Gen.findComplementary "$A1".toList ["$1".toList, "$B2".toList, ">1".toList, "$C1".toList] =
    .ok ["$1".toList, "$C1".toList] := by decide +kernel
example : Gen.findComplementary ">a1".toList ["<a1".toList, "<b1".toList] = .ok ["<a1".toList] := by decide +kernel
example : Gen.findComplementary ">a1".toList ["<b1".toList] = .error .io := by decide +kernel

end CGV.C16
