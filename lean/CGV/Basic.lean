def hello := "world"
