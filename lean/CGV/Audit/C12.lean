import CGV.Props.C12
import CGV.Props.C12Reach
import CGV.Props.C12Order
#print axioms CGV.C12.C12_keys
#print axioms CGV.C12.C12_monotone
#print axioms CGV.C12.C12_blocks
#print axioms CGV.C12.C12_attrs
#print axioms CGV.C12.C12_edges
#print axioms CGV.C12.C12_names_distinct
#print axioms CGV.C12.C12_name_step
#print axioms CGV.C12.phaseB_keys
#print axioms CGV.C12.C12_step_keys
#print axioms CGV.C12.phaseB_ordered
#print axioms CGV.C12.C12_step_order
#print axioms CGV.C12.C12_step_blocks
