import CGV.Props.C12
#print axioms CGV.C12.C12_keys
#print axioms CGV.C12.C12_monotone
#print axioms CGV.C12.C12_blocks
#print axioms CGV.C12.C12_attrs
#print axioms CGV.C12.C12_edges
#print axioms CGV.C12.C12_names_distinct
#print axioms CGV.C12.C12_name_step
