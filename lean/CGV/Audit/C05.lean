import CGV.Props.C05
