import CGV.Props.C05
#print axioms CGV.C05.C05_node_graph
#print axioms CGV.C05.C05_node
#print axioms CGV.C05.C05_R4_witness
#print axioms CGV.C05.C05_R6a_witness
#print axioms CGV.C05.C05_R6b_witness
#print axioms CGV.C05.matches_chainM
#print axioms CGV.C05.fold_tailM
#print axioms CGV.stepNode_mult
#print axioms CGV.C05.pathGraphAux_append
