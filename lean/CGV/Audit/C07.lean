import CGV.Props.C07
import CGV.Props.C07Path
#print axioms CGV.C07.C07_symbols_inverse
#print axioms CGV.C07.C07_single_bond_silent
#print axioms CGV.C07.C07_marker_fresh
#print axioms CGV.C07.C07_write_single
#print axioms CGV.C07.lowestFree_spec
#print axioms CGV.C07.C07_path_roundtrip
#print axioms CGV.C07.C07_path_text
#print axioms CGV.C07.writeGraph_path
#print axioms CGV.C07.writeLoop_path
#print axioms CGV.C07.writeStep_path
