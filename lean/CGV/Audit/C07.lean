import CGV.Props.C07
import CGV.Props.C07Path
import CGV.Props.C07Tree
import CGV.Props.C07TreeGraph
import CGV.Props.C07TreeRead
import CGV.Props.C07Cycle
#print axioms CGV.C07.C07_symbols_inverse
#print axioms CGV.C07.C07_single_bond_silent
#print axioms CGV.C07.C07_marker_fresh
#print axioms CGV.C07.C07_write_single
#print axioms CGV.C07.lowestFree_spec
#print axioms CGV.C07.C07_path_roundtrip
#print axioms CGV.C07.C07_path_text
#print axioms CGV.C07.writeGraph_path
#print axioms CGV.C07.writeLoop_path
#print axioms CGV.C07.writeStep_path
#print axioms CGV.C07.C07_tree_roundtrip
#print axioms CGV.C07.writeGraph_tree
#print axioms CGV.C07.loop_T
#print axioms CGV.C07.loop_K
#print axioms CGV.C07.render_itemsT
#print axioms CGV.C07.itemsT_balanced
#print axioms CGV.C07.exGraph_emb
#print axioms CGV.C07.C07_tree_text
#print axioms CGV.C07.C07_tree_roundtrip_closed
#print axioms CGV.C07.treeGraph_tree
#print axioms CGV.C07.C07_tree_identity
#print axioms CGV.C07.C07_tree_same_keys
#print axioms CGV.C07.C07_tree_same_bonds
#print axioms CGV.C07.graphOfTree_emb
#print axioms CGV.C07.embT_block
#print axioms CGV.C07.embK_block
#print axioms CGV.C07.writeGraph_cycle
#print axioms CGV.C07.C07_cycle_text
#print axioms CGV.C07.C07_cycle_roundtrip
