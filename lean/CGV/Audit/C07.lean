import CGV.Props.C07
#print axioms CGV.C07.C07_symbols_inverse
#print axioms CGV.C07.C07_single_bond_silent
#print axioms CGV.C07.C07_marker_fresh
#print axioms CGV.C07.C07_write_single
#print axioms CGV.C07.lowestFree_spec
