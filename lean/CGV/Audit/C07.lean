import CGV.Props.C07
