import CGV.Props.C17
#print axioms CGV.C17.C17_zero_never_chosen
#print axioms CGV.C17.C17_empty_table_uniform
#print axioms CGV.C17.C17_choose_mem
#print axioms CGV.C17.C17_stop
#print axioms CGV.C17.C17_grow_is_Grows
#print axioms CGV.C17.C17_terminal
