import CGV.Props.C11
#print axioms CGV.C11.C11_zero_edge_step
#print axioms CGV.C11.C11_zero_edges_inert
#print axioms CGV.C11.C11_no_bond_for_zero
#print axioms CGV.C11.C11_nonvirtual_rejected
#print axioms CGV.C11.C11_virtual_skipped
#print axioms CGV.C11.C11_virtual_no_instance
