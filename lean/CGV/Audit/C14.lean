import CGV.Props.C14
