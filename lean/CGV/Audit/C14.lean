import CGV.Props.C14
#print axioms CGV.C14.C14_pos_kw_base
#print axioms CGV.C14.C14_pos_kw_base_q
#print axioms CGV.C14.C14_pos_kw_frag
#print axioms CGV.C14.C14_kw_perm
#print axioms CGV.C14.C14_kw_perm_error
#print axioms CGV.C14.C14_defaults_base
#print axioms CGV.C14.C14_defaults_frag
#print axioms CGV.C14.C14_cast
#print axioms CGV.C14.C14_numeric_spellings
#print axioms CGV.C14.C14_atom_propagate
#print axioms CGV.C14.C14_sort_keeps
#print axioms CGV.bindSig_perm
#print axioms CGV.lookup_perm
#print axioms CGV.C14.C14_S3_witness
