import CGV.Props.C16
#print axioms CGV.C16.C16_complement_forward
#print axioms CGV.C16.C16_complement_backward
#print axioms CGV.C16.C16_complement_dollar
#print axioms CGV.C16.C16_one_bond
#print axioms CGV.C16.C16_copy
#print axioms CGV.C16.C16_node_set
#print axioms CGV.C16.C16_canonical
#print axioms CGV.C16.C16_valence
