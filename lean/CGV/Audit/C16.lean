import CGV.Props.C16
import CGV.Props.C16Run
#print axioms CGV.C16.C16_complement_forward
#print axioms CGV.C16.C16_complement_backward
#print axioms CGV.C16.C16_complement_dollar
#print axioms CGV.C16.C16_one_bond
#print axioms CGV.C16.C16_copy
#print axioms CGV.C16.C16_node_set
#print axioms CGV.C16.C16_canonical
#print axioms CGV.C16.C16_valence
#print axioms CGV.C16.C16_step_tree
#print axioms CGV.C16.attach_conn
#print axioms CGV.C16.C16_step
#print axioms CGV.C16.C16_run
#print axioms CGV.C16.cfgWFb_sound
