import CGV.Props.C16
import CGV.Props.C16Run
import CGV.Props.C16Copies
#print axioms CGV.C16.C16_complement_forward
#print axioms CGV.C16.C16_complement_backward
#print axioms CGV.C16.C16_complement_dollar
#print axioms CGV.C16.C16_one_bond
#print axioms CGV.C16.C16_copy
#print axioms CGV.C16.C16_node_set
#print axioms CGV.C16.C16_canonical
#print axioms CGV.C16.C16_valence
#print axioms CGV.C16.C16_step_tree
#print axioms CGV.C16.attach_conn
#print axioms CGV.C16.C16_step
#print axioms CGV.C16.C16_run
#print axioms CGV.C16.cfgWFb_sound
#print axioms CGV.C16.attach_extends
#print axioms CGV.C16.run_extends
#print axioms CGV.C16.C16_every_copy
#print axioms CGV.C16.C16_start_copy
#print axioms CGV.C16.sampleA_run
