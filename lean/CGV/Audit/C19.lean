import CGV.Props.C19
#print axioms CGV.C19.C19_rescale_mean
#print axioms CGV.C19.C19_rescale_distinct
#print axioms CGV.C19.C19_mean_pos
#print axioms CGV.C19.C19_targets_pos
#print axioms CGV.C19.C19_target_bond
