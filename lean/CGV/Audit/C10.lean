import CGV.Props.C10
import CGV.Props.C10Multi
import CGV.Props.C10Reach
import CGV.Props.C10Quot
import CGV.Props.C10Members
#print axioms CGV.C10.C10_one_fewer
#print axioms CGV.C10.C10_others_kept
#print axioms CGV.C10.C10_removed_gone
#print axioms CGV.C10.C10_membership
#print axioms CGV.C10.C10_bonds_kept
#print axioms CGV.C10.resolve_alive
#print axioms CGV.C10.C10_count
#print axioms CGV.C10.C10_separate_pairs
#print axioms CGV.C10.C10_at_most
#print axioms CGV.C10.C10_untouched
#print axioms CGV.C10.phaseA_wellformed
#print axioms CGV.C10.C10_resolver_count
#print axioms CGV.C10.fragsWFb_iff
#print axioms CGV.C10.rep_cons
#print axioms CGV.C10.contract_adj
#print axioms CGV.C10.qinv_step
#print axioms CGV.C10.C10_quotient_bonds
#print axioms CGV.C10.C10_rep_alive
#print axioms CGV.C10.atom?_of_mem
#print axioms CGV.C10.minv_step
#print axioms CGV.C10.C10_class_membership
#print axioms CGV.C10.C10_resolver_membership
