import CGV.Props.C10
#print axioms CGV.C10.C10_one_fewer
#print axioms CGV.C10.C10_others_kept
#print axioms CGV.C10.C10_removed_gone
#print axioms CGV.C10.C10_membership
#print axioms CGV.C10.C10_bonds_kept
