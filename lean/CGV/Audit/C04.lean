import CGV.Props.C04
