import CGV.Props.C04
import CGV.Props.C04Tree
import CGV.Props.C04Ring
import CGV.Props.C04Bare
import CGV.Props.C04Anno
#print axioms CGV.C04.C04_read_chain
#print axioms CGV.C04.matches_chain
#print axioms CGV.C04.fold_tail
#print axioms CGV.stepNode_plain
#print axioms CGV.C04.renderChain_supported
#print axioms CGV.C04.C04_read_tree
#print axioms CGV.C04.matches_tree
#print axioms CGV.C04.fold_tree
#print axioms CGV.C04.popK_spec
#print axioms CGV.C04.treeGraph_ofChain
#print axioms CGV.stepNode_tree
#print axioms CGV.closeLoop_pops
#print axioms CGV.C04.scan_marks
#print axioms CGV.C04.stepNode_ring
#print axioms CGV.C04.matches_ring
#print axioms CGV.C04.fold_rtail
#print axioms CGV.C04.C04_read_ring
#print axioms CGV.C04.fold_body
#print axioms CGV.C04.matches_body
#print axioms CGV.C04.C04_read_bare_chain
#print axioms CGV.C04.matches_chainA
#print axioms CGV.C04.fold_tailA
#print axioms CGV.C04.C04_read_annotated_chain
