import CGV.Props.C04
#print axioms CGV.C04.C04_read_chain
#print axioms CGV.C04.matches_chain
#print axioms CGV.C04.fold_tail
#print axioms CGV.stepNode_plain
#print axioms CGV.C04.renderChain_supported
