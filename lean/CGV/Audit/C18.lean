import CGV.Props.C18
#print axioms CGV.C18.C18_index_range
#print axioms CGV.C18.C18_index_of_node
#print axioms CGV.C18.C18_writeback
#print axioms CGV.C18.C18_transfer
#print axioms CGV.C18.C18_bondtable
#print axioms CGV.C18.C18_bead_translation
#print axioms CGV.C18.C18_bead_own_atoms
#print axioms CGV.C18.C18_bead_unit_weights
