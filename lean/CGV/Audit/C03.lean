import CGV.Props.C03
import CGV.Props.C03Step
#print axioms CGV.C03.C03_translated_compatible
#print axioms CGV.C03.C03_compatible_iff_legacy
#print axioms CGV.C03.C03_compatible_iff_nonlegacy
#print axioms CGV.C03.C03_adjacent
#print axioms CGV.C03.C03_le_order
#print axioms CGV.C03.C03_pair_compatible
#print axioms CGV.C03.C03_no_reuse
#print axioms CGV.C03.C03_pair_carried
#print axioms CGV.C03.C03_exact
#print axioms CGV.C03.C03_bond_order
#print axioms CGV.restore_aux
#print axioms CGV.edgesFrom_inv
#print axioms CGV.gen_compatible_eq
#print axioms CGV.C03.addEdge_hasEdge
#print axioms CGV.C03.applyCut_hasEdge
#print axioms CGV.C03.C03_step_adjacency
