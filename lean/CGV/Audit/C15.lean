import CGV.Props.C15
#print axioms CGV.C15.C15_ez_table
#print axioms CGV.C15.C15_ez_table_reversed
#print axioms CGV.C15.C15_refs
#print axioms CGV.C15.C15_ez_geometric
#print axioms CGV.C15.C15_ez_E1
#print axioms CGV.C15.C15_stored
#print axioms CGV.C15.C15_flip
#print axioms CGV.C15.C15_marks_removed
#print axioms CGV.C15.C15_keeps
#print axioms CGV.C15.C15_chiral
#print axioms CGV.C15.C15_order_within_fragment
#print axioms CGV.C15.C15_E1_witness
#print axioms CGV.C15.C15_E3_witness
#print axioms CGV.C15.C15_E3_marks_not_transferred
