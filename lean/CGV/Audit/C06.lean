import CGV.Props.C06
import CGV.Props.C06Steps
import CGV.Props.C06Trace
#print axioms CGV.C06.C06_manual_eq_iter
#print axioms CGV.C06.C06_all_is_last
#print axioms CGV.C06.C06_chain
#print axioms CGV.C06.C06_each_is_step
#print axioms CGV.C06.C06_compose_partial
#print axioms CGV.C06.step_guarantees
#print axioms CGV.C06.C06_guarantees_every_step
#print axioms CGV.C06.step_fragid_in_coarse
#print axioms CGV.C06.C06_every_atom_stems_from_base
#print axioms CGV.C06.C06_next_coarse_keys
#print axioms CGV.C06.exExt_patch
