import CGV.Props.C06
#print axioms CGV.C06.C06_manual_eq_iter
#print axioms CGV.C06.C06_all_is_last
#print axioms CGV.C06.C06_chain
#print axioms CGV.C06.C06_each_is_step
#print axioms CGV.C06.C06_compose_partial
