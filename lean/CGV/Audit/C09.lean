import CGV.Props.C09
import CGV.Props.C09Step
#print axioms CGV.C09.C09_complete
#print axioms CGV.C09.C09_smallest
#print axioms CGV.C09.C09_hydrogen_untouched
#print axioms CGV.C09.C09_over_valence
#print axioms CGV.C09.C09_new_hydrogen_one_bond
#print axioms CGV.C09.C09_inherit
#print axioms CGV.C09.sortNodes_bonds2
#print axioms CGV.C09.C09_phaseB_complete
#print axioms CGV.C09.C09_step_complete
