import CGV.Props.C08
import CGV.Props.C08Path
import CGV.Props.C08Frag
#print axioms CGV.C08.C08_bonding
#print axioms CGV.C08.C08_format_bonding
#print axioms CGV.C08.C08_single_node
#print axioms CGV.formatBonding_wf
#print axioms CGV.stripAux_descs
#print axioms CGV.C08.writeStep_bead
#print axioms CGV.C08.writeLoop_beads
#print axioms CGV.C08.writeGraph_beads
#print axioms CGV.C08.toksOf_text
#print axioms CGV.C08.toksOf_clean
#print axioms CGV.C08.toksOf_valid
#print axioms CGV.C08.C08_path_fragment
#print axioms CGV.C13.C13_tokens
#print axioms CGV.C04.C04_read_bare_chain
