import CGV.Props.C08
