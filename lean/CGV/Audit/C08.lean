import CGV.Props.C08
#print axioms CGV.C08.C08_bonding
#print axioms CGV.C08.C08_format_bonding
#print axioms CGV.C08.C08_single_node
#print axioms CGV.formatBonding_wf
#print axioms CGV.stripAux_descs
