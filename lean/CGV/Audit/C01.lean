import CGV.Props.C01
#print axioms CGV.C01.C01_bonds
#print axioms CGV.C01.C01_edge_order_irrelevant
#print axioms CGV.C01.C01_bond_order
#print axioms CGV.C01.C01_uncut
#print axioms CGV.C01.C01_hydrogens
#print axioms CGV.restore_aux
#print axioms CGV.Rem.unit
#print axioms CGV.Rem.edge
