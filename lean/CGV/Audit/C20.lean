import CGV.Props.C20
import CGV.Props.C20Ring
#print axioms CGV.C20.C20_two_equals
#print axioms CGV.C20.C20_surplus_positional
#print axioms CGV.C20.C20_surplus_base
#print axioms CGV.C20.C20_surplus_frag
#print axioms CGV.C20.C20_duplicate_argument
#print axioms CGV.C20.C20_non_numeric
#print axioms CGV.C20.C20_read_propagates
#print axioms CGV.C20.C20_dangling
#print axioms CGV.C20.C20_ring_parity
#print axioms CGV.C20.C20_duplicate_ring_edge
#print axioms CGV.C20.C20_missing_fragment
#print axioms CGV.C20.ringGraphAux_cases
#print axioms CGV.C20.C20_unclosed_ring_string
#print axioms CGV.C20.C20_ring_string_total
