import CGV.Props.C20
