import CGV.Props.C13
