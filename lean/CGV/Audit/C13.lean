import CGV.Props.C13
import CGV.Props.C13Chain
import CGV.Props.C13Tokens
import CGV.Props.C13Lead
#print axioms CGV.C13.C13_descriptors_after_atom
#print axioms CGV.C13.C13_descriptors_at_end
#print axioms CGV.stripAux_descs
#print axioms CGV.stripAux_desc
#print axioms CGV.formatBonding_wf
#print axioms CGV.C13.C13_chain
#print axioms CGV.C13.stripAux_chain
#print axioms CGV.C13.stripAux_descs_exact
#print axioms CGV.C13.foldl_afterItem_fields
#print axioms CGV.C13.stripAux_tokens
#print axioms CGV.C13.fold_fields
#print axioms CGV.C13.C13_tokens
#print axioms CGV.C13.node_step
#print axioms CGV.C13.takeBracket_inner
#print axioms CGV.C13.anode_step
#print axioms CGV.C13.atom2_step
#print axioms CGV.C13.slash_step
#print axioms CGV.C13.lead_step
#print axioms CGV.C13.stripAux_leads
#print axioms CGV.C13.C13_leading
