import CGV.Props.C13
#print axioms CGV.C13.C13_descriptors_after_atom
#print axioms CGV.C13.C13_descriptors_at_end
#print axioms CGV.stripAux_descs
#print axioms CGV.stripAux_desc
#print axioms CGV.formatBonding_wf
