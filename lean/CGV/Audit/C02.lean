import CGV.Props.C02
#print axioms CGV.C02.C02_copy_atoms
#print axioms CGV.C02.C02_copy_attrs
#print axioms CGV.C02.C02_copy_edges
#print axioms CGV.C02.C02_fragid_cover
#print axioms CGV.C02.C02_members_iff
#print axioms CGV.C02.C02_cover
#print axioms CGV.C02.C02_sort_keeps
