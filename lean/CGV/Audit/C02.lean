import CGV.Props.C02
import CGV.Props.C02Step
#print axioms CGV.C02.C02_copy_atoms
#print axioms CGV.C02.C02_copy_attrs
#print axioms CGV.C02.C02_copy_edges
#print axioms CGV.C02.C02_fragid_cover
#print axioms CGV.C02.C02_members_iff
#print axioms CGV.C02.C02_cover
#print axioms CGV.C02.C02_sort_keeps
#print axioms CGV.C02.squash_fragok
#print axioms CGV.C02.rebuildH_fragok
#print axioms CGV.C02.phaseB_cover
#print axioms CGV.C02.C02_step_cover
#print axioms CGV.C10.squash_closed
