/-
  CGV.Model.Mol — molecule graphs as the resolver and the sampler use them.

  A graph is an insertion-ordered node list plus an insertion-ordered edge list.  This mirrors
  what the modelled code can observe of a networkx graph: node iteration order, `G.edges`
  iteration order (derived: `edgesIter`), `has_edge`, attribute records.  Orders are naturals in
  HALF units (aromatic 1.5 ↦ 3).
-/
import CGV.Model.Descr
namespace CGV

structure Atom where
  key : Key
  element : Str := []          -- `element` (atomistic); empty when the attribute is absent
  atomname : Str := []
  fragname : Str := []
  fragid : List Nat := []
  aromatic : Bool := false
  hasArom : Bool := false      -- is the `aromatic` attribute present at all
  charge : Int := 0
  hcount2 : Nat := 0           -- `hcount` in half units
  bonding : List Desc := []
  mapping : List (Str × Key) := []
  singleH : Bool := false      -- `single_h_frag`
  isH : Bool := false          -- element == 'H'
  /-- all other attributes, carried verbatim as (name, canonical text) -/
  extra : List (String × String) := []
deriving DecidableEq, Repr, Inhabited

structure Edge where
  a : Key
  b : Key
  order2 : Nat
  bonding : Option (Desc × Desc) := none
deriving DecidableEq, Repr, Inhabited

structure Mol where
  atoms : List Atom := []
  edges : List Edge := []
deriving Repr, Inhabited

namespace Mol

def keys (m : Mol) : List Key := m.atoms.map (·.key)

def atom? (m : Mol) (k : Key) : Option Atom := m.atoms.find? (·.key == k)

def hasNode (m : Mol) (k : Key) : Bool := m.atoms.any (·.key == k)

def Edge.joins (e : Edge) (u v : Key) : Bool := (e.a == u && e.b == v) || (e.a == v && e.b == u)

def hasEdge (m : Mol) (u v : Key) : Bool := m.edges.any (Edge.joins · u v)

def edge? (m : Mol) (u v : Key) : Option Edge := m.edges.find? (Edge.joins · u v)

/-- `max(G.nodes) + 1`, 0 for the empty graph -/
def nextKey (m : Mol) : Nat := m.atoms.foldl (fun acc a => max acc (a.key + 1)) 0

def updAtom (m : Mol) (k : Key) (f : Atom → Atom) : Mol :=
  { m with atoms := m.atoms.map fun a => if a.key == k then f a else a }

/-- `G.add_edge(u, v, **attrs)`: updates the attribute record of an existing edge in place,
    appends otherwise (nodes exist in all uses) -/
def addEdge (m : Mol) (e : Edge) : Mol :=
  if m.hasEdge e.a e.b then
    { m with edges := m.edges.map fun x =>
        if Edge.joins x e.a e.b then { x with order2 := e.order2, bonding := e.bonding.or x.bonding } else x }
  else { m with edges := m.edges ++ [e] }

def pos (m : Mol) (k : Key) : Nat := m.keys.idxOf k

/-- `G.edges` iteration order for a graph whose adjacency dicts were filled by `add_edge` calls
    only: every edge is reported at its endpoint that comes first in node order, oriented from
    that endpoint, and among the edges of one reporting node in insertion order. -/
def edgesIter (m : Mol) : List Edge :=
  let oriented := m.edges.map fun e =>
    if m.pos e.a ≤ m.pos e.b then e else { e with a := e.b, b := e.a }
  m.keys.flatMap fun u => oriented.filter (·.a == u)

def neighbors (m : Mol) (k : Key) : List Key :=
  m.edges.filterMap fun e => if e.a == k then some e.b else if e.b == k then some e.a else none

/-- sum of incident bond orders in half units (`_bonds(mol, n, use_order=True)`) -/
def bonds2 (m : Mol) (k : Key) : Nat :=
  ((m.edges.filter fun e => e.a == k || e.b == k).map (·.order2)).sum

end Mol
end CGV
