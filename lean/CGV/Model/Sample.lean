/-
  CGV.Model.Sample — the random polymer sampler (sample.py).  Every call of `random.choice` /
  `random.choices` is a decision taken from the outside: the model consumes a list of indices
  (recorded from the real run) and checks the contract of the call (index in range; for `choices`
  the chosen entry has non-zero weight).
-/
import CGV.Model.Resolve
import CGV.Gen.Funcs
namespace CGV
open Mol

/-- a reactivity table after `_set_bond_order_defaults`: descriptor ↦ "weight > 0" -/
abbrev React := List (Desc × Bool)

structure SamplerCfg where
  frags : FragDict
  polyReact : React
  fragReact : List (Desc × React)
  terminals : List Desc
  /-- masses as exact rationals n/d -/
  masses : List (Str × (Int × Nat))
  allAtom : Bool
deriving Inhabited

/-- the constructor's table normalisation (sample.py:209-218) with the translated leaf functions -/
def normKey (k : Desc) : Py Desc := do
  let l ← pyLast k
  pure (if pyIsDigit l then k else k ++ ['1'])

def mkCfg (frags : FragDict) (poly : React) (fragR : List (Desc × React)) (term : List Desc)
    (masses : List (Str × (Int × Nat))) (allAtom : Bool) : Py SamplerCfg := do
  let poly' ← Gen.setBondOrderDefaultsDict poly
  let fragR' ← fragR.foldlM (init := ([] : List (Desc × React))) fun acc (k, tbl) => do
    let k' ← normKey k
    let tbl' ← Gen.setBondOrderDefaultsDict tbl
    pure (pySet acc k' tbl')
  let term' ← Gen.setBondOrderDefaultsList term
  pure ⟨frags, poly', fragR', term', masses, allAtom⟩

/-- `fragments_by_bonding`: descriptor ↦ [(fragment name, template node)] in construction order -/
def fragsByBonding (frags : FragDict) : List (Desc × List (Str × Key)) :=
  frags.foldl (fun acc (name, tmpl) =>
    tmpl.atoms.foldl (fun acc a =>
      a.bonding.foldl (fun acc d =>
        pySet acc d (((acc.lookup d).getD []) ++ [(name, a.key)])) acc) acc) []

/-- cgsmiles_utils.find_open_bonds: descriptor ↦ nodes, both in first-occurrence order -/
def openBonds (mol : Mol) : List (Desc × List Key) :=
  mol.atoms.foldl (fun acc a =>
    a.bonding.foldl (fun acc d => pySet acc d (((acc.lookup d).getD []) ++ [a.key])) acc) []

inductive Decision where
  | contract   -- the recorded decision violates the contract of random.choice(s)
deriving Repr

/-- take the next recorded decision -/
def nextDecision (rng : List Nat) : Py (Nat × List Nat) :=
  match rng with
  | d :: rest => pure (d, rest)
  | [] => throw PyErr.other          -- the recorded run made no further decision: histories differ

/-- `random.choice(seq)`: IndexError on an empty sequence, else the recorded index (in range) -/
def choose {α} (seq : List α) (rng : List Nat) : Py (α × List Nat) :=
  if seq.isEmpty then .error .index
  else match rng with
    | [] => .error .other              -- the recorded run made no further decision: histories differ
    | i :: rest =>
      match seq[i]? with
      | some x => .ok (x, rest)
      | none => .error .other

/-- sample.py:17 `_select_bonding_operator`: weighted choice when a non-empty table is given (missing
    keys weigh 0; the chosen entry must have non-zero weight), uniform choice otherwise -/
def select (bonds : List Desc) (probs : Option React) (rng : List Nat) : Py (Desc × List Nat) :=
  match probs with
  | some tbl =>
    if tbl.isEmpty then choose bonds rng
    else if bonds.isEmpty then .error .index
    else if !(bonds.map fun b => (tbl.lookup b).getD false).any id then .error .value
    else match rng with
      | [] => .error .other
      | i :: rest =>
        match bonds[i]?, (bonds.map fun b => (tbl.lookup b).getD false)[i]? with
        | some b, some true => .ok (b, rest)
        | _, _ => .error .other
  | none => choose bonds rng

/-- graph_utils.merge_graphs as the sampler uses it: running fragment index -/
def mergeRunning (mol : Mol) (tmpl : Mol) : Mol × List (Key × Key) :=
  let start := mol.nextKey
  let fragOff : Nat :=
    if mol.atoms.isEmpty then 0
    else match mol.atom? (mol.nextKey - 1) with
      | some last => (last.fragid.foldl max 0) + 1
      | none => 1
  let corr : List (Key × Key) := tmpl.atoms.zipIdx.map fun (a, i) => (a.key, start + i)
  let nk := fun (k : Key) => (corr.lookup k).getD k
  let atoms := tmpl.atoms.map fun a => { a with key := nk a.key, fragid := [fragOff] }
  let edges := (tmpl.edges.filter fun e => nk e.a != nk e.b).map fun e => { e with a := nk e.a, b := nk e.b }
  (edges.foldl Mol.addEdge { mol with atoms := mol.atoms ++ atoms }, corr)

structure GrowOut where
  mol : Mol
  fragname : Str
  site : Desc
  partner : Desc
  source : Key
  target : Key

/-- sample.py:286-316: merge the chosen fragment, make the one bond, consume both descriptors, handle
    terminals — everything in `add_fragment` after the four choices -/
def attach (cfg : SamplerCfg) (mol : Mol) (bonding partner : Desc) (source tnode : Key) (tmpl : Mol) (o : Nat) : Mol × Key :=
  let (mol1, corr) := mergeRunning mol tmpl
  let target := (corr.lookup tnode).getD tnode
  let mol2 := mol1.addEdge ⟨source, target, 2 * o, some (bonding, partner)⟩
  let mol3 := (mol2.updAtom source fun a => { a with bonding := a.bonding.erase bonding }).updAtom target
    fun a => { a with bonding := a.bonding.erase partner }
  let mol4 := if cfg.terminals.contains partner then mol3.updAtom source fun a => { a with bonding := [] }
    else mol3.updAtom source fun a => { a with bonding := a.bonding.filter fun b => !cfg.terminals.contains b }
  (mol4, target)

/-- sample.py:247 `add_fragment`; consumes up to four decisions -/
def addFragment (cfg : SamplerCfg) (mol : Mol) (rng : List Nat) : Py (GrowOut × List Nat) := do
  let ob := openBonds mol
  let (bonding, rng) ← select (ob.map (·.1)) (some cfg.polyReact) rng
  let (source, rng) ← choose ((ob.lookup bonding).getD []) rng
  let fb := fragsByBonding cfg.frags
  let compl ← Gen.findComplementary bonding (fb.map (·.1))
  let (partner, rng) ← select compl (cfg.fragReact.lookup bonding) rng
  let ((fragname, tnode), rng) ← choose ((fb.lookup partner).getD []) rng
  let tmpl ← pyGet cfg.frags fragname
  let o ← descOrder bonding
  let (mol4, target) := attach cfg mol bonding partner source tnode tmpl o
  pure (⟨mol4, fragname, bonding, partner, source, target⟩, rng)

/-- exact rational comparison `a < b` for a = n/d -/
def ratLt (a b : Int × Nat) : Bool := a.1 * b.2 < b.1 * a.2
def ratAdd (a b : Int × Nat) : Int × Nat := (a.1 * b.2 + b.1 * a.2, a.2 * b.2)

structure GrowStep where
  fragname : Str
  site : Desc
  partner : Desc
  source : Key
  target : Key
deriving Repr

/-- the growth loop `while current_weight < target_weight` (sample.py:350-361); `fuel` bounds the
    number of iterations by the number of recorded decisions -/
def grow (cfg : SamplerCfg) (target : Int × Nat) : Nat → Mol → (Int × Nat) → List Nat → List GrowStep → Py (Mol × List GrowStep × List Nat)
  | 0, mol, _, rng, log => pure (mol, log, rng)
  | fuel + 1, mol, cur, rng, log =>
    if ratLt cur target then do
      let (out, rest) ← addFragment cfg mol rng
      let m ← pyGet cfg.masses out.fragname
      grow cfg target fuel out.mol (ratAdd cur m) rest (log ++ [⟨out.fragname, out.site, out.partner, out.source, out.target⟩])
    else pure (mol, log, rng)

/-- graph_utils.set_atom_names_atomistic without a coarse graph: per membership index, in node order -/
def setNamesByFragid (mol : Mol) : Mol :=
  let ids := (mol.atoms.map fun a => a.fragid.head?.getD 0).eraseDups
  ids.foldl (fun m fid =>
    ((m.atoms.filter fun a => a.fragid.head? == some fid).map (·.key)).zipIdx.foldl (fun m' (k, i) =>
      m'.updAtom k fun a => { a with atomname := a.element ++ natStr i }) m) mol

structure SampleOut where
  pre : Mol                 -- the molecule as grown (before hydrogens / renumbering)
  final : Mol
  log : List GrowStep
  unused : List Nat

/-- `MoleculeSampler.sample(target_weight, start_fragment)`; `start` = the start fragment's name
    (given, or the recorded first decision) -/
def sampleA (cfg : SamplerCfg) (target : Int × Nat) (startDecision : Option Nat) (startName : Option Str)
    (rng : List Nat) : Py (Mol × List GrowStep × List Nat) := do
  let name ← match startName with
    | some n => pure n
    | none => match startDecision with
      | some i => do let r ← choose (cfg.frags.map (·.1)) [i]; pure r.1
      | none => throw PyErr.other
  let tmpl ← pyGet cfg.frags name
  let (mol, _) := mergeRunning {} tmpl
  grow cfg target (rng.length + 1) mol (0, 1) rng []

def sampleB (cfg : SamplerCfg) (mol : Mol) : Py Mol := do
  let mol ← if cfg.allAtom then rebuildH mol else pure mol
  let (mol, _) := sortNodes mol
  pure (if cfg.allAtom then setNamesByFragid mol else mol)

/-- nodes reached from `seen` in at most `fuel` rounds of adding all neighbours -/
def reachSet (m : Mol) : Nat → List Key → List Key
  | 0, seen => seen
  | fuel + 1, seen => reachSet m fuel (seen ++ seen.flatMap m.neighbors).eraseDups

/-- executable connectedness: every node is found from the first one within `n` rounds -/
def Mol.connb (m : Mol) : Bool :=
  match m.keys with
  | [] => true
  | k :: _ => m.keys.all fun x => (reachSet m m.atoms.length [k]).contains x

/-- executable form of the hypothesis the C16 run theorem makes about the fragment library -/
def cfgWFb (cfg : SamplerCfg) : Bool :=
  fragsWFb cfg.frags && decide (cfg.frags.map (·.1)).Nodup && cfg.frags.all fun p => p.2.connb

end CGV
