/-
  CGV.Model.Levels — the level loop of MoleculeResolver (resolve.py:353-421): `resolve` repeated,
  `resolve_iter`, `resolve_all`.  What the loop takes from outside the modelled code enters as
  parameters: the `G.edges` iteration order of a fine graph when it becomes the next coarse graph
  (networkx) and the aromaticity correction (pysmiles).
-/
import CGV.Model.Resolve
namespace CGV

structure Level where
  fd : FragDict
  allAtom : Bool

structure Ext where
  /-- `list(G.edges(data='order'))` of a fine graph, orders in whole units -/
  edgeOrder : Mol → List MEdge
  /-- pysmiles.smiles_helper.correct_aromatic_rings (may raise SyntaxError) -/
  arom : Mol → Py Mol

/-- resolve.py:364-368: the previous fine graph becomes the coarse graph, atom names become
    fragment names -/
def nextMeta (ext : Ext) (fine : Mol) : Meta :=
  ⟨fine.atoms.map fun a => ⟨a.key, a.atomname⟩, ext.edgeOrder fine⟩

/-- one call of `MoleculeResolver.resolve` -/
def step (ext : Ext) (cp : Desc → Desc → Bool) (lv : Level) (mg : Meta) : Py StepOut := do
  let (pre, _) ← phaseA cp lv.allAtom mg lv.fd
  let pre ← if lv.allAtom then ext.arom pre else pure pre
  phaseB lv.allAtom mg pre

/-- `resolve_iter`: all (coarse, fine) pairs in order -/
def resolveIter (ext : Ext) (cp : Desc → Desc → Bool) : List Level → Meta → Py (List (Meta × StepOut))
  | [], _ => pure []
  | lv :: rest, mg => do
    let out ← step ext cp lv mg
    let more ← resolveIter ext cp rest (nextMeta ext out.fine)
    pure ((mg, out) :: more)

/-- `resolve_all`: `*_, last = resolve_iter()` (ValueError when there is no level) -/
def resolveAll (ext : Ext) (cp : Desc → Desc → Bool) (lvs : List Level) (mg : Meta) : Py (Meta × StepOut) := do
  let all ← resolveIter ext cp lvs mg
  match all.getLast? with
  | some r => pure r
  | none => throw PyErr.value

/-- calling `resolve()` by hand `n` times: the state after each call is the next coarse graph -/
def resolveManual (ext : Ext) (cp : Desc → Desc → Bool) : Nat → List Level → Meta → Py (List (Meta × StepOut))
  | 0, _, _ => pure []
  | _ + 1, [], _ => throw PyErr.index          -- `self.fragment_dicts[self.resolution_counter]`
  | n + 1, lv :: rest, mg => do
    let out ← step ext cp lv mg
    let more ← resolveManual ext cp n rest (nextMeta ext out.fine)
    pure ((mg, out) :: more)

end CGV
