/-
  CGV.Model.FragCG — reading one COARSE fragment definition (read_fragments.py `fragment_iter`, coarse branch,
  with cgsmiles_utils.py `read_fragment_cgsmiles`): the descriptor scanner takes descriptors and annotations
  out of the text, `read_cgsmiles` reads the cleaned text (no braces), and the two dictionaries are attached
  to the nodes by index.
-/
import CGV.Model.Strip
import CGV.Model.ReadCG
namespace CGV

structure FragCG where
  /-- the graph `read_cgsmiles` returns for the cleaned text (node names = bead names) -/
  g : CGGraph
  /-- node index ↦ bonding descriptors, as `nx.set_node_attributes(mol_graph, bonding_descrpt, 'bonding')` attaches them -/
  bonding : List (Nat × List Desc)
  /-- node index ↦ annotation values of the fragment dialect -/
  attrs : List (Nat × Attrs)
deriving Repr, DecidableEq

def readFragCG (text : Str) : Py FragCG := do
  let o ← strip text
  let g ← readCG o.smile
  pure ⟨g, o.bonding, o.attrs⟩

end CGV
