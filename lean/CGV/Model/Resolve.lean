/-
  CGV.Model.Resolve — one resolution step of `MoleculeResolver.resolve` (resolve.py:353-405):

    phase A  resolve_disconnected_molecule (+ graph_utils.merge_graphs)
             edges_from_bonding_descrpt  (descriptor part: Model.Descr)
             squash_atoms (networkx.contracted_nodes, self_loops=False)
    -- external: pysmiles.correct_aromatic_rings — enters as a recorded patch --
    phase B  rebuild_h_atoms (fill_valence + add_explicit_hydrogens + attribute inheritance)
             sort_nodes_by_attr, annotate_fragments, set_atom_names_atomistic

  The base graph is given by its nodes in iteration order and its edges in `G.edges` order.
-/
import CGV.Model.Mol
import CGV.Gen.Valence
import CGV.Model.Stereo
namespace CGV
open Mol

/-- a fragment template: graph with template keys -/
structure Frag where
  name : Str
  mol : Mol
deriving Repr, Inhabited

abbrev FragDict := List (Str × Mol)

structure MetaNode where
  key : Key
  fragname : Str
deriving Repr, DecidableEq

/-- the coarse graph handed to one resolution step -/
structure Meta where
  nodes : List MetaNode
  edges : List MEdge          -- (u, v, order) in `G.edges` order; order in WHOLE units
deriving Repr

/-- graph_utils.merge_graphs + the loop body of resolve_disconnected_molecule for one coarse node:
    append a copy of the template with fresh consecutive keys, membership `[metaKey]`,
    `mapping = [(fragname, template key)]`. Returns the new molecule and its instance's keys. -/
def instantiate (mol : Mol) (metaKey : Key) (fragname : Str) (tmpl : Mol) : Mol × List (Key × Key) :=
  let start := mol.nextKey
  let corr : List (Key × Key) := tmpl.atoms.zipIdx.map fun (a, i) => (a.key, start + i)
  let newKey := fun (k : Key) => (corr.lookup k).getD k
  let atoms := tmpl.atoms.map fun a =>
    { a with key := newKey a.key, fragid := [metaKey], mapping := [(fragname, a.key)] }
  let edges := (tmpl.edges.filter fun e => newKey e.a != newKey e.b).map fun e =>
    { e with a := newKey e.a, b := newKey e.b }
  (edges.foldl Mol.addEdge { mol with atoms := mol.atoms ++ atoms }, corr)

/-- is the node without fragment a legal virtual node: all incident base-graph orders are 0 -/
def virtualOk (mg : Meta) (k : Key) : Bool :=
  (mg.edges.filter fun e => e.1 == k || e.2.1 == k).all fun e => e.2.2 == 0

/-- resolve_disconnected_molecule: instantiate every coarse node that has a fragment.
    Returns the disconnected molecule and, per instantiated coarse node, its instance's fine keys. -/
def disconnected (mg : Meta) (fd : FragDict) : Py (Mol × List (Key × List Key)) :=
  mg.nodes.foldlM (init := (({} : Mol), ([] : List (Key × List Key)))) fun acc mn =>
    match fd.lookup mn.fragname with
    | none => if virtualOk mg mn.key then pure acc else throw PyErr.syntax
    | some tmpl =>
      let r := instantiate acc.1 mn.key mn.fragname tmpl
      pure (r.1, acc.2 ++ [(mn.key, r.2.map (·.2))])

/-- the `bonding` lists of the per-node fragment graphs right after instantiation -/
def openOf (mol : Mol) (inst : List (Key × List Key)) : OpenSt :=
  inst.map fun (ck, ks) => (ck, ks.filterMap fun k => (mol.atom? k).map fun a => (k, a.bonding))

/-- `int(bonding[0][-1])` -/
def descOrder (d : Desc) : Py Nat := do
  let c ← pyLast d
  pyIntLit c

/-- resolve.py:313-327 for one created bond -/
def applyCut (allAtom : Bool) (mol : Mol) (c : Cut) : Py Mol := do
  let o ← descOrder c.da
  let arom := fun (k : Key) => ((mol.atom? k).map (·.aromatic)).getD false
  let order2 := if arom c.a && arom c.b then 3 else 2 * o
  let mol := mol.addEdge ⟨c.a, c.b, order2, some (c.da, c.db)⟩
  if allAtom then
    let dec := fun (m : Mol) (k : Key) =>
      m.updAtom k fun a =>
        if a.isH then a
        else if a.aromatic || !a.hasArom then { a with hcount2 := a.hcount2 - 3 }
        else { a with hcount2 := a.hcount2 - 2 }
    pure (dec (dec mol c.a) c.b)
  else pure mol

/-- the whole of edges_from_bonding_descrpt -/
def connect (cp : Desc → Desc → Bool) (allAtom : Bool) (mg : Meta) (mol : Mol) (inst : List (Key × List Key)) : Py Mol :=
  let cuts := (edgesFrom cp mg.edges (openOf mol inst)).2
  cuts.foldlM (applyCut allAtom) mol

/-- re-attach one edge of the removed node `rem` to `keep` (networkx.contracted_nodes, self_loops=False) -/
def moveStep (keep rem : Key) (m : Mol) (e : Edge) : Mol :=
  let w := if e.a == rem then e.b else e.a
  if w == keep || w == rem then m           -- the contracted edge itself / a self loop of `rem`
  else if m.hasEdge keep w then m           -- parallel edge: the existing one wins
  else { m with edges := m.edges ++ [{ e with a := keep, b := w }] }

/-- networkx.contracted_nodes(G, keep, rem, self_loops=False) followed by resolve.py:350-351 -/
def contract (mol : Mol) (keep rem : Key) : Mol :=
  let remAtom := mol.atom? rem
  let incident := mol.edges.filter fun e => e.a == rem || e.b == rem
  let rest : Mol := { atoms := mol.atoms.filter (·.key != rem),
                      edges := mol.edges.filter fun e => !(e.a == rem || e.b == rem) }
  let moved := incident.foldl (moveStep keep rem) rest
  match remAtom with
  | none => moved
  | some r => moved.updAtom keep fun a => { a with fragid := a.fragid ++ r.fragid, mapping := a.mapping ++ r.mapping }

/-- resolve.py:328-351 `squash_atoms` (with the transitive remap) -/
def squash (mol : Mol) : Mol :=
  let shared := mol.edgesIter.filter fun e =>
    match e.bonding with
    | some (d, _) => d.head? == some '!'
    | none => false
  let rec resolveKey (fuel : Nat) (sq : List (Key × Key)) (k : Key) : Key :=
    match fuel with
    | 0 => k
    | f+1 => match sq.lookup k with
      | some k' => resolveKey f sq k'
      | none => k
  (shared.foldl (fun (acc : Mol × List (Key × Key)) e =>
      let keep := resolveKey acc.2.length.succ acc.2 e.a
      let rem := resolveKey acc.2.length.succ acc.2 e.b
      if keep == rem then acc
      else (contract acc.1 keep rem, (rem, keep) :: acc.2)) (mol, [])).1

/-- executable form of the hypothesis the C10/C12 theorems make about fragment templates (distinct keys,
    bonds between the template's own atoms); the driver reports it for every template set it is handed -/
def Mol.wfb (m : Mol) : Bool :=
  decide m.keys.Nodup && m.edges.all fun e => m.keys.contains e.a && m.keys.contains e.b

def fragsWFb (fd : FragDict) : Bool := fd.all fun p => p.2.wfb

/-- phase A of a resolution step -/
def phaseA (legacyCompat : Desc → Desc → Bool) (allAtom : Bool) (mg : Meta) (fd : FragDict) : Py (Mol × List Key) := do
  let (mol, inst) ← disconnected mg fd
  let mol ← connect legacyCompat allAtom mg mol inst
  pure (squash mol, inst.map (·.1))

/-! ### phase B -/

/-- the recorded answer of `correct_aromatic_rings`: aromatic flag per node, order per edge -/
structure AromPatch where
  flags : List (Key × Bool)
  orders : List (Key × Key × Nat)
deriving Repr

def applyArom (mol : Mol) (p : AromPatch) : Mol :=
  { atoms := mol.atoms.map fun a => match p.flags.lookup a.key with
      | some f => { a with aromatic := f, hasArom := true }
      | none => a,
    edges := mol.edges.map fun e =>
      match p.orders.find? fun (u, v, _) => Edge.joins e u v with
      | some (_, _, o) => { e with order2 := o }
      | none => e }

/-- pysmiles `valence(atom)`; `none` when it raises ValueError -/
def valenceOf (a : Atom) : Option (List Nat) :=
  if a.element == [] || a.element == ['*'] then some []
  else match Gen.valenceTable.lookup (a.element, a.charge) with
    | some v => v
    | none => none

/-- pysmiles `bonds_missing` with `hcount = 0`, clipped at 0 as `fill_valence` does:
    `max(int(v - bonds), 0)` for the first listed valence `v ≥ bonds`, else the last one -/
def missingH (vals : List Nat) (bonds2 : Nat) : Nat :=
  match vals.find? (fun v => 2 * v ≥ bonds2) with
  | some v => (2 * v - bonds2) / 2
  | none => 0

/-- hydrogens needed per atom, in node order: fill_valence(respect_hcount=False) after `hcount := 0`.
    Each atom's count is computed from the graph as it is before any hydrogen is added
    (fill_valence runs to completion before add_explicit_hydrogens starts). -/
def hCounts (mol : Mol) : Py (List (Key × Nat)) :=
  mol.atoms.mapM fun a =>
    if a.isH then pure (a.key, 0)
    else match valenceOf a with
      | none => throw PyErr.value
      | some vs => pure (a.key, missingH vs (mol.bonds2 a.key))

/-- add_explicit_hydrogens for one atom: `c` new hydrogen nodes with keys `max+1 …`, each bonded to
    `k` with order 1 -/
def hStep (m : Mol) (kc : Key × Nat) : Mol :=
  let start := m.nextKey
  let hs : List Atom := (List.range kc.2).map fun i =>
    { key := start + i, element := ['H'], isH := true, hasArom := true, aromatic := false, charge := 0 }
  let es : List Edge := (List.range kc.2).map fun i => ⟨kc.1, start + i, 2, none⟩
  { atoms := m.atoms ++ hs, edges := m.edges ++ es }

def addHs (mol : Mol) (counts : List (Key × Nat)) : Mol :=
  counts.foldl hStep { mol with atoms := mol.atoms.map fun a => { a with hcount2 := 0 } }

/-- the attribute inheritance loop of rebuild_h_atoms: every hydrogen that is not a single-H
    fragment takes fragid / fragname / weight of its first neighbour unless it has them already -/
def inheritH (mol2 : Mol) : Py Mol := do
  let atoms ← mol2.atoms.mapM fun h =>
    if h.isH && !h.singleH then
      match mol2.neighbors h.key with
      | [] => throw PyErr.other     -- `next()` on an empty iterator: StopIteration
      | n :: _ =>
        match mol2.atom? n with
        | none => throw PyErr.key
        | some p =>
          let w := if h.extra.any (·.1 == "weight") then h.extra
                   else h.extra ++ [("weight", ((p.extra.lookup "weight").getD "None"))]
          pure { h with fragid := if h.fragid == [] then p.fragid else h.fragid,
                        fragname := if h.fragname == [] then p.fragname else h.fragname,
                        extra := w }
    else pure h
  pure { mol2 with atoms := atoms }

/-- pysmiles_utils.rebuild_h_atoms after the aromaticity correction -/
def rebuildH (mol : Mol) : Py Mol := do
  let counts ← hCounts mol
  inheritH (addHs mol counts)

/-- Python's lexicographic order on lists of naturals -/
def lexLt : List Nat → List Nat → Bool
  | [], [] => false
  | [], _ :: _ => true
  | _ :: _, [] => false
  | a :: as, b :: bs => a < b || (a == b && lexLt as bs)

def sortKeyLe (x y : List Nat × Key) : Bool :=
  lexLt x.1 y.1 || (x.1 == y.1 && x.2 ≤ y.2)

/-- insertion sort (stable) — `sorted(items, key=(fragid, key))` -/
def insertSorted (x : List Nat × Key) : List (List Nat × Key) → List (List Nat × Key)
  | [] => [x]
  | y :: ys => if sortKeyLe x y then x :: y :: ys else y :: insertSorted x ys

def sortItems (l : List (List Nat × Key)) : List (List Nat × Key) := l.foldr insertSorted []

/-- the old keys in sorted order: `[old for old, _ in sorted(fragids.items(), key=(fragid, key))]` -/
def sortOrder (mol : Mol) : List Key := (sortItems (mol.atoms.map fun a => (a.fragid, a.key))).map (·.2)

/-- graph_utils.sort_nodes_by_attr: every node is relabeled to its rank in (fragid, key) order
    (`mapping = {old: new for new, old in enumerate(sorted_ids)}`); node iteration order is unchanged
    (networkx relabel_nodes(copy=True)). Returns the relabeling too. -/
def sortNodes (mol : Mol) : Mol × List (Key × Key) :=
  let order := sortOrder mol
  let nk := fun (k : Key) => order.idxOf k
  ({ atoms := mol.atoms.map fun a => { a with key := nk a.key },
     edges := mol.edges.map fun e => { e with a := nk e.a, b := nk e.b } }, order.zipIdx)

/-- graph_utils.annotate_fragments: per coarse node the fine nodes that record it, in fine-graph
    iteration order -/
def membersOf (mol : Mol) (metaKey : Key) : List Key :=
  (mol.atoms.filter fun a => a.fragid.contains metaKey).map (·.key)

/-- decimal representation as characters -/
def natStr (n : Nat) : Str := (toString n).toList

/-- graph_utils.set_atom_names_atomistic with the coarse graph given -/
def setNames (mol : Mol) (mg : Meta) : Mol :=
  mg.nodes.foldl (fun m mn =>
    (membersOf m mn.key).zipIdx.foldl (fun m' (k, i) =>
      m'.updAtom k fun a => { a with atomname := a.element ++ natStr i }) m) mol

structure StepOut where
  fine : Mol
  coarse : List (Key × List Key)
deriving Repr

def phaseB (allAtom : Bool) (mg : Meta) (mol : Mol) : Py StepOut := do
  let mol ← if allAtom then rebuildH mol else pure mol
  let (mol, _) := sortNodes mol
  let mol ← if allAtom then annotateEZ mol else pure mol
  let coarse := mg.nodes.map fun mn => (mn.key, membersOf mol mn.key)
  let mol := if allAtom then setNames mol mg else mol
  pure ⟨mol, coarse⟩

end CGV
