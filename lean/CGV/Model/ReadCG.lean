/-
  CGV.Model.ReadCG — `read_cgsmiles` (read_cgsmiles.py:58-339).

  Structure of the model (all look-aheads of the Python code are local to the text that follows a
  node, which makes this factorisation exact):

    matches   : the regex scan `re.finditer(r"\[\#.*?\]")` — for every match the character before
                it (Python's `pattern[start-1]`, i.e. the LAST character of the string for a match at
                0), the text between `[#` and `]`, and the whole suffix `pattern[stop:]`
    decode    : everything the loop body computes from that suffix by index arithmetic (ring scan,
                bond order, `|n`, branch closings with their multipliers and bond orders) as a `Tok`
                whose fields are deferred (`Py`) so that errors surface in Python's order
    interp    : the state machine (graph, current, branch_anchor, recipes, prev_node, cycle,
                prev_bond_order, …) consuming one `Tok` per node

  Bond orders here are whole numbers 0..4 as in `symbol_to_order`.
-/
import CGV.Model.Dialect
import CGV.Gen.Funcs
namespace CGV
open Gen

/-! ### graph under construction (networkx semantics incl. implicit node creation by add_edge) -/

structure CGEdge where
  a : Nat
  b : Nat
  order : Option Nat
deriving DecidableEq, Repr

structure CGGraph where
  nodes : List (Nat × Attrs) := []
  edges : List CGEdge := []
deriving Repr, Inhabited, DecidableEq

namespace CGGraph
def hasNode (g : CGGraph) (k : Nat) : Bool := g.nodes.any (·.1 == k)
def joins (e : CGEdge) (u v : Nat) : Bool := (e.a == u && e.b == v) || (e.a == v && e.b == u)
def hasEdge (g : CGGraph) (u v : Nat) : Bool := g.edges.any (joins · u v)
/-- `add_node(k, **attrs)`: update in place (dict.update) or append -/
def addNode (g : CGGraph) (k : Nat) (attrs : Attrs) : CGGraph :=
  if g.hasNode k then
    { g with nodes := g.nodes.map fun (k', a) => if k' == k then (k', attrs.foldl (fun acc (x, v) => pySet acc x v) a) else (k', a) }
  else { g with nodes := g.nodes ++ [(k, attrs)] }
def ensure (g : CGGraph) (k : Nat) : CGGraph := if g.hasNode k then g else { g with nodes := g.nodes ++ [(k, [])] }
/-- `add_edge(u, v, order=o)` -/
def addEdge (g : CGGraph) (u v : Nat) (o : Option Nat) : CGGraph :=
  let g := (g.ensure u).ensure v
  if g.hasEdge u v then { g with edges := g.edges.map fun e => if joins e u v then { e with order := o } else e }
  else { g with edges := g.edges ++ [⟨u, v, o⟩] }
end CGGraph

/-! ### the regex scan -/

/-- find the first `]` (not crossing a newline): returns the text before it and the text after it -/
def untilClose : Str → Option (Str × Str)
  | [] => none
  | c :: cs =>
    if c == ']' then some ([], cs)
    else if c == '\n' then none
    else (untilClose cs).map fun (x, r) => (c :: x, r)

/-- all non-overlapping matches of `\[\#.*?\]`, left to right: (preceding char, name text, suffix).
    `last` = the last character of the whole string (what `pattern[-1]` yields for a match at 0). -/
def matchesAux (last : Char) : Nat → Char → Str → List (Char × Str × Str)
  | 0, _, _ => []
  | _ + 1, _, [] => []
  | fuel + 1, pre, c :: cs =>
    match c, cs with
    | '[', '#' :: rest =>
      match untilClose rest with
      | some (name, after) =>
        (pre, name, after) :: matchesAux last fuel ']' after
      | none => matchesAux last fuel c cs
    | _, _ => matchesAux last fuel c cs

def matches' (s : Str) : List (Char × Str × Str) :=
  matchesAux (s.getLast?.getD ' ') (s.length + 1) (s.getLast?.getD ' ') s

/-! ### decoding the text after a node -/

def symOrder (c : Char) : Option Nat := symbolToOrder.lookup c

/-- `_find_next_character(pattern, chars, stop)` relative to the suffix: offset of the first listed
    character, or the suffix length -/
def findNext (chars : List Char) (rest : Str) : Nat :=
  match rest with
  | [] => 0
  | c :: cs => if chars.contains c then 0 else findNext chars cs + 1

/-- one ring marker occurrence: `(marker id, ring bond order)` -/
abbrev RingOcc := Nat × Nat

structure RingScan where
  occs : List RingOcc      -- in textual order
  rdx : Option Nat         -- value of the loop variable after the loop (none: loop body never ran)
deriving Repr

/-- the scan of read_cgsmiles.py:155-194 over `pattern[stop:]`.
    state: index, `ring_marker` text, `multi_ring`, `ring_bond_order`, occurrences so far -/
def ringScanAux : Str → Nat → Str → Bool → Nat → List RingOcc → Py RingScan
  | [], i, marker, multi, rbo, acc =>
    -- the loop is over; a `%nn` marker that ends the pattern is registered now
    if multi then do
      let m ← pyIntLit (marker.drop 1)
      pure ⟨acc ++ [(m, rbo)], if i == 0 then none else some (i - 1)⟩
    else pure ⟨acc, if i == 0 then none else some (i - 1)⟩
  | tok :: rest, i, marker, multi, rbo, acc => do
    -- closing a `%nn` marker when a non-digit follows
    let (marker, multi, rbo, acc) ←
      if multi && !tok.isDigit then do
        let m ← pyIntLit (marker.drop 1)
        pure (([] : Str), false, defaultBondOrder, acc ++ [(m, rbo)])
      else pure (marker, multi, rbo, acc)
    if tok == '%' then ringScanAux rest (i + 1) ['%'] true rbo acc
    else if tok.isDigit then
      if !multi then do
        let m ← pyIntLit (marker ++ [tok])
        ringScanAux rest (i + 1) [] false defaultBondOrder (acc ++ [(m, rbo)])
      else ringScanAux rest (i + 1) (marker ++ [tok]) multi rbo acc
    else match symOrder tok with
      | some o => ringScanAux rest (i + 1) marker multi o acc
      | none => pure ⟨acc, some i⟩          -- `break`

def ringScan (rest : Str) : Py RingScan := ringScanAux rest 0 [] false defaultBondOrder []

/-- one branch closing `)` seen after a node, as the closing loop reads it -/
structure Closing where
  /-- `)` is followed by `|n` (possibly with a bond symbol in between): (symbol's order, n, the
      character at `eon_b` — `none` when the string ends there: `pattern[eon_b]` raises IndexError) -/
  mult : Option (Option Nat × Nat × Option Char)
  /-- without multiplier: bond order symbol directly after `)` -/
  after : Option Nat
deriving Repr

/-- text after one `)` (offset eon_a given relative to `rest`): read_cgsmiles.py:272-328 -/
def decodeClosing (rest : Str) (eonA : Nat) : Py Closing := do
  let len := rest.length
  let at? := fun (i : Nat) => rest[i]?
  let c1 := at? (eonA + 1) == some '|'
  let c2 := at? (eonA + 2) == some '|'
  if c1 || c2 then
    -- `if pattern[eon_a+2] == "|"` : IndexError when out of range
    let (anchorOrder, eonA') ← match at? (eonA + 2) with
      | none => throw PyErr.index
      | some ch =>
        if ch == '|' then
          match at? (eonA + 1) with
          | none => throw PyErr.index
          | some s => match symOrder s with
            | none => throw PyErr.key
            | some o => pure (some o, eonA + 1)
        else pure (none, eonA)
    let eonB := eonA' + 1 + findNext eonBChars (rest.drop (eonA' + 1))
    let n ← pyIntLit ((rest.drop (eonA' + 2)).take (eonB - (eonA' + 2)))
    let _ := len
    pure ⟨some (anchorOrder, n, at? eonB), none⟩
  else
    pure ⟨none, (at? (eonA + 1)).bind symOrder⟩

structure Tok where
  opens : Bool
  name : Str
  rest : Str
deriving Repr

/-! ### the state machine -/

structure Recipe where
  n : Nat
  attrs : Attrs
  order : Option Nat
deriving Repr

structure RState where
  g : CGGraph := {}
  current : Nat := 0
  anchors : List (Option Nat) := []              -- branch_anchor; top = last
  recipes : List (Option Nat × List Recipe) := []  -- insertion-ordered defaultdict(list)
  prev : Option Nat := none
  branching : Bool := false
  cycle : List (Nat × Nat × Nat) := []             -- marker ↦ (node, ring bond order)
  pbo : Option Nat := none                         -- prev_bond_order
  attrs : Option Attrs := none                     -- `attributes` of the previous iteration (unbound at start)
  baseAnchor : Option (Option Nat) := none         -- `base_anchor` (unbound / bound)
  rdx : Option Nat := none                         -- the loop variable survives iterations
deriving Repr, Inhabited

def recipesGet (r : List (Option Nat × List Recipe)) (k : Option Nat) : List Recipe := (r.lookup k).getD []
def recipesSet (r : List (Option Nat × List Recipe)) (k : Option Nat) (v : List Recipe) := pySet r k v

/-- toggle ring markers for the node `cur`: returns the new cycle dict and the ring edges to add -/
def applyRings (cycle : List (Nat × Nat × Nat)) (cur : Nat) : List RingOcc → List (Nat × Nat × Nat) →
    List (Nat × Nat × Nat) × List (Nat × Nat × Nat)
  | [], edges => (cycle, edges)
  | (m, o) :: rest, edges =>
    match cycle.lookup m with
    | some (node, ord) => applyRings (pyDel cycle m) cur rest (edges ++ [(cur, node, ord)])
    | none => applyRings (cycle ++ [(m, cur, o)]) cur rest edges

/-- read_cgsmiles.py:19 `_expand_branch`: returns the graph, `current`, and the returned `prev_node` -/
def expandBranch (g : CGGraph) (current : Nat) (anchor : Option Nat) (recipe : List Recipe) :
    Py (CGGraph × Nat × Option Nat) := do
  let step := fun (acc : CGGraph × Nat × Option Nat) (r : Recipe) =>
    (List.range r.n).foldlM (fun (acc : CGGraph × Nat × Option Nat) _ => do
      let (g, cur, prev) := acc
      let g := g.addNode cur r.attrs
      match prev with
      | none => throw PyErr.value             -- add_edge(None, …): "None cannot be a node"
      | some p => pure (g.addEdge p cur r.order, cur + 1, some cur)) acc
  let (g', cur', _) ← recipe.foldlM step (g, current, anchor)
  -- `anchor = current` at the first recipe entry (bdx == 0), also when it adds no node
  let ret := if recipe.isEmpty then anchor else some current
  pure (g', cur', ret)

/-- one pass of the expansion loop body `for idx in range(0, n-1)` (read_cgsmiles.py:291-320) -/
def expandOnce (st : RState) : Py RState := do
  let rs := st.recipes.drop st.anchors.length
  let (st, _) ← rs.foldlM (fun (acc : RState × Option (Option Nat)) (refAnchor, recipe) => do
      let (st, prevAnchor) := acc
      -- `if prev_anchor is not None:` (None both before the first recipe and for a `None` key)
      let (st, skip) ← match prevAnchor with
        | some (some pa) =>
          match refAnchor, st.prev with
          | some ra, some pn =>
            let np : Int := (pn : Int) + ((ra : Int) - (pa : Int))
            if np < 0 then throw PyErr.unsupported
            else pure ({ st with prev := some np.toNat }, 1)
          | _, _ => throw PyErr.type
        | _ => pure (st, 0)
      let (g, cur, a) ← expandBranch st.g st.current st.prev (recipe.drop skip)
      let st := { st with g := g, current := cur, prev := a }
      let isNone := match prevAnchor with
        | none => true
        | some none => true
        | _ => false
      let st := if isNone then { st with baseAnchor := some st.prev } else st
      pure (st, some refAnchor)) (st, (none : Option (Option Nat)))
  pure st

def iterate {α} (f : α → Py α) : Nat → α → Py α
  | 0, a => pure a
  | n + 1, a => do iterate f n (← f a)

/-- the branch-closing loop: one iteration per `)` that directly follows (R1: `while`), `off` is the
    offset in `rest` from which the next `[` / `)` are searched -/
def closeLoop : Nat → Str → Nat → RState → Py RState
  | 0, _, _, st => pure st
  | fuel + 1, rest, off, st =>
    let tail := rest.drop off
    let nextOpen := findNext branchStopOpen tail
    let nextClose := findNext branchStopClose tail
    if nextOpen > nextClose then do
      -- prev_node = branch_anchor.pop()
      let a ← match st.anchors.getLast? with
        | none => throw PyErr.index
        | some a => pure a
      let st := { st with prev := a, anchors := st.anchors.dropLast }
      let st := { st with branching := !st.anchors.isEmpty }
      let eonA := off + findNext eonAChars tail
      let cl ← decodeClosing rest eonA
      let st ← match cl.mult with
        | some (anchorOrder, n, chB) => do
          let st ← match anchorOrder with
            | some ao =>
              match recipesGet st.recipes st.prev with
              | [] => throw PyErr.index                  -- `recipes[prev_node][0]` on the defaultdict
              | r0 :: rs => pure { st with recipes := recipesSet st.recipes st.prev ({ r0 with order := some ao } :: rs) }
            | none => pure st
          -- without any expansion (|1) the current anchor stays
          let st := { st with baseAnchor := some st.prev }
          let st ← iterate expandOnce (n - 1) st
          let st ← match st.baseAnchor with
            | none => throw PyErr.unbound
            | some b => pure { st with prev := b }
          -- `if pattern[eon_b] in symbol_to_order`
          match chB with
          | none => throw PyErr.index
          | some ch => pure (match symOrder ch with
            | some o => { st with pbo := some o }
            | none => st)
        | none => pure (match cl.after with
            | some o => { st with pbo := some o }
            | none => st)
      let st := if st.anchors.isEmpty then { st with recipes := [] } else st
      closeLoop fuel rest (eonA + 1) st
    else pure st

/-- read_cgsmiles.py:142-148: a node preceded by `(` opens a branch -/
def openBranch (st : RState) (pre : Char) : Py RState :=
  if pre == '(' then
    match st.attrs with
    | none => throw PyErr.unbound
    | some attrs =>
      pure { st with branching := true, anchors := st.anchors ++ [st.prev],
                     recipes := recipesSet st.recipes st.prev [⟨1, attrs, some 1⟩] }
  else pure st

/-- read_cgsmiles.py:196-200: the bond order following the node, from the character before the one
    that stopped the ring scan -/
def bondOrderOf (rest : Str) (rdx : Option Nat) : Py Nat :=
  if rest.isEmpty then pure defaultBondOrder else
    match rdx with
    | none => throw PyErr.unbound
    | some r =>
      let c : Char := if r == 0 then ']' else (rest[r - 1]?).getD ']'
      if pyStrIn [c] bondAfterNodeChars then
        match symOrder c with
        | some o => pure o
        | none => throw PyErr.key
      else pure defaultBondOrder

/-- read_cgsmiles.py:202-214: the node multiplier `|n` and a bond symbol following it -/
def multOf (rest : Str) (bondOrder : Nat) : Py (Nat × Nat) :=
  match rest with
  | '|' :: _ => do
    let eon := findNext eonChars rest
    let n ← pyIntLit ((rest.drop 1).take (eon - 1))
    pure (n, match (rest[eon]?).bind symOrder with
      | some o => o
      | none => bondOrder)
  | _ => pure (1, bondOrder)

/-- read_cgsmiles.py:229-248: one copy of the node -/
def addCopy (attributes : Attrs) (ringEdges : List (Nat × Nat × Nat)) (st : RState) : Py RState := do
  let g := st.g.addNode st.current attributes
  let g := match st.prev with
    | some p => g.addEdge p st.current st.pbo
    | none => g
  let g ← ringEdges.foldlM (fun (g : CGGraph) (e : Nat × Nat × Nat) =>
    if g.hasEdge e.1 e.2.1 then throw PyErr.syntax else pure (g.addEdge e.1 e.2.1 (some e.2.2))) g
  pure { st with g := g, pbo := some defaultBondOrder, prev := some st.current, current := st.current + 1 }

/-- the loop body of read_cgsmiles for one regex match -/
def stepNode (st : RState) (m : Char × Str × Str) : Py RState := do
  let (pre, nameText, rest) := m
  -- branch opening
  let st ← openBranch st pre
  -- ring scan
  let scan ← ringScan rest
  let (cycle, ringEdges) := applyRings st.cycle st.current scan.occs []
  let rdx := scan.rdx.orElse fun _ => st.rdx
  let st := { st with cycle := cycle, rdx := rdx }
  -- bond order following the node
  let bondOrder ← bondOrderOf rest rdx
  -- node multiplier
  let (nMon, bondOrder) ← multOf rest bondOrder
  -- annotations
  let attributes ← parseBase nameText
  let st := { st with attrs := some attributes }
  let st := if st.branching then
      let k := st.anchors.getLast?.getD none
      { st with recipes := recipesSet st.recipes k (recipesGet st.recipes k ++ [⟨nMon, attributes, st.pbo⟩]) }
    else st
  -- add the node n_mon times
  let st ← (List.range nMon).foldlM (fun (st : RState) _ => addCopy attributes ringEdges st) st
  -- the bond order symbol after the node belongs to the bond with the next node
  let st := if nMon > 0 then { st with pbo := some bondOrder } else st
  -- branch closings
  closeLoop (rest.length + 1) rest 0 st

/-- `read_cgsmiles(pattern)` -/
def readCG (s : Str) : Py CGGraph := do
  if s.any fun c => c == '\n' || c.toNat > 127 then throw PyErr.unsupported
  let st ← (matches' s).foldlM stepNode {}
  if !st.cycle.isEmpty then throw PyErr.syntax
  pure st.g

end CGV
