/-
  CGV.Model.Strip — `strip_bonding_descriptors` (read_fragments.py:105-210) with `PeekIter` and
  `collect_ring_number`, and `fragment_iter`'s splitting of a fragment block.

  The character state machine walks the fragment text once; every step consumes at least one
  character, so the recursion carries the remaining text and a fuel bound of its length.
-/
import CGV.Model.Dialect
import CGV.Model.Descr
namespace CGV
open Gen

/-- `str(order)` for an order held in half units -/
def orderText (o2 : Nat) : Str :=
  if o2 % 2 == 0 then (toString (o2 / 2)).toList else (toString (o2 / 2)).toList ++ ['.', '5']

structure StripState where
  smile : Str := []
  bonding : List (Nat × List Desc) := []          -- defaultdict(list), first-use order
  ez : List (Nat × Char) := []
  attrs : List (Nat × Attrs) := []
  nodeCount : Nat := 0
  prevNode : Nat := 0
  currentOrder : Option Nat := none               -- half units
  anchor : List Nat := []
deriving Repr, Inhabited

structure StripOut where
  smile : Str
  bonding : List (Nat × List Desc)
  ez : List (Nat × Char)
  attrs : List (Nat × Attrs)
deriving Repr

/-- read up to the closing `]`; `none` when the text ends first (StopIteration) -/
def takeBracket : Str → Option (Str × Str)
  | [] => none
  | c :: cs => if c == ']' then some ([], cs) else (takeBracket cs).map fun (x, r) => (c :: x, r)

/-- split the inside of a bracket atom at the first `;` (read_fragments.py:160-168) -/
def splitAtomAnno (inner : Str) : Str × Str :=
  match inner.span (· != ';') with
  | (a, []) => (a, [])
  | (a, _ :: rest) => (a, rest)

/-- `collect_ring_number`: the maximal run of digits / `%` -/
def ringRun (s : Str) : Str × Str := s.span fun c => c.isDigit || c == '%'

def appendDesc (b : List (Nat × List Desc)) (k : Nat) (d : Desc) : List (Nat × List Desc) :=
  pySet b k (((b.lookup k).getD []) ++ [d])

/-- one iteration of the `for token in smile_iter` loop: consumes at least one character of the
    non-empty text `tok :: rest`, returns the remaining text -/
def stripStep (tok : Char) (rest : Str) (st : StripState) : Py (Str × StripState) :=
  if tok == '[' then
    match rest with
    | [] => throw PyErr.other                        -- next() on the exhausted iterator
    | pk :: rest' =>
      if descriptorKinds.contains pk then
        match takeBracket rest' with
        | none => throw PyErr.other
        | some (label, after) =>
          let desc := pk :: label
          -- leading descriptor: the order symbol follows it
          let leading := match after with
            | c :: after' => if st.nodeCount == 0 then (bondToOrder2.lookup c).map fun o => (o, after') else none
            | [] => none
          match leading with
          | some (o, after') =>
            pure (after', { st with bonding := appendDesc st.bonding st.prevNode (desc ++ orderText o) })
          | none =>
            match st.currentOrder with
            | some o =>
              pure (after, { st with bonding := appendDesc st.bonding st.prevNode (desc ++ orderText o),
                                     currentOrder := none, smile := st.smile.dropLast })
            | none =>
              pure (after, { st with bonding := appendDesc st.bonding st.prevNode (desc ++ orderText 2) })
      else
        match takeBracket (pk :: rest') with
        | none => throw PyErr.other
        | some (inner, after) => do
          let (atom, annoStr) := splitAtomAnno inner
          let a ← parseFrag annoStr
          let old := (st.attrs.lookup st.nodeCount).getD []
          let merged := a.foldl (fun acc (k, v) => pySet acc k v) old
          pure (after, { st with attrs := pySet st.attrs st.nodeCount merged,
                                 smile := st.smile ++ ['['] ++ atom ++ [']'],
                                 prevNode := st.nodeCount, nodeCount := st.nodeCount + 1, currentOrder := none })
  else if tok == '(' then
    pure (rest, { st with anchor := st.anchor ++ [st.prevNode], smile := st.smile ++ [tok] })
  else if tok == ')' then
    match st.anchor.getLast? with
    | none => throw PyErr.index
    | some a => pure (rest, { st with prevNode := a, anchor := st.anchor.dropLast, smile := st.smile ++ [tok] })
  else match bondToOrder2.lookup tok with
    | some o => pure (rest, { st with currentOrder := some o, smile := st.smile ++ [tok] })
    | none =>
      if tok == '%' || tok.isDigit then
        let (run, after) := ringRun (tok :: rest)
        pure (after, { st with smile := st.smile ++ run, currentOrder := none })
      else if pyStrIn [tok] passThroughChars then
        pure (rest, { st with smile := st.smile ++ [tok] })
      else if pyStrIn [tok] ezChars then
        pure (rest, { st with ez := pySet (pySet st.ez st.nodeCount tok) st.prevNode tok })
      else
        let two := match rest with
          | c :: _ => twoLetterElements.contains [tok, c]
          | [] => false
        let (txt, after) := if two then ([tok] ++ rest.take 1, rest.drop 1) else ([tok], rest)
        pure (after, { st with smile := st.smile ++ txt, currentOrder := none,
                               prevNode := st.nodeCount, nodeCount := st.nodeCount + 1 })

def stripAux : Nat → Str → StripState → Py StripState
  | 0, _, st => pure st
  | _ + 1, [], st => pure st
  | fuel + 1, tok :: rest, st => do
    let (rest', st') ← stripStep tok rest st
    stripAux fuel rest' st'

/-- `strip_bonding_descriptors(fragment_string)` -/
def strip (s : Str) : Py StripOut := do
  if s.any fun c => c.toNat > 127 then throw PyErr.unsupported
  let st ← stripAux (s.length + 1) s {}
  pure ⟨st.smile, st.bonding, st.ez, st.attrs⟩

/-- `fragment_iter`'s cutting of `{#name=text,#name=text}`: (name, text) per comma-separated entry -/
def splitFragments (block : Str) : List (Str × Str) :=
  let body := (block.drop 1).dropLast
  (splitOn ',' body).map fun frag =>
    match frag.idxOf? '=' with
    | some i => ((frag.drop 1).take (i - 1), frag.drop (i + 1))
    | none => ((frag.drop 1).dropLast, frag)      -- find() == -1: fragment[1:-1] and fragment[0:]

end CGV
