/-
  CGV.Model.Layout — the in-scope post-processing of `vespr_layout` (graph_layout.py:29-68):
  target distances handed to the layout engine and the final rescaling to the default bond length.
  Generic over the numeric type: `Float` for execution in the driver, `ℝ` for the theorems.
  The layout engines (spring + Kamada–Kawai) are external (contract Y0).
-/
namespace CGV

/-- graph_layout.py:31-38: target distance for graph distance `d` (odd: zig-zag chain, even: straight) -/
def targetDistF (d : Nat) : Float :=
  if d % 2 == 1 then
    let n : Float := (d.toFloat + 1) / 2
    Float.sqrt (3 * n * n - 3 * n + 1)
  else d.toFloat / 2 * Float.sqrt 3

def dist2F (p q : Float × Float) : Float :=
  Float.sqrt ((p.1 - q.1) * (p.1 - q.1) + (p.2 - q.2) * (p.2 - q.2))

/-- graph_layout.py:61-68: mean bond length over `graph.edges`, then every position times
    `default_bond / mean` -/
def rescaleF (pos : List (Nat × (Float × Float))) (edges : List (Nat × Nat)) (b : Float) : List (Nat × (Float × Float)) :=
  let get := fun (k : Nat) => (pos.lookup k).getD (0, 0)
  let total := edges.foldl (fun acc e => acc + dist2F (get e.1) (get e.2)) 0
  let avg := total / edges.length.toFloat
  pos.map fun (k, p) => (k, (p.1 * (b / avg), p.2 * (b / avg)))

end CGV
