/-
  CGV.Model.Write — `write_graph` (write_cgsmiles.py:56-160), `write_cgsmiles_graph`,
  `write_cgsmiles_fragments`, `write_cgsmiles`.

  External and entering as parameters: the rooted spanning tree `nx.dfs_successors(G, min G)`, the
  iteration order of the set of ring edges (CPython set order), pysmiles' `format_atom` text per node
  (SMILES format only).  `format_bonding` is the function translated from the source.
-/
import CGV.Gen.Funcs
namespace CGV
open Gen

structure WNode where
  key : Nat
  /-- `[#fragname]` (CGsmiles format) or the text pysmiles' `format_atom` returns (SMILES format) -/
  text : Str
  bonding : List Str
  aromatic : Bool
deriving Repr

structure WEdge where
  a : Nat
  b : Nat
  order2 : Nat        -- half units
deriving Repr

structure WGraph where
  nodes : List WNode
  edges : List WEdge
  /-- `dfs_successors`: node ↦ successors, in discovery order -/
  succ : List (Nat × List Nat)
  /-- the non-tree edges in the order `list(total_edges - edges)` yields them -/
  ringEdges : List (Nat × Nat)
  smilesFormat : Bool
deriving Repr

namespace WGraph
def node? (g : WGraph) (k : Nat) : Option WNode := g.nodes.find? (·.key == k)
def order2? (g : WGraph) (u v : Nat) : Option Nat :=
  (g.edges.find? fun e => (e.a == u && e.b == v) || (e.a == v && e.b == u)).map (·.order2)
def aromatic (g : WGraph) (k : Nat) : Bool := ((g.node? k).map (·.aromatic)).getD false
end WGraph

/-- pysmiles `_write_edge_symbol` -/
def writeEdgeSymbol (g : WGraph) (u v : Nat) : Py Bool :=
  match g.order2? u v with
  | none => throw PyErr.key
  | some o =>
    let aro := g.aromatic u && g.aromatic v
    let aromaticBond := aro && o == 3
    let crossAromatic := aro && o == 2
    let single := o == 2
    pure (crossAromatic || !(aromaticBond || single))

def edgeSymbol (g : WGraph) (u v : Nat) : Py Str := do
  if ← writeEdgeSymbol g u v then
    match g.order2? u v with
    | none => throw PyErr.key
    | some o => do pure [← pyGet orderToSymbol2 o]
  else pure []

/-- pysmiles `_get_ring_marker`: the lowest positive number not in use -/
def lowestFree (used : List Nat) : Nat → Nat → Nat
  | 0, m => m
  | fuel + 1, m => if used.contains m then lowestFree used fuel (m + 1) else m

def markerText (m : Nat) : Str := if m < 10 then (toString m).toList else '%' :: (toString m).toList

structure WState where
  out : Str := []
  toVisit : List Nat := []            -- stack, top = last
  branches : List Nat := []
  depth : Nat := 0
  markers : List (Nat × Nat) := []    -- ring_idx ↦ marker (open rings)

/-- ring indices (1-based positions in `ringEdges`) a node takes part in, in that order -/
def ringIdxsOf (g : WGraph) (k : Nat) : List (Nat × (Nat × Nat)) :=
  (g.ringEdges.zipIdx 1).filterMap fun (e, i) => if e.1 == k || e.2 == k then some (i, e) else none

/-- one iteration of the `while to_visit` loop -/
def writeStep (g : WGraph) (pred : List (Nat × Nat)) (st : WState) : Py WState := do
  match st.toVisit.getLast? with
  | none => pure st
  | some current =>
    let st := { st with toVisit := st.toVisit.dropLast }
    let isBranch := st.branches.contains current
    -- the edge crossed to get here
    let sym ← match pred.lookup current with
      | some previous => edgeSymbol g previous current
      | none => pure []
    let st := if isBranch then
        { st with depth := st.depth + 1, branches := st.branches.erase current,
                  -- CGsmiles places the bond symbol before the branch, SMILES inside it
                  out := st.out ++ (if g.smilesFormat then '(' :: sym else sym ++ ['(']) }
      else { st with out := st.out ++ sym }
    let node ← match g.node? current with
      | some n => pure n
      | none => throw PyErr.key
    let st := { st with out := st.out ++ node.text }
    let st ← if node.bonding.isEmpty then pure st else do
      pure { st with out := st.out ++ (← formatBonding node.bonding) }
    -- ring markers: texts are collected, single-digit markers are written before `%nn` markers
    let (st, strs) ← (ringIdxsOf g current).foldlM (fun (acc : WState × List (Bool × Str)) (ri : Nat × (Nat × Nat)) => do
        let (st, strs) := acc
        let (ringIdx, bond) := ri
        match st.markers.lookup ringIdx with
        | none =>
          let marker := lowestFree (st.markers.map (·.2)) ((st.markers.map (·.2)).foldl max 0 + 1) 1
          let s ← edgeSymbol g bond.1 bond.2
          pure ({ st with markers := st.markers ++ [(ringIdx, marker)] }, strs ++ [(decide (marker ≥ 10), s ++ markerText marker)])
        | some marker =>
          pure ({ st with markers := pyDel st.markers ringIdx }, strs ++ [(decide (marker ≥ 10), markerText marker)])) (st, [])
    let st := { st with out := st.out ++ ((strs.filter (!·.1)) ++ (strs.filter (·.1))).flatMap (·.2) }
    match g.succ.lookup current with
    | some next =>
      pure { st with branches := st.branches ++ (next.drop 1).filter (fun n => !st.branches.contains n),
                     toVisit := st.toVisit ++ next }
    | none =>
      if st.depth > 0 then pure { st with out := st.out ++ [')'], depth := st.depth - 1 }
      else pure st

def writeLoop (g : WGraph) (pred : List (Nat × Nat)) : Nat → WState → Py WState
  | 0, st => pure st
  | fuel + 1, st => if st.toVisit.isEmpty then pure st else do writeLoop g pred fuel (← writeStep g pred st)

/-- `write_graph(molecule, smiles_format)` -/
def writeGraph (g : WGraph) : Py Str := do
  let start ← match g.nodes.map (·.key) with
    | [] => throw PyErr.value            -- min() of an empty sequence
    | k :: ks => pure (ks.foldl min k)
  -- predecessors[successor] = [node]
  let pred : List (Nat × Nat) := g.succ.flatMap fun (n, ss) => ss.map fun s => (s, n)
  let st ← writeLoop g pred (g.nodes.length + 1) { toVisit := [start] }
  pure (st.out ++ List.replicate st.depth ')')

end CGV
