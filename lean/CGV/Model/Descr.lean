/-
  CGV.Model.Descr — bonding descriptors: compatibility, first-match search, the bond loop.
  Hand-written model of resolve.py:14-87 and :294-317 (the descriptor bookkeeping part).
  `compat` is the readable form of the *translated* `Gen.compatible`; the two are proved equal
  in `CGV.Lemmas.Bridge` (re-checked on every run against the regenerated translation).
-/
import CGV.Py
namespace CGV

abbrev Key := Nat
/-- a descriptor as stored by the fragment reader: kind character, label, order digit(s), e.g. `$A1` -/
abbrev Desc := Str

/-- resolve.py:14 `compatible` on non-empty descriptors (Python raises IndexError on empty ones;
    the fragment reader never produces them) -/
def compat (legacy : Bool) (l r : Desc) : Bool :=
  match l, r with
  | lc :: ltl, rc :: rtl =>
    if legacy then
      if (l == r) && !(lc == '>' || lc == ' ' || lc == '<') then true
      else if (lc == '<' && rc == '>') || (lc == '>' && rc == '<') then ltl == rtl
      else false
    else
      if (lc == '$' && rc == '$') || (lc == '!' && rc == '!') then true
      else if (lc == '<' && rc == '>') || (lc == '>' && rc == '<') then true
      else false
  | _, _ => false

/-- the open descriptors of one fragment instance: atoms (fine key) that carry a `bonding`
    attribute, in the fragment graph's node order, each with its ordered descriptor list -/
abbrev Open := List (Key × List Desc)

def findInLists (cp : Desc → Desc → Bool) (bs bt : List Desc) : Option (Desc × Desc) :=
  bs.findSome? fun s => (bt.find? fun t => cp s t).map fun t => (s, t)

/-- resolve.py:46 `match_bonding_descriptors`: first match in
    (source node, target node, source descriptor, target descriptor) order; `none` = LookupError -/
def matchBD (cp : Desc → Desc → Bool) (src tgt : Open) : Option ((Key × Key) × (Desc × Desc)) :=
  src.findSome? fun (sn, bs) =>
    tgt.findSome? fun (tn, bt) =>
      (findInLists cp bs bt).map fun p => ((sn, tn), p)

/-- `graph.nodes[n]['bonding'].remove(d)` : first occurrence -/
def removeAt (f : Open) (n : Key) (d : Desc) : Open :=
  f.map fun (k, ds) => if k = n then (k, ds.erase d) else (k, ds)

/-- a bond created from a descriptor pair (before its order is interpreted) -/
structure Cut where
  /-- the base-graph edge `(p, n)` the bond was made for -/
  p : Key
  n : Key
  a : Key
  b : Key
  da : Desc
  db : Desc
deriving DecidableEq, Repr

/-- per coarse node: its fragment instance's open descriptors -/
abbrev OpenSt := List (Key × Open)

def OpenSt.get (s : OpenSt) (k : Key) : Open := (s.lookup k).getD []
def OpenSt.set (s : OpenSt) (k : Key) (f : Open) : OpenSt :=
  s.map fun (k', f') => if k' = k then (k', f) else (k', f')

/-- one unit of edge order (one pass through the body of the `for _ in range(order)` loop) -/
def stepUnit (cp : Desc → Desc → Bool) (p n : Key) (acc : OpenSt × List Cut) : OpenSt × List Cut :=
  match matchBD cp (acc.1.get p) (acc.1.get n) with
  | none => acc
  | some ((a, b), (da, db)) =>
    let s1 := acc.1.set p (removeAt (acc.1.get p) a da)
    let s2 := s1.set n (removeAt (s1.get n) b db)
    (s2, acc.2 ++ [⟨p, n, a, b, da, db⟩])

def iterUnit (cp : Desc → Desc → Bool) (p n : Key) : Nat → OpenSt × List Cut → OpenSt × List Cut
  | 0, acc => acc
  | k+1, acc => iterUnit cp p n k (stepUnit cp p n acc)

/-- a base-graph edge as the loop sees it: `(prev_node, node, order)` -/
abbrev MEdge := Key × Key × Nat

def stepEdge (cp : Desc → Desc → Bool) (acc : OpenSt × List Cut) (e : MEdge) : OpenSt × List Cut :=
  iterUnit cp e.1 e.2.1 e.2.2 acc

/-- resolve.py:294-317, descriptor part: all bonds created for the base-graph edges in loop order -/
def edgesFrom (cp : Desc → Desc → Bool) (edges : List MEdge) (s : OpenSt) : OpenSt × List Cut :=
  edges.foldl (stepEdge cp) (s, [])

end CGV
