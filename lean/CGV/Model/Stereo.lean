/-
  CGV.Model.Stereo — cis/trans annotation after the final renumbering
  (pysmiles_utils.py:107-121 `annotate_ez_isomers_cgsmiles`, which hands the molecule and the
  per-atom slash marks to pysmiles `_annotate_ez_isomers` / `_interpret_cis_trans_tokens`).

  Modelled external (pysmiles 2.x, smiles_helper.py): the token table of
  `_interpret_cis_trans_tokens`, the conflict rule of `_check_for_ez_conflicts`, and the dangling
  mark rule.  What is *verified* about CGsmiles is how marks, keys and edge orientation reach that
  code (resolve.py:396-400), and what the stored references then point at.
-/
import CGV.Model.Mol
namespace CGV
open Mol

/-- one stored annotation `(ligand, anchor, other anchor, other ligand, class)`; `trans = false` is cis -/
structure EZ where
  l1 : Key
  a1 : Key
  a2 : Key
  l2 : Key
  trans : Bool
deriving DecidableEq, Repr, Inhabited

/-- the slash mark an atom carries (`ez_isomer_class`) -/
def ezTok (m : Mol) (k : Key) : Option String :=
  (m.atom? k).bind fun a => a.extra.lookup "ez_isomer_class"

/-- `_interpret_cis_trans_tokens`: the eight cases; `none` = the assertion fails -/
def ezClass (ligandBefore : Bool) (t1 t2 : String) : Option Bool :=
  if ligandBefore then
    if t1 == "/" && t2 == "/" then some true
    else if t1 == "\\" && t2 == "/" then some false
    else if t1 == "/" && t2 == "\\" then some false
    else if t1 == "\\" && t2 == "\\" then some true
    else none
  else
    if t1 == "\\" && t2 == "/" then some true
    else if t1 == "/" && t2 == "/" then some false
    else if t1 == "/" && t2 == "\\" then some true
    else if t1 == "\\" && t2 == "\\" then some false
    else none

/-- marked neighbours of an anchor that are not the other anchor: `[neighbor, anchor, mark]` -/
def taggedOn (m : Mol) (anchor other : Key) : List (Key × Key × String) :=
  (m.neighbors anchor).filterMap fun n =>
    if n == anchor || n == other then none else (ezTok m n).map fun t => (n, anchor, t)

/-- `_check_for_ez_conflicts` (and the two-element unpacking in front of it) -/
def ezConflict (anchor : Key) (tagged : List (Key × Key × String)) : Bool :=
  match tagged with
  | [] => false
  | [_] => false
  | [(n1, _, t1), (n2, _, t2)] =>
    if (n1 < anchor && n2 < anchor) || (n1 > anchor && n2 > anchor) then t1 == t2 else t1 != t2
  | _ => true

/-- the pairs one double bond contributes -/
def ezPairsOf (m : Mol) (e : Edge) : Py (List ((Key × Key × String) × (Key × Key × String))) :=
  if e.order2 != 4 then .ok []
  else
    let m1 := (ezTok m e.a).isSome
    let m2 := (ezTok m e.b).isSome
    if m1 != m2 then .error .value
    else
      let t1 := taggedOn m e.a e.b
      let t2 := taggedOn m e.b e.a
      if ezConflict e.a t1 || ezConflict e.b t2 then .error .value
      else .ok (t1.flatMap fun s1 => t2.map fun s2 => (s1, s2))

def ezOfPair (p : (Key × Key × String) × (Key × Key × String)) : Py EZ :=
  match ezClass (decide (p.1.1 < p.1.2.1)) p.1.2.2 p.2.2.2 with
  | some c => .ok ⟨p.1.1, p.1.2.1, p.2.2.1, p.2.1, c⟩
  | none => .error .other

/-- all annotations of the molecule, one per (ligand on first anchor, ligand on second anchor) -/
def ezAll (m : Mol) : Py (List EZ) := do
  let pairs ← m.edgesIter.mapM (ezPairsOf m)
  pairs.flatten.mapM ezOfPair

def EZ.flip (z : EZ) : EZ := ⟨z.l2, z.a2, z.a1, z.l1, z.trans⟩

def EZ.le (x y : EZ) : Bool :=
  if x.l1 != y.l1 then x.l1 < y.l1
  else if x.a1 != y.a1 then x.a1 < y.a1
  else if x.a2 != y.a2 then x.a2 < y.a2
  else if x.l2 != y.l2 then x.l2 < y.l2
  else (!x.trans || y.trans)

def ezInsert (x : EZ) : List EZ → List EZ
  | [] => [x]
  | y :: ys => if x.le y then x :: y :: ys else y :: ezInsert x ys

def ezSort (l : List EZ) : List EZ := l.foldr ezInsert []

def EZ.text (z : EZ) : String :=
  "[" ++ toString z.l1 ++ "," ++ toString z.a1 ++ "," ++ toString z.a2 ++ "," ++ toString z.l2 ++ "," ++
    (if z.trans then "trans" else "cis") ++ "]"

/-- what a ligand stores (canonical order; the implementation's order is a set-iteration order) -/
def ezStored (all : List EZ) (k : Key) : List EZ :=
  ezSort ((all.filter (·.l1 == k)) ++ ((all.map EZ.flip).filter (·.l1 == k)))

/-- `annotate_ez_isomers_cgsmiles`: annotations stored on the ligands, marks removed -/
def annotateEZ (m : Mol) : Py Mol := do
  let all ← ezAll m
  pure { m with atoms := m.atoms.map fun a =>
    let own := ezStored all a.key
    let x := a.extra.filter fun kv => kv.1 != "ez_isomer_class"
    { a with extra := if own.isEmpty then x
                      else x ++ [("ez_isomer", "[" ++ ",".intercalate (own.map EZ.text) ++ "]")] } }

end CGV
