/-
  CGV.Model.Dialect — annotation parsing (dialects.py:18-115 `_parse_dialect_string` with the two
  signatures generated from the source into `Gen.baseDialect` / `Gen.fragDialect`).

  Modelled external: `inspect.Signature.bind` for positional-or-keyword parameters with defaults
  plus `**kwargs`, and `float()` on the decimal grammar.
-/
import CGV.Gen.Tables
namespace CGV
open Gen

/-- an annotation value: text kept verbatim, or a number parsed from a decimal literal,
    `mant * 10^exp10` (exact; the harness compares it with the Python float) -/
inductive AVal where
  | str (s : Str)
  | num (mant : Int) (exp10 : Int)
deriving DecidableEq, Repr, Inhabited

abbrev Attrs := List (Str × AVal)

/-- prepend one character to an already split text -/
def splitOnCons (sep c : Char) : List Str → List Str
  | [] => [[]]            -- unreachable: splitOn never returns []
  | hd :: tl => if c == sep then [] :: hd :: tl else (c :: hd) :: tl

/-- `str.split(sep)` for a one-character separator -/
def splitOn (sep : Char) : Str → List Str
  | [] => [[]]
  | c :: cs => splitOnCons sep c (splitOn sep cs)

def digitsOf (s : Str) : Str × Str := (s.takeWhile Char.isDigit, s.dropWhile Char.isDigit)

/-- `float(s)` on the grammar `[+-]? (d+ (. d*)? | . d+) ([eE] [+-]? d+)?`.
    `.ok none` = Python raises ValueError; `.error unsupported` = outside the modelled lexical domain
    (inf, nan, underscores, blanks, huge exponents). -/
def parseFloat (s : Str) : Py (Option (Int × Int)) :=
  if s.any fun c => !(c.isDigit || c == '+' || c == '-' || c == '.' || c == 'e' || c == 'E') then
    if s.any fun c => c.isAlpha || c == '_' || c == ' ' || c == '\t' || c == '\n' || c.toNat > 127 then
      (if s.all fun c => c.isAlpha && !(("infatyINFATY".toList).contains c) || c.isDigit || c == '.' then .ok none
       else .error .unsupported)
    else .ok none
  else
    let (neg, r) := match s with
      | '+' :: r => (false, r)
      | '-' :: r => (true, r)
      | r => (false, r)
    let (ip, r1) := digitsOf r
    let (fp, r2, hasDot) := match r1 with
      | '.' :: r' => let (f, r'') := digitsOf r'; (f, r'', true)
      | _ => ([], r1, false)
    if ip.isEmpty && fp.isEmpty then .ok none
    else
      let _ := hasDot
      let expPart : Option (Option Int) := match r2 with
        | [] => some (some 0)
        | e :: r3 =>
          if e == 'e' || e == 'E' then
            let (eneg, r4) := match r3 with
              | '+' :: r => (false, r)
              | '-' :: r => (true, r)
              | r => (false, r)
            let (ed, r5) := digitsOf r4
            if ed.isEmpty || !r5.isEmpty then some none
            else some (some (if eneg then - (digitsVal ed : Int) else (digitsVal ed : Int)))
          else some none
      match expPart with
      | some (some e) =>
        if e > 300 || e < -300 || ip.length + fp.length > 17 then .error .unsupported
        else
          let mant : Int := digitsVal (ip ++ fp)
          .ok (some (if neg then -mant else mant, e - fp.length))
      | _ => .ok none

/-- one entry `key=value` / `value`; two or more `=` is a SyntaxError -/
def classifyEntry (entry : Str) : Py (Option Str × Str) :=
  if entry.count annotationAssign > 1 then .error .syntax
  else match splitOn annotationAssign entry with
    | [v] => .ok (none, v)
    | [k, v] => .ok (some k, v)
    | _ => .error .syntax

/-- positional values and keyword entries (a repeated keyword keeps its first position and takes the
    last value, as a Python dict does) -/
def collect (s : Str) : Py (List Str × List (Str × Str)) :=
  if s.isEmpty then .ok ([], [])
  else (splitOn annotationSep s).foldlM (init := (([] : List Str), ([] : List (Str × Str)))) fun acc entry => do
    match ← classifyEntry entry with
    | (none, v) => pure (acc.1 ++ [v], acc.2)
    | (some k, v) => pure (acc.1, pySet acc.2 k v)

/-- `Signature.bind(*args, **kwargs)`: parameter ↦ supplied text (in parameter order), and the
    surplus keywords. TypeError (reported by the caller as SyntaxError) for surplus positionals, a
    parameter given twice, or surplus keywords without `**kwargs`. -/
def bindSig (sig : DialectSig) (args : List Str) (kwargs : List (Str × Str)) :
    Py (List (AnnoParam × Str) × List (Str × Str)) :=
  if args.length > sig.params.length then .error .syntax
  else
    let positional := (sig.params.zip args)
    -- keyword that names a parameter already filled positionally
    if kwargs.any fun kv => (positional.any fun pa => pa.1.name == kv.1) then .error .syntax
    else
      let extra := kwargs.filter fun kv => !(sig.params.map (·.name)).contains kv.1
      if !sig.acceptKwargs && !extra.isEmpty then .error .syntax
      else
        -- the VAR_KEYWORD parameter itself is called `kwargs`; a keyword of that name is a surplus keyword
        let bound := sig.params.filterMap fun p =>
          (positional.find? fun pa => pa.1.name == p.name).or ((kwargs.lookup p.name).map fun v => (p, v))
        .ok (bound, extra)

/-- check_and_cast_types on a supplied value -/
def castVal (p : AnnoParam) (v : Str) : Py AVal :=
  match p.type with
  | .str => .ok (.str v)
  | .float => do
    match ← parseFloat v with
    | some (m, e) => pure (.num m e)
    | none => throw PyErr.type

def defaultVal : AnnoDefault → AVal
  | .str s => .str s
  | .num n _ => .num n 0

/-- everything after `Signature.bind`: cast, defaults, drop None, rename, merge free keywords -/
def finishAnno (sig : DialectSig) (bound : List (AnnoParam × Str)) (extra : List (Str × Str)) : Py Attrs := do
  -- cast supplied values (in parameter order)
  let supplied ← bound.mapM fun (p, v) => do pure (p.name, ← castVal p v)
  -- apply_defaults, then drop None
  let arguments : Attrs := sig.params.filterMap fun p =>
    match supplied.lookup p.name with
    | some v => some (p.name, v)
    | none => (p.default.map fun d => (p.name, defaultVal d))
  -- renaming: pop + re-insert at the end, in the order of the renaming table
  let renamed := sig.renames.foldl (fun (acc : Attrs) (old, new) =>
    match acc.lookup old with
    | some v => pySet (pyDel acc old) new v
    | none => acc) arguments
  -- free keywords first, then the arguments (which override equal keys)
  let out : Attrs := extra.foldl (fun acc (k, v) => pySet acc k (.str v)) []
  pure (renamed.foldl (fun acc (k, v) => pySet acc k v) out)

/-- dialects.py `_parse_dialect_string` -/
def parseAnno (sig : DialectSig) (s : Str) : Py Attrs := do
  let (args, kwargs) ← collect s
  let (bound, extra) ← bindSig sig args kwargs
  finishAnno sig bound extra

/-- `parse_graph_base_node` -/
def parseBase (s : Str) : Py Attrs := parseAnno baseDialect s
/-- `_fragment_node_parser` -/
def parseFrag (s : Str) : Py Attrs := parseAnno fragDialect s

end CGV
