/-
  CGV.Model.Coords — the in-scope logic of the RDKit bridge and of forward mapping:
  node ↔ atom index map, position write-back, bead position.  RDKit itself is external: its atom
  order contract (R0) and its coordinates enter as data.
-/
import CGV.Gen.Tables
namespace CGV

/-- rdkit.py:75-84 `node_to_idx`: atoms are added in node iteration order, `AddAtom` returns 0,1,2,… -/
def nodeToIdx (nodes : List Nat) : List (Nat × Nat) := nodes.zipIdx

/-- rdkit.py:119-123: the position of RDKit atom `ndx` is stored on the `ndx`-th node in iteration order -/
def writeBack {P : Type} (nodes : List Nat) (pos : List P) : List (Nat × P) := nodes.zip pos

/-- exact rationals n/d -/
abbrev Q := Int × Nat
def qAdd (a b : Q) : Q := (a.1 * b.2 + b.1 * a.2, a.2 * b.2)
def qMul (a b : Q) : Q := (a.1 * b.1, a.2 * b.2)
def qZero : Q := (0, 1)

/-- coordinates.py:8-25 `forward_map_molecule` for one bead: Σ wᵢ·pᵢ / Σ wᵢ per component;
    `none` when the weights sum to zero (division by zero) -/
def bead (members : List (Q × List Q)) : Option (List (Q × Q)) :=
  let wsum := members.foldl (fun acc m => qAdd acc m.1) qZero
  if wsum.1 == 0 then none
  else
    let dims := (members.head?.map (·.2.length)).getD 0
    some ((List.range dims).map fun i =>
      (members.foldl (fun acc m => qAdd acc (qMul m.1 (m.2.getD i qZero))) qZero, wsum))

/-- RDKit `GetBondTypeAsDouble` on the bond types the bridge uses, in half units (modelled external) -/
def bondTypeAsDouble2 : String → Option Nat
  | "ZERO" => some 0 | "SINGLE" => some 2 | "DOUBLE" => some 4 | "TRIPLE" => some 6
  | "QUADRUPLE" => some 8 | "AROMATIC" => some 3 | _ => none

end CGV
