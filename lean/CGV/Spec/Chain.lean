/-
  CGV.Spec.Chain — the linear part of the documented graph grammar:
      graph ::= '{' node (bond? node)* '}'      node ::= '[#' name ']'      bond ∈ . - = # $
  with its rendering and its denotation (nodes numbered in order of appearance, consecutive nodes
  joined with the written order, default 1).
-/
import CGV.Model.ReadCG
namespace CGV
open Gen

structure LItem where
  name : Str
  /-- order of the bond to the previous node -/
  order : Nat
deriving Repr, DecidableEq

/-- the bond symbol written for an order: nothing for a single bond -/
def symText (o : Nat) : Str :=
  if o == 1 then [] else match symbolToOrder.find? (·.2 == o) with
    | some p => [p.1]
    | none => []

def nodeText (name : Str) : Str := '[' :: '#' :: (name ++ [']'])

def renderTail : List LItem → Str
  | [] => ['}']
  | it :: its => symText it.order ++ nodeText it.name ++ renderTail its

def renderChain (first : Str) (its : List LItem) : Str := '{' :: (nodeText first ++ renderTail its)

/-- attributes of a node written without annotations (documented defaults) -/
def defaultAttrs (name : Str) : Attrs :=
  [("fragname".toList, .str name), ("weight".toList, .num 1 0), ("charge".toList, .num 0 0)]

/-- nodes `k, k+1, …` appended to `g`, each bonded to its predecessor with the written order -/
def pathGraphAux (g : CGGraph) (prev k : Nat) : List LItem → CGGraph
  | [] => g
  | it :: its => pathGraphAux ((g.addNode k (defaultAttrs it.name)).addEdge prev k (some it.order)) k (k + 1) its

def pathGraph (first : Str) (its : List LItem) : CGGraph :=
  pathGraphAux (({} : CGGraph).addNode 0 (defaultAttrs first)) 0 1 its

end CGV

namespace CGV
open Gen

/-- a chain item that may carry a node multiplier `|digits` -/
structure MItem where
  name : Str
  order : Nat
  /-- the digits written after `|`, if any -/
  mult : Option Str
deriving Repr, DecidableEq

def multText : Option Str → Str
  | none => []
  | some m => '|' :: m

def copies : Option Str → Nat
  | none => 1
  | some m => digitsVal m

/-- string of the part of a chain after a node (the node's own multiplier first) -/
def renderTailM : List MItem → Str
  | [] => ['}']
  | it :: its => symText it.order ++ nodeText it.name ++ multText it.mult ++ renderTailM its

def renderChainM (first : Str) (fm : Option Str) (its : List MItem) : Str :=
  '{' :: (nodeText first ++ multText fm ++ renderTailM its)

/-- written out: the first copy keeps the incoming order, the other copies follow with order 1 -/
def expandItem (name : Str) (order : Nat) (m : Option Str) : List LItem :=
  ⟨name, order⟩ :: List.replicate (copies m - 1) ⟨name, 1⟩

def expandM (its : List MItem) : List LItem := its.flatMap fun it => expandItem it.name it.order it.mult

end CGV
