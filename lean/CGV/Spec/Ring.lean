/-
  CGV.Spec.Ring — chains with ring bonds, as documented:

      graph ::= '{' node marks (bond? node marks)* '}'
      marks ::= (bond? marker)*          marker ::= digit | '%' digit digit

  A marker that is not open opens a ring at its node, remembering the bond order written in front of it;
  a marker that is open closes the ring: a bond between the two nodes with the remembered order.  A ring
  bond that duplicates an existing bond, and a marker left open at the end, are errors (SyntaxError).
-/
import CGV.Spec.Chain
namespace CGV
open Gen

structure RMark where
  id : Nat
  /-- order written in front of the marker (1: nothing written) -/
  order : Nat
  /-- written `%dd` -/
  pct : Bool
deriving Repr, DecidableEq

def ringDigit (n : Nat) : Char := Char.ofNat (48 + n)

def markDigits (m : RMark) : Str :=
  if m.pct then ['%', ringDigit (m.id / 10), ringDigit (m.id % 10)] else [ringDigit m.id]

def markText (m : RMark) : Str := symText m.order ++ markDigits m

def marksText : List RMark → Str
  | [] => []
  | m :: ms => markText m ++ marksText ms

structure RItem where
  name : Str
  /-- order of the bond to the previous node -/
  order : Nat
  rings : List RMark
deriving Repr, DecidableEq

def renderRTail : List RItem → Str
  | [] => ['}']
  | it :: its => symText it.order ++ nodeText it.name ++ marksText it.rings ++ renderRTail its

def renderRing (first : Str) (frings : List RMark) (its : List RItem) : Str :=
  '{' :: (nodeText first ++ marksText frings ++ renderRTail its)

/-- the ring markers written at node `cur`, in order: open markers `marker ↦ (node, order)` and the ring
    bonds `(cur, node, order)` to make -/
def toggle (opened : List (Nat × Nat × Nat)) (cur : Nat) : List RMark → List (Nat × Nat × Nat) →
    List (Nat × Nat × Nat) × List (Nat × Nat × Nat)
  | [], edges => (opened, edges)
  | m :: rest, edges =>
    match opened.lookup m.id with
    | some (node, ord) => toggle (pyDel opened m.id) cur rest (edges ++ [(cur, node, ord)])
    | none => toggle (opened ++ [(m.id, cur, m.order)]) cur rest edges

/-- ring bonds are added one by one; one that joins two nodes that are bonded already is an error -/
def addRingEdges (g : CGGraph) (es : List (Nat × Nat × Nat)) : Py CGGraph :=
  es.foldlM (fun (g : CGGraph) (e : Nat × Nat × Nat) =>
    if g.hasEdge e.1 e.2.1 then throw PyErr.syntax else pure (g.addEdge e.1 e.2.1 (some e.2.2))) g

def ringGraphAux (g : CGGraph) (opened : List (Nat × Nat × Nat)) (prev k : Nat) : List RItem → Py CGGraph
  | [] => if opened.isEmpty then pure g else throw PyErr.syntax
  | it :: its => do
    let g1 := (g.addNode k (defaultAttrs it.name)).addEdge prev k (some it.order)
    let r := toggle opened k it.rings []
    let g2 ← addRingEdges g1 r.2
    ringGraphAux g2 r.1 k (k + 1) its

def ringGraph (first : Str) (frings : List RMark) (its : List RItem) : Py CGGraph := do
  let g0 := ({} : CGGraph).addNode 0 (defaultAttrs first)
  let r := toggle [] 0 frings []
  let g1 ← addRingEdges g0 r.2
  ringGraphAux g1 r.1 0 1 its

end CGV
