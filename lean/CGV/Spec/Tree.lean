/-
  CGV.Spec.Tree — the branching part of the documented graph grammar, written as a flat list of
  items (this is how the text is laid out):

      graph ::= '{' node item* '}'
      item  ::= bond? '('? node ')'*          bond ∈ . = # $        node ::= '[#' name ']'

  An item that is preceded by `(` opens a branch at the node it is bonded to; every `)` written after
  it closes the innermost open branch, so that what follows is bonded to the node at which that
  branch was opened.  The denotation below is the obvious stack machine: nodes are numbered in order
  of appearance, every item is bonded to the current attachment point with the order written in
  front of it (in front of the parenthesis if there is one).
-/
import CGV.Spec.Chain
namespace CGV
open Gen

structure TItem where
  name : Str
  /-- order of the bond to the attachment point -/
  order : Nat
  /-- written as `bond ( node`: the node starts a branch -/
  opens : Bool
  /-- number of `)` written directly after the node -/
  closes : Nat
deriving Repr, DecidableEq

def openText (b : Bool) : Str := if b then ['('] else []

def renderItem (it : TItem) : Str :=
  symText it.order ++ openText it.opens ++ nodeText it.name ++ List.replicate it.closes ')'

def renderItems : List TItem → Str
  | [] => ['}']
  | it :: its => renderItem it ++ renderItems its

def renderTree (first : Str) (its : List TItem) : Str := '{' :: (nodeText first ++ renderItems its)

/-- closing `k` branches: the attachment point becomes the node at which the `k`-th innermost
    branch was opened -/
def popK : Nat → List Nat → Nat → List Nat × Nat
  | 0, stack, prev => (stack, prev)
  | k + 1, stack, prev =>
    match stack.getLast? with
    | some a => popK k stack.dropLast a
    | none => (stack, prev)

/-- nodes `k, k+1, …` appended to `g`; `stack` = nodes at which the open branches started, `prev` =
    current attachment point -/
def treeGraphAux (g : CGGraph) (stack : List Nat) (prev k : Nat) : List TItem → CGGraph
  | [] => g
  | it :: its =>
    let g1 := (g.addNode k (defaultAttrs it.name)).addEdge prev k (some it.order)
    let stack1 := if it.opens then stack ++ [prev] else stack
    let r := popK it.closes stack1 k
    treeGraphAux g1 r.1 r.2 (k + 1) its

def treeGraph (first : Str) (its : List TItem) : CGGraph :=
  treeGraphAux (({} : CGGraph).addNode 0 (defaultAttrs first)) [] 0 1 its

/-- no `)` without an open branch -/
def Balanced : Nat → List TItem → Prop
  | _, [] => True
  | depth, it :: its =>
    it.closes ≤ depth + (if it.opens then 1 else 0) ∧ Balanced (depth + (if it.opens then 1 else 0) - it.closes) its

/-- a chain is a tree without parentheses -/
def ofChain (its : List LItem) : List TItem := its.map fun it => ⟨it.name, it.order, false, 0⟩

end CGV
