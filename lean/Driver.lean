/-
  Line-protocol driver: one JSON request per line on stdin, one JSON reply per line on stdout.
  Executes the *model* functions the theorems are about on the inputs the harness also feeds to
  the real implementation.
-/
import CGV.DriverJson
import CGV.Gen.Funcs
import CGV.Model.Sample
import CGV.Model.ReadCG
import CGV.Model.Write
import CGV.Model.Strip
import CGV.Model.FragCG
import CGV.Model.Coords
import CGV.Model.Layout
open Lean CGV CGV.J

def openOf' (j : Json) : Except String OpenSt :=
  listOf (pairOf natOf (listOf (pairOf natOf (listOf ofStr)))) j

def openTo (s : OpenSt) : Json :=
  Json.arr (s.map fun (k, f) => Json.arr #[nat k,
    Json.arr (f.map fun (a, ds) => Json.arr #[nat a, Json.arr (ds.map str).toArray]).toArray]).toArray

def cutTo (c : Cut) : Json := Json.arr #[nat c.a, nat c.b, str c.da, str c.db]

def avalTo : AVal → Json
  | .str s => Json.mkObj [("s", str s)]
  | .num m e => Json.mkObj [("n", Json.arr #[int m, int e])]

def attrsTo (a : Attrs) : Json := Json.arr (a.map fun (k, v) => Json.arr #[str k, avalTo v]).toArray

def cgTo (g : CGGraph) : Json :=
  let es := g.edges.toArray.qsort fun x y =>
    let kx := (min x.a x.b, max x.a x.b); let ky := (min y.a y.b, max y.a y.b)
    kx.1 < ky.1 || (kx.1 == ky.1 && kx.2 < ky.2)
  Json.mkObj [("n", Json.arr (g.nodes.map fun (k, a) => Json.arr #[nat k, attrsTo a]).toArray),
    ("e", Json.arr (es.map fun e => Json.arr #[nat (min e.a e.b), nat (max e.a e.b),
      match e.order with | some o => nat o | none => Json.null]))]

def handle (j : Json) : Except String Json := do
  let op ← (← j.getObjVal? "op").getStr?
  match op with
  | "compat" =>
    let l ← ofStr (← j.getObjVal? "l"); let r ← ofStr (← j.getObjVal? "r")
    let legacy ← boolOf (← j.getObjVal? "legacy")
    match Gen.compatible l r legacy with
    | .ok b => pure (Json.mkObj [("ok", Json.bool b), ("spec", Json.bool (compat legacy l r))])
    | .error e => pure (errTo e)
  | "edges" =>
    let legacy ← boolOf (← j.getObjVal? "legacy")
    let es ← listOf (fun e => do
      let a ← arr e
      pure ((← natOf a[0]!, ← natOf a[1]!, ← natOf a[2]!) : MEdge)) (← j.getObjVal? "edges")
    let st ← openOf' (← j.getObjVal? "open")
    let r := edgesFrom (compat legacy) es st
    pure (Json.mkObj [("ok", Json.mkObj [("cuts", Json.arr (r.2.map cutTo).toArray), ("open", openTo r.1)])])
  | "resolve" =>
    let legacy ← boolOf (← j.getObjVal? "legacy")
    let allAtom ← boolOf (← j.getObjVal? "all_atom")
    let mg ← metaOf (← j.getObjVal? "meta")
    let fd ← fragsOf (← j.getObjVal? "frags")
    match phaseA (compat legacy) allAtom mg fd with
    | .error e => pure (Json.mkObj [("err", Json.str e.name), ("phase", Json.str "A")])
    | .ok (pre, _) =>
      let patched ← match (j.getObjVal? "arom").toOption with
        | some a => if a.isNull then pure pre else do pure (applyArom pre (← aromOf a))
        | none => pure pre
      match phaseB allAtom mg patched with
      | .error e => pure (Json.mkObj [("err", Json.str e.name), ("phase", Json.str "B"), ("pre", molTo pre)])
      | .ok out =>
        pure (Json.mkObj [("ok", Json.mkObj [("pre", molTo pre), ("fine", molTo out.fine),
          ("coarse", Json.arr (out.coarse.map fun (k, ks) => Json.arr #[nat k, keysTo ks]).toArray)]),
          ("hyp", Json.mkObj [("frags_wf", Json.bool (fragsWFb fd))])])
  | "readcg" =>
    let t ← ofStr (← j.getObjVal? "s")
    match readCG t with
    | .ok g => pure (Json.mkObj [("ok", cgTo g)])
    | .error e => pure (errTo e)
  | "anno" =>
    let t ← ofStr (← j.getObjVal? "s")
    let d ← (← j.getObjVal? "dialect").getStr?
    match (if d == "base" then parseBase t else parseFrag t) with
    | .ok a => pure (Json.mkObj [("ok", attrsTo a)])
    | .error e => pure (errTo e)
  | "strip" =>
    let t ← ofStr (← j.getObjVal? "s")
    match strip t with
    | .ok o => pure (Json.mkObj [("ok", Json.mkObj [("smile", str o.smile),
        ("bonding", Json.arr (o.bonding.map fun (k, ds) => Json.arr #[nat k, Json.arr (ds.map str).toArray]).toArray),
        ("ez", Json.arr (o.ez.map fun (k, c) => Json.arr #[nat k, str [c]]).toArray),
        ("attrs", Json.arr (o.attrs.map fun (k, a) => Json.arr #[nat k, attrsTo a]).toArray)])])
    | .error e => pure (errTo e)
  | "readfragcg" =>
    let t ← ofStr (← j.getObjVal? "s")
    match readFragCG t with
    | .ok o => pure (Json.mkObj [("ok", Json.mkObj [("g", cgTo o.g),
        ("bonding", Json.arr (o.bonding.map fun (k, ds) => Json.arr #[nat k, Json.arr (ds.map str).toArray]).toArray),
        ("attrs", Json.arr (o.attrs.map fun (k, a) => Json.arr #[nat k, attrsTo a]).toArray)])])
    | .error e => pure (errTo e)
  | "genfn" =>
    -- the leaf functions translated from the source (or their reference model when the translator fell back)
    let fn ← (← j.getObjVal? "fn").getStr?
    match fn with
    | "compatible" =>
      match Gen.compatible (← ofStr (← j.getObjVal? "left")) (← ofStr (← j.getObjVal? "right")) (← boolOf (← j.getObjVal? "legacy")) with
      | .ok b => pure (Json.mkObj [("ok", Json.bool b)])
      | .error e => pure (errTo e)
    | "format_bonding" =>
      match Gen.formatBonding (← listOf ofStr (← j.getObjVal? "bonding")) with
      | .ok t => pure (Json.mkObj [("ok", str t)])
      | .error e => pure (errTo e)
    | "find_complementary" =>
      match Gen.findComplementary (← ofStr (← j.getObjVal? "desc")) (← listOf ofStr (← j.getObjVal? "eligible")) with
      | .ok l => pure (Json.mkObj [("ok", Json.arr (l.map str).toArray)])
      | .error e => pure (errTo e)
    | "set_bond_order_defaults_dict" =>
      match Gen.setBondOrderDefaultsDict (Prob := Nat) (← listOf (pairOf ofStr natOf) (← j.getObjVal? "bonding")) with
      | .ok l => pure (Json.mkObj [("ok", Json.arr (l.map fun (k, v) => Json.arr #[str k, nat v]).toArray)])
      | .error e => pure (errTo e)
    | "set_bond_order_defaults_list" =>
      match Gen.setBondOrderDefaultsList (← listOf ofStr (← j.getObjVal? "bonding")) with
      | .ok l => pure (Json.mkObj [("ok", Json.arr (l.map str).toArray)])
      | .error e => pure (errTo e)
    | "find_next_character" =>
      match Gen.findNextCharacter (← ofStr (← j.getObjVal? "string")) (← listOf ofStr (← j.getObjVal? "chars")) (← natOf (← j.getObjVal? "start")) with
      | .ok n => pure (Json.mkObj [("ok", nat n)])
      | .error e => pure (errTo e)
    | _ => throw s!"unknown generated function {fn}"
  | "splitfrags" =>
    let t ← ofStr (← j.getObjVal? "s")
    pure (Json.mkObj [("ok", Json.arr ((splitFragments t).map fun (n, x) => Json.arr #[str n, str x]).toArray)])
  | "writeback" =>
    let nodes ← listOf natOf (← j.getObjVal? "nodes")
    let pos ← listOf (listOf (fun x => x.getStr?)) (← j.getObjVal? "pos")
    pure (Json.mkObj [("ok", Json.arr ((writeBack nodes pos).map fun (k, p) =>
      Json.arr #[nat k, Json.arr (p.map Json.str).toArray]).toArray)])
  | "beads" =>
    let q := fun (x : Json) => pairOf intOf natOf x
    let beads ← listOf (pairOf natOf (listOf (fun m => do
      let a ← arr m
      pure ((← q a[1]!, ← listOf q a[2]!) : Q × List Q)))) (← j.getObjVal? "beads")
    pure (Json.mkObj [("ok", Json.arr (beads.map fun (k, ms) =>
      Json.arr #[nat k, match bead ms with
        | none => Json.null
        | some comps => Json.arr (comps.map fun (n, d) =>
            -- (Σ w p) / (Σ w) as one fraction
            Json.arr #[int (n.1 * d.2), int (n.2 * d.1)]).toArray]).toArray)])
  | "targetdist" =>
    let ds ← listOf natOf (← j.getObjVal? "d")
    pure (Json.mkObj [("ok", Json.arr (ds.map fun d => nat (targetDistF d).toBits.toNat).toArray)])
  | "rescale" =>
    let fl := fun (x : Json) => do let n ← x.getNum?; pure n.toFloat
    let pos ← listOf (fun x => do
      let a ← arr x
      pure ((← natOf a[0]!, (← fl a[1]!, ← fl a[2]!)) : Nat × (Float × Float))) (← j.getObjVal? "pos")
    let edges ← listOf (pairOf natOf natOf) (← j.getObjVal? "edges")
    let b ← fl (← j.getObjVal? "b")
    pure (Json.mkObj [("ok", Json.arr ((rescaleF pos edges b).map fun (k, p) =>
      Json.arr #[nat k, nat p.1.toBits.toNat, nat p.2.toBits.toNat]).toArray)])
  | "write" =>
    let smiles ← boolOf (← j.getObjVal? "smiles")
    let nodes ← listOf (fun x => do
      let a ← arr x
      let name ← ofStr a[1]!
      pure ({ key := ← natOf a[0]!, text := if smiles then name else ['[', '#'] ++ name ++ [']'],
              bonding := ← listOf ofStr a[2]!, aromatic := ← boolOf a[3]! } : WNode)) (← j.getObjVal? "nodes")
    let edges ← listOf (fun x => do
      let a ← arr x
      pure (⟨← natOf a[0]!, ← natOf a[1]!, ← natOf a[2]!⟩ : WEdge)) (← j.getObjVal? "edges")
    let succ ← listOf (pairOf natOf (listOf natOf)) (← j.getObjVal? "succ")
    let ring ← listOf (pairOf natOf natOf) (← j.getObjVal? "ring")
    match writeGraph ⟨nodes, edges, succ, ring, smiles⟩ with
    | .ok t => pure (Json.mkObj [("ok", str t)])
    | .error e => pure (errTo e)
  | "sample" =>
    let frags ← fragsOf (← j.getObjVal? "frags")
    let react := fun (x : Json) => listOf (pairOf ofStr boolOf) x
    let poly ← react (← j.getObjVal? "poly")
    let fragR ← listOf (pairOf ofStr react) (← j.getObjVal? "fragr")
    let term ← listOf ofStr (← j.getObjVal? "terminals")
    let rat := fun (x : Json) => pairOf intOf natOf x
    let masses ← listOf (pairOf ofStr rat) (← j.getObjVal? "masses")
    let allAtom ← boolOf (← j.getObjVal? "all_atom")
    let target ← rat (← j.getObjVal? "target")
    let rng ← listOf natOf (← j.getObjVal? "rng")
    let startName ← match (j.getObjVal? "start_name").toOption with
      | some x => if x.isNull then pure none else do pure (some (← ofStr x))
      | none => pure none
    let startDec ← match (j.getObjVal? "start_decision").toOption with
      | some x => if x.isNull then pure none else do pure (some (← natOf x))
      | none => pure none
    match mkCfg frags poly fragR term masses allAtom with
    | .error e => pure (Json.mkObj [("err", Json.str e.name), ("phase", Json.str "init")])
    | .ok cfg =>
      match sampleA cfg target startDec startName rng with
      | .error e => pure (Json.mkObj [("err", Json.str e.name), ("phase", Json.str "grow")])
      | .ok (pre, log, unused) =>
        let patched ← match (j.getObjVal? "arom").toOption with
          | some a => if a.isNull then pure pre else do pure (applyArom pre (← aromOf a))
          | none => pure pre
        let logJ := Json.arr (log.map fun g => Json.arr #[str g.fragname, str g.site, str g.partner, nat g.source, nat g.target]).toArray
        match sampleB cfg patched with
        | .error e => pure (Json.mkObj [("err", Json.str e.name), ("phase", Json.str "finish"), ("pre", molTo pre), ("log", logJ)])
        | .ok fin =>
          pure (Json.mkObj [("ok", Json.mkObj [("pre", molTo pre), ("final", molTo fin), ("log", logJ),
            ("unused", keysTo unused)]),
            ("hyp", Json.mkObj [("frags_wf", Json.bool (fragsWFb cfg.frags && decide (cfg.frags.map (·.1)).Nodup)),
                                ("cfg_wf", Json.bool (cfgWFb cfg))])])
  | _ => throw s!"unknown op {op}"

partial def loop (h : IO.FS.Stream) (out : IO.FS.Stream) : IO Unit := do
  let line ← h.getLine
  if line.isEmpty then return ()
  let reply := match Json.parse line with
    | .error e => Json.mkObj [("fail", Json.str s!"parse: {e}")]
    | .ok j => match handle j with
      | .ok r => r
      | .error e => Json.mkObj [("fail", Json.str e)]
  out.putStrLn reply.compress
  out.flush
  loop h out

def main : IO Unit := do loop (← IO.getStdin) (← IO.getStdout)
