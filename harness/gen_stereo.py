"""
Molecules with one or two stereo double bonds and labelled stereocentres; their description as one
fragment, cut at the double bonds, cut at single bonds elsewhere; every order of the fragments in
the base graph (random DFS rendering of the fragment tree).

Ground truth is geometric: every marked substituent gets a side (up/down) of its double bond, the
slash marks are derived from the side and from whether the substituent is written before or after
its atom; two substituents on different atoms of one double bond are trans iff their sides differ.
"""
import networkx as nx

import gen_mol

LIGANDS = ['F', 'Cl', 'Br', 'I', 'S', 'O', 'N', 'P']


def lt(el):
    return '[H]' if el == 'H' else el


def tok_before(side):          # substituent written before its atom:  X/C  -> X is below
    return '/' if side == 'down' else '\\'


def tok_after(side):           # substituent written after its atom:   C/X  -> X is above
    return '/' if side == 'up' else '\\'


def other(side):
    return 'down' if side == 'up' else 'up'


def build(rng, nunits=None, chiral_p=0.3, lead=None, chain_mark_p=0.0):
    """returns (pieces, expected, labels): pieces = list of text tokens of the main chain, each a dict
    {text, cut_after: bool possible, kind}, substituent stubs, expected {(elX, elY): 'cis'|'trans'}"""
    nunits = nunits or rng.choice([1, 1, 2])
    pool = rng.sample(LIGANDS, len(LIGANDS))
    expected = {}
    toks = []          # list of (text, cuttable_after) ; cuttable_after in {None, 'single', 'double'}
    stubs = []         # placeholders for unmarked substituents that may be cut off: (token index, text)
    labels = []
    alts = {}
    cuts_lig = {}

    def chain(k):
        for _ in range(k):
            if rng.random() < chiral_p and len(pool) >= 2 + 2 * units_left[0]:
                lab = rng.choice('RS')
                a, b = pool.pop(), pool.pop()
                toks.append(['[C;x=%s](%s)(%s)' % (lab, a, b), 'single'])
                labels.append((lab, sorted([a, b])))
            else:
                toks.append(['C', 'single'])
    units_left = [nunits]
    lead = rng.choice([0, 0, 1, 2]) if lead is None else lead
    chain(lead)
    for u in range(nunits):
        x, y = pool.pop(), pool.pop()
        units_left[0] -= 1
        if rng.random() < 0.15:
            x = 'H'          # an explicitly written hydrogen as marked substituent
        elif rng.random() < 0.15:
            y = 'H'
        sx, sy = rng.choice(['up', 'down']), rng.choice(['up', 'down'])
        sides_left = {x: sx}
        sides_right = {y: sy}
        has_prev = len(toks) > 0
        last_unit = u == nunits - 1
        tail = rng.choice([0, 0, 1, 2]) if last_unit else rng.choice([1, 2])
        # left atom
        # (not when that chain atom also sits on the previous double bond: pysmiles marks atoms, not bonds, and then
        #  rejects even the uncut molecule — 'Conflicting cis/trans assignment')
        far = u == 0 or (len(toks) >= 2 and toks[-2][0] == 'C')
        if has_prev and toks[-1][0] == 'C' and far and rng.random() < chain_mark_p:
            # the marked substituent is the chain atom written in front: 'C/C=' (as in CCC/C=C/F)
            sides_left = {'C': sx}
            left = tok_before(sx) + 'C'
        elif has_prev:
            left = 'C(%s%s)' % (tok_after(sx), lt(x))
        else:
            form = rng.choice(['before', 'after'])
            second = rng.random() < 0.35 and len(pool) > 2 * units_left[0]
            sub = ''
            if second:
                z = pool.pop()
                sides_left[z] = other(sx)
                sub = '(%s%s)' % (tok_after(other(sx)), z)
            elif rng.random() < 0.4:
                sub = '(C)'
                stubs.append(len(toks))
            if form == 'before':
                left = lt(x) + tok_before(sx) + 'C' + sub
                cuts_lig['left'] = (len(toks), len(lt(x)), tok_before(sx))
            else:
                # anchor first, then the substituents as branches; the last one may be written without brackets? no: '=' follows
                left = 'C(%s%s)' % (tok_after(sx), lt(x)) + sub
        toks.append([left, 'double'])
        # right atom
        if tail > 0:
            right = 'C(%s%s)' % (tok_after(sy), lt(y))
        else:
            second = rng.random() < 0.35 and len(pool) > 2 * units_left[0]
            sub = ''
            if second:
                z = pool.pop()
                sides_right[z] = other(sy)
                sub = '(%s%s)' % (tok_after(other(sy)), z)
            elif rng.random() < 0.4:
                sub = '(C)'
                stubs.append(len(toks))
            right = 'C' + sub + tok_after(sy) + lt(y)
            cuts_lig['right'] = (len(toks), len(lt(y)), tok_after(sy))
            if not second:
                alts[len(toks)] = lt(y) + tok_before(sy) + 'C' + sub
        toks.append([right, 'single' if tail > 0 else None])
        for a, sa in sides_left.items():
            for b, sb in sides_right.items():
                expected[(a, b)] = 'trans' if sa != sb else 'cis'
        chain(tail)
    toks[-1][1] = None
    return toks, stubs, expected, labels, alts, cuts_lig


def stereo_case(rng, swap_only=None, long=False):
    """long: a chain of 9-12 carbons in front of the double bond, cut at EVERY single bond and written in chain order,
    so that the description has more than ten fragments (coarse node keys with two digits)"""
    if long:
        toks, stubs, expected, labels, alts, cuts_lig = build(rng, nunits=1, chiral_p=0.0, lead=rng.randint(9, 12), chain_mark_p=0.7)
    else:
        toks, stubs, expected, labels, alts, cuts_lig = build(rng, chain_mark_p=0.25)
    whole = ''.join(('=' + t if i > 0 and toks[i - 1][1] == 'double' else t) for i, (t, c) in enumerate(toks))
    # choose cuts
    mode = 'single' if long else rng.choice(['none', 'double', 'single', 'any', 'any'])
    cuts = []
    for i, (t, c) in enumerate(toks):
        if c is None:
            continue
        if mode == 'none':
            continue
        if mode == 'double' and c != 'double':
            continue
        if mode == 'single' and c != 'single':
            continue
        if long or rng.random() < 0.6:
            cuts.append(i)
    cut_stubs = [i for i in stubs if mode in ('single', 'any') and rng.random() < 0.5 and not long]
    frags = []          # fragment texts
    base = nx.Graph()
    cur = ''
    lab = 0
    pending = None
    fid = 0
    base.add_node(0)
    stub_frags = []
    right_ligand_first = False
    strip_slash = set()
    chain_marks = []
    for i, (t, c) in enumerate(toks):
        text = t[1:] if i in strip_slash else t
        if i in cut_stubs:
            lab += 1
            text = text.replace('(C)', '[$s%d]' % lab, 1)
            stub_frags.append((fid, lab))
        if i > 0 and toks[i - 1][1] == 'double' and (i - 1) not in cuts:
            text = '=' + text
        if i > 0 and (i - 1) in cuts and toks[i - 1][1] == 'double' and i in alts and rng.random() < 0.4:
            # the right-hand fragment written substituent first:  Y/C=[$]
            text = alts[i]
            if i in cut_stubs:
                text = text.replace('(C)', '[$s%d]' % lab, 1)
            cur = text + '=' + cur[:-1]
            right_ligand_first = True
        else:
            cur += text
        if i in cuts:
            lab += 1
            if c == 'double':
                cur += '=[$c%d]' % lab
                nxt = '[$c%d]=' % lab
                order = 2
            else:
                # a slash on the cut bond is written on both sides of the cut: 'C/[$c]' + '[$c]/C=...'
                # (the same convention as for a cut-off marked substituent: 'F/[$g]' + '[$g]/C=...')
                slash = toks[i + 1][0][0] if i + 1 < len(toks) and toks[i + 1][0][:1] in '/\\' else ''
                cur += slash + '[$c%d]' % lab
                nxt = '[$c%d]' % lab
                order = 1
                if slash:
                    chain_marks.append((fid + 1, fid, True))    # (owner fragment, substituent's fragment, written first)
            frags.append(cur)
            # one bond between the two fragments (its order, 1 or 2, is the descriptors'): base edge of order 1
            base.add_edge(fid, fid + 1, order=1, double=(order == 2))
            fid += 1
            cur = nxt
    frags.append(cur)
    nmain = len(frags)
    lig_frags = []       # (owner main fragment, text, ligand-first-in-writing?)
    if mode in ('single', 'any') and not right_ligand_first and not long:
        if 'left' in cuts_lig and rng.random() < 0.35 and frags[0].startswith(toks[0][0][:cuts_lig['left'][1] + 1]):
            _, n, tk = cuts_lig['left']
            lab += 1
            lig = frags[0][:n]
            frags[0] = '[$g%d]' % lab + frags[0][n:]
            lig_frags.append((0, lig + tk + '[$g%d]' % lab, True))
        if 'right' in cuts_lig and rng.random() < 0.35:
            _, n, tk = cuts_lig['right']
            last = nmain - 1
            if frags[last].endswith(tk + toks[-1][0][-n:]) and toks[-1][1] is None and cuts_lig['right'][0] == len(toks) - 1:
                lab += 1
                lig = frags[last][-n:]
                frags[last] = frags[last][:-n] + '[$g%d]' % lab
                lig_frags.append((last, '[$g%d]' % lab + tk + lig, False))
    for owner, l in stub_frags:
        frags.append('[$s%d]C' % l)
        base.add_edge(owner, len(frags) - 1, order=1)
    lig_info = list(chain_marks)
    for owner, text, lig_first in lig_frags:
        frags.append(text)
        base.add_edge(owner, len(frags) - 1, order=1)
        lig_info.append((owner, len(frags) - 1, lig_first))
    for n in range(len(frags)):
        base.add_node(n)
    # a label shared by descriptors of DIFFERENT order on one fragment: the double-bond descriptor of a cut double
    # bond and one single-bond descriptor of the same (left-hand) fragment get the same label; the orders tell them apart
    import re as _re
    unlabelled = False
    for i, t in enumerate(frags[:-1] if len(frags) > 1 else []):
        m = _re.search(r'=\[\$(c\d+)\]$', t)
        if not m or rng.random() < 0.5:
            continue
        dlab = m.group(1)
        singles = [x for x in _re.findall(r'(?<!=)\[\$(\w+)\]', t) if x != dlab and not t.startswith('[$%s]=' % x)]
        if not singles:
            continue
        old = rng.choice(singles)
        frags = [f.replace('[$%s]' % old, '[$%s]' % dlab) for f in frags]
        unlabelled = True
    nonlegacy = False
    if len(frags) == 2 and rng.random() < 0.35:
        # one cut only: under the label-insensitive convention (legacy=False) the two halves of the pair may carry
        # different labels
        frags[1] = _re.sub(r'\[\$(\w+)\]', lambda m: '[$%sx]' % m.group(1), frags[1])
        nonlegacy = True
    names = ['F%d' % i for i in range(len(frags))]
    natural = False
    if long or rng.random() < 0.3 or len(frags) == 1:
        # the order in which the molecule was written
        bs = ''
        for i in range(nmain):
            bs += '[#%s]' % names[i]
            for owner, l in stub_frags:
                pass
            j = [k for k in range(nmain, len(frags)) if base.has_edge(i, k)]
            for k in j:
                bs += '([#%s])' % names[k]
            if i + 1 < nmain:
                bs += ''
        natural = True
    else:
        bs, _ = gen_mol.render_base(rng, base, names)
        bs = bs.strip('{}')
    s = '{' + bs + '}.{' + ','.join('#%s=%s' % (names[i], frags[i]) for i in range(len(frags))) + '}'
    # is some cut double bond listed right-hand fragment first?
    appear = {n: bs.index('[#%s]' % n) for n in names}
    reversed_double = any(d.get('double') and appear[names[min(a, b)]] > appear[names[max(a, b)]]
                          for a, b, d in base.edges(data=True))
    # a cut-off marked substituent listed on the wrong side of its atom's fragment
    reversed_ligand = any((appear[names[lf]] > appear[names[owner]]) == lig_first for owner, lf, lig_first in lig_info)
    kinds = sorted({toks[i][1] for i in cuts} | ({'stub'} if cut_stubs else set()) | ({'substituent'} if lig_frags else set()))
    return {'kind': 'stereo', 's': s, 'whole': '{[#M]}.{#M=' + whole + '}', 'cuts': kinds or ['none'],
            'natural': natural, 'reversed_double': reversed_double, 'right_ligand_first': right_ligand_first, 'reversed_ligand': reversed_ligand, 'unlabelled': unlabelled, 'expected': [[a, b, c] for (a, b), c in sorted(expected.items())],
            'labels': [[l, nb] for l, nb in labels], 'all_atom': True, **({'legacy': False, 'ctor': rng.choice(['string', 'fragment-dicts', 'fragment-dicts', 'graph'])} if nonlegacy else {})}


def malformed_case(rng):
    """dangling marks, conflicting marks, marks on single bonds"""
    kind = rng.choice(['dangling', 'conflict', 'lonely', 'triple'])
    if kind == 'dangling':
        s = rng.choice(['{[#A]=[#B]}.{#A=F/C=[$],#B=[$]=CCl}', '{[#A]}.{#A=F/C=CCl}', '{[#A][#B]}.{#A=F/C=C[$],#B=[$]Cl}'])
    elif kind == 'conflict':
        s = rng.choice(['{[#A]}.{#A=F/C(/Cl)=C/Br}'.replace('(/Cl)', '(\\Cl)'), '{[#A]=[#B]}.{#A=F\\C(/Cl)=[$],#B=[$]=C/Br}',
                        '{[#A]}.{#A=C(/F)(/Cl)=C/Br}'])
    elif kind == 'lonely':
        s = rng.choice(['{[#A]}.{#A=F/CCCl}', '{[#A][#B]}.{#A=F/C[$],#B=[$]CO}', '{[#A]}.{#A=C/C}'])
    else:
        s = rng.choice(['{[#A]}.{#A=F/C#C/F}', '{[#A]}.{#A=F/C=C=C/F}'])
    return {'kind': 'stereo-malformed', 's': s, 'all_atom': True}
