"""
In-process, instrumented runs of the real implementation.  Nothing here changes /repo: external
calls are observed by wrapping module attributes inside this process.
"""
import contextlib
import copy
import re

import networkx as nx

from lib import Unsupported, dump_mol, err_class, import_repo, order2, quiet, stable_hash
from lib import dump_template as lib_dump_template

cgsmiles = import_repo()
import pysmiles  # noqa: E402
from cgsmiles.resolve import MoleculeResolver  # noqa: E402


class AromRecorder:
    """wraps pysmiles.smiles_helper.correct_aromatic_rings: records the graph it is given and what
    it answers (aromatic flags, bond orders)"""

    def __init__(self):
        self.calls = []
        self.orig = None

    def __enter__(self):
        self.orig = pysmiles.smiles_helper.correct_aromatic_rings

        def wrapper(mol, *args, **kwargs):
            rec = {'pre': None, 'post': None, 'raised': None}
            try:
                rec['pre'] = dump_mol(mol)
            except Unsupported as err:
                rec['pre'] = {'unsupported': str(err)}
            self.calls.append(rec)
            try:
                out = self.orig(mol, *args, **kwargs)
            except BaseException as err:
                rec['raised'] = err_class(err)
                raise
            try:
                rec['post'] = {'flags': [[k, bool(d.get('aromatic', False))] for k, d in mol.nodes(data=True)],
                               'orders': [[a, b, order2(d.get('order', 1))] for a, b, d in mol.edges(data=True)]}
            except Unsupported as err:
                rec['post'] = {'unsupported': str(err)}
            return out
        pysmiles.smiles_helper.correct_aromatic_rings = wrapper
        return self

    def __exit__(self, *exc):
        pysmiles.smiles_helper.correct_aromatic_rings = self.orig
        return False


def meta_request(graph):
    """the coarse graph as one resolution step sees it: nodes in iteration order with the name the
    step will look up (atomname overrides fragname, resolve.py:367-368), edges in G.edges order"""
    nodes = []
    for k, d in graph.nodes(data=True):
        name = d.get('atomname', d.get('fragname'))
        if not isinstance(k, int) or k < 0 or name is None:
            raise Unsupported('meta node without integer key / name')
        nodes.append([k, name])
    edges = []
    for a, b, d in graph.edges(data=True):
        o = d.get('order', None)
        if not isinstance(o, int) or isinstance(o, bool) or o < 0:
            raise Unsupported(f'meta edge order {o!r}')
        edges.append([a, b, o])
    return {'nodes': nodes, 'edges': edges}


def frags_request(fragment_dict):
    def in_key_order(g):
        ks = list(g.nodes)
        return all(isinstance(k, int) for k in ks) and ks == sorted(ks)
    # templates from the package's own readers are numbered in insertion order: the canonical dump; a library built
    # elsewhere is handed to the model in the order the resolver will iterate it
    return [[name, dump_mol(g) if in_key_order(g) else lib_dump_template(g)] for name, g in fragment_dict.items()]


def run_steps(resolver):
    """drive a MoleculeResolver level by level; per level record what the model needs as input and
    what the implementation returned (or the exception class)"""
    steps = []
    # the libraries as handed over at construction: the resolver's own list is internal state (a resolver that
    # consumes or re-orders it must not change what the model is compared on)
    libraries = list(resolver.fragment_dicts)
    for level in range(resolver.resolutions):
        rec = {'level': level}
        all_atom = (resolver.resolution_counter == resolver.resolutions - 1 and resolver.last_all_atom)
        rec['all_atom'] = bool(all_atom)
        rec['legacy'] = bool(resolver.legacy)
        try:
            rec['meta'] = meta_request(resolver.molecule)
            rec['frags'] = frags_request(libraries[level])
        except Unsupported as err:
            rec['unsupported'] = str(err)
        with AromRecorder() as arom, quiet():
            try:
                meta, fine = resolver.resolve()
                rec['result'] = 'ok'
            except Exception as err:     # noqa: BLE001 - the class is the observation
                rec['result'] = err_class(err)
                rec['message'] = str(err)[:200]
        rec['arom_calls'] = arom.calls
        if rec['result'] == 'ok':
            # snapshots: the next level mutates these very objects (fragname := atomname, 'graph')
            rec['fine_graph'] = copy.deepcopy(fine)
            rec['meta_graph'] = copy.deepcopy(meta)
            try:
                rec['fine'] = dump_mol(fine)
                rec['coarse'] = [[k, list(meta.nodes[k]['graph'].nodes) if 'graph' in meta.nodes[k] else None]
                                 for k in meta.nodes]
            except Unsupported as err:
                rec['unsupported'] = str(err)
        steps.append(rec)
        if rec['result'] != 'ok':
            break
    return steps


def resolver_from_string(s, last_all_atom=True, legacy=True):
    with quiet():
        return MoleculeResolver.from_string(s, last_all_atom=last_all_atom, legacy=legacy)


def reorder_template(g, rng):
    """the same fragment graph with other node keys, inserted in another order (a library built outside the package)"""
    import networkx as nx
    old = list(g.nodes)
    keys = rng.sample(range(1, 3 * len(old) + 2), len(old))
    m = dict(zip(old, keys))
    h = nx.Graph()
    for n in rng.sample(old, len(old)):
        h.add_node(m[n], **copy.deepcopy(g.nodes[n]))
    edges = list(g.edges(data=True))
    rng.shuffle(edges)
    for a, b, d in edges:
        if rng.random() < 0.5:
            a, b = b, a
        h.add_edge(m[a], m[b], **copy.deepcopy(d))
    for n, d in h.nodes(data=True):
        # stereo references of a template are node keys
        if 'ez_isomer' in d or 'rs_isomer' in d or 'ez_isomer_class' in d:
            raise Unsupported('template with node references')
    return h


def resolver_for(case, last_all_atom=True, legacy=True):
    """the resolver for a case through the constructor the case names: the whole string (default), the base string plus
    the fragment libraries read separately, the base GRAPH plus the fragment string, or libraries whose template graphs
    carry other keys in another insertion order"""
    import re
    import random
    ctor = case.get('ctor', 'string')
    s = case['s']
    if ctor == 'string':
        return resolver_from_string(s, last_all_atom=last_all_atom, legacy=legacy)
    blocks = re.findall(r"\{[^\}]+\}", s)
    with quiet():
        if ctor == 'graph':
            from cgsmiles.read_cgsmiles import read_cgsmiles
            return MoleculeResolver.from_graph('.'.join(blocks[1:]), read_cgsmiles(blocks[0]),
                                               last_all_atom=last_all_atom, legacy=legacy)
        if ctor == 'graph-reinserted':
            # the caller's own base graph: the same keys and bonds, the nodes put in in another order
            import networkx as nx
            from cgsmiles.read_cgsmiles import read_cgsmiles
            g0 = read_cgsmiles(blocks[0])
            rng = random.Random(stable_hash(s))
            order = list(g0.nodes)
            rng.shuffle(order)
            g1 = nx.Graph()
            for n in order:
                g1.add_node(n, **g0.nodes[n])
            for a, b, d in g0.edges(data=True):
                g1.add_edge(a, b, **d)
            case['caller_names'] = {str(n): g0.nodes[n].get('fragname') for n in g0.nodes}
            return MoleculeResolver.from_graph('.'.join(blocks[1:]), g1, last_all_atom=last_all_atom, legacy=legacy)
        libs = MoleculeResolver.read_fragment_strings(blocks[1:], last_all_atom=last_all_atom)
        if ctor == 'reordered':
            rng = random.Random(stable_hash(s))
            libs = [{name: reorder_template(g, rng) for name, g in lib_.items()} for lib_ in libs]
        return MoleculeResolver.from_fragment_dicts(blocks[0], libs, last_all_atom=last_all_atom, legacy=legacy)


def model_request(step):
    """the driver request for one recorded step"""
    arom = None
    if step['arom_calls']:
        arom = step['arom_calls'][0].get('post')
        if arom is not None and 'unsupported' in arom:
            raise Unsupported(arom['unsupported'])
    return {'op': 'resolve', 'legacy': step['legacy'], 'all_atom': step['all_atom'],
            'meta': step['meta'], 'frags': step['frags'], 'arom': arom}
